import CalicoVerif.Proofs.C43Inv2
/-!
C43 — dirty-marking completeness: the update handlers, `flush`, and whole histories.
-/
namespace CalicoVerif.C43

local macro "triv" : tactic => `(tactic| first | rfl | trivial)

/-- what is carried from one handler stage to the next. -/
def MA (s : St) (sent : List (Cidr × RouteUpdate)) : Prop := Mid s sent ∧ Aux s

theorem MA.congr (s s' : St) (sent : List (Cidr × RouteUpdate)) (ht : s'.trie = s.trie) (hd : s'.dirty = s.dirty)
    (hme : s'.me = s.me) (hn : s'.nodes = s.nodes) (hnr : s'.nodeRoutes = s.nodeRoutes) (h : MA s sent) : MA s' sent :=
  ⟨mid_of_step s s' sent (Step.of_eq s s' ht hd hme) hn h.2 h.1, Aux.congr s s' ht hnr h.2⟩

theorem MA.edit {P : St → St} {k : Cidr} {f : RouteInfo → RouteInfo} (hE : Edit P k f) (s : St)
    (sent : List (Cidr × RouteUpdate)) (h : MA s sent)
    (hh : k.len = k.width ∨ ∀ v, (f v).hosts = v.hosts ∧ (f v).refs = v.refs)
    (hl : f (s.view k) ≠ {} → k.len ≤ k.width) (hb : ∀ v, (f v).block = v.block) : MA (P s) sent :=
  ⟨mid_of_step s (P s) sent (hE.step s) (hE.nodes s) h.2 h.1, Aux.edit hE s h.2 hh hl hb⟩

theorem foldl_inv {α} {P : St → Prop} (body : St → α → St) (xs : List α)
    (h : ∀ s x, x ∈ xs → P s → P (body s x)) (s : St) (hs : P s) : P (xs.foldl body s) := by
  induction xs generalizing s with
  | nil => exact hs
  | cons x xs ih =>
    exact ih (fun s y hy => h s y (List.mem_cons_of_mem _ hy)) _ (h s x List.mem_cons_self hs)

/-! ### pools -/

theorem empty_with_pool_none (v : RouteInfo) (h : ({ v with pool := none } : RouteInfo) ≠ {}) : v ≠ {} := by
  intro e; subst e; exact h rfl

theorem pool_step (s : St) (sent : List (Cidr × RouteUpdate)) (c : Cidr) (p : Option Pool) (hl : c.len ≤ c.width)
    (h : MA s sent) : MA (s.onPoolUpdate c p) sent := by
  unfold St.onPoolUpdate
  cases p with
  | some p =>
    simp only []
    have h0 : MA ({ s with pools := aset s.pools c p } : St) sent := MA.congr s _ sent rfl rfl rfl rfl rfl h
    exact MA.edit (Edit.updatePool c p) _ sent h0 (Or.inr (fun _ => ⟨rfl, rfl⟩)) (fun _ => hl) (fun _ => rfl)
  | none =>
    simp only []
    cases aget s.pools c with
    | none => exact h
    | some _ =>
      simp only []
      have h0 : MA ({ s with pools := adel s.pools c } : St) sent := MA.congr s _ sent rfl rfl rfl rfl rfl h
      exact MA.edit (Edit.removePool c) _ sent h0 (Or.inr (fun _ => ⟨rfl, rfl⟩))
        (fun hne => h0.2.l32 c (empty_with_pool_none _ hne)) (fun _ => rfl)

/-! ### blocks -/

theorem ma_delBody (s : St) (sent : List (Cidr × RouteUpdate)) (r : Nat × Cidr) (h : MA s sent) :
    MA ({ s.removeBlockRoute r.2 with nodeRoutes := nrRemove (s.removeBlockRoute r.2).nodeRoutes r }) sent := by
  have hE := Edit.removeBlockRoute r.2
  refine ⟨?_, Aux.delBody s r h.2⟩
  have hm1 : Mid (s.removeBlockRoute r.2) sent := mid_of_step s _ sent (hE.step s) (hE.nodes s) h.2 h.1
  intro c n ht hc h0
  exact hm1 c n ht hc h0

theorem ma_addBody (s : St) (sent : List (Cidr × RouteUpdate)) (r : Nat × Cidr) (hl : r.2.len ≤ r.2.width) (h : MA s sent) :
    MA ({ s.updateBlockRoute r.2 r.1 with nodeRoutes := nrAdd (s.updateBlockRoute r.2 r.1).nodeRoutes r }) sent := by
  have hE := Edit.updateBlockRoute r.2 r.1
  refine ⟨?_, Aux.addBody s r h.2 hl⟩
  have hm1 : Mid (s.updateBlockRoute r.2 r.1) sent := mid_of_step s _ sent (hE.step s) (hE.nodes s) h.2 h.1
  intro c n ht hc h0
  exact hm1 c n ht hc h0

theorem mem_aset' {κ α} [BEq κ] (m : List (κ × α)) (k : κ) (v : α) (e : κ × α) (h : e ∈ aset m k v) :
    e = (k, v) ∨ e ∈ m := by
  induction m with
  | nil => simp [aset] at h; exact Or.inl h
  | cons p m ih =>
    obtain ⟨k0, v0⟩ := p
    simp only [aset] at h
    split at h
    · rcases List.mem_cons.1 h with h | h
      · exact Or.inl h
      · exact Or.inr (List.mem_cons_of_mem _ h)
    · rcases List.mem_cons.1 h with h | h
      · exact Or.inr (h ▸ List.mem_cons_self)
      · rcases ih h with h | h
        · exact Or.inl h
        · exact Or.inr (List.mem_cons_of_mem _ h)

theorem routesFromBlock_len (c : Cidr) (aff : Option Nat) (allocs : List (Nat × Option Nat)) (hl : c.len ≤ c.width) :
    ∀ r ∈ routesFromBlock c aff allocs, r.1.len ≤ r.1.width := by
  unfold routesFromBlock
  simp only []
  have hfold : ∀ (m : List (Cidr × Nat)), (∀ r ∈ m, r.1.len ≤ r.1.width) →
      ∀ r ∈ allocs.foldl (fun (m : List (Cidr × Nat)) a =>
        match a.2 with
        | none => m
        | some h => if aff == some h then m else aset m (Cidr.hostOf c.v6 (c.addr + a.1)) h) m, r.1.len ≤ r.1.width := by
    induction allocs with
    | nil => intro m hm; exact hm
    | cons a as ih =>
      intro m hm
      simp only [List.foldl_cons]
      apply ih
      cases a.2 with
      | none => exact hm
      | some h =>
        simp only []
        split
        · exact hm
        · intro r hr
          rcases mem_aset' _ _ _ _ hr with e | e
          · rw [e]; cases c.v6 <;> exact Nat.le_refl _
          · exact hm r e
  have h0 := hfold [] (by intro r hr; simp at hr)
  cases aff with
  | none => exact h0
  | some h =>
    intro r hr
    rcases mem_aset' _ _ _ _ hr with e | e
    · rw [e]; exact hl
    · exact h0 r e

theorem block_step (s : St) (sent : List (Cidr × RouteUpdate)) (c : Cidr) (aff : Option Nat)
    (allocs : List (Nat × Option Nat)) (hl : c.len ≤ c.width) (h : MA s sent) :
    MA (s.onBlockUpdate c aff allocs) sent := by
  unfold St.onBlockUpdate
  simp only []
  apply foldl_inv (P := fun s => MA s sent)
  · intro s r hr hs
    apply ma_addBody s sent r _ hs
    have hr1 := (List.mem_filter.1 hr).1
    obtain ⟨x, hx, rfl⟩ := List.mem_map.1 hr1
    exact routesFromBlock_len c aff allocs hl x hx
  · apply foldl_inv (P := fun s => MA s sent)
    · intro s r _ hs
      exact ma_delBody s sent r hs
    · exact MA.congr s _ sent rfl rfl rfl rfl rfl h

theorem Aux.removeBlockRoute (s : St) (k : Cidr) (ha : Aux s) : Aux (s.removeBlockRoute k) := by
  have hE := Edit.removeBlockRoute k
  refine ⟨fun k' => ?_, fun k' => ?_, fun c n => ?_⟩
  · rw [hE.view s k']
    by_cases hk : k = k'
    · simp only [hk, if_true]; rw [← hk]; exact ha.h32 k
    · simp only [hk, if_false]; exact ha.h32 k'
  · rw [hE.view s k']
    by_cases hk : k = k'
    · simp only [hk, if_true]; rw [← hk]
      exact fun h => ha.l32 k (empty_with_block_none _ h)
    · simp only [hk, if_false]; exact ha.l32 k'
  · rw [hE.view s c, hE.nr s]
    by_cases hk : k = c
    · simp [hk]
    · simp only [hk, if_false]; exact ha.nr c n

theorem blockDel_step (s : St) (sent : List (Cidr × RouteUpdate)) (c : Cidr) (h : MA s sent) :
    MA (s.onBlockDelete c) sent := by
  unfold St.onBlockDelete
  simp only []
  have hf : MA (((aget s.blockRoutes c).getD []).foldl (fun (s : St) r => s.removeBlockRoute r.2) s) sent := by
    apply foldl_inv (P := fun s => MA s sent)
    · intro s r _ hs
      have hE := Edit.removeBlockRoute r.2
      exact ⟨mid_of_step s _ sent (hE.step s) (hE.nodes s) hs.2 hs.1, Aux.removeBlockRoute s r.2 hs.2⟩
    · exact h
  exact MA.congr (((aget s.blockRoutes c).getD []).foldl (fun (s : St) r => s.removeBlockRoute r.2) s) _ sent
    rfl rfl rfl rfl rfl hf

/-! ### nodes -/

theorem node_step (s : St) (sent : List (Cidr × RouteUpdate)) (n0 : Nat) (new : Option NodeInfo)
    (h : MA s sent) : MA (s.onNodeUpdate n0 new) sent := by
  obtain ⟨hm, ha⟩ := h
  unfold St.onNodeUpdate
  simp only []
  by_cases hsame : new = aget s.nodes n0
  · simp only [hsame, if_true]; exact ⟨hm, ha⟩
  simp only [hsame, if_false]
  generalize hold : aget s.nodes n0 = old at hsame ⊢
  obtain ⟨q1, hn1, hvisit⟩ := nodeVisit_quiet s n0 old new
  generalize hs1 : s.nodeVisit n0 old new = s1 at q1 hn1 hvisit ⊢
  obtain ⟨q2, hn2⟩ := nodeRefs_quiet s1 n0 old new
  generalize hs2 : s1.nodeRefs n0 old new = s2 at q2 hn2 ⊢
  have hold2 : old = aget s2.nodes n0 := by rw [hn2, hn1, hold]
  obtain ⟨q3, hn3⟩ := nodeHosts_quiet s2 n0 old new hold2
  generalize hs3 : s2.nodeHosts n0 old new = s3 at q3 hn3 ⊢
  obtain ⟨q4, hn4, hmark⟩ := markAll_quiet s3 n0
  generalize hs4 : s3.markAllNodeRoutesDirty n0 = s4 at q4 hn4 hmark ⊢
  have Q : Quiet s s4 := ((q1.trans q2).trans q3).trans q4
  refine ⟨?_, Q.aux ha⟩
  have hnodes : ∀ m, aget s4.nodes m = if n0 = m then new else aget s.nodes m := by
    intro m; rw [hn4, hn3 m, hn2, hn1]
  intro c n ht hc h0
  have hv := Q.step.same c hc
  have ht' : Tracked s c n := by unfold Tracked at ht ⊢; rw [← hv]; exact ht
  have hne : s4.view c ≠ {} := view_block_ne_empty _ n ht.1
  have hne' : s.view c ≠ {} := by rw [← hv]; exact hne
  have hl : c.len ≤ c.width := ha.l32 c hne'
  have hpath : fullPath s4.view c = fullPath s.view c := fullPath_congr _ _ c hv (Q.step.anc c hc hne hl)
  have hdst := dstNode_tracked s ha c n ht'
  -- the route's node is not the node that changed
  have hnn : n0 ≠ n := by
    intro e
    obtain ⟨j, hj⟩ := ha.nr c n ht'.1
    have hnr3 : s3.nodeRoutes = s.nodeRoutes := (q3.nr.trans q2.nr).trans q1.nr
    exact hc (hmark c (j + 1) (by rw [hnr3, e]; exact hj))
  have hroute : s4.route c = s.route c := by
    unfold St.route
    rw [hpath, Q.step.me]
    apply routeOfPath_nodes_congr
    intro n' hn'
    rw [hdst] at hn'
    have : n' = n := by cases hn'; rfl
    subst this
    have hag : aget s4.nodes n' = aget s.nodes n' := by rw [hnodes]; simp [hnn]
    refine ⟨hag, ?_⟩
    unfold nodeInOurSubnet
    rw [hag]
    cases hoi : aget s.nodes n' with
    | none => rfl
    | some oi =>
      simp only []
      rw [hnodes s.me]
      by_cases hme : n0 = s.me
      · simp only [hme, if_true]
        have holdme : aget s.nodes s.me = old := by rw [← hme]; exact hold
        rw [holdme]
        by_cases hcid : cidrOf c.v6 old = cidrOf c.v6 new
        · exact (inSub_cidr_eq c.v6 old new oi hcid).symm
        · -- the visit of c's family ran; had the status flipped, `c` would be dirty
          obtain ⟨ri, hri⟩ := view_ne_empty s c hne'
          have hget : s.get c = ri := by simp [St.get, hri]
          have hmem := aget_some_mem _ c ri hri
          have hrefs : ri.refs = [] := by have := ht'.2.2; simpa [St.view, hget, strip] using this
          have hblock : ri.block = some n' := by have := ht'.1; simpa [St.view, hget, strip] using this
          have hcond : (n0 == s.me && cidrOf c.v6 old != cidrOf c.v6 new) = true := by simp [hme, hcid]
          have hhosts : ri.hosts = [] := by have := ht'.2.1; simpa [St.view, hget, strip] using this
          have hflip : subnetFlip c.v6 s old new ri = (inSub c.v6 old oi != inSub c.v6 new oi) := by
            unfold subnetFlip visitNode
            simp only [hrefs, hhosts, hblock]
            have : (n' == s.me) = false := by
              simp only [beq_eq_false_iff_ne, ne_eq]; intro e; exact hnn (hme.trans e.symm)
            simp only [this, Bool.false_eq_true, if_false, hoi]
          by_cases hf : subnetFlip c.v6 s old new ri = true
          · have hd1 : c ∈ s1.dirty := hvisit c.v6 hcond c ri hmem rfl hf
            exact absurd (q4.step.mono c (q3.step.mono c (q2.step.mono c hd1))) hc
          · rw [hflip] at hf
            have : inSub c.v6 old oi = inSub c.v6 new oi := by
              cases h1 : inSub c.v6 old oi <;> cases h2 : inSub c.v6 new oi <;> simp [h1, h2] at hf ⊢
            exact this.symm
      · simp [hme]
  rw [hroute]
  exact hm c n ht' (fun hd => hc (Q.step.mono c hd)) h0

end CalicoVerif.C43
