import CalicoVerif.Proofs.C01Lbl
import CalicoVerif.Proofs.C01ProfAct
/-! C01 helper: the RuleScanner's `active` table for POLICIES versus the ARC's bookkeeping.

After any well-formed history, policy `pk n` is in the `active` table iff `policyIDToEndpointKeys` has an
entry for `n` (`polActive n`), and then with the rules of the ARC's CURRENT `allPolicies n`.  While a policy
update is being processed (`allPolicies` already replaced, matches being re-scanned) the table may hold the
previous rules for that one policy (`x = some n`); the `sendPolicyUpdate` that ends the update repairs it. -/
namespace CalicoVerif.C01
open CalicoVerif C02

def polAct (g : Graph) (k : PolicyKey) : Option RulesIn := mget g.active (.pol k)

/-- `Keep` and the same policy rows of the `active` table -/
structure KeepA (g g' : Graph) : Prop where
  keep : Keep g g'
  act : ∀ k, polAct g' k = polAct g k

theorem KeepA.rfl' (g : Graph) : KeepA g g := ⟨Keep.rfl' g, fun _ => rfl⟩
theorem KeepA.trans {a b c : Graph} (h1 : KeepA a b) (h2 : KeepA b c) : KeepA a c :=
  ⟨h1.keep.trans h2.keep, fun k => (h2.act k).trans (h1.act k)⟩
theorem KeepA.pre {a b c : Graph} (h2 : KeepA b c) (h1 : KeepA a b) : KeepA a c := h1.trans h2

theorem keepA_of {g g' : Graph} (k : Keep g g') (h : g'.active = g.active) : KeepA g g' :=
  ⟨k, fun _ => by unfold polAct; rw [h]⟩

theorem keepA_foldl {α : Type} (f : Graph → α → Graph) (hf : ∀ g a, KeepA g (f g a)) :
    ∀ (l : List α) (g : Graph), KeepA g (l.foldl f g)
  | [], g => KeepA.rfl' g
  | a :: l, g => (hf g a).trans (keepA_foldl f hf l (f g a))

theorem keepA_emit (g : Graph) (cs : List Call) : KeepA g (g.emit cs) := keepA_of (keep_emit g cs) (active_emit g cs)
theorem keepA_idxOp (g : Graph) (op : C04.Op Str) : KeepA g (g.idxOp op) := keepA_of (keep_idxOp g op) (active_idxOp g op)

theorem keepA_idxEndpoint (g : Graph) (key : EpKey) (v : Option EpVal) : KeepA g (g.idxEndpoint key v) := by
  unfold Graph.idxEndpoint; cases v <;> exact keepA_idxOp _ _

theorem keepA_idxNetset (g : Graph) (name : String) (v : Option NetSetVal) : KeepA g (g.idxNetset name v) := by
  unfold Graph.idxNetset; cases v <;> exact keepA_idxOp _ _

theorem keepA_scanRules_prof (H : IdFn) (g : Graph) (p : String) (r : Option RulesIn) :
    KeepA g (g.scanRules H (.prof p) r) :=
  ⟨keep_scanRules H g _ r, fun k => by unfold polAct; rw [active_scanRules, mget_setOrDel]; simp⟩

theorem keepA_profEvents (H : IdFn) (g : Graph) (evs : List (C05.Event RulesIn)) : KeepA g (g.profEvents H evs) := by
  unfold Graph.profEvents
  apply keepA_foldl
  intro g e
  cases e with
  | active p r => cases r <;> exact keepA_scanRules_prof H g _ _
  | inactive p => exact keepA_scanRules_prof H g _ _

theorem keepA_arcProfStep (H : IdFn) (g : Graph) (u : C05.Upd RulesIn) : KeepA g (g.arcProfStep H u) := by
  unfold Graph.arcProfStep
  exact KeepA.pre (keepA_profEvents H _ _) (keepA_of ⟨rfl, rfl, rfl, rfl, rfl, rfl⟩ rfl)

/-! ### `polActive` under `sadd` / `sdel` -/

theorem polActive_iff (g : Graph) (n : Nat) : g.polActive n = true ↔ ∃ i, (n, i) ∈ g.polEps := by
  unfold Graph.polActive
  rw [List.any_eq_true]
  constructor
  · rintro ⟨⟨a, b⟩, hm, he⟩
    simp only [decide_eq_true_eq] at he
    subst he
    exact ⟨b, hm⟩
  · rintro ⟨i, hm⟩
    exact ⟨(n, i), hm, by simp⟩

theorem polActive_false_iff (g : Graph) (n : Nat) : g.polActive n = false ↔ ∀ i, (n, i) ∉ g.polEps := by
  constructor
  · intro h i hm
    have := (polActive_iff g n).mpr ⟨i, hm⟩
    rw [h] at this; cases this
  · intro h
    cases hp : g.polActive n with
    | false => rfl
    | true =>
      obtain ⟨i, hm⟩ := (polActive_iff g n).mp hp
      exact absurd hm (h i)

/-! ### the invariant -/

structure PolAct (N : Numbering) (x : Option Nat) (g : Graph) : Prop where
  range : ∀ k, (polAct g k).isSome = true → ∃ n, k = N.pk n
  off : ∀ n, g.polActive n = false → polAct g (N.pk n) = none
  on : ∀ n, x ≠ some n → g.polActive n = true → polAct g (N.pk n) = (mget g.allPolicies n).map (·.rules)

theorem polAct_frame {N : Numbering} {x : Option Nat} {g g' : Graph} (hi : PolAct N x g) (h1 : g'.active = g.active)
    (h2 : g'.polEps = g.polEps) (h3 : g'.allPolicies = g.allPolicies) : PolAct N x g' := by
  have ha : ∀ k, polAct g' k = polAct g k := fun k => by unfold polAct; rw [h1]
  have hp : ∀ n, g'.polActive n = g.polActive n := fun n => by unfold Graph.polActive; rw [h2]
  exact ⟨fun k h => hi.range k (by rw [← ha]; exact h), fun n h => by rw [ha]; exact hi.off n (by rw [← hp]; exact h),
    fun n hx h => by rw [ha, h3]; exact hi.on n hx (by rw [← hp]; exact h)⟩

theorem polAct_keepA {N : Numbering} {x : Option Nat} {g g' : Graph} (hi : PolAct N x g) (k : KeepA g g') :
    PolAct N x g' := by
  have hp : ∀ n, g'.polActive n = g.polActive n := fun n => by unfold Graph.polActive; rw [k.keep.polEps]
  exact ⟨fun q h => hi.range q (by rw [← k.act]; exact h), fun n h => by rw [k.act]; exact hi.off n (by rw [← hp]; exact h),
    fun n hx h => by rw [k.act, k.keep.allPolicies]; exact hi.on n hx (by rw [← hp]; exact h)⟩

/-- `sendPolicyUpdate n` for a registered `n`: row `pk n` of the table is refreshed from the ARC's state;
the other rows, `polEps` and `allPolicies` are untouched. -/
theorem sendPolicyUpdate_act (H : IdFn) (N : Numbering) (g : Graph) (n : Nat) (hk : g.polKey n = N.pk n) :
    Keep g (g.sendPolicyUpdate H n) ∧
    (∀ k, k ≠ N.pk n → polAct (g.sendPolicyUpdate H n) k = polAct g k) ∧
    (g.polActive n = false → polAct (g.sendPolicyUpdate H n) (N.pk n) = none) ∧
    (g.polActive n = true → ∀ pv, mget g.allPolicies n = some pv →
      polAct (g.sendPolicyUpdate H n) (N.pk n) = some pv.rules) ∧
    (g.polActive n = true → mget g.allPolicies n = none → ∀ k, polAct (g.sendPolicyUpdate H n) k = polAct g k) := by
  refine ⟨keep_sendPolicyUpdate H g n, ?_, ?_, ?_, ?_⟩
  · intro k hne
    unfold Graph.sendPolicyUpdate polAct
    rw [hk]
    have hne' : ¬ RulesId.pol k = RulesId.pol (N.pk n) := fun e => hne (by cases e; rfl)
    split
    · split
      · rw [active_scanRules, mget_setOrDel]; simp [hne']
      · rfl
    · rw [active_scanRules, mget_setOrDel]; simp [hne']
  · intro hp
    unfold Graph.sendPolicyUpdate polAct
    rw [hk]
    simp only [hp, Bool.false_eq_true, if_false]
    rw [active_scanRules, mget_setOrDel]; simp
  · intro hp pv hpv
    unfold Graph.sendPolicyUpdate polAct
    rw [hk]
    simp only [hp, if_true, hpv]
    rw [active_scanRules, mget_setOrDel]; simp
  · intro hp hpv k
    unfold Graph.sendPolicyUpdate polAct
    simp only [hp, if_true, hpv]

theorem polAct_onMatchEvent (H : IdFn) {N : Numbering} {x : Option Nat} {g : Graph} (hi : PolAct N x g)
    (ev : C07.Event) (hp : g.polKey (evSel ev) = N.pk (evSel ev)) : PolAct N x (g.onMatchEvent H ev) := by
  cases ev with
  | started s i =>
    simp only [evSel] at hp
    simp only [Graph.onMatchEvent]
    refine polAct_frame (g := if (!g.polActive s) = true then
        Graph.sendPolicyUpdate H { g with polEps := C02.sadd (s, i) g.polEps } s
        else { g with polEps := C02.sadd (s, i) g.polEps }) ?_ rfl rfl rfl
    -- activity after the insertion
    have hact : ∀ n, ({ g with polEps := C02.sadd (s, i) g.polEps } : Graph).polActive n = true ↔
        (g.polActive n = true ∨ n = s) := by
      intro n
      rw [polActive_iff, polActive_iff]
      constructor
      · rintro ⟨j, hj⟩
        have : (n, j) = (s, i) ∨ (n, j) ∈ g.polEps := mem_sadd.mp hj
        rcases this with h | h
        · simp only [Prod.mk.injEq] at h; exact Or.inr h.1
        · exact Or.inl ⟨j, h⟩
      · rintro (⟨j, hj⟩ | rfl)
        · exact ⟨j, mem_sadd.mpr (Or.inr hj)⟩
        · exact ⟨i, mem_sadd.mpr (Or.inl rfl)⟩
    cases hw : g.polActive s with
    | true =>
      simp only [Bool.not_true, Bool.false_eq_true, if_false]
      -- nothing sent; activity unchanged
      have hsame : ∀ n, ({ g with polEps := C02.sadd (s, i) g.polEps } : Graph).polActive n = g.polActive n := by
        intro n
        cases h1 : g.polActive n with
        | true => exact (hact n).mpr (Or.inl h1)
        | false =>
          cases h2 : ({ g with polEps := C02.sadd (s, i) g.polEps } : Graph).polActive n with
          | false => rfl
          | true =>
            rcases (hact n).mp h2 with h | h
            · rw [h1] at h; cases h
            · subst h; rw [hw] at h1; cases h1
      exact ⟨hi.range, fun n h => hi.off n (by rw [← hsame]; exact h),
        fun n hx h => hi.on n hx (by rw [← hsame]; exact h)⟩
    | false =>
      simp only [Bool.not_false, if_true]
      have hk1 : ({ g with polEps := C02.sadd (s, i) g.polEps } : Graph).polKey s = N.pk s := hp
      obtain ⟨kp, hne, _, hon, hnone⟩ := sendPolicyUpdate_act H N { g with polEps := C02.sadd (s, i) g.polEps } s hk1
      have hs1 : ({ g with polEps := C02.sadd (s, i) g.polEps } : Graph).polActive s = true := (hact s).mpr (Or.inr rfl)
      have hpa : ∀ n, (Graph.sendPolicyUpdate H { g with polEps := C02.sadd (s, i) g.polEps } s).polActive n = true ↔
          (g.polActive n = true ∨ n = s) := by
        intro n
        have : (Graph.sendPolicyUpdate H { g with polEps := C02.sadd (s, i) g.polEps } s).polActive n =
            ({ g with polEps := C02.sadd (s, i) g.polEps } : Graph).polActive n := by
          unfold Graph.polActive; rw [kp.polEps]
        rw [this]; exact hact n
      have hall : (Graph.sendPolicyUpdate H { g with polEps := C02.sadd (s, i) g.polEps } s).allPolicies = g.allPolicies :=
        kp.allPolicies
      have hoffs : polAct g (N.pk s) = none := hi.off s hw
      refine ⟨?_, ?_, ?_⟩
      · intro k hk
        by_cases hks : k = N.pk s
        · exact ⟨s, hks⟩
        · rw [hne k hks] at hk; exact hi.range k hk
      · intro n hn
        have hn' : ¬ (g.polActive n = true ∨ n = s) := fun h => by
          have := (hpa n).mpr h; rw [hn] at this; cases this
        have hns : n ≠ s := fun e => hn' (Or.inr e)
        have : N.pk n ≠ N.pk s := fun e => hns (N.pkInj _ _ e)
        rw [hne _ this]
        apply hi.off n
        cases h : g.polActive n with
        | false => rfl
        | true => exact absurd (Or.inl h) hn'
      · intro n hx hn
        rw [hall]
        by_cases hns : n = s
        · subst hns
          cases hpv : mget g.allPolicies n with
          | none =>
            rw [hnone hs1 hpv]; exact hoffs
          | some pv =>
            rw [hon hs1 pv hpv]; rfl
        · have : N.pk n ≠ N.pk s := fun e => hns (N.pkInj _ _ e)
          rw [hne _ this]
          apply hi.on n hx
          rcases (hpa n).mp hn with h | h
          · exact h
          · exact absurd h hns
  | stopped s i =>
    simp only [evSel] at hp
    simp only [Graph.onMatchEvent]
    refine polAct_frame (g := if (!Graph.polActive { g with polEps := C02.sdel (s, i) g.polEps } s) = true then
        Graph.sendPolicyUpdate H { g with polEps := C02.sdel (s, i) g.polEps } s
        else { g with polEps := C02.sdel (s, i) g.polEps }) ?_ rfl rfl rfl
    -- activity after the removal
    have hmono : ∀ n, ({ g with polEps := C02.sdel (s, i) g.polEps } : Graph).polActive n = true → g.polActive n = true := by
      intro n h
      obtain ⟨j, hj⟩ := (polActive_iff _ n).mp h
      exact (polActive_iff g n).mpr ⟨j, (mem_sdel.mp hj).1⟩
    have hother : ∀ n, n ≠ s → ({ g with polEps := C02.sdel (s, i) g.polEps } : Graph).polActive n = g.polActive n := by
      intro n hns
      cases h1 : g.polActive n with
      | false =>
        cases h2 : ({ g with polEps := C02.sdel (s, i) g.polEps } : Graph).polActive n with
        | false => rfl
        | true => have := hmono n h2; rw [h1] at this; cases this
      | true =>
        obtain ⟨j, hj⟩ := (polActive_iff g n).mp h1
        exact (polActive_iff _ n).mpr ⟨j, mem_sdel.mpr ⟨hj, fun e => hns (by simp only [Prod.mk.injEq] at e; exact e.1)⟩⟩
    cases hw : ({ g with polEps := C02.sdel (s, i) g.polEps } : Graph).polActive s with
    | true =>
      simp only [Bool.not_true, Bool.false_eq_true, if_false]
      have hsame : ∀ n, ({ g with polEps := C02.sdel (s, i) g.polEps } : Graph).polActive n = g.polActive n := by
        intro n
        by_cases hns : n = s
        · subst hns; rw [hw, hmono n hw]
        · exact hother n hns
      exact ⟨hi.range, fun n h => hi.off n (by rw [← hsame]; exact h),
        fun n hx h => hi.on n hx (by rw [← hsame]; exact h)⟩
    | false =>
      simp only [Bool.not_false, if_true]
      have hk1 : ({ g with polEps := C02.sdel (s, i) g.polEps } : Graph).polKey s = N.pk s := hp
      obtain ⟨kp, hne, hoff, _, _⟩ := sendPolicyUpdate_act H N { g with polEps := C02.sdel (s, i) g.polEps } s hk1
      have hpa : ∀ n, (Graph.sendPolicyUpdate H { g with polEps := C02.sdel (s, i) g.polEps } s).polActive n =
          ({ g with polEps := C02.sdel (s, i) g.polEps } : Graph).polActive n := by
        intro n; unfold Graph.polActive; rw [kp.polEps]
      have hall : (Graph.sendPolicyUpdate H { g with polEps := C02.sdel (s, i) g.polEps } s).allPolicies = g.allPolicies :=
        kp.allPolicies
      refine ⟨?_, ?_, ?_⟩
      · intro k hk
        by_cases hks : k = N.pk s
        · exact ⟨s, hks⟩
        · rw [hne k hks] at hk; exact hi.range k hk
      · intro n hn
        rw [hpa] at hn
        by_cases hns : n = s
        · subst hns; exact hoff hw
        · have : N.pk n ≠ N.pk s := fun e => hns (N.pkInj _ _ e)
          rw [hne _ this]
          exact hi.off n (by rw [← hother n hns]; exact hn)
      · intro n hx hn
        rw [hpa] at hn
        rw [hall]
        have hns : n ≠ s := fun e => by subst e; rw [hw] at hn; cases hn
        have : N.pk n ≠ N.pk s := fun e => hns (N.pkInj _ _ e)
        rw [hne _ this]
        exact hi.on n hx (by rw [← hother n hns]; exact hn)

theorem polAct_foldl_onMatchEvent (H : IdFn) {N : Numbering} {x : Option Nat} : ∀ (evs : List C07.Event) (g : Graph),
    PolAct N x g → (∀ ev ∈ evs, g.polKey (evSel ev) = N.pk (evSel ev)) →
    PolAct N x (evs.foldl (Graph.onMatchEvent H) g)
  | [], _, hi, _ => hi
  | ev :: t, g, hi, hk => by
    simp only [List.foldl_cons]
    obtain ⟨f1, _, _, _⟩ := onMatchEvent_fields H g ev
    exact polAct_foldl_onMatchEvent H t _ (polAct_onMatchEvent H hi ev (hk ev (List.mem_cons_self ..))) (by
      intro e' he'
      unfold Graph.polKey
      rw [f1]
      exact hk e' (List.mem_cons_of_mem _ he'))

/-- one label-index operation (same side conditions as `mInv_lblStep`) -/
theorem polAct_lblStep (H : IdFn) {N : Numbering} {x : Option Nat} {g : Graph} (hm : MInv N g) (hi : PolAct N x g)
    (op : C07.Op)
    (hP : ∀ n, (C07.lookup n (op.apply g.lbl).1.sels).isSome = true → mget g.polKeys n = some (N.pk n)) :
    PolAct N x (g.lblStep H (op.apply g.lbl)) := by
  unfold Graph.lblStep
  have hids := apply_ids hm.arc.idx op
  refine polAct_foldl_onMatchEvent H _ _ (polAct_frame hi rfl rfl rfl) ?_
  intro ev hev
  apply polKey_of
  rcases (hids ev hev).1 with h | h
  · exact hm.regP _ h
  · exact hP _ h


theorem mInv_keep {N : Numbering} {g g' : Graph} (hi : MInv N g) (k : Keep g g') : MInv N g' :=
  mInv_frame hi (by rw [k.res]) k.polKeys k.epKeys k.polEps k.lbl

theorem polAct_weaken {N : Numbering} {x : Option Nat} {g : Graph} (hi : PolAct N none g) : PolAct N x g :=
  ⟨hi.range, hi.off, fun n _ h => hi.on n (by simp) h⟩

/-- the policy path of one datastore update keeps the `active` table in step with the ARC -/
theorem polAct_step (H : IdFn) {N : Numbering} {g : Graph} {ds : DS} (hi : LInv N g ds) (hpa : PolAct N none g)
    (u : Upd) (hu : N.updOk u) (hp : selParses u) : PolAct N none (g.step H u) := by
  cases u with
  | endpoint nid key isLocal v =>
    obtain ⟨hk, hl⟩ := hu
    subst hk; subst hl
    simp only [Graph.step]
    have hm0 : MInv N { g with epKeys := C02.mset nid (N.ek nid) g.epKeys } := by
      refine ⟨arcInv_frame hi.m.arc rfl rfl, hi.m.regP, ?_, hi.m.mm⟩
      intro i hsome
      show mget (C02.mset nid (N.ek nid) g.epKeys) i = _
      rw [mget_mset]
      by_cases hin : i = nid
      · simp [hin]
      · simp only [hin, if_false]; exact hi.m.regE i hsome
    have hpa0 : PolAct N none { g with epKeys := C02.mset nid (N.ek nid) g.epKeys } := polAct_frame hpa rfl rfl rfl
    refine polAct_keepA ?_ (keepA_idxEndpoint _ (N.ek nid) v)
    by_cases hl : N.lc nid = true
    · simp only [hl, if_true]
      unfold Graph.localEndpoint
      refine polAct_frame (g := Graph.arcEndpoint H { g with epKeys := C02.mset nid (N.ek nid) g.epKeys } nid (N.ek nid) v)
        ?_ rfl rfl rfl
      unfold Graph.arcEndpoint
      simp only []
      have kp := keepA_arcProfStep H { g with epKeys := C02.mset nid (N.ek nid) g.epKeys }
        (.endpoint (epKeyStr (N.ek nid)) (v.map (·.profiles)))
      have hm1 := mInv_keep hm0 kp.keep
      have hpa1 := polAct_keepA hpa0 kp
      cases v with
      | none =>
        simp only []
        rw [show C07.deleteLabels _ nid = C07.Op.apply _ (.deleteLabels nid) from rfl]
        exact polAct_lblStep H hm1 hpa1 (.deleteLabels nid) (fun n hn => hm1.regP n hn)
      | some e =>
        simp only []
        rw [show C07.updateLabels _ nid (strLabels e.labels) (e.profiles.map String.toList) =
          C07.Op.apply _ (.updateLabels nid (strLabels e.labels) (e.profiles.map String.toList)) from rfl]
        exact polAct_lblStep H hm1 hpa1 _ (fun n hn => hm1.regP n hn)
    · simp only [hl, if_false]
      exact hpa0
  | netset name v => exact polAct_keepA hpa (keepA_idxNetset g name v)
  | profLabels pid v =>
    simp only [Graph.step]
    unfold Graph.profLabels
    cases v with
    | none =>
      simp only []
      refine polAct_keepA ?_ (keepA_idxOp _ _)
      rw [show C07.deleteParentLabels _ pid.toList = C07.Op.apply _ (.deleteParentLabels pid.toList) from rfl]
      exact polAct_lblStep H hi.m hpa _ (fun n hn => hi.m.regP n hn)
    | some ls =>
      simp only []
      refine polAct_keepA ?_ (keepA_idxOp _ _)
      rw [show C07.updateParentLabels _ pid.toList (strLabels ls) =
        C07.Op.apply _ (.updateParentLabels pid.toList (strLabels ls)) from rfl]
      exact polAct_lblStep H hi.m hpa _ (fun n hn => hi.m.regP n hn)
  | profRules pid v => exact polAct_keepA hpa (keepA_arcProfStep H g _)
  | tier name v => exact polAct_frame hpa rfl rfl rfl
  | policy nid key v =>
    have hk : key = N.pk nid := hu
    subst hk
    simp only [Graph.step]
    refine polAct_frame (g := Graph.arcPolicy H { g with polKeys := C02.mset nid (N.pk nid) g.polKeys } nid v) ?_ rfl rfl rfl
    have hm0 : MInv N { g with polKeys := C02.mset nid (N.pk nid) g.polKeys } := by
      refine ⟨arcInv_frame hi.m.arc rfl rfl, ?_, hi.m.regE, hi.m.mm⟩
      intro i hsome
      show mget (C02.mset nid (N.pk nid) g.polKeys) i = _
      rw [mget_mset]
      by_cases hin : i = nid
      · simp [hin]
      · simp only [hin, if_false]; exact hi.m.regP i hsome
    have hreg : mget ({ g with polKeys := C02.mset nid (N.pk nid) g.polKeys } : Graph).polKeys nid = some (N.pk nid) := by
      show mget (C02.mset nid (N.pk nid) g.polKeys) nid = _
      rw [mget_mset]; simp
    have hpa0 : PolAct N none { g with polKeys := C02.mset nid (N.pk nid) g.polKeys } := polAct_frame hpa rfl rfl rfl
    have hsels0 : ∀ n, C07.lookup n ({ g with polKeys := C02.mset nid (N.pk nid) g.polKeys } : Graph).lbl.sels =
        (mget ds.pols n).bind (fun x => selOf x.2.sel) := hi.sels
    generalize ({ g with polKeys := C02.mset nid (N.pk nid) g.polKeys } : Graph) = g0 at hm0 hreg hpa0 hsels0 ⊢
    unfold Graph.arcPolicy
    cases v with
    | none =>
      simp only []
      rw [show C07.deleteSelector _ nid = C07.Op.apply _ (.deleteSelector nid) from rfl]
      have hmA : MInv N { g0 with allPolicies := C02.mdel nid g0.allPolicies } := mInv_frame hm0 rfl rfl rfl rfl rfl
      have hpaA : PolAct N (some nid) { g0 with allPolicies := C02.mdel nid g0.allPolicies } := by
        refine ⟨hpa0.range, hpa0.off, ?_⟩
        intro n hx hn
        have hne : n ≠ nid := fun e => hx (by rw [e])
        show polAct g0 (N.pk n) = (mget (C02.mdel nid g0.allPolicies) n).map _
        rw [mget_mdel]
        simp only [hne, if_false]
        exact hpa0.on n (by simp) hn
      have hP : ∀ n, (C07.lookup n (C07.Op.apply g0.lbl (.deleteSelector nid)).1.sels).isSome = true →
          mget g0.polKeys n = some (N.pk n) := by
        intro n hn
        have : (C07.lookup n (C07.erase nid g0.lbl.sels)).isSome = true := hn
        rw [C07.lookup_erase] at this
        by_cases hin : n = nid
        · simp [hin] at this
        · simp only [hin, if_false] at this; exact hm0.regP n this
      have h2 := polAct_lblStep H hmA hpaA (.deleteSelector nid) hP
      obtain ⟨hm2, hlbl, _, _, _⟩ := mInv_lblStep H hmA (.deleteSelector nid) hP (fun i hn => hm0.regE i hn)
      -- after `DeleteSelector` no match of `nid` is left
      have hoff : (Graph.lblStep H { g0 with allPolicies := C02.mdel nid g0.allPolicies }
          (C07.Op.apply g0.lbl (.deleteSelector nid))).polActive nid = false := by
        rw [polActive_false_iff]
        intro i hm
        have h3 := (hm2.arc.mirrors (nid, i)).mp hm
        obtain ⟨sel, _, h4, _, _⟩ := (hm2.arc.idx.sound (nid, i)).mp h3
        simp only [] at h4
        rw [hlbl] at h4
        have : C07.lookup nid (C07.erase nid g0.lbl.sels) = some sel := h4
        rw [C07.lookup_erase] at this
        simp at this
      refine ⟨h2.range, h2.off, ?_⟩
      intro n _ hn
      by_cases hin : n = nid
      · subst hin; rw [hoff] at hn; cases hn
      · exact h2.on n (fun e => hin (by cases e; rfl)) hn
    | some pv =>
      simp only []
      have hsel : (selOf pv.sel).isSome = true := hp
      by_cases hsame : mget g0.allPolicies nid = some pv
      · simp only [hsame, if_true]
        exact hpa0
      · simp only [hsame, if_false]
        unfold Graph.arcPolicyChanged
        cases hsl : selOf pv.sel with
        | none => rw [hsl] at hsel; cases hsel
        | some sel =>
          have hparse : C06.parse pv.sel = .ok sel := by
            unfold selOf at hsl
            cases hq : C06.parse pv.sel with
            | error e => rw [hq] at hsl; cases hsl
            | ok m => rw [hq] at hsl; simp only [Option.some.injEq] at hsl; rw [hsl]
          simp only [hparse]
          rw [show C07.updateSelector _ nid sel = C07.Op.apply _ (.updateSelector nid sel) from rfl]
          have hwf : C06.WF sel := C06.parse_wf hparse
          have hmA : MInv N { g0 with allPolicies := C02.mset nid pv g0.allPolicies } :=
            mInv_frame hm0 rfl rfl rfl rfl rfl
          have hpaA : PolAct N (some nid) { g0 with allPolicies := C02.mset nid pv g0.allPolicies } := by
            refine ⟨hpa0.range, hpa0.off, ?_⟩
            intro n hx hn
            have hne : n ≠ nid := fun e => hx (by rw [e])
            show polAct g0 (N.pk n) = (mget (C02.mset nid pv g0.allPolicies) n).map _
            rw [mget_mset]
            simp only [hne, if_false]
            exact hpa0.on n (by simp) hn
          have hold : ∀ old, C07.lookup nid g0.lbl.sels = some old → C06.WF old := by
            intro old ho
            rw [hsels0 nid] at ho
            cases hd : mget ds.pols nid with
            | none => rw [hd] at ho; cases ho
            | some x => rw [hd] at ho; exact selOf_wf ho
          have hP : ∀ n, (C07.lookup n (C07.Op.apply g0.lbl (.updateSelector nid sel)).1.sels).isSome = true →
              mget g0.polKeys n = some (N.pk n) := by
            intro n hn
            have : (C07.lookup n (C07.updateSelector g0.lbl nid sel).1.sels).isSome = true := hn
            rw [updateSelector_sels g0.lbl nid sel hwf hold] at this
            by_cases hin : n = nid
            · subst hin; exact hreg
            · simp only [hin, if_false] at this; exact hm0.regP n this
          have h2 := polAct_lblStep H hmA hpaA (.updateSelector nid sel) hP
          obtain ⟨hm2, _, f1, _, f3⟩ := mInv_lblStep H hmA (.updateSelector nid sel) hP (fun i hn => by
            have : (C07.lookup i (C07.updateSelector g0.lbl nid sel).1.items).isSome = true := hn
            rw [(updateSelector_other g0.lbl nid sel).1] at this
            exact hm0.regE i this)
          generalize Graph.lblStep H { g0 with allPolicies := C02.mset nid pv g0.allPolicies }
            (C07.Op.apply ({ g0 with allPolicies := C02.mset nid pv g0.allPolicies } : Graph).lbl (.updateSelector nid sel)) = g2
            at h2 hm2 f1 f3 ⊢
          have hall : mget g2.allPolicies nid = some pv := by
            rw [f3]
            show mget (C02.mset nid pv g0.allPolicies) nid = _
            rw [mget_mset]; simp
          have hk2 : g2.polKey nid = N.pk nid := polKey_of (by rw [f1]; exact hreg)
          cases hact : g2.polActive nid with
          | false =>
            simp only [Bool.false_eq_true, if_false]
            refine ⟨h2.range, h2.off, ?_⟩
            intro n _ hn
            by_cases hin : n = nid
            · subst hin; rw [hact] at hn; cases hn
            · exact h2.on n (fun e => hin (by cases e; rfl)) hn
          | true =>
            simp only [if_true]
            obtain ⟨kp, hne, _, hon, _⟩ := sendPolicyUpdate_act H N g2 nid hk2
            have hpa' : ∀ n, (g2.sendPolicyUpdate H nid).polActive n = g2.polActive n := by
              intro n; unfold Graph.polActive; rw [kp.polEps]
            refine ⟨?_, ?_, ?_⟩
            · intro k hk
              by_cases hks : k = N.pk nid
              · exact ⟨nid, hks⟩
              · rw [hne k hks] at hk; exact h2.range k hk
            · intro n hn
              rw [hpa'] at hn
              have hns : n ≠ nid := fun e => by subst e; rw [hact] at hn; cases hn
              have : N.pk n ≠ N.pk nid := fun e => hns (N.pkInj _ _ e)
              rw [hne _ this]
              exact h2.off n hn
            · intro n _ hn
              rw [hpa'] at hn
              rw [kp.allPolicies]
              by_cases hin : n = nid
              · subst hin
                rw [hon hact pv hall, hall]; rfl
              · have : N.pk n ≠ N.pk nid := fun e => hin (N.pkInj _ _ e)
                rw [hne _ this]
                exact h2.on n (fun e => hin (by cases e; rfl)) hn
  | passthru c key v => exact polAct_keepA hpa (keepA_emit g _)
  | other => exact hpa

theorem polAct_flush {N : Numbering} {g : Graph} (hi : PolAct N none g) : PolAct N none g.flush.1 := by
  rw [flush_eq]
  refine polAct_frame (g := g.flushResolver) ?_ rfl rfl rfl
  cases hf : g.res.flush with
  | none =>
    have : g.flushResolver = { g with panicked := true } := by unfold Graph.flushResolver; rw [hf]
    rw [this]
    exact polAct_frame hi rfl rfl rfl
  | some x =>
    obtain ⟨r, calls⟩ := x
    have : g.flushResolver = ({ g with res := r } : Graph).emit calls := by unfold Graph.flushResolver; rw [hf]
    rw [this]
    exact polAct_keepA (polAct_frame (g' := { g with res := r }) hi rfl rfl rfl) (keepA_emit _ _)

theorem polAct_new (N : Numbering) (s : Bool) : PolAct N none (Graph.new s) :=
  ⟨(by intro k h; simp [polAct, Graph.new, mget] at h), (by intro n _; simp [polAct, Graph.new, mget]),
    (by intro n _ h; simp [Graph.polActive, Graph.new] at h)⟩

/-- both invariants along a history -/
theorem lInv_polAct_run (H : IdFn) {N : Numbering} : ∀ (h : List HStep) {g : Graph} {ds : DS},
    LInv N g ds → PolAct N none g → N.histOk h →
    LInv N (run H g h).1 (h.foldl (fun ds st => match st with
      | .upd u => ds.apply u
      | _ => ds) ds) ∧ PolAct N none (run H g h).1
  | [], _, _, hi, hp, _ => ⟨hi, hp⟩
  | .upd u :: t, g, ds, hi, hp, hin => by
    simp only [run, List.foldl_cons]
    have := hin (.upd u) (List.mem_cons_self ..)
    exact lInv_polAct_run H t (lInv_step H hi u this.1 this.2) (polAct_step H hi hp u this.1 this.2)
      (fun st hst => hin st (List.mem_cons_of_mem _ hst))
  | .inSync :: t, g, ds, hi, hp, hin => by
    simp only [run, List.foldl_cons]
    exact lInv_polAct_run H t (lInv_inSync hi) (polAct_frame hp rfl rfl rfl)
      (fun st hst => hin st (List.mem_cons_of_mem _ hst))
  | .flush :: t, g, ds, hi, hp, hin => by
    simp only [run, List.foldl_cons]
    exact lInv_polAct_run H t (lInv_flush hi) (polAct_flush hp) (fun st hst => hin st (List.mem_cons_of_mem _ hst))


/-! ### reading the invariant in the specification's terms -/

theorem mget_activePols (N : Numbering) (M : List (PolicyKey × EpKey)) (m : List (Nat × (PolicyKey × PolVal)))
    (hc : ∀ p ∈ m, p.2.1 = N.pk p.1) (nid : Nat) :
    mget (m.filterMap (fun p => if M.any (fun q => q.1 = p.2.1) then some p.2 else none)) (N.pk nid) =
      (mget m nid).bind (fun x => if M.any (fun q => q.1 = N.pk nid) then some x.2 else none) := by
  induction m with
  | nil => simp [mget]
  | cons p t ih =>
    obtain ⟨n, k, v⟩ := p
    have hk := hc (n, k, v) (List.mem_cons_self ..)
    simp only [] at hk
    subst hk
    have ih' := ih (fun q hq => hc q (List.mem_cons_of_mem _ hq))
    by_cases hn : n = nid
    · subst hn
      cases ha : M.any (fun q => q.1 = N.pk n) with
      | true => simp [mget, ha]
      | false =>
        rw [ha] at ih'
        simp only [List.filterMap_cons, ha, Bool.false_eq_true, if_false, mget, if_true, Option.bind_some]
        rw [ih']
        cases mget t n <;> rfl
    · have hne : ¬ N.pk n = N.pk nid := fun e => hn (N.pkInj _ _ e)
      cases ha : M.any (fun q => q.1 = N.pk n) with
      | true => simpa [mget, ha, hne, hn] using ih'
      | false => simpa [mget, ha, hn] using ih'

/-- ACTIVE POLICIES = SPECIFICATION: the RuleScanner's `active` table holds policy `k` iff `k` selects a
local endpoint in the datastore, and then with the policy's current rules. -/
theorem activePols_eq_ds {N : Numbering} {g : Graph} {ds : DS} (hi : LInv N g ds) (hpa : PolAct N none g)
    (ht : TabInv N g ds) (hn : DSNodup ds) (k : PolicyKey) :
    mget g.active (.pol k) = (mget ds.activePols k).map (·.rules) := by
  show polAct g k = _
  by_cases hr : ∃ n, k = N.pk n
  · obtain ⟨n, rfl⟩ := hr
    unfold DS.activePols
    rw [mget_activePols N ds.matched ds.pols ht.polsConf n]
    cases hact : g.polActive n with
    | true =>
      obtain ⟨i, hm⟩ := (polActive_iff g n).mp hact
      have h1 : (N.pk n, N.ek i) ∈ ds.matched :=
        (matched_eq_ds hi ht hn _ _).mp ((hi.m.mm _ _).mpr ⟨n, i, hm, rfl, rfl⟩)
      have hany : ds.matched.any (fun q => q.1 = N.pk n) = true :=
        List.any_eq_true.mpr ⟨_, h1, by simp⟩
      rw [hpa.on n (by simp) hact, hi.arcPols n, hany]
      cases mget ds.pols n <;> rfl
    | false =>
      have hany : ds.matched.any (fun q => q.1 = N.pk n) = false := by
        cases ha : ds.matched.any (fun q => q.1 = N.pk n) with
        | false => rfl
        | true =>
          exfalso
          obtain ⟨⟨p, e⟩, hm, hp⟩ := List.any_eq_true.mp ha
          simp only [decide_eq_true_eq] at hp
          subst hp
          obtain ⟨n', i, hq, h1, _⟩ := (hi.m.mm _ _).mp ((matched_eq_ds hi ht hn _ _).mpr hm)
          have : n' = n := (N.pkInj _ _ h1).symm
          subst this
          have := (polActive_iff g n').mpr ⟨i, hq⟩
          rw [hact] at this; cases this
      rw [hpa.off n hact, hany]
      cases mget ds.pols n <;> rfl
  · have h1 : polAct g k = none := by
      cases h : polAct g k with
      | none => rfl
      | some v => exact absurd (hpa.range k (by rw [h]; rfl)) hr
    have h2 : mget ds.activePols k = none := by
      cases h : mget ds.activePols k with
      | none => rfl
      | some v =>
        exfalso
        have hm := mget_mem h
        unfold DS.activePols at hm
        obtain ⟨p, hp, hpe⟩ := List.mem_filterMap.mp hm
        split at hpe
        · simp only [Option.some.injEq] at hpe
          exact hr ⟨p.1, by rw [← ht.polsConf p hp, hpe]⟩
        · cases hpe
    rw [h1, h2]; rfl

theorem active_policies_eq_datastore (H : IdFn) (s : Bool) (h : List HStep) (N : Numbering) (hN : N.histOk h)
    (k : PolicyKey) :
    mget (run H (Graph.new s) (h ++ [.flush])).1.active (.pol k) = (mget (lastState h).activePols k).map (·.rules) := by
  obtain ⟨hi0, hp0⟩ := lInv_polAct_run H h (lInv_new N s) (polAct_new N s) hN
  have hi := lInv_flush hi0
  have hp := polAct_flush hp0
  have ht := tabInv_flush (tabInv_run H h (tabInv_new N s) (by
    intro st hst
    have := hN st hst
    cases st with
    | upd u => exact this.1
    | inSync => trivial
    | flush => trivial))
  rw [← run_snoc_flush] at hi hp ht
  exact activePols_eq_ds hi hp ht (dsNodup_lastState h {} ⟨by simp [mkeys], by simp [mkeys]⟩) k

end CalicoVerif.C01
