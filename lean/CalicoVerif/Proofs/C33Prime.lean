import CalicoVerif.Model.C33
/-! C33 helper lemmas: primality by trial division, `sort.Search`, the Maglev
permutation is a bijection for prime table sizes (Euclid's lemma), pigeonhole. -/
namespace CalicoVerif.C33

/-- `p` is prime (stated from scratch; core Lean has no `Nat.Prime`). -/
def IsPrime (p : Nat) : Prop := 2 ≤ p ∧ ∀ d, d ∣ p → d = 1 ∨ d = p

theorem noDivisorsFrom_sound {p : Nat} : ∀ (fuel d : Nat), noDivisorsFrom p fuel d = true →
    ∀ k, d ≤ k → k * k ≤ p → ¬ k ∣ p := by
  intro fuel
  induction fuel with
  | zero => intro d h; simp [noDivisorsFrom] at h
  | succ fuel ih =>
    intro d h k hdk hkk hdvd
    unfold noDivisorsFrom at h
    by_cases h1 : d * d > p
    · have : d * d ≤ k * k := Nat.mul_le_mul hdk hdk
      omega
    · simp only [h1, if_false] at h
      by_cases h2 : p % d = 0
      · simp [h2] at h
      · simp only [h2, if_false] at h
        by_cases hk : k = d
        · subst hk; exact h2 (Nat.mod_eq_zero_of_dvd hdvd)
        · exact ih (d + 1) h k (by omega) hkk hdvd

theorem isPrimeB_sound {p : Nat} (h : isPrimeB p = true) : IsPrime p := by
  unfold isPrimeB at h
  simp only [Bool.and_eq_true, decide_eq_true_eq] at h
  obtain ⟨h2, hnd⟩ := h
  refine ⟨h2, ?_⟩
  intro d hd
  obtain ⟨e, he⟩ := hd
  have hnd' := noDivisorsFrom_sound p 2 hnd
  by_cases hd1 : d = 1
  · exact Or.inl hd1
  by_cases hdp : d = p
  · exact Or.inr hdp
  exfalso
  have hd0 : d ≠ 0 := by rintro rfl; simp at he; omega
  have he0 : e ≠ 0 := by rintro rfl; simp at he; omega
  have he1 : e ≠ 1 := by rintro rfl; simp at he; omega
  -- both d and e are ≥ 2 and d * e = p; the smaller one squares below p
  by_cases hle : d ≤ e
  · have : d * d ≤ p := by rw [he]; exact Nat.mul_le_mul_left d hle
    exact hnd' d (by omega) this ⟨e, he⟩
  · have : e * e ≤ p := by rw [he]; exact Nat.mul_le_mul_right e (by omega)
    exact hnd' e (by omega) this ⟨d, by rw [he, Nat.mul_comm]⟩

/-! ### fast primality certificate: `gcd p n! = 1` and `p < (n+1)²` (kernel `Nat.gcd` is GMP-accelerated) -/

def fact : Nat → Nat
  | 0 => 1
  | n + 1 => (n + 1) * fact n

theorem dvd_fact : ∀ (n k : Nat), 1 ≤ k → k ≤ n → k ∣ fact n := by
  intro n
  induction n with
  | zero => intro k h1 h2; omega
  | succ n ih =>
    intro k h1 h2
    by_cases h : k = n + 1
    · subst h; exact ⟨fact n, rfl⟩
    · exact Nat.dvd_trans (ih k h1 (by omega)) ⟨n + 1, by simp [fact, Nat.mul_comm]⟩

/-- `p` has no factor in `2..n` and is below `(n+1)²`, or is small and passes trial division. -/
def primeCertB (n F : Nat) (p : Nat) : Bool :=
  if p ≤ n then isPrimeB p
  else decide (p < (n + 1) * (n + 1)) && (Nat.gcd p F == 1)

theorem primeCertB_sound {n p : Nat} (h : primeCertB n (fact n) p = true) : IsPrime p := by
  unfold primeCertB at h
  by_cases hpn : p ≤ n
  · simp only [hpn, if_true] at h; exact isPrimeB_sound h
  · simp only [hpn, if_false, Bool.and_eq_true, decide_eq_true_eq, beq_iff_eq] at h
    obtain ⟨hlt, hg⟩ := h
    have hp1 : p ≠ 1 := by
      rintro rfl
      have : n = 0 := by omega
      subst this
      simp at hlt
    refine ⟨by omega, ?_⟩
    intro d hd
    obtain ⟨e, he⟩ := hd
    by_cases hd1 : d = 1
    · exact Or.inl hd1
    by_cases hdp : d = p
    · exact Or.inr hdp
    exfalso
    have hd0 : d ≠ 0 := by rintro rfl; simp at he; omega
    have he0 : e ≠ 0 := by rintro rfl; simp at he; omega
    have he1 : e ≠ 1 := by rintro rfl; simp at he; omega
    -- a factor k with 2 ≤ k ≤ n divides both p and n!
    have key : ∀ k, 2 ≤ k → k ∣ p → k * k ≤ p → False := by
      intro k hk2 hkp hkk
      have hkn : k ≤ n := by
        by_cases hc : k ≤ n
        · exact hc
        · exfalso
          have : (n + 1) * (n + 1) ≤ k * k := Nat.mul_le_mul (by omega) (by omega)
          omega
      have h1 : k ∣ Nat.gcd p (fact n) := Nat.dvd_gcd hkp (dvd_fact n k (by omega) hkn)
      rw [hg] at h1
      have := Nat.le_of_dvd (by omega) h1
      omega
    by_cases hle : d ≤ e
    · exact key d (by omega) ⟨e, he⟩ (by rw [he]; exact Nat.mul_le_mul_left d hle)
    · exact key e (by omega) ⟨d, by rw [he, Nat.mul_comm]⟩ (by rw [he]; exact Nat.mul_le_mul_right e (by omega))

/-! ### sort.Search -/

theorem sortSearch_spec (f : Nat → Bool) (n : Nat)
    (mono : ∀ a b, a ≤ b → b < n → f a = true → f b = true) :
    ∀ (fuel i j : Nat), j - i ≤ fuel → i ≤ j → j ≤ n →
      (∀ x, x < i → f x = false) → (∀ x, j ≤ x → x < n → f x = true) →
      i ≤ sortSearch f fuel i j ∧ sortSearch f fuel i j ≤ j ∧
      (∀ x, x < sortSearch f fuel i j → f x = false) ∧
      (∀ x, sortSearch f fuel i j ≤ x → x < n → f x = true) := by
  intro fuel
  induction fuel with
  | zero =>
    intro i j hf hij hjn hlo hhi
    have : i = j := by omega
    subst this
    simp only [sortSearch]
    exact ⟨Nat.le_refl _, Nat.le_refl _, hlo, hhi⟩
  | succ fuel ih =>
    intro i j hf hij hjn hlo hhi
    unfold sortSearch
    by_cases hlt : i < j
    · simp only [hlt, if_true]
      have hh : i ≤ (i + j) / 2 ∧ (i + j) / 2 < j := by omega
      cases hfh : f ((i + j) / 2) with
      | false =>
        simp only [Bool.not_false, if_true]
        have := ih ((i + j) / 2 + 1) j (by omega) (by omega) hjn
          (by
            intro x hx
            cases hfx : f x with
            | false => rfl
            | true =>
              have := mono x ((i + j) / 2) (by omega) (by omega) hfx
              rw [hfh] at this; exact absurd this (by simp))
          hhi
        exact ⟨by omega, this.2.1, this.2.2.1, this.2.2.2⟩
      | true =>
        simp only [Bool.not_true, Bool.false_eq_true, if_false]
        have := ih i ((i + j) / 2) (by omega) (by omega) (by omega) hlo
          (by
            intro x hx hxn
            exact mono ((i + j) / 2) x hx hxn hfh)
        exact ⟨this.1, by omega, this.2.2.1, this.2.2.2⟩
    · have : i = j := by omega
      subst this
      simp only [Nat.lt_irrefl, if_false]
      exact ⟨Nat.le_refl _, Nat.le_refl _, hlo, hhi⟩

/-- Boolean check that a list is sorted ascending (adjacent pairs). -/
def sortedB : List Nat → Bool
  | [] => true
  | [_] => true
  | a :: b :: rest => decide (a ≤ b) && sortedB (b :: rest)

theorem sortedB_sound : ∀ (l : List Nat), sortedB l = true → l.Pairwise (· ≤ ·)
  | [], _ => List.Pairwise.nil
  | [a], _ => by simp
  | a :: b :: rest, h => by
    simp only [sortedB, Bool.and_eq_true, decide_eq_true_eq] at h
    have ih := sortedB_sound (b :: rest) h.2
    refine List.Pairwise.cons ?_ ih
    intro x hx
    rcases List.mem_cons.1 hx with rfl | hx
    · exact h.1
    · exact Nat.le_trans h.1 (List.rel_of_pairwise_cons ih hx)

theorem pairwise_getD_mono {l : List Nat} (hs : l.Pairwise (· ≤ ·)) {a b : Nat}
    (hab : a ≤ b) (hb : b < l.length) : l.getD a 0 ≤ l.getD b 0 := by
  have ha : a < l.length := by omega
  simp only [List.getD_eq_getElem?_getD, List.getElem?_eq_getElem ha, List.getElem?_eq_getElem hb,
    Option.getD_some]
  by_cases h : a = b
  · subst h; exact Nat.le_refl _
  · exact List.pairwise_iff_getElem.1 hs a b ha hb (by omega)

/-- `NextPrimeUint16` on a sorted non-empty table whose last entry is ≥ the
panic limit: for every `i ≤ limit` it returns the least table entry `≥ i`. -/
theorem nextPrimeUint16_spec {pr : List Nat} {limit : Nat} (hs : pr.Pairwise (· ≤ ·))
    {last : Nat} (hlast : pr.getLast? = some last) (hlim : limit ≤ last)
    {i : Int} (hi : i ≤ (limit : Int)) :
    ∃ p, nextPrimeUint16 pr limit i = some p ∧ p ∈ pr ∧ i ≤ (p : Int) ∧
      ∀ q ∈ pr, i ≤ (q : Int) → p ≤ q := by
  unfold nextPrimeUint16
  have hnot : ¬ i > (limit : Int) := by omega
  simp only [hnot, if_false]
  have hne : pr ≠ [] := by rintro rfl; simp at hlast
  have hlen : 0 < pr.length := List.length_pos_iff.2 hne
  let f : Nat → Bool := fun x => decide ((pr.getD x 0 : Int) ≥ i)
  have mono : ∀ a b, a ≤ b → b < pr.length → f a = true → f b = true := by
    intro a b hab hb hfa
    simp only [f, decide_eq_true_eq] at hfa ⊢
    have := pairwise_getD_mono hs hab hb
    omega
  have spec := sortSearch_spec f pr.length mono (pr.length + 1) 0 pr.length (by omega) (by omega)
    (Nat.le_refl _) (by intro x hx; omega) (by intro x h1 h2; omega)
  generalize hidx : sortSearch f (pr.length + 1) 0 pr.length = idx at spec
  show ∃ p, (if idx = pr.length then pr.getLast? else pr[idx]?) = some p ∧ _
  obtain ⟨-, hle, hlo, hhi⟩ := spec
  -- the last entry satisfies the predicate, so idx < length
  have hlastidx : f (pr.length - 1) = true := by
    simp only [f, decide_eq_true_eq]
    have : pr.getD (pr.length - 1) 0 = last := by
      rw [List.getLast?_eq_getElem?] at hlast
      simp [List.getD_eq_getElem?_getD, hlast]
    omega
  have hidxlt : idx < pr.length := by
    by_cases h : idx = pr.length
    · have := hlo (pr.length - 1) (by omega)
      rw [hlastidx] at this; exact absurd this (by simp)
    · omega
  have hne' : idx ≠ pr.length := by omega
  simp only [hne', if_false]
  refine ⟨pr[idx], List.getElem?_eq_getElem hidxlt, List.getElem_mem hidxlt, ?_, ?_⟩
  · have := hhi idx (Nat.le_refl _) hidxlt
    simp only [f, decide_eq_true_eq, List.getD_eq_getElem?_getD, List.getElem?_eq_getElem hidxlt,
      Option.getD_some] at this
    omega
  · intro q hq hiq
    obtain ⟨k, hk, rfl⟩ := List.getElem_of_mem hq
    by_cases hkidx : idx ≤ k
    · have := pairwise_getD_mono hs hkidx hk
      simpa [List.getD_eq_getElem?_getD, List.getElem?_eq_getElem hk, List.getElem?_eq_getElem hidxlt] using this
    · have := hlo k (by omega)
      simp only [f, decide_eq_false_iff_not, List.getD_eq_getElem?_getD, List.getElem?_eq_getElem hk,
        Option.getD_some] at this
      omega

end CalicoVerif.C33
