import CalicoVerif.Proofs.C43Inv
/-!
C43 — dirty-marking completeness: routes, stages of the update handlers.
-/
namespace CalicoVerif.C43

local macro "triv" : tactic => `(tactic| first | rfl | trivial)

/-! ### the computed route as a function of view and node table -/

theorem route_congr (s s' : St) (c : Cidr) (hme : s'.me = s.me) (hn : s'.nodes = s.nodes)
    (hc : s'.view c = s.view c) (ha : ∀ l, l < c.len → s'.view (ancKey c l) = s.view (ancKey c l)) :
    s'.route c = s.route c := by
  unfold St.route fullPath
  rw [hme, hn, hc]
  congr 2
  apply List.map_congr_left
  intro l hl
  rw [ha l (List.mem_range.1 hl)]

theorem routeOfPath_nodes_congr (me : Nat) (nodes nodes' : List (Nat × NodeInfo)) (c : Cidr)
    (path : List (Cidr × RouteInfo))
    (h : ∀ n, (path.foldl (accStep me c) {}).dstNode = some n →
      aget nodes' n = aget nodes n ∧ nodeInOurSubnet c.v6 me nodes' n = nodeInOurSubnet c.v6 me nodes n) :
    routeOfPath me nodes' c path = routeOfPath me nodes c path := by
  unfold routeOfPath
  simp only []
  generalize path.foldl (accStep me c) {} = a at h
  cases hd : a.dstNode with
  | none => rfl
  | some n =>
    obtain ⟨h1, h2⟩ := h n hd
    simp only [h1, h2]

theorem view_block_ne_empty (v : RouteInfo) (n : Nat) (h : v.block = some n) : v ≠ {} := by
  intro e; rw [e] at h; cases h

theorem plain_fullPath (s : St) (ha : Aux s) (c : Cidr) (hl : c.len ≤ c.width) :
    PlainAncestors ((List.range c.len).map (fun l => (ancKey c l, s.view (ancKey c l)))) := by
  intro e he
  obtain ⟨l, hl', rfl⟩ := List.mem_map.1 he
  have hlt := List.mem_range.1 hl'
  have hne : (ancKey c l).len ≠ (ancKey c l).width := by rw [ancKey_len, ancKey_width]; omega
  constructor
  · cases hh : (s.view (ancKey c l)).hosts with
    | nil => rfl
    | cons x xs => exact absurd (ha.h32 _ (Or.inl (by simp [hh]))) hne
  · cases hh : (s.view (ancKey c l)).refs with
    | nil => rfl
    | cons x xs => exact absurd (ha.h32 _ (Or.inr (by simp [hh]))) hne

theorem dstNode_tracked (s : St) (ha : Aux s) (c : Cidr) (n : Nat) (ht : Tracked s c n) :
    ((fullPath s.view c).foldl (accStep s.me c) {}).dstNode = some n := by
  obtain ⟨hb, hh, hr⟩ := ht
  unfold fullPath
  rw [List.foldl_append]
  simp only [List.foldl_cons, List.foldl_nil]
  rw [accStep_plain _ _ _ _ hh hr]
  unfold accBlock
  simp only [hb]

/-! ### quiet stages: no change to the node-route index, `Aux` kept -/

structure Quiet (s s' : St) : Prop where
  step : Step s s'
  nr : s'.nodeRoutes = s.nodeRoutes
  aux : Aux s → Aux s'
  /-- pool and block fields of the trie, the pool table and the block-route cache are untouched -/
  pb : ∀ k, (s'.view k).pool = (s.view k).pool ∧ (s'.view k).block = (s.view k).block
  pools : s'.pools = s.pools
  br : s'.blockRoutes = s.blockRoutes

theorem Quiet.refl (s : St) : Quiet s s := ⟨Step.refl s, rfl, id, fun _ => ⟨rfl, rfl⟩, rfl, rfl⟩

theorem Quiet.trans {s s1 s2 : St} (h1 : Quiet s s1) (h2 : Quiet s1 s2) : Quiet s s2 :=
  ⟨h1.step.trans h2.step, h2.nr.trans h1.nr, fun a => h2.aux (h1.aux a),
    fun k => ⟨(h2.pb k).1.trans (h1.pb k).1, (h2.pb k).2.trans (h1.pb k).2⟩, h2.pools.trans h1.pools, h2.br.trans h1.br⟩

theorem Quiet.of_eq (s s' : St) (ht : s'.trie = s.trie) (hd : s'.dirty = s.dirty) (hm : s'.me = s.me)
    (hn : s'.nodeRoutes = s.nodeRoutes) (hp : s'.pools = s.pools) (hb : s'.blockRoutes = s.blockRoutes) : Quiet s s' :=
  ⟨Step.of_eq s s' ht hd hm, hn, Aux.congr s s' ht hn, fun k => by rw [view_congr s s' ht k]; exact ⟨rfl, rfl⟩, hp, hb⟩

theorem Quiet.markFold {α} (g : α → Cidr) (xs : List α) (s : St) :
    Quiet s (xs.foldl (fun s x => s.markDirty (g x)) s) := by
  obtain ⟨h1, _, _, h4, h5, h6, _⟩ := foldl_markDirty g xs s
  exact ⟨Step.markFold g xs s, h4, Aux.congr _ _ h1 h4, fun k => by rw [view_congr _ _ h1 k]; exact ⟨rfl, rfl⟩, h6, h5⟩

theorem host_len (a : Nat) : (Cidr.host a).len = (Cidr.host a).width := rfl
theorem host6_len (a : Nat) : (Cidr.host6 a).len = (Cidr.host6 a).width := rfl

/-- an edit at a single-address key that leaves the block field alone. -/
theorem Quiet.host (k : Cidr) (hk : k.len = k.width) (g f : RouteInfo → RouteInfo)
    (hcomm : ∀ ri, strip (g ri) = f (strip ri))
    (hb : ∀ v, (f v).block = v.block) (hp : ∀ v, (f v).pool = v.pool) (s : St) :
    Quiet s (s.updateCIDR k g).1 := by
  have hE := Edit.host k hk g f hcomm
  refine ⟨hE.step s, hE.nr s, fun ha => Aux.edit hE s ha (Or.inl hk) (fun _ => Nat.le_of_eq hk) hb, ?_, hE.pools s, hE.br s⟩
  intro k'
  rw [hE.view s k']
  by_cases h : k = k'
  · simp only [h, if_true]; rw [← h]; exact ⟨hp _, hb _⟩
  · simp only [h, if_false]; exact ⟨by triv, by triv⟩

theorem Quiet.addRef (s : St) (k : Cidr) (hk : k.len = k.width) (n t : Nat) : Quiet s (s.addRef k n t) :=
  Quiet.host k hk _ (fun v => { v with refs := addRefL v.refs n t }) (fun _ => rfl) (fun _ => rfl) (fun _ => rfl) s

theorem Quiet.removeRef (s : St) (k : Cidr) (hk : k.len = k.width) (n t : Nat) : Quiet s (s.removeRef k n t) :=
  Quiet.host k hk _ (fun v => { v with refs := removeRefL v.refs n t }) (fun _ => rfl) (fun _ => rfl) (fun _ => rfl) s

theorem Quiet.addHost (s : St) (k : Cidr) (hk : k.len = k.width) (n : Nat) : Quiet s (s.addHost k n) :=
  Quiet.host k hk _ (fun v => { v with hosts := insertNat v.hosts n }) (fun _ => rfl) (fun _ => rfl) (fun _ => rfl) s

theorem Quiet.removeHost (s : St) (k : Cidr) (hk : k.len = k.width) (n : Nat) : Quiet s (s.removeHost k n) :=
  Quiet.host k hk _ (fun v => { v with hosts := v.hosts.filter (· != n) }) (fun _ => rfl) (fun _ => rfl) (fun _ => rfl) s

theorem quiet_ifAddRef (b : Bool) (s : St) (k : Cidr) (hk : k.len = k.width) (n t : Nat) :
    Quiet s (if b then s.addRef k n t else s) := by
  cases b
  · exact Quiet.refl s
  · exact Quiet.addRef s k hk n t

theorem quiet_ifRemoveRef (b : Bool) (s : St) (k : Cidr) (hk : k.len = k.width) (n t : Nat) :
    Quiet s (if b then s.removeRef k n t else s) := by
  cases b
  · exact Quiet.refl s
  · exact Quiet.removeRef s k hk n t

theorem quiet_addTunnelRefs (s : St) (n : Nat) (i : NodeInfo) : Quiet s (addTunnelRefs s n i) := by
  unfold addTunnelRefs
  simp only []
  exact ((((quiet_ifAddRef _ s _ (host_len _) n _).trans (quiet_ifAddRef _ _ _ (host_len _) n _)).trans
    (quiet_ifAddRef _ _ _ (host6_len _) n _)).trans (quiet_ifAddRef _ _ _ (host_len _) n _)).trans
    (quiet_ifAddRef _ _ _ (host6_len _) n _)

theorem quiet_removeTunnelRefs (s : St) (n : Nat) (i : NodeInfo) : Quiet s (removeTunnelRefs s n i) := by
  unfold removeTunnelRefs
  simp only []
  exact ((((quiet_ifRemoveRef _ s _ (host_len _) n _).trans (quiet_ifRemoveRef _ _ _ (host_len _) n _)).trans
    (quiet_ifRemoveRef _ _ _ (host6_len _) n _)).trans (quiet_ifRemoveRef _ _ _ (host_len _) n _)).trans
    (quiet_ifRemoveRef _ _ _ (host6_len _) n _)

/-! ### the stages of `onNodeUpdate` -/

theorem nodeVisitFam_quiet (s s0 : St) (v6 : Bool) (n : Nat) (old new : Option NodeInfo) :
    Quiet s (s.nodeVisitFam v6 s0 n old new) ∧ (s.nodeVisitFam v6 s0 n old new).nodes = s.nodes ∧
    (s.nodeVisitFam v6 s0 n old new).trie = s.trie ∧
    ((n == s0.me && cidrOf v6 old != cidrOf v6 new) = true → ∀ c ri, (c, ri) ∈ s0.trie → c.v6 = v6 →
      subnetFlip v6 s0 old new ri = true → c ∈ (s.nodeVisitFam v6 s0 n old new).dirty) := by
  unfold St.nodeVisitFam
  split
  · rename_i h
    obtain ⟨h1, h2, _, _, _, _, _, h8⟩ := foldl_markDirty (fun e : Cidr × RouteInfo => e.1)
      (s0.trie.filter (fun e => e.1.v6 == v6 && subnetFlip v6 s0 old new e.2)) s
    refine ⟨Quiet.markFold _ _ s, h2, h1, ?_⟩
    intro _ c ri hmem hv hf
    exact (h8 c).2 (Or.inr ⟨(c, ri), List.mem_filter.2 ⟨hmem, by simp [hv, hf]⟩, rfl⟩)
  · rename_i h
    exact ⟨Quiet.refl s, rfl, rfl, fun h' => absurd h' h⟩

theorem nodeVisit_quiet (s : St) (n : Nat) (old new : Option NodeInfo) :
    Quiet s (s.nodeVisit n old new) ∧ (s.nodeVisit n old new).nodes = s.nodes ∧
    (∀ v6, (n == s.me && cidrOf v6 old != cidrOf v6 new) = true → ∀ c ri, (c, ri) ∈ s.trie → c.v6 = v6 →
      subnetFlip v6 s old new ri = true → c ∈ (s.nodeVisit n old new).dirty) := by
  unfold St.nodeVisit
  obtain ⟨q1, n1, _, m1⟩ := nodeVisitFam_quiet s s false n old new
  obtain ⟨q2, n2, _, m2⟩ := nodeVisitFam_quiet (s.nodeVisitFam false s n old new) s true n old new
  refine ⟨q1.trans q2, n2.trans n1, ?_⟩
  intro v6 hc c ri hmem hv hf
  cases v6
  · exact q2.step.mono c (m1 hc c ri hmem hv hf)
  · exact m2 hc c ri hmem hv hf

theorem quiet_nodes_addRef (s : St) (c : Cidr) (n t : Nat) : (s.addRef c n t).nodes = s.nodes :=
  (updateCIDR_facts s c _).2.1
theorem quiet_nodes_removeRef (s : St) (c : Cidr) (n t : Nat) : (s.removeRef c n t).nodes = s.nodes :=
  (updateCIDR_facts s c _).2.1
theorem quiet_nodes_addHost (s : St) (c : Cidr) (n : Nat) : (s.addHost c n).nodes = s.nodes :=
  (updateCIDR_facts s c _).2.1
theorem quiet_nodes_removeHost (s : St) (c : Cidr) (n : Nat) : (s.removeHost c n).nodes = s.nodes :=
  (updateCIDR_facts s c _).2.1

theorem addTunnelRefs_nodes (s : St) (n : Nat) (i : NodeInfo) : (addTunnelRefs s n i).nodes = s.nodes := by
  unfold addTunnelRefs
  simp only []
  repeat' split
  all_goals simp [quiet_nodes_addRef]

theorem removeTunnelRefs_nodes (s : St) (n : Nat) (i : NodeInfo) : (removeTunnelRefs s n i).nodes = s.nodes := by
  unfold removeTunnelRefs
  simp only []
  repeat' split
  all_goals simp [quiet_nodes_removeRef]

theorem nodeRefs_quiet (s : St) (n : Nat) (old new : Option NodeInfo) :
    Quiet s (s.nodeRefs n old new) ∧ (s.nodeRefs n old new).nodes = s.nodes := by
  unfold St.nodeRefs
  cases new with
  | none =>
    cases old with
    | none => exact ⟨Quiet.refl s, rfl⟩
    | some o => exact ⟨quiet_removeTunnelRefs s n o, removeTunnelRefs_nodes s n o⟩
  | some i =>
    cases old with
    | none => exact ⟨quiet_addTunnelRefs s n i, addTunnelRefs_nodes s n i⟩
    | some o =>
      exact ⟨(quiet_addTunnelRefs s n i).trans (quiet_removeTunnelRefs _ n o),
        (removeTunnelRefs_nodes _ n o).trans (addTunnelRefs_nodes s n i)⟩

theorem ifRemoveHost (b : Bool) (s : St) (k : Cidr) (hk : k.len = k.width) (n : Nat) :
    Quiet s (if b then s.removeHost k n else s) ∧ (if b then s.removeHost k n else s).nodes = s.nodes := by
  cases b
  · exact ⟨Quiet.refl s, rfl⟩
  · exact ⟨Quiet.removeHost s k hk n, quiet_nodes_removeHost _ _ _⟩

theorem ifAddHost (b : Bool) (s : St) (k : Cidr) (hk : k.len = k.width) (n : Nat) :
    Quiet s (if b then s.addHost k n else s) ∧ (if b then s.addHost k n else s).nodes = s.nodes := by
  cases b
  · exact ⟨Quiet.refl s, rfl⟩
  · exact ⟨Quiet.addHost s k hk n, quiet_nodes_addHost _ _ _⟩

theorem nodeHosts_quiet (s : St) (n : Nat) (old new : Option NodeInfo) (hold : old = aget s.nodes n) :
    Quiet s (s.nodeHosts n old new) ∧
    (∀ m, aget (s.nodeHosts n old new).nodes m = if n = m then new else aget s.nodes m) := by
  unfold St.nodeHosts
  have stage1 : ∀ o : NodeInfo,
      Quiet s (if o.v6Addr != 0 then
          (if o.v4Addr != 0 then ({ s with nodes := adel s.nodes n } : St).removeHost (Cidr.host o.v4Addr) n
           else { s with nodes := adel s.nodes n }).removeHost (Cidr.host6 o.v6Addr) n
        else (if o.v4Addr != 0 then ({ s with nodes := adel s.nodes n } : St).removeHost (Cidr.host o.v4Addr) n
              else { s with nodes := adel s.nodes n })) ∧
      (if o.v6Addr != 0 then
          (if o.v4Addr != 0 then ({ s with nodes := adel s.nodes n } : St).removeHost (Cidr.host o.v4Addr) n
           else { s with nodes := adel s.nodes n }).removeHost (Cidr.host6 o.v6Addr) n
        else (if o.v4Addr != 0 then ({ s with nodes := adel s.nodes n } : St).removeHost (Cidr.host o.v4Addr) n
              else { s with nodes := adel s.nodes n })).nodes = adel s.nodes n := by
    intro o
    have q0 : Quiet s ({ s with nodes := adel s.nodes n } : St) := Quiet.of_eq _ _ rfl rfl rfl rfl rfl rfl
    obtain ⟨qa, na⟩ := ifRemoveHost (o.v4Addr != 0) ({ s with nodes := adel s.nodes n } : St) _ (host_len o.v4Addr) n
    obtain ⟨qb, nb⟩ := ifRemoveHost (o.v6Addr != 0) _ _ (host6_len o.v6Addr) n
    exact ⟨(q0.trans qa).trans qb, nb.trans na⟩
  have stage2 : ∀ (t : St) (i : NodeInfo),
      Quiet t (if i.v6Addr != 0 then
          (if i.v4Addr != 0 then ({ t with nodes := aset t.nodes n i } : St).addHost (Cidr.host i.v4Addr) n
           else { t with nodes := aset t.nodes n i }).addHost (Cidr.host6 i.v6Addr) n
        else (if i.v4Addr != 0 then ({ t with nodes := aset t.nodes n i } : St).addHost (Cidr.host i.v4Addr) n
              else { t with nodes := aset t.nodes n i })) ∧
      (if i.v6Addr != 0 then
          (if i.v4Addr != 0 then ({ t with nodes := aset t.nodes n i } : St).addHost (Cidr.host i.v4Addr) n
           else { t with nodes := aset t.nodes n i }).addHost (Cidr.host6 i.v6Addr) n
        else (if i.v4Addr != 0 then ({ t with nodes := aset t.nodes n i } : St).addHost (Cidr.host i.v4Addr) n
              else { t with nodes := aset t.nodes n i })).nodes = aset t.nodes n i := by
    intro t i
    have q0 : Quiet t ({ t with nodes := aset t.nodes n i } : St) := Quiet.of_eq _ _ rfl rfl rfl rfl rfl rfl
    obtain ⟨qa, na⟩ := ifAddHost (i.v4Addr != 0) ({ t with nodes := aset t.nodes n i } : St) _ (host_len i.v4Addr) n
    obtain ⟨qb, nb⟩ := ifAddHost (i.v6Addr != 0) _ _ (host6_len i.v6Addr) n
    exact ⟨(q0.trans qa).trans qb, nb.trans na⟩
  cases old with
  | none =>
    cases new with
    | none =>
      refine ⟨Quiet.refl s, fun m => ?_⟩
      by_cases h : n = m
      · subst h; simp [← hold]
      · simp [h]
    | some i =>
      obtain ⟨q, hn⟩ := stage2 s i
      refine ⟨q, fun m => ?_⟩
      simp only []
      rw [hn, aget_aset_beq]
      by_cases h : n = m <;> simp [h]
  | some o =>
    obtain ⟨q1, hn1⟩ := stage1 o
    cases new with
    | none =>
      refine ⟨q1, fun m => ?_⟩
      simp only []
      rw [hn1, aget_adel_beq]
      by_cases h : n = m <;> simp [h]
    | some i =>
      obtain ⟨q2, hn2⟩ := stage2 _ i
      refine ⟨q1.trans q2, fun m => ?_⟩
      simp only []
      rw [hn2, hn1, aget_aset_beq, aget_adel_beq]
      by_cases h : n = m <;> simp [h]

theorem aget_some_mem_beq {κ α} [BEq κ] [LawfulBEq κ] (m : List (κ × α)) (k : κ) (v : α)
    (h : aget m k = some v) : (k, v) ∈ m := by
  induction m with
  | nil => simp [aget] at h
  | cons p m ih =>
    obtain ⟨k0, v0⟩ := p
    simp only [aget, List.lookup] at h
    by_cases hk : (k == k0) = true
    · have e : k = k0 := by simpa using hk
      simp only [hk] at h
      cases h
      rw [← e]; exact List.mem_cons_self
    · have hk' : (k == k0) = false := by simpa using hk
      simp only [hk'] at h
      exact List.mem_cons_of_mem _ (ih h)

theorem markAll_quiet (s : St) (n : Nat) :
    Quiet s (s.markAllNodeRoutesDirty n) ∧ (s.markAllNodeRoutesDirty n).nodes = s.nodes ∧
    (∀ c j, aget s.nodeRoutes (n, c) = some j → c ∈ (s.markAllNodeRoutesDirty n).dirty) := by
  unfold St.markAllNodeRoutesDirty
  obtain ⟨_, h2, _, _, _, _, _, h8⟩ := foldl_markDirty (fun e : (Nat × Cidr) × Nat => e.1.2)
    (s.nodeRoutes.filter (fun e => e.1.1 == n)) s
  refine ⟨Quiet.markFold _ _ s, h2, ?_⟩
  intro c j hj
  have hmem : ((n, c), j) ∈ s.nodeRoutes := aget_some_mem_beq _ _ _ hj
  exact (h8 c).2 (Or.inr ⟨((n, c), j), List.mem_filter.2 ⟨hmem, by simp⟩, rfl⟩)

theorem inSub_cidr_eq (v6 : Bool) (old new : Option NodeInfo) (o : NodeInfo) (h : cidrOf v6 old = cidrOf v6 new) :
    inSub v6 old o = inSub v6 new o := by
  cases old with
  | none =>
    cases new with
    | none => rfl
    | some l =>
      have : l.cidrOf v6 = Cidr.zero v6 := by simpa [cidrOf] using h.symm
      simp [inSub, this]
  | some l =>
    cases new with
    | none =>
      have : l.cidrOf v6 = Cidr.zero v6 := by simpa [cidrOf] using h
      simp [inSub, this]
    | some l' =>
      have : l.cidrOf v6 = l'.cidrOf v6 := by simpa [cidrOf] using h
      simp [inSub, this]

/-! ### the mid-point invariant -/

/-- every tracked route that is not waiting for a flush has been sent with its CURRENT value. -/
def Mid (s : St) (sent : List (Cidr × RouteUpdate)) : Prop :=
  ∀ c n, Tracked s c n → c ∉ s.dirty → zeroHost c = false → aget sent c = some (s.route c)

theorem fullPath_congr (v v' : Cidr → RouteInfo) (c : Cidr) (hc : v' c = v c)
    (ha : ∀ l, l < c.len → v' (ancKey c l) = v (ancKey c l)) : fullPath v' c = fullPath v c := by
  unfold fullPath
  rw [hc]
  congr 1
  apply List.map_congr_left
  intro l hl
  rw [ha l (List.mem_range.1 hl)]

/-- handlers that do not touch the node table. -/
theorem mid_of_step (s s' : St) (sent : List (Cidr × RouteUpdate)) (hs : Step s s') (hn : s'.nodes = s.nodes)
    (ha : Aux s) (hm : Mid s sent) : Mid s' sent := by
  intro c n ht hc h0
  have hv := hs.same c hc
  have ht' : Tracked s c n := by unfold Tracked at ht ⊢; rw [← hv]; exact ht
  have hne : s'.view c ≠ {} := view_block_ne_empty _ n ht.1
  have hl : c.len ≤ c.width := ha.l32 c (by rw [← hv]; exact hne)
  rw [route_congr s s' c hs.me hn hv (hs.anc c hc hne hl)]
  exact hm c n ht' (fun h => hc (hs.mono c h)) h0

end CalicoVerif.C43
