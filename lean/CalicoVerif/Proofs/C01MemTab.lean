import CalicoVerif.Proofs.C01IdxTab
import CalicoVerif.Proofs.C01Mem
import CalicoVerif.Proofs.C01ProfTab
/-! C01 helper: the member index's TABLES inside the composed graph are the datastore's / the rule scanner's:
endpoint and network-set data (modulo the match cache), parent labels, and the IP-set definitions (= the
rule scanner's `ipSetsByUID`). -/
namespace CalicoVerif.C01
open CalicoVerif C02

/-! ### the rule scanner's definition table follows its events -/

def setsAfter (T : String → Option IpSetDef) : List RsEvent → (String → Option IpSetDef)
  | [] => T
  | .ipsetActive uid d :: t => setsAfter (fun u => if u = uid then some d else T u) t
  | .ipsetInactive uid :: t => setsAfter (fun u => if u = uid then none else T u) t

theorem setsAfter_append (T : String → Option IpSetDef) (a b : List RsEvent) :
    setsAfter T (a ++ b) = setsAfter (setsAfter T a) b := by
  induction a generalizing T with
  | nil => rfl
  | cons e t ih => cases e <;> simp only [List.cons_append, setsAfter, ih]

/-- accumulator invariant of the two loops of `updateRules` -/
def SetsAcc (rs0 : RuleScanner) (cur : List (String × IpSetDef)) (acc : RuleScanner × List RsEvent) : Prop :=
  (fun u => mget acc.1.sets u) = setsAfter (fun u => mget rs0.sets u) acc.2 ∧
  ∀ uid d, RsEvent.ipsetActive uid d ∈ acc.2 → mget cur uid = some d

theorem setsAcc_addOne (rs0 : RuleScanner) (key : RulesId) (cur : List (String × IpSetDef))
    (acc : RuleScanner × List RsEvent) (uid : String) (h : SetsAcc rs0 cur acc) :
    SetsAcc rs0 cur (addOne key cur acc uid) := by
  unfold addOne
  cases hd : mget cur uid with
  | none => exact h
  | some d =>
    simp only []
    split
    · refine ⟨?_, ?_⟩
      · simp only []
        rw [setsAfter_append, ← h.1]
        funext u
        simp only [setsAfter, mget_mset]
      · intro u' d' hm
        simp only [List.mem_append, List.mem_singleton] at hm
        rcases hm with hm | hm
        · exact h.2 u' d' hm
        · cases hm; exact hd
    · exact ⟨h.1, h.2⟩

theorem setsAcc_delOne (rs0 : RuleScanner) (key : RulesId) (cur : List (String × IpSetDef))
    (acc : RuleScanner × List RsEvent) (uid : String) (h : SetsAcc rs0 cur acc) :
    SetsAcc rs0 cur (delOne key acc uid) := by
  unfold delOne
  simp only []
  split
  · refine ⟨?_, ?_⟩
    · simp only []
      rw [setsAfter_append, ← h.1]
      funext u
      simp only [setsAfter, mget_mdel]
    · intro u' d' hm
      simp only [List.mem_append, List.mem_singleton] at hm
      rcases hm with hm | hm
      · exact h.2 u' d' hm
      · cases hm
  · exact ⟨h.1, h.2⟩

theorem setsAcc_foldl {α : Type} (rs0 : RuleScanner) (cur : List (String × IpSetDef))
    (f : RuleScanner × List RsEvent → α → RuleScanner × List RsEvent)
    (hf : ∀ acc a, SetsAcc rs0 cur acc → SetsAcc rs0 cur (f acc a)) :
    ∀ (l : List α) (acc : RuleScanner × List RsEvent), SetsAcc rs0 cur acc → SetsAcc rs0 cur (l.foldl f acc)
  | [], _, h => h
  | a :: l, acc, h => setsAcc_foldl rs0 cur f hf l (f acc a) (hf acc a h)

/-- `ipSetsByUID` after `updateRules` = before, updated by the events fired; every `OnIPSetActive` carries the
definition `cur` has for that uid -/
theorem updateRules_sets (rs : RuleScanner) (key : RulesId) (cur : List (String × IpSetDef)) :
    (fun u => mget (rs.updateRules key cur).1.sets u) = setsAfter (fun u => mget rs.sets u) (rs.updateRules key cur).2 ∧
    ∀ uid d, RsEvent.ipsetActive uid d ∈ (rs.updateRules key cur).2 → mget cur uid = some d := by
  rw [updateRules_eq]
  have h0 : SetsAcc rs cur (rs, []) := ⟨rfl, by intro u d h; cases h⟩
  have h1 := setsAcc_foldl rs cur (addOne key cur) (fun acc a h => setsAcc_addOne rs key cur acc a h)
    ((C02.mkeys cur).filter (fun uid => decide ((key, uid) ∉ rs.refs))) (rs, []) h0
  exact setsAcc_foldl rs cur (delOne key) (fun acc a h => setsAcc_delOne rs key cur acc a h) _ _ h1

/-- the definition table's domain is the in-use set -/
theorem setsAfter_dom {f f' : InUse} {evs : List RsEvent} (hr : EvReplay f evs f') :
    ∀ T : String → Option IpSetDef, (∀ u, (T u).isSome = f u) → ∀ u, (setsAfter T evs u).isSome = f' u := by
  induction hr with
  | nil f => intro T h; exact h
  | @active f uid d evs f' _ _ ih =>
    intro T h
    simp only [setsAfter]
    exact ih _ (by intro u; by_cases hu : u = uid <;> simp [hu, h u])
  | @inactive f uid evs f' _ _ ih =>
    intro T h
    simp only [setsAfter]
    exact ih _ (by intro u; by_cases hu : u = uid <;> simp [hu, h u])

theorem mget_currentSets {H : IdFn} {r : RulesIn} {uid : String} {d : IpSetDef}
    (h : mget (currentSets H r) uid = some d) : H d = uid := by
  unfold currentSets at h
  generalize (r.inbound ++ r.outbound).flatMap ruleSets = l at h
  suffices key : ∀ (l : List IpSetDef) (m : List (String × IpSetDef)),
      (∀ u x, mget m u = some x → H x = u) → ∀ u x, mget (l.foldl (fun m d => mset (H d) d m) m) u = some x → H x = u from
    key l [] (by intro u x hx; simp [mget] at hx) uid d h
  intro l
  induction l with
  | nil => intro m hm; exact hm
  | cons a t ih =>
    intro m hm
    simp only [List.foldl_cons]
    apply ih
    intro u x hx
    rw [mget_mset] at hx
    by_cases hu : u = H a
    · simp only [hu, if_true, Option.some.injEq] at hx; rw [← hx, hu]
    · simp only [hu, if_false] at hx; exact hm u x hx

/-! ### a generic tower: predicates that only read `idx` and `rs` -/

/-- `P` is insensitive to everything but `idx` / `rs` and is kept by the rule-scanner step -/
structure Stable (H : IdFn) (P : Graph → Prop) : Prop where
  frame : ∀ g g', P g → g'.idx = g.idx → g'.rs = g.rs → P g'
  scan : ∀ g key rules, P g → P (g.scanRules H key rules)

section stable
variable {H : IdFn} {P : Graph → Prop} (hs : Stable H P)
include hs

theorem stable_foldl {α : Type} (f : Graph → α → Graph) (hf : ∀ g a, P g → P (f g a)) :
    ∀ (l : List α) (g : Graph), P g → P (l.foldl f g)
  | [], _, hi => hi
  | a :: l, g, hi => stable_foldl f hf l (f g a) (hf g a hi)

theorem stable_emit {g : Graph} (hi : P g) (cs : List Call) : P (g.emit cs) :=
  hs.frame g _ hi (emit_fields g cs).1 (rs_emit g cs).1

theorem stable_profEvents {g : Graph} (hi : P g) (evs : List (C05.Event RulesIn)) : P (g.profEvents H evs) := by
  unfold Graph.profEvents
  refine stable_foldl hs _ ?_ evs g hi
  intro g e hi
  cases e with
  | active p r => cases r <;> exact hs.scan g _ _ hi
  | inactive p => exact hs.scan g _ _ hi

theorem stable_arcProfStep {g : Graph} (hi : P g) (u : C05.Upd RulesIn) : P (g.arcProfStep H u) := by
  unfold Graph.arcProfStep
  simp only []
  exact stable_profEvents hs (hs.frame g { g with arcProf := C05.step g.arcProf u } hi rfl rfl) _

theorem stable_sendPolicyUpdate {g : Graph} (hi : P g) (n : Nat) : P (g.sendPolicyUpdate H n) := by
  unfold Graph.sendPolicyUpdate
  split
  · split
    · exact hs.scan g _ _ hi
    · exact hs.frame g _ hi rfl rfl
  · exact hs.scan g _ _ hi

theorem stable_onMatchEvent {g : Graph} (hi : P g) (e : C07.Event) : P (g.onMatchEvent H e) := by
  cases e with
  | started sel item =>
    simp only [Graph.onMatchEvent]
    have key : ∀ g1 : Graph, P g1 → P (if (!g.polActive sel) = true then g1.sendPolicyUpdate H sel else g1) := by
      intro g1 h1; split
      · exact stable_sendPolicyUpdate hs h1 sel
      · exact h1
    exact hs.frame _ _ (key { g with polEps := C02.sadd (sel, item) g.polEps } (hs.frame g _ hi rfl rfl)) rfl rfl
  | stopped sel item =>
    simp only [Graph.onMatchEvent]
    have key : ∀ g1 : Graph, P g1 → P (if (!g1.polActive sel) = true then g1.sendPolicyUpdate H sel else g1) := by
      intro g1 h1; split
      · exact stable_sendPolicyUpdate hs h1 sel
      · exact h1
    exact hs.frame _ _ (key { g with polEps := C02.sdel (sel, item) g.polEps } (hs.frame g _ hi rfl rfl)) rfl rfl

theorem stable_lblStep {g : Graph} (hi : P g) (r : C07.Idx × List C07.Event) : P (g.lblStep H r) := by
  unfold Graph.lblStep
  exact stable_foldl hs _ (fun g e hi => stable_onMatchEvent hs hi e) _ _ (hs.frame g _ hi rfl rfl)

theorem stable_arcEndpoint {g : Graph} (hi : P g) (nid : Nat) (key : EpKey) (v : Option EpVal) :
    P (g.arcEndpoint H nid key v) := by
  unfold Graph.arcEndpoint
  simp only []
  have h2 := stable_arcProfStep hs hi (.endpoint (epKeyStr key) (v.map (·.profiles)))
  cases v <;> exact stable_lblStep hs h2 _

theorem stable_arcPolicyChanged {g : Graph} (hi : P g) (nid : Nat) (pv : PolVal) : P (g.arcPolicyChanged H nid pv) := by
  unfold Graph.arcPolicyChanged
  simp only []
  have h1 : P { g with allPolicies := C02.mset nid pv g.allPolicies } := hs.frame g _ hi rfl rfl
  split
  · exact hs.frame _ _ h1 rfl rfl
  · rename_i sel _
    have h2 := stable_lblStep hs h1 (C07.updateSelector g.lbl nid sel)
    split
    · exact stable_sendPolicyUpdate hs h2 _
    · exact h2

theorem stable_arcPolicy {g : Graph} (hi : P g) (nid : Nat) (v : Option PolVal) : P (g.arcPolicy H nid v) := by
  unfold Graph.arcPolicy
  cases v with
  | none =>
    simp only []
    exact stable_lblStep hs (hs.frame g { g with allPolicies := C02.mdel nid g.allPolicies } hi rfl rfl) _
  | some pv =>
    simp only []
    split
    · exact hi
    · exact stable_arcPolicyChanged hs hi nid pv

theorem stable_flush {g : Graph} (hi : P g) : P g.flush.1 := by
  rw [flush_eq]
  simp only []
  have h1 : P g.flushResolver := by
    unfold Graph.flushResolver
    split
    · rename_i r calls hf
      exact stable_emit hs (hs.frame g { g with res := r } hi rfl rfl) _
    · exact hs.frame g _ hi rfl rfl
  exact hs.frame _ _ h1 rfl rfl

end stable


/-! ### the invariant -/


def epOf (v : EpVal) : C04.EpData :=
  { labels := v.labels, nets := C04.extractIPs v.nets, ports := v.ports, parents := C04.dedupParents v.profiles, cached := [] }
def nsOf (n : NetSetVal) : C04.EpData :=
  { labels := n.labels, nets := C04.extractNetSet n.nets, ports := [], parents := C04.dedupParents n.profiles, cached := [] }
def trD (d : IpSetDef) : Str × Nat × String := (d.sel, d.proto, d.port)

structure XInv (N : Numbering) (H : IdFn) (s : Bool) (g : Graph) (ds : DS) : Prop where
  sup : g.idx.suppress = s
  eps : ∀ nid, C04.C01Ext.epsView g.idx (epKeyStr (N.ek nid)) = (mget ds.eps nid).map (fun x => epOf x.2.2)
  nets : ∀ name, C04.C01Ext.epsView g.idx ("n:" ++ name) = (mget ds.netsets name).map nsOf
  range : ∀ k, (C04.C01Ext.epsView g.idx k).isSome = true → (∃ nid, k = epKeyStr (N.ek nid)) ∨ ∃ name, k = "n:" ++ name
  parents : ∀ p, C04.parentLabels g.idx p = (mget ds.profLabels p).getD []
  sets : ∀ uid, C04.C01Ext.setView g.idx uid = (mget g.rs.sets uid).map trD
  setsH : ∀ uid d, mget g.rs.sets uid = some d → H d = uid
  setsDom : ∀ uid, (mget g.rs.sets uid).isSome = g.rs.inUse uid
  nodup : g.rs.refs.Nodup

theorem nKey_inj {a b : String} (h : "n:" ++ a = "n:" ++ b) : a = b := by
  have h2 := congrArg String.toList h
  simp only [String.toList_append] at h2
  exact String.toList_inj.1 (List.append_cancel_left h2)

theorem epKeyStr_ne_n (k : EpKey) (name : String) : epKeyStr k ≠ "n:" ++ name := by
  intro h
  have h2 := congrArg String.toList h
  have e0 : ("n:" : String).toList = ['n', ':'] := by decide
  have e1 : ("w:" : String).toList = ['w', ':'] := by decide
  have e2 : ("h:" : String).toList = ['h', ':'] := by decide
  cases k <;> simp only [epKeyStr, String.toList_append] at h2
  · rw [e0, e1] at h2; simp at h2
  · rw [e0, e2] at h2; simp at h2

theorem idxOp_idx_rs (g : Graph) (op : C04.Op Str) :
    (g.idxOp op).idx = C04.step matchSel g.idx op ∧ (g.idxOp op).rs = g.rs :=
  ⟨(idxOp_fields g op).1, (quietRel_idxOp g op).rs⟩

/-- what one scanner event does to the member index's tables -/
theorem onRsEvent_tables (g : Graph) (e : RsEvent) :
    (g.onRsEvent e).rs = g.rs ∧ (g.onRsEvent e).idx.suppress = g.idx.suppress ∧
    (∀ k, C04.C01Ext.epsView (g.onRsEvent e).idx k = C04.C01Ext.epsView g.idx k) ∧
    (∀ p, C04.parentLabels (g.onRsEvent e).idx p = C04.parentLabels g.idx p) ∧
    (∀ k, C04.C01Ext.setView (g.onRsEvent e).idx k = match e with
      | .ipsetActive uid d => if k = uid then some (trD d) else C04.C01Ext.setView g.idx k
      | .ipsetInactive uid => if k = uid then none else C04.C01Ext.setView g.idx k) := by
  have hrs := (onRsEvent_spec g e).1
  cases e with
  | ipsetActive uid d =>
    simp only [Graph.onRsEvent] at hrs ⊢
    obtain ⟨f1, _⟩ := idxOp_idx_rs (g.emit [.ipsetAdded uid (if d.proto ≠ C04.protoNone then 1 else 0)])
      (.updateIPSet uid d.sel d.proto d.port)
    rw [(emit_fields g _).1] at f1
    obtain ⟨t1, t2, t3⟩ := C04.C01Ext.updateIPSet_tables matchSel uid d.sel d.proto d.port g.idx
    refine ⟨hrs, ?_, ?_, ?_, ?_⟩
    · rw [f1]; exact C04.step_suppress matchSel g.idx _
    · intro k; rw [f1]; exact t1 k
    · intro p; rw [f1]; unfold C04.parentLabels; rw [show (C04.step matchSel g.idx (.updateIPSet uid d.sel d.proto d.port)).parents = g.idx.parents from t2]
    · intro k; rw [f1]; exact t3 k
  | ipsetInactive uid =>
    simp only [Graph.onRsEvent] at hrs ⊢
    obtain ⟨f1, _⟩ := idxOp_idx_rs g (.deleteIPSet uid)
    have f2 := (emit_fields (g.idxOp (.deleteIPSet uid)) [.ipsetRemoved uid]).1
    obtain ⟨t1, t2, t3⟩ := C04.C01Ext.deleteIPSet_tables uid g.idx
    refine ⟨hrs, ?_, ?_, ?_, ?_⟩
    · rw [f2, f1]; exact C04.step_suppress matchSel g.idx _
    · intro k; rw [f2, f1]; exact t1 k
    · intro p; rw [f2, f1]; unfold C04.parentLabels; rw [show (C04.step matchSel g.idx (.deleteIPSet uid)).parents = g.idx.parents from t2]
    · intro k; rw [f2, f1]; exact t3 k

theorem foldl_onRsEvent_tables : ∀ (evs : List RsEvent) (g : Graph) (T : String → Option IpSetDef),
    (∀ u, C04.C01Ext.setView g.idx u = (T u).map trD) →
    (evs.foldl Graph.onRsEvent g).rs = g.rs ∧ (evs.foldl Graph.onRsEvent g).idx.suppress = g.idx.suppress ∧
    (∀ k, C04.C01Ext.epsView (evs.foldl Graph.onRsEvent g).idx k = C04.C01Ext.epsView g.idx k) ∧
    (∀ p, C04.parentLabels (evs.foldl Graph.onRsEvent g).idx p = C04.parentLabels g.idx p) ∧
    (∀ u, C04.C01Ext.setView (evs.foldl Graph.onRsEvent g).idx u = (setsAfter T evs u).map trD)
  | [], g, T, h => ⟨rfl, rfl, fun _ => rfl, fun _ => rfl, h⟩
  | e :: t, g, T, h => by
    obtain ⟨o1, o2, o3, o4, o5⟩ := onRsEvent_tables g e
    simp only [List.foldl_cons]
    cases e with
    | ipsetActive uid d =>
      obtain ⟨i1, i2, i3, i4, i5⟩ := foldl_onRsEvent_tables t (g.onRsEvent (.ipsetActive uid d))
        (fun u => if u = uid then some d else T u) (by
          intro u; rw [o5 u]; by_cases hu : u = uid <;> simp [hu, h u])
      exact ⟨i1.trans o1, i2.trans o2, fun k => (i3 k).trans (o3 k), fun p => (i4 p).trans (o4 p), i5⟩
    | ipsetInactive uid =>
      obtain ⟨i1, i2, i3, i4, i5⟩ := foldl_onRsEvent_tables t (g.onRsEvent (.ipsetInactive uid))
        (fun u => if u = uid then none else T u) (by
          intro u; rw [o5 u]; by_cases hu : u = uid <;> simp [hu, h u])
      exact ⟨i1.trans o1, i2.trans o2, fun k => (i3 k).trans (o3 k), fun p => (i4 p).trans (o4 p), i5⟩

theorem setsAfter_some : ∀ (evs : List RsEvent) (T : String → Option IpSetDef) (u : String) (d : IpSetDef),
    setsAfter T evs u = some d → T u = some d ∨ RsEvent.ipsetActive u d ∈ evs
  | [], _, _, _, h => Or.inl h
  | .ipsetActive uid d0 :: t, T, u, d, h => by
    simp only [setsAfter] at h
    rcases setsAfter_some t _ u d h with h1 | h1
    · by_cases hu : u = uid
      · simp only [hu, if_true, Option.some.injEq] at h1
        subst h1; subst hu
        exact Or.inr (List.mem_cons_self ..)
      · simp only [hu, if_false] at h1; exact Or.inl h1
    · exact Or.inr (List.mem_cons_of_mem _ h1)
  | .ipsetInactive uid :: t, T, u, d, h => by
    simp only [setsAfter] at h
    rcases setsAfter_some t _ u d h with h1 | h1
    · by_cases hu : u = uid
      · simp [hu] at h1
      · simp only [hu, if_false] at h1; exact Or.inl h1
    · exact Or.inr (List.mem_cons_of_mem _ h1)

theorem xInv_frame {N : Numbering} {H : IdFn} {s : Bool} {g g' : Graph} {ds : DS} (hi : XInv N H s g ds)
    (h1 : g'.idx = g.idx) (h2 : g'.rs = g.rs) : XInv N H s g' ds :=
  ⟨by rw [h1]; exact hi.sup, by rw [h1]; exact hi.eps, by rw [h1]; exact hi.nets, by rw [h1]; exact hi.range,
    by rw [h1]; exact hi.parents, by rw [h1, h2]; exact hi.sets, by rw [h2]; exact hi.setsH,
    by rw [h2]; exact hi.setsDom, by rw [h2]; exact hi.nodup⟩

theorem xInv_scanRules {N : Numbering} {H : IdFn} {s : Bool} {g : Graph} {ds : DS} (hi : XInv N H s g ds)
    (key : RulesId) (rules : Option RulesIn) : XInv N H s (g.scanRules H key rules) ds := by
  unfold Graph.scanRules
  refine xInv_frame (g := g.rsUpdate H key rules) ?_ (emit_fields _ _).1 (rs_emit _ _).1
  rw [rsUpdate_eq]
  have hcur_nd : (mkeys (curOf H rules)).Nodup := by
    cases rules with
    | none => simp [mkeys, curOf]
    | some r => exact mkeys_currentSets_nodup H r
  obtain ⟨hsets, hpay⟩ := updateRules_sets g.rs key (curOf H rules)
  have hspec := updateRules_spec g.rs key (curOf H rules) hi.nodup
  obtain ⟨f1, f2, f3, f4, f5⟩ := foldl_onRsEvent_tables (g.rs.updateRules key (curOf H rules)).2
    { g with rs := (g.rs.updateRules key (curOf H rules)).1, active := setOrDel key rules g.active }
    (fun u => mget g.rs.sets u) hi.sets
  have hT : ∀ u, mget (g.rs.updateRules key (curOf H rules)).1.sets u =
      setsAfter (fun u => mget g.rs.sets u) (g.rs.updateRules key (curOf H rules)).2 u := fun u => congrFun hsets u
  refine ⟨f2.trans hi.sup, fun nid => (f3 _).trans (hi.eps nid), fun name => (f3 _).trans (hi.nets name),
    fun k hk => hi.range k (by rw [← f3 k]; exact hk), fun p => (f4 p).trans (hi.parents p), ?_, ?_, ?_, ?_⟩
  · intro uid; rw [f5 uid, f1, hT uid]
  · intro uid d hd
    rw [f1] at hd
    simp only [] at hd
    rw [hT uid] at hd
    rcases setsAfter_some _ _ uid d hd with h1 | h1
    · exact hi.setsH uid d h1
    · have := hpay uid d h1
      cases rules with
      | none => simp [curOf, mget] at this
      | some r => exact mget_currentSets this
  · intro uid
    rw [f1]
    simp only []
    rw [hT uid]
    exact setsAfter_dom hspec.2 _ hi.setsDom uid
  · rw [f1]; exact updateRules_nodup g.rs key (curOf H rules) hi.nodup hcur_nd

theorem xInv_stable (N : Numbering) (H : IdFn) (s : Bool) (ds : DS) : Stable H (fun g => XInv N H s g ds) :=
  ⟨fun _ _ hi h1 h2 => xInv_frame hi h1 h2, fun _ key rules hi => xInv_scanRules hi key rules⟩

theorem xInv_ds {N : Numbering} {H : IdFn} {s : Bool} {g : Graph} {ds ds' : DS} (hi : XInv N H s g ds)
    (h1 : ds'.eps = ds.eps) (h2 : ds'.netsets = ds.netsets) (h3 : ds'.profLabels = ds.profLabels) : XInv N H s g ds' :=
  ⟨hi.sup, by rw [h1]; exact hi.eps, by rw [h2]; exact hi.nets, hi.range, by rw [h3]; exact hi.parents,
    hi.sets, hi.setsH, hi.setsDom, hi.nodup⟩

/-- an endpoint-table operation of the member index -/
theorem xInv_epOp {N : Numbering} {H : IdFn} {s : Bool} {g : Graph} {ds : DS} (hi : XInv N H s g ds)
    (op : C04.Op Str) (key : String) (newv : Option C04.EpData)
    (hop : (∀ k, C04.C01Ext.epsView (C04.step matchSel g.idx op) k = if k = key then newv else C04.C01Ext.epsView g.idx k) ∧
      (C04.step matchSel g.idx op).parents = g.idx.parents ∧
      (∀ u, C04.C01Ext.setView (C04.step matchSel g.idx op) u = C04.C01Ext.setView g.idx u)) :
    (g.idxOp op).idx.suppress = s ∧
    (∀ k, C04.C01Ext.epsView (g.idxOp op).idx k = if k = key then newv else C04.C01Ext.epsView g.idx k) ∧
    (∀ p, C04.parentLabels (g.idxOp op).idx p = C04.parentLabels g.idx p) ∧
    (∀ u, C04.C01Ext.setView (g.idxOp op).idx u = (mget (g.idxOp op).rs.sets u).map trD) ∧ (g.idxOp op).rs = g.rs := by
  obtain ⟨f1, f2⟩ := idxOp_idx_rs g op
  refine ⟨by rw [f1, C04.step_suppress]; exact hi.sup, by rw [f1]; exact hop.1, ?_, ?_, f2⟩
  · intro p; rw [f1]; unfold C04.parentLabels; rw [hop.2.1]
  · intro u; rw [f1, f2, hop.2.2 u]; exact hi.sets u

theorem xInv_step {N : Numbering} {H : IdFn} {s : Bool} {g : Graph} {ds : DS} (hi : XInv N H s g ds) (u : Upd)
    (hu : N.updOk u) : XInv N H s (g.step H u) (ds.apply u) := by
  have hs := xInv_stable N H s ds
  cases u with
  | endpoint nid key isLocal v =>
    obtain ⟨hk, _⟩ := hu
    subst hk
    simp only [Graph.step]
    have h1 : XInv N H s (if isLocal = true then
        Graph.localEndpoint H { g with epKeys := C02.mset nid (N.ek nid) g.epKeys } nid (N.ek nid) v
        else { g with epKeys := C02.mset nid (N.ek nid) g.epKeys }) ds := by
      split
      · exact xInv_frame (stable_arcEndpoint hs
          (xInv_frame (g' := { g with epKeys := C02.mset nid (N.ek nid) g.epKeys }) hi rfl rfl) nid (N.ek nid) v) rfl rfl
      · exact xInv_frame hi rfl rfl
    generalize (if isLocal = true then
        Graph.localEndpoint H { g with epKeys := C02.mset nid (N.ek nid) g.epKeys } nid (N.ek nid) v
        else { g with epKeys := C02.mset nid (N.ek nid) g.epKeys }) = g1 at h1 ⊢
    unfold Graph.idxEndpoint
    have main : ∀ (op : C04.Op Str) (newv : Option C04.EpData),
        ((∀ k, C04.C01Ext.epsView (C04.step matchSel g1.idx op) k = if k = epKeyStr (N.ek nid) then newv else C04.C01Ext.epsView g1.idx k) ∧
          (C04.step matchSel g1.idx op).parents = g1.idx.parents ∧
          (∀ u, C04.C01Ext.setView (C04.step matchSel g1.idx op) u = C04.C01Ext.setView g1.idx u)) →
        newv = v.map epOf → XInv N H s (g1.idxOp op) (ds.apply (.endpoint nid (N.ek nid) isLocal v)) := by
      intro op newv hop hnew
      obtain ⟨a1, a2, a3, a4, a5⟩ := xInv_epOp h1 op _ newv hop
      refine ⟨a1, ?_, ?_, ?_, fun p => (a3 p).trans (h1.parents p), a4, by rw [a5]; exact h1.setsH,
        by rw [a5]; exact h1.setsDom, by rw [a5]; exact h1.nodup⟩
      · intro n
        rw [a2]
        simp only [DS.apply]
        rw [mget_setOrDel]
        by_cases hn : n = nid
        · subst hn; simp only [if_true, hnew]; cases v <;> rfl
        · have hne : ¬ epKeyStr (N.ek n) = epKeyStr (N.ek nid) := fun e => hn (N.ekInj _ _ (epKeyStr_inj e))
          simp only [hn, hne, if_false]; exact h1.eps n
      · intro name
        rw [a2]
        have hne : ¬ "n:" ++ name = epKeyStr (N.ek nid) := fun e => epKeyStr_ne_n _ _ e.symm
        simp only [hne, if_false]
        exact h1.nets name
      · intro k hk
        rw [a2] at hk
        by_cases hkk : k = epKeyStr (N.ek nid)
        · exact Or.inl ⟨nid, hkk⟩
        · simp only [hkk, if_false] at hk; exact h1.range k hk
    cases v with
    | none =>
      exact main _ none (C04.C01Ext.deleteEndpoint_tables _ g1.idx) rfl
    | some e =>
      exact main _ (some (epOf e))
        (C04.C01Ext.updateEndpointCore_tables matchSel _ e.labels (C04.extractIPs e.nets) e.ports
          (C04.dedupParents e.profiles) g1.idx) rfl
  | netset name v =>
    simp only [Graph.step, Graph.idxNetset]
    have main : ∀ (op : C04.Op Str) (newv : Option C04.EpData),
        ((∀ k, C04.C01Ext.epsView (C04.step matchSel g.idx op) k = if k = "n:" ++ name then newv else C04.C01Ext.epsView g.idx k) ∧
          (C04.step matchSel g.idx op).parents = g.idx.parents ∧
          (∀ u, C04.C01Ext.setView (C04.step matchSel g.idx op) u = C04.C01Ext.setView g.idx u)) →
        newv = v.map nsOf → XInv N H s (g.idxOp op) (ds.apply (.netset name v)) := by
      intro op newv hop hnew
      obtain ⟨a1, a2, a3, a4, a5⟩ := xInv_epOp hi op _ newv hop
      refine ⟨a1, ?_, ?_, ?_, fun p => (a3 p).trans (hi.parents p), a4, by rw [a5]; exact hi.setsH,
        by rw [a5]; exact hi.setsDom, by rw [a5]; exact hi.nodup⟩
      · intro n
        rw [a2]
        have hne : ¬ epKeyStr (N.ek n) = "n:" ++ name := epKeyStr_ne_n _ _
        simp only [hne, if_false]
        exact hi.eps n
      · intro nm
        rw [a2]
        simp only [DS.apply]
        rw [mget_setOrDel]
        by_cases hn : nm = name
        · subst hn; simp only [if_true, hnew]
        · have hne : ¬ "n:" ++ nm = "n:" ++ name := fun e => hn (nKey_inj e)
          simp only [hn, hne, if_false]; exact hi.nets nm
      · intro k hk
        rw [a2] at hk
        by_cases hkk : k = "n:" ++ name
        · exact Or.inr ⟨name, hkk⟩
        · simp only [hkk, if_false] at hk; exact hi.range k hk
    cases v with
    | none => exact main _ none (C04.C01Ext.deleteEndpoint_tables _ g.idx) rfl
    | some n =>
      exact main _ (some (nsOf n))
        (C04.C01Ext.updateEndpointCore_tables matchSel _ n.labels (C04.extractNetSet n.nets) []
          (C04.dedupParents n.profiles) g.idx) rfl
  | profLabels pid v =>
    simp only [Graph.step]
    unfold Graph.profLabels
    have main : ∀ (g1 : Graph) (labels : C04.Labels), XInv N H s g1 ds → labels = v.getD [] →
        ∀ op, C04.step matchSel g1.idx op = C04.updateParentLabels matchSel pid labels g1.idx →
        XInv N H s (g1.idxOp op) (ds.apply (.profLabels pid v)) := by
      intro g1 labels h1 hl op hop
      obtain ⟨f1, f2⟩ := idxOp_idx_rs g1 op
      obtain ⟨t1, t2, t3⟩ := C04.C01Ext.updateParentLabels_tables matchSel pid labels g1.idx
      rw [hop] at f1
      refine ⟨by rw [f1, ← hop, C04.step_suppress]; exact h1.sup, fun n => by rw [f1, t1]; exact h1.eps n,
        fun nm => by rw [f1, t1]; exact h1.nets nm, fun k hk => h1.range k (by rw [f1, t1] at hk; exact hk), ?_,
        fun u => by rw [f1, f2, t3]; exact h1.sets u, by rw [f2]; exact h1.setsH, by rw [f2]; exact h1.setsDom,
        by rw [f2]; exact h1.nodup⟩
      intro p
      rw [f1, t2 p]
      simp only [DS.apply]
      rw [mget_setOrDel]
      by_cases hp : p = pid
      · simp only [hp, if_true, hl]
      · simp only [hp, if_false]; exact h1.parents p
    cases v with
    | none => exact main _ [] (stable_lblStep hs hi _) rfl _ rfl
    | some ls => exact main _ ls (stable_lblStep hs hi _) rfl _ rfl
  | profRules pid v => exact xInv_ds (stable_arcProfStep hs hi _) rfl rfl rfl
  | tier name v => exact xInv_ds (xInv_frame hi rfl rfl) rfl rfl rfl
  | policy nid key v =>
    simp only [Graph.step]
    exact xInv_ds (xInv_frame (stable_arcPolicy hs
      (xInv_frame (g' := { g with polKeys := C02.mset nid key g.polKeys }) hi rfl rfl) nid v) rfl rfl) rfl rfl rfl
  | passthru c key v => exact xInv_ds (stable_emit hs hi _) rfl rfl rfl
  | other => exact hi

theorem xInv_run {N : Numbering} {H : IdFn} {s : Bool} : ∀ (h : List HStep) {g : Graph} {ds : DS},
    XInv N H s g ds → (∀ st ∈ h, N.stepOk st) →
    XInv N H s (run H g h).1 (h.foldl (fun ds st => match st with
      | .upd u => ds.apply u
      | _ => ds) ds)
  | [], _, _, hi, _ => hi
  | .upd u :: t, g, ds, hi, hin => by
    simp only [run, List.foldl_cons]
    exact xInv_run t (xInv_step hi u (hin _ (List.mem_cons_self ..))) (fun st hst => hin st (List.mem_cons_of_mem _ hst))
  | .inSync :: t, g, ds, hi, hin => by
    simp only [run, List.foldl_cons]
    exact xInv_run t (xInv_frame hi rfl rfl) (fun st hst => hin st (List.mem_cons_of_mem _ hst))
  | .flush :: t, g, ds, hi, hin => by
    simp only [run, List.foldl_cons]
    exact xInv_run t (stable_flush (xInv_stable N H s ds) hi) (fun st hst => hin st (List.mem_cons_of_mem _ hst))

theorem xInv_new (N : Numbering) (H : IdFn) (s : Bool) : XInv N H s (Graph.new s) {} := by
  refine ⟨rfl, ?_, ?_, ?_, ?_, ?_, ?_, ?_, ?_⟩
  · intro n; simp [C04.C01Ext.epsView, Graph.new, C04.Idx.new, C04.alGet, mget]
  · intro n; simp [C04.C01Ext.epsView, Graph.new, C04.Idx.new, C04.alGet, mget]
  · intro k hk; simp [C04.C01Ext.epsView, Graph.new, C04.Idx.new, C04.alGet] at hk
  · intro p; simp [C04.parentLabels, Graph.new, C04.Idx.new, C04.alGet, mget]
  · intro u; simp [C04.C01Ext.setView, Graph.new, C04.Idx.new, C04.alGet, mget]
  · intro u d hd; simp [Graph.new, mget] at hd
  · intro u; simp [Graph.new, mget, RuleScanner.inUse, RuleScanner.uidInUse]
  · simp [Graph.new]

end CalicoVerif.C01
