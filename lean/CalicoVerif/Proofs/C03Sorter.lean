import CalicoVerif.Proofs.C03Out
/-! C03: the PolicySorter keeps its two btrees sorted and consistent with the tier map, for all histories. -/
namespace CalicoVerif.C03
open CalicoVerif.C02

structure SInv (s : Sorter) : Prop where
  tiers : ∀ n t, mget s.tiers n = some t → t.name = n ∧ Sorted polKVLess t.sorted
  sorted : Sorted tierLess s.sortedTiers
  look : ∀ tk, tk ∈ s.sortedTiers → ∃ t, mget s.tiers tk.name = some t ∧ t.key = tk
  nodup : (mkeys s.tiers).Nodup
  /-- conversely every tier of the map has its key in the tier btree -/
  has : ∀ n t, mget s.tiers n = some t → t.key ∈ s.sortedTiers

theorem SInv.init : SInv {} := ⟨by simp, by simp [Sorted], by simp, by simp [mkeys], by simp⟩

theorem tier_comparable {a b : TierKey} (h : a.name ≠ b.name) : tierLess a b = true ∨ tierLess b a = true := by
  have hs := swo_tierLess
  cases hab : tierLess a b with
  | true => exact Or.inl rfl
  | false =>
    cases hba : tierLess b a with
    | true => exact Or.inr rfl
    | false =>
      exfalso
      -- incomparable keys have equal rank and equal name
      obtain ⟨an, av, ao⟩ := a
      obtain ⟨bn, bv, bo⟩ := b
      simp only at h
      cases av <;> cases bv <;> cases ao <;> cases bo <;> simp [tierLess] at hab hba
      all_goals first
        | (rcases str_lt_trichotomy an bn with x | x | x
           · exact absurd x (by simpa using hab)
           · exact h x
           · exact absurd x (by simpa using hba))
        | skip
      all_goals
        rename_i x y
        by_cases hxy : x = y
        · subst hxy
          simp at hab hba
          rcases str_lt_trichotomy an bn with z | z | z
          · exact absurd z (String.not_lt.2 hab)
          · exact h z
          · exact absurd z (String.not_lt.2 hba)
        · have hyx : ¬ y = x := fun e => hxy e.symm
          simp [hxy, hyx] at hab hba
          omega

theorem mget_of_mem' {κ β : Type} [DecidableEq κ] {m : List (κ × β)} (hn : (mkeys m).Nodup) {k : κ} {v : β} (h : (k, v) ∈ m) :
    mget m k = some v := by
  induction m with
  | nil => cases h
  | cons p t ih =>
    obtain ⟨k₀, v₀⟩ := p
    simp only [mkeys, List.map_cons, List.nodup_cons] at hn
    simp only [List.mem_cons, Prod.mk.injEq] at h
    rw [mget_cons]
    rcases h with ⟨rfl, rfl⟩ | h
    · simp
    · have : k₀ ≠ k := by
        intro e; subst e
        exact hn.1 (List.mem_map.2 ⟨(k₀, v), h, rfl⟩)
      simp only [this, if_false]
      exact ih hn.2 h

/-- replacing a tier by one with the same name and key, and a sorted policy list -/
theorem SInv.setTier {s : Sorter} (h : SInv s) (t t' : TierSt) (ht : mget s.tiers t.name = some t)
    (hn : t'.name = t.name) (hk : t'.key = t.key) (hs : Sorted polKVLess t'.sorted) :
    SInv { s with tiers := mset t.name t' s.tiers } := by
  refine ⟨?_, h.sorted, ?_, mkeys_mset_nodup h.nodup, ?_⟩
  rotate_left 2
  · intro n x hx
    simp only [mget_mset] at hx
    by_cases hnn : n = t.name
    · simp only [hnn, if_true, Option.some.injEq] at hx
      subst hx; rw [hk]; exact h.has _ _ ht
    · simp only [hnn, if_false] at hx; exact h.has n x hx
  · intro n x hx
    simp only [mget_mset] at hx
    by_cases hnn : n = t.name
    · simp only [hnn, if_true, Option.some.injEq] at hx
      subst hx; exact ⟨hn.trans hnn.symm, hs⟩
    · simp only [hnn, if_false] at hx; exact h.tiers n x hx
  · intro tk htk
    obtain ⟨x, hx, hxk⟩ := h.look tk htk
    simp only [mget_mset]
    by_cases hnn : tk.name = t.name
    · simp only [hnn, if_true]
      rw [hnn, ht] at hx
      simp only [Option.some.injEq] at hx
      subst hx
      exact ⟨t', rfl, hk.trans hxk⟩
    · simp only [hnn, if_false]; exact ⟨x, hx, hxk⟩

/-- dropping a tier together with its key -/
theorem SInv.dropTier {s : Sorter} (h : SInv s) (t : TierSt) (ht : mget s.tiers t.name = some t) :
    SInv { tiers := mdel t.name s.tiers, sortedTiers := btDelete tierLess t.key s.sortedTiers } := by
  refine ⟨?_, sorted_btDelete _ _ h.sorted, ?_, mkeys_mdel_nodup h.nodup, ?_⟩
  rotate_left 2
  · intro n x hx
    simp only [mget_mdel] at hx
    by_cases hnn : n = t.name
    · simp [hnn] at hx
    · simp only [hnn, if_false] at hx
      rw [mem_btDelete_iff swo_tierLess _ _ _ h.sorted]
      refine ⟨h.has n x hx, tier_comparable ?_⟩
      simp only [TierSt.key]
      rw [(h.tiers n x hx).1]; exact fun e => hnn e.symm
  · intro n x hx
    simp only [mget_mdel] at hx
    by_cases hnn : n = t.name
    · simp [hnn] at hx
    · simp only [hnn, if_false] at hx; exact h.tiers n x hx
  · intro tk htk
    rw [mem_btDelete_iff swo_tierLess _ _ _ h.sorted] at htk
    obtain ⟨x, hx, hxk⟩ := h.look tk htk.1
    have hne : tk.name ≠ t.name := by
      intro e
      rw [e, ht] at hx
      simp only [Option.some.injEq] at hx
      subst hx
      rw [hxk] at htk
      rcases htk.2 with a | a <;> rw [swo_tierLess.irrefl] at a <;> cases a
    simp only [mget_mdel, hne, if_false]
    exact ⟨x, hx, hxk⟩

/-- adding a brand-new tier together with its key -/
theorem SInv.addTier {s : Sorter} (h : SInv s) (t : TierSt) (hnew : mget s.tiers t.name = none)
    (hs : Sorted polKVLess t.sorted) :
    SInv { tiers := mset t.name t s.tiers, sortedTiers := btInsert tierLess t.key s.sortedTiers } := by
  refine ⟨?_, sorted_btInsert swo_tierLess _ _ h.sorted, ?_, mkeys_mset_nodup h.nodup, ?_⟩
  rotate_left 2
  · intro n x hx
    simp only [mget_mset] at hx
    by_cases hnn : n = t.name
    · simp only [hnn, if_true, Option.some.injEq] at hx
      subst hx; exact mem_btInsert_self _ _
    · simp only [hnn, if_false] at hx
      rw [mem_btInsert_iff swo_tierLess _ _ _ h.sorted]
      refine Or.inr ⟨h.has n x hx, tier_comparable ?_⟩
      simp only [TierSt.key]
      rw [(h.tiers n x hx).1]; exact fun e => hnn e.symm
  · intro n x hx
    simp only [mget_mset] at hx
    by_cases hnn : n = t.name
    · simp only [hnn, if_true, Option.some.injEq] at hx
      subst hx; exact ⟨hnn.symm, hs⟩
    · simp only [hnn, if_false] at hx; exact h.tiers n x hx
  · intro tk htk
    rcases mem_btInsert _ _ _ htk with rfl | htk
    · exact ⟨t, by simp [mget_mset, TierSt.key], rfl⟩
    · obtain ⟨x, hx, hxk⟩ := h.look tk htk
      have hne : tk.name ≠ t.name := by
        intro e; rw [e, hnew] at hx; cases hx
      simp only [mget_mset, hne, if_false]
      exact ⟨x, hx, hxk⟩

theorem SInv.removeFrom {s : Sorter} (h : SInv s) (t : TierSt) (ht : mget s.tiers t.name = some t)
    (k : PolicyKey) (old : PolMeta) : SInv (s.removeFrom t k old) := by
  unfold Sorter.removeFrom
  simp only
  split
  · exact h.dropTier t ht
  · exact h.setTier t _ ht rfl rfl (sorted_btDelete _ _ (h.tiers _ _ ht).2)

theorem tierHolding_some {s : Sorter} (h : SInv s) {k : PolicyKey} {t : TierSt} (ht : s.tierHolding k = some t) :
    mget s.tiers t.name = some t := by
  unfold Sorter.tierHolding at ht
  cases hf : s.tiers.find? (fun p => (mget p.2.policies k).isSome) with
  | none => simp [hf] at ht
  | some p =>
    obtain ⟨n, x⟩ := p
    simp only [hf, Option.map_some, Option.some.injEq] at ht
    subst ht
    have hmem : (n, x) ∈ s.tiers := List.mem_of_find?_eq_some hf
    have := mget_of_mem' h.nodup hmem
    rw [(h.tiers n x this).1]; exact this

theorem removeFrom_other (s : Sorter) (t : TierSt) (k : PolicyKey) (old : PolMeta) (n : String) (hn : n ≠ t.name) :
    mget (s.removeFrom t k old).tiers n = mget s.tiers n := by
  unfold Sorter.removeFrom
  simp only
  split <;> simp [mget_mdel, mget_mset, hn]

theorem SInv.insertPolicy {s : Sorter} (h : SInv s) (k : PolicyKey) (np : PolMeta) (d : Bool) :
    SInv (s.insertPolicy k np d).1 := by
  unfold Sorter.insertPolicy
  cases ht : mget s.tiers np.tier with
  | some t =>
    simp only
    have hn := (h.tiers _ _ ht).1
    have hsd := (h.tiers _ _ ht).2
    have ht' : mget s.tiers t.name = some t := by rw [hn]; exact ht
    refine h.setTier t _ ht' rfl rfl ?_
    cases mget t.policies k with
    | none => exact sorted_btInsert swo_polKVLess _ _ hsd
    | some op => exact sorted_btInsert swo_polKVLess _ _ (sorted_btDelete _ _ hsd)
  | none =>
    simp only
    have h1 := h.addTier { name := np.tier } ht (by simp [Sorted])
    have ht' : mget (mset np.tier ({ name := np.tier } : TierSt) s.tiers) np.tier = some { name := np.tier } := by
      simp [mget_mset]
    exact h1.setTier { name := np.tier } _ ht' rfl rfl (sorted_btInsert swo_polKVLess _ _ (by simp [Sorted]))

theorem SInv.updatePolicy {s : Sorter} (h : SInv s) (k : PolicyKey) (newPol : Option PolMeta) :
    SInv (s.updatePolicy k newPol).1 := by
  cases newPol with
  | none =>
    simp only [Sorter.updatePolicy]
    cases hot : s.tierHolding k with
    | none => exact h
    | some t =>
      have hm := tierHolding_some h hot
      simp only
      cases hp : mget t.policies k with
      | none => exact h
      | some op => exact h.removeFrom t hm k op
  | some np =>
    simp only [Sorter.updatePolicy]
    cases hot : s.tierHolding k with
    | none => exact h.insertPolicy k np _
    | some ot =>
      have hm := tierHolding_some h hot
      by_cases hc : ot.name = np.tier
      · simp only [hc, ne_eq, not_true_eq_false, if_false]
        exact h.insertPolicy k np _
      · simp only [ne_eq, hc, not_false_eq_true, if_true]
        cases hp : mget ot.policies k with
        | none => exact h.insertPolicy k np _
        | some op => exact (h.removeFrom ot hm k op).insertPolicy k np _

theorem SInv.onTierUpdate {s : Sorter} (h : SInv s) (name : String) (v : Option (Option Int × String)) :
    SInv (s.onTierUpdate name v).1 := by
  unfold Sorter.onTierUpdate
  cases v with
  | some p =>
    obtain ⟨order, act⟩ := p
    simp only
    cases ht : mget s.tiers name with
    | none =>
      simp only
      exact h.addTier { name := name, valid := true, order := order, defaultAction := act } ht (by simp [Sorted])
    | some t =>
      simp only
      have hn := (h.tiers _ _ ht).1
      have ht' : mget s.tiers t.name = some t := by rw [hn]; exact ht
      -- delete the old key, then re-add the tier under its new key
      have h1 := h.dropTier t ht'
      have hnone : mget (mdel t.name s.tiers) name = none := by simp [mget_mdel, hn]
      have h2 := h1.addTier { t with order := order, defaultAction := act, valid := true }
        (by simpa [hn] using hnone) (h.tiers _ _ ht).2
      have e : mset t.name { t with order := order, defaultAction := act, valid := true } (mdel t.name s.tiers)
          = mset name { t with order := order, defaultAction := act, valid := true } s.tiers := by
        rw [hn]; unfold mset; congr 1
        unfold mdel; rw [List.filter_filter]; simp
      simp only at h2
      rw [e] at h2
      exact h2
  | none =>
    simp only
    cases ht : mget s.tiers name with
    | none => exact h
    | some t =>
      simp only
      have hn := (h.tiers _ _ ht).1
      have ht' : mget s.tiers t.name = some t := by rw [hn]; exact ht
      have h1 := h.dropTier t ht'
      by_cases hp : t.policies.isEmpty = true
      · simp only [hp, if_true]
        rw [hn] at h1; exact h1
      · simp only [hp, Bool.false_eq_true, if_false]
        have hnone : mget (mdel t.name s.tiers) name = none := by simp [mget_mdel, hn]
        have h2 := h1.addTier { t with valid := false, order := none, defaultAction := "" }
          (by simpa [hn] using hnone) (h.tiers _ _ ht).2
        have e : mset t.name { t with valid := false, order := none, defaultAction := "" } (mdel t.name s.tiers)
            = mset name { t with valid := false, order := none, defaultAction := "" } s.tiers := by
          rw [hn]; unfold mset; congr 1
          unfold mdel; rw [List.filter_filter]; simp
        simp only at h2
        rw [e] at h2
        exact h2

end CalicoVerif.C03
