import CalicoVerif.Proofs.C03Content
/-! C03: each tier's btree lists exactly the tier's policy map (given injective tie-break strings). -/
namespace CalicoVerif.C03
open CalicoVerif.C02

/-- The policy keys in play: their tie-break strings `name/namespace/kind` are pairwise different
(true for validated Calico names, which contain no '/'). -/
structure KeyU (K : PolicyKey → Prop) : Prop where
  inj : ∀ a b, K a → K b → tieStr a = tieStr b → a = b

theorem pol_comparable {K : PolicyKey → Prop} (hK : KeyU K) {a b : PolKV} (ha : K a.key) (hb : K b.key)
    (hne : a.key ≠ b.key) : polKVLess a b = true ∨ polKVLess b a = true := by
  unfold polKVLess
  by_cases ho : a.val.order = b.val.order
  · have hts : tieStr a.key ≠ tieStr b.key := fun e => hne (hK.inj _ _ ha hb e)
    simp only [ho, if_true, decide_eq_true_eq]
    rcases str_lt_trichotomy (tieStr a.key) (tieStr b.key) with x | x | x
    · exact Or.inl x
    · exact absurd x hts
    · exact Or.inr x
  · have ho' : ¬ b.val.order = a.val.order := fun e => ho e.symm
    simp only [ho, ho', if_false]
    cases ha' : a.val.order <;> cases hb' : b.val.order <;> simp [orderLt, ha', hb'] at ho ⊢
    omega

/-- btree = map, tier by tier; and all keys are from the universe -/
def TC (K : PolicyKey → Prop) (s : Sorter) : Prop :=
  ∀ n t, mget s.tiers n = some t →
    (∀ kv, kv ∈ t.sorted ↔ mget t.policies kv.key = some kv.val) ∧ (∀ p, (mget t.policies p).isSome → K p)

theorem removeFrom_tiers (s : Sorter) (t : TierSt) (k : PolicyKey) (old : PolMeta) (n : String) :
    mget (s.removeFrom t k old).tiers n =
      if n = t.name then
        (if (mdel k t.policies).isEmpty && !t.valid then none
         else some { t with sorted := btDelete polKVLess ⟨k, old⟩ t.sorted, policies := mdel k t.policies })
      else mget s.tiers n := by
  unfold Sorter.removeFrom
  simp only
  by_cases hn : n = t.name
  · subst hn
    split <;> simp_all [mget_mdel, mget_mset]
  · split <;> simp [mget_mdel, mget_mset, hn]

theorem TC.removeFrom {K : PolicyKey → Prop} (hK : KeyU K) {s : Sorter} (h : SInv s) (tc : TC K s) {t : TierSt}
    (ht : mget s.tiers t.name = some t) {k : PolicyKey} {old : PolMeta} (hold : mget t.policies k = some old) :
    TC K (s.removeFrom t k old) := by
  intro n x hx
  rw [removeFrom_tiers] at hx
  by_cases hn : n = t.name
  · simp only [hn, if_true] at hx
    split at hx
    · cases hx
    · simp only [Option.some.injEq] at hx
      subst hx
      obtain ⟨c1, c2⟩ := tc _ _ ht
      have hsd := (h.tiers _ _ ht).2
      refine ⟨?_, ?_⟩
      · intro kv
        simp only
        rw [mem_btDelete_iff swo_polKVLess _ _ _ hsd, c1 kv, mget_mdel]
        by_cases hk : kv.key = k
        · simp only [hk, if_true, reduceCtorEq, iff_false, not_and]
          intro hm
          rw [hold] at hm
          simp only [Option.some.injEq] at hm
          have : kv = ⟨k, old⟩ := by cases kv; simp_all
          rw [this, swo_polKVLess.irrefl]; simp
        · simp only [hk, if_false, and_iff_left_iff_imp]
          intro hm
          have hKkv : K kv.key := c2 kv.key (by simp [hm])
          have hKk : K k := c2 k (by simp [hold])
          exact pol_comparable hK (a := ⟨k, old⟩) (b := kv) hKk hKkv (fun e => hk e.symm)
      · intro p hp
        simp only [mget_mdel] at hp
        by_cases hpk : p = k
        · simp [hpk] at hp
        · simp only [hpk, if_false] at hp; exact c2 p hp
  · simp only [hn, if_false] at hx
    exact tc n x hx

/-- the tier after inserting `(k, np)` -/
def insTier (t : TierSt) (k : PolicyKey) (np : PolMeta) : TierSt :=
  { t with sorted := btInsert polKVLess ⟨k, np⟩ (match mget t.policies k with
              | some op => btDelete polKVLess ⟨k, op⟩ t.sorted
              | none => t.sorted),
           policies := mset k np t.policies }

theorem insertPolicy_tiers' (s : Sorter) (k : PolicyKey) (np : PolMeta) (d : Bool)
    (hname : ∀ t, mget s.tiers np.tier = some t → t.name = np.tier) (n : String) :
    mget (s.insertPolicy k np d).1.tiers n =
      if n = np.tier then
        some (insTier (match mget s.tiers np.tier with | some t => t | none => { name := np.tier }) k np)
      else mget s.tiers n := by
  unfold Sorter.insertPolicy
  cases ht : mget s.tiers np.tier with
  | some t =>
    simp only [hname t ht, mget_mset, insTier]
    by_cases hn : n = np.tier
    · simp only [hn, if_true, Option.some.injEq]
      cases mget t.policies k <;> rfl
    · simp [hn]
  | none =>
    simp only [mget_mset, insTier]
    by_cases hn : n = np.tier
    · simp only [hn, if_true, Option.some.injEq]
      rfl
    · simp [hn]

theorem TC.insertPolicy {K : PolicyKey → Prop} (hK : KeyU K) {s : Sorter} (h : SInv s) (tc : TC K s)
    (k : PolicyKey) (hk : K k) (np : PolMeta) (d : Bool) : TC K (s.insertPolicy k np d).1 := by
  have hname : ∀ t, mget s.tiers np.tier = some t → t.name = np.tier := fun t ht => (h.tiers _ _ ht).1
  intro n x hx
  rw [insertPolicy_tiers' s k np d hname] at hx
  by_cases hn : n = np.tier
  · simp only [hn, if_true, Option.some.injEq] at hx
    subst hx
    -- facts about the tier we insert into (a fresh one has empty map and btree)
    have base : ∃ t : TierSt, (match mget s.tiers np.tier with | some t => t | none => { name := np.tier }) = t ∧
        Sorted polKVLess t.sorted ∧ (∀ kv, kv ∈ t.sorted ↔ mget t.policies kv.key = some kv.val) ∧
        (∀ p, (mget t.policies p).isSome → K p) := by
      cases ht : mget s.tiers np.tier with
      | some t => exact ⟨t, rfl, (h.tiers _ _ ht).2, (tc _ _ ht).1, (tc _ _ ht).2⟩
      | none => exact ⟨{ name := np.tier }, rfl, by simp [Sorted], by simp, by simp⟩
    obtain ⟨t, e, hsd, c1, c2⟩ := base
    rw [e]
    unfold insTier
    -- the list after the optional delete: sorted, and = the map without k
    have hl : ∃ l, (match mget t.policies k with
        | some op => btDelete polKVLess ⟨k, op⟩ t.sorted | none => t.sorted) = l ∧ Sorted polKVLess l ∧
        ∀ kv, kv ∈ l ↔ (mget t.policies kv.key = some kv.val ∧ kv.key ≠ k) := by
      cases hop : mget t.policies k with
      | none =>
        refine ⟨t.sorted, rfl, hsd, fun kv => ?_⟩
        rw [c1 kv]
        constructor
        · intro hm; exact ⟨hm, fun e' => by rw [e', hop] at hm; cases hm⟩
        · exact fun x => x.1
      | some op =>
        refine ⟨_, rfl, sorted_btDelete _ _ hsd, fun kv => ?_⟩
        rw [mem_btDelete_iff swo_polKVLess _ _ _ hsd, c1 kv]
        constructor
        · rintro ⟨hm, hc⟩
          refine ⟨hm, fun e' => ?_⟩
          rw [e', hop] at hm
          simp only [Option.some.injEq] at hm
          have : kv = ⟨k, op⟩ := by cases kv; simp_all
          rw [this, swo_polKVLess.irrefl] at hc; simp at hc
        · rintro ⟨hm, hne⟩
          exact ⟨hm, pol_comparable hK (a := ⟨k, op⟩) (b := kv) hk (c2 kv.key (by simp [hm])) (fun e' => hne e'.symm)⟩
    obtain ⟨l, el, hls, hlm⟩ := hl
    rw [el]
    refine ⟨?_, ?_⟩
    · intro kv
      rw [mem_btInsert_iff swo_polKVLess _ _ _ hls, hlm kv, mget_mset]
      by_cases hkk : kv.key = k
      · simp only [hkk, if_true, Option.some.injEq, ne_eq, not_true_eq_false, and_false, false_and, or_false]
        constructor
        · intro e'; rw [e']
        · intro e'; cases kv; simp_all
      · simp only [hkk, if_false, ne_eq, not_false_eq_true, and_true]
        constructor
        · rintro (e' | ⟨hm, _⟩)
          · rw [e'] at hkk; exact absurd rfl hkk
          · exact hm
        · intro hm
          exact Or.inr ⟨hm, pol_comparable hK (a := ⟨k, np⟩) (b := kv) hk (c2 kv.key (by simp [hm])) (fun e' => hkk e'.symm)⟩
    · intro p hp
      simp only [mget_mset] at hp
      by_cases hpk : p = k
      · rw [hpk]; exact hk
      · simp only [hpk, if_false] at hp; exact c2 p hp
  · simp only [hn, if_false] at hx
    exact tc n x hx

theorem TC.updatePolicy {K : PolicyKey → Prop} (hK : KeyU K) {s : Sorter} (h : SInv s) (tc : TC K s)
    (k : PolicyKey) (hk : K k) (v : Option PolMeta) : TC K (s.updatePolicy k v).1 := by
  cases v with
  | none =>
    simp only [Sorter.updatePolicy]
    cases hot : s.tierHolding k with
    | none => exact tc
    | some t =>
      obtain ⟨ht, _⟩ := tierHolding_holds h hot
      cases hp : mget t.policies k with
      | none => simp only [hp]; exact tc
      | some op => simp only [hp]; exact tc.removeFrom hK h ht hp
  | some np =>
    simp only [Sorter.updatePolicy]
    cases hot : s.tierHolding k with
    | none => exact tc.insertPolicy hK h k hk np _
    | some ot =>
      obtain ⟨ht, _⟩ := tierHolding_holds h hot
      by_cases hc : ot.name = np.tier
      · simp only [hc, ne_eq, not_true_eq_false, if_false]
        exact tc.insertPolicy hK h k hk np _
      · simp only [ne_eq, hc, not_false_eq_true, if_true]
        cases hp : mget ot.policies k with
        | none => simp only [hp]; exact tc.insertPolicy hK h k hk np _
        | some op => simp only [hp]; exact (tc.removeFrom hK h ht hp).insertPolicy hK (h.removeFrom ot ht k op) k hk np _

theorem TC.onTierUpdate {K : PolicyKey → Prop} {s : Sorter} (h : SInv s) (tc : TC K s) (name : String)
    (v : Option (Option Int × String)) : TC K (s.onTierUpdate name v).1 := by
  unfold Sorter.onTierUpdate
  cases v with
  | some ov =>
    obtain ⟨order, act⟩ := ov
    simp only
    cases ht : mget s.tiers name with
    | none =>
      intro n x hx
      simp only [mget_mset] at hx
      by_cases hn : n = name
      · simp only [hn, if_true, Option.some.injEq] at hx; subst hx; simp
      · simp only [hn, if_false] at hx; exact tc n x hx
    | some t =>
      intro n x hx
      simp only [mget_mset] at hx
      by_cases hn : n = name
      · simp only [hn, if_true, Option.some.injEq] at hx; subst hx; exact tc name t ht
      · simp only [hn, if_false] at hx; exact tc n x hx
  | none =>
    simp only
    cases ht : mget s.tiers name with
    | none => exact tc
    | some t =>
      simp only
      split
      · intro n x hx
        simp only [mget_mdel] at hx
        by_cases hn : n = name
        · simp [hn] at hx
        · simp only [hn, if_false] at hx; exact tc n x hx
      · intro n x hx
        simp only [mget_mset] at hx
        by_cases hn : n = name
        · simp only [hn, if_true, Option.some.injEq] at hx; subst hx; exact tc name t ht
        · simp only [hn, if_false] at hx; exact tc n x hx

/-- the events of a history only use policy keys of the universe -/
def EventIn (K : PolicyKey → Prop) : Event → Prop
  | .policy k _ => K k
  | .matchStarted p _ => K p
  | .matchStopped p _ => K p
  | _ => True

theorem TC.step {K : PolicyKey → Prop} (hK : KeyU K) {r : Resolver} (h : SInv r.sorter) (tc : TC K r.sorter)
    (e : Event) (he : EventIn K e) : TC K (r.step e).sorter := by
  cases e with
  | endpoint k v => cases v <;> exact tc
  | policy k v =>
    simp only [Resolver.step]
    have h1 : SInv (r.recordPolicy k v).sorter := by cases v <;> exact h
    have t1 : TC K (r.recordPolicy k v).sorter := by cases v <;> exact tc
    rw [(applyPolicy_fields _ _ _).1]
    split
    · exact t1
    · exact t1.updatePolicy hK h1 k he _
  | tier name v => exact tc.onTierUpdate h name v
  | status b =>
    simp only [Resolver.step]
    split <;> exact tc
  | matchStarted p e =>
    simp only [Resolver.step]
    split <;> exact tc
  | matchStopped p e =>
    simp only [Resolver.step]
    split
    · exact tc.updatePolicy hK h p he none
    · exact tc

def tierInfoOf (T : TierSt) : TierInfo :=
  { name := T.name, order := T.order, defaultAction := T.defaultAction, valid := T.valid, policies := T.sorted }

theorem sortedOut_mem {s : Sorter} (h : SInv s) {ts : List TierInfo} (hs : s.sortedOut = some ts) (t : TierInfo) :
    t ∈ ts ↔ ∃ n T, mget s.tiers n = some T ∧ t = tierInfoOf T := by
  unfold Sorter.sortedOut at hs
  have key : ∀ (l : List TierKey) (ts : List TierInfo),
      l.mapM (fun tk => (mget s.tiers tk.name).map
        (fun t => ({ name := t.name, order := t.order, defaultAction := t.defaultAction, valid := t.valid,
                     policies := t.sorted } : TierInfo))) = some ts →
      ∀ t, t ∈ ts ↔ ∃ tk ∈ l, ∃ T, mget s.tiers tk.name = some T ∧ t = tierInfoOf T := by
    intro l
    induction l with
    | nil => intro ts hts; simp only [List.mapM_nil, Option.pure_def, Option.some.injEq] at hts; subst hts; simp
    | cons tk rest ih =>
      intro ts hts t
      simp only [List.mapM_cons] at hts
      cases hT : mget s.tiers tk.name with
      | none => simp [hT] at hts
      | some T =>
        simp only [hT, Option.map_some, Option.bind_eq_bind, Option.bind_some] at hts
        cases hr : rest.mapM (fun tk => (mget s.tiers tk.name).map
          (fun t => ({ name := t.name, order := t.order, defaultAction := t.defaultAction, valid := t.valid,
                       policies := t.sorted } : TierInfo))) with
        | none => simp [hr] at hts
        | some ts' =>
          simp only [hr, Option.bind_some, Option.pure_def, Option.some.injEq] at hts
          subst hts
          simp only [List.mem_cons, ih ts' hr t]
          constructor
          · rintro (rfl | ⟨tk', h1, T', h2, h3⟩)
            · exact ⟨tk, Or.inl rfl, T, hT, rfl⟩
            · exact ⟨tk', Or.inr h1, T', h2, h3⟩
          · rintro ⟨tk', h1 | h1, T', h2, h3⟩
            · subst h1; rw [hT] at h2; simp only [Option.some.injEq] at h2; subst h2; exact Or.inl h3
            · exact Or.inr ⟨tk', h1, T', h2, h3⟩
  rw [key s.sortedTiers ts hs t]
  constructor
  · rintro ⟨tk, _, T, h2, h3⟩; exact ⟨tk.name, T, h2, h3⟩
  · rintro ⟨n, T, h2, h3⟩
    refine ⟨T.key, h.has n T h2, T, ?_, h3⟩
    simp only [TierSt.key]; rw [(h.tiers n T h2).1]; exact h2

/-- Exactly the matching policies, each in the tier its current metadata names, with that metadata:
what one emitted endpoint update lists, given the invariants on the state the flush works on. -/
theorem emitted_exact {K : PolicyKey → Prop} {r' : Resolver} (hi : RInv r') (tc : TC K r'.sorter)
    (hcomp : ∀ p, r'.polHasMatch p = true → (mget r'.allPolicies p).isSome → Held r'.sorter p)
    {ts : List TierInfo} (hs : r'.sorter.sortedOut = some ts) (e : EpKey) (p : PolicyKey) (m : PolMeta) :
    (∃ t' ∈ filterTiers r'.matched e ts, t'.name = m.tier ∧ ⟨p, m⟩ ∈ t'.policies) ↔
      ((p, e) ∈ r'.matched ∧ mget r'.allPolicies p = some m) := by
  obtain ⟨f1, f2, _⟩ := filterTiers_spec r'.matched e ts
  constructor
  · rintro ⟨t', ht', hname, hkv⟩
    obtain ⟨_, hmatch, t, ht, _, _, _, hpol⟩ := f1 t' ht'
    rw [hpol, List.mem_filter] at hkv
    obtain ⟨n, T, hT, rfl⟩ := (sortedOut_mem hi.sinv hs t).1 ht
    have hin : mget T.policies p = some m := ((tc n T hT).1 ⟨p, m⟩).1 hkv.1
    have := hi.held p n m ⟨T, hT, hin⟩
    exact ⟨by simpa using hkv.2, this.2.1⟩
  · rintro ⟨hm, hall⟩
    have hmatch : r'.polHasMatch p = true := (polHasMatch_iff r' p).2 ⟨e, hm⟩
    obtain ⟨n, m', T, hT, hin⟩ := hcomp p hmatch (by simp [hall])
    obtain ⟨_, hm', hn⟩ := hi.held p n m' ⟨T, hT, hin⟩
    rw [hall] at hm'; simp only [Option.some.injEq] at hm'; subst hm'
    have hkv : (⟨p, m⟩ : PolKV) ∈ T.sorted := ((tc n T hT).1 ⟨p, m⟩).2 hin
    have htin : tierInfoOf T ∈ ts := (sortedOut_mem hi.sinv hs _).2 ⟨n, T, hT, rfl⟩
    obtain ⟨t', ht', hname, hkv'⟩ := f2 (tierInfoOf T) htin ⟨p, m⟩ hkv hm
    refine ⟨t', ht', ?_, hkv'⟩
    rw [hname]; simp only [tierInfoOf]; rw [(hi.sinv.tiers n T hT).1]; exact hn.symm

/-- all invariants together -/
structure Full (K : PolicyKey → Prop) (r : Resolver) : Prop where
  rinv : RInv r
  compl : Compl r
  tc : TC K r.sorter
  pendK : ∀ p, p ∈ r.pending → K p

theorem Full.init (K : PolicyKey → Prop) : Full K {} :=
  ⟨RInv.init, Compl.init, by intro n t ht; simp at ht, by simp⟩

theorem Full.step {K : PolicyKey → Prop} (hK : KeyU K) {r : Resolver} (h : Full K r) (e : Event) (he : EventIn K e) :
    Full K (r.step e) := by
  refine ⟨h.rinv.step e, h.compl.step h.rinv e, h.tc.step hK h.rinv.sinv e he, ?_⟩
  intro p hp
  cases e with
  | endpoint k v => cases v <;> exact h.pendK p hp
  | policy k v =>
    simp only [Resolver.step] at hp
    rw [(applyPolicy_fields _ _ _).2.2.2.1] at hp
    cases v with
    | none => exact h.pendK p (mem_sdel.1 hp).1
    | some _ => exact h.pendK p hp
  | tier name v => exact h.pendK p hp
  | status b =>
    simp only [Resolver.step] at hp
    split at hp <;> exact h.pendK p hp
  | matchStarted q e =>
    simp only [Resolver.step] at hp
    split at hp
    · simp only [mem_sadd] at hp
      rcases hp with rfl | hp
      · exact he
      · exact h.pendK p hp
    · exact h.pendK p hp
  | matchStopped q e =>
    simp only [Resolver.step] at hp
    split at hp
    · exact h.pendK p (mem_sdel.1 hp).1
    · exact h.pendK p hp

theorem TC.foldPending {K : PolicyKey → Prop} (hK : KeyU K) (all : List (PolicyKey × PolMeta)) (l : List PolicyKey)
    (hl : ∀ k ∈ l, K k) (s : Sorter) (hs : SInv s) (tc : TC K s) :
    TC K (l.foldl (Sorter.resolvePending all) s) := by
  induction l generalizing s with
  | nil => exact tc
  | cons k t ih =>
    simp only [List.foldl_cons]
    have hk := hl k (by simp)
    apply ih (fun k' hk' => hl k' (by simp [hk']))
    · unfold Sorter.resolvePending
      cases mget all k with
      | none => exact hs
      | some m => exact hs.updatePolicy k _
    · unfold Sorter.resolvePending
      cases mget all k with
      | none => exact tc
      | some m => exact tc.updatePolicy hK hs k hk _

theorem Full.flush {K : PolicyKey → Prop} (hK : KeyU K) {r r' : Resolver} {calls : List Call} (h : Full K r)
    (hf : r.flush = some (r', calls)) : Full K r' := by
  refine ⟨h.rinv.flush hf, (h.compl.flush h.rinv hf).1, ?_, ?_⟩
  · unfold Resolver.flush at hf
    by_cases hs : r.inSync = true
    · simp only [hs, Bool.not_true, Bool.false_eq_true, if_false] at hf
      split at hf
      · cases hf
      · simp only [Option.some.injEq, Prod.mk.injEq] at hf
        obtain ⟨rfl, _⟩ := hf
        exact TC.foldPending hK _ _ (fun k hk => h.pendK k (List.mem_filter.1 hk).1) _ h.rinv.sinv h.tc
    · simp only [hs, Bool.not_false, if_true, Option.some.injEq, Prod.mk.injEq] at hf
      obtain ⟨rfl, _⟩ := hf; exact h.tc
  · intro p hp
    unfold Resolver.flush at hf
    by_cases hs : r.inSync = true
    · simp only [hs, Bool.not_true, Bool.false_eq_true, if_false] at hf
      split at hf
      · cases hf
      · simp only [Option.some.injEq, Prod.mk.injEq] at hf
        obtain ⟨rfl, _⟩ := hf
        exact h.pendK p (List.mem_filter.1 hp).1
    · simp only [hs, Bool.not_false, if_true, Option.some.injEq, Prod.mk.injEq] at hf
      obtain ⟨rfl, _⟩ := hf; exact h.pendK p hp

/-- all policy keys used by the events of the history are from the universe -/
def HistIn (K : PolicyKey → Prop) : List RStep → Prop
  | [] => True
  | .ev e :: t => EventIn K e ∧ HistIn K t
  | .flush :: t => HistIn K t

theorem runR_full {K : PolicyKey → Prop} (hK : KeyU K) {r : Resolver} (h : Full K r) (hist : List RStep) (hin : HistIn K hist)
    {r' : Resolver} {outs : List (List (PolicyKey × EpKey) × List Call)} (hr : runR r hist = some (r', outs)) : Full K r' := by
  induction hist generalizing r outs with
  | nil => simp only [runR, Option.some.injEq, Prod.mk.injEq] at hr; obtain ⟨rfl, _⟩ := hr; exact h
  | cons st t ih =>
    cases st with
    | ev e => exact ih (h.step hK e hin.1) hin.2 hr
    | flush =>
      simp only [runR] at hr
      cases hf : r.flush with
      | none => simp [hf] at hr
      | some x =>
        obtain ⟨r1, calls⟩ := x
        simp only [hf] at hr
        cases hr2 : runR r1 t with
        | none => simp [hr2] at hr
        | some y =>
          obtain ⟨r2, outs2⟩ := y
          simp only [hr2, Option.some.injEq, Prod.mk.injEq] at hr
          obtain ⟨rfl, _⟩ := hr
          exact ih (h.flush hK hf) hin hr2

/-- shape of a flush executed in sync -/
theorem flush_shape {r r' : Resolver} {calls : List Call} (hs : r.inSync = true) (hf : r.flush = some (r', calls)) :
    ∃ ts, r'.sorter.sortedOut = some ts ∧ r'.matched = r.matched ∧ r'.allPolicies = r.allPolicies ∧
      calls = r.dirty.map (fun e => match mget r.endpoints e with
        | none => Call.endpointUpdate e none
        | some ep => Call.endpointUpdate e (some ⟨ep, filterTiers r.matched e ts⟩)) := by
  unfold Resolver.flush at hf
  simp only [hs, Bool.not_true, Bool.false_eq_true, if_false] at hf
  split at hf
  · cases hf
  · rename_i sorted hso
    simp only [Option.some.injEq, Prod.mk.injEq] at hf
    obtain ⟨rfl, rfl⟩ := hf
    refine ⟨sorted, hso, rfl, rfl, ?_⟩
    apply List.map_congr_left
    intro e _
    unfold Resolver.sendEndpointUpdate
    simp only
    cases mget r.endpoints e <;> rfl

end CalicoVerif.C03
