import CalicoVerif.Proofs.C11Step2
/-!
C11 — step lemmas for the program header and footer: stores to the state,
context loads, the state-map lookup, tail calls and exit.
-/
namespace CalicoVerif.C11

/-- STX to the stack, needing only R10. -/
theorem step_stx_stack' {env : Env} {m : Mach} (h10 : m.reg 10 = some stackW)
    (op v : Nat) (k n : Nat) (imm : Int) (nxt : Option Insn) (x : Word)
    (hop : (op = opStoreReg8 ∧ n = 1) ∨ (op = opStoreReg16 ∧ n = 2) ∨ (op = opStoreReg32 ∧ n = 4) ∨
      (op = opStoreReg64 ∧ n = 8))
    (hk : k + n ≤ 512) (hv : m.reg v = some x) :
    step env ⟨op, 10, v, (k : Int) - 512, imm⟩ nxt m =
      .next { m with stack := writeStack m.stack k (toLE x.toNat n) } := by
  have hr := region_stack k n hk
  rcases hop with ⟨rfl, rfl⟩ | ⟨rfl, rfl⟩ | ⟨rfl, rfl⟩ | ⟨rfl, rfl⟩ <;>
    simp [step, opStoreReg8, opStoreReg16, opStoreReg32, opStoreReg64, opLoadImm64, h10, hv, Mach.store, hr]

/-- 32-bit store to the state through R9. -/
theorem step_stx32_state {env : Env} {m : Mach} (h9 : m.reg 9 = some stateW) (v : Nat) (k : Nat) (imm : Int)
    (nxt : Option Insn) (x : Word) (hk : k + 4 ≤ 512) (hv : m.reg v = some x) :
    step env ⟨opStoreReg32, 9, v, (k : Int), imm⟩ nxt m =
      .next { m with st := writeAt m.st k (toLE x.toNat 4) } := by
  have hr := region_state k 4 hk
  simp [step, opStoreReg32, opStoreReg8, opStoreReg16, opStoreReg64, opLoadImm64, h9, hv, Mach.store, hr]

set_option maxRecDepth 8000 in
theorem region_ctx (k n : Nat) (h : k + n ≤ 192) :
    region (ctxW + BitVec.ofNat 64 k) n = some (.ctx k) := by
  have hk : (ctxW + BitVec.ofNat 64 k).toNat = 805306368 + k := by
    unfold ctxW ctxBase
    rw [BitVec.toNat_add, BitVec.toNat_ofNat, BitVec.toNat_ofNat]
    omega
  unfold region
  simp only [hk]
  rw [if_neg (by simp only [stackTop, stackSize]; omega), if_neg (by simp only [stateBase, stateSize]; omega),
    if_pos (by simp only [ctxBase]; omega)]
  have hsub : 805306368 + k - 805306368 = k := by omega
  simp only [ctxBase, hsub]

/-- Load of `skb->cb[0]` / `skb->cb[1]` through R6. -/
theorem step_ld_cb {env : Env} {m : Mach} (h6 : m.reg 6 = some ctxW) (d k : Nat) (imm : Int) (nxt : Option Insn)
    (hd : d < 10) (hk : k = 48 ∨ k = 52) :
    step env ⟨opLoadReg32, d, 6, (k : Int), imm⟩ nxt m =
      .next (m.setReg d ((if k = 48 then env.cb0 else env.cb1).setWidth 64)) := by
  have hd' : ¬ d ≥ 10 := by omega
  rcases hk with rfl | rfl
  · have hr := region_ctx 48 4 (by omega)
    simp [step, opLoadReg32, opLoadReg8, opLoadReg16, opLoadReg64, opLoadImm64, hd', h6, Mach.load, hr]
  · have hr := region_ctx 52 4 (by omega)
    simp [step, opLoadReg32, opLoadReg8, opLoadReg16, opLoadReg64, opLoadImm64, hd', h6, Mach.load, hr]

theorem step_exit (env : Env) (m : Mach) (r0 : Word) (nxt : Option Insn) (h : m.reg 0 = some r0) :
    step env ⟨opExit, 0, 0, 0, 0⟩ nxt m = .exit r0 m := by
  simp [step, opExit, opLoadImm64, opJumpA, h]

theorem lrun_exit {env : Env} {m : Mach} {r0 : Word} {r : List Ev} (h : m.reg 0 = some r0) :
    lrun env (exitI :: r) m = .exit r0 m := by
  unfold exitI mk
  rw [lrun, step_exit env m r0 _ h]

/-- `tail_call` through the static jump map. -/
theorem step_tail_static (env : Env) (m : Mach) (r3 : Word) (nxt : Option Insn)
    (h1 : m.reg 1 = some ctxW) (h2 : m.reg 2 = some (mapHandle env.c.staticJumpMapFD)) (h3 : m.reg 3 = some r3) :
    step env ⟨opCall, 0, 0, 0, helperTailCall⟩ nxt m =
      if env.tailOK then .tail env.c.staticJumpMapFD ((r3.setWidth 32).setWidth 64) m
      else .next ((m.clobber).setReg 0 (BitVec.ofInt 64 (-2))) := by
  simp [step, opCall, opLoadImm64, opJumpA, opExit, helperCall, helperTailCall, helperMapLookupElem, h1, h2, h3, ctxW]

theorem lrun_ins_tail {env : Env} {i : Insn} {r : List Ev} {m m' : Mach} {fd : Int} {idx : Word}
    (h : step env i (nextIns r) m = .tail fd idx m') : lrun env (.ins i :: r) m = .tail fd idx m' := by
  rw [lrun, h]

/-- The state-map lookup of the header. -/
theorem step_call_state (env : Env) (m : Mach) (nxt : Option Insn)
    (h1 : m.reg 1 = some (mapHandle env.c.stateMapFD))
    (h2 : m.reg 2 = some (stackW + BitVec.ofInt 64 (((508 : Nat) : Int) - 512)))
    (hk : readStack m.stack 508 4 = some (toLE 0 4)) (hs : env.stateOK = true) :
    step env ⟨opCall, 0, 0, 0, helperMapLookupElem⟩ nxt m = .next ((m.clobber).setReg 0 stateW) := by
  have hr := region_stack 508 4 (by omega)
  have hl : m.load env (stackW + BitVec.ofInt 64 (((508 : Nat) : Int) - 512)) 4 = some 0 := by
    unfold Mach.load
    rw [hr]
    simp only [hk, Option.map_some]
    rfl
  have hn : BitVec.ofInt 64 (((508 : Nat) : Int) - 512) = 18446744073709551612#64 := by decide
  rw [hn] at hl h2
  simp [step, opCall, opLoadImm64, opJumpA, opExit, helperCall, helperMapLookupElem, h1, h2, hl, hs, stateW]

end CalicoVerif.C11
