import CalicoVerif.Proofs.C15q
set_option linter.unusedSimpArgs false
namespace CalicoVerif.C15

/-- What a successful `Apply` establishes, relative to the state it started from. -/
structure LoopPost (w w' : W) : Prop where
  conv : ∀ c, w.t.ours c = true → c ≠ "" → w'.K.get c = (w.t.desiredChain c).map (fun ch => ch.rules.map DRule.k)
  inv : TInv w'.t
  des : ∀ c, w'.t.desiredChain c = w.t.desiredChain c
  ours : ∀ c, w'.t.ours c = w.t.ours c

theorem applyLoop_converges : ∀ (fuel : Nat) (w : W), TInv w.t → HashSound w.t w.K → w.t.inSync = false →
    w.pre = none → (W.applyLoop fuel w).2 = true → LoopPost w (W.applyLoop fuel w).1 := by
  intro fuel
  induction fuel with
  | zero => intro w _ _ _ _ h; simp [W.applyLoop] at h
  | succ fuel ih =>
    intro w hinv hs hns hpre hok
    unfold W.applyLoop at hok ⊢
    dsimp only at hok ⊢
    by_cases hl : w.ensureLoaded.2 = true
    case neg => simp [hl] at hok
    case pos =>
      simp only [hl, Bool.not_true, Bool.false_eq_true, if_false] at hok ⊢
      obtain ⟨lK, lpre, lt⟩ := ensureLoaded_spec w hl
      rw [hns] at lt
      simp only [Bool.false_eq_true, if_false] at lt
      have lpre' : w.ensureLoaded.1.pre = none := lpre.trans hpre
      have hinvL : TInv w.ensureLoaded.1.t := by rw [lt]; exact hinv.load w.K
      rcases applyUpdates_spec w.ensureLoaded.1 lpre' with ⟨hp, h2, h3, h4, h5⟩ | ⟨lines, newH, newFull, hp, hcase⟩
      · -- no plan: the loop is stuck
        exfalso
        rw [h2] at hok
        simp only [if_true] at hok
        by_cases hfz : (fuel == 0) = true
        · rw [if_pos hfz] at hok; simp at hok
        · rw [if_neg hfz] at hok
          have := applyLoop_stuck fuel { w.ensureLoaded.1.applyUpdates.1 with sleeps := w.ensureLoaded.1.applyUpdates.1.sleeps + 1 }
            (by show w.ensureLoaded.1.applyUpdates.1.t.inSync = true; rw [h3, lt]; rfl)
            (by show w.ensureLoaded.1.applyUpdates.1.t.plan = none; rw [h3]; exact hp) h5
          rw [this] at hok; simp at hok
      · rcases hcase with ⟨h2, h3, h4, h5⟩ | ⟨K', hres, h2, h3, h4, h5⟩
        · -- the transaction failed: invalidate, retry
          rw [h2] at hok ⊢
          simp only [if_true] at hok ⊢
          by_cases hfz : (fuel == 0) = true
          · rw [if_pos hfz] at hok; simp at hok
          · rw [if_neg hfz] at hok ⊢
            have ht' : w.ensureLoaded.1.applyUpdates.1.t = (w.t.load w.K).invalidate := by rw [h3, lt]
            have hK' : w.ensureLoaded.1.applyUpdates.1.K = w.K := h4.trans lK
            have hdes : ∀ c, ((w.t.load w.K).invalidate).desiredChain c = w.t.desiredChain c :=
              fun c => load_desired w.t w.K c
            have hours : ∀ c, ((w.t.load w.K).invalidate).ours c = w.t.ours c := fun c => load_ours w.t w.K c
            have post := ih { w.ensureLoaded.1.applyUpdates.1 with sleeps := w.ensureLoaded.1.applyUpdates.1.sleeps + 1 }
              (by show TInv w.ensureLoaded.1.applyUpdates.1.t; rw [ht']; exact (hinv.load w.K).invalidate)
              (by
                show HashSound w.ensureLoaded.1.applyUpdates.1.t w.ensureLoaded.1.applyUpdates.1.K
                rw [ht', hK']
                intro c ch rs ho hd hk
                exact hs c ch rs (by rw [← hours]; exact ho) (by rw [← hdes]; exact hd) hk)
              (by show w.ensureLoaded.1.applyUpdates.1.t.inSync = false; rw [ht']; rfl)
              h5 hok
            refine ⟨?_, post.inv, ?_, ?_⟩
            · intro c ho hne
              have := post.conv c (by show w.ensureLoaded.1.applyUpdates.1.t.ours c = true; rw [ht', hours]; exact ho) hne
              rw [this]
              show (w.ensureLoaded.1.applyUpdates.1.t.desiredChain c).map _ = _
              rw [ht', hdes]
            · intro c
              rw [post.des c]
              show w.ensureLoaded.1.applyUpdates.1.t.desiredChain c = _
              rw [ht', hdes]
            · intro c
              rw [post.ours c]
              show w.ensureLoaded.1.applyUpdates.1.t.ours c = _
              rw [ht', hours]
        · -- the transaction succeeded
          rw [h2]
          simp only [Bool.false_eq_true, if_false]
          rw [lt] at hp
          rw [lK] at hres
          refine ⟨?_, ?_, ?_, ?_⟩
          · intro c ho hne
            rw [h4]
            exact apply_converges_owned w.t w.K K' hinv.cache hinv.nodup hinv.iaForeign
              (fun c ch rs ho hd hk => sound_of_mem rs ch.rules (hs c ch rs ho hd hk)) hp hres c ho hne
          · rw [h3, lt]; exact (hinv.load w.K).commit hp
          · intro c; rw [h3, lt]; exact load_desired w.t w.K c
          · intro c; rw [h3, lt]; exact load_ours w.t w.K c

/-- `Apply` that returns (does not panic), started with the cache marked out of date and nobody editing the table
between Felix's read and its write. -/
theorem apply_converges_loop (w : W) (hinv : TInv w.t) (hs : HashSound w.t w.K) (hns : w.t.inSync = false)
    (hpre : w.pre = none) (hok : w.apply.2 = true) : LoopPost w w.apply.1 := by
  unfold W.apply at hok ⊢
  cases h : W.applyLoop 11 w with
  | mk w' ok =>
    rw [h] at hok
    dsimp only at hok ⊢
    cases ok with
    | false => simp at hok
    | true =>
      simp only [if_true]
      have := applyLoop_converges 11 w hinv hs hns hpre (by rw [h])
      rw [h] at this; exact this

end CalicoVerif.C15
