import CalicoVerif.Proofs.C16zb
set_option linter.unusedSimpArgs false
namespace CalicoVerif.C16

/-- Main set names are owned and are not temporary names. -/
structure CfgMain (c : Cfg) : Prop where
  owned : ∀ id, c.owns (c.mainName id) = true
  notTemp : ∀ id, c.isTemp (c.mainName id) = false

theorem realCfg_main : CfgMain realCfg := by
  have key : ∀ id : String, (realCfg.mainName id).toList = "cali40".toList ++ (id.toList.take 25) := by
    intro id
    simp only [Cfg.mainName, realCfg, String.toList_ofList, String.toList_append]
    rw [List.take_append]
    simp
  constructor
  · intro id
    have hlist := key id
    generalize realCfg.mainName id = mn at hlist
    simp only [Cfg.owns, realCfg, List.any_cons, hasPrefix, Bool.or_eq_true, List.isPrefixOf_iff_prefix]
    left
    rw [hlist]
    exact List.IsPrefix.trans (by decide : "cali4".toList <+: "cali40".toList) (List.prefix_append _ _)
  · intro id
    have hlist := key id
    generalize realCfg.mainName id = mn at hlist
    simp only [Cfg.isTemp, hasPrefix, realCfg]
    rw [hlist]
    cases h : "cali4t".toList.isPrefixOf ("cali40".toList ++ List.take 25 id.toList) with
    | false => rfl
    | true =>
      exfalso
      rw [List.isPrefixOf_iff_prefix] at h
      have h2 : "cali40".toList <+: ("cali40".toList ++ List.take 25 id.toList) := List.prefix_append _ _
      have := List.prefix_of_prefix_length_le h h2 (by decide)
      revert this; decide

theorem addOrReplace_eq (c : Cfg) (F : Felix) (id : String) (m : Meta) (ms : List String) :
    ∃ d, F.addOrReplace c id m ms =
      { F with allMeta := F.allMeta.set (c.mainName id) m,
               desired := if F.needed (c.mainName id) then F.desired.set (c.mainName id) m else F.desired,
               members := F.members.set (c.mainName id) { F.tracker (c.mainName id) with des := ms.eraseDups },
               dirty := d } := by
  unfold Felix.addOrReplace
  dsimp only
  by_cases hn : F.needed (c.mainName id) = true
  · have hn' : ({ F with allMeta := F.allMeta.set (c.mainName id) m } : Felix).needed (c.mainName id) = true := hn
    simp only [hn', hn, if_true]
    obtain ⟨d, hd, _⟩ := updateDirtiness_eq _ (c.mainName id)
    exact ⟨d, by rw [hd]; rfl⟩
  · have hn' : ¬({ F with allMeta := F.allMeta.set (c.mainName id) m } : Felix).needed (c.mainName id) = true := hn
    simp only [hn', hn, if_false]
    obtain ⟨d, hd, _⟩ := updateDirtiness_eq _ (c.mainName id)
    exact ⟨d, by rw [hd]; rfl⟩

theorem addOrReplace_inv {c : Cfg} (hm : CfgMain c) {F : Felix} (h : Inv c F) (id : String) (m : Meta) (ms : List String) :
    Inv c (F.addOrReplace c id m ms) := by
  obtain ⟨d, hd⟩ := addOrReplace_eq c F id m ms
  rw [hd]
  obtain ⟨hok, hq⟩ := h
  refine ⟨⟨?_, ?_, ?_, ?_, ?_, ?_, ?_⟩, ⟨hq.dp, hq.qMust, hq.qBg⟩⟩
  · intro n hn
    dsimp only at hn
    split at hn
    · rw [Map.has_set, Bool.or_eq_true, beq_iff_eq] at hn
      rcases hn with rfl | hn
      · exact hm.notTemp id
      · exact hok.notTemp n hn
    · exact hok.notTemp n hn
  · intro n hn
    dsimp only at hn
    split at hn
    · rw [Map.has_set, Bool.or_eq_true, beq_iff_eq] at hn
      rcases hn with rfl | hn
      · exact hm.owned id
      · exact hok.owned n hn
    · exact hok.owned n hn
  · intro n hn
    dsimp only at hn ⊢
    rw [Map.has_set, Bool.or_eq_true, beq_iff_eq]
    split at hn
    · rw [Map.has_set, Bool.or_eq_true, beq_iff_eq] at hn
      rcases hn with rfl | hn
      · exact Or.inl rfl
      · exact Or.inr (hok.inAll n hn)
    · exact Or.inr (hok.inAll n hn)
  · intro n hn
    dsimp only at hn ⊢
    rw [Map.has_set, Bool.or_eq_true, beq_iff_eq] at hn ⊢
    rcases hn with rfl | hn
    · exact Or.inl rfl
    · exact Or.inr (hok.tracked n hn)
  · intro n hn
    dsimp only at hn
    show F.needed n = true
    split at hn
    · rename_i hneed
      rw [Map.has_set, Bool.or_eq_true, beq_iff_eq] at hn
      rcases hn with rfl | hn
      · exact hneed
      · exact hok.needed n hn
    · exact hok.needed n hn
  · intro n hn
    dsimp only at hn
    rw [Map.has_set, Bool.or_eq_true, beq_iff_eq] at hn
    rcases hn with rfl | hn
    · exact hm.owned id
    · exact hok.allOwned n hn
  · intro n hn
    dsimp only at hn
    rw [Map.has_set, Bool.or_eq_true, beq_iff_eq] at hn
    rcases hn with rfl | hn
    · exact hm.notTemp id
    · exact hok.allNotTemp n hn

/-- Changing only the desired members of one tracked set (and dirtiness) keeps the invariant. -/
theorem inv_members_dirty {c : Cfg} {F : Felix} (h : Inv c F) (n : String) (t : MT) (d : List String)
    (_hn : F.members.has n = true) : Inv c { F with members := F.members.set n t, dirty := d } := by
  obtain ⟨hok, hq⟩ := h
  refine ⟨⟨hok.notTemp, hok.owned, hok.inAll, ?_, hok.needed, hok.allOwned, hok.allNotTemp⟩, ⟨hq.dp, hq.qMust, hq.qBg⟩⟩
  intro x hx
  dsimp only
  rw [Map.has_set, Bool.or_eq_true]
  exact Or.inr (hok.tracked x hx)

theorem addMembers_inv {c : Cfg} {F F' : Felix} (h : Inv c F) {id : String} {ms : List String}
    (he : F.addMembers c id ms = some F') : Inv c F' := by
  unfold Felix.addMembers at he
  dsimp only at he
  by_cases h1 : (!F.allMeta.has (c.mainName id)) = true
  · rw [if_pos h1] at he; simp at he
  · rw [if_neg h1] at he
    by_cases h2 : ms.isEmpty = true
    · rw [if_pos h2] at he; simp only [Option.some.injEq] at he; rw [← he]; exact h
    · rw [if_neg h2] at he
      cases hg : F.members.get (c.mainName id) with
      | none => rw [hg] at he; simp at he
      | some t =>
        rw [hg] at he
        simp only [Option.some.injEq] at he
        rw [← he]
        obtain ⟨d, hd, _⟩ := updateDirtiness_eq
          ({ F with members := F.members.set (c.mainName id) { t with des := ms.foldl sAdd t.des } } : Felix) (c.mainName id)
        rw [hd]
        exact inv_members_dirty h _ _ d (Map.has_of_get hg)

theorem removeMembers_inv {c : Cfg} {F F' : Felix} (h : Inv c F) {id : String} {ms : List String}
    (he : F.removeMembers c id ms = some F') : Inv c F' := by
  unfold Felix.removeMembers at he
  dsimp only at he
  by_cases h1 : (!F.allMeta.has (c.mainName id)) = true
  · rw [if_pos h1] at he; simp at he
  · rw [if_neg h1] at he
    by_cases h2 : ms.isEmpty = true
    · rw [if_pos h2] at he; simp only [Option.some.injEq] at he; rw [← he]; exact h
    · rw [if_neg h2] at he
      cases hg : F.members.get (c.mainName id) with
      | none => rw [hg] at he; simp at he
      | some t =>
        rw [hg] at he
        simp only [Option.some.injEq] at he
        rw [← he]
        obtain ⟨d, hd, _⟩ := updateDirtiness_eq
          ({ F with members := F.members.set (c.mainName id) { t with des := ms.foldl sErase t.des } } : Felix) (c.mainName id)
        rw [hd]
        exact inv_members_dirty h _ _ d (Map.has_of_get hg)

theorem remove_inv {c : Cfg} {F F' : Felix} (h : Inv c F) {id : String} (he : F.remove c id = some F') : Inv c F' := by
  obtain ⟨hok, hq⟩ := h
  unfold Felix.remove at he
  dsimp only at he
  have base : ∀ (mem : Map MT) (d : List String), (∀ x, x ≠ c.mainName id → F.members.has x = true → mem.has x = true) →
      Inv c { F with allMeta := F.allMeta.erase (c.mainName id), desired := F.desired.erase (c.mainName id),
                     members := mem, dirty := d } := by
    intro mem d hmem
    refine ⟨⟨?_, ?_, ?_, ?_, ?_, ?_, ?_⟩, ⟨hq.dp, hq.qMust, hq.qBg⟩⟩
    · intro n hn; simp only [Map.has_erase, Bool.and_eq_true] at hn; exact hok.notTemp n hn.2
    · intro n hn; simp only [Map.has_erase, Bool.and_eq_true] at hn; exact hok.owned n hn.2
    · intro n hn
      simp only [Map.has_erase, Bool.and_eq_true] at hn ⊢
      exact ⟨hn.1, hok.inAll n hn.2⟩
    · intro n hn
      simp only [Map.has_erase, Bool.and_eq_true, bne_iff_ne] at hn
      exact hmem n hn.1 (hok.tracked n hn.2)
    · intro n hn; simp only [Map.has_erase, Bool.and_eq_true] at hn; exact hok.needed n hn.2
    · intro n hn; simp only [Map.has_erase, Bool.and_eq_true] at hn; exact hok.allOwned n hn.2
    · intro n hn; simp only [Map.has_erase, Bool.and_eq_true] at hn; exact hok.allNotTemp n hn.2
  split at he
  · split at he
    · simp at he
    · rename_i t ht
      simp only [Option.some.injEq] at he
      rw [← he]
      obtain ⟨d, hd, _⟩ := updateDirtiness_eq
        ({ F with allMeta := F.allMeta.erase (c.mainName id), desired := F.desired.erase (c.mainName id),
                  members := F.members.set (c.mainName id) { t with des := [] } } : Felix) (c.mainName id)
      rw [hd]
      apply base
      intro x _ hx
      rw [Map.has_set, Bool.or_eq_true]; exact Or.inr hx
  · simp only [Option.some.injEq] at he
    rw [← he]
    obtain ⟨d, hd, _⟩ := updateDirtiness_eq
      ({ F with allMeta := F.allMeta.erase (c.mainName id), desired := F.desired.erase (c.mainName id),
                members := F.members.erase (c.mainName id) } : Felix) (c.mainName id)
    rw [hd]
    apply base
    intro x hx hh
    rw [Map.has_erase, Bool.and_eq_true, bne_iff_ne]; exact ⟨hx, hh⟩

end CalicoVerif.C16
