import CalicoVerif.Proofs.C03Sorter
/-! C03: the resolver keeps the sorter invariant for all histories; what `Flush` emits. -/
namespace CalicoVerif.C03
open CalicoVerif.C02

def TierInfo.key (t : TierInfo) : TierKey := ⟨t.name, t.valid, t.order⟩

theorem sortedOut_spec {s : Sorter} (h : SInv s) :
    ∃ ts, s.sortedOut = some ts ∧ ts.map TierInfo.key = s.sortedTiers ∧ ∀ t ∈ ts, Sorted polKVLess t.policies := by
  unfold Sorter.sortedOut
  have key : ∀ l : List TierKey, (∀ tk ∈ l, ∃ t, mget s.tiers tk.name = some t ∧ t.key = tk) →
      ∃ ts, l.mapM (fun tk => (mget s.tiers tk.name).map
        (fun t => ({ name := t.name, order := t.order, defaultAction := t.defaultAction, valid := t.valid,
                     policies := t.sorted } : TierInfo))) = some ts ∧ ts.map TierInfo.key = l ∧
        ∀ t ∈ ts, Sorted polKVLess t.policies := by
    intro l
    induction l with
    | nil => intro _; exact ⟨[], rfl, rfl, by simp⟩
    | cons tk rest ih =>
      intro hl
      obtain ⟨t, ht, hk⟩ := hl tk (by simp)
      obtain ⟨ts, e1, e2, e3⟩ := ih (fun x hx => hl x (by simp [hx]))
      refine ⟨({ name := t.name, order := t.order, defaultAction := t.defaultAction, valid := t.valid,
                 policies := t.sorted } : TierInfo) :: ts, ?_, ?_, ?_⟩
      · simp only [List.mapM_cons, ht, Option.map_some, e1]; rfl
      · simp only [List.map_cons, e2, TierInfo.key]
        rw [← hk]; rfl
      · intro x hx
        simp only [List.mem_cons] at hx
        rcases hx with rfl | hx
        · exact (h.tiers _ _ ht).2
        · exact e3 x hx
  exact key s.sortedTiers h.look

theorem applyPolicy_fields (r : Resolver) (k : PolicyKey) (m : Option PolMeta) :
    (r.applyPolicy k m).sorter = (if !r.polHasMatch k then r.sorter else (r.sorter.updatePolicy k m).1) ∧
    (r.applyPolicy k m).matched = r.matched ∧ (r.applyPolicy k m).allPolicies = r.allPolicies ∧
    (r.applyPolicy k m).pending = r.pending ∧ (r.applyPolicy k m).endpoints = r.endpoints ∧
    (r.applyPolicy k m).inSync = r.inSync := by
  unfold Resolver.applyPolicy
  by_cases hm : r.polHasMatch k = true
  · simp only [hm, Bool.not_true, Bool.false_eq_true, if_false]
    rcases hu : r.sorter.updatePolicy k m with ⟨s', d⟩
    cases d <;> simp
  · simp [hm]

theorem SInv.step {r : Resolver} (h : SInv r.sorter) (e : Event) : SInv (r.step e).sorter := by
  cases e with
  | endpoint k v => cases v <;> exact h
  | policy k v =>
    simp only [Resolver.step]
    have h1 : SInv (r.recordPolicy k v).sorter := by cases v <;> exact h
    rw [(applyPolicy_fields _ _ _).1]
    split
    · exact h1
    · exact h1.updatePolicy k _
  | tier name v => exact h.onTierUpdate name v
  | status b =>
    simp only [Resolver.step]
    split <;> exact h
  | matchStarted p e =>
    simp only [Resolver.step]
    split <;> exact h
  | matchStopped p e =>
    simp only [Resolver.step]
    split
    · exact h.updatePolicy p none
    · exact h

theorem SInv.foldPending {s : Sorter} (h : SInv s) (all : List (PolicyKey × PolMeta)) (l : List PolicyKey) :
    SInv (l.foldl (Sorter.resolvePending all) s) := by
  induction l generalizing s with
  | nil => exact h
  | cons k t ih =>
    simp only [List.foldl_cons]
    apply ih
    unfold Sorter.resolvePending
    cases mget all k with
    | none => exact h
    | some m => exact h.updatePolicy k (some m)

/-- What one emitted `OnEndpointTierUpdate` call looks like: the endpoint's tier list is the sorter's
sorted output (tiers ascending under `TierLess`, each tier's policies ascending under `PolKVLess`)
filtered to the policies that match the endpoint, tiers without a matching policy dropped. -/
def GoodUpdate (matched : List (PolicyKey × EpKey)) : Call → Prop
  | .endpointUpdate e (some u) =>
    ∃ ts : List TierInfo, Sorted tierLess (ts.map TierInfo.key) ∧ (∀ t ∈ ts, Sorted polKVLess t.policies) ∧
      u.tiers = filterTiers matched e ts
  | .endpointUpdate _ none => True
  | _ => False

theorem flush_spec {r : Resolver} (h : SInv r.sorter) :
    ∃ r' calls, r.flush = some (r', calls) ∧ SInv r'.sorter ∧ r'.matched = r.matched ∧
      ∀ c ∈ calls, GoodUpdate r.matched c := by
  unfold Resolver.flush
  by_cases hs : r.inSync = true
  · simp only [hs, Bool.not_true, Bool.false_eq_true, if_false]
    have h1 := h.foldPending r.allPolicies (r.pending.filter (fun k => (mget r.allPolicies k).isSome))
    obtain ⟨ts, e1, e2, e3⟩ := sortedOut_spec h1
    rw [e1]
    refine ⟨_, _, rfl, h1, rfl, ?_⟩
    intro c hc
    simp only [List.mem_map] at hc
    obtain ⟨e, _, rfl⟩ := hc
    unfold Resolver.sendEndpointUpdate
    simp only
    cases mget r.endpoints e with
    | none => exact trivial
    | some ep =>
      refine ⟨ts, ?_, e3, rfl⟩
      rw [e2]; exact h1.sorted
  · simp only [hs, Bool.not_false, if_true]
    exact ⟨r, [], rfl, h, rfl, by simp⟩

/-! ### histories -/

inductive RStep
  | ev (e : Event)
  | flush
deriving Repr

/-- Run a history of resolver inputs (datastore updates, status changes, match start/stop calls from
the ActiveRulesCalculator) with flushes at arbitrary points.  Returns, per flush, the match relation at
that moment and the emitted `OnEndpointTierUpdate` calls.  `none` = the `Sorted()` panic. -/
def runR (r : Resolver) : List RStep → Option (Resolver × List (List (PolicyKey × EpKey) × List Call))
  | [] => some (r, [])
  | .ev e :: t => runR (r.step e) t
  | .flush :: t => match r.flush with
    | none => none
    | some (r', calls) => match runR r' t with
      | none => none
      | some (r'', outs) => some (r'', (r.matched, calls) :: outs)

theorem runR_spec {r : Resolver} (h : SInv r.sorter) (hist : List RStep) :
    ∃ r' outs, runR r hist = some (r', outs) ∧ ∀ o ∈ outs, ∀ c ∈ o.2, GoodUpdate o.1 c := by
  induction hist generalizing r with
  | nil => exact ⟨r, [], rfl, by simp⟩
  | cons st t ih =>
    cases st with
    | ev e => simpa [runR] using ih (h.step e)
    | flush =>
      obtain ⟨r1, calls, e1, h1, _, hg⟩ := flush_spec h
      obtain ⟨r2, outs, e2, hg2⟩ := ih h1
      refine ⟨r2, (r.matched, calls) :: outs, by simp [runR, e1, e2], ?_⟩
      intro o ho
      simp only [List.mem_cons] at ho
      rcases ho with rfl | ho
      · exact hg
      · exact hg2 o ho

end CalicoVerif.C03
