import CalicoVerif.Proofs.C16u
set_option linter.unusedSimpArgs false
namespace CalicoVerif.C16

theorem qAdd_eq (F : Felix) (m : String) (b : Bool) : ∃ q1 q2, F.qAdd m b = { F with qMust := q1, qBg := q2 } := by
  unfold Felix.qAdd
  split
  · exact ⟨_, _, rfl⟩
  · split
    · split <;> exact ⟨_, _, rfl⟩
    · split <;> exact ⟨_, _, rfl⟩

/-- Queue-only changes. -/
def QOnly (F F' : Felix) : Prop :=
  F'.allMeta = F.allMeta ∧ F'.desired = F.desired ∧ F'.dp = F.dp ∧ F'.members = F.members ∧
  F'.dirty = F.dirty ∧ F'.filter = F.filter ∧ F'.fullReq = F.fullReq ∧ F'.bgReq = F.bgReq ∧ F'.nextTemp = F.nextTemp

theorem qAddAll_qonly (b : Bool) (L : List String) (F : Felix) : QOnly F (L.foldl (fun F n => F.qAdd n b) F) := by
  apply foldl_inv (fun G => QOnly F G) _ _ L F ⟨rfl, rfl, rfl, rfl, rfl, rfl, rfl, rfl, rfl⟩
  intro G m hG
  obtain ⟨q1, q2, hq⟩ := qAdd_eq G m b
  rw [hq]; exact hG

theorem qAddAll_must_mem (L : List String) : ∀ (F : Felix) (x : String),
    x ∈ (L.foldl (fun F n => F.qAdd n true) F).qMust ↔ x ∈ F.qMust ∨ x ∈ L := by
  induction L with
  | nil => intro F x; simp
  | cons m L ih =>
    intro F x
    simp only [List.foldl, ih, qAdd_must_mem, List.mem_cons]
    constructor
    · rintro ((h | h) | h)
      · exact Or.inl h
      · exact Or.inr (Or.inl h)
      · exact Or.inr (Or.inr h)
    · rintro (h | h | h)
      · exact Or.inl (Or.inl h)
      · exact Or.inl (Or.inr h)
      · exact Or.inr h

theorem qAddAll_bg_sub (L : List String) : ∀ (F : Felix) (x : String),
    x ∈ (L.foldl (fun F n => F.qAdd n true) F).qBg → x ∈ F.qBg := by
  induction L with
  | nil => intro F x h; exact h
  | cons m L ih => intro F x h; exact qAdd_bg_sub F m x (ih _ x h)

/-- Felix knows that the desired set `n` is not in the kernel. -/
def GoodNone (F : Felix) (n : String) (des : List String) : Prop :=
  F.dp.get n = none ∧ (∃ t, F.members.get n = some t ∧ t.dp = [] ∧ t.des = des) ∧ FreshDirty F n

theorem GoodNone_congr {F F' : Felix} {n : String} {des : List String} (h : SN F' n = SN F n)
    (hg : GoodNone F n des) : GoodNone F' n des := by
  simp only [SN, Prod.mk.injEq, decide_eq_decide] at h
  obtain ⟨h1, h2, h3⟩ := h
  unfold GoodNone FreshDirty at *
  rw [h1, h2, h3]
  exact hg

theorem onMissing_tracked (F : Felix) (n m : String) (des : List String) (ha : F.allMeta.has n = true)
    (h : Tracked F n des) : Tracked (F.onMissing m) n des :=
  applyList_tracked ⟨[], "", ""⟩ F n m des LR.notFound ha h

theorem sweep_fold {F0 : Felix} {n : String} {des : List String} (ha : F0.allMeta.has n = true)
    (hneed : F0.needed n = true) : ∀ (L : List String) (F : Felix), Fixed F0 F → Tracked F n des →
    Fixed F0 (L.foldl Felix.onMissing F) ∧ Tracked (L.foldl Felix.onMissing F) n des ∧
    ((n ∈ L ∨ GoodNone F n des) → GoodNone (L.foldl Felix.onMissing F) n des) := by
  intro L
  induction L with
  | nil => intro F hf ht; exact ⟨hf, ht, fun h => by rcases h with h | h; simp at h; exact h⟩
  | cons m L ih =>
    intro F hf ht
    simp only [List.foldl]
    have ha' : F.allMeta.has n = true := by rw [hf.1]; exact ha
    have hf' := Fixed.trans hf (onMissing_fixed F m)
    have ht' := onMissing_tracked F n m des ha' ht
    obtain ⟨r1, r2, r3⟩ := ih (F.onMissing m) hf' ht'
    refine ⟨r1, r2, ?_⟩
    intro hh
    apply r3
    by_cases hnm : n = m
    · right
      subst hnm
      obtain ⟨t, ht0, hd0⟩ := ht
      have hneed' : F.needed n = true := by rw [needed_congr hf.2.2.1]; exact hneed
      obtain ⟨h1, h2, h3⟩ := onMissing_self F ha' ht0 hneed'
      exact ⟨h1, ⟨_, h2, rfl, hd0⟩, h3⟩
    · rcases hh with hh | hh
      · left
        rcases List.mem_cons.1 hh with rfl | hh
        · exact absurd rfl hnm
        · exact hh
      · right; exact GoodNone_congr (onMissing_SN F hnm) hh

theorem onMissing_dp (F : Felix) (m : String) : (F.onMissing m).dp = F.dp.erase m := by
  unfold Felix.onMissing
  dsimp only
  have : ∀ G : Felix, (G.updateDirtiness m).dp = G.dp := by
    intro G
    obtain ⟨d, hd, _⟩ := updateDirtiness_eq G m
    rw [hd]
  simp only [Felix.qRemove, this]
  split
  · rfl
  · split <;> rfl

theorem sweep_fold_queues : ∀ (L : List String) (F : Felix),
    (∀ x, x ∈ (L.foldl Felix.onMissing F).qMust ↔ x ∈ F.qMust ∧ x ∉ L) ∧
    (∀ x, x ∈ (L.foldl Felix.onMissing F).qBg → x ∈ F.qBg) ∧
    (∀ b, (L.foldl Felix.onMissing F).dp.has b = true → F.dp.has b = true) := by
  intro L
  induction L with
  | nil => intro F; exact ⟨fun x => by simp, fun _ h => h, fun _ h => h⟩
  | cons m L ih =>
    intro F
    simp only [List.foldl]
    obtain ⟨r1, r2, r3⟩ := ih (F.onMissing m)
    obtain ⟨q1, q2⟩ := onMissing_queues F m
    refine ⟨?_, ?_, ?_⟩
    · intro x
      rw [r1, q1, mem_sErase_iff]
      simp only [List.mem_cons, not_or]
      constructor
      · rintro ⟨⟨h1, h2⟩, h3⟩; exact ⟨h1, h2, h3⟩
      · rintro ⟨h1, h2, h3⟩; exact ⟨⟨h1, h2⟩, h3⟩
    · intro x hx
      have := r2 x hx
      rw [q2] at this; exact (mem_sErase_iff.1 this).1
    · intro b hb
      have := r3 b hb
      rw [onMissing_dp, Map.has_erase, Bool.and_eq_true] at this
      exact this.2

end CalicoVerif.C16
