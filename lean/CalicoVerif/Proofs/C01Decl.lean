import CalicoVerif.Proofs.C01Seq
import CalicoVerif.Proofs.C01Rs
/-! C01 helper: the DECLARED state (what the calls made on the EventSequencer add up to) versus the
RuleScanner's bookkeeping, for the whole composed graph:
 * the IP sets declared are exactly the sets in use,
 * the declared policies / profiles are exactly the `active` table (last rules given to the scanner),
 * every `OnIPSetAdded` / `OnIPSetRemoved` call respects the protocol (added only when not declared,
   removed only when declared). -/
namespace CalicoVerif.C01
open CalicoVerif C02

/-- the state declared by all calls so far -/
def decl (g : Graph) : DP := upAll {} g.calls

/-- the calls the modelled nodes make besides IP-set add/remove -/
def mainCall : Call → Bool
  | .memberAdded _ _ => true
  | .memberRemoved _ _ => true
  | .endpointUpdate _ _ => true
  | .policyActive _ _ => true
  | .policyInactive _ => true
  | .profileActive _ _ => true
  | .profileInactive _ => true
  | .genUpdate _ _ _ => true
  | .genRemove _ _ => true
  | _ => false

/-- the IP-set add/remove half of `validAll`, together with "no other kind of call is made" -/
def setValidAll : DP → List Call → Prop
  | _, [] => True
  | u, c :: cs =>
    (match c with
     | .ipsetAdded _ _ => upValid u c
     | .ipsetRemoved _ => upValid u c
     | c => mainCall c = true) ∧ setValidAll (upApply u c) cs

theorem setValidAll_append {u : DP} {a b : List Call} :
    setValidAll u (a ++ b) ↔ setValidAll u a ∧ setValidAll (upAll u a) b := by
  induction a generalizing u with
  | nil => simp [setValidAll, upAll]
  | cons c cs ih => simp [setValidAll, upAll, ih, and_assoc]

theorem decl_emit (g : Graph) (cs : List Call) : decl (g.emit cs) = upAll (decl g) cs := by
  unfold decl Graph.emit
  split <;> simp [upAll_append]

theorem rs_emit (g : Graph) (cs : List Call) : (g.emit cs).rs = g.rs ∧ (g.emit cs).active = g.active := by
  unfold Graph.emit; split <;> exact ⟨rfl, rfl⟩

/-- calls that declare neither IP sets nor policies nor profiles -/
def quietCall : Call → Bool
  | .memberAdded _ _ => true
  | .memberRemoved _ _ => true
  | .endpointUpdate _ _ => true
  | .genUpdate _ _ _ => true
  | .genRemove _ _ => true
  | _ => false

/-- the part of the declared state this file is about -/
structure SameMain (u u' : DP) : Prop where
  dom : ∀ id, (u'.ipsets id).isSome = (u.ipsets id).isSome
  pol : u'.pol = u.pol
  prof : u'.prof = u.prof

theorem SameMain.rfl' (u : DP) : SameMain u u := ⟨fun _ => rfl, rfl, rfl⟩
theorem SameMain.trans {a b c : DP} (h1 : SameMain a b) (h2 : SameMain b c) : SameMain a c :=
  ⟨fun id => (h2.dom id).trans (h1.dom id), h2.pol.trans h1.pol, h2.prof.trans h1.prof⟩

theorem quiet_upApply (u : DP) {c : Call} (h : quietCall c = true) : SameMain u (upApply u c) := by
  cases c <;> simp [quietCall] at h
  · rename_i id m
    simp only [upApply]
    cases hu : u.ipsets id with
    | none => simp only [hu]; exact SameMain.rfl' u
    | some f =>
      simp only [hu]
      refine ⟨fun id' => ?_, rfl, rfl⟩
      by_cases hid : id' = id
      · subst hid; simp [fupd, hu]
      · simp [fupd, hid]
  · rename_i id m
    simp only [upApply]
    cases hu : u.ipsets id with
    | none => simp only [hu]; exact SameMain.rfl' u
    | some f =>
      simp only [hu]
      refine ⟨fun id' => ?_, rfl, rfl⟩
      by_cases hid : id' = id
      · subst hid; simp [fupd, hu]
      · simp [fupd, hid]
  · rename_i k v
    cases v <;> exact ⟨fun _ => rfl, rfl, rfl⟩
  · exact ⟨fun _ => rfl, rfl, rfl⟩
  · exact ⟨fun _ => rfl, rfl, rfl⟩

theorem quiet_upAll : ∀ (cs : List Call) (u : DP), (∀ c ∈ cs, quietCall c = true) →
    SameMain u (upAll u cs) ∧ setValidAll u cs
  | [], u, _ => ⟨SameMain.rfl' u, trivial⟩
  | c :: cs, u, h => by
    have hc := h c (List.mem_cons_self ..)
    have h1 := quiet_upApply u hc
    have h2 := quiet_upAll cs (upApply u c) (fun x hx => h x (List.mem_cons_of_mem _ hx))
    refine ⟨h1.trans h2.1, ?_, h2.2⟩
    cases c <;> simp [quietCall] at hc <;> rfl

/-- `g'` = `g` after quiet calls only; scanner state untouched -/
structure QuietRel (g g' : Graph) : Prop where
  rs : g'.rs = g.rs
  active : g'.active = g.active
  calls : ∃ cs, g'.calls = g.calls ++ cs ∧ ∀ c ∈ cs, quietCall c = true

theorem QuietRel.rfl' (g : Graph) : QuietRel g g := ⟨rfl, rfl, [], by simp, by simp⟩
theorem QuietRel.of_eq {g g' : Graph} (h1 : g'.rs = g.rs) (h2 : g'.active = g.active) (h3 : g'.calls = g.calls) :
    QuietRel g g' := ⟨h1, h2, [], by simp [h3], by simp⟩
theorem QuietRel.trans {a b c : Graph} (h1 : QuietRel a b) (h2 : QuietRel b c) : QuietRel a c := by
  obtain ⟨c1, e1, q1⟩ := h1.calls
  obtain ⟨c2, e2, q2⟩ := h2.calls
  refine ⟨h2.rs.trans h1.rs, h2.active.trans h1.active, c1 ++ c2, by rw [e2, e1, List.append_assoc], ?_⟩
  intro c hc
  rcases List.mem_append.mp hc with h | h
  · exact q1 c h
  · exact q2 c h

theorem quietRel_emit (g : Graph) (cs : List Call) (h : ∀ c ∈ cs, quietCall c = true) : QuietRel g (g.emit cs) := by
  refine ⟨(rs_emit g cs).1, (rs_emit g cs).2, cs, ?_, h⟩
  unfold Graph.emit; split <;> rfl

theorem quietRel_idxOp (g : Graph) (op : C04.Op Str) : QuietRel g (g.idxOp op) := by
  unfold Graph.idxOp
  generalize C04.stepEvents matchSel g.idx op = r
  obtain ⟨idx, evs⟩ := r
  simp only []
  refine (QuietRel.of_eq (g := g) (g' := { g with idx := idx, panicked := g.panicked || idx.panicked }) rfl rfl rfl).trans
    (quietRel_emit _ _ ?_)
  intro c hc
  obtain ⟨e, _, he⟩ := List.mem_filterMap.mp hc
  cases e <;> simp [idxCall] at he <;> (subst he; rfl)

theorem decl_quietRel {g g' : Graph} (h : QuietRel g g') :
    SameMain (decl g) (decl g') ∧ (setValidAll {} g.calls → setValidAll {} g'.calls) := by
  obtain ⟨cs, e, q⟩ := h.calls
  have := quiet_upAll cs (decl g) q
  unfold decl at *
  rw [e, upAll_append]
  exact ⟨this.1, fun hv => setValidAll_append.mpr ⟨hv, this.2⟩⟩

/-! ### the invariant -/

def rulesOf (H : IdFn) (r : RulesIn) : Rules := ⟨r.tag, refsOf H r⟩

/-- RuleScanner bookkeeping versus declared state -/
structure RsInv (H : IdFn) (g : Graph) : Prop where
  nodup : g.rs.refs.Nodup
  refs : ∀ key uid, (key, uid) ∈ g.rs.refs ↔
    ∃ r, mget g.active key = some r ∧ (mget (currentSets H r) uid).isSome = true
  dom : ∀ uid, ((decl g).ipsets uid).isSome = g.rs.inUse uid
  pol : ∀ k, (decl g).pol k = (mget g.active (.pol k)).map (rulesOf H)
  prof : ∀ p, (decl g).prof p = (mget g.active (.prof p)).map (rulesOf H)
  setValid : setValidAll {} g.calls

theorem rsInv_quietRel {H : IdFn} {g g' : Graph} (h : QuietRel g g') (hi : RsInv H g) : RsInv H g' := by
  obtain ⟨hm, hv⟩ := decl_quietRel h
  refine ⟨h.rs ▸ hi.nodup, ?_, ?_, ?_, ?_, hv hi.setValid⟩
  · intro key uid; rw [h.rs, h.active]; exact hi.refs key uid
  · intro uid; rw [hm.dom, h.rs]; exact hi.dom uid
  · intro k; rw [hm.pol, h.active]; exact hi.pol k
  · intro p; rw [hm.prof, h.active]; exact hi.prof p

theorem rsInv_new (H : IdFn) (s : Bool) : RsInv H (Graph.new s) := by
  refine ⟨by simp [Graph.new], ?_, ?_, ?_, ?_, trivial⟩
  · intro key uid; simp [Graph.new, mget]
  · intro uid; simp [decl, upAll, Graph.new, RuleScanner.inUse, RuleScanner.uidInUse]
  · intro k; simp [decl, upAll, Graph.new, mget]
  · intro p; simp [decl, upAll, Graph.new, mget]

/-- what one scanner event does to the declared state -/
theorem onRsEvent_spec (g : Graph) (e : RsEvent) :
    (g.onRsEvent e).rs = g.rs ∧ (g.onRsEvent e).active = g.active ∧
    (decl (g.onRsEvent e)).pol = (decl g).pol ∧ (decl (g.onRsEvent e)).prof = (decl g).prof ∧
    (match e with
     | .ipsetActive uid _ =>
        (∀ u, ((decl (g.onRsEvent e)).ipsets u).isSome = (if u = uid then true else ((decl g).ipsets u).isSome)) ∧
        ((decl g).ipsets uid = none → setValidAll {} g.calls → setValidAll {} (g.onRsEvent e).calls)
     | .ipsetInactive uid =>
        (∀ u, ((decl (g.onRsEvent e)).ipsets u).isSome = (if u = uid then false else ((decl g).ipsets u).isSome)) ∧
        (((decl g).ipsets uid).isSome = true → setValidAll {} g.calls → setValidAll {} (g.onRsEvent e).calls)) := by
  cases e with
  | ipsetActive uid d =>
    simp only [Graph.onRsEvent]
    -- first the OnIPSetAdded call, then the member index (quiet)
    have hq := quietRel_idxOp (g.emit [.ipsetAdded uid (if d.proto ≠ C04.protoNone then 1 else 0)])
      (.updateIPSet uid d.sel d.proto d.port)
    obtain ⟨hm, hv⟩ := decl_quietRel hq
    have hd : decl (g.emit [.ipsetAdded uid (if d.proto ≠ C04.protoNone then 1 else 0)]) =
        upApply (decl g) (.ipsetAdded uid (if d.proto ≠ C04.protoNone then 1 else 0)) := by
      rw [decl_emit]; rfl
    refine ⟨hq.rs.trans (rs_emit _ _).1, hq.active.trans (rs_emit _ _).2, ?_, ?_, ?_, ?_⟩
    · rw [hm.pol, hd]; rfl
    · rw [hm.prof, hd]; rfl
    · intro u
      rw [hm.dom, hd]
      simp only [upApply, fupd]
      by_cases hu : u = uid <;> simp [hu]
    · intro hnone hsv
      apply hv
      have : (g.emit [.ipsetAdded uid (if d.proto ≠ C04.protoNone then 1 else 0)]).calls =
          g.calls ++ [.ipsetAdded uid (if d.proto ≠ C04.protoNone then 1 else 0)] := by
        unfold Graph.emit; split <;> rfl
      rw [this]
      refine setValidAll_append.mpr ⟨hsv, ?_, trivial⟩
      exact hnone
  | ipsetInactive uid =>
    simp only [Graph.onRsEvent]
    have hq := quietRel_idxOp g (.deleteIPSet uid)
    obtain ⟨hm, hv⟩ := decl_quietRel hq
    have hd : decl ((g.idxOp (.deleteIPSet uid)).emit [.ipsetRemoved uid]) =
        upApply (decl (g.idxOp (.deleteIPSet uid))) (.ipsetRemoved uid) := by
      rw [decl_emit]; rfl
    refine ⟨(rs_emit _ _).1.trans hq.rs, (rs_emit _ _).2.trans hq.active, ?_, ?_, ?_, ?_⟩
    · rw [hd]; exact hm.pol
    · rw [hd]; exact hm.prof
    · intro u
      rw [hd]
      simp only [upApply, fupd]
      by_cases hu : u = uid
      · simp [hu]
      · simp only [hu, if_false]; exact hm.dom u
    · intro hsome hsv
      have : ((g.idxOp (.deleteIPSet uid)).emit [.ipsetRemoved uid]).calls =
          (g.idxOp (.deleteIPSet uid)).calls ++ [.ipsetRemoved uid] := by
        unfold Graph.emit; split <;> rfl
      rw [this]
      refine setValidAll_append.mpr ⟨hv hsv, ?_, trivial⟩
      show ((upAll {} (g.idxOp (.deleteIPSet uid)).calls).ipsets uid).isSome = true
      have := hm.dom uid
      unfold decl at this hsome
      rw [this]; exact hsome

/-- delivering a legal event sequence moves the declared IP-set domain along with the in-use set -/
theorem foldl_onRsEvent_spec {f f' : InUse} {evs : List RsEvent} (hr : EvReplay f evs f') :
    ∀ g : Graph, (∀ u, ((decl g).ipsets u).isSome = f u) → setValidAll {} g.calls →
      (∀ u, ((decl (evs.foldl Graph.onRsEvent g)).ipsets u).isSome = f' u) ∧
      (evs.foldl Graph.onRsEvent g).rs = g.rs ∧ (evs.foldl Graph.onRsEvent g).active = g.active ∧
      (decl (evs.foldl Graph.onRsEvent g)).pol = (decl g).pol ∧
      (decl (evs.foldl Graph.onRsEvent g)).prof = (decl g).prof ∧
      setValidAll {} (evs.foldl Graph.onRsEvent g).calls := by
  induction hr with
  | nil f => intro g hd hv; exact ⟨hd, rfl, rfl, rfl, rfl, hv⟩
  | @active f uid d evs f' hn _ ih =>
    intro g hd hv
    simp only [List.foldl_cons]
    obtain ⟨h1, h2, h3, h4, h5, h6⟩ := onRsEvent_spec g (.ipsetActive uid d)
    have hnone : (decl g).ipsets uid = none := by
      have := hd uid; rw [hn] at this
      cases hx : (decl g).ipsets uid with
      | none => rfl
      | some _ => rw [hx] at this; cases this
    obtain ⟨i1, i2, i3, i4, i5, i6⟩ := ih (g.onRsEvent (.ipsetActive uid d))
      (by intro u; rw [h5 u]; by_cases hu : u = uid <;> simp [hu, hd u]) (h6 hnone hv)
    exact ⟨i1, i2.trans h1, i3.trans h2, i4.trans h3, i5.trans h4, i6⟩
  | @inactive f uid evs f' hm _ ih =>
    intro g hd hv
    simp only [List.foldl_cons]
    obtain ⟨h1, h2, h3, h4, h5, h6⟩ := onRsEvent_spec g (.ipsetInactive uid)
    obtain ⟨i1, i2, i3, i4, i5, i6⟩ := ih (g.onRsEvent (.ipsetInactive uid))
      (by intro u; rw [h5 u]; by_cases hu : u = uid <;> simp [hu, hd u]) (h6 (by rw [hd uid]; exact hm) hv)
    exact ⟨i1, i2.trans h1, i3.trans h2, i4.trans h3, i5.trans h4, i6⟩

theorem mkeys_currentSets_nodup (H : IdFn) (r : RulesIn) : (mkeys (currentSets H r)).Nodup := by
  unfold currentSets
  generalize (r.inbound ++ r.outbound).flatMap ruleSets = l
  suffices h : ∀ (l : List IpSetDef) (m : List (String × IpSetDef)), (mkeys m).Nodup →
      (mkeys (l.foldl (fun m d => mset (H d) d m) m)).Nodup from h l [] (by simp [mkeys])
  intro l
  induction l with
  | nil => intro m h; exact h
  | cons d l ih => intro m h; simp only [List.foldl_cons]; exact ih _ (mkeys_mset_nodup h)

theorem mget_setOrDel {κ β : Type} [DecidableEq κ] (k k' : κ) (v : Option β) (m : List (κ × β)) :
    mget (setOrDel k v m) k' = if k' = k then v else mget m k' := by
  cases v with
  | none => simp [setOrDel, mget_mdel]
  | some x => simp [setOrDel, mget_mset]

/-- `currentUIDToIPSet` of the rules handed to `updateRules` (none = OnXInactive) -/
def curOf (H : IdFn) : Option RulesIn → List (String × IpSetDef)
  | some r => currentSets H r
  | none => []

theorem rsUpdate_eq (H : IdFn) (g : Graph) (key : RulesId) (rules : Option RulesIn) :
    g.rsUpdate H key rules = List.foldl Graph.onRsEvent
      { g with rs := (g.rs.updateRules key (curOf H rules)).1, active := setOrDel key rules g.active }
      (g.rs.updateRules key (curOf H rules)).2 := by
  cases rules <;> rfl

/-- RULE SCANNER inside the graph: one `updateRules` + its callback keeps the invariant -/
theorem rsInv_scanRules {H : IdFn} {g : Graph} (hi : RsInv H g) (key : RulesId) (rules : Option RulesIn) :
    RsInv H (g.scanRules H key rules) := by
  unfold Graph.scanRules
  -- the reference-count update and its events
  have hcur_nd : (mkeys (curOf H rules)).Nodup := by
    cases rules with
    | none => simp [mkeys, curOf]
    | some r => exact mkeys_currentSets_nodup H r
  have hspec := updateRules_spec g.rs key (curOf H rules) hi.nodup
  have hnd := updateRules_nodup g.rs key (curOf H rules) hi.nodup hcur_nd
  have hfold := foldl_onRsEvent_spec hspec.2
    { g with rs := (g.rs.updateRules key (curOf H rules)).1, active := setOrDel key rules g.active }
    (by intro u; exact hi.dom u) hi.setValid
  rw [← rsUpdate_eq] at hfold
  obtain ⟨f1, f2, f3, f4, f5, f6⟩ := hfold
  simp only [] at f2 f3 f4 f5
  -- the final RulesUpdateCallbacks call
  have hd : decl ((g.rsUpdate H key rules).emit [rulesCall H key rules]) =
      upApply (decl (g.rsUpdate H key rules)) (rulesCall H key rules) := by rw [decl_emit]; rfl
  have hrs := rs_emit (g.rsUpdate H key rules) [rulesCall H key rules]
  refine ⟨?_, ?_, ?_, ?_, ?_, ?_⟩
  · rw [hrs.1, f2]; exact hnd
  · intro key' uid
    rw [hrs.1, hrs.2, f2, f3, hspec.1 key' uid, mget_setOrDel]
    by_cases hk : key' = key
    · subst hk
      simp only [if_true]
      cases rules with
      | none => simp [curOf, mget]
      | some r => simp [curOf]
    · simp only [hk, if_false]; exact hi.refs key' uid
  · intro uid
    rw [hd, hrs.1, f2]
    have : ((upApply (decl (g.rsUpdate H key rules)) (rulesCall H key rules)).ipsets uid) =
        (decl (g.rsUpdate H key rules)).ipsets uid := by
      cases key <;> cases rules <;> rfl
    rw [this]
    exact f1 uid
  · intro k
    rw [hd, hrs.2, f3, mget_setOrDel]
    cases key with
    | pol k0 =>
      by_cases hk : k = k0
      · subst hk
        cases rules <;> simp [rulesCall, upApply, fupd, rulesOf]
      · have hk' : ¬ RulesId.pol k = RulesId.pol k0 := fun e => hk (by cases e; rfl)
        simp only [hk', if_false]
        cases rules <;> simp only [rulesCall, upApply, fupd, hk, if_false] <;> rw [f4] <;> exact hi.pol k
    | prof p0 =>
      have hk' : ¬ RulesId.pol k = RulesId.prof p0 := fun e => by cases e
      simp only [hk', if_false]
      cases rules <;> simp only [rulesCall, upApply] <;> rw [f4] <;> exact hi.pol k
  · intro p
    rw [hd, hrs.2, f3, mget_setOrDel]
    cases key with
    | prof p0 =>
      by_cases hk : p = p0
      · subst hk
        cases rules <;> simp [rulesCall, upApply, fupd, rulesOf]
      · have hk' : ¬ RulesId.prof p = RulesId.prof p0 := fun e => hk (by cases e; rfl)
        simp only [hk', if_false]
        cases rules <;> simp only [rulesCall, upApply, fupd, hk, if_false] <;> rw [f5] <;> exact hi.prof p
    | pol k0 =>
      have hk' : ¬ RulesId.prof p = RulesId.pol k0 := fun e => by cases e
      simp only [hk', if_false]
      cases rules <;> simp only [rulesCall, upApply] <;> rw [f5] <;> exact hi.prof p
  · have : ((g.rsUpdate H key rules).emit [rulesCall H key rules]).calls =
        (g.rsUpdate H key rules).calls ++ [rulesCall H key rules] := by
      unfold Graph.emit; split <;> rfl
    rw [this]
    refine setValidAll_append.mpr ⟨f6, ?_, trivial⟩
    cases key <;> cases rules <;> rfl

end CalicoVerif.C01
