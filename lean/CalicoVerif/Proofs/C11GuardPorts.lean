import CalicoVerif.Proofs.C11GuardCidr
/-!
C11 — guard for the ports fragment (`writePortsMatch`): numeric ranges
(single-port compare, `< first` skip + `≤ last` hit) and named-port IP sets.
-/
namespace CalicoVerif.C11

/-- A port range as the API allows it. -/
def PortOK (r : PortRange) : Prop := 0 ≤ r.first ∧ r.first ≤ r.last ∧ r.last ≤ 65535

theorem cond_lt_nat {x k : Nat} (hx : x < 2 ^ 64) (hk : k < 2 ^ 64) :
    cond 0xa (BitVec.ofNat 64 x) (sext32 (k : Int)) = some (decide (x < k)) := by
  rw [sext32_nat]
  simp only [cond, BitVec.ult, BitVec.toNat_ofNat, Nat.mod_eq_of_lt hx, Nat.mod_eq_of_lt hk]

theorem cond_le_nat {x k : Nat} (hx : x < 2 ^ 64) (hk : k < 2 ^ 64) :
    cond 0xb (BitVec.ofNat 64 x) (sext32 (k : Int)) = some (decide (x ≤ k)) := by
  rw [sext32_nat]
  simp only [cond, BitVec.ule, BitVec.toNat_ofNat, Nat.mod_eq_of_lt hx, Nat.mod_eq_of_lt hk]

/-- A conditional jump on R1 = `v` against a natural immediate. -/
theorem lrun_jr1 (env : Env) (m : Mach) (v k : Nat) (op : Nat) (c : Bool) (l : Label) (r : List Ev)
    (hop : op = opJumpEqImm64 ∨ op = opJumpNEImm64 ∨ op = opJumpGEImm64 ∨ op = opJumpLTImm64 ∨ op = opJumpLEImm64)
    (h1 : m.reg 1 = some (BitVec.ofNat 64 v))
    (hc : cond (op / 16) (BitVec.ofNat 64 v) (sext32 (k : Int)) = some c) :
    lrun env (.jmp ⟨op, 1, 0, 0, (k : Int)⟩ l :: r) m = if c then goto env l r m else lrun env r m := by
  have hs := step_jcond64 (env := env) op 1 0 (k : Int) none _ hop h1
  rw [hc] at hs
  have hj : (⟨op, 1, 0, 0, (k : Int)⟩ : Insn).isJumpOp = true := by
    rcases hop with rfl | rfl | rfl | rfl | rfl <;>
      simp [Insn.isJumpOp, opJumpEqImm64, opJumpNEImm64, opJumpGEImm64, opJumpLTImm64, opJumpLEImm64]
  cases c with
  | true => simpa using lrun_jmp_taken hj hs
  | false => simpa using lrun_jmp_next hj hs

def portInNat (v : Nat) (r : PortRange) : Bool := r.first ≤ (v : Int) && (v : Int) ≤ r.last

/-- The instructions of one port range and the next free part id. -/
def portHere (rid : Nat) (onMatch : Label) (pr : PortRange) (part : Nat) : List Ev × Nat :=
  if pr.first = pr.last then ([jumpEqImm64 R1 pr.first onMatch], part)
  else if pr.first > 0 then
    ([jumpLTImm64 R1 pr.first (.rulePart rid part), jumpLEImm64 R1 pr.last onMatch,
      .label (.rulePart rid part)], part + 1)
  else ([jumpLEImm64 R1 pr.last onMatch], part)

theorem portLoop_cons (rid : Nat) (leg : Leg) (onMatch : Label) (pr : PortRange) (rs : List PortRange) (part : Nat) :
    flat (portLoop rid leg onMatch (pr :: rs) part).1 =
      (portHere rid onMatch pr part).1 ++ flat (portLoop rid leg onMatch rs (portHere rid onMatch pr part).2).1 ∧
    (portLoop rid leg onMatch (pr :: rs) part).2 = (portLoop rid leg onMatch rs (portHere rid onMatch pr part).2).2 := by
  unfold portHere
  rw [portLoop]
  by_cases c1 : pr.first = pr.last
  · simp only [c1, if_true]
    cases portLoop rid leg onMatch rs part with
    | mk more p2 => simp [flat_append, flat_map_ev, flat]
  · by_cases c2 : pr.first > 0
    · simp only [c1, c2, if_false, if_true]
      cases portLoop rid leg onMatch rs (part + 1) with
      | mk more p2 => simp [flat_append, flat_map_ev, flat]
    · simp only [c1, c2, if_false]
      cases portLoop rid leg onMatch rs part with
      | mk more p2 => simp [flat_append, flat_map_ev, flat]

/-- Labels of the numeric-port loop are the fresh part labels `part ≤ k`. -/
theorem labels_portLoop (rid : Nat) (leg : Leg) (onMatch : Label) :
    ∀ (rs : List PortRange) (part : Nat),
      (∀ l ∈ labelsOf (flat (portLoop rid leg onMatch rs part).1), ∃ k, part ≤ k ∧ l = .rulePart rid k) ∧
      part ≤ (portLoop rid leg onMatch rs part).2 := by
  intro rs
  induction rs with
  | nil => intro part; exact ⟨by intro l hl; simp [portLoop, flat, labelsOf] at hl, Nat.le_refl _⟩
  | cons pr rs ih =>
    intro part
    obtain ⟨e1, e2⟩ := portLoop_cons rid leg onMatch pr rs part
    rw [e1, e2]
    unfold portHere
    by_cases c1 : pr.first = pr.last
    · simp only [c1, if_true]
      obtain ⟨a, b⟩ := ih part
      refine ⟨?_, b⟩
      intro l hl
      rw [labelsOf_append, List.mem_append] at hl
      rcases hl with hl | hl
      · simp [labelsOf, jumpEqImm64, mkJ] at hl
      · exact a l hl
    · by_cases c2 : pr.first > 0
      · simp only [c1, c2, if_false, if_true]
        obtain ⟨a, b⟩ := ih (part + 1)
        refine ⟨?_, by omega⟩
        intro l hl
        rw [labelsOf_append, List.mem_append] at hl
        rcases hl with hl | hl
        · simp [labelsOf, jumpLTImm64, jumpLEImm64, mkJ] at hl
          exact ⟨part, Nat.le_refl _, hl⟩
        · obtain ⟨k, hk, e⟩ := a l hl
          exact ⟨k, by omega, e⟩
      · simp only [c1, c2, if_false]
        obtain ⟨a, b⟩ := ih part
        refine ⟨?_, b⟩
        intro l hl
        rw [labelsOf_append, List.mem_append] at hl
        rcases hl with hl | hl
        · simp [labelsOf, jumpLEImm64, mkJ] at hl
        · exact a l hl

/-- The numeric-port loop: with R1 = port, the first range containing it jumps to `onMatch`. -/
theorem lrun_portLoop (env : Env) (rid : Nat) (leg : Leg) (onMatch : Label) (v : Nat) (hv : v < 65536) :
    ∀ (rs : List PortRange) (part : Nat) (rest : List Ev) (m : Mach),
      (∀ r ∈ rs, PortOK r) → m.reg 1 = some (BitVec.ofNat 64 v) → (∀ k, part ≤ k → onMatch ≠ .rulePart rid k) →
      lrun env (flat (portLoop rid leg onMatch rs part).1 ++ rest) m =
        if rs.any (portInNat v) then goto env onMatch rest m else lrun env rest m := by
  intro rs
  induction rs with
  | nil => intro part rest m _ _ _; simp [portLoop, flat]
  | cons pr rs ih =>
    intro part rest m hok h1 hne
    obtain ⟨hf0, hfl, hl⟩ := hok pr (List.mem_cons_self)
    have hok' : ∀ r ∈ rs, PortOK r := fun r hr => hok r (List.mem_cons_of_mem _ hr)
    obtain ⟨f, hf⟩ : ∃ f : Nat, pr.first = (f : Int) := ⟨pr.first.toNat, by omega⟩
    obtain ⟨la, hla⟩ : ∃ la : Nat, pr.last = (la : Int) := ⟨pr.last.toNat, by omega⟩
    have hv64 : v < 2 ^ 64 := by omega
    have hf64 : f < 2 ^ 64 := by omega
    have hl64 : la < 2 ^ 64 := by omega
    rw [(portLoop_cons rid leg onMatch pr rs part).1]
    unfold portHere
    by_cases c1 : pr.first = pr.last
    · simp only [c1, if_true, List.cons_append, List.nil_append, jumpEqImm64, mkJ, R1]
      rw [hla, lrun_jr1 env m v la opJumpEqImm64 (v == la) onMatch _ (Or.inl rfl) h1
        (by simpa [opJumpEqImm64] using cond_eq_nat hv64 hl64)]
      have hlab := (labels_portLoop rid leg onMatch rs part).1
      have hin : portInNat v pr = (v == la) := by
        unfold portInNat; rw [c1, hla, Bool.eq_iff_iff]; simp only [Bool.and_eq_true, decide_eq_true_eq, beq_iff_eq]; omega
      simp only [List.any_cons, hin]
      by_cases hvl : v = la
      · subst hvl
        simp only [beq_self_eq_true, if_true, Bool.true_or]
        rw [goto_append rest m (by
          intro hmem; obtain ⟨k, hk, e⟩ := hlab _ hmem; exact hne k hk e)]
      · have : (v == la) = false := by simpa using hvl
        simp only [this, Bool.false_eq_true, if_false, Bool.false_or]
        exact ih part rest m hok' h1 hne
    · by_cases c2 : pr.first > 0
      · simp only [c1, c2, if_false, if_true, List.cons_append, List.nil_append, jumpLTImm64, jumpLEImm64, mkJ, R1]
        rw [hf, lrun_jr1 env m v f opJumpLTImm64 (decide (v < f)) _ _ (Or.inr (Or.inr (Or.inr (Or.inl rfl)))) h1
          (by simpa [opJumpLTImm64] using cond_lt_nat hv64 hf64)]
        have hlab := (labels_portLoop rid leg onMatch rs (part + 1)).1
        have hne' : ∀ k, part + 1 ≤ k → onMatch ≠ .rulePart rid k := fun k hk => hne k (by omega)
        have hin : portInNat v pr = (decide (f ≤ v) && decide (v ≤ la)) := by
          unfold portInNat; rw [hf, hla]; simp
        simp only [List.any_cons, hin]
        by_cases hlt : v < f
        · have hfv : ¬ f ≤ v := by omega
          simp only [hlt, decide_true, if_true, hfv, decide_false, Bool.false_and, Bool.false_or]
          rw [goto_cons_jmp, goto_label_self]
          exact ih (part + 1) rest m hok' h1 hne'
        · have hfv : f ≤ v := by omega
          simp only [hlt, decide_false, Bool.false_eq_true, if_false, hfv, decide_true, Bool.true_and]
          rw [hla, lrun_jr1 env m v la opJumpLEImm64 (decide (v ≤ la)) onMatch _
            (Or.inr (Or.inr (Or.inr (Or.inr rfl)))) h1 (by simpa [opJumpLEImm64] using cond_le_nat hv64 hl64)]
          by_cases hle : v ≤ la
          · simp only [hle, decide_true, if_true, Bool.true_or]
            rw [goto_cons_label_ne env _ m (fun e => hne part (Nat.le_refl _) e.symm)]
            rw [goto_append rest m (by
              intro hmem; obtain ⟨k, hk, e⟩ := hlab _ hmem; exact hne' k hk e)]
          · simp only [hle, decide_false, Bool.false_eq_true, if_false, Bool.false_or]
            rw [lrun_label]
            exact ih (part + 1) rest m hok' h1 hne'
      · have hf0' : f = 0 := by omega
        simp only [c1, c2, if_false, List.cons_append, List.nil_append, jumpLEImm64, mkJ, R1]
        rw [hla, lrun_jr1 env m v la opJumpLEImm64 (decide (v ≤ la)) onMatch _
          (Or.inr (Or.inr (Or.inr (Or.inr rfl)))) h1 (by simpa [opJumpLEImm64] using cond_le_nat hv64 hl64)]
        have hlab := (labels_portLoop rid leg onMatch rs part).1
        have hin : portInNat v pr = decide (v ≤ la) := by
          unfold portInNat; rw [hf, hla, hf0']; simp
        simp only [List.any_cons, hin]
        by_cases hle : v ≤ la
        · simp only [hle, decide_true, if_true, Bool.true_or]
          rw [goto_append rest m (by
            intro hmem; obtain ⟨k, hk, e⟩ := hlab _ hmem; exact hne k hk e)]
        · simp only [hle, decide_false, Bool.false_eq_true, if_false, Bool.false_or]
          exact ih part rest m hok' h1 hne

theorem pkt_port (st : List Byte) (leg : Leg) : (pktOfD st).port leg = BitVec.ofNat 16 (fieldN st leg.pto 2) := by
  cases leg <;> rfl

theorem portIn_nat (v : Nat) (hv : v < 65536) (r : PortRange) : portIn (BitVec.ofNat 16 v) r = portInNat v r := by
  unfold portIn portInNat
  simp only [BitVec.toNat_ofNat]
  have : v % 2 ^ 16 = v := Nat.mod_eq_of_lt (by omega)
  rw [this]

/-- The reference's ports clause for a leg. -/
def portsRef (env : Env) (p : Pkt) (leg : Leg) (rs : List PortRange) (named : List Nat) : Bool :=
  rs.any (portIn (p.port leg)) || named.any (memRef env p leg)

theorem flat_named (c : Cfg) (leg : Leg) (onMatch : Label) (named : List Nat) :
    flat (named.flatMap (fun id =>
      BEv.maybeSplit [] :: (ipSetLookup c id leg ++ [jumpNEImm64 R0 0 onMatch]).map BEv.ev)) =
    named.flatMap (fun id => ipSetLookup c id leg ++ [jumpNEImm64 R0 0 onMatch]) := by
  induction named with
  | nil => rfl
  | cons id ids ih => simp only [List.flatMap_cons, List.cons_append, flat, flat_append, flat_map_ev, ih]

theorem flat_named' (c : Cfg) (leg : Leg) (onMatch : Label) (named : List Nat) :
    flat (named.flatMap (fun id =>
      BEv.maybeSplit [] :: ((ipSetLookup c id leg).map BEv.ev ++ [BEv.ev (jumpNEImm64 R0 0 onMatch)]))) =
    named.flatMap (fun id => ipSetLookup c id leg ++ [jumpNEImm64 R0 0 onMatch]) := by
  induction named with
  | nil => rfl
  | cons id ids ih => simp only [List.flatMap_cons, List.cons_append, flat, flat_append, flat_map_ev, ih, List.nil_append]

/-- The test part of `writePortsMatch`: load the port, numeric ranges, named-port sets. -/
theorem decides_ports (env : Env) (st : List Byte) (hc : SetCtx env st) (rid : Nat) (leg : Leg) (onMatch : Label)
    (part1 : Nat) (ports : List PortRange) (named : List Nat)
    (hp : ∀ r ∈ ports, PortOK r) (hn : ∀ id ∈ named, id < 2 ^ 64)
    (hne : ∀ k, part1 ≤ k → onMatch ≠ .rulePart rid k) :
    Decides env st (load16 R1 R9 leg.portOff :: flat (portLoop rid leg onMatch ports part1).1 ++
        named.flatMap (fun id => ipSetLookup env.c id leg ++ [jumpNEImm64 R0 0 onMatch]))
      (if portsRef env (pktOfD st) leg ports named then some onMatch else none) := by
  intro rest m hI
  have hv : fieldN st leg.pto 2 < 65536 := by have := fieldN_lt st leg.pto 2; omega
  have e1 := step_ldx_state (env := env) hI opLoadReg16 1 leg.pto 2 0 (bs := (st.drop leg.pto).take 2)
    (hop := Or.inr (Or.inl ⟨rfl, rfl⟩)) (hd := by omega) (hk := leg.pto_le)
    (hb := getBytes_full hc.len leg.pto 2 leg.pto_le) (hstab := leg.pto_stable)
  have hI1 := hI.setReg 1 (BitVec.ofNat 64 (fieldN st leg.pto 2)) (by omega) (by omega) (by omega)
  have hr1 : (m.setReg 1 (BitVec.ofNat 64 (fieldN st leg.pto 2))).reg 1 = some (BitVec.ofNat 64 (fieldN st leg.pto 2)) :=
    reg_setReg_eq (by rw [hI.regsLen]; omega)
  obtain ⟨dn, hln⟩ := decides_ipset_tests env st hc onMatch leg named hn
  have hloop := lrun_portLoop env rid leg onMatch (fieldN st leg.pto 2) hv ports part1
    (named.flatMap (fun id => ipSetLookup env.c id leg ++ [jumpNEImm64 R0 0 onMatch]) ++ rest)
    (m.setReg 1 (BitVec.ofNat 64 (fieldN st leg.pto 2))) hp hr1 hne
  have hstart : lrun env ((load16 R1 R9 leg.portOff :: flat (portLoop rid leg onMatch ports part1).1 ++
      named.flatMap (fun id => ipSetLookup env.c id leg ++ [jumpNEImm64 R0 0 onMatch])) ++ rest) m =
      lrun env (flat (portLoop rid leg onMatch ports part1).1 ++
        (named.flatMap (fun id => ipSetLookup env.c id leg ++ [jumpNEImm64 R0 0 onMatch]) ++ rest))
        (m.setReg 1 (BitVec.ofNat 64 (fieldN st leg.pto 2))) := by
    simp only [load16, mk, R1, R9, leg.portOff_eq, List.cons_append, List.append_assoc]
    exact lrun_ins_next (e1 _)
  rw [hstart, hloop]
  have hany : ports.any (portIn ((pktOfD st).port leg)) = ports.any (portInNat (fieldN st leg.pto 2)) := by
    rw [pkt_port]
    congr 1
    funext r
    exact portIn_nat _ hv r
  unfold portsRef
  rw [hany]
  cases hnum : ports.any (portInNat (fieldN st leg.pto 2)) with
  | true =>
    refine ⟨_, hI1, ?_⟩
    simp only [if_true, Bool.true_or]
    rw [goto_append rest _ (by rw [hln]; simp)]
  | false =>
    obtain ⟨m', hI', e⟩ := dn rest _ hI1
    refine ⟨m', hI', ?_⟩
    simp only [Bool.false_eq_true, if_false, Bool.false_or]
    rw [e]

/-- `writePortsMatch`. -/
theorem guard_portsMatch (env : Env) (st : List Byte) (hc : SetCtx env st) (rid part : Nat) (neg : Bool) (leg : Leg)
    (ports : List PortRange) (named : List Nat) (hp : ∀ r ∈ ports, PortOK r) (hn : ∀ id ∈ named, id < 2 ^ 64) :
    Guard env st (.ruleNoMatch rid) (flat (portsMatch env.c rid part neg leg ports named).1)
      (if neg then !(portsRef env (pktOfD st) leg ports named) else portsRef env (pktOfD st) leg ports named) ∧
    (∀ l ∈ labelsOf (flat (portsMatch env.c rid part neg leg ports named).1), ∃ k, l = .rulePart rid k) := by
  have hlab := labels_portLoop rid leg
  obtain ⟨_, hln⟩ := decides_ipset_tests env st hc (if neg then Label.ruleNoMatch rid else Label.rulePart rid part) leg named hn
  cases neg with
  | true =>
    have d := decides_ports env st hc rid leg (.ruleNoMatch rid) part ports named hp hn (by intro k _; simp)
    have hshape : flat (portsMatch env.c rid part true leg ports named).1 =
        load16 R1 R9 leg.portOff :: flat (portLoop rid leg (.ruleNoMatch rid) ports part).1 ++
          named.flatMap (fun id => ipSetLookup env.c id leg ++ [jumpNEImm64 R0 0 (.ruleNoMatch rid)]) := by
      simp only [portsMatch, if_true]
      cases portLoop rid leg (.ruleNoMatch rid) ports part with
      | mk nums p2 => simp [flat, flat_append, flat_named']
    rw [hshape]
    refine ⟨Guard.of_decides_neg d, ?_⟩
    intro l hmem
    simp only [if_true] at hln
    simp only [load16, mk, List.cons_append, labelsOf, labelsOf_append, hln, List.append_nil] at hmem
    obtain ⟨k, _, e⟩ := (hlab (.ruleNoMatch rid) ports part).1 l hmem
    exact ⟨k, e⟩
  | false =>
    have d := decides_ports env st hc rid leg (.rulePart rid part) (part + 1) ports named hp hn
      (by intro k hk e; simp at e; omega)
    have hshape : flat (portsMatch env.c rid part false leg ports named).1 =
        (load16 R1 R9 leg.portOff :: flat (portLoop rid leg (.rulePart rid part) ports (part + 1)).1 ++
          named.flatMap (fun id => ipSetLookup env.c id leg ++ [jumpNEImm64 R0 0 (.rulePart rid part)])) ++
        [jump (.ruleNoMatch rid), .label (.rulePart rid part)] := by
      simp only [portsMatch, Bool.false_eq_true, if_false]
      cases portLoop rid leg (.rulePart rid part) ports (part + 1) with
      | mk nums p2 => simp [flat, flat_append, flat_named']
    rw [hshape]
    refine ⟨Guard.of_decides_pos d (by simp), ?_⟩
    intro l hmem
    simp only [Bool.false_eq_true, if_false] at hln
    simp only [load16, mk, List.cons_append, labelsOf, labelsOf_append, hln, List.append_nil, List.mem_append] at hmem
    rcases hmem with hmem | hmem
    · obtain ⟨k, _, e⟩ := (hlab (.rulePart rid part) ports (part + 1)).1 l hmem
      exact ⟨k, e⟩
    · simp [labelsOf, jump, mkJ] at hmem
      exact ⟨part, hmem⟩

end CalicoVerif.C11
