import CalicoVerif.Proofs.C19
open CalicoVerif.Cas
namespace CalicoVerif.C19

theorem countP_set_le_of_false (p : Slot → Bool) (l : List Slot) (i : Nat) (v : Slot) (hv : p v = false) :
    (l.set i v).countP p ≤ l.countP p := by
  induction l generalizing i with
  | nil => simp
  | cons a l ih =>
    cases i with
    | zero => simp [List.countP_cons, hv]
    | succ i => simp only [List.set_cons_succ, List.countP_cons]; have := ih i; omega

theorem countP_set_le_succ (p : Slot → Bool) (l : List Slot) (i : Nat) (v : Slot) :
    (l.set i v).countP p ≤ l.countP p + 1 := by
  induction l generalizing i with
  | nil => simp
  | cons a l ih =>
    cases i with
    | zero => simp only [List.set_cons_zero, List.countP_cons]; split <;> split <;> omega
    | succ i => simp only [List.set_cons_succ, List.countP_cons]; have := ih i; omega

theorem liveCount_setSlots_ne (h : Nat) (v : Slot) (hv : v ≠ Slot.live h) (os : List Nat) (s : List Slot) :
    liveCount h (setSlots v os s) ≤ liveCount h s := by
  induction os generalizing s with
  | nil => simp [setSlots]
  | cons o os ih =>
    have : setSlots v (o :: os) s = setSlots v os (s.set o v) := rfl
    rw [this]
    refine Nat.le_trans (ih _) ?_
    exact countP_set_le_of_false _ _ _ _ (by simpa using hv)

theorem liveCount_setSlots_le (h : Nat) (v : Slot) (os : List Nat) (s : List Slot) :
    liveCount h (setSlots v os s) ≤ liveCount h s + os.length := by
  induction os generalizing s with
  | nil => simp [setSlots]
  | cons o os ih =>
    have : setSlots v (o :: os) s = setSlots v os (s.set o v) := rfl
    rw [this]
    have h1 := ih (s.set o v)
    have h2 := countP_set_le_succ (· == Slot.live h) s o v
    simp only [liveCount, List.length_cons] at *
    omega

theorem liveCount_relAux (R : List Nat) (h : Nat) (i : Nat) (ss : List Slot) :
    liveCount h (relAux R i ss) + relCnt R h i ss = liveCount h ss := by
  induction ss generalizing i with
  | nil => simp [relAux, relCnt, liveCount]
  | cons s ss ih =>
    have ih' := ih (i + 1)
    unfold liveCount at ih' ⊢
    simp only [relAux, relCnt, List.countP_cons]
    generalize R.contains i = c
    cases c <;> cases s <;> simp [Slot.isLive] <;> (try split) <;> omega

theorem liveCount_gc {F : List Nat} {b b' : Blk} (h : Nat) (hg : gc F b = some b') :
    liveCount h b'.slots ≤ liveCount h b.slots := by
  unfold gc at hg
  split at hg
  · injection hg with hg; subst hg; exact liveCount_setSlots_ne h _ (by simp) _ _
  · cases hg

/-- Sum of the debit entries for handle `h`. -/
def sumFor (h : Nat) : List (Nat × Nat) → Nat
  | [] => 0
  | d :: ds => (if d.1 = h then d.2 else 0) + sumFor h ds

def needFor (h : Nat) : Option (Nat × Nat) → Nat
  | some (h', k) => if h' = h then k else 0
  | none => 0

theorem liveHandles_nodup : ∀ ss : List Slot, (liveHandles ss).Nodup
  | [] => by simp [liveHandles]
  | .free :: ss => by simpa [liveHandles] using liveHandles_nodup ss
  | .cool :: ss => by simpa [liveHandles] using liveHandles_nodup ss
  | .live h :: ss => by
    simp only [liveHandles]
    split
    · rename_i hc
      simp only [Bool.and_eq_true, Bool.not_eq_true', List.contains_eq_mem, decide_eq_false_iff_not] at hc
      exact List.nodup_cons.2 ⟨hc.2, liveHandles_nodup ss⟩
    · exact liveHandles_nodup ss

theorem sumFor_map_nodup (h : Nat) (f : Nat → Nat) (p : Nat × Nat → Bool) :
    ∀ hs : List Nat, hs.Nodup → sumFor h ((hs.map (fun x => (x, f x))).filter p) ≤ (if h ∈ hs then f h else 0)
  | [], _ => by simp [sumFor]
  | x :: hs, hn => by
    have hn' := List.nodup_cons.1 hn
    have ih := sumFor_map_nodup h f p hs hn'.2
    simp only [List.map_cons, List.filter_cons]
    by_cases hx : x = h
    · subst hx
      have : x ∉ hs := hn'.1
      simp only [this, if_false] at ih
      split <;> simp [sumFor] <;> omega
    · have hne : (h = x) = False := by simp; exact fun e => hx e.symm
      split <;> simp [sumFor, hx, hne] <;> split at ih <;> simp_all


theorem mem_liveHandles_of_relCnt (R : List Nat) (h : Nat) (hh : h ≠ 0) :
    ∀ (i : Nat) (ss : List Slot), relCnt R h i ss ≠ 0 → h ∈ liveHandles ss
  | _, [], hc => by simp [relCnt] at hc
  | i, s :: ss, hc => by
    simp only [relCnt] at hc
    cases s with
    | free => simp at hc; simpa [liveHandles] using mem_liveHandles_of_relCnt R h hh (i+1) ss hc
    | cool => simp at hc; simpa [liveHandles] using mem_liveHandles_of_relCnt R h hh (i+1) ss hc
    | live h' =>
      simp only [liveHandles]
      by_cases e : h' = h
      · subst e
        split
        · simp
        · rename_i hn
          simp only [Bool.and_eq_true, Bool.not_eq_true', List.contains_eq_mem, decide_eq_false_iff_not, not_and, Classical.not_not, bne_iff_ne, ne_eq] at hn
          exact hn hh
      · have hc' : relCnt R h (i+1) ss ≠ 0 := by
          intro h0; apply hc; simp [h0, e]
        have := mem_liveHandles_of_relCnt R h hh (i+1) ss hc'
        split
        · exact List.mem_cons_of_mem _ this
        · exact this

/-- One block operation: what the handle `h ≠ 0` gains in live slots plus the debit tokens
created is covered by what it had plus the credit the operation needs. -/
theorem applyBOp_count {op : BOp} {b : Blk} {r : BRes} (h : Nat) (hh : h ≠ 0) (ha : applyBOp op b = some r) :
    liveCount h r.v.slots + sumFor h r.debits ≤ liveCount h b.slots + needFor h r.need := by
  cases op with
  | assign h' k rv =>
    simp only [applyBOp] at ha
    split at ha
    · rename_i hc
      simp only [ge_iff_le, Bool.and_eq_true, decide_eq_true_eq, beq_iff_eq] at hc
      injection ha with ha; subst ha
      simp only [autoAssign, sumFor, Nat.add_zero] at hc ⊢
      by_cases e : h' = h
      · subst e
        have := liveCount_setSlots_le h' (Slot.live h') (takeFree rv k b.unalloc).1 b.slots
        simp [needFor, hh]; omega
      · have := liveCount_setSlots_ne h (Slot.live h') (by simp [e]) (takeFree rv k b.unalloc).1 b.slots
        omega
    · cases ha
  | assignIP h' o =>
    simp only [applyBOp] at ha
    split at ha
    · rename_i v hv
      injection ha with ha; subst ha
      unfold assignIP at hv
      split at hv
      · injection hv with hv; subst hv
        simp only [sumFor, Nat.add_zero, liveCount]
        by_cases e : h' = h
        · subst e
          have := countP_set_le_succ (· == Slot.live h') b.slots o (Slot.live h')
          simp [needFor, hh]; omega
        · have := countP_set_le_of_false (· == Slot.live h) b.slots o (Slot.live h') (by simp [e])
          omega
      · cases hv
    · cases ha
  | release h' ords =>
    simp only [applyBOp] at ha
    split at ha
    · injection ha with ha; subst ha
      have h1 := liveCount_relAux ords h 0 b.slots
      have h2 := sumFor_map_nodup h (fun x => relCnt ords x 0 b.slots) (fun p => p.2 != 0) _ (liveHandles_nodup b.slots)
      simp only [needFor]
      have : (if h ∈ liveHandles b.slots then relCnt ords h 0 b.slots else 0) ≤ relCnt ords h 0 b.slots := by
        split <;> omega
      omega
    · cases ha
  | relh h' =>
    simp only [applyBOp] at ha
    split at ha
    · injection ha with ha; subst ha
      have h1 := liveCount_relAux (ordsOf h' 0 b.slots) h 0 b.slots
      simp only [sumFor, needFor]
      by_cases e : h' = h
      · subst e; simp; omega
      · simp [e]; omega
    · cases ha
  | clearAff => simp only [applyBOp] at ha; injection ha with ha; subst ha; simp [sumFor]
  | bump => simp only [applyBOp] at ha; injection ha with ha; subst ha; simp [sumFor]

theorem rmw_count {g1 g2 : List Nat} {op : BOp} {v : Blk} {res : BRes} (h : Nat) (hh : h ≠ 0)
    (hr : rmw g1 op g2 v = some res) :
    liveCount h res.v.slots + sumFor h res.debits ≤ liveCount h v.slots + needFor h res.need := by
  unfold rmw at hr
  split at hr
  · cases hr
  · rename_i b1 h1
    split at hr
    · cases hr
    · rename_i r1 h2
      split at hr
      · cases hr
      · rename_i b2 h3
        injection hr with hr; subst hr
        have a1 := liveCount_gc h h1
        have a2 := applyBOp_count h hh h2
        have a3 := liveCount_gc h h3
        simp only at *
        omega


theorem credTot_erase (h b : Nat) (c : Cred) : ∀ cs : List Cred, c ∈ cs →
    credTot h b (cs.erase c) + (if c.h = h ∧ c.b = b then c.n else 0) = credTot h b cs
  | [], hm => by cases hm
  | x :: cs, hm => by
    by_cases e : x = c
    · subst e; simp [credTot]; omega
    · have hm' : c ∈ cs := by
        rcases List.mem_cons.1 hm with h1 | h1
        · exact absurd h1.symm e
        · exact h1
      have ih := credTot_erase h b c cs hm'
      rw [List.erase_cons_tail (by simpa using e)]
      simp only [credTot]; omega

theorem credTot_addDebits (h b' t b : Nat) (ds : List (Nat × Nat)) (cs : List Cred) :
    credTot h b' (addDebits t b ds cs) = (if b' = b then sumFor h ds else 0) + credTot h b' cs := by
  induction ds with
  | nil => simp [addDebits, sumFor]
  | cons d ds ih =>
    simp only [addDebits, List.map_cons, List.cons_append, credTot, sumFor] at ih ⊢
    rw [ih]
    by_cases e : b' = b
    · subst e; simp; split <;> omega
    · have : ¬ (b = b') := fun x => e x.symm
      simp [e, this]

theorem spend_count {t b : Nat} {need : Option (Nat × Nat)} {cs cs' : List Cred} (h b' : Nat)
    (hs : spend t b need cs = some cs') :
    credTot h b' cs' + (if b' = b then needFor h need else 0) ≤ credTot h b' cs := by
  unfold spend at hs
  split at hs
  · injection hs with hs; subst hs; simp [needFor]
  · rename_i h' k
    split at hs
    · rename_i c hc
      injection hs with hs; subst hs
      have hm := List.mem_of_find?_eq_some hc
      have hp := List.find?_some hc
      simp only [Bool.and_eq_true, beq_iff_eq, decide_eq_true_eq] at hp
      have := credTot_erase h b' c cs hm
      obtain ⟨⟨⟨h1, h2⟩, h3⟩, h4⟩ := hp
      simp only [needFor]
      by_cases e : b' = b
      · subst e
        by_cases e2 : h' = h
        · subst e2; simp [h2, h3] at this ⊢; omega
        · have : ¬ c.h = h := by rw [h2]; exact e2
          simp [e2]; simp_all
      · simp [e]; omega
    · cases hs

def liveAt (s : St) (b h : Nat) : Nat :=
  match s.blk b with
  | some (_, v) => liveCount h v.slots
  | none => 0

/-- Handle records never under-count: for every real handle `h` and block `b`, the
count recorded in the handle covers the block's live addresses of `h` plus every
outstanding (in-flight or abandoned by a crash) token. -/
def HInv (s : St) : Prop := ∀ h b, h ≠ 0 → liveAt s b h + credTot h b s.creds ≤ hcount s h b

theorem cnt_set (m : List Nat) (b b' x : Nat) (hb : b < m.length) :
    cnt (m.set b x) b' = if b' = b then x else cnt m b' := by
  unfold cnt
  simp only [List.getElem?_set]
  by_cases e : b' = b
  · subst e; simp [hb]
  · have : ¬ b = b' := fun x => e x.symm
    simp [e, this]

theorem cnt_replicate (n b : Nat) : cnt (List.replicate n 0) b = 0 := by
  unfold cnt; simp [List.getElem?_replicate]; split <;> simp

theorem cnt_zero_of_zeroMap {m : List Nat} (hz : zeroMap m = true) (b : Nat) : cnt m b = 0 := by
  unfold zeroMap at hz
  unfold cnt
  simp only [List.all_eq_true, beq_iff_eq] at hz
  cases hb : m[b]? with
  | none => rfl
  | some x => simp; exact hz x (List.mem_of_getElem? hb)


theorem liveCount_replicate_free (h n : Nat) : liveCount h (List.replicate n Slot.free) = 0 := by
  unfold liveCount
  rw [List.countP_eq_zero]
  intro a ha
  rw [List.eq_of_mem_replicate ha]; simp

theorem hinv_applyWrite {s s' : St} {c : Call} (hi : HInv s)
    (hcur : c.verb = Verb.create → s.curRev c.key = none)
    (hw : applyWrite s c = some s') : HInv s' := by
  unfold applyWrite at hw
  split at hw
  · -- block create
    injection hw with hw; subst hw
    intro h b' hh
    have := hi h b' hh
    rename_i b0 a0 n0 _ _ _
    simp only [liveAt, hcount, upd] at this ⊢
    by_cases e : b' = b0
    · subst e; simp [newBlk, liveCount_replicate_free]; omega
    · simp [e]; exact this
  · -- block read-modify-write
    rename_i b g1 op g2 _ _ _
    split at hw
    · cases hw
    · rename_i rv v hb
      split at hw
      · cases hw
      · rename_i res hr
        split at hw
        · cases hw
        · rename_i cs hs
          injection hw with hw; subst hw
          intro h b' hh
          have h0 := hi h b' hh
          have h1 := rmw_count h hh hr
          have h2 := spend_count h b' hs
          have h3 := credTot_addDebits h b' c.t b res.debits cs
          simp only [liveAt, hcount, upd] at h0 ⊢
          rw [h3]
          by_cases e : b' = b
          · subst e; simp [hb] at h0 ⊢; simp at h2; omega
          · simp [e] at h2 ⊢; omega
  · -- block delete
    rename_i b g1 op g2 _ _ _
    split at hw
    · cases hw
    · rename_i rv v hb
      split at hw
      · split at hw
        · split at hw
          · injection hw with hw; subst hw
            intro h b' hh
            have h0 := hi h b' hh
            simp only [liveAt, hcount, upd] at h0 ⊢
            by_cases e : b' = b
            · subst e; simp [hb] at h0 ⊢; omega
            · simp [e]; exact h0
          · cases hw
        · cases hw
      · rename_i op'
        split at hw
        · cases hw
        · rename_i res hr
          split at hw
          · rename_i hc
            simp only [Bool.and_eq_true, Option.isNone_iff_eq_none] at hc
            injection hw with hw; subst hw
            intro h b' hh
            have h0 := hi h b' hh
            have h1 := rmw_count h hh hr
            have h3 := credTot_addDebits h b' c.t b res.debits s.creds
            simp only [liveAt, hcount, upd] at h0 ⊢
            rw [h3]
            by_cases e : b' = b
            · subst e; simp [hb, hc.2, needFor] at h0 h1 ⊢; omega
            · simp [e]; exact h0
          · cases hw
  · -- handle create (increment)
    rename_i h0 b0 n0 hk hv _
    dsimp only at hw
    split at hw
    · rename_i hc
      simp only [ge_iff_le, Bool.and_eq_true, decide_eq_true_eq] at hc
      injection hw with hw; subst hw
      have habs : s.hdl h0 = none := by
        have := hcur hv
        rw [hk] at this
        simp only [St.curRev, Option.map_eq_none_iff] at this
        exact this
      intro h b' hh
      have h1 := hi h b' hh
      simp only [liveAt, hcount, upd, credTot] at h1 ⊢
      by_cases e : h = h0
      · subst e
        simp [habs] at h1 ⊢
        rw [cnt_set _ _ _ _ (by simpa using hc.2), cnt_replicate]
        by_cases e2 : b' = b0
        · subst e2; simp; omega
        · have : ¬ b0 = b' := fun x => e2 x.symm
          simp [e2, this]; omega
      · have : ¬ h0 = h := fun x => e x.symm
        simp [e, this]; exact h1
    · cases hw
  · -- handle update (increment)
    rename_i h0 b0 n0 _ _ _
    split at hw
    · cases hw
    · rename_i rv m hm
      split at hw
      · rename_i hc
        simp only [ge_iff_le, Bool.and_eq_true, decide_eq_true_eq] at hc
        injection hw with hw; subst hw
        intro h b' hh
        have h1 := hi h b' hh
        simp only [liveAt, hcount, upd, credTot] at h1 ⊢
        by_cases e : h = h0
        · subst e
          simp [hm] at h1 ⊢
          rw [cnt_set _ _ _ _ hc.2]
          by_cases e2 : b' = b0
          · subst e2; simp; omega
          · have : ¬ b0 = b' := fun x => e2 x.symm
            simp [e2, this]; omega
        · have : ¬ h0 = h := fun x => e x.symm
          simp [e, this]; exact h1
      · cases hw
  · -- handle update (decrement)
    rename_i h0 b0 n0 _ _ _
    split at hw
    · cases hw
    · rename_i rv m hm
      dsimp only at hw
      split at hw
      · rename_i hc
        simp only [Bool.and_eq_true, decide_eq_true_eq, List.contains_eq_mem, Bool.not_eq_true'] at hc
        injection hw with hw; subst hw
        intro h b' hh
        have h1 := hi h b' hh
        have h2 := credTot_erase h b' { t := c.t, h := h0, b := b0, n := n0 } s.creds (by simpa using hc.1.2)
        simp only [liveAt, hcount, upd] at h1 ⊢
        have hlen : b0 < m.length := hc.1.1.2
        by_cases e : h = h0
        · subst e
          simp [hm] at h1 ⊢
          rw [cnt_set _ _ _ _ hlen]
          by_cases e2 : b' = b0
          · subst e2; simp at h2 ⊢; omega
          · have : ¬ b0 = b' := fun x => e2 x.symm
            simp [e2, this] at h2 ⊢; omega
        · have : ¬ h0 = h := fun x => e x.symm
          simp [e, this] at h2 ⊢; omega
      · cases hw
  · -- handle delete (decrement to empty)
    rename_i h0 b0 n0 _ _ _
    split at hw
    · cases hw
    · rename_i rv m hm
      dsimp only at hw
      split at hw
      · rename_i hc
        simp only [Bool.and_eq_true, decide_eq_true_eq, List.contains_eq_mem] at hc
        injection hw with hw; subst hw
        intro h b' hh
        have h1 := hi h b' hh
        have h2 := credTot_erase h b' { t := c.t, h := h0, b := b0, n := n0 } s.creds (by simpa using hc.1.2)
        simp only [liveAt, hcount, upd] at h1 ⊢
        have hlen : b0 < m.length := hc.1.1.2
        have hz := cnt_zero_of_zeroMap hc.2 b'
        rw [cnt_set _ _ _ _ hlen] at hz
        by_cases e : h = h0
        · subst e
          simp [hm] at h1 ⊢
          by_cases e2 : b' = b0
          · subst e2; simp at hz h2; omega
          · simp [e2] at hz h2; omega
        · have : ¬ h0 = h := fun x => e x.symm
          simp [e, this] at h2 ⊢; omega
      · cases hw
  all_goals first
    | (injection hw with hw; subst hw; exact hi)
    | (cases hw; done)


theorem casOutcome_create_ok {cur rev : Option Nat} {f : Fault}
    (h : casOutcome cur Verb.create rev f = Outcome.ok) : cur = none := by
  unfold casOutcome at h
  cases f <;> cases cur <;> simp_all

theorem hinv_init (r nb : Nat) : HInv (St.init r nb) := by
  intro h b _; simp [liveAt, hcount, St.init, credTot]

theorem hinv_step {s s' : St} {e : Ev} (hi : HInv s) (h : step s e = some s') : HInv s' := by
  cases e with
  | tick => simp only [step] at h; injection h with h; subst h; exact hi
  | «begin» t => simp only [step] at h; injection h with h; subst h; exact hi
  | endOp t a =>
    simp only [step] at h
    split at h
    · injection h with h; subst h; exact hi
    · cases h
  | call c =>
    simp only [step] at h
    split at h
    · rename_i ho
      split at h
      · split at h
        · refine hinv_applyWrite hi ?_ h
          intro hv
          rw [hv] at ho
          exact casOutcome_create_ok ho
        · cases h
      · injection h with h; subst h; exact hi
    · injection h with h; subst h; exact hi

theorem hinv_run {s s' : St} {evs : List Ev} (hi : HInv s) (h : run s evs = some s') : HInv s' := by
  induction evs generalizing s with
  | nil => simp only [run] at h; injection h with h; subst h; exact hi
  | cons e es ih =>
    simp only [run] at h
    split at h
    · rename_i s1 h1; exact ih (hinv_step hi h1) h
    · cases h


theorem gc_keeps_live {F : List Nat} {b b' : Blk} {o h : Nat} (hg : gc F b = some b')
    (hl : b.slots[o]? = some (Slot.live h)) : b'.slots[o]? = some (Slot.live h) := by
  unfold gc at hg
  split at hg
  · rename_i hc
    simp only [Bool.and_eq_true, List.all_eq_true, beq_iff_eq] at hc
    injection hg with hg; subst hg
    simp only [getElem?_setSlots]
    split
    · rename_i hh
      have := hc.2 o hh.1
      rw [hl] at this; cases this
    · exact hl
  · cases hg

/-- Every address an allocating read-modify-write reports as recorded is live in the value it writes. -/
theorem rmw_got_live {g1 g2 : List Nat} {op : BOp} {v : Blk} {res : BRes} (hw : WF v)
    (h : rmw g1 op g2 v = some res) {o : Nat} (ho : o ∈ res.got) :
    ∃ h', res.v.slots[o]? = some (Slot.live h') := by
  unfold rmw at h
  split at h
  · cases h
  · rename_i b1 h1
    split at h
    · cases h
    · rename_i r1 h2
      split at h
      · cases h
      · rename_i b2 h3
        injection h with h; subst h
        have hw1 := wf_gc hw h1
        have : ∃ h', r1.v.slots[o]? = some (Slot.live h') := by
          cases op with
          | assign h' k rv =>
            simp only [applyBOp] at h2
            split at h2
            · injection h2 with h2; subst h2
              exact ⟨h', autoAssign_got_live (k := k) (h := h') (rv := rv) hw1 ho⟩
            · cases h2
          | assignIP h' o' =>
            simp only [applyBOp] at h2
            split at h2
            · rename_i v' hv; injection h2 with h2; subst h2
              simp only [List.mem_singleton] at ho; subst ho
              unfold assignIP at hv
              split at hv
              · rename_i hc
                injection hv with hv; subst hv
                have hc' : b1.slots[o]? = some Slot.free := by simpa using hc
                have : o < b1.slots.length := by
                  rcases Nat.lt_or_ge o b1.slots.length with hl | hl
                  · exact hl
                  · rw [List.getElem?_eq_none hl] at hc'; cases hc'
                exact ⟨h', by simp [this]⟩
              · cases hv
            · cases h2
          | release h' ords =>
            simp only [applyBOp] at h2
            split at h2
            · injection h2 with h2; subst h2; simp at ho
            · cases h2
          | relh h' =>
            simp only [applyBOp] at h2
            split at h2
            · injection h2 with h2; subst h2; simp at ho
            · cases h2
          | clearAff => simp only [applyBOp] at h2; injection h2 with h2; subst h2; simp at ho
          | bump => simp only [applyBOp] at h2; injection h2 with h2; subst h2; simp at ho
        obtain ⟨h', hl⟩ := this
        exact ⟨h', gc_keeps_live h3 hl⟩

/-- `got` of a thread grows only by that thread's own successful compare-and-swap on
the block, and what it adds is live in the value that CAS stored. -/
theorem got_grows_only_by_own_cas {s s' : St} {e : Ev} (hw : AllWF s) (h : step s e = some s')
    {t b o : Nat} (hin : (b, o) ∈ s'.got t) (hnot : (b, o) ∉ s.got t) :
    ∃ c, e = Ev.call c ∧ c.t = t ∧ c.key = Key.blk b ∧
      casOutcome (s.curRev c.key) c.verb c.rev c.fault = Outcome.ok ∧
      ∃ rv v h', s'.blk b = some (rv, v) ∧ v.slots[o]? = some (Slot.live h') := by
  cases e with
  | tick => simp only [step] at h; injection h with h; subst h; exact absurd hin hnot
  | «begin» t' =>
    simp only [step] at h; injection h with h; subst h
    simp only [upd] at hin
    split at hin
    · cases hin
    · exact absurd hin hnot
  | endOp t' a =>
    simp only [step] at h
    split at h
    · injection h with h; subst h; exact absurd hin hnot
    · cases h
  | call c =>
    simp only [step] at h
    split at h
    · rename_i hok
      split at h
      · -- a successful write
        split at h
        case isFalse => cases h
        unfold applyWrite at h
        split at h
        · injection h with h; subst h; exact absurd hin hnot
        · rename_i b0 g1 op g2 hk hv hp
          split at h
          · cases h
          · rename_i rv v hb
            split at h
            · cases h
            · rename_i res hr
              split at h
              · cases h
              · injection h with h; subst h
                simp only [upd] at hin
                split at hin
                · rename_i et
                  rcases List.mem_append.1 hin with h1 | h1
                  · subst et; exact absurd h1 hnot
                  · obtain ⟨o', ho', heq⟩ := List.mem_map.1 h1
                    injection heq with hb0 ho0
                    subst hb0; subst ho0
                    obtain ⟨h', hl⟩ := rmw_got_live (hw _ _ _ hb) hr ho'
                    exact ⟨c, rfl, et.symm, hk, hok, s.rev + 1, res.v, h', by simp [upd], hl⟩
                · exact absurd hin hnot
        all_goals first
          | (cases h; done)
          | (injection h with h; subst h; exact absurd hin hnot)
          | (split at h <;> first
              | (cases h; done)
              | (injection h with h; subst h; exact absurd hin hnot)
              | (split at h <;> first
                  | (cases h; done)
                  | (injection h with h; subst h; exact absurd hin hnot)
                  | (split at h <;> first
                    | (cases h; done)
                    | (injection h with h; subst h; exact absurd hin hnot)
                    | (split at h <;> first
                      | (cases h; done)
                      | (injection h with h; subst h; exact absurd hin hnot))))
              | (dsimp only at h; split at h <;> first
                  | (cases h; done)
                  | (injection h with h; subst h; exact absurd hin hnot)))
      · injection h with h; subst h; exact absurd hin hnot
    · injection h with h; subst h; exact absurd hin hnot


end CalicoVerif.C19
