import CalicoVerif.Proofs.C19
open CalicoVerif.Cas
namespace CalicoVerif.C19

theorem countP_set_le_of_false (p : Slot → Bool) (l : List Slot) (i : Nat) (v : Slot) (hv : p v = false) :
    (l.set i v).countP p ≤ l.countP p := by
  induction l generalizing i with
  | nil => simp
  | cons a l ih =>
    cases i with
    | zero => simp [List.countP_cons, hv]
    | succ i => simp only [List.set_cons_succ, List.countP_cons]; have := ih i; omega

theorem liveCount_relAux (R : List Nat) (h : Nat) (i : Nat) (ss : List Slot) :
    liveCount h (relAux R i ss) + relCnt R h i ss = liveCount h ss := by
  induction ss generalizing i with
  | nil => simp [relAux, relCnt, liveCount]
  | cons s ss ih =>
    have ih' := ih (i + 1)
    unfold liveCount at ih' ⊢
    simp only [relAux, relCnt, List.countP_cons]
    generalize R.contains i = c
    cases c <;> cases s <;> simp [Slot.isLive] <;> (try split) <;> omega

/-- Sum of the debit entries for handle `h`. -/
def sumFor (h : Nat) : List (Nat × Nat) → Nat
  | [] => 0
  | d :: ds => (if d.1 = h then d.2 else 0) + sumFor h ds

def needFor (h : Nat) : Option (Nat × Nat) → Nat
  | some (h', k) => if h' = h then k else 0
  | none => 0

theorem liveHandles_nodup : ∀ ss : List Slot, (liveHandles ss).Nodup
  | [] => by simp [liveHandles]
  | .free :: ss => by simpa [liveHandles] using liveHandles_nodup ss
  | .cool :: ss => by simpa [liveHandles] using liveHandles_nodup ss
  | .live h :: ss => by
    simp only [liveHandles]
    split
    · rename_i hc
      simp only [Bool.and_eq_true, Bool.not_eq_true', List.contains_eq_mem, decide_eq_false_iff_not] at hc
      exact List.nodup_cons.2 ⟨hc.2, liveHandles_nodup ss⟩
    · exact liveHandles_nodup ss

theorem mem_liveHandles_of_relCnt (R : List Nat) (h : Nat) (hh : h ≠ 0) :
    ∀ (i : Nat) (ss : List Slot), relCnt R h i ss ≠ 0 → h ∈ liveHandles ss
  | _, [], hc => by simp [relCnt] at hc
  | i, s :: ss, hc => by
    simp only [relCnt] at hc
    cases s with
    | free => simp at hc; simpa [liveHandles] using mem_liveHandles_of_relCnt R h hh (i+1) ss hc
    | cool => simp at hc; simpa [liveHandles] using mem_liveHandles_of_relCnt R h hh (i+1) ss hc
    | live h' =>
      simp only [liveHandles]
      by_cases e : h' = h
      · subst e
        split
        · simp
        · rename_i hn
          simp only [Bool.and_eq_true, Bool.not_eq_true', List.contains_eq_mem, decide_eq_false_iff_not, not_and, Classical.not_not, bne_iff_ne, ne_eq] at hn
          exact hn hh
      · have hc' : relCnt R h (i+1) ss ≠ 0 := by
          intro h0; apply hc; simp [h0, e]
        have := mem_liveHandles_of_relCnt R h hh (i+1) ss hc'
        split
        · exact List.mem_cons_of_mem _ this
        · exact this

theorem credTot_erase (h b : Nat) (c : Cred) : ∀ cs : List Cred, c ∈ cs →
    credTot h b (cs.erase c) + (if c.h = h ∧ c.b = b then c.n else 0) = credTot h b cs
  | [], hm => by cases hm
  | x :: cs, hm => by
    by_cases e : x = c
    · subst e; simp [credTot]; omega
    · have hm' : c ∈ cs := by
        rcases List.mem_cons.1 hm with h1 | h1
        · exact absurd h1.symm e
        · exact h1
      have ih := credTot_erase h b c cs hm'
      rw [List.erase_cons_tail (by simpa using e)]
      simp only [credTot]; omega

theorem credTot_addDebits (h b' t b : Nat) (ds : List (Nat × Nat)) (cs : List Cred) :
    credTot h b' (addDebits t b ds cs) = (if b' = b then sumFor h ds else 0) + credTot h b' cs := by
  induction ds with
  | nil => simp [addDebits, sumFor]
  | cons d ds ih =>
    simp only [addDebits, List.map_cons, List.cons_append, credTot, sumFor] at ih ⊢
    rw [ih]
    by_cases e : b' = b
    · subst e; simp; split <;> omega
    · have : ¬ (b = b') := fun x => e x.symm
      simp [e, this]

def liveAt (s : St) (b h : Nat) : Nat :=
  match s.blk b with
  | some (_, v) => liveCount h v.slots
  | none => 0

theorem cnt_set (m : List Nat) (b b' x : Nat) (hb : b < m.length) :
    cnt (m.set b x) b' = if b' = b then x else cnt m b' := by
  unfold cnt
  simp only [List.getElem?_set]
  by_cases e : b' = b
  · subst e; simp [hb]
  · have : ¬ b = b' := fun x => e x.symm
    simp [e, this]

theorem cnt_replicate (n b : Nat) : cnt (List.replicate n 0) b = 0 := by
  unfold cnt; simp [List.getElem?_replicate]; split <;> simp

theorem cnt_zero_of_zeroMap {m : List Nat} (hz : zeroMap m = true) (b : Nat) : cnt m b = 0 := by
  unfold zeroMap at hz
  unfold cnt
  simp only [List.all_eq_true, beq_iff_eq] at hz
  cases hb : m[b]? with
  | none => rfl
  | some x => simp; exact hz x (List.mem_of_getElem? hb)


theorem liveCount_replicate_free (h n : Nat) : liveCount h (List.replicate n Slot.free) = 0 := by
  unfold liveCount
  rw [List.countP_eq_zero]
  intro a ha
  rw [List.eq_of_mem_replicate ha]; simp

theorem casOutcome_create_ok {cur rev : Option Nat} {f : Fault}
    (h : casOutcome cur Verb.create rev f = Outcome.ok) : cur = none := by
  unfold casOutcome at h
  cases f <;> cases cur <;> simp_all


/-- Overwriting a position whose value does not satisfy `p` changes the count by [p v]. -/
theorem countP_set_eq (p : Slot → Bool) (l : List Slot) (i : Nat) (v x : Slot)
    (hx : l[i]? = some x) (hp : p x = false) :
    (l.set i v).countP p = l.countP p + (if p v then 1 else 0) := by
  induction l generalizing i with
  | nil => simp at hx
  | cons a l ih =>
    cases i with
    | zero =>
      simp only [List.getElem?_cons_zero, Option.some.injEq] at hx
      subst hx
      simp [List.countP_cons, hp]
    | succ i =>
      simp only [List.getElem?_cons_succ] at hx
      simp only [List.set_cons_succ, List.countP_cons]
      rw [ih i hx]; omega

theorem countP_set_none (p : Slot → Bool) (l : List Slot) (i : Nat) (v : Slot) (hx : l[i]? = none) :
    (l.set i v).countP p = l.countP p := by
  have : l.length ≤ i := by simpa using hx
  rw [List.set_eq_of_length_le this]

/-- Setting positions that do not hold `live h` to a value that is not `live h` keeps the count. -/
theorem liveCount_setSlots_same (h : Nat) (v : Slot) (hv : v ≠ Slot.live h) :
    ∀ (os : List Nat) (s : List Slot), (∀ o ∈ os, s[o]? ≠ some (Slot.live h)) →
      liveCount h (setSlots v os s) = liveCount h s
  | [], s, _ => by simp [setSlots]
  | o :: os, s, hs => by
    have e : setSlots v (o :: os) s = setSlots v os (s.set o v) := rfl
    rw [e, liveCount_setSlots_same h v hv os (s.set o v)]
    · unfold liveCount
      cases hx : s[o]? with
      | none => exact countP_set_none _ _ _ _ hx
      | some x =>
        have hne : x ≠ Slot.live h := by intro e; apply hs o (List.mem_cons_self ..); rw [hx, e]
        rw [countP_set_eq _ _ _ _ x hx (by simpa using hne)]
        simp [hv]
    · intro o' ho'
      simp only [List.getElem?_set]
      have := hs o' (List.mem_cons_of_mem _ ho')
      split
      · split
        · intro e; injection e with e; exact hv e
        · simp
      · exact this

/-- Setting duplicate-free FREE positions to `live h` adds exactly their number for `h`
and nothing for other handles. -/
theorem liveCount_setSlots_free (h h' : Nat) :
    ∀ (os : List Nat) (s : List Slot), os.Nodup → (∀ o ∈ os, s[o]? = some Slot.free) →
      liveCount h' (setSlots (Slot.live h) os s) = liveCount h' s + (if h' = h then os.length else 0)
  | [], s, _, _ => by simp [setSlots]
  | o :: os, s, hn, hs => by
    have e : setSlots (Slot.live h) (o :: os) s = setSlots (Slot.live h) os (s.set o (Slot.live h)) := rfl
    have hn' := List.nodup_cons.1 hn
    rw [e, liveCount_setSlots_free h h' os _ hn'.2]
    · unfold liveCount
      rw [countP_set_eq _ _ _ _ Slot.free (hs o (List.mem_cons_self ..)) (by simp)]
      by_cases e2 : h' = h
      · subst e2; simp; omega
      · have : ¬ h = h' := fun x => e2 x.symm
        simp [e2, this]
    · intro o' ho'
      have hne : o ≠ o' := fun e => hn'.1 (e ▸ ho')
      simp only [List.getElem?_set, hne, if_false]
      exact hs o' (List.mem_cons_of_mem _ ho')

theorem liveCount_gc_eq {F : List Nat} {b b' : Blk} (h : Nat) (hg : gc F b = some b') :
    liveCount h b'.slots = liveCount h b.slots := by
  unfold gc at hg
  split at hg
  · rename_i hc
    simp only [Bool.and_eq_true, List.all_eq_true, beq_iff_eq] at hc
    injection hg with hg; subst hg
    apply liveCount_setSlots_same h _ (by simp)
    intro o ho hl
    have := hc.2 o ho
    rw [hl] at this; cases this
  · cases hg

theorem liveCount_relhAux (h h' : Nat) (ss : List Slot) :
    liveCount h' (relhAux h ss) = if h' = h then 0 else liveCount h' ss := by
  unfold liveCount relhAux
  induction ss with
  | nil => simp
  | cons s ss ih =>
    simp only [List.map_cons, List.countP_cons, ih]
    by_cases e : h' = h
    · subst e; simp; cases s <;> simp; split <;> simp_all
    · simp only [e, if_false]
      cases s <;> simp
      rename_i x
      by_cases e2 : x = h
      · subst e2; simp; exact fun e3 => absurd e3.symm e
      · simp [e2]

theorem liveCount_empty {b : Blk} (he : b.empty = true) (h : Nat) : liveCount h b.slots = 0 := by
  unfold Blk.empty at he
  simp only [List.all_eq_true, beq_iff_eq] at he
  unfold liveCount
  rw [List.countP_eq_zero]
  intro a ha
  rw [he a ha]; simp


theorem sumFor_map_nodup_eq (h : Nat) (f : Nat → Nat) :
    ∀ hs : List Nat, hs.Nodup →
      sumFor h ((hs.map (fun x => (x, f x))).filter (fun p => p.2 != 0)) = (if h ∈ hs then f h else 0)
  | [], _ => by simp [sumFor]
  | x :: hs, hn => by
    have hn' := List.nodup_cons.1 hn
    have ih := sumFor_map_nodup_eq h f hs hn'.2
    simp only [List.map_cons, List.filter_cons]
    by_cases hx : x = h
    · subst hx
      have : x ∉ hs := hn'.1
      simp only [this, if_false] at ih
      by_cases hz : f x = 0
      · simp [hz, ih]
      · simp [hz, sumFor, ih]
    · have hne : ¬ h = x := fun e => hx e.symm
      split
      · simp [sumFor, hx, hne, ih]
      · simp [hne, ih]

theorem applyBOp_count_eq {op : BOp} {b : Blk} {r : BRes} (hw : WF b) (h : Nat) (hh : h ≠ 0)
    (ha : applyBOp op b = some r) :
    liveCount h r.v.slots + sumFor h r.debits = liveCount h b.slots + needFor h r.need := by
  cases op with
  | assign h' k rv =>
    simp only [applyBOp] at ha
    split at ha
    · rename_i hc
      simp only [ge_iff_le, Bool.and_eq_true, decide_eq_true_eq, beq_iff_eq] at hc
      injection ha with ha; subst ha
      simp only [autoAssign, sumFor, Nat.add_zero] at hc ⊢
      have hnd := takeFree_nodup rv k b.unalloc hw.1
      have hfree : ∀ o ∈ (takeFree rv k b.unalloc).1, b.slots[o]? = some Slot.free :=
        fun o ho => (hw.2 o).1 ((takeFree_mem rv k b.unalloc o).2 (Or.inl ho))
      rw [liveCount_setSlots_free h' h _ _ hnd.1 hfree, hc.2]
      by_cases e : h' = h
      · subst e; simp [needFor, hh]
      · have : ¬ h = h' := fun x => e x.symm
        by_cases e0 : h' = 0 <;> simp [needFor, e, this, e0] <;> omega
    · cases ha
  | assignIP h' o =>
    simp only [applyBOp] at ha
    split at ha
    · rename_i v hv
      injection ha with ha; subst ha
      unfold assignIP at hv
      split at hv
      · rename_i hc
        injection hv with hv; subst hv
        have hc' : b.slots[o]? = some Slot.free := by simpa using hc
        simp only [sumFor, Nat.add_zero, liveCount]
        rw [countP_set_eq _ _ _ _ Slot.free hc' (by simp)]
        by_cases e : h' = h
        · subst e; simp [needFor, hh]
        · have : ¬ h = h' := fun x => e x.symm
          by_cases e0 : h' = 0 <;> simp [needFor, e, this, e0] <;> omega
      · cases hv
    · cases ha
  | release h' ords =>
    simp only [applyBOp] at ha
    split at ha
    · injection ha with ha; subst ha
      have h1 := liveCount_relAux ords h 0 b.slots
      have h2 := sumFor_map_nodup_eq h (fun x => relCnt ords x 0 b.slots) _ (liveHandles_nodup b.slots)
      simp only [needFor, Nat.add_zero]
      rw [h2]
      by_cases hm : h ∈ liveHandles b.slots
      · simp [hm]; omega
      · have : relCnt ords h 0 b.slots = 0 := by
          rcases Nat.eq_zero_or_pos (relCnt ords h 0 b.slots) with hz | hz
          · exact hz
          · exact absurd (mem_liveHandles_of_relCnt ords h hh 0 b.slots (by omega)) hm
        simp [hm]; omega
    · cases ha
  | relh h' =>
    simp only [applyBOp] at ha
    split at ha
    · injection ha with ha; subst ha
      simp only [sumFor, needFor, liveCount_relhAux]
      by_cases e : h = h'
      · subst e; simp
      · have : ¬ h' = h := fun x => e x.symm
        simp [e, this]
    · cases ha
  | clearAff => simp only [applyBOp] at ha; injection ha with ha; subst ha; simp [sumFor, needFor]
  | bump => simp only [applyBOp] at ha; injection ha with ha; subst ha; simp [sumFor, needFor]

theorem rmw_count_eq {g1 g2 : List Nat} {op : BOp} {v : Blk} {res : BRes} (hw : WF v) (h : Nat) (hh : h ≠ 0)
    (hr : rmw g1 op g2 v = some res) :
    liveCount h res.v.slots + sumFor h res.debits = liveCount h v.slots + needFor h res.need := by
  unfold rmw at hr
  split at hr
  · cases hr
  · rename_i b1 h1
    split at hr
    · cases hr
    · rename_i r1 h2
      split at hr
      · cases hr
      · rename_i b2 h3
        injection hr with hr; subst hr
        have a1 := liveCount_gc_eq h h1
        have a2 := applyBOp_count_eq (wf_gc hw h1) h hh h2
        have a3 := liveCount_gc_eq h h3
        simp only at *
        omega

theorem spend_count_eq {t b : Nat} {need : Option (Nat × Nat)} {cs cs' : List Cred} (h b' : Nat)
    (hs : spend t b need cs = some cs') :
    credTot h b' cs' + (if b' = b then needFor h need else 0) = credTot h b' cs := by
  unfold spend at hs
  split at hs
  · injection hs with hs; subst hs; simp [needFor]
  · rename_i h' k
    split at hs
    · rename_i c hc
      injection hs with hs; subst hs
      have hm := List.mem_of_find?_eq_some hc
      have hp := List.find?_some hc
      simp only [Bool.and_eq_true, beq_iff_eq] at hp
      have := credTot_erase h b' c cs hm
      obtain ⟨⟨⟨h1, h2⟩, h3⟩, h4⟩ := hp
      simp only [needFor]
      by_cases e : b' = b
      · subst e
        by_cases e2 : h' = h
        · subst e2; simp [h2, h3] at this ⊢; omega
        · have : ¬ c.h = h := by rw [h2]; exact e2
          simp [e2]; simp_all
      · have : ¬ c.b = b' := by rw [h3]; exact fun x => e x.symm
        simp [e]; simp_all
    · cases hs

theorem gc_keeps_live {F : List Nat} {b b' : Blk} {o h : Nat} (hg : gc F b = some b')
    (hl : b.slots[o]? = some (Slot.live h)) : b'.slots[o]? = some (Slot.live h) := by
  unfold gc at hg
  split at hg
  · rename_i hc
    simp only [Bool.and_eq_true, List.all_eq_true, beq_iff_eq] at hc
    injection hg with hg; subst hg
    simp only [getElem?_setSlots]
    split
    · rename_i hh
      have := hc.2 o hh.1
      rw [hl] at this; cases this
    · exact hl
  · cases hg

/-- Every address an allocating read-modify-write reports as recorded is live in the value it writes. -/
theorem rmw_got_live {g1 g2 : List Nat} {op : BOp} {v : Blk} {res : BRes} (hw : WF v)
    (h : rmw g1 op g2 v = some res) {o : Nat} (ho : o ∈ res.got) :
    ∃ h', res.v.slots[o]? = some (Slot.live h') := by
  unfold rmw at h
  split at h
  · cases h
  · rename_i b1 h1
    split at h
    · cases h
    · rename_i r1 h2
      split at h
      · cases h
      · rename_i b2 h3
        injection h with h; subst h
        have hw1 := wf_gc hw h1
        have : ∃ h', r1.v.slots[o]? = some (Slot.live h') := by
          cases op with
          | assign h' k rv =>
            simp only [applyBOp] at h2
            split at h2
            · injection h2 with h2; subst h2
              exact ⟨h', autoAssign_got_live (k := k) (h := h') (rv := rv) hw1 ho⟩
            · cases h2
          | assignIP h' o' =>
            simp only [applyBOp] at h2
            split at h2
            · rename_i v' hv; injection h2 with h2; subst h2
              simp only [List.mem_singleton] at ho; subst ho
              unfold assignIP at hv
              split at hv
              · rename_i hc
                injection hv with hv; subst hv
                have hc' : b1.slots[o]? = some Slot.free := by simpa using hc
                have : o < b1.slots.length := by
                  rcases Nat.lt_or_ge o b1.slots.length with hl | hl
                  · exact hl
                  · rw [List.getElem?_eq_none hl] at hc'; cases hc'
                exact ⟨h', by simp [this]⟩
              · cases hv
            · cases h2
          | release h' ords =>
            simp only [applyBOp] at h2
            split at h2
            · injection h2 with h2; subst h2; simp at ho
            · cases h2
          | relh h' =>
            simp only [applyBOp] at h2
            split at h2
            · injection h2 with h2; subst h2; simp at ho
            · cases h2
          | clearAff => simp only [applyBOp] at h2; injection h2 with h2; subst h2; simp at ho
          | bump => simp only [applyBOp] at h2; injection h2 with h2; subst h2; simp at ho
        obtain ⟨h', hl⟩ := this
        exact ⟨h', gc_keeps_live h3 hl⟩

theorem rmw_got_live_h {g1 g2 : List Nat} {op : BOp} {v : Blk} {res : BRes} (hw : WF v)
    (h : rmw g1 op g2 v = some res) {o : Nat} (ho : o ∈ res.got) :
    res.v.slots[o]? = some (Slot.live (opHandle op)) := by
  unfold rmw at h
  split at h
  · cases h
  · rename_i b1 h1
    split at h
    · cases h
    · rename_i r1 h2
      split at h
      · cases h
      · rename_i b2 h3
        injection h with h; subst h
        have hw1 := wf_gc hw h1
        have : r1.v.slots[o]? = some (Slot.live (opHandle op)) := by
          cases op with
          | assign h' k rv =>
            simp only [applyBOp] at h2
            split at h2
            · injection h2 with h2; subst h2
              exact autoAssign_got_live (k := k) (h := h') (rv := rv) hw1 ho
            · cases h2
          | assignIP h' o' =>
            simp only [applyBOp] at h2
            split at h2
            · rename_i v' hv; injection h2 with h2; subst h2
              simp only [List.mem_singleton] at ho; subst ho
              unfold assignIP at hv
              split at hv
              · rename_i hc
                injection hv with hv; subst hv
                have hc' : b1.slots[o]? = some Slot.free := by simpa using hc
                have : o < b1.slots.length := by
                  rcases Nat.lt_or_ge o b1.slots.length with hl | hl
                  · exact hl
                  · rw [List.getElem?_eq_none hl] at hc'; cases hc'
                simp [this, opHandle]
              · cases hv
            · cases h2
          | release h' ords =>
            simp only [applyBOp] at h2
            split at h2
            · injection h2 with h2; subst h2; simp at ho
            · cases h2
          | relh h' =>
            simp only [applyBOp] at h2
            split at h2
            · injection h2 with h2; subst h2; simp at ho
            · cases h2
          | clearAff => simp only [applyBOp] at h2; injection h2 with h2; subst h2; simp at ho
          | bump => simp only [applyBOp] at h2; injection h2 with h2; subst h2; simp at ho
        exact gc_keeps_live h3 this

/-- `got` of a thread grows only by that thread's own successful compare-and-swap on
the block, and what it adds is live in the value that CAS stored. -/
theorem got_grows_only_by_own_cas {s s' : St} {e : Ev} (hw : AllWF s) (h : step s e = some s')
    {t b o : Nat} (hin : (b, o) ∈ s'.got t) (hnot : (b, o) ∉ s.got t) :
    ∃ c, e = Ev.call c ∧ c.t = t ∧ c.key = Key.blk b ∧
      casOutcome (s.curRev c.key) c.verb c.rev c.fault = Outcome.ok ∧
      ∃ g1 op g2 rv v, c.pl = Payload.blkRmw g1 op g2 ∧ s'.blk b = some (rv, v) ∧
        v.slots[o]? = some (Slot.live (opHandle op)) ∧
        c.verb = Verb.update ∧ ∃ rv0 v0 res, s.blk b = some (rv0, v0) ∧ rmw g1 op g2 v0 = some res ∧ o ∈ res.got := by
  cases e with
  | tick => simp only [step] at h; injection h with h; subst h; exact absurd hin hnot
  | «begin» t' =>
    simp only [step] at h; injection h with h; subst h
    simp only [upd] at hin
    split at hin
    · cases hin
    · exact absurd hin hnot
  | endOp t' a =>
    simp only [step] at h
    split at h
    · injection h with h; subst h; exact absurd hin hnot
    · cases h
  | call c =>
    simp only [step] at h
    split at h
    · rename_i hok
      split at h
      · -- a successful write
        split at h
        case isFalse => cases h
        unfold applyWrite at h
        split at h
        · injection h with h; subst h; exact absurd hin hnot
        · rename_i b0 g1 op g2 hk hv hp
          split at h
          · cases h
          · rename_i rv v hb
            split at h
            · cases h
            · rename_i res hr
              split at h
              · cases h
              · injection h with h; subst h
                simp only [upd] at hin
                split at hin
                · rename_i et
                  rcases List.mem_append.1 hin with h1 | h1
                  · subst et; exact absurd h1 hnot
                  · obtain ⟨o', ho', heq⟩ := List.mem_map.1 h1
                    injection heq with hb0 ho0
                    subst hb0; subst ho0
                    have hl := rmw_got_live_h (hw _ _ _ hb) hr ho'
                    exact ⟨c, rfl, et.symm, hk, hok, g1, op, g2, s.rev + 1, res.v, hp, by simp [upd], hl, hv, rv, v, res, hb, hr, ho'⟩
                · exact absurd hin hnot
        all_goals first
          | (cases h; done)
          | (injection h with h; subst h; exact absurd hin hnot)
          | (split at h <;> first
              | (cases h; done)
              | (injection h with h; subst h; exact absurd hin hnot)
              | (split at h <;> first
                  | (cases h; done)
                  | (injection h with h; subst h; exact absurd hin hnot)
                  | (split at h <;> first
                    | (cases h; done)
                    | (injection h with h; subst h; exact absurd hin hnot)
                    | (split at h <;> first
                      | (cases h; done)
                      | (injection h with h; subst h; exact absurd hin hnot))))
              | (dsimp only at h; split at h <;> first
                  | (cases h; done)
                  | (injection h with h; subst h; exact absurd hin hnot)))
      · injection h with h; subst h; exact absurd hin hnot
    · injection h with h; subst h; exact absurd hin hnot




/-- The `ownOk` guard of `Cas.step`: a successful write made with the affinity check by host
`x` is a compare-and-swap against a stored block recording `x` as its affinity. -/
theorem own_guard {s s' : St} {c : Call} {x b : Nat}
    (h : step s (.call c) = some s') (hown : c.own = some x) (hk : c.key = Key.blk b)
    (hw : c.verb.isWrite = true)
    (hok : casOutcome (s.curRev c.key) c.verb c.rev c.fault = Outcome.ok) :
    ∃ r v, s.blk b = some (r, v) ∧ v.aff = some x := by
  simp only [step, hok, hw, if_true] at h
  split at h
  · rename_i ho
    unfold ownOk at ho
    rw [hown, hk] at ho
    simp only at ho
    split at ho
    · rename_i r v hb; exact ⟨r, v, hb, by simpa using ho⟩
    · cases ho
  · cases h

/-- The ordinals an `autoAssign` read-modify-write records are not among the reserved ones it was given. -/
theorem rmw_assign_not_reserved {g1 g2 : List Nat} {h k : Nat} {rv : List Nat} {v : Blk} {res : BRes}
    (hr : rmw g1 (.assign h k rv) g2 v = some res) {o : Nat} (ho : o ∈ res.got) : o ∉ rv := by
  unfold rmw at hr
  split at hr
  · cases hr
  · rename_i b1 h1
    split at hr
    · cases hr
    · rename_i r1 h2
      split at hr
      · cases hr
      · injection hr with hr; subst hr
        simp only [applyBOp] at h2
        split at h2
        · injection h2 with h2; subst h2
          simp only [autoAssign] at ho
          clear h1
          revert ho
          generalize b1.unalloc = u
          intro ho
          have : ∀ (k : Nat) (u : List Nat), ∀ o ∈ (takeFree rv k u).1, o ∉ rv := by
            intro k u
            fun_induction takeFree rv k u with
            | case1 u => simp
            | case2 k => simp
            | case3 k x u hx r ih => exact ih
            | case4 k x u hx r ih =>
              intro o ho
              rcases List.mem_cons.1 ho with rfl | ho
              · simpa using hx
              · exact ih o ho
          exact this k u o ho
        · cases h2

end CalicoVerif.C19
