import CalicoVerif.Model.C11Builder
import Mathlib.Tactic.IntervalCases
/-! C11 — byte-reversal lemmas (`bits.ReverseBytes32/64`), proved bit by bit. -/
namespace CalicoVerif.C11

theorem rev32bv_rev32bv (x : BitVec 32) : rev32bv (rev32bv x) = x := by
  unfold rev32bv
  ext i hi
  simp only [BitVec.getElem_append, BitVec.getElem_extractLsb', BitVec.getLsbD_append, BitVec.getLsbD_extractLsb']
  have hi' : i < 32 := hi
  interval_cases i <;> simp [BitVec.getLsbD_eq_getElem]

theorem rev32bv_and (x y : BitVec 32) : rev32bv (x &&& y) = rev32bv x &&& rev32bv y := by
  unfold rev32bv
  ext i hi
  simp only [BitVec.getElem_append, BitVec.getElem_extractLsb', BitVec.getElem_and, BitVec.getLsbD_and]
  have hi' : i < 32 := hi
  interval_cases i <;> simp

theorem rev64bv_rev64bv (x : BitVec 64) : rev64bv (rev64bv x) = x := by
  unfold rev64bv rev32bv
  ext i hi
  simp only [BitVec.getElem_append, BitVec.getElem_extractLsb', BitVec.getLsbD_append, BitVec.getLsbD_extractLsb']
  have hi' : i < 64 := hi
  interval_cases i <;> simp [BitVec.getLsbD_eq_getElem]

theorem rev32bv_inj {x y : BitVec 32} (h : rev32bv x = rev32bv y) : x = y := by
  rw [← rev32bv_rev32bv x, ← rev32bv_rev32bv y, h]

end CalicoVerif.C11
