import CalicoVerif.Proofs.C02
/-!
C02 specification vocabulary: the dataplane state described by a message stream (`DP`), the
well-formedness of one message against it (`WF`), reference closure (`closed`), the upstream-declared
state (`DP` again, driven by the upstream calls: `upApply`) and the validity of an upstream call.
-/
namespace CalicoVerif.C02

/-- What an endpoint message stores downstream. -/
structure EpDown where
  data : EpData
  tiers : ProtoTiers
deriving DecidableEq

def tierRefs (l : List ProtoTier) : List PolicyKey := l.flatMap (fun t => t.ingress ++ t.egress)

/-- Every policy named by an endpoint message. -/
def EpDown.polRefs (e : EpDown) : List PolicyKey :=
  tierRefs e.tiers.normal ++ tierRefs e.tiers.untracked ++ tierRefs e.tiers.preDNAT ++ tierRefs e.tiers.forward

/-- The content of the message `flushEndpointTierUpdates` sends for `(k, u)`. -/
def epDown : EpKey → EpUpd → EpDown
  | .wep _, u => ⟨u.ep, { normal := (tierInfoToProto u.tiers).normal }⟩
  | .hep _, u => ⟨u.ep, tierInfoToProto u.tiers⟩

/-- Dataplane state as described by the messages received so far (IP sets with members, policies,
profiles, endpoints, VTEPs, routes, and the reference-free pass-through categories). -/
structure DP where
  ipsets : String → Option (String → Bool) := fun _ => none
  pol : PolicyKey → Option Rules := fun _ => none
  prof : String → Option Rules := fun _ => none
  ep : EpKey → Option EpDown := fun _ => none
  vtep : String → Option String := fun _ => none
  route : String → Option RouteData := fun _ => none
  gen : GenCat → String → Option String := fun _ _ => none

/-- Effect of one message on the dataplane state (what felix/dataplane/mock does). -/
def DP.apply (d : DP) : Msg → DP
  | .ipsetUpdate id _ ms => { d with ipsets := fupd d.ipsets id (some (fun m => decide (m ∈ ms))) }
  | .ipsetDelta id a r =>
    match d.ipsets id with
    | some f => { d with ipsets := fupd d.ipsets id (some (fun m => (f m || decide (m ∈ a)) && !decide (m ∈ r))) }
    | none => d
  | .ipsetRemove id => { d with ipsets := fupd d.ipsets id none }
  | .policyUpdate k r => { d with pol := fupd d.pol k (some r) }
  | .policyRemove k => { d with pol := fupd d.pol k none }
  | .profileUpdate k r => { d with prof := fupd d.prof k (some r) }
  | .profileRemove k => { d with prof := fupd d.prof k none }
  | .wepUpdate id dt t => { d with ep := fupd d.ep (.wep id) (some ⟨dt, { normal := t }⟩) }
  | .hepUpdate id dt t u p f => { d with ep := fupd d.ep (.hep id) (some ⟨dt, ⟨t, u, p, f⟩⟩) }
  | .wepRemove id => { d with ep := fupd d.ep (.wep id) none }
  | .hepRemove id => { d with ep := fupd d.ep (.hep id) none }
  | .vtepUpdate n t => { d with vtep := fupd d.vtep n (some t) }
  | .vtepRemove n => { d with vtep := fupd d.vtep n none }
  | .routeUpdate dst r => { d with route := fupd d.route dst (some r) }
  | .routeRemove dst => { d with route := fupd d.route dst none }
  | .genUpdate c k t => { d with gen := fun c' => if c' = c then fupd (d.gen c) k (some t) else d.gen c' }
  | .genRemove c k => { d with gen := fun c' => if c' = c then fupd (d.gen c) k none else d.gen c' }
  | _ => d

def DP.applyAll (d : DP) (ms : List Msg) : DP := ms.foldl DP.apply d

/-- Well-formedness of one message against the dataplane state it arrives at: deltas only add absent
and only remove present members of a set that exists; removals name existing objects. -/
def WF (d : DP) : Msg → Prop
  | .ipsetDelta id a r => ∃ f, d.ipsets id = some f ∧ (∀ m ∈ a, f m = false) ∧ (∀ m ∈ r, f m = true)
  | .ipsetRemove id => (d.ipsets id).isSome
  | .policyRemove k => (d.pol k).isSome
  | .profileRemove k => (d.prof k).isSome
  | .wepRemove id => (d.ep (.wep id)).isSome
  | .hepRemove id => (d.ep (.hep id)).isSome
  | .vtepRemove n => (d.vtep n).isSome
  | .routeRemove dst => (d.route dst).isSome
  | .genRemove c k => (d.gen c k).isSome
  | _ => True

/-- Every message of the list is well-formed against the state produced by the messages before it. -/
def AllWF : DP → List Msg → Prop
  | _, [] => True
  | d, m :: ms => WF d m ∧ AllWF (d.apply m) ms

/-- Reference closure of the IP set / policy / profile / endpoint part. -/
def DP.closedMain (d : DP) : Prop :=
  (∀ k r, d.pol k = some r → ∀ x ∈ r.refs, (d.ipsets x).isSome) ∧
  (∀ k r, d.prof k = some r → ∀ x ∈ r.refs, (d.ipsets x).isSome) ∧
  (∀ k e, d.ep k = some e → (∀ p ∈ e.polRefs, (d.pol p).isSome) ∧ (∀ p ∈ e.data.profiles, (d.prof p).isSome))

/-- Reference closure of routes: the VTEP a route needs is present. -/
def DP.closedRoutes (d : DP) : Prop :=
  ∀ dst r n, d.route dst = some r → r.vtep = some n → (d.vtep n).isSome

def DP.closed (d : DP) : Prop := d.closedMain ∧ d.closedRoutes

/-- `P` holds after every single message of the list (and before the first). -/
def AfterEach (P : DP → Prop) : DP → List Msg → Prop
  | d, [] => P d
  | d, m :: ms => P d ∧ AfterEach P (d.apply m) ms

/-! ### the upstream-declared state -/

/-- A well-behaved upstream: IP sets are added only when not declared and removed only when declared;
members are added only when absent and removed only when present.  (The other calls are always
allowed.) -/
def upValid (u : DP) : Call → Prop
  | .ipsetAdded id _ => u.ipsets id = none
  | .ipsetRemoved id => (u.ipsets id).isSome
  | .memberAdded id m => ∃ f, u.ipsets id = some f ∧ f m = false
  | .memberRemoved id m => ∃ f, u.ipsets id = some f ∧ f m = true
  | _ => True

/-- Effect of an upstream call on the declared state. -/
def upApply (u : DP) : Call → DP
  | .ipsetAdded id _ => { u with ipsets := fupd u.ipsets id (some (fun _ => false)) }
  | .ipsetRemoved id => { u with ipsets := fupd u.ipsets id none }
  | .memberAdded id m =>
    match u.ipsets id with
    | some f => { u with ipsets := fupd u.ipsets id (some (fun m' => f m' || decide (m' = m))) }
    | none => u
  | .memberRemoved id m =>
    match u.ipsets id with
    | some f => { u with ipsets := fupd u.ipsets id (some (fun m' => f m' && !decide (m' = m))) }
    | none => u
  | .policyActive k r => { u with pol := fupd u.pol k (some r) }
  | .policyInactive k => { u with pol := fupd u.pol k none }
  | .profileActive k r => { u with prof := fupd u.prof k (some r) }
  | .profileInactive k => { u with prof := fupd u.prof k none }
  | .endpointUpdate k (some v) => { u with ep := fupd u.ep k (some (epDown k v)) }
  | .endpointUpdate k none => { u with ep := fupd u.ep k none }
  | .genUpdate c k t => { u with gen := fun c' => if c' = c then fupd (u.gen c) k (some t) else u.gen c' }
  | .genRemove c k => { u with gen := fun c' => if c' = c then fupd (u.gen c) k none else u.gen c' }
  | .routeUpdate dst r => { u with route := fupd u.route dst (some r) }
  | .routeRemove dst => { u with route := fupd u.route dst none }
  | .vtepUpdate n t => { u with vtep := fupd u.vtep n (some t) }
  | .vtepRemove n => { u with vtep := fupd u.vtep n none }
  | _ => u

/-! ### the invariant -/

/-- IP-set part of the invariant: buffers vs. declared (`U`) and downstream (`D`) IP sets. -/
structure IpsSt where
  addedSets : List (String × Nat)
  removedSets : List String
  addedMem : MD
  removedMem : MD
  sentSets : List String

structure IpsInv (s : IpsSt) (U D : String → Option (String → Bool)) : Prop where
  sent : ∀ k, k ∈ s.sentSets ↔ (D k).isSome
  decl : ∀ k, (U k).isSome ↔ ((mget s.addedSets k).isSome ∨ (k ∈ s.sentSets ∧ k ∉ s.removedSets))
  remSent : ∀ k, k ∈ s.removedSets → k ∈ s.sentSets
  remNodup : s.removedSets.Nodup
  remNotAdded : ∀ k, k ∈ s.removedSets → mget s.addedSets k = none
  addNodup : (mkeys s.addedSets).Nodup
  /-- a set that will be (re)sent in full: its declared members are exactly the pending adds -/
  memNew : ∀ k fu, U k = some fu → (mget s.addedSets k).isSome →
    (∀ m, fu m = true ↔ (k, m) ∈ s.addedMem) ∧ (∀ m, (k, m) ∉ s.removedMem)
  /-- a set the dataplane has and keeps: declared = downstream + pending adds − pending removes -/
  memOld : ∀ k fu, U k = some fu → mget s.addedSets k = none →
    ∃ fd, D k = some fd ∧ (∀ m, fu m = true ↔ ((fd m = true ∧ (k, m) ∉ s.removedMem) ∨ (k, m) ∈ s.addedMem)) ∧
      (∀ m, (k, m) ∈ s.addedMem → fd m = false) ∧ (∀ m, (k, m) ∈ s.removedMem → fd m = true)
  memDecl : ∀ k m, ((k, m) ∈ s.addedMem ∨ (k, m) ∈ s.removedMem) → (U k).isSome

/-- The whole invariant. -/
structure Inv (s : State) (u d : DP) : Prop where
  ips : IpsInv ⟨s.addedSets, s.removedSets, s.addedMem, s.removedMem, s.sentSets⟩ u.ipsets d.ipsets
  pol : CatInv (fun _ r => r) s.pol u.pol d.pol
  prof : CatInv (fun _ r => r) s.prof u.prof d.prof
  ep : CatInv epDown s.ep u.ep d.ep
  vtep : CatInv (fun _ t => t) s.vtep u.vtep d.vtep
  route : CatInv (fun _ r => r) s.route u.route d.route
  gen : ∀ c, CatInv (fun _ t => t) (s.gen c) (u.gen c) (d.gen c)

end CalicoVerif.C02
