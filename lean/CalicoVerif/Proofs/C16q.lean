import CalicoVerif.Proofs.C16p
set_option linter.unusedSimpArgs false
namespace CalicoVerif.C16

/-- Every owned set in the kernel is in Felix's view. -/
def Cov (c : Cfg) (F : Felix) (K : Kernel) : Prop :=
  ∀ b, c.owns b = true → K.has b = true → F.dp.has b = true

/-- What the temp-set clean-up may change: only temporary names, in the kernel and in the view. -/
structure TD (w w' : W) : Prop where
  cfg : w'.cfg = w.cfg
  desired : w'.F.desired = w.F.desired
  allMeta : w'.F.allMeta = w.F.allMeta
  filter : w'.F.filter = w.F.filter
  fullReq : w'.F.fullReq = w.F.fullReq
  bgReq : w'.F.bgReq = w.F.bgReq
  members : w'.F.members = w.F.members
  dirty : w'.F.dirty = w.F.dirty
  nonTemp : ∀ b, w.cfg.isTemp b = false → w'.K.get b = w.K.get b ∧ w'.F.dp.get b = w.F.dp.get b
  dpSub : ∀ b, w'.F.dp.has b = true → w.F.dp.has b = true
  qSub : (∀ x ∈ w'.F.qMust, x ∈ w.F.qMust) ∧ (∀ x ∈ w'.F.qBg, x ∈ w.F.qBg)
  cov : Cov w.cfg w.F w.K → Cov w.cfg w'.F w'.K

theorem TD.refl (w : W) : TD w w :=
  ⟨rfl, rfl, rfl, rfl, rfl, rfl, rfl, rfl, fun _ _ => ⟨rfl, rfl⟩, fun _ h => h, ⟨fun _ h => h, fun _ h => h⟩, fun h => h⟩

theorem TD.trans {a b c : W} (h1 : TD a b) (h2 : TD b c) : TD a c := by
  refine ⟨h2.cfg.trans h1.cfg, h2.desired.trans h1.desired, h2.allMeta.trans h1.allMeta, h2.filter.trans h1.filter,
    h2.fullReq.trans h1.fullReq, h2.bgReq.trans h1.bgReq, h2.members.trans h1.members, h2.dirty.trans h1.dirty, ?_, ?_, ?_, ?_⟩
  · intro x hx
    have a1 := h1.nonTemp x hx
    have a2 := h2.nonTemp x (h1.cfg ▸ hx)
    exact ⟨a2.1.trans a1.1, a2.2.trans a1.2⟩
  · intro x hx; exact h1.dpSub x (h2.dpSub x hx)
  · exact ⟨fun x hx => h1.qSub.1 x (h2.qSub.1 x hx), fun x hx => h1.qSub.2 x (h2.qSub.2 x hx)⟩
  · intro hcov
    have := h2.cov (h1.cfg ▸ h1.cov hcov)
    rw [h1.cfg] at this; exact this

theorem destroy_TD_fail (w : W) (d : String) (h : w.destroyOk d = false) :
    (w.destroy d).1.K = w.K ∧ (w.destroy d).1.F = w.F ∧ (w.destroy d).1.cfg = w.cfg ∧ (w.destroy d).2 = false := by
  unfold W.destroy; simp [h]

theorem destroy_ok (w : W) (d : String) (h : w.destroyOk d = true) :
    (w.destroy d).1.K = w.K.erase d ∧ (w.destroy d).1.F = w.F ∧ (w.destroy d).1.cfg = w.cfg ∧ (w.destroy d).2 = true := by
  unfold W.destroy; simp [h]

theorem tryTempDeletions_go_TD : ∀ (fuel : Nat) (cands : List String) (w : W),
    (∀ x ∈ cands, w.cfg.isTemp x = true) → TD w (W.tryTempDeletions.go fuel cands w) := by
  intro fuel
  induction fuel with
  | zero => intro cands w _; unfold W.tryTempDeletions.go; exact TD.refl w
  | succ fuel ih =>
    intro cands w hc
    unfold W.tryTempDeletions.go
    cases cands with
    | nil => exact TD.refl w
    | cons c0 cs =>
      dsimp only
      have hp := popHintD_same w
      generalize popHintD w = r at hp
      obtain ⟨w1, h⟩ := r
      dsimp only at hp ⊢
      have k01 : TD w w1 := by
        refine ⟨hp.2.2, by rw [hp.1], by rw [hp.1], by rw [hp.1], by rw [hp.1], by rw [hp.1], by rw [hp.1], by rw [hp.1],
          fun b _ => ⟨by rw [hp.2.1], by rw [hp.1]⟩, fun b hb => by rw [hp.1] at hb; exact hb,
          ⟨fun x hx => by rw [hp.1] at hx; exact hx, fun x hx => by rw [hp.1] at hx; exact hx⟩, ?_⟩
        intro hcov; rw [hp.1, hp.2.1]; exact hcov
      split
      · refine TD.trans k01 ⟨rfl, rfl, rfl, rfl, rfl, rfl, rfl, rfl, fun _ _ => ⟨rfl, rfl⟩, fun _ h => h,
          ⟨fun _ h => h, fun _ h => h⟩, fun h => h⟩
      · rename_i d hpick
        have hmem := pickHint_mem hpick
        have hdT : w1.cfg.isTemp d = true := by rw [hp.2.2]; exact hc d hmem
        cases hok : w1.destroyOk d with
        | true =>
          obtain ⟨hK, hF, hcfg, hres⟩ := destroy_ok w1 d hok
          generalize w1.destroy d = r2 at hK hF hcfg hres
          obtain ⟨w2, ok⟩ := r2
          dsimp only at hK hF hcfg hres ⊢
          subst hres
          simp only [if_true]
          refine TD.trans k01 ⟨hcfg, by simp [hF], by simp [hF, Felix.qRemove], by simp [hF, Felix.qRemove],
            by simp [hF, Felix.qRemove], by simp [hF, Felix.qRemove], by simp [hF, Felix.qRemove],
            by simp [hF, Felix.qRemove], ?_, ?_, ?_, ?_⟩
          · intro b hb
            have hbd : b ≠ d := by rintro rfl; rw [hdT] at hb; exact absurd hb (by simp)
            exact ⟨by rw [hK, Map.get_erase]; simp [hbd], by simp [hF, Map.get_erase, hbd]⟩
          · intro b hb
            simp only [hF, Map.has_erase, Bool.and_eq_true] at hb
            exact hb.2
          · simp only [Felix.qRemove, hF]
            exact ⟨fun x hx => (mem_sErase_iff.1 hx).1, fun x hx => (mem_sErase_iff.1 hx).1⟩
          · intro hcov b hown hb
            rw [hK, Map.has_erase, Bool.and_eq_true] at hb
            simp only [hF, Map.has_erase, Bool.and_eq_true]
            exact ⟨hb.1, hcov b hown hb.2⟩
        | false =>
          obtain ⟨hK, hF, hcfg, hres⟩ := destroy_TD_fail w1 d hok
          generalize w1.destroy d = r2 at hK hF hcfg hres
          obtain ⟨w2, ok⟩ := r2
          dsimp only at hK hF hcfg hres ⊢
          subst hres
          simp only [Bool.false_eq_true, if_false]
          have k12 : TD w1 w2 := by
            refine ⟨hcfg, by rw [hF], by rw [hF], by rw [hF], by rw [hF], by rw [hF], by rw [hF], by rw [hF],
              fun b _ => ⟨by rw [hK], by rw [hF]⟩, fun b hb => by rw [hF] at hb; exact hb,
              ⟨fun x hx => by rw [hF] at hx; exact hx, fun x hx => by rw [hF] at hx; exact hx⟩, ?_⟩
            intro hcov; rw [hF, hK]; exact hcov
          refine TD.trans k01 (TD.trans k12 (ih _ w2 ?_))
          intro x hx
          rw [hcfg, hp.2.2]
          exact hc x (mem_sErase hx)

theorem tryTempDeletions_TD (w : W) : TD w w.tryTempDeletions := by
  unfold W.tryTempDeletions
  apply tryTempDeletions_go_TD
  intro x hx
  have := (List.mem_filter.1 hx).2
  simp only [Bool.and_eq_true] at this
  exact this.1

/-- The temp-set clean-up preserves everything the restore pass relies on. -/
theorem TD.winv {w w' : W} (h : TD w w') (hinv : WInv w.cfg w.F w.K) : WInv w.cfg w'.F w'.K := by
  refine ⟨?_, ?_, ?_⟩
  · intro n hn; rw [h.desired] at hn; exact hinv.notTemp n hn
  · intro n hn; rw [h.desired] at hn; rw [h.members]; exact hinv.tracked n hn
  · intro n dm t hdm ht
    rw [h.desired] at hdm; rw [h.members] at ht
    have hnt := hinv.notTemp n (Map.has_of_get hdm)
    obtain ⟨h1, h2⟩ := h.nonTemp n hnt
    rw [h1, h2]; exact hinv.acc n dm t hdm ht

theorem TD.dirtyOK {w w' : W} (h : TD w w') (hdo : DirtyOK w.F) : DirtyOK w'.F := by
  intro n t hn hd ht
  rw [h.desired] at hn; rw [h.dirty] at hd; rw [h.members] at ht
  exact hdo n t hn hd ht

end CalicoVerif.C16
