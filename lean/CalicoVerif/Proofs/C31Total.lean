import CalicoVerif.Proofs.C31ClosedStep
/-! C31 — a contract-respecting step never panics (`step ≠ none`), so `Respects` histories are `Valid`. -/
namespace CalicoVerif.C31

/-- an endpoint without a client has no join UID (so a leave with a non-zero UID never closes a nil channel) -/
def NoStaleUID (p : Proc) : Prop := ∀ kv ∈ p.eps, kv.2.output = none → kv.2.joinUID = 0

/-! ### totality of the pieces of `maybeSyncEndpoint` -/

theorem refsOf_total {m : AMap Rules} {ids : List Nat} (h : ∀ id ∈ ids, (m.get id).isSome) : ∃ l, refsOf m ids = some l := by
  induction ids with
  | nil => exact ⟨[], rfl⟩
  | cons i ids ih =>
    obtain ⟨l, hl⟩ := ih (fun id hid => h id (List.mem_cons_of_mem _ hid))
    have hi := h i (by simp)
    cases hg : m.get i with
    | none => rw [hg] at hi; cases hi
    | some r => exact ⟨r.refs ++ l, by simp [refsOf, hg, hl]⟩

theorem ipAddMsgs_total {p : Proc} {ids : List Nat} (h : ∀ x ∈ ids, (p.ipsets.get x).isSome) : ∃ ms, ipAddMsgs p ids = some ms := by
  induction ids with
  | nil => exact ⟨[], rfl⟩
  | cons i ids ih =>
    obtain ⟨l, hl⟩ := ih (fun id hid => h id (List.mem_cons_of_mem _ hid))
    have hi := h i (by simp)
    cases hg : p.ipsets.get i with
    | none => rw [hg] at hi; cases hi
    | some r => exact ⟨Msg.ipUpd i r :: l, by simp [ipAddMsgs, hg, hl]⟩

/-- the endpoint's references are all known to the Processor, and what they name exists -/
structure RefsKnown (p : Proc) (e : Option Endpoint) : Prop where
  pols : ∀ id ∈ epPols e, (p.pols.get id).isSome
  profs : ∀ id ∈ epProfs e, (p.profs.get id).isSome
  ipsets : ∀ x, neededIP p e x → (p.ipsets.get x).isSome

theorem ipSync_total {p : Proc} {ei : EpInfo} (h : RefsKnown p ei.ep) : ∃ r, ipSync p ei = some r := by
  obtain ⟨a, ha⟩ := refsOf_total h.profs
  obtain ⟨b, hb⟩ := refsOf_total h.pols
  have hw : wantedIP p ei.ep = some (dedup (a ++ b)) := by simp [wantedIP, ha, hb]
  obtain ⟨ms, hms⟩ := ipAddMsgs_total (p := p) (ids := (dedup (a ++ b)).filter (fun x => !ei.syncedIP.contains x)) (by
    intro x hx
    exact h.ipsets x ((wantedIP_mem hw x).1 (List.mem_filter.1 hx).1))
  exact ⟨_, by simp only [ipSync, hw, hms]; rfl⟩

theorem syncAdded_total {m : AMap Rules} {mk : Nat → Rules → Msg} {ids synced : List Nat} (h : ∀ id ∈ ids, (m.get id).isSome) :
    ∃ r, syncAdded m mk ids synced = some r := by
  induction ids generalizing synced with
  | nil => exact ⟨_, rfl⟩
  | cons i ids ih =>
    have hr := fun s => ih (synced := s) (fun id hid => h id (List.mem_cons_of_mem _ hid))
    simp only [syncAdded]
    split
    · exact hr synced
    · have hi := h i (by simp)
      cases hg : m.get i with
      | none => rw [hg] at hi; cases hi
      | some r =>
        obtain ⟨r2, hr2⟩ := hr (i :: synced)
        simp only [hr2]
        exact ⟨_, rfl⟩

theorem syncRemovedLoop_total {ids old new : List Nat} (hn : ids.Nodup) (h : ∀ id ∈ ids, id ∈ old) :
    ∃ r, syncRemovedLoop ids old new = some r := by
  induction ids generalizing old new with
  | nil => exact ⟨_, rfl⟩
  | cons i ids ih =>
    have hi := h i (by simp)
    simp only [syncRemovedLoop, List.contains_iff_mem, hi, if_true]
    refine ih (List.nodup_cons.1 hn).2 (fun id hid => ?_)
    simp only [List.mem_filter, bne_iff_ne, ne_eq]
    refine ⟨h id (List.mem_cons_of_mem _ hid), fun e => ?_⟩
    subst e
    exact (List.nodup_cons.1 hn).1 hid

theorem maybeSync_total {p : Proc} {w : Nat} {ei : EpInfo} (hk : RefsKnown p ei.ep)
    (hnd : ∀ e, ei.ep = some e → e.pols.Nodup ∧ e.profs.Nodup) : ∃ r, maybeSync p w ei = some r := by
  unfold maybeSync
  cases he : ei.ep with
  | none => exact ⟨_, rfl⟩
  | some e =>
    cases ho : ei.output with
    | none => exact ⟨_, rfl⟩
    | some c =>
      simp only
      obtain ⟨⟨ei1, adds, dels⟩, h1⟩ := ipSync_total (p := p) (ei := ei) hk
      have ho1 := ipSync_output h1
      simp only [h1]
      rw [he] at hk
      obtain ⟨⟨sp, polMsgs⟩, h2⟩ := syncAdded_total (mk := Msg.polUpd) (synced := ei1.syncedPol) hk.pols
      simp only [epPols] at h2
      simp only [h2]
      obtain ⟨⟨sf, profMsgs⟩, h3⟩ := syncAdded_total (mk := Msg.profUpd) (synced := ei1.syncedProf) hk.profs
      simp only [epProfs] at h3
      simp only [h3]
      obtain ⟨_, sP, _⟩ := syncAdded_pol_view h2 View.empty
      obtain ⟨_, sF, _⟩ := syncAdded_prof_view h3 View.empty
      obtain ⟨r4, h4⟩ := syncRemovedLoop_total (new := []) (hnd e he).1 (fun id hid => (sP id).2 (Or.inr hid))
      obtain ⟨r5, h5⟩ := syncRemovedLoop_total (new := []) (hnd e he).2 (fun id hid => (sF id).2 (Or.inr hid))
      simp only [h4, h5]
      exact ⟨_, rfl⟩

theorem scanRefs_total {m : AMap Rules} {x : Nat} {ids : List Nat} (h : ∀ id ∈ ids, (m.get id).isSome) :
    ∃ b, scanRefs m x ids = some b := by
  induction ids with
  | nil => exact ⟨false, rfl⟩
  | cons i ids ih =>
    have hi := h i (by simp)
    cases hg : m.get i with
    | none => rw [hg] at hi; cases hi
    | some r =>
      simp only [scanRefs, hg]
      split
      · exact ⟨true, rfl⟩
      · exact ih (fun id hid => h id (List.mem_cons_of_mem _ hid))

theorem referencesIP_total {p : Proc} {ei : EpInfo} (x : Nat) (hk : RefsKnown p ei.ep) : ∃ b, referencesIP p ei x = some b := by
  unfold referencesIP
  obtain ⟨b1, h1⟩ := scanRefs_total (x := x) hk.profs
  simp only [h1]
  cases b1 with
  | true => exact ⟨true, rfl⟩
  | false => exact scanRefs_total hk.pols

theorem each_total {f : EpInfo → Option (EpInfo × List Msg)} {eps : AMap EpInfo}
    (h : ∀ kv ∈ eps, kv.2.output.isSome → ∃ r, f kv.2 = some r) : ∃ r, eachUpdateable f eps = some r := by
  induction eps with
  | nil => exact ⟨_, rfl⟩
  | cons kv r ih =>
    obtain ⟨w, ei⟩ := kv
    obtain ⟨⟨r', evs'⟩, hr⟩ := ih (fun kv hkv => h kv (List.mem_cons_of_mem _ hkv))
    simp only [eachUpdateable]
    cases ho : ei.output with
    | none => simp only [hr]; exact ⟨_, rfl⟩
    | some c =>
      obtain ⟨⟨ei', ms⟩, hf⟩ := h (w, ei) (by simp) (by simp [ho])
      simp only [hf, hr]
      exact ⟨_, rfl⟩

/-- `Good` gives `RefsKnown` for every endpoint entry -/
theorem refsKnown_of_good {p : Proc} (hg : Good p) {kv : Nat × EpInfo} (hkv : kv ∈ p.eps) : RefsKnown p kv.2.ep := by
  cases he : kv.2.ep with
  | none =>
    exact ⟨fun id h => by simp [epPols] at h, fun id h => by simp [epProfs] at h,
      fun x h => needed_isSome hg.polRefs hg.profRefs h⟩
  | some e =>
    obtain ⟨_, _, c, d⟩ := hg.epRefs kv hkv e he
    exact ⟨c, d, fun x h => needed_isSome hg.polRefs hg.profRefs h⟩

/-! ### no step panics under the contract -/

theorem step_total {p : Proc} {evs : List Ev} {op : Op} (hi : Inv p evs) (hu : NoStaleUID p) (hpre : Pre p op) :
    ∃ r, step p op = some r := by
  obtain ⟨_, hg, _, _⟩ := hi
  cases op with
  | inSync => exact ⟨_, rfl⟩
  | sa id x => exact ⟨_, rfl⟩
  | saRm id => exact ⟨_, rfl⟩
  | ns id x => exact ⟨_, rfl⟩
  | nsRm id => exact ⟨_, rfl⟩
  | polRm id => exact ⟨_, rfl⟩
  | profRm id => exact ⟨_, rfl⟩
  | ipRm id => exact ⟨_, rfl⟩
  | epRm w =>
    have hpre' : (p.eps.get w).isSome := hpre
    cases hgw : p.eps.get w with
    | none => rw [hgw] at hpre'; cases hpre'
    | some ei => exact ⟨_, by simp only [step, handleEpRemove, hgw]; rfl⟩
  | leave w uid =>
    have hpre' : uid ≠ 0 := hpre
    simp only [step, handleLeave]
    cases hgw : p.eps.get w with
    | none => exact ⟨_, rfl⟩
    | some ei =>
      simp only
      by_cases hne : (ei.joinUID != uid) = true
      · simp only [hne, if_true]; exact ⟨_, rfl⟩
      · simp only [hne]
        cases ho : ei.output with
        | none =>
          exfalso
          have h0 := hu (w, ei) (AMap.mem_of_get hgw) ho
          have : ei.joinUID = uid := by simpa using hne
          exact hpre' (this ▸ h0)
        | some c => exact ⟨_, rfl⟩
  | ep w e =>
    have hpre' : e.pols.Nodup ∧ e.profs.Nodup ∧ (∀ id ∈ e.pols, (p.pols.get id).isSome) ∧
        (∀ id ∈ e.profs, (p.profs.get id).isSome) := hpre
    have hep := epForUpdate_ep p w e
    obtain ⟨⟨ei', ms⟩, hm⟩ := maybeSync_total (p := p) (w := w) (ei := epForUpdate p w e)
      (by rw [hep]; exact ⟨hpre'.2.2.1, hpre'.2.2.2, fun x h => needed_isSome hg.polRefs hg.profRefs h⟩)
      (by intro e' he'; rw [hep] at he'; cases he'; exact ⟨hpre'.1, hpre'.2.1⟩)
    exact ⟨_, by simp only [step, handleEpUpdate, hm]; rfl⟩
  | join w uid =>
    have hjo : ∀ e, (joinOld p w).ep = some e → ∃ kv ∈ p.eps, kv.2.ep = some e := by
      intro e he
      unfold joinOld at he
      cases hgw : p.eps.get w with
      | none => simp [hgw] at he
      | some ei => simp only [hgw] at he; exact ⟨(w, ei), AMap.mem_of_get hgw, he⟩
    obtain ⟨⟨ei', ms⟩, hm⟩ := maybeSync_total (p := p) (w := w)
      (ei := { joinOld p w with joinUID := uid, output := some p.nextCh, syncedPol := [], syncedProf := [], syncedIP := [] })
      (by
        cases he : (joinOld p w).ep with
        | none =>
          exact ⟨fun id h => by simp [he, epPols] at h, fun id h => by simp [he, epProfs] at h,
            fun x h => needed_isSome hg.polRefs hg.profRefs h⟩
        | some e =>
          obtain ⟨kv, hkv, hke⟩ := hjo e he
          have := refsKnown_of_good hg hkv
          rw [hke] at this
          simpa [he] using this)
      (by
        intro e he
        obtain ⟨kv, hkv, hke⟩ := hjo e he
        obtain ⟨a, b, _, _⟩ := hg.epRefs kv hkv e hke
        exact ⟨a, b⟩)
    exact ⟨_, by simp only [step, handleJoin, hm]; rfl⟩
  | pol id r =>
    have hpre' : ∀ x ∈ r.refs, (p.ipsets.get x).isSome := hpre
    have hk : ∀ kv ∈ p.eps, RefsKnown { p with pols := p.pols.set id r } kv.2.ep := by
      intro kv hkv
      have k0 := refsKnown_of_good hg hkv
      refine ⟨fun i hi => isSome_get_set _ _ _ _ (k0.pols i hi), k0.profs, fun x hx => ?_⟩
      rcases hx with ⟨i, _, r', hr', hx⟩ | ⟨i, _, r', hr', hx⟩
      · exact hg.profRefs i r' hr' x hx
      · have hr'' : (p.pols.set id r).get i = some r' := hr'
        rw [AMap.get_set] at hr''
        by_cases e' : i = id
        · simp only [e', if_true, Option.some.injEq] at hr''; subst hr''; exact hpre' x hx
        · simp only [e', if_false] at hr''; exact hg.polRefs i r' hr'' x hx
    obtain ⟨⟨eps', evs'⟩, he⟩ := each_total (f := refreshOne { p with pols := p.pols.set id r } true id (Msg.polUpd id r)) (eps := p.eps)
      (by
        intro kv hkv _
        unfold refreshOne
        split
        · obtain ⟨r1, h1⟩ := ipSync_total (p := { p with pols := p.pols.set id r }) (ei := kv.2) (hk kv hkv)
          simp only [h1]; exact ⟨_, rfl⟩
        · exact ⟨_, rfl⟩)
    exact ⟨_, by simp only [step, handlePolUpdate, he]; rfl⟩
  | prof id r =>
    have hpre' : ∀ x ∈ r.refs, (p.ipsets.get x).isSome := hpre
    have hk : ∀ kv ∈ p.eps, RefsKnown { p with profs := p.profs.set id r } kv.2.ep := by
      intro kv hkv
      have k0 := refsKnown_of_good hg hkv
      refine ⟨k0.pols, fun i hi => isSome_get_set _ _ _ _ (k0.profs i hi), fun x hx => ?_⟩
      rcases hx with ⟨i, _, r', hr', hx⟩ | ⟨i, _, r', hr', hx⟩
      · have hr'' : (p.profs.set id r).get i = some r' := hr'
        rw [AMap.get_set] at hr''
        by_cases e' : i = id
        · simp only [e', if_true, Option.some.injEq] at hr''; subst hr''; exact hpre' x hx
        · simp only [e', if_false] at hr''; exact hg.profRefs i r' hr'' x hx
      · exact hg.polRefs i r' hr' x hx
    obtain ⟨⟨eps', evs'⟩, he⟩ := each_total (f := refreshOne { p with profs := p.profs.set id r } false id (Msg.profUpd id r)) (eps := p.eps)
      (by
        intro kv hkv _
        unfold refreshOne
        split
        · obtain ⟨r1, h1⟩ := ipSync_total (p := { p with profs := p.profs.set id r }) (ei := kv.2) (hk kv hkv)
          simp only [h1]; exact ⟨_, rfl⟩
        · exact ⟨_, rfl⟩)
    exact ⟨_, by simp only [step, handleProfUpdate, he]; rfl⟩
  | ipset id ms =>
    simp only [step, handleIPUpdate]
    cases hget : p.ipsets.get id with
    | none => exact ⟨_, rfl⟩
    | some cur =>
      simp only
      obtain ⟨⟨eps', evs'⟩, he⟩ := each_total (f := ipUpdOne { p with ipsets := p.ipsets.set id (dedup ms) } id ms) (eps := p.eps)
        (by
          intro kv hkv _
          have k0 := refsKnown_of_good hg hkv
          obtain ⟨b, hb⟩ := referencesIP_total (p := { p with ipsets := p.ipsets.set id (dedup ms) }) (ei := kv.2) id
            ⟨k0.pols, k0.profs, fun x hx => isSome_get_set _ _ _ _ (k0.ipsets x hx)⟩
          unfold ipUpdOne
          simp only [hb]
          cases b <;> exact ⟨_, rfl⟩)
      simp only [he]; exact ⟨_, rfl⟩
  | ipDelta id a d =>
    have hpre' : (p.ipsets.get id).isSome := hpre
    simp only [step, handleIPDelta]
    cases hcur : p.ipsets.get id with
    | none => rw [hcur] at hpre'; cases hpre'
    | some cur =>
      have hd : deltaStore p id a d = some { p with ipsets := p.ipsets.set id (applyDelta cur a d) } := by
        unfold deltaStore; simp only [hcur]
      simp only [hd]
      obtain ⟨⟨eps', evs'⟩, he⟩ := each_total (f := ipDeltaOne { p with ipsets := p.ipsets.set id (applyDelta cur a d) } id a d) (eps := p.eps)
        (by
          intro kv hkv _
          have k0 := refsKnown_of_good hg hkv
          obtain ⟨b, hb⟩ := referencesIP_total (p := { p with ipsets := p.ipsets.set id (applyDelta cur a d) }) (ei := kv.2) id
            ⟨k0.pols, k0.profs, fun x hx => isSome_get_set _ _ _ _ (k0.ipsets x hx)⟩
          unfold ipDeltaOne
          simp only [hb]
          cases b <;> exact ⟨_, rfl⟩)
      simp only [he]; exact ⟨_, rfl⟩

/-! ### `NoStaleUID` is inductive -/

theorem uid_each {f : EpInfo → Option (EpInfo × List Msg)} (hf : KeepsAll f) {p : Proc} {cl : List Nat} (hch : ChanInv p cl)
    (hu : NoStaleUID p) {eps' : AMap EpInfo} {new : List Ev} (h : eachUpdateable f p.eps = some (eps', new)) :
    ∀ kv ∈ eps', kv.2.output = none → kv.2.joinUID = 0 := by
  intro kv' hkv' ho
  obtain ⟨ei, hm, ho', _, hj, _⟩ := each_lift hf hch.nodup h kv' hkv'
  rw [hj]; exact hu (kv'.1, ei) hm (by rw [← ho']; exact ho)

theorem uid_step {p p' : Proc} {cl : List Nat} {new : List Ev} {op : Op} (hch : ChanInv p cl) (hu : NoStaleUID p)
    (hs : step p op = some (p', new)) : NoStaleUID p' := by
  cases op with
  | inSync =>
    simp only [step, handleInSync, Option.some.injEq] at hs
    split at hs <;> (simp only [Prod.mk.injEq] at hs; obtain ⟨rfl, _⟩ := hs; exact hu)
  | sa id x => simp only [step, Option.some.injEq, Prod.mk.injEq] at hs; obtain ⟨rfl, _⟩ := hs; exact hu
  | saRm id => simp only [step, Option.some.injEq, Prod.mk.injEq] at hs; obtain ⟨rfl, _⟩ := hs; exact hu
  | ns id x => simp only [step, Option.some.injEq, Prod.mk.injEq] at hs; obtain ⟨rfl, _⟩ := hs; exact hu
  | nsRm id => simp only [step, Option.some.injEq, Prod.mk.injEq] at hs; obtain ⟨rfl, _⟩ := hs; exact hu
  | polRm id => simp only [step, Option.some.injEq, Prod.mk.injEq] at hs; obtain ⟨rfl, _⟩ := hs; exact hu
  | profRm id => simp only [step, Option.some.injEq, Prod.mk.injEq] at hs; obtain ⟨rfl, _⟩ := hs; exact hu
  | ipRm id => simp only [step, Option.some.injEq, Prod.mk.injEq] at hs; obtain ⟨rfl, _⟩ := hs; exact hu
  | pol id r =>
    simp only [step, handlePolUpdate] at hs
    split at hs
    · cases hs
    · next eps' evs' he =>
      simp only [Option.some.injEq, Prod.mk.injEq] at hs; obtain ⟨rfl, _⟩ := hs
      exact uid_each (refreshOne_keepsAll _ _ _ _) hch hu he
  | prof id r =>
    simp only [step, handleProfUpdate] at hs
    split at hs
    · cases hs
    · next eps' evs' he =>
      simp only [Option.some.injEq, Prod.mk.injEq] at hs; obtain ⟨rfl, _⟩ := hs
      exact uid_each (refreshOne_keepsAll _ _ _ _) hch hu he
  | ipset id ms =>
    simp only [step, handleIPUpdate] at hs
    cases hget : p.ipsets.get id with
    | none => simp only [hget, Option.some.injEq, Prod.mk.injEq] at hs; obtain ⟨rfl, _⟩ := hs; exact hu
    | some cur =>
      simp only [hget] at hs
      split at hs
      · cases hs
      · next eps' evs' he =>
        simp only [Option.some.injEq, Prod.mk.injEq] at hs; obtain ⟨rfl, _⟩ := hs
        exact uid_each (ipUpdOne_keepsAll _ _ _) hch hu he
  | ipDelta id a d =>
    simp only [step, handleIPDelta] at hs
    cases hd : deltaStore p id a d with
    | none => simp only [hd] at hs; cases hs
    | some p1 =>
      simp only [hd] at hs
      have hp1 := deltaStore_eps hd
      split at hs
      · cases hs
      · next eps' evs' he =>
        simp only [Option.some.injEq, Prod.mk.injEq] at hs; obtain ⟨rfl, _⟩ := hs
        rw [hp1.1] at he
        exact uid_each (ipDeltaOne_keepsAll _ _ _ _) hch hu he
  | ep w e =>
    simp only [step, handleEpUpdate] at hs
    cases hm : maybeSync p w (epForUpdate p w e) with
    | none => simp only [hm] at hs; cases hs
    | some r =>
      obtain ⟨ei', ms⟩ := r
      simp only [hm, Option.some.injEq, Prod.mk.injEq] at hs; obtain ⟨rfl, _⟩ := hs
      have hout := maybeSync_output hm
      intro kv' hkv' ho
      rcases mem_set_iff hkv' with rfl | ⟨hkv, _⟩
      · rw [hout.2.2]
        rw [hout.1] at ho
        unfold epForUpdate at ho ⊢
        cases hgw : p.eps.get w with
        | none => rfl
        | some ei => simp only [hgw] at ho ⊢; exact hu (w, ei) (AMap.mem_of_get hgw) ho
      · exact hu kv' hkv ho
  | epRm w =>
    simp only [step, handleEpRemove] at hs
    cases hgw : p.eps.get w with
    | none => simp only [hgw] at hs; cases hs
    | some ei =>
      simp only [hgw, Option.some.injEq, Prod.mk.injEq] at hs; obtain ⟨rfl, _⟩ := hs
      exact fun kv' hkv' ho => hu kv' (AMap.mem_del hkv').1 ho
  | join w uid =>
    simp only [step, handleJoin] at hs
    cases hm : maybeSync p w { joinOld p w with joinUID := uid, output := some p.nextCh, syncedPol := [], syncedProf := [], syncedIP := [] } with
    | none => simp only [hm] at hs; cases hs
    | some r =>
      obtain ⟨ei', ms⟩ := r
      simp only [hm, Option.some.injEq, Prod.mk.injEq] at hs; obtain ⟨rfl, _⟩ := hs
      have hout := maybeSync_output hm
      intro kv' hkv' ho
      rcases mem_set_iff hkv' with rfl | ⟨hkv, _⟩
      · rw [hout.1] at ho; cases ho
      · exact hu kv' hkv ho
  | leave w uid =>
    simp only [step, handleLeave] at hs
    cases hgw : p.eps.get w with
    | none => simp only [hgw, Option.some.injEq, Prod.mk.injEq] at hs; obtain ⟨rfl, _⟩ := hs; exact hu
    | some ei =>
      simp only [hgw] at hs
      by_cases hne : (ei.joinUID != uid) = true
      · simp only [hne, if_true, Option.some.injEq, Prod.mk.injEq] at hs
        obtain ⟨rfl, _⟩ := hs
        by_cases hcc : cleanupCond ei = true
        · simp only [hcc, if_true]; exact fun kv' hkv' ho => hu kv' (AMap.mem_del hkv').1 ho
        · simp only [hcc]; exact hu
      · simp only [hne] at hs
        cases ho : ei.output with
        | none => simp only [ho] at hs; cases hs
        | some c =>
          simp only [ho, Option.some.injEq, Prod.mk.injEq] at hs
          obtain ⟨rfl, _⟩ := hs
          by_cases hcd : cleanupCond { ei with output := none, joinUID := 0 } = true
          · simp only [hcd, if_true]; exact fun kv' hkv' ho => hu kv' (AMap.mem_del hkv').1 ho
          · simp only [hcd]
            intro kv' hkv' ho'
            rcases mem_set_iff hkv' with rfl | ⟨hkv, _⟩
            · rfl
            · exact hu kv' hkv ho'

/-! ### contract-respecting histories are `Valid`: the Processor never panics on them -/

theorem respects_valid {p : Proc} {ops : List Op} {pre : List Ev} (hi : Inv p pre) (hu : NoStaleUID p)
    (hr : Respects p ops) : ∃ p' evs, Valid p ops p' evs := by
  induction ops generalizing p pre with
  | nil => exact ⟨p, [], Valid.nil p⟩
  | cons op ops ih =>
    cases hr with
    | cons hpre hnext =>
      obtain ⟨⟨p1, new⟩, hs⟩ := step_total hi hu hpre
      obtain ⟨cl, hch⟩ := hi.chan
      obtain ⟨p2, evs2, hv⟩ := ih (step_inv hi hpre hs) (uid_step hch hu hs) (hnext p1 new hs)
      exact ⟨p2, new ++ evs2, Valid.cons hpre hs hv⟩

theorem valid_run {p p' : Proc} {ops : List Op} {evs : List Ev} (hv : Valid p ops p' evs) : run p ops = some (p', evs) := by
  induction hv with
  | nil p => rfl
  | cons _ hs _ ih => simp only [run, hs, ih]

end CalicoVerif.C31
