import CalicoVerif.Model.C25
/-!
C25 — specification-side definitions (downstream view, connection view, the
system driven by an arbitrary interleaving of upstream and downstream ops) and
the helper lemmas for `Props/C25.lean`.
-/
namespace CalicoVerif.C25

/-- What a consumer stores for a key: (value, revision). -/
abbrev V := Nat × Nat
/-- A key/value view (downstream's map, or a connection's view). -/
abbrev View := Key → Option V

/-- The entry an update leaves for its key: `none` for a deletion. -/
def Upd.entry (u : Upd) : Option V := u.val.map (fun v => (v, u.rev))

/-- Apply one update to a view (set or delete). -/
def applyUpd (m : View) (u : Upd) : View := fun k => if u.key = k then u.entry else m k

/-- The updates of a queue, in order (statuses dropped). -/
def ups (p : List Item) : List Upd := p.filterMap (fun | .up u => some u | .st _ => none)

/-- Pointwise effect of applying a list of updates in order on the entry of key `k`. -/
def effU (k : Key) (a : Option V) (us : List Upd) : Option V :=
  us.foldl (fun acc u => if u.key = k then u.entry else acc) a

/-! ### the system: buffer + downstream consumer + what upstream has said -/

/-- Interleaving alphabet: upstream calls and single-batch pulls (any batch size). -/
inductive Op where
  | upd (us : List Upd)
  | status (s : Nat) (order : List Key)
  | restart
  | pull (n : Nat)
deriving Repr

structure Sys where
  buf : Buf
  /-- downstream consumer's map: result of all deliveries so far -/
  down : View
  /-- the latest connection's view: all updates since the last restart -/
  view : View
  /-- the latest connection has reported InSync -/
  insync : Bool
  /-- every upstream deletion so far was for a key present in the connection's view -/
  wf : Bool
  /-- every delivered update, with "downstream held the key just before the delivery" -/
  log : List (Upd × Bool)

def Sys.init : Sys :=
  { buf := Buf.new, down := fun _ => none, view := fun _ => none, insync := false, wf := true, log := [] }

/-- The consumer processing one batch in order (`dropLockAndSendBatch` → sink). -/
def deliver (down : View) (log : List (Upd × Bool)) : List Item → View × List (Upd × Bool)
  | [] => (down, log)
  | .st _ :: r => deliver down log r
  | .up u :: r => deliver (applyUpd down u) (log ++ [(u, (down u.key).isSome)]) r

/-- One iteration of `OnUpdates` together with upstream's bookkeeping (the
connection's view, and whether upstream is still well-formed: deletions only for
keys the connection's view holds). -/
def Sys.upd1 (s : Sys) (u : Upd) : Sys :=
  { s with buf := onUpdate s.buf u, view := applyUpd s.view u,
           wf := s.wf && (u.val.isSome || (s.view u.key).isSome) }

def Sys.step (s : Sys) : Op → Sys
  | .upd us => us.foldl Sys.upd1 s
  | .status st order => { s with buf := onStatus s.buf st order, insync := s.insync || st == inSync }
  | .restart => { s with buf := onRestart s.buf, view := fun _ => none, insync := false }
  | .pull n =>
    let r := pullNextBatch s.buf n
    let d := deliver s.down s.log r.2
    { s with buf := r.1, down := d.1, log := d.2 }

def Sys.run (s : Sys) (ops : List Op) : Sys := ops.foldl Sys.step s

/-! ### list lemmas -/

theorem ups_append (p q : List Item) : ups (p ++ q) = ups p ++ ups q := by
  simp [ups, List.filterMap_append]

theorem ups_removeKey (p : List Item) (k : Key) :
    ups (removeKey p k) = (ups p).filter (fun u => u.key != k) := by
  induction p with
  | nil => rfl
  | cons i p ih =>
    cases i with
    | st s => simpa [ups, removeKey, Item.hasKey] using ih
    | up u =>
      by_cases h : u.key = k
      · simpa [ups, removeKey, Item.hasKey, h] using ih
      · simpa [ups, removeKey, Item.hasKey, h] using ih

theorem ups_replaceKey (p : List Item) (u : Upd) :
    ups (replaceKey p u) = (ups p).map (fun x => if x.key = u.key then u else x) := by
  induction p with
  | nil => rfl
  | cons i p ih =>
    cases i with
    | st s => simpa [ups, replaceKey, Item.hasKey] using ih
    | up x =>
      by_cases h : x.key = u.key
      · simpa [ups, replaceKey, Item.hasKey, h] using ih
      · simpa [ups, replaceKey, Item.hasKey, h] using ih

theorem isPending_iff (p : List Item) (k : Key) :
    isPending p k = true ↔ ∃ u ∈ ups p, u.key = k := by
  induction p with
  | nil => simp [isPending, ups]
  | cons i p ih =>
    cases i with
    | st s => simpa [isPending, ups, Item.hasKey] using ih
    | up x =>
      simp only [isPending, List.any_cons, Item.hasKey, Bool.or_eq_true, beq_iff_eq] at ih ⊢
      simp only [ups, List.filterMap_cons, List.mem_cons, exists_eq_or_imp] at ih ⊢
      rw [ih]

theorem isPending_false_iff (p : List Item) (k : Key) :
    isPending p k = false ↔ ∀ u ∈ ups p, u.key ≠ k := by
  rw [← Bool.not_eq_true, isPending_iff]
  simp

theorem ups_take_drop (p : List Item) (n : Nat) : ups p = ups (p.take n) ++ ups (p.drop n) := by
  rw [← ups_append, List.take_append_drop]

/-! ### effU lemmas -/

theorem effU_append (k : Key) (a : Option V) (p q : List Upd) :
    effU k a (p ++ q) = effU k (effU k a p) q := by
  simp [effU, List.foldl_append]

theorem effU_not_mem (k : Key) (a : Option V) (us : List Upd) (h : ∀ u ∈ us, u.key ≠ k) :
    effU k a us = a := by
  induction us generalizing a with
  | nil => rfl
  | cons u us ih =>
    have hu : u.key ≠ k := h u (List.mem_cons_self ..)
    simp only [effU, List.foldl_cons, hu, if_false]
    exact ih a (fun x hx => h x (List.mem_cons_of_mem _ hx))

theorem effU_filter (k' k : Key) (a : Option V) (us : List Upd) :
    effU k' a (us.filter (fun u => u.key != k)) = if k' = k then a else effU k' a us := by
  induction us generalizing a with
  | nil => simp [effU]
  | cons u us ih =>
    by_cases h : u.key = k
    · simp only [List.filter_cons, h, bne_self_eq_false, Bool.false_eq_true, if_false]
      rw [ih]
      by_cases hk : k' = k
      · simp [hk]
      · have : ¬ k = k' := fun e => hk e.symm
        simp [hk, effU, h, this]
    · have hb : (u.key != k) = true := by simpa using h
      simp only [List.filter_cons, hb, if_true]
      simp only [effU, List.foldl_cons] at ih ⊢
      rw [ih]
      by_cases hk : k' = k
      · have : ¬ u.key = k' := by rw [hk]; exact h
        simp [hk, h]
      · simp [hk]

theorem effU_replace (k' : Key) (a : Option V) (us : List Upd) (u : Upd) :
    effU k' a (us.map (fun x => if x.key = u.key then u else x)) =
      if k' = u.key then (if ∃ x ∈ us, x.key = u.key then u.entry else a) else effU k' a us := by
  induction us generalizing a with
  | nil => simp [effU]
  | cons x us ih =>
    simp only [List.map_cons, effU, List.foldl_cons] at ih ⊢
    rw [ih]
    by_cases hk : k' = u.key
    · subst hk
      by_cases hx : x.key = u.key
      · simp [hx]
      · simp [hx]
    · by_cases hx : x.key = u.key
      · have h1 : ¬ u.key = k' := fun e => hk e.symm
        simp [hk, hx, h1]
      · simp [hk, hx]

/-- The view after a list of updates, pointwise. -/
theorem foldl_applyUpd (m : View) (us : List Upd) (k : Key) :
    (us.foldl applyUpd m) k = effU k (m k) us := by
  induction us generalizing m with
  | nil => rfl
  | cons u us ih =>
    simp only [List.foldl_cons, effU]
    rw [ih]
    simp [applyUpd, effU]

/-! ### set lemmas -/

theorem mem_setAdd (l : List Key) (k x : Key) : x ∈ setAdd l k ↔ x ∈ l ∨ x = k := by
  unfold setAdd
  split
  · rename_i h
    have : k ∈ l := by simpa using h
    constructor
    · exact Or.inl
    · rintro (h | rfl)
      · exact h
      · exact this
  · simp

theorem mem_setDiscard (l : List Key) (k x : Key) : x ∈ setDiscard l k ↔ x ∈ l ∧ x ≠ k := by
  simp [setDiscard]

end CalicoVerif.C25
