import CalicoVerif.Proofs.C03
/-! C03: what `sendEndpointUpdate` / `tierInfoToProtoTierInfo` emit, as filters of the sorter's output. -/
namespace CalicoVerif.C03
open CalicoVerif.C02

/-- `filterTiers` = per tier keep the matching policies (in order), drop tiers without any. -/
theorem filterTiers_eq (m : List (PolicyKey × EpKey)) (e : EpKey) (ts : List TierInfo) :
    filterTiers m e ts = ts.filterMap (fun t =>
      let ps := t.policies.filter (fun kv => decide ((kv.key, e) ∈ m))
      if ps.isEmpty then none
      else some { name := t.name, order := t.order, defaultAction := t.defaultAction, valid := true, policies := ps }) := by
  induction ts with
  | nil => rfl
  | cons t ts ih =>
    simp only [filterTiers, List.filterMap_cons]
    by_cases h : (t.policies.filter (fun kv => decide ((kv.key, e) ∈ m))).isEmpty = true
    · simp only [h, if_true]; exact ih
    · simp only [h, Bool.false_eq_true, if_false, ih]

/-- Only matching policies are emitted, every tier emitted is non-empty, and nothing that matches is lost. -/
theorem filterTiers_spec (m : List (PolicyKey × EpKey)) (e : EpKey) (ts : List TierInfo) :
    (∀ t' ∈ filterTiers m e ts, t'.policies ≠ [] ∧ (∀ kv ∈ t'.policies, (kv.key, e) ∈ m) ∧
      ∃ t ∈ ts, t'.name = t.name ∧ t'.order = t.order ∧ t'.defaultAction = t.defaultAction ∧
        t'.policies = t.policies.filter (fun kv => decide ((kv.key, e) ∈ m))) ∧
    (∀ t ∈ ts, ∀ kv ∈ t.policies, (kv.key, e) ∈ m → ∃ t' ∈ filterTiers m e ts, t'.name = t.name ∧ kv ∈ t'.policies) ∧
    ((filterTiers m e ts).map (·.name)).Sublist (ts.map (·.name)) := by
  rw [filterTiers_eq]
  refine ⟨?_, ?_, ?_⟩
  · intro t' ht'
    simp only [List.mem_filterMap] at ht'
    obtain ⟨t, ht, hx⟩ := ht'
    by_cases h : (t.policies.filter (fun kv => decide ((kv.key, e) ∈ m))).isEmpty = true
    · simp [h] at hx
    · simp only [h, Bool.false_eq_true, if_false, Option.some.injEq] at hx
      subst hx
      refine ⟨?_, ?_, t, ht, rfl, rfl, rfl, rfl⟩
      · intro hn; simp only at hn; rw [hn] at h; simp at h
      · intro kv hkv
        simp only [List.mem_filter, decide_eq_true_eq] at hkv
        exact hkv.2
  · intro t ht kv hkv hm
    have hne : (t.policies.filter (fun kv => decide ((kv.key, e) ∈ m))).isEmpty = false := by
      cases hx : (t.policies.filter (fun kv => decide ((kv.key, e) ∈ m))) with
      | nil =>
        have : kv ∈ t.policies.filter (fun kv => decide ((kv.key, e) ∈ m)) := by
          simp [List.mem_filter, hkv, hm]
        rw [hx] at this; cases this
      | cons _ _ => rfl
    refine ⟨{ name := t.name, order := t.order, defaultAction := t.defaultAction, valid := true,
              policies := t.policies.filter (fun kv => decide ((kv.key, e) ∈ m)) },
      List.mem_filterMap.2 ⟨t, ht, by simp only [hne, Bool.false_eq_true, if_false]⟩, rfl, ?_⟩
    simp [List.mem_filter, hkv, hm]
  · induction ts with
    | nil => simp
    | cons t ts ih =>
      simp only [List.filterMap_cons, List.map_cons]
      by_cases h : (t.policies.filter (fun kv => decide ((kv.key, e) ∈ m))).isEmpty = true
      · simp only [h, if_true]; exact List.Sublist.cons _ ih
      · simp only [h, Bool.false_eq_true, if_false, List.map_cons]; exact List.Sublist.cons₂ _ ih

/-! ### tierInfoToProto: ingress / egress split by policy type -/

def isNormal (p : PolKV) : Bool := !p.val.doNotTrack && !p.val.preDNAT
def isUntracked (p : PolKV) : Bool := p.val.doNotTrack
def isPreDNAT (p : PolKV) : Bool := !p.val.doNotTrack && p.val.preDNAT
def isForward (p : PolKV) : Bool := !p.val.doNotTrack && !p.val.preDNAT && p.val.applyOnForward

def keysWhere (ps : List PolKV) (f : PolKV → Bool) : List PolicyKey := (ps.filter f).map (·.key)

theorem splitPolicies_spec (ps : List PolKV) (s : Split) :
    let r := splitPolicies ps s
    r.normal = { s.normal with ingress := s.normal.ingress ++ keysWhere ps (fun p => isNormal p && p.val.ingress),
                               egress := s.normal.egress ++ keysWhere ps (fun p => isNormal p && p.val.egress) } ∧
    r.untracked = { s.untracked with ingress := s.untracked.ingress ++ keysWhere ps (fun p => isUntracked p && p.val.ingress),
                                     egress := s.untracked.egress ++ keysWhere ps (fun p => isUntracked p && p.val.egress) } ∧
    r.preDNAT = { s.preDNAT with ingress := s.preDNAT.ingress ++ keysWhere ps (fun p => isPreDNAT p && p.val.ingress) } ∧
    r.forward = { s.forward with ingress := s.forward.ingress ++ keysWhere ps (fun p => isForward p && p.val.ingress),
                                 egress := s.forward.egress ++ keysWhere ps (fun p => isForward p && p.val.egress) } := by
  induction ps generalizing s with
  | nil => simp [splitPolicies, keysWhere]
  | cons p t ih =>
    obtain ⟨k, v⟩ := p
    simp only [splitPolicies]
    cases hu : v.doNotTrack <;> cases hd : v.preDNAT <;> cases hf : v.applyOnForward <;>
      cases hi : v.ingress <;> cases he : v.egress <;>
      simp [hu, hd, hf, hi, he, ih, addPolicyToTierInfo, keysWhere, isNormal, isUntracked, isPreDNAT, isForward, List.filter_cons]

def optTier (t : ProtoTier) : List ProtoTier := if t.nonEmpty then [t] else []

/-- `tierInfoToProtoTierInfo`: per tier, the ingress list holds (in order) exactly the policies of the
category that govern ingress, the egress list those that govern egress (pre-DNAT: ingress only);
a tier appears in a category iff one of its two lists is non-empty. -/
theorem tierInfoToProto_spec (ts : List TierInfo) :
    (tierInfoToProto ts).normal = ts.flatMap (fun t => optTier ⟨t.name, t.defaultAction,
      keysWhere t.policies (fun p => isNormal p && p.val.ingress), keysWhere t.policies (fun p => isNormal p && p.val.egress)⟩) ∧
    (tierInfoToProto ts).untracked = ts.flatMap (fun t => optTier ⟨t.name, "Pass",
      keysWhere t.policies (fun p => isUntracked p && p.val.ingress), keysWhere t.policies (fun p => isUntracked p && p.val.egress)⟩) ∧
    (tierInfoToProto ts).preDNAT = ts.flatMap (fun t => optTier ⟨t.name, "Pass",
      keysWhere t.policies (fun p => isPreDNAT p && p.val.ingress), []⟩) ∧
    (tierInfoToProto ts).forward = ts.flatMap (fun t => optTier ⟨t.name, t.defaultAction,
      keysWhere t.policies (fun p => isForward p && p.val.ingress), keysWhere t.policies (fun p => isForward p && p.val.egress)⟩) := by
  induction ts with
  | nil => simp [tierInfoToProto]
  | cons t ts ih =>
    obtain ⟨i1, i2, i3, i4⟩ := ih
    have := splitPolicies_spec t.policies
      { normal := ⟨t.name, t.defaultAction, [], []⟩, untracked := ⟨t.name, "Pass", [], []⟩,
        preDNAT := ⟨t.name, "Pass", [], []⟩, forward := ⟨t.name, t.defaultAction, [], []⟩ }
    obtain ⟨s1, s2, s3, s4⟩ := this
    simp only [tierInfoToProto, List.flatMap_cons, i1, i2, i3, i4, s1, s2, s3, s4, List.nil_append, optTier]
    simp

end CalicoVerif.C03
