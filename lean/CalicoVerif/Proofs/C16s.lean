import CalicoVerif.Proofs.C16r
set_option linter.unusedSimpArgs false
namespace CalicoVerif.C16

theorem foldl_inv_mem {α β : Type} (P : α → Prop) (f : α → β → α) :
    ∀ (l : List β) (a : α), (∀ a, ∀ b ∈ l, P a → P (f a b)) → P a → P (l.foldl f a) := by
  intro l; induction l with
  | nil => intro a _ ha; exact ha
  | cons x xs ih =>
    intro a h ha
    exact ih _ (fun a b hb => h a b (List.mem_cons_of_mem _ hb)) (h a x List.mem_cons_self ha)

/-- What `ipset list <name>` tells Felix, relative to the kernel. -/
def LRSpec (K : Kernel) (n : String) : LR → Prop
  | .notFound => K.get n = none
  | .failNoOutput => ∃ k, K.get n = some k
  | .listed m ms failed => ∃ k, K.get n = some k ∧ m = parseMeta k ∧ (failed = false → ms = k.members)

theorem listSet_spec (w : W) (n : String) :
    (w.listSet n).1.K = w.K ∧ (w.listSet n).1.F = w.F ∧ (w.listSet n).1.cfg = w.cfg ∧
    LRSpec w.K n (w.listSet n).2 := by
  unfold W.listSet
  split
  · rename_i hnone; exact ⟨rfl, rfl, rfl, hnone⟩
  · rename_i k hk
    split
    · exact ⟨rfl, rfl, rfl, k, hk⟩
    · dsimp only
      split
      · exact ⟨rfl, rfl, rfl, k, hk, rfl, fun _ => rfl⟩
      · split
        · exact ⟨rfl, rfl, rfl, k, hk⟩
        · exact ⟨rfl, rfl, rfl, k, hk, rfl, fun h => by simp at h⟩

theorem applyList_fixed (c : Cfg) (F : Felix) (m : String) (lr : LR) : Fixed F (F.applyList c m lr).1 := by
  cases lr with
  | notFound => exact onMissing_fixed F m
  | failNoOutput => exact ⟨rfl, rfl, rfl, rfl⟩
  | listed mt ms failed =>
    simp only [Felix.applyList]
    split
    · exact ⟨rfl, rfl, rfl, rfl⟩
    · exact Fixed.trans (a := F) (b := { F with members := F.members.set m { F.tracker m with dp := ms.eraseDups } })
        ⟨rfl, rfl, rfl, rfl⟩ (Fixed.trans (updateDirtiness_fixed _ m) ⟨rfl, rfl, rfl, rfl⟩)

theorem applyList_SN (c : Cfg) (F : Felix) {m n : String} (h : n ≠ m) (lr : LR) :
    SN (F.applyList c m lr).1 n = SN F n := by
  cases lr with
  | notFound => exact onMissing_SN F h
  | failNoOutput => simp only [Felix.applyList, SN, Map.get_set, h, if_false]; rfl
  | listed mt ms failed =>
    simp only [Felix.applyList]
    split
    · simp only [SN, Map.get_set, h, if_false]
    · have := updateDirtiness_SN ({ F with members := F.members.set m { F.tracker m with dp := ms.eraseDups } }) h
      simp only [SN, Prod.mk.injEq] at this ⊢
      refine ⟨?_, ?_, ?_⟩
      · simp only [Map.get_set, h, if_false]; rw [this.1]
      · rw [this.2.1]; simp [Map.get_set, h]
      · rw [this.2.2]

theorem meta_listFailed_false (k : KSet) : ({ parseMeta k with listFailed := false } : Meta) = parseMeta k := by
  unfold parseMeta; split <;> rfl

/-- Processing the name itself, without error: Felix's view of it becomes the kernel's. -/
theorem applyList_self (c : Cfg) (K : Kernel) (F : Felix) {n : String} {t : MT} (lr : LR)
    (hspec : LRSpec K n lr) (hnt : c.isTemp n = false) (ha : F.allMeta.has n = true)
    (ht : F.members.get n = some t) (hneed : F.needed n = true) (hok : (F.applyList c n lr).2 = false) :
    let F' := (F.applyList c n lr).1
    (match K.get n with
     | none => F'.dp.get n = none ∧ ∃ t', F'.members.get n = some t' ∧ t'.dp = [] ∧ t'.des = t.des
     | some k => F'.dp.get n = some (parseMeta k) ∧ ∃ t', F'.members.get n = some t' ∧ setEq t'.dp k.members ∧ t'.des = t.des) ∧
    FreshDirty F' n := by
  cases lr with
  | notFound =>
    simp only [LRSpec] at hspec
    simp only [Felix.applyList, hspec]
    obtain ⟨h1, h2, h3⟩ := onMissing_self F ha ht hneed
    exact ⟨⟨h1, _, h2, rfl, rfl⟩, h3⟩
  | failNoOutput => simp [Felix.applyList] at hok
  | listed mt ms failed =>
    simp only [Felix.applyList] at hok
    subst hok
    obtain ⟨k, hk, hmt, hms⟩ := hspec
    have hms := hms rfl
    subst hmt; subst hms
    simp only [Felix.applyList, hnt, Bool.false_eq_true, if_false, hk]
    have htr : F.tracker n = t := by simp [Felix.tracker, ht]
    rw [htr]
    obtain ⟨hfresh, hmem, hdp⟩ := updateDirtiness_fresh
      ({ F with members := F.members.set n { t with dp := k.members.eraseDups } } : Felix) n hneed
    refine ⟨⟨?_, ?_⟩, ?_⟩
    · simp [Map.get_set, meta_listFailed_false]
    · refine ⟨{ t with dp := k.members.eraseDups }, ?_, ?_, rfl⟩
      · show (Felix.updateDirtiness _ n).members.get n = _
        rw [hmem]; simp [Map.get_set]
      · intro x; simp [List.mem_eraseDups]
    · intro hnd t' ht'
      exact hfresh hnd t' ht'

end CalicoVerif.C16
