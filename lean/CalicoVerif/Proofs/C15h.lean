import CalicoVerif.Proofs.C15g
set_option linter.unusedSimpArgs false
namespace CalicoVerif.C15

theorem mem_sAdd {s : List String} {x y : String} : y ∈ sAdd s x ↔ y ∈ s ∨ y = x := by
  unfold sAdd
  split
  · constructor
    · exact Or.inl
    · rintro (h | rfl)
      · exact h
      · assumption
  · simp

theorem sAdd_nodup {s : List String} (h : s.Nodup) (x : String) : (sAdd s x).Nodup := by
  unfold sAdd
  split
  · exact h
  · rename_i hx
    rw [List.nodup_append]
    exact ⟨h, by simp, by intro a ha b hb; simp at hb; subst hb; rintro rfl; exact hx ha⟩

/-- What the two scans of `loadDataplaneState` may change: only the two dirty sets, and only by adding. -/
structure ScanRel (t t' : T) : Prop where
  prefixes : t'.prefixes = t.prefixes
  insertMode : t'.insertMode = t.insertMode
  ins : t'.ins = t.ins
  app : t'.app = t.app
  chains : t'.chains = t.chains
  refc : t'.refc = t.refc
  dpHashes : t'.dpHashes = t.dpHashes
  fullRules : t'.fullRules = t.fullRules
  mono : ∀ x, x ∈ t.dirty → x ∈ t'.dirty
  iaOurs : ∀ x, t.ours x = true → (x ∈ t'.dirtyIA ↔ x ∈ t.dirtyIA)
  nodup : t.dirty.Nodup → t'.dirty.Nodup
  nodupIA : t.dirtyIA.Nodup → t'.dirtyIA.Nodup
  dirtyNew : ∀ x, x ∈ t'.dirty → x ∈ t.dirty ∨ t.ours x = true

theorem ScanRel.refl (t : T) : ScanRel t t :=
  ⟨rfl, rfl, rfl, rfl, rfl, rfl, rfl, rfl, fun _ h => h, fun _ _ => Iff.rfl, fun h => h, fun h => h, fun _ h => Or.inl h⟩

theorem ScanRel.ours {t t' : T} (h : ScanRel t t') (x : String) : t'.ours x = t.ours x := by
  unfold T.ours; rw [h.prefixes]

theorem ScanRel.trans {a b c : T} (h1 : ScanRel a b) (h2 : ScanRel b c) : ScanRel a c :=
  ⟨h2.prefixes.trans h1.prefixes, h2.insertMode.trans h1.insertMode, h2.ins.trans h1.ins, h2.app.trans h1.app,
   h2.chains.trans h1.chains, h2.refc.trans h1.refc, h2.dpHashes.trans h1.dpHashes, h2.fullRules.trans h1.fullRules,
   fun x hx => h2.mono x (h1.mono x hx),
   fun x hx => (h2.iaOurs x (by rw [h1.ours]; exact hx)).trans (h1.iaOurs x hx),
   fun h => h2.nodup (h1.nodup h), fun h => h2.nodupIA (h1.nodupIA h),
   fun x hx => by
     rcases h2.dirtyNew x hx with h | h
     · exact h1.dirtyNew x h
     · exact Or.inr (by rw [← h1.ours]; exact h)⟩

theorem knownStep_rel (dp : Map (List String)) (t : T) (m : String) : ScanRel t (t.knownStep dp m) := by
  unfold T.knownStep
  split
  · exact ScanRel.refl t
  · split
    · rename_i hno
      have hadd : ScanRel t { t with dirtyIA := sAdd t.dirtyIA m } := by
        refine ⟨rfl, rfl, rfl, rfl, rfl, rfl, rfl, rfl, fun _ h => h, ?_, fun h => h, fun h => sAdd_nodup h m, fun _ h => Or.inl h⟩
        intro x hx
        simp only [mem_sAdd]
        constructor
        · rintro (h | rfl)
          · exact h
          · rw [hx] at hno; simp at hno
        · exact Or.inl
      split
      · split
        · exact hadd
        · exact ScanRel.refl t
      · split
        · exact hadd
        · exact ScanRel.refl t
    · rename_i hours
      split
      · refine ⟨rfl, rfl, rfl, rfl, rfl, rfl, rfl, rfl, fun x h => mem_sAdd.2 (Or.inl h), fun _ _ => Iff.rfl,
          fun h => sAdd_nodup h m, fun h => h, ?_⟩
        intro x hx
        rcases mem_sAdd.1 hx with h | rfl
        · exact Or.inl h
        · exact Or.inr (by simpa using hours)
      · exact ScanRel.refl t

theorem unknownStep_rel (dp : Map (List String)) (t : T) (m : String) : ScanRel t (t.unknownStep dp m) := by
  unfold T.unknownStep
  split
  · exact ScanRel.refl t
  · split
    · exact ScanRel.refl t
    · split
      · rename_i hno
        split
        · refine ⟨rfl, rfl, rfl, rfl, rfl, rfl, rfl, rfl, fun _ h => h, ?_, fun h => h, fun h => sAdd_nodup h m, fun _ h => Or.inl h⟩
          intro x hx
          simp only [mem_sAdd]
          constructor
          · rintro (h | rfl)
            · exact h
            · rw [hx] at hno; simp at hno
          · exact Or.inl
        · exact ScanRel.refl t
      · rename_i hours
        refine ⟨rfl, rfl, rfl, rfl, rfl, rfl, rfl, rfl, fun x h => mem_sAdd.2 (Or.inl h), fun _ _ => Iff.rfl,
          fun h => sAdd_nodup h m, fun h => h, ?_⟩
        intro x hx
        rcases mem_sAdd.1 hx with h | rfl
        · exact Or.inl h
        · exact Or.inr (by simpa using hours)

theorem fold_rel (step : T → String → T) (hstep : ∀ t m, ScanRel t (step t m)) :
    ∀ (L : List String) (t : T), ScanRel t (L.foldl step t) := by
  intro L
  induction L with
  | nil => intro t; exact ScanRel.refl t
  | cons m L ih => intro t; exact ScanRel.trans (hstep t m) (ih (step t m))

/-- The known-chain scan, seen from an owned chain `c` that it visits and leaves clean. -/
theorem known_fold_clean (dp : Map (List String)) (c : String) : ∀ (L : List String) (t : T),
    t.ours c = true → c ∈ L → c ∉ (L.foldl (T.knownStep dp) t).dirty → c ∉ t.dirtyIA →
    dp.get c = some ((t.dpHashes.get c).getD []) := by
  intro L
  induction L with
  | nil => intro t _ hc; simp at hc
  | cons m L ih =>
    intro t ho hc hnd hnia
    simp only [List.foldl] at hnd
    have hrel := knownStep_rel dp t m
    have hrest := fold_rel (T.knownStep dp) (knownStep_rel dp) L (t.knownStep dp m)
    by_cases hmc : m = c
    · subst hmc
      -- c is not dirty after its own step
      have hnd1 : m ∉ (t.knownStep dp m).dirty := fun h => hnd (hrest.mono m h)
      unfold T.knownStep at hnd1
      have hnd0 : m ∉ t.dirty := fun h => hnd (hrest.mono m (hrel.mono m h))
      have hcond : (t.dirty.contains m || t.dirtyIA.contains m) = false := by simp [hnd0, hnia]
      simp only [hcond, Bool.false_eq_true, if_false, ho, Bool.not_true] at hnd1
      by_cases hq : (dp.get m != some ((t.dpHashes.get m).getD [])) = true
      · simp only [hq, if_true] at hnd1
        exact absurd (mem_sAdd.2 (Or.inr rfl)) hnd1
      · simpa using hq
    · have hc' : c ∈ L := by
        rcases List.mem_cons.1 hc with rfl | h
        · exact absurd rfl hmc
        · exact h
      have := ih (t.knownStep dp m) (by rw [hrel.ours]; exact ho) hc' hnd
        (fun h => hnia ((hrel.iaOurs c ho).1 h))
      rw [hrel.dpHashes] at this; exact this

/-- The dataplane scan, seen from an owned chain `c` present in the dataplane that it leaves clean. -/
theorem unknown_fold_clean (dp : Map (List String)) (c : String) : ∀ (L : List String) (t : T),
    t.ours c = true → c ∈ L → c ∉ (L.foldl (T.unknownStep dp) t).dirty → c ∉ t.dirtyIA →
    t.dpHashes.has c = true := by
  intro L
  induction L with
  | nil => intro t _ hc; simp at hc
  | cons m L ih =>
    intro t ho hc hnd hnia
    simp only [List.foldl] at hnd
    have hrel := unknownStep_rel dp t m
    have hrest := fold_rel (T.unknownStep dp) (unknownStep_rel dp) L (t.unknownStep dp m)
    by_cases hmc : m = c
    · subst hmc
      have hnd1 : m ∉ (t.unknownStep dp m).dirty := fun h => hnd (hrest.mono m h)
      unfold T.unknownStep at hnd1
      have hnd0 : m ∉ t.dirty := fun h => hnd (hrest.mono m (hrel.mono m h))
      have hcond : (t.dirty.contains m || t.dirtyIA.contains m) = false := by simp [hnd0, hnia]
      simp only [hcond, Bool.false_eq_true, if_false, ho, Bool.not_true] at hnd1
      by_cases hq : t.dpHashes.has m = true
      · exact hq
      · simp only [hq, if_false] at hnd1
        exact absurd (mem_sAdd.2 (Or.inr rfl)) hnd1
    · have hc' : c ∈ L := by
        rcases List.mem_cons.1 hc with rfl | h
        · exact absurd rfl hmc
        · exact h
      have := ih (t.unknownStep dp m) (by rw [hrel.ours]; exact ho) hc' hnd
        (fun h => hnia ((hrel.iaOurs c ho).1 h))
      rw [hrel.dpHashes] at this; exact this

end CalicoVerif.C15
