import CalicoVerif.Proofs.C16n
set_option linter.unusedSimpArgs false
namespace CalicoVerif.C16

/-- Sets that are not marked dirty really are in sync (as far as Felix's member view goes). -/
def DirtyOK (F : Felix) : Prop :=
  ∀ n t, F.desired.has n = true → n ∉ F.dirty → F.members.get n = some t → t.inSync = true

theorem mem_of_lookup {α : Type} : ∀ (l : List (String × α)) (c : String) (v : α),
    List.lookup c l = some v → (c, v) ∈ l := by
  intro l
  induction l with
  | nil => intro c v h; simp [List.lookup] at h
  | cons p l ih =>
    intro c v h
    obtain ⟨a, b⟩ := p
    simp only [List.lookup] at h
    split at h
    · rename_i heq
      simp only [Option.some.injEq] at h
      have : c = a := by simpa using heq
      subst this; subst h; exact List.mem_cons_self
    · exact List.mem_cons_of_mem _ (ih c v h)

theorem not_pending_dp {F : Felix} {n : String} {dm : Meta} (hd : F.desired.get n = some dm)
    (h : n ∉ F.pendingUpdates) : F.dp.get n = some dm := by
  unfold Felix.pendingUpdates at h
  rw [List.mem_eraseDups] at h
  have hmem := mem_of_lookup _ _ _ hd
  by_cases hdp : F.dp.get n = some dm
  · exact hdp
  · exfalso
    apply h
    refine List.mem_map.2 ⟨(n, dm), List.mem_filter.2 ⟨hmem, ?_⟩, rfl⟩
    simpa using hdp

theorem inSync_setEq {t : MT} (h : t.inSync = true) : setEq t.dp t.des := by
  unfold MT.inSync at h
  simp only [Bool.and_eq_true, List.isEmpty_iff] at h
  intro x
  constructor
  · intro hx
    by_cases hd : x ∈ t.des
    · exact hd
    · have : x ∈ t.pendingDel := mem_pendingDel.2 ⟨hx, hd⟩
      rw [h.2] at this; simp at this
  · intro hx
    by_cases hd : x ∈ t.dp
    · exact hd
    · have : x ∈ t.pendingAdd := mem_pendingAdd.2 ⟨hx, hd⟩
      rw [h.1] at this; simp at this

theorem clean_exact {c : Cfg} {F : Felix} {K : Kernel} (hinv : WInv c F K) (hdo : DirtyOK F) {n : String}
    (hdes : F.desired.has n = true) (hclean : n ∉ F.dirtyForUpdate) : Exact F K n := by
  obtain ⟨dm, hdm⟩ := Map.get_isSome_of_has hdes
  obtain ⟨t, ht⟩ := Map.get_isSome_of_has (hinv.tracked n hdes)
  unfold Felix.dirtyForUpdate at hclean
  simp only [List.mem_append, List.mem_filter, not_or, not_and] at hclean
  have hnd : n ∉ F.dirty := fun h => hclean.1 h hdes
  have hnp : n ∉ F.pendingUpdates := by
    intro h
    have := hclean.2 h
    simp only [Bool.not_eq_true', List.contains_eq_mem, decide_eq_false_iff_not, Bool.not_eq_eq_eq_not,
      Bool.not_true] at this
    exact this hnd
  have hdp := not_pending_dp hdm hnp
  have hsync := hdo n t hdes hnd ht
  have hacc := hinv.acc n dm t hdm ht
  cases hK : K.get n with
  | none => rw [hK] at hacc; rw [hdp] at hacc; simp at hacc
  | some k =>
    rw [hK] at hacc
    obtain ⟨m', hm', hrest⟩ := hacc
    rw [hdp] at hm'; simp only [Option.some.injEq] at hm'
    obtain ⟨hmatch, hview⟩ := hrest hm'.symm
    exact ⟨dm, t, k, hdm, ht, hK, hmatch, hview.symm.trans (inSync_setEq hsync)⟩

end CalicoVerif.C16
