import CalicoVerif.Proofs.C02Ips
/-! C02: effect of the flush phases on the dataplane state, generically over a category "lens". -/
namespace CalicoVerif.C02

theorem applyAll_nil (d : DP) : d.applyAll [] = d := rfl
theorem applyAll_cons (d : DP) (m : Msg) (ms : List Msg) : d.applyAll (m :: ms) = (d.apply m).applyAll ms := rfl
theorem applyAll_append (d : DP) (ms₁ ms₂ : List Msg) : d.applyAll (ms₁ ++ ms₂) = (d.applyAll ms₁).applyAll ms₂ := by
  simp [DP.applyAll, List.foldl_append]

theorem AllWF_append {d : DP} {ms₁ ms₂ : List Msg} :
    AllWF d (ms₁ ++ ms₂) ↔ AllWF d ms₁ ∧ AllWF (d.applyAll ms₁) ms₂ := by
  induction ms₁ generalizing d with
  | nil => simp [AllWF, applyAll_nil]
  | cons m ms ih => simp [AllWF, applyAll_cons, ih, and_assoc]

theorem AfterEach_append {P : DP → Prop} {d : DP} {ms₁ ms₂ : List Msg} :
    AfterEach P d (ms₁ ++ ms₂) ↔ AfterEach P d ms₁ ∧ AfterEach P (d.applyAll ms₁) ms₂ := by
  induction ms₁ generalizing d with
  | nil =>
    simp only [List.nil_append, AfterEach, applyAll_nil, iff_and_self]
    intro h; cases ms₂ <;> simp_all [AfterEach]
  | cons m ms ih => simp [AfterEach, applyAll_cons, ih, and_assoc]

theorem AfterEach_head {P : DP → Prop} {d : DP} {ms : List Msg} (h : AfterEach P d ms) : P d := by
  cases ms <;> simp_all [AfterEach]

/-- `AfterEach P` from an invariant `J` of the message list that implies `P`. -/
theorem AfterEach_of_inv {P J : DP → Prop} (hJP : ∀ d, J d → P d) {ms : List Msg}
    (step : ∀ m ∈ ms, ∀ d, J d → J (d.apply m)) {d : DP} (hd : J d) : AfterEach P d ms ∧ J (d.applyAll ms) := by
  induction ms generalizing d with
  | nil => exact ⟨hJP d hd, hd⟩
  | cons m ms ih =>
    have h1 := step m (by simp) d hd
    have := ih (fun m' hm' => step m' (by simp [hm'])) h1
    exact ⟨⟨hJP d hd, this.1⟩, this.2⟩

theorem AllWF_of_inv {J : DP → Prop} {ms : List Msg}
    (step : ∀ m ∈ ms, ∀ d, J d → WF d m ∧ J (d.apply m)) {d : DP} (hd : J d) : AllWF d ms ∧ J (d.applyAll ms) := by
  induction ms generalizing d with
  | nil => exact ⟨trivial, hd⟩
  | cons m ms ih =>
    have h1 := step m (by simp) d hd
    have := ih (fun m' hm' => step m' (by simp [hm'])) h1.2
    exact ⟨⟨h1.1, this.1⟩, this.2⟩

/-- A projection that no message of the list touches is unchanged. -/
theorem applyAll_proj {α} (F : DP → α) {ms : List Msg} (h : ∀ m ∈ ms, ∀ d, F (d.apply m) = F d) (d : DP) :
    F (d.applyAll ms) = F d := by
  induction ms generalizing d with
  | nil => rfl
  | cons m ms ih =>
    rw [applyAll_cons, ih (fun m' hm' => h m' (by simp [hm']))]
    exact h m (by simp) d

/-! ### category lens -/

/-- How one plain category lives inside `DP` and which messages update / delete its objects. -/
structure CatLens (κ β γ : Type) [DecidableEq κ] where
  get : DP → κ → Option γ
  set : DP → (κ → Option γ) → DP
  g : κ → β → γ
  updMsg : κ → β → List Msg
  delMsg : κ → Msg
  get_set : ∀ d f, get (set d f) = f
  set_get : ∀ d, set d (get d) = d
  set_set : ∀ d f f', set (set d f) f' = set d f'
  upd_apply : ∀ d k v, d.applyAll (updMsg k v) = set d (fupd (get d) k (some (g k v)))
  upd_wf : ∀ d k v, AllWF d (updMsg k v)
  del_apply : ∀ d k, d.apply (delMsg k) = set d (fupd (get d) k none)
  del_wf : ∀ d k, WF d (delMsg k) ↔ (get d k).isSome

variable {κ β γ : Type} [DecidableEq κ]

theorem CatLens.applyUpds (L : CatLens κ β γ) (d : DP) (l : List (κ × β)) :
    d.applyAll (l.flatMap (fun p => L.updMsg p.1 p.2)) = L.set d (applyUpds L.g (L.get d) l) ∧
    AllWF d (l.flatMap (fun p => L.updMsg p.1 p.2)) := by
  induction l generalizing d with
  | nil => simp [applyAll_nil, C02.applyUpds, L.set_get, AllWF]
  | cons p t ih =>
    simp only [List.flatMap_cons, applyAll_append, AllWF_append, L.upd_apply, L.upd_wf, true_and]
    have := ih (L.set d (fupd (L.get d) p.1 (some (L.g p.1 p.2))))
    rw [L.get_set, L.set_set] at this
    simp only [C02.applyUpds, List.foldl_cons] at this ⊢
    exact this

theorem CatLens.applyDels (L : CatLens κ β γ) (d : DP) (l : List κ) (hn : l.Nodup)
    (hp : ∀ k ∈ l, (L.get d k).isSome) :
    d.applyAll (l.map L.delMsg) = L.set d (applyDels (L.get d) l) ∧ AllWF d (l.map L.delMsg) := by
  induction l generalizing d with
  | nil => simp [applyAll_nil, C02.applyDels, L.set_get, AllWF]
  | cons k t ih =>
    simp only [List.map_cons, applyAll_cons, AllWF, L.del_apply, L.del_wf]
    simp only [List.nodup_cons] at hn
    have := ih (L.set d (fupd (L.get d) k none)) hn.2 (by
      intro k' hk'
      rw [L.get_set]
      have : k' ≠ k := fun e => hn.1 (e ▸ hk')
      simp only [fupd, this, if_false]
      exact hp k' (by simp [hk']))
    rw [L.get_set, L.set_set] at this
    simp only [C02.applyDels, List.foldl_cons] at this ⊢
    exact ⟨this.1, hp k (by simp), this.2⟩

/-! ### the lenses of the model's categories -/

def polLens : CatLens PolicyKey Rules Rules where
  get d := d.pol
  set d f := { d with pol := f }
  g _ r := r
  updMsg := polUpdMsg
  delMsg := Msg.policyRemove
  get_set _ _ := rfl
  set_get _ := rfl
  set_set _ _ _ := rfl
  upd_apply _ _ _ := rfl
  upd_wf _ _ _ := ⟨trivial, trivial⟩
  del_apply _ _ := rfl
  del_wf _ _ := Iff.rfl

def profLens : CatLens String Rules Rules where
  get d := d.prof
  set d f := { d with prof := f }
  g _ r := r
  updMsg := profUpdMsg
  delMsg := Msg.profileRemove
  get_set _ _ := rfl
  set_get _ := rfl
  set_set _ _ _ := rfl
  upd_apply _ _ _ := rfl
  upd_wf _ _ _ := ⟨trivial, trivial⟩
  del_apply _ _ := rfl
  del_wf _ _ := Iff.rfl

def epLens : CatLens EpKey EpUpd EpDown where
  get d := d.ep
  set d f := { d with ep := f }
  g := epDown
  updMsg := epUpdMsg
  delMsg := epDelMsg
  get_set _ _ := rfl
  set_get _ := rfl
  set_set _ _ _ := rfl
  upd_apply d k v := by cases k <;> rfl
  upd_wf d k v := by cases k <;> exact ⟨trivial, trivial⟩
  del_apply d k := by cases k <;> rfl
  del_wf d k := by cases k <;> exact Iff.rfl

def vtepLens : CatLens String String String where
  get d := d.vtep
  set d f := { d with vtep := f }
  g _ t := t
  updMsg k v := [Msg.vtepUpdate k v]
  delMsg := Msg.vtepRemove
  get_set _ _ := rfl
  set_get _ := rfl
  set_set _ _ _ := rfl
  upd_apply _ _ _ := rfl
  upd_wf _ _ _ := ⟨trivial, trivial⟩
  del_apply _ _ := rfl
  del_wf _ _ := Iff.rfl

def routeLens : CatLens String RouteData RouteData where
  get d := d.route
  set d f := { d with route := f }
  g _ r := r
  updMsg k v := [Msg.routeUpdate k v]
  delMsg := Msg.routeRemove
  get_set _ _ := rfl
  set_get _ := rfl
  set_set _ _ _ := rfl
  upd_apply _ _ _ := rfl
  upd_wf _ _ _ := ⟨trivial, trivial⟩
  del_apply _ _ := rfl
  del_wf _ _ := Iff.rfl

def genLens (c : GenCat) : CatLens String String String where
  get d := d.gen c
  set d f := { d with gen := fun c' => if c' = c then f else d.gen c' }
  g _ t := t
  updMsg k v := [Msg.genUpdate c k v]
  delMsg := Msg.genRemove c
  get_set _ _ := by simp
  set_get d := by
    show ({ d with gen := fun c' => if c' = c then d.gen c else d.gen c' } : DP) = d
    have : (fun c' => if c' = c then d.gen c else d.gen c') = d.gen := by
      funext c'; by_cases h : c' = c <;> simp [h]
    rw [this]
  set_set d f f' := by
    show ({ ({ d with gen := fun c' => if c' = c then f else d.gen c' } : DP) with
            gen := fun c' => if c' = c then f' else (if c' = c then f else d.gen c') } : DP) = _
    have : (fun c' => if c' = c then f' else (if c' = c then f else d.gen c')) = (fun c' => if c' = c then f' else d.gen c') := by
      funext c'; by_cases h : c' = c <;> simp [h]
    rw [this]
  upd_apply d k v := by
    show d.apply (Msg.genUpdate c k v) = _
    simp only [DP.apply]
  upd_wf _ _ _ := ⟨trivial, trivial⟩
  del_apply d k := by simp only [DP.apply]
  del_wf d k := by simp only [WF]

/-- One update phase of a category: messages well-formed, dataplane updated, invariant kept. -/
theorem CatLens.phaseUpd (L : CatLens κ β γ) {c : Cat κ β} {U : κ → Option γ} {d : DP}
    (h : CatInv L.g c U (L.get d)) :
    let d' := d.applyAll (c.flushUpd L.updMsg).2
    AllWF d (c.flushUpd L.updMsg).2 ∧ d' = L.set d (C02.applyUpds L.g (L.get d) c.upd) ∧
      CatInv L.g (c.flushUpd L.updMsg).1 U (L.get d') := by
  have := L.applyUpds d c.upd
  refine ⟨this.2, this.1, ?_⟩
  show CatInv L.g _ U (L.get (d.applyAll (c.upd.flatMap fun p => L.updMsg p.1 p.2)))
  rw [this.1, L.get_set]
  exact h.flushUpd L.updMsg

/-- One delete phase of a category. -/
theorem CatLens.phaseDel (L : CatLens κ β γ) {c : Cat κ β} {U : κ → Option γ} {d : DP}
    (h : CatInv L.g c U (L.get d)) :
    let d' := d.applyAll (c.flushDel L.delMsg).2
    AllWF d (c.flushDel L.delMsg).2 ∧ d' = L.set d (C02.applyDels (L.get d) c.del) ∧
      CatInv L.g (c.flushDel L.delMsg).1 U (L.get d') := by
  have := L.applyDels d c.del h.delNodup (fun k hk => (h.sent k).1 (h.delSent k hk))
  refine ⟨this.2, this.1, ?_⟩
  show CatInv L.g _ U (L.get (d.applyAll (c.del.map L.delMsg)))
  rw [this.1, L.get_set]
  exact h.flushDel L.delMsg

end CalicoVerif.C02
