import CalicoVerif.Proofs.C04Main
/-! C04: the three input tables the spec reads (`st.eps` data, parent labels, IP set configuration)
are "last writer wins" along any history. -/
namespace CalicoVerif.C04

set_option linter.unusedSectionVars false
set_option linter.unusedVariables false

section Tables
variable {Sel : Type} [DecidableEq Sel] (matchSel : Sel → Labels → Bool)

/-- what the index remembers of an endpoint's / network set's datastore value (cache aside) -/
def epData (st : Idx Sel) (id : String) : Option (Labels × List Cidr × List Port × List String) :=
  (alGet id st.eps).map (fun e => (e.labels, e.nets, e.ports, e.parents))

/-- the three input tables are untouched -/
structure Keep (st st' : Idx Sel) : Prop where
  eps : ∀ id, epData st' id = epData st id
  parents : st'.parents = st.parents
  cfg : ∀ s, cfgAt st' s = cfgAt st s

theorem Keep.refl (st : Idx Sel) : Keep st st := ⟨fun _ => rfl, rfl, fun _ => rfl⟩
theorem Keep.trans {a b c : Idx Sel} (h1 : Keep a b) (h2 : Keep b c) : Keep a c :=
  ⟨fun id => (h2.eps id).trans (h1.eps id), h2.parents.trans h1.parents, fun s => (h2.cfg s).trans (h1.cfg s)⟩

theorem keep_of_eps_eq {st st' : Idx Sel} (he : st'.eps = st.eps) (hp : st'.parents = st.parents)
    (hc : ∀ s, cfgAt st' s = cfgAt st s) : Keep st st' :=
  ⟨fun id => by unfold epData; rw [he], hp, hc⟩

theorem foldl_keep {α : Type} (f : Idx Sel → α → Idx Sel) (hf : ∀ st a, Keep st (f st a)) (l : List α) (st : Idx Sel) :
    Keep st (l.foldl f st) := by
  induction l generalizing st with
  | nil => exact Keep.refl st
  | cons a l ih => rw [List.foldl_cons]; exact (hf st a).trans (ih _)

theorem incref_keep (s : String) (m : Member) (st : Idx Sel) : Keep st (incref s m st) := by
  have hfr := incref_frame s m st
  refine keep_of_eps_eq hfr.eps hfr.parents ?_
  cases h : alGet s st.ipsets with
  | none => intro s'; unfold incref; simp only [h]; rfl
  | some d => exact cfgAt_alMod (incref_ipsets m h) (fun _ => rfl)

theorem decref_keep (s : String) (m : Member) (st : Idx Sel) : Keep st (decref s m st) := by
  have hfr := decref_frame s m st
  refine keep_of_eps_eq hfr.eps hfr.parents ?_
  cases h : alGet s st.ipsets with
  | none => intro s'; unfold decref; simp only [h]; rfl
  | some d =>
    by_cases h0 : refOf d m = 0
    · have : (decref s m st).ipsets = alMod s (fun d' => { d' with refc := alSet m (2 ^ 64 - 1) d'.refc }) st.ipsets := by
        unfold decref; simp only [h, h0, if_true]
      exact cfgAt_alMod this (fun _ => rfl)
    · exact cfgAt_alMod (decref_ipsets m h h0) (fun _ => rfl)

theorem forceRemove_keep (s : String) (m : Member) (st : Idx Sel) : Keep st (forceRemove s m st) := by
  obtain ⟨f1, f2, f3, _, _, _⟩ := onMemberRemoved_frame s m st
  have hips : (forceRemove s m st).ipsets = alMod s (fun d' => { d' with refc := alErase m d'.refc }) st.ipsets := by
    unfold forceRemove; simp only [f3]
  exact keep_of_eps_eq f1 f2 (cfgAt_alMod hips (fun _ => rfl))

theorem increfAll_keep (s : String) (ms : List Member) (st : Idx Sel) : Keep st (increfAll s ms st) :=
  foldl_keep _ (fun st m => incref_keep s m st) ms st

theorem decrefOld_keep (old : List (String × List Member)) (st : Idx Sel) : Keep st (decrefOld old st) := by
  unfold decrefOld
  apply foldl_keep
  intro st p
  unfold decrefAll
  exact foldl_keep _ (fun st m => decref_keep p.1 m st) p.2 st

theorem scanOne_keep (k : String) (p : Idx Sel × EpData) :
    Keep p.1 (scanOne matchSel k p).1 ∧ (scanOne matchSel k p).2.labels = p.2.labels ∧
    (scanOne matchSel k p).2.nets = p.2.nets ∧ (scanOne matchSel k p).2.ports = p.2.ports ∧
    (scanOne matchSel k p).2.parents = p.2.parents := by
  unfold scanOne
  cases alGet k p.1.ipsets with
  | none => exact ⟨Keep.refl _, rfl, rfl, rfl, rfl⟩
  | some d =>
    simp only
    split
    · exact ⟨increfAll_keep _ _ _, rfl, rfl, rfl, rfl⟩
    · exact ⟨Keep.refl _, rfl, rfl, rfl, rfl⟩

theorem scanEp_keep (e : EpData) (old : List (String × List Member)) (st : Idx Sel) :
    Keep st (scanEp matchSel e old st).1 ∧ (scanEp matchSel e old st).2.labels = e.labels ∧
    (scanEp matchSel e old st).2.nets = e.nets ∧ (scanEp matchSel e old st).2.ports = e.ports ∧
    (scanEp matchSel e old st).2.parents = e.parents := by
  unfold scanEp
  have : ∀ (ks : List String) (p : Idx Sel × EpData),
      Keep p.1 (ks.foldl (fun p s => scanOne matchSel s p) p).1 ∧
      (ks.foldl (fun p s => scanOne matchSel s p) p).2.labels = p.2.labels ∧
      (ks.foldl (fun p s => scanOne matchSel s p) p).2.nets = p.2.nets ∧
      (ks.foldl (fun p s => scanOne matchSel s p) p).2.ports = p.2.ports ∧
      (ks.foldl (fun p s => scanOne matchSel s p) p).2.parents = p.2.parents := by
    intro ks
    induction ks with
    | nil => intro p; exact ⟨Keep.refl _, rfl, rfl, rfl, rfl⟩
    | cons k ks ih =>
      intro p
      rw [List.foldl_cons]
      obtain ⟨a1, a2, a3, a4, a5⟩ := scanOne_keep matchSel k p
      obtain ⟨b1, b2, b3, b4, b5⟩ := ih (scanOne matchSel k p)
      exact ⟨a1.trans b1, b2.trans a2, b3.trans a3, b4.trans a4, b5.trans a5⟩
  obtain ⟨c1, c2, c3, c4, c5⟩ := this (st.ipsets.map (·.1)) (st, { e with cached := [] })
  exact ⟨c1.trans (decrefOld_keep _ _), c2, c3, c4, c5⟩

theorem epData_alMod {st : Idx Sel} (id : String) (g : EpData → EpData)
    (hg : ∀ e, (g e).labels = e.labels ∧ (g e).nets = e.nets ∧ (g e).ports = e.ports ∧ (g e).parents = e.parents)
    (id' : String) : epData ({ st with eps := alMod id g st.eps } : Idx Sel) id' = epData st id' := by
  unfold epData
  simp only [alGet_alMod]
  by_cases h : id' = id
  · subst h
    cases alGet id' st.eps with
    | none => simp
    | some e => simp [(hg e).1, (hg e).2.1, (hg e).2.2.1, (hg e).2.2.2]
  · simp [h]

theorem epData_alMod_at {st : Idx Sel} (id : String) (g : EpData → EpData) {e : EpData}
    (hget : alGet id st.eps = some e)
    (hg : (g e).labels = e.labels ∧ (g e).nets = e.nets ∧ (g e).ports = e.ports ∧ (g e).parents = e.parents)
    (id' : String) : epData ({ st with eps := alMod id g st.eps } : Idx Sel) id' = epData st id' := by
  unfold epData
  simp only [alGet_alMod]
  by_cases h : id' = id
  · subst h
    rw [hget]
    simp [hg.1, hg.2.1, hg.2.2.1, hg.2.2.2]
  · simp [h]

/-- **Endpoint table, last writer wins.**  `UpdateEndpointOrSet` stores exactly the written labels,
nets, ports and (de-duplicated) profile ids under the key and leaves every other endpoint, the parent
labels and the IP set configurations alone. -/
theorem updateEndpoint_tables (id : String) (labels : Labels) (nets : List Cidr) (ports : List Port)
    (parents : List String) (st : Idx Sel) :
    (∀ id', epData (updateEndpoint matchSel id labels nets ports parents st) id' =
      if id' = id then some (labels, nets, ports, dedupParents parents) else epData st id') ∧
    (updateEndpoint matchSel id labels nets ports parents st).parents = st.parents ∧
    ∀ s, cfgAt (updateEndpoint matchSel id labels nets ports parents st) s = cfgAt st s := by
  unfold updateEndpoint updateEndpointCore
  have fin : ∀ (st0 : Idx Sel) (old : List (String × List Member)),
      let r := scanEp matchSel ⟨labels, nets, ports, dedupParents parents, []⟩ old st0
      (∀ id', epData ({ r.1 with eps := alSet id r.2 r.1.eps } : Idx Sel) id' =
        if id' = id then some (labels, nets, ports, dedupParents parents) else epData st0 id') ∧
      r.1.parents = st0.parents ∧ ∀ s, cfgAt r.1 s = cfgAt st0 s := by
    intro st0 old
    obtain ⟨k, l1, n1, p1, q1⟩ := scanEp_keep matchSel ⟨labels, nets, ports, dedupParents parents, []⟩ old st0
    refine ⟨fun id' => ?_, k.parents, k.cfg⟩
    have := k.eps id'
    unfold epData at this ⊢
    simp only [alGet_alSet]
    by_cases h : id' = id
    · simp [h, l1, n1, p1, q1]
    · simp only [h, if_false]; exact this
  cases hget : alGet id st.eps with
  | none => simp only; exact fin st []
  | some old =>
    simp only
    split
    · rename_i heq
      refine ⟨fun id' => ?_, rfl, fun _ => rfl⟩
      by_cases h : id' = id
      · subst h
        simp only [epEquals, Bool.and_eq_true, beq_iff_eq] at heq
        unfold epData
        rw [hget]
        simp [heq.1.1.1, heq.1.1.2, heq.1.2, heq.2]
      · simp [h]
    · generalize hst0 : (if recalcPanics old st = true then ({ st with panicked := true } : Idx Sel) else st) = st0
      have h0 : st0.eps = st.eps ∧ st0.parents = st.parents ∧ st0.ipsets = st.ipsets := by
        rw [← hst0]; cases recalcPanics old st <;> exact ⟨rfl, rfl, rfl⟩
      generalize recalc old st0 = oldC
      obtain ⟨a1, a2, a3⟩ := fin ({ st0 with eps := alErase id st0.eps } : Idx Sel) oldC
      have hst1 : ∀ id', id' ≠ id → epData ({ st0 with eps := alErase id st0.eps } : Idx Sel) id' = epData st id' := by
        intro id' hne
        unfold epData
        simp only [alGet_alErase, hne, if_false, h0.1]
      have hc0 : ∀ s, cfgAt ({ st0 with eps := alErase id st0.eps } : Idx Sel) s = cfgAt st s := by
        intro s; unfold cfgAt; simp only [h0.2.2]
      have key : (∀ id', epData ({ (scanEp matchSel ⟨labels, nets, ports, dedupParents parents, []⟩ oldC
            ({ st0 with eps := alErase id st0.eps } : Idx Sel)).1 with
          eps := alSet id (scanEp matchSel ⟨labels, nets, ports, dedupParents parents, []⟩ oldC
            ({ st0 with eps := alErase id st0.eps } : Idx Sel)).2
            (scanEp matchSel ⟨labels, nets, ports, dedupParents parents, []⟩ oldC
            ({ st0 with eps := alErase id st0.eps } : Idx Sel)).1.eps } : Idx Sel) id' =
          if id' = id then some (labels, nets, ports, dedupParents parents) else epData st id') := by
        intro id'
        have := a1 id'
        by_cases h : id' = id
        · simp only [h, if_true] at this ⊢; exact this
        · simp only [h, if_false] at this ⊢; rw [← hst1 id' h]; exact this
      split
      · exact ⟨key, a2.trans h0.2.1, fun s => (a3 s).trans (hc0 s)⟩
      · exact ⟨key, a2.trans h0.2.1, fun s => (a3 s).trans (hc0 s)⟩

theorem deleteEndpoint_tables (id : String) (st : Idx Sel) :
    (∀ id', epData (deleteEndpoint id st) id' = if id' = id then none else epData st id') ∧
    (deleteEndpoint id st).parents = st.parents ∧ ∀ s, cfgAt (deleteEndpoint id st) s = cfgAt st s := by
  unfold deleteEndpoint
  cases hget : alGet id st.eps with
  | none =>
    refine ⟨fun id' => ?_, rfl, fun _ => rfl⟩
    by_cases h : id' = id
    · subst h; unfold epData; rw [hget]; simp
    · simp [h]
  | some old =>
    simp only
    generalize hst0 : (if recalcPanics old st = true then ({ st with panicked := true } : Idx Sel) else st) = st0
    have h0 : st0.eps = st.eps ∧ st0.parents = st.parents ∧ st0.ipsets = st.ipsets := by
      rw [← hst0]; cases recalcPanics old st <;> exact ⟨rfl, rfl, rfl⟩
    have k := decrefOld_keep (recalc old st0) st0
    have heps : (decrefOld (recalc old st0) st0).eps = st.eps := (decrefOld_frame (recalc old st0) st0).eps.trans h0.1
    have key : (∀ id', epData ({ decrefOld (recalc old st0) st0 with
        eps := alErase id (decrefOld (recalc old st0) st0).eps } : Idx Sel) id' =
        if id' = id then none else epData st id') := by
      intro id'
      unfold epData
      simp only [alGet_alErase, heps]
      by_cases h : id' = id <;> simp [h]
    have hc : ∀ s, cfgAt (decrefOld (recalc old st0) st0) s = cfgAt st s := by
      intro s; rw [k.cfg]; unfold cfgAt; rw [h0.2.2]
    split
    · exact ⟨key, k.parents.trans h0.2.1, hc⟩
    · exact ⟨key, k.parents.trans h0.2.1, hc⟩

theorem rescanEp_keep (id : String) (st : Idx Sel) : Keep st (rescanEp matchSel id st) := by
  unfold rescanEp
  cases hget : alGet id st.eps with
  | none => exact Keep.refl st
  | some e =>
    simp only
    generalize hst0 : (if recalcPanics e st = true then ({ st with panicked := true } : Idx Sel) else st) = st0
    have h0 : Keep st st0 := by
      rw [← hst0]; cases recalcPanics e st <;> exact ⟨fun _ => rfl, rfl, fun _ => rfl⟩
    obtain ⟨k, l1, n1, p1, q1⟩ := scanEp_keep matchSel e (recalc e st0) st0
    have hget' : alGet id (scanEp matchSel e (recalc e st0) st0).1.eps = some e := by
      rw [(scanEp_frame matchSel e (recalc e st0) st0).eps, ← hst0]
      cases recalcPanics e st <;> exact hget
    refine h0.trans (k.trans ⟨fun id' => ?_, rfl, fun _ => rfl⟩)
    exact epData_alMod_at id (fun _ => (scanEp matchSel e (recalc e st0) st0).2) hget' ⟨l1, n1, p1, q1⟩ id'

theorem updateParentLabels_tables (pid : String) (labels : Labels) (st : Idx Sel) :
    (∀ id, epData (updateParentLabels matchSel pid labels st) id = epData st id) ∧
    (∀ p, parentLabels (updateParentLabels matchSel pid labels st) p = if p = pid then labels else parentLabels st p) ∧
    ∀ s, cfgAt (updateParentLabels matchSel pid labels st) s = cfgAt st s := by
  unfold updateParentLabels
  split
  · rename_i heq
    refine ⟨fun _ => rfl, fun p => ?_, fun _ => rfl⟩
    by_cases h : p = pid
    · subst h; simp [heq]
    · simp [h]
  · simp only
    have k := foldl_keep _ (fun st id => rescanEp_keep matchSel id st)
      ((st.eps.filter (fun p => pid ∈ p.2.parents)).map (·.1))
      ({ st with parents := alSet pid labels st.parents } : Idx Sel)
    refine ⟨k.eps, fun p => ?_, k.cfg⟩
    unfold parentLabels
    rw [k.parents]
    simp only [alGet_alSet]
    by_cases h : p = pid <;> simp [h]

theorem deleteIPSetCore_tables (s : String) (st : Idx Sel) :
    (∀ id, epData (deleteIPSetCore s st) id = epData st id) ∧ (deleteIPSetCore s st).parents = st.parents ∧
    ∀ s', cfgAt (deleteIPSetCore s st) s' = if s' = s then none else cfgAt st s' := by
  unfold deleteIPSetCore
  cases hget : alGet s st.ipsets with
  | none =>
    refine ⟨fun _ => rfl, rfl, fun s' => ?_⟩
    by_cases h : s' = s
    · subst h; unfold cfgAt; rw [hget]; simp
    · simp [h]
  | some d =>
    simp only
    refine ⟨fun id => ?_, (by first | rfl | trivial), fun s' => ?_⟩
    · unfold epData
      simp only
      induction st.eps with
      | nil => rfl
      | cons p l ih =>
        obtain ⟨a, b⟩ := p
        simp only [List.map_cons, alGet_cons]
        by_cases h : a = id
        · simp [h]
        · simp only [h, if_false]; exact ih
    · unfold cfgAt
      simp only [alGet_alErase]
      by_cases h : s' = s <;> simp [h]

theorem addIPSetScanOne_keep (s : String) (sel : Sel) (id : String) (st : Idx Sel) :
    Keep st (addIPSetScanOne matchSel s sel id st) := by
  unfold addIPSetScanOne
  cases alGet id st.eps with
  | none => exact Keep.refl st
  | some e =>
    cases alGet s st.ipsets with
    | none => exact Keep.refl st
    | some d =>
      simp only
      split
      · split
        · exact Keep.refl st
        · refine Keep.trans (b := ({ st with eps := alMod id (fun e => { e with cached := setAdd s e.cached }) st.eps } : Idx Sel))
            ⟨fun id' => ?_, rfl, fun _ => rfl⟩ (increfAll_keep _ _ _)
          exact epData_alMod id (fun e => { e with cached := setAdd s e.cached }) (fun _ => ⟨rfl, rfl, rfl, rfl⟩) id'
      · exact Keep.refl st

theorem addIPSet_tables (s : String) (sel : Sel) (proto : Nat) (port : String) (st : Idx Sel) :
    (∀ id, epData (addIPSet matchSel s sel proto port st) id = epData st id) ∧
    (addIPSet matchSel s sel proto port st).parents = st.parents ∧
    ∀ s', cfgAt (addIPSet matchSel s sel proto port st) s' = if s' = s then some (sel, proto, port) else cfgAt st s' := by
  unfold addIPSet
  simp only
  have k := foldl_keep _ (fun st id => addIPSetScanOne_keep matchSel s sel id st) (st.eps.map (·.1))
    ({ st with ipsets := alSet s (⟨sel, proto, port, []⟩ : IpSetData Sel) st.ipsets } : Idx Sel)
  refine ⟨k.eps, k.parents, fun s' => ?_⟩
  rw [k.cfg]
  unfold cfgAt
  simp only [alGet_alSet]
  by_cases h : s' = s <;> simp [h, cfgOf]

/-- **IP set table, last writer wins.** -/
theorem updateIPSet_tables (s : String) (sel : Sel) (proto : Nat) (port : String) (st : Idx Sel) :
    (∀ id, epData (updateIPSet matchSel s sel proto port st) id = epData st id) ∧
    (updateIPSet matchSel s sel proto port st).parents = st.parents ∧
    ∀ s', cfgAt (updateIPSet matchSel s sel proto port st) s' = if s' = s then some (sel, proto, port) else cfgAt st s' := by
  unfold updateIPSet
  cases hget : alGet s st.ipsets with
  | none => exact addIPSet_tables matchSel s sel proto port st
  | some d =>
    simp only
    split
    · rename_i heq
      refine ⟨fun _ => rfl, rfl, fun s' => ?_⟩
      by_cases h : s' = s
      · subst h; unfold cfgAt; rw [hget]; simp [cfgOf, heq.1, heq.2.1, heq.2.2]
      · simp [h]
    · have k1 := foldl_keep _ (fun st m => forceRemove_keep s m st) (d.refc.map (·.1)) st
      obtain ⟨d1, d2, d3⟩ := deleteIPSetCore_tables s ((d.refc.map (·.1)).foldl (fun st m => forceRemove s m st) st)
      obtain ⟨a1, a2, a3⟩ := addIPSet_tables matchSel s sel proto port
        (deleteIPSetCore s ((d.refc.map (·.1)).foldl (fun st m => forceRemove s m st) st))
      refine ⟨fun id => ((a1 id).trans (d1 id)).trans (k1.eps id), (a2.trans d2).trans k1.parents, fun s' => ?_⟩
      rw [a3, d3, k1.cfg]
      by_cases h : s' = s <;> simp [h]

theorem deleteIPSet_tables (s : String) (st : Idx Sel) :
    (∀ id, epData (deleteIPSet s st) id = epData st id) ∧ (deleteIPSet s st).parents = st.parents ∧
    ∀ s', cfgAt (deleteIPSet s st) s' = if s' = s then none else cfgAt st s' :=
  deleteIPSetCore_tables s st

/-- the three input tables the spec `memberSpec` reads, as plain functions -/
structure Tables (Sel : Type) where
  ep : String → Option (Labels × List Cidr × List Port × List String)
  par : String → Labels
  cfg : String → Option (Sel × Nat × String)

def tablesOf (st : Idx Sel) : Tables Sel := ⟨epData st, parentLabels st, cfgAt st⟩

/-- what an operation WRITES: last writer wins, nothing else changes -/
def Tables.apply (t : Tables Sel) : Op Sel → Tables Sel
  | .updateIPSet s sel proto port => { t with cfg := fun s' => if s' = s then some (sel, proto, port) else t.cfg s' }
  | .deleteIPSet s => { t with cfg := fun s' => if s' = s then none else t.cfg s' }
  | .updateEndpoint id labels nets ports parents =>
    { t with ep := fun id' => if id' = id then some (labels, nets, ports, dedupParents parents) else t.ep id' }
  | .deleteEndpoint id => { t with ep := fun id' => if id' = id then none else t.ep id' }
  | .updateParentLabels pid labels => { t with par := fun p => if p = pid then labels else t.par p }
  | .deleteParentLabels pid => { t with par := fun p => if p = pid then [] else t.par p }
  | _ => t

theorem parentLabels_congr {st st' : Idx Sel} (h : st'.parents = st.parents) : parentLabels st' = parentLabels st := by
  funext p; unfold parentLabels; rw [h]

theorem tables_step {st : Idx Sel} (h : Inv matchSel st) (op : Op Sel) :
    tablesOf (step matchSel st op) = (tablesOf st).apply op := by
  unfold tablesOf
  cases op with
  | updateIPSet s sel proto port =>
    obtain ⟨a, b, c⟩ := updateIPSet_tables matchSel s sel proto port st
    simp only [step, Tables.apply]
    congr 1
    · funext id; exact a id
    · exact parentLabels_congr b
    · funext s'; exact c s'
  | deleteIPSet s =>
    obtain ⟨a, b, c⟩ := deleteIPSet_tables s st
    simp only [step, Tables.apply]
    congr 1
    · funext id; exact a id
    · exact parentLabels_congr b
    · funext s'; exact c s'
  | updateEndpoint id labels nets ports parents =>
    obtain ⟨a, b, c⟩ := updateEndpoint_tables matchSel id labels nets ports parents st
    simp only [step, Tables.apply]
    congr 1
    · funext id'; exact a id'
    · exact parentLabels_congr b
    · funext s'; exact c s'
  | deleteEndpoint id =>
    obtain ⟨a, b, c⟩ := deleteEndpoint_tables id st
    simp only [step, Tables.apply]
    congr 1
    · funext id'; exact a id'
    · exact parentLabels_congr b
    · funext s'; exact c s'
  | updateParentLabels pid labels =>
    obtain ⟨a, b, c⟩ := updateParentLabels_tables matchSel pid labels st
    simp only [step, Tables.apply]
    congr 1
    · funext id'; exact a id'
    · funext p; exact b p
    · funext s'; exact c s'
  | deleteParentLabels pid =>
    obtain ⟨a, b, c⟩ := updateParentLabels_tables matchSel pid [] st
    simp only [step, Tables.apply, deleteParentLabels]
    congr 1
    · funext id'; exact a id'
    · funext p; exact b p
    · funext s'; exact c s'
  | permEps l =>
    simp only [step, Tables.apply]
    split
    · rename_i hp
      congr 1
      funext id
      unfold epData
      simp only [alGet_perm h.core.epsNodup hp]
    · rfl
  | permIPSets l =>
    simp only [step, Tables.apply]
    split
    · rename_i hp
      congr 1
      funext s
      unfold cfgAt
      simp only [alGet_perm h.core.wf.sets hp]
    · rfl
  | permCached id l =>
    simp only [step, Tables.apply]
    congr 1
    funext id'
    exact epData_alMod id (permCachedFn l) (fun e => by
      obtain ⟨a, b, c, d, _⟩ := permCachedFn_spec l e
      exact ⟨a, b, c, d⟩) id'
  | permRefc s l =>
    simp only [step, Tables.apply]
    congr 1
    funext s'
    exact cfgAt_alMod (st := st) (s := s)
      (f := fun d => if l.Perm d.refc then { d with refc := l } else d) rfl (fun d => by
      by_cases hp : l.Perm d.refc <;> simp [hp, cfgOf]) s'

/-- **The input tables are "last writer wins" along every history.** -/
theorem tables_run (ops : List (Op Sel)) (hops : ∀ op ∈ ops, op.ok) {st : Idx Sel} (h : Inv matchSel st) :
    tablesOf (run matchSel st ops) = ops.foldl Tables.apply (tablesOf st) := by
  unfold run
  induction ops generalizing st with
  | nil => rfl
  | cons op ops ih =>
    rw [List.foldl_cons, List.foldl_cons]
    rw [ih (fun o ho => hops o (List.mem_cons_of_mem _ ho)) (step_inv matchSel op (hops op (List.mem_cons_self ..)) h),
      tables_step matchSel h op]

end Tables
end CalicoVerif.C04
