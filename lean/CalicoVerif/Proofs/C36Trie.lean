import CalicoVerif.Proofs.C36Pfx
/-!
C36 helper lemmas, part 3: the trie.  Invariant preservation and the contents
(`toList`) of `update` / `deleteInternal` / `delete`.
-/
namespace CalicoVerif.C36
variable {W : Nat} {α : Type}
open Node

theorem All.imp {P Q : Pfx → Prop} (h : ∀ x, P x → Q x) : ∀ {t : Node α}, t.All P → t.All Q
  | .nil, _ => trivial
  | .node _ _ _ _, ⟨a, b, c⟩ => ⟨h _ a, All.imp h b, All.imp h c⟩

theorem mem_toList_node {c : Pfx} {d : Option α} {l r : Node α} {p : Pfx} {v : α} :
    (p, v) ∈ (node c d l r).toList ↔ (p = c ∧ d = some v) ∨ (p, v) ∈ l.toList ∨ (p, v) ∈ r.toList := by
  cases d with
  | none => simp [toList]
  | some w =>
    simp only [toList, List.mem_append, List.mem_singleton, Prod.mk.injEq, Option.some.injEq, or_assoc]
    constructor
    · rintro (⟨h1, h2⟩ | h | h)
      · exact Or.inl ⟨h1, h2.symm⟩
      · exact Or.inr (Or.inl h)
      · exact Or.inr (Or.inr h)
    · rintro (⟨h1, h2⟩ | h | h)
      · exact Or.inl ⟨h1, h2.symm⟩
      · exact Or.inr (Or.inl h)
      · exact Or.inr (Or.inr h)

theorem All.mem {P : Pfx → Prop} : ∀ {t : Node α}, t.All P → ∀ {p v}, (p, v) ∈ t.toList → P p
  | .nil, _, _, _, h => by simp [toList] at h
  | .node c d l r, ⟨a, b, e⟩, p, v, h => by
    rcases mem_toList_node.1 h with ⟨h1, _⟩ | h1 | h1
    · rw [h1]; exact a
    · exact All.mem b h1
    · exact All.mem e h1

/-- Everything stored in a subtree is covered by the subtree's root and is masked. -/
theorem Inv.mem_root {c : Pfx} {d : Option α} {l r : Node α} (h : (node c d l r).Inv W) {p : Pfx} {v : α}
    (hm : (p, v) ∈ (node c d l r).toList) : p.WF W ∧ c.covers W p = true := by
  rcases mem_toList_node.1 hm with ⟨h1, _⟩ | h1 | h1
  · rw [h1]; exact ⟨h.1, covers_refl h.1⟩
  · have := All.mem h.2.1 h1; exact ⟨this.1, this.2.1⟩
  · have := All.mem h.2.2.1 h1; exact ⟨this.1, this.2.1⟩

theorem Inv.mem_wf : ∀ {t : Node α}, t.Inv W → ∀ {p v}, (p, v) ∈ t.toList → p.WF W
  | .nil, _, _, _, h => by simp [toList] at h
  | .node _ _ _ _, hi, _, _, h => (Inv.mem_root hi h).1

/-- A non-empty trie stores something (no dangling intermediate nodes). -/
theorem Inv.exists_mem : ∀ {t : Node α}, t.Inv W → t.isNil = false → ∃ p v, (p, v) ∈ t.toList
  | .nil, _, h => by simp [isNil] at h
  | .node c d l r, hi, _ => by
    cases d with
    | some v => exact ⟨c, v, mem_toList_node.2 (Or.inl ⟨rfl, rfl⟩)⟩
    | none =>
      have hn := (hi.2.2.2.2.2 rfl).1
      obtain ⟨p, v, h⟩ := Inv.exists_mem hi.2.2.2.1 hn
      exact ⟨p, v, mem_toList_node.2 (Or.inr (Or.inl h))⟩

/-! ### getNode / get -/

/-- Where the walk for `q` goes at node `c`: what is stored under the other child is not `q`. -/
theorem not_mem_other {c q x : Pfx} {i : Nat} (hu : Under W c i x) (hb : q.bit W c.len ≠ i) : x ≠ q := by
  intro e; rw [e] at hu; exact hb hu.2.2

theorem get_iff : ∀ {t : Node α}, t.Inv W → ∀ {q : Pfx}, q.WF W → ∀ {v : α},
    (t.get W q = some v ↔ (q, v) ∈ t.toList)
  | .nil, _, q, _, v => by simp [Node.get, getNode, toList]
  | .node c d l r, hi, q, hq, v => by
    have ihl := @get_iff l hi.2.2.2.1 q hq v
    have ihr := @get_iff r hi.2.2.2.2.1 q hq v
    unfold Node.get at ihl ihr ⊢
    unfold getNode
    by_cases hc : c.contains W q.addr = true
    · simp only [hc, Bool.not_true, Bool.false_eq_true, if_false]
      by_cases hqc : q = c
      · subst hqc
        simp only [if_true]
        rw [mem_toList_node]
        constructor
        · intro h; exact Or.inl ⟨rfl, h⟩
        · rintro (⟨_, h⟩ | h | h)
          · exact h
          · exact absurd rfl (All.mem hi.2.1 h).2.ne_self
          · exact absurd rfl (All.mem hi.2.2.1 h).2.ne_self
      · simp only [hqc, if_false]
        rw [mem_toList_node]
        by_cases hb : nthBit W q.addr (c.len + 1) = 0
        · simp only [hb, if_true]
          rw [ihl]
          constructor
          · intro h; exact Or.inr (Or.inl h)
          · rintro (⟨h, _⟩ | h | h)
            · exact absurd h hqc
            · exact h
            · exact absurd rfl (not_mem_other (All.mem hi.2.2.1 h).2 (by unfold Pfx.bit; omega))
        · simp only [hb, if_false]
          rw [ihr]
          constructor
          · intro h; exact Or.inr (Or.inr h)
          · rintro (⟨h, _⟩ | h | h)
            · exact absurd h hqc
            · exact absurd rfl (not_mem_other (All.mem hi.2.1 h).2 hb)
            · exact h
    · simp only [hc, Bool.not_false, if_true]
      constructor
      · intro h; cases h
      · intro h
        exact absurd (contains_of_covers hi.1 hq (Inv.mem_root hi h).2) hc

/-- Stored keys are distinct: the contents are a finite map. -/
theorem toList_functional {t : Node α} (hi : t.Inv W) {p : Pfx} {v w : α}
    (h1 : (p, v) ∈ t.toList) (h2 : (p, w) ∈ t.toList) : v = w := by
  have hp := Inv.mem_wf hi h1
  have a := (get_iff hi hp).2 h1
  have b := (get_iff hi hp).2 h2
  rw [a] at b; exact Option.some.inj b

/-! ### update -/

theorem update_isNil (t : Node α) (p : Pfx) (v : α) : (t.update W p v).isNil = false := by
  cases t with
  | nil => rfl
  | node c d l r =>
    unfold update
    split
    · rfl
    · simp only
      split
      · split <;> rfl
      · split
        · split <;> rfl
        · split <;> rfl

theorem update_all {P : Pfx → Prop} {p : Pfx} (v : α) (hp : P p) (hcp : ∀ c, P c → P (commonPrefix W p c)) :
    ∀ {t : Node α}, t.All P → (t.update W p v).All P
  | .nil, _ => ⟨hp, trivial, trivial⟩
  | .node c d l r, ⟨a, b, e⟩ => by
    unfold update
    split
    · exact ⟨a, b, e⟩
    · simp only
      split
      · split
        · exact ⟨a, update_all v hp hcp b, e⟩
        · exact ⟨a, b, update_all v hp hcp e⟩
      · split
        · split
          · exact ⟨hp, ⟨a, b, e⟩, trivial⟩
          · exact ⟨hp, trivial, ⟨a, b, e⟩⟩
        · split
          · exact ⟨hcp c a, ⟨a, b, e⟩, ⟨hp, trivial, trivial⟩⟩
          · exact ⟨hcp c a, ⟨hp, trivial, trivial⟩, ⟨a, b, e⟩⟩

theorem under_commonPrefix {c a b : Pfx} {i : Nat} (hc : c.WF W) (ha : a.WF W) (hb : b.WF W)
    (h1 : Under W c i a) (h2 : Under W c i b) : Under W c i (commonPrefix W a b) := by
  have s := commonPrefix_spec ha hb
  have hcov := covers_commonPrefix ha hb hc h1.1 h2.1
  have hlen : c.len < (commonPrefix W a b).len := by
    have hle := covers_len hc s.1 hcov
    by_cases h : c.len < (commonPrefix W a b).len
    · exact h
    · exfalso
      have he : (commonPrefix W a b).len = c.len := by omega
      have := s.2.2 (by have := h1.2.1; omega) (by have := h2.2.1; omega)
      rw [he] at this
      exact this (by rw [h1.bit_eq, h2.bit_eq])
  refine ⟨hcov, hlen, ?_⟩
  have := (s.2.1 c.len hlen).1
  unfold Pfx.bit at this
  rw [this]; exact h1.2.2

/-- All nodes of a subtree rooted at `c` lie under whatever `c` lies under. -/
theorem all_under_of_root {c : Pfx} {d : Option α} {l r : Node α} {p : Pfx} {i : Nat}
    (hi : (node c d l r).Inv W) (hp : p.WF W) (hu : Under W p i c) :
    (node c d l r).All (fun x => x.WF W ∧ Under W p i x) := by
  refine ⟨⟨hi.1, hu⟩, ?_, ?_⟩
  · exact All.imp (fun x hx => ⟨hx.1, hu.mono hp hi.1 hx.1 hx.2.1⟩) hi.2.1
  · exact All.imp (fun x hx => ⟨hx.1, hu.mono hp hi.1 hx.1 hx.2.1⟩) hi.2.2.1

theorem bit_cases (W : Nat) (p : Pfx) (j : Nat) : p.bit W j = 0 ∨ p.bit W j = 1 :=
  nthBit_eq_zero_or_one W p.addr (j + 1)

theorem update_inv {p : Pfx} (hp : p.WF W) (v : α) : ∀ {t : Node α}, t.Inv W → (t.update W p v).Inv W
  | .nil, _ => ⟨hp, trivial, trivial, trivial, trivial, fun h => by cases h⟩
  | .node c d l r, hi => by
    have hc := hi.1
    unfold update
    split
    · exact ⟨hi.1, hi.2.1, hi.2.2.1, hi.2.2.2.1, hi.2.2.2.2.1, fun h => by cases h⟩
    · rename_i hne
      simp only
      have hlen := commonPrefix_len_le (W := W) p c
      split
      · -- c covers p
        rename_i h1
        have hcov : c.covers W p = true := (commonPrefix_len_eq_right_iff hp hc).1 h1
        have hlt : c.len < p.len := by
          have := covers_len hc hp hcov
          by_cases h : c.len < p.len
          · exact h
          · exact absurd (covers_eq_of_len hc hp hcov (by omega)) hne
        rw [h1]
        split
        · rename_i hb
          have hu : Under W c 0 p := ⟨hcov, hlt, hb⟩
          refine ⟨hc, ?_, hi.2.2.1, update_inv hp v hi.2.2.2.1, hi.2.2.2.2.1, fun h => ⟨update_isNil _ _ _, (hi.2.2.2.2.2 h).2⟩⟩
          exact update_all v ⟨hp, hu⟩ (fun x hx => ⟨commonPrefix_wf hp hx.1, under_commonPrefix hc hp hx.1 hu hx.2⟩) hi.2.1
        · rename_i hb
          have hb1 : nthBit W p.addr (c.len + 1) = 1 := by
            have := nthBit_eq_zero_or_one W p.addr (c.len + 1); omega
          have hu : Under W c 1 p := ⟨hcov, hlt, hb1⟩
          refine ⟨hc, hi.2.1, ?_, hi.2.2.2.1, update_inv hp v hi.2.2.2.2.1, fun h => ⟨(hi.2.2.2.2.2 h).1, update_isNil _ _ _⟩⟩
          exact update_all v ⟨hp, hu⟩ (fun x hx => ⟨commonPrefix_wf hp hx.1, under_commonPrefix hc hp hx.1 hu hx.2⟩) hi.2.2.1
      · rename_i h1
        split
        · -- p covers c
          rename_i h2
          have hcov : p.covers W c = true := (commonPrefix_len_eq_left_iff hp hc).1 h2
          have hlt : p.len < c.len := by omega
          rw [h2]
          split
          · rename_i hb
            exact ⟨hp, all_under_of_root hi hp ⟨hcov, hlt, hb⟩, trivial, hi, trivial, fun h => by cases h⟩
          · rename_i hb
            have hb1 : nthBit W c.addr (p.len + 1) = 1 := by
              have := nthBit_eq_zero_or_one W c.addr (p.len + 1); omega
            exact ⟨hp, trivial, all_under_of_root hi hp ⟨hcov, hlt, hb1⟩, trivial, hi, fun h => by cases h⟩
        · -- disjoint
          rename_i h2
          have s := commonPrefix_spec hp hc
          have hcp := s.1
          have hl1 : (commonPrefix W p c).len < p.len := by omega
          have hl2 : (commonPrefix W p c).len < c.len := by omega
          have hne := s.2.2 hl1 hl2
          have hcl := commonPrefix_covers_left hp hc
          have hcr := commonPrefix_covers_right hp hc
          have bp := bit_cases W p (commonPrefix W p c).len
          have bc := bit_cases W c (commonPrefix W p c).len
          unfold Pfx.bit at hne bp bc
          split
          · rename_i hb
            have hb1 : nthBit W p.addr ((commonPrefix W p c).len + 1) = 1 := by omega
            exact ⟨hcp, all_under_of_root hi hcp ⟨hcr, hl2, hb⟩, ⟨⟨hp, hcl, hl1, hb1⟩, trivial, trivial⟩,
              hi, ⟨hp, trivial, trivial, trivial, trivial, fun h => by cases h⟩, fun _ => ⟨rfl, rfl⟩⟩
          · rename_i hb
            have hb0 : nthBit W p.addr ((commonPrefix W p c).len + 1) = 0 := by omega
            have hb1 : nthBit W c.addr ((commonPrefix W p c).len + 1) = 1 := by omega
            exact ⟨hcp, ⟨⟨hp, hcl, hl1, hb0⟩, trivial, trivial⟩, all_under_of_root hi hcp ⟨hcr, hl2, hb1⟩,
              ⟨hp, trivial, trivial, trivial, trivial, fun h => by cases h⟩, hi, fun _ => ⟨rfl, rfl⟩⟩


theorem not_mem_nil {q : Pfx} {w : α} : ¬ (q, w) ∈ (Node.nil : Node α).toList := by simp [toList]

/-- Contents after `Update(p, v)`: `p ↦ v`, everything else unchanged. -/
theorem mem_update {p : Pfx} (hp : p.WF W) (v : α) : ∀ {t : Node α}, t.Inv W → ∀ {q : Pfx} {w : α},
    ((q, w) ∈ (t.update W p v).toList ↔ (q = p ∧ w = v) ∨ (q ≠ p ∧ (q, w) ∈ t.toList))
  | .nil, _, q, w => by simp [update, toList]
  | .node c d l r, hi, q, w => by
    have hc := hi.1
    unfold update
    split
    · rename_i he
      subst he
      rw [mem_toList_node, mem_toList_node]
      constructor
      · rintro (⟨h1, h2⟩ | h | h)
        · exact Or.inl ⟨h1, (Option.some.inj h2).symm⟩
        · exact Or.inr ⟨(All.mem hi.2.1 h).2.ne_self, Or.inr (Or.inl h)⟩
        · exact Or.inr ⟨(All.mem hi.2.2.1 h).2.ne_self, Or.inr (Or.inr h)⟩
      · rintro (⟨h1, h2⟩ | ⟨h0, ⟨h1, _⟩ | h | h⟩)
        · exact Or.inl ⟨h1, by rw [h2]⟩
        · exact absurd h1 h0
        · exact Or.inr (Or.inl h)
        · exact Or.inr (Or.inr h)
    · rename_i hne
      simp only
      have hlen := commonPrefix_len_le (W := W) p c
      split
      · rename_i h1
        have hcov : c.covers W p = true := (commonPrefix_len_eq_right_iff hp hc).1 h1
        have hcp : c ≠ p := hne
        rw [h1]
        split
        · rename_i hb
          rw [mem_toList_node, mem_toList_node, mem_update hp v hi.2.2.2.1]
          constructor
          · rintro (⟨h1, h2⟩ | (⟨h1, h2⟩ | ⟨h1, h2⟩) | h)
            · exact Or.inr ⟨by rw [h1]; exact hcp, Or.inl ⟨h1, h2⟩⟩
            · exact Or.inl ⟨h1, h2⟩
            · exact Or.inr ⟨h1, Or.inr (Or.inl h2)⟩
            · exact Or.inr ⟨not_mem_other (All.mem hi.2.2.1 h).2 (by unfold Pfx.bit; omega), Or.inr (Or.inr h)⟩
          · rintro (⟨h1, h2⟩ | ⟨h0, ⟨h1, h2⟩ | h | h⟩)
            · exact Or.inr (Or.inl (Or.inl ⟨h1, h2⟩))
            · exact Or.inl ⟨h1, h2⟩
            · exact Or.inr (Or.inl (Or.inr ⟨h0, h⟩))
            · exact Or.inr (Or.inr h)
        · rename_i hb
          rw [mem_toList_node, mem_toList_node, mem_update hp v hi.2.2.2.2.1]
          constructor
          · rintro (⟨h1, h2⟩ | h | (⟨h1, h2⟩ | ⟨h1, h2⟩))
            · exact Or.inr ⟨by rw [h1]; exact hcp, Or.inl ⟨h1, h2⟩⟩
            · exact Or.inr ⟨not_mem_other (All.mem hi.2.1 h).2 hb, Or.inr (Or.inl h)⟩
            · exact Or.inl ⟨h1, h2⟩
            · exact Or.inr ⟨h1, Or.inr (Or.inr h2)⟩
          · rintro (⟨h1, h2⟩ | ⟨h0, ⟨h1, h2⟩ | h | h⟩)
            · exact Or.inr (Or.inr (Or.inl ⟨h1, h2⟩))
            · exact Or.inl ⟨h1, h2⟩
            · exact Or.inr (Or.inl h)
            · exact Or.inr (Or.inr (Or.inr ⟨h0, h⟩))
      · rename_i h1
        -- `c` does not cover `p`, so `p` is not stored below `c`
        have hnp : ∀ {q w}, (q, w) ∈ (node c d l r).toList → q ≠ p := by
          intro q w h e
          have := (Inv.mem_root hi h).2
          rw [e] at this
          exact h1 ((commonPrefix_len_eq_right_iff hp hc).2 this)
        have key : ∀ (X : Prop), (X ↔ (q = p ∧ some v = some w) ∨ (q, w) ∈ (node c d l r).toList) →
            (X ↔ (q = p ∧ w = v) ∨ (q ≠ p ∧ (q, w) ∈ (node c d l r).toList)) := by
          intro X hX
          rw [hX]
          constructor
          · rintro (⟨h1, h2⟩ | h)
            · exact Or.inl ⟨h1, (Option.some.inj h2).symm⟩
            · exact Or.inr ⟨hnp h, h⟩
          · rintro (⟨h1, h2⟩ | ⟨_, h⟩)
            · exact Or.inl ⟨h1, by rw [h2]⟩
            · exact Or.inr h
        split
        · split
          · apply key; rw [mem_toList_node]; simp [not_mem_nil]
          · apply key; rw [mem_toList_node]; simp [not_mem_nil]
        · split
          · apply key
            rw [mem_toList_node (c := commonPrefix W p c), mem_toList_node (c := p)]
            simp [not_mem_nil]
            constructor
            · rintro (h | h)
              · exact Or.inr h
              · exact Or.inl h
            · rintro (h | h)
              · exact Or.inr h
              · exact Or.inl h
          · apply key
            rw [mem_toList_node (c := commonPrefix W p c), mem_toList_node (c := p)]
            simp [not_mem_nil]


/-! ### delete -/

theorem deleteInternal_all {P : Pfx → Prop} (p : Pfx) : ∀ {t : Node α}, t.All P → (t.deleteInternal W p).All P
  | .nil, _ => trivial
  | .node c d l r, ⟨a, b, e⟩ => by
    have ihl := deleteInternal_all p b
    have ihr := deleteInternal_all p e
    unfold deleteInternal
    split
    · exact ⟨a, b, e⟩
    · split
      · split
        · exact e
        · exact b
        · exact ⟨a, b, e⟩
      · split
        · split
          · exact ⟨a, b, e⟩
          · split
            · split
              · exact e
              · exact ⟨a, trivial, e⟩
            · exact ⟨a, ihl, e⟩
        · split
          · exact ⟨a, b, e⟩
          · split
            · split
              · exact b
              · exact ⟨a, b, trivial⟩
            · exact ⟨a, b, ihr⟩

theorem isNil_false_of_ne {t : Node α} (h : t = nil → False) : t.isNil = false := by
  cases t with
  | nil => exact absurd rfl h
  | node _ _ _ _ => rfl

theorem deleteInternal_spec {p : Pfx} (hp : p.WF W) : ∀ {t : Node α}, t.Inv W →
    (t.deleteInternal W p).Inv W ∧
      ∀ q w, ((q, w) ∈ (t.deleteInternal W p).toList ↔ q ≠ p ∧ (q, w) ∈ t.toList)
  | .nil, _ => ⟨trivial, fun q w => by simp [deleteInternal, toList]⟩
  | .node c d l r, hi => by
    have hc := hi.1
    have ihl := deleteInternal_spec hp hi.2.2.2.1
    have ihr := deleteInternal_spec hp hi.2.2.2.2.1
    have hml : ∀ {q w}, (q, w) ∈ l.toList → Under W c 0 q := fun h => (All.mem hi.2.1 h).2
    have hmr : ∀ {q w}, (q, w) ∈ r.toList → Under W c 1 q := fun h => (All.mem hi.2.2.1 h).2
    unfold deleteInternal
    split
    · rename_i hnc
      refine ⟨hi, fun q w => ⟨fun h => ⟨?_, h⟩, fun h => h.2⟩⟩
      intro e
      have := contains_of_covers hc hp (e ▸ (Inv.mem_root hi h).2)
      simp [this] at hnc
    · split
      · rename_i he
        subst he
        have hnl : ∀ {q w}, (q, w) ∈ l.toList → q ≠ p := fun h => (hml h).ne_self
        have hnr : ∀ {q w}, (q, w) ∈ r.toList → q ≠ p := fun h => (hmr h).ne_self
        split
        · refine ⟨hi.2.2.2.2.1, fun q w => ?_⟩
          rw [mem_toList_node]
          have := @not_mem_nil α q w
          grind
        · refine ⟨hi.2.2.2.1, fun q w => ?_⟩
          rw [mem_toList_node]
          have := @not_mem_nil α q w
          grind
        · rename_i h1 h2
          refine ⟨⟨hc, hi.2.1, hi.2.2.1, hi.2.2.2.1, hi.2.2.2.2.1, fun _ => ⟨isNil_false_of_ne (h1 · ), isNil_false_of_ne ?_⟩⟩, fun q w => ?_⟩
          · exact h2
          · rw [mem_toList_node, mem_toList_node]
            grind
      · rename_i hcont hne
        have hcne : ∀ {q : Pfx}, q = c → q ≠ p := fun h e => hne (e ▸ h)
        split
        · rename_i hb
          have hnr : ∀ {q w}, (q, w) ∈ r.toList → q ≠ p :=
            fun h => not_mem_other (hmr h) (by unfold Pfx.bit; omega)
          split
          · refine ⟨hi, fun q w => ?_⟩
            rw [mem_toList_node]
            have := @not_mem_nil α q w
            grind
          · rename_i hln
            split
            · rename_i heq
              rw [heq] at ihl
              have hl0 : ∀ {q w}, (q, w) ∈ l.toList → q = p := by
                intro q w h
                have := (ihl.2 q w).2
                have := @not_mem_nil α q w
                grind
              split
              · rename_i hd
                refine ⟨hi.2.2.2.2.1, fun q w => ?_⟩
                rw [mem_toList_node]
                have hdn : d = none := by cases d <;> simp_all
                grind
              · rename_i hd
                refine ⟨⟨hc, trivial, hi.2.2.1, trivial, hi.2.2.2.2.1, fun h => by simp [h] at hd⟩, fun q w => ?_⟩
                rw [mem_toList_node, mem_toList_node]
                have := @not_mem_nil α q w
                grind
            · rename_i hdn
              refine ⟨⟨hc, deleteInternal_all p hi.2.1, hi.2.2.1, ihl.1, hi.2.2.2.2.1,
                fun h => ⟨isNil_false_of_ne hdn, (hi.2.2.2.2.2 h).2⟩⟩, fun q w => ?_⟩
              rw [mem_toList_node, mem_toList_node, ihl.2]
              grind
        · rename_i hb
          have hnl : ∀ {q w}, (q, w) ∈ l.toList → q ≠ p :=
            fun h => not_mem_other (hml h) hb
          split
          · refine ⟨hi, fun q w => ?_⟩
            rw [mem_toList_node]
            have := @not_mem_nil α q w
            grind
          · rename_i hrn
            split
            · rename_i heq
              rw [heq] at ihr
              have hr0 : ∀ {q w}, (q, w) ∈ r.toList → q = p := by
                intro q w h
                have := (ihr.2 q w).2
                have := @not_mem_nil α q w
                grind
              split
              · rename_i hd
                refine ⟨hi.2.2.2.1, fun q w => ?_⟩
                rw [mem_toList_node]
                have hdn : d = none := by cases d <;> simp_all
                grind
              · rename_i hd
                refine ⟨⟨hc, hi.2.1, trivial, hi.2.2.2.1, trivial, fun h => by simp [h] at hd⟩, fun q w => ?_⟩
                rw [mem_toList_node, mem_toList_node]
                have := @not_mem_nil α q w
                grind
            · rename_i hdn
              refine ⟨⟨hc, hi.2.1, deleteInternal_all p hi.2.2.1, hi.2.2.2.1, ihr.1,
                fun h => ⟨(hi.2.2.2.2.2 h).1, isNil_false_of_ne hdn⟩⟩, fun q w => ?_⟩
              rw [mem_toList_node, mem_toList_node, ihr.2]
              grind

/-- `CIDRTrie.Delete`: invariant kept, exactly `p` removed. -/
theorem delete_spec {p : Pfx} (hp : p.WF W) {t : Node α} (hi : t.Inv W) :
    (t.delete W p).Inv W ∧ ∀ q w, ((q, w) ∈ (t.delete W p).toList ↔ q ≠ p ∧ (q, w) ∈ t.toList) := by
  cases t with
  | nil => exact ⟨trivial, fun q w => by simp [Node.delete, toList]⟩
  | node c d l r =>
    unfold Node.delete
    simp only
    split
    · rename_i h
      refine ⟨hi, fun q w => ⟨fun hm => ⟨?_, hm⟩, fun hm => hm.2⟩⟩
      intro e
      have := (Inv.mem_root hi hm).2
      rw [e] at this
      exact h ((commonPrefix_eq_left_iff hi.1 hp).2 this)
    · exact deleteInternal_spec hp hi

end CalicoVerif.C36
