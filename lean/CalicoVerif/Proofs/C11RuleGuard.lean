import CalicoVerif.Proofs.C11GuardPorts
import CalicoVerif.Proofs.C11Cidr6
/-!
C11 — the whole match part of a rule (`ruleMatches`, IPv4) is a guard for the
reference `ruleMatch`: discharges the `RuleGuarded` hypothesis of the
compositional layer.
-/
namespace CalicoVerif.C11

/-! `ruleMatches` with the tuple plumbing spelled out through projections. -/
def rmP2 (c : Cfg) (rid : Nat) (r : Rule) : List BEv × Nat :=
  if r.srcNet.isEmpty then ([], 0) else cidrsMatch c.v6 rid 0 false .source r.srcNet
def rmP3 (c : Cfg) (rid : Nat) (r : Rule) : List BEv × Nat :=
  if r.notSrcNet.isEmpty then ([], (rmP2 c rid r).2) else cidrsMatch c.v6 rid (rmP2 c rid r).2 true .source r.notSrcNet
def rmP4 (c : Cfg) (rid : Nat) (r : Rule) (destLeg : Leg) : List BEv × Nat :=
  if r.dstNet.isEmpty then ([], (rmP3 c rid r).2) else cidrsMatch c.v6 rid (rmP3 c rid r).2 false destLeg r.dstNet
def rmP5 (c : Cfg) (rid : Nat) (r : Rule) (destLeg : Leg) : List BEv × Nat :=
  if r.notDstNet.isEmpty then ([], (rmP4 c rid r destLeg).2)
  else cidrsMatch c.v6 rid (rmP4 c rid r destLeg).2 true destLeg r.notDstNet
def rmP7 (c : Cfg) (rid : Nat) (r : Rule) (destLeg : Leg) : List Ev × Nat :=
  if r.dstIpSetIds.isEmpty then ([], (rmP5 c rid r destLeg).2)
  else ipSetOrMatch c rid (rmP5 c rid r destLeg).2 destLeg r.dstIpSetIds
def rmP9 (c : Cfg) (rid : Nat) (r : Rule) (destLeg : Leg) : List BEv × Nat :=
  if r.srcPorts.isEmpty && r.srcNamedPortIpSetIds.isEmpty then ([], (rmP7 c rid r destLeg).2)
  else portsMatch c rid (rmP7 c rid r destLeg).2 false .source r.srcPorts r.srcNamedPortIpSetIds
def rmP10 (c : Cfg) (rid : Nat) (r : Rule) (destLeg : Leg) : List BEv × Nat :=
  if r.notSrcPorts.isEmpty && r.notSrcNamedPortIpSetIds.isEmpty then ([], (rmP9 c rid r destLeg).2)
  else portsMatch c rid (rmP9 c rid r destLeg).2 true .source r.notSrcPorts r.notSrcNamedPortIpSetIds
def rmP11 (c : Cfg) (rid : Nat) (r : Rule) (destLeg : Leg) : List BEv × Nat :=
  if r.dstPorts.isEmpty && r.dstNamedPortIpSetIds.isEmpty then ([], (rmP10 c rid r destLeg).2)
  else portsMatch c rid (rmP10 c rid r destLeg).2 false destLeg r.dstPorts r.dstNamedPortIpSetIds
def rmP12 (c : Cfg) (rid : Nat) (r : Rule) (destLeg : Leg) : List BEv × Nat :=
  if r.notDstPorts.isEmpty && r.notDstNamedPortIpSetIds.isEmpty then ([], (rmP11 c rid r destLeg).2)
  else portsMatch c rid (rmP11 c rid r destLeg).2 true destLeg r.notDstPorts r.notDstNamedPortIpSetIds

theorem ruleMatches_eq (c : Cfg) (rid : Nat) (r : Rule) (destLeg : Leg) :
    ruleMatches c rid r destLeg =
      (optList r.protocol (protoMatch rid false) ++ optList r.notProtocol (protoMatch rid true)).map BEv.ev ++
      (rmP2 c rid r).1 ++ (rmP3 c rid r).1 ++ (rmP4 c rid r destLeg).1 ++ (rmP5 c rid r destLeg).1 ++
      (ipSetMatch c rid false .source r.srcIpSetIds ++ ipSetMatch c rid true .source r.notSrcIpSetIds).map BEv.ev ++
      (rmP7 c rid r destLeg).1.map .ev ++
      (ipSetMatch c rid true destLeg r.notDstIpSetIds ++ ipSetMatch c rid false destLeg r.dstIpPortSetIds).map BEv.ev ++
      (rmP9 c rid r destLeg).1 ++ (rmP10 c rid r destLeg).1 ++ (rmP11 c rid r destLeg).1 ++ (rmP12 c rid r destLeg).1 ++
      (icmpMatch rid false r.icmp ++ icmpMatch rid true r.notIcmp).map BEv.ev := by
  rfl

/-- Guard with rule-private labels only. -/
def GL (env : Env) (st : List Byte) (rid : Nat) (F : List Ev) (b : Bool) : Prop :=
  Guard env st (.ruleNoMatch rid) F b ∧ ∀ l ∈ labelsOf F, l.isPart = true

theorem GL.nil (env : Env) (st : List Byte) (rid : Nat) : GL env st rid [] true :=
  ⟨Guard.nil env st _, by intro l hl; simp [labelsOf] at hl⟩

theorem GL.append {env : Env} {st : List Byte} {rid : Nat} {F1 F2 : List Ev} {b1 b2 : Bool}
    (h1 : GL env st rid F1 b1) (h2 : GL env st rid F2 b2) : GL env st rid (F1 ++ F2) (b1 && b2) := by
  refine ⟨Guard.append h1.1 h2.1 ?_, ?_⟩
  · intro hmem; have := h2.2 _ hmem; simp [Label.isPart] at this
  · intro l hl
    rw [labelsOf_append, List.mem_append] at hl
    rcases hl with hl | hl
    · exact h1.2 l hl
    · exact h2.2 l hl

theorem GL.congr {env : Env} {st : List Byte} {rid : Nat} {F : List Ev} {b b' : Bool}
    (h : GL env st rid F b) (e : b = b') : GL env st rid F b' := e ▸ h

/-- What the API guarantees about a rule (and the builder's `protocolToNumber` knows its protocols). -/
structure RuleOK (r : Rule) : Prop where
  proto : ∀ pr, r.protocol = some pr → ProtoOK pr
  notProto : ∀ pr, r.notProtocol = some pr → ProtoOK pr
  ids : ∀ id ∈ r.ipSetIDs, id < 2 ^ 64
  ports : ∀ pr ∈ r.srcPorts ++ r.notSrcPorts ++ r.dstPorts ++ r.notDstPorts, PortOK pr

theorem gl_proto (env : Env) (st : List Byte) (hc : SetCtx env st) (rid : Nat) (neg : Bool) (o : Option Proto)
    (h : ∀ pr, o = some pr → ProtoOK pr) :
    GL env st rid (optList o (protoMatch rid neg))
      (o.all (fun pr => if neg then !(protoIs (pktOfD st) pr) else protoIs (pktOfD st) pr)) := by
  cases o with
  | none => exact GL.nil env st rid
  | some pr =>
    refine ⟨by simpa [optList] using guard_proto env st rid neg pr hc.len (h pr rfl), ?_⟩
    intro l hl
    simp [optList, protoMatch, labelsOf, load8, mk, jumpEqImm64, jumpNEImm64, mkJ] at hl
    cases neg <;> simp [labelsOf] at hl

theorem gl_icmp (env : Env) (st : List Byte) (hc : SetCtx env st) (rid : Nat) (neg : Bool) (ic : Icmp) :
    GL env st rid (icmpMatch rid neg ic)
      (if neg then (ic == .none || !(icmpIs (pktOfD st) ic)) else icmpIs (pktOfD st) ic) := by
  refine ⟨guard_icmp env st rid neg ic hc.len, ?_⟩
  intro l hl
  cases ic <;> cases neg <;>
    simp [icmpMatch, icmpTypeMatch, icmpTypeCodeMatch, labelsOf, load8, load16, mk, jumpEqImm64, jumpNEImm64, mkJ] at hl

theorem gl_cidrs (env : Env) (st : List Byte) (hc : SetCtx env st) (rid part : Nat) (neg : Bool) (leg : Leg)
    (nets : List Net) :
    GL env st rid (flat (cidrsMatch env.c.v6 rid part neg leg nets).1)
      (if neg then !(nets.any (netContains env.c.v6 ((pktOfD st).addr leg)))
       else nets.any (netContains env.c.v6 ((pktOfD st).addr leg))) := by
  cases hv : env.c.v6
  · have hn : netContains false ((pktOfD st).addr leg) = netContains4 ((pktOfD st).addr leg) := by
      funext n; simp [netContains]
    rw [hn]
    obtain ⟨g, hl⟩ := guard_cidrsMatch env st hc.len rid part neg leg nets
    exact ⟨g, fun l hm => by rw [hl l hm]; rfl⟩
  · have hn : netContains true ((pktOfD st).addr leg) = netContains6 ((pktOfD st).addr leg) := by
      funext n; simp [netContains]
    rw [hn]
    exact guard_cidrsMatch6 env st rid part neg leg nets

theorem gl_ipSetMatch (env : Env) (st : List Byte) (hc : SetCtx env st) (rid : Nat) (neg : Bool) (leg : Leg)
    (ids : List Nat) (h : ∀ id ∈ ids, id < 2 ^ 64) :
    GL env st rid (ipSetMatch env.c rid neg leg ids)
      (ids.all (fun id => if neg then !(memRef env (pktOfD st) leg id) else memRef env (pktOfD st) leg id)) := by
  obtain ⟨g, hl⟩ := guard_ipSetMatch env st hc rid neg leg ids h
  exact ⟨g, by rw [hl]; intro l hm; simp at hm⟩

theorem gl_ipSetOr (env : Env) (st : List Byte) (hc : SetCtx env st) (rid part : Nat) (leg : Leg)
    (ids : List Nat) (h : ∀ id ∈ ids, id < 2 ^ 64) :
    GL env st rid (ipSetOrMatch env.c rid part leg ids).1 (ids.any (memRef env (pktOfD st) leg)) := by
  obtain ⟨g, hl⟩ := guard_ipSetOrMatch env st hc rid part leg ids h
  exact ⟨g, by rw [hl]; intro l hm; simp at hm; rw [hm]; rfl⟩

theorem gl_ports (env : Env) (st : List Byte) (hc : SetCtx env st) (rid part : Nat) (neg : Bool) (leg : Leg)
    (ports : List PortRange) (named : List Nat) (hp : ∀ r ∈ ports, PortOK r) (hn : ∀ id ∈ named, id < 2 ^ 64) :
    GL env st rid (flat (portsMatch env.c rid part neg leg ports named).1)
      (if neg then !(portsRef env (pktOfD st) leg ports named) else portsRef env (pktOfD st) leg ports named) := by
  obtain ⟨g, hl⟩ := guard_portsMatch env st hc rid part neg leg ports named hp hn
  exact ⟨g, fun l hm => by obtain ⟨k, e⟩ := hl l hm; rw [e]; rfl⟩

theorem mem_ids {r : Rule} (h : RuleOK r) :
    (∀ id ∈ r.srcIpSetIds, id < 2 ^ 64) ∧ (∀ id ∈ r.notSrcIpSetIds, id < 2 ^ 64) ∧
    (∀ id ∈ r.dstIpSetIds, id < 2 ^ 64) ∧ (∀ id ∈ r.notDstIpSetIds, id < 2 ^ 64) ∧
    (∀ id ∈ r.dstIpPortSetIds, id < 2 ^ 64) ∧ (∀ id ∈ r.srcNamedPortIpSetIds, id < 2 ^ 64) ∧
    (∀ id ∈ r.notSrcNamedPortIpSetIds, id < 2 ^ 64) ∧ (∀ id ∈ r.dstNamedPortIpSetIds, id < 2 ^ 64) ∧
    (∀ id ∈ r.notDstNamedPortIpSetIds, id < 2 ^ 64) := by
  have := h.ids
  unfold Rule.ipSetIDs at this
  simp only [List.mem_append] at this
  refine ⟨?_, ?_, ?_, ?_, ?_, ?_, ?_, ?_, ?_⟩ <;> intro id hid <;> apply this <;> simp [hid]

theorem mem_ports {r : Rule} (h : RuleOK r) :
    (∀ pr ∈ r.srcPorts, PortOK pr) ∧ (∀ pr ∈ r.notSrcPorts, PortOK pr) ∧
    (∀ pr ∈ r.dstPorts, PortOK pr) ∧ (∀ pr ∈ r.notDstPorts, PortOK pr) := by
  have := h.ports
  simp only [List.mem_append] at this
  refine ⟨?_, ?_, ?_, ?_⟩ <;> intro pr hpr <;> apply this <;> simp [hpr]

/-- **The match part of a rule is a guard for the reference `ruleMatch`** (IPv4). -/
theorem ruleMatches_guard (env : Env) (st : List Byte) (hc : SetCtx env st) (rid : Nat) (r : Rule) (destLeg : Leg)
    (hok : RuleOK r) :
    GL env st rid (flat (ruleMatches env.c rid r destLeg)) (ruleMatch env (pktOfD st) destLeg r) := by
  obtain ⟨i1, i2, i3, i4, i5, i6, i7, i8, i9⟩ := mem_ids hok
  obtain ⟨q1, q2, q3, q4⟩ := mem_ports hok
  rw [ruleMatches_eq env.c rid r destLeg]
  simp only [flat_append, flat_map_ev]
  -- the pieces
  have g1 := GL.append (gl_proto env st hc rid false r.protocol hok.proto) (gl_proto env st hc rid true r.notProtocol hok.notProto)
  have g2 : GL env st rid (flat (rmP2 env.c rid r).1)
      (r.srcNet.isEmpty || r.srcNet.any (netContains env.c.v6 (pktOfD st).src)) := by
    unfold rmP2
    by_cases h : r.srcNet.isEmpty = true
    · simp only [h, if_true, Bool.true_or, flat]; exact GL.nil env st rid
    · have h' : r.srcNet.isEmpty = false := by simpa using h
      simp only [h', Bool.false_eq_true, if_false, Bool.false_or]
      exact gl_cidrs env st hc rid 0 false .source r.srcNet
  have g3 : GL env st rid (flat (rmP3 env.c rid r).1)
      (r.notSrcNet.all (fun n => !netContains env.c.v6 (pktOfD st).src n)) := by
    unfold rmP3
    by_cases h : r.notSrcNet.isEmpty = true
    · have : r.notSrcNet = [] := by simpa using h
      simp only [h, if_true, flat, this, List.all_nil]; exact GL.nil env st rid
    · have h' : r.notSrcNet.isEmpty = false := by simpa using h
      simp only [h', Bool.false_eq_true, if_false]
      exact (gl_cidrs env st hc rid _ true .source r.notSrcNet).congr (by simp [List.not_any_eq_all_not, Pkt.addr])
  have g4 : GL env st rid (flat (rmP4 env.c rid r destLeg).1)
      (r.dstNet.isEmpty || r.dstNet.any (netContains env.c.v6 ((pktOfD st).addr destLeg))) := by
    unfold rmP4
    by_cases h : r.dstNet.isEmpty = true
    · simp only [h, if_true, Bool.true_or, flat]; exact GL.nil env st rid
    · have h' : r.dstNet.isEmpty = false := by simpa using h
      simp only [h', Bool.false_eq_true, if_false, Bool.false_or]
      exact gl_cidrs env st hc rid _ false destLeg r.dstNet
  have g5 : GL env st rid (flat (rmP5 env.c rid r destLeg).1)
      (r.notDstNet.all (fun n => !netContains env.c.v6 ((pktOfD st).addr destLeg) n)) := by
    unfold rmP5
    by_cases h : r.notDstNet.isEmpty = true
    · have : r.notDstNet = [] := by simpa using h
      simp only [h, if_true, flat, this, List.all_nil]; exact GL.nil env st rid
    · have h' : r.notDstNet.isEmpty = false := by simpa using h
      simp only [h', Bool.false_eq_true, if_false]
      exact (gl_cidrs env st hc rid _ true destLeg r.notDstNet).congr (by simp [List.not_any_eq_all_not])
  have g6 := GL.append (gl_ipSetMatch env st hc rid false .source r.srcIpSetIds i1)
    (gl_ipSetMatch env st hc rid true .source r.notSrcIpSetIds i2)
  have g7 : GL env st rid (rmP7 env.c rid r destLeg).1
      (r.dstIpSetIds.isEmpty || r.dstIpSetIds.any (memRef env (pktOfD st) destLeg)) := by
    unfold rmP7
    by_cases h : r.dstIpSetIds.isEmpty = true
    · simp only [h, if_true, Bool.true_or]; exact GL.nil env st rid
    · have h' : r.dstIpSetIds.isEmpty = false := by simpa using h
      simp only [h', Bool.false_eq_true, if_false, Bool.false_or]
      exact gl_ipSetOr env st hc rid _ destLeg r.dstIpSetIds i3
  have g8 := GL.append (gl_ipSetMatch env st hc rid true destLeg r.notDstIpSetIds i4)
    (gl_ipSetMatch env st hc rid false destLeg r.dstIpPortSetIds i5)
  have g9 : GL env st rid (flat (rmP9 env.c rid r destLeg).1)
      ((r.srcPorts.isEmpty && r.srcNamedPortIpSetIds.isEmpty) ||
        portsRef env (pktOfD st) .source r.srcPorts r.srcNamedPortIpSetIds) := by
    unfold rmP9
    by_cases h : (r.srcPorts.isEmpty && r.srcNamedPortIpSetIds.isEmpty) = true
    · simp only [h, if_true, Bool.true_or, flat]; exact GL.nil env st rid
    · have h' : (r.srcPorts.isEmpty && r.srcNamedPortIpSetIds.isEmpty) = false := by simpa using h
      simp only [h', Bool.false_eq_true, if_false, Bool.false_or]
      exact gl_ports env st hc rid _ false .source r.srcPorts r.srcNamedPortIpSetIds q1 i6
  have g10 : GL env st rid (flat (rmP10 env.c rid r destLeg).1)
      (!((!(r.notSrcPorts.isEmpty && r.notSrcNamedPortIpSetIds.isEmpty)) &&
        portsRef env (pktOfD st) .source r.notSrcPorts r.notSrcNamedPortIpSetIds)) := by
    unfold rmP10
    by_cases h : (r.notSrcPorts.isEmpty && r.notSrcNamedPortIpSetIds.isEmpty) = true
    · simp only [h, if_true, flat, Bool.not_true, Bool.false_and, Bool.not_false]; exact GL.nil env st rid
    · have h' : (r.notSrcPorts.isEmpty && r.notSrcNamedPortIpSetIds.isEmpty) = false := by simpa using h
      simp only [h', Bool.false_eq_true, if_false, Bool.not_false, Bool.true_and]
      exact gl_ports env st hc rid _ true .source r.notSrcPorts r.notSrcNamedPortIpSetIds q2 i7
  have g11 : GL env st rid (flat (rmP11 env.c rid r destLeg).1)
      ((r.dstPorts.isEmpty && r.dstNamedPortIpSetIds.isEmpty) ||
        portsRef env (pktOfD st) destLeg r.dstPorts r.dstNamedPortIpSetIds) := by
    unfold rmP11
    by_cases h : (r.dstPorts.isEmpty && r.dstNamedPortIpSetIds.isEmpty) = true
    · simp only [h, if_true, Bool.true_or, flat]; exact GL.nil env st rid
    · have h' : (r.dstPorts.isEmpty && r.dstNamedPortIpSetIds.isEmpty) = false := by simpa using h
      simp only [h', Bool.false_eq_true, if_false, Bool.false_or]
      exact gl_ports env st hc rid _ false destLeg r.dstPorts r.dstNamedPortIpSetIds q3 i8
  have g12 : GL env st rid (flat (rmP12 env.c rid r destLeg).1)
      (!((!(r.notDstPorts.isEmpty && r.notDstNamedPortIpSetIds.isEmpty)) &&
        portsRef env (pktOfD st) destLeg r.notDstPorts r.notDstNamedPortIpSetIds)) := by
    unfold rmP12
    by_cases h : (r.notDstPorts.isEmpty && r.notDstNamedPortIpSetIds.isEmpty) = true
    · simp only [h, if_true, flat, Bool.not_true, Bool.false_and, Bool.not_false]; exact GL.nil env st rid
    · have h' : (r.notDstPorts.isEmpty && r.notDstNamedPortIpSetIds.isEmpty) = false := by simpa using h
      simp only [h', Bool.false_eq_true, if_false, Bool.not_false, Bool.true_and]
      exact gl_ports env st hc rid _ true destLeg r.notDstPorts r.notDstNamedPortIpSetIds q4 i9
  have g13 := GL.append (gl_icmp env st hc rid false r.icmp) (gl_icmp env st hc rid true r.notIcmp)
  have G := (((((((((((g1.append g2).append g3).append g4).append g5).append g6).append g7).append g8).append g9).append
    g10).append g11).append g12).append g13
  refine G.congr ?_
  simp only [ruleMatch, portsRef, Bool.and_assoc, Bool.false_eq_true, if_false, if_true]
  rfl

theorem RuleOK.filter {r fr : Rule} {v6 : Bool} (hok : RuleOK r) (h : filterRule v6 r = some fr) : RuleOK fr := by
  unfold filterRule at h
  repeat' split at h
  all_goals first | (cases h; done) | skip
  all_goals (
    cases h
    exact ⟨hok.proto, hok.notProto, hok.ids, hok.ports⟩)

/-- **`RuleGuarded` holds for every API-valid rule** (IPv4 program, distinct map FDs). -/
theorem ruleGuarded_v4 (env : Env) (st : List Byte) (hc : SetCtx env st) (r : Rule) (hok : RuleOK r) :
    RuleGuarded env st (pktOfD st) r := by
  intro fr hf rid leg
  exact ruleMatches_guard env st hc rid fr leg (hok.filter hf)

end CalicoVerif.C11
