import CalicoVerif.Proofs.C07Inv
/-! C07 helper lemmas: every InheritIndex operation preserves `Inv`. -/
namespace CalicoVerif.C07
open CalicoVerif.C06

/-- effective labels as a function of the parents map alone. -/
def effP (ps : List (Str × List (Str × Str))) (it : Item) : Labels := effLabels { parents := ps } it

theorem effLabels_eq_effP (st : Idx) (it : Item) : effLabels st it = effP st.parents it :=
  effLabels_congr it (fun _ _ => rfl)

theorem inv_sound' {st : Idx} (h : Inv st) (q : Nat × Nat) : q ∈ st.matched ↔
    ∃ n it, lookup q.1 st.sels = some n ∧ lookup q.2 st.items = some it ∧ n.eval (effP st.parents it) = true := by
  have := h.sound q
  simpa only [effLabels_eq_effP] using this

theorem inv_matched_sel {st : Idx} (h : Inv st) {q : Nat × Nat} (hq : q ∈ st.matched) :
    lookup q.1 st.sels ≠ none := by
  obtain ⟨n, it, h1, _, _⟩ := (h.sound q).mp hq
  simp [h1]

theorem inv_matched_item {st : Idx} (h : Inv st) {q : Nat × Nat} (hq : q ∈ st.matched) :
    lookup q.2 st.items ≠ none := by
  obtain ⟨n, it, _, h2, _⟩ := (h.sound q).mp hq
  simp [h2]

theorem updateLabels_inv {st : Idx} (h : Inv st) (id : Nat) (labels : List (Str × Str)) (parents : List Str) :
    Inv (updateLabels st id labels parents).1 := by
  unfold updateLabels
  simp only []
  refine ⟨h.selsNodup, keysNodup_insert id _ h.itemsNodup, scanSelectors_nodup _ _ _ _ h.matchedNodup, ?_⟩
  intro q
  simp only []
  rw [mem_scanSelectors _ _ _ _ h.selsNodup, lookup_insert]
  simp only [effLabels_eq_effP]
  obtain ⟨q1, q2⟩ := q
  by_cases hq : q2 = id
  · subst hq
    simp only [if_true, true_and, ne_eq, not_true_eq_false, false_or]
    constructor
    · rintro (⟨n, h1, h2⟩ | ⟨h1, h2⟩)
      · exact ⟨n, _, h1, rfl, h2⟩
      · exact absurd h1 (inv_matched_sel h h2)
    · rintro ⟨n, it, h1, h2, h3⟩
      cases h2
      exact Or.inl ⟨n, h1, h3⟩
  · have hq' : ¬ id = q2 := fun e => hq e.symm
    simp only [hq, hq', if_false, false_and, false_or, ne_eq, not_false_eq_true, true_or, true_and]
    exact inv_sound' h (q1, q2)

theorem updateSelector_go_inv {st : Idx} (h : Inv st) (id : Nat) (n : Node) :
    Inv (updateSelector.go st id n).1 := by
  unfold updateSelector.go
  simp only []
  refine ⟨keysNodup_insert id _ h.selsNodup, h.itemsNodup, scanItems_nodup _ _ _ _ h.matchedNodup, ?_⟩
  intro q
  simp only []
  rw [mem_scanItems _ _ _ _ h.itemsNodup, lookup_insert]
  simp only [effLabels_eq_effP]
  obtain ⟨q1, q2⟩ := q
  by_cases hq : q1 = id
  · subst hq
    simp only [if_true, true_and, ne_eq, not_true_eq_false, false_or]
    constructor
    · rintro (⟨it, h1, h2⟩ | ⟨h1, h2⟩)
      · exact ⟨n, it, rfl, h1, h2⟩
      · exact absurd h1 (inv_matched_item h h2)
    · rintro ⟨n', it, h1, h2, h3⟩
      cases h1
      exact Or.inl ⟨it, h2, h3⟩
  · have hq' : ¬ id = q1 := fun e => hq e.symm
    simp only [hq, hq', if_false, false_and, false_or, ne_eq, not_false_eq_true, true_or, true_and]
    exact inv_sound' h (q1, q2)

theorem updateSelector_inv {st : Idx} (h : Inv st) (id : Nat) (n : Node) : Inv (updateSelector st id n).1 := by
  unfold updateSelector
  split
  · split
    · exact h
    · exact updateSelector_go_inv h id n
  · exact updateSelector_go_inv h id n

theorem deleteSelector_inv {st : Idx} (h : Inv st) (id : Nat) : Inv (deleteSelector st id).1 := by
  unfold deleteSelector dropMatches
  simp only []
  refine ⟨keysNodup_erase id h.selsNodup, h.itemsNodup, h.matchedNodup.filter _, ?_⟩
  intro q
  simp only [List.mem_filter, lookup_erase, effLabels_eq_effP, inv_sound' h q]
  by_cases hq : q.1 = id
  · simp [hq]
  · simp [hq]

theorem deleteLabels_inv {st : Idx} (h : Inv st) (id : Nat) : Inv (deleteLabels st id).1 := by
  unfold deleteLabels dropMatches
  simp only []
  refine ⟨h.selsNodup, keysNodup_erase id h.itemsNodup, h.matchedNodup.filter _, ?_⟩
  intro q
  simp only [List.mem_filter, lookup_erase, effLabels_eq_effP, inv_sound' h q]
  by_cases hq : q.2 = id
  · simp [hq]
  · simp [hq]

/-- shared part of `UpdateParentLabels` / `DeleteParentLabels`: the parents map
changes only at `pid`, then the children of `pid` are re-scanned. -/
theorem flushChildren_inv {st : Idx} (h : Inv st) (pid : Str) (ps : List (Str × List (Str × Str)))
    (hps : ∀ p, p ≠ pid → lookup p ps = lookup p st.parents) :
    Inv { st with parents := ps,
                  matched := (flushItems { st with parents := ps } (children { st with parents := ps } pid) st.matched).1 } := by
  have hchildNodup : KeysNodup (children { st with parents := ps } pid) := by
    unfold children KeysNodup
    have := h.itemsNodup
    unfold KeysNodup at this
    exact (List.Nodup.sublist (List.Sublist.map _ List.filter_sublist) this)
  refine ⟨h.selsNodup, h.itemsNodup, flushItems_nodup _ _ h.matchedNodup, ?_⟩
  intro q
  simp only []
  rw [mem_flushItems { st with parents := ps } h.selsNodup _ hchildNodup]
  have hlk : lookup q.2 (children { st with parents := ps } pid) =
      match lookup q.2 st.items with
      | some it => if it.parents.contains pid then some it else none
      | none => none := by
    unfold children
    rw [lookup_filter_of_keysNodup _ _ h.itemsNodup]
    cases lookup q.2 st.items <;> rfl
  rw [hlk]
  simp only [effLabels_eq_effP]
  cases hit : lookup q.2 st.items with
  | none =>
    simp only [true_or, true_and]
    constructor
    · rintro (⟨it, n, h1, _⟩ | h2)
      · cases h1
      · exact absurd hit (inv_matched_item h h2)
    · rintro ⟨n, it, _, h2, _⟩
      cases h2
  | some it =>
    by_cases hc : it.parents.contains pid = true
    · simp only [hc, if_true]
      constructor
      · rintro (⟨it', n, h1, h2, h3⟩ | ⟨h1 | h1, h2⟩)
        · cases h1; exact ⟨n, it, h2, rfl, h3⟩
        · cases h1
        · exact absurd h1 (inv_matched_sel h h2)
      · rintro ⟨n, it', h1, h2, h3⟩
        cases h2
        exact Or.inl ⟨it, n, rfl, h1, h3⟩
    · simp only [hc, Bool.false_eq_true, if_false, true_or, true_and]
      have hsame : effP ps it = effP st.parents it := by
        unfold effP
        apply effLabels_congr
        intro p hp
        apply hps
        rintro rfl
        exact hc (by simpa using hp)
      constructor
      · rintro (⟨it', n, h1, _⟩ | h2)
        · cases h1
        · obtain ⟨n, it', h1, h2', h3⟩ := (inv_sound' h q).mp h2
          rw [hit] at h2'; cases h2'
          exact ⟨n, it, h1, rfl, by rw [hsame]; exact h3⟩
      · rintro ⟨n, it', h1, h2, h3⟩
        cases h2
        exact Or.inr ((inv_sound' h q).mpr ⟨n, it, h1, hit, by rw [← hsame]; exact h3⟩)

theorem updateParentLabels_inv {st : Idx} (h : Inv st) (pid : Str) (labels : List (Str × Str)) :
    Inv (updateParentLabels st pid labels).1 := by
  unfold updateParentLabels
  exact flushChildren_inv h pid _ (fun p hp => by rw [lookup_insert]; simp [Ne.symm hp])

theorem deleteParentLabels_inv {st : Idx} (h : Inv st) (pid : Str) : Inv (deleteParentLabels st pid).1 := by
  unfold deleteParentLabels
  exact flushChildren_inv h pid _ (fun p hp => by rw [lookup_erase]; simp [hp])

end CalicoVerif.C07
