import CalicoVerif.Proofs.C17e
set_option linter.unusedSimpArgs false
namespace CalicoVerif.C17

/-- The kernel agrees with what Felix wants, for Felix's routes: every desired route is in the kernel exactly,
and every kernel route that is Felix's (`routeIsOurs`) is the desired route of its destination. -/
def Converged (w : W) : Prop :=
  (∀ c r, w.t.desired c = some r → w.K.get c = some r) ∧
  (∀ c r, w.K.get c = some r → w.t.owns r = true → w.t.desired c = some r)

theorem passes_converged (w : W) (hv : ViewExact w) (hok : w.passes.2 = false) (hrs : w.passes.1.t.rescan = []) :
    Converged w.passes.1 := by
  obtain ⟨h1, h2, hs⟩ := passes_converge w hv hok hrs
  refine ⟨?_, ?_⟩
  · intro c r hd; rw [desired_congr hs c] at hd; exact h1 c r hd
  · intro c r hk ho
    rw [owns_congr hs r] at ho
    rw [desired_congr hs c]
    cases hd : w.t.desired c with
    | none => have := h2 c r hd hk; rw [this] at ho; simp at ho
    | some r' => have := h1 c r' hd; rw [this] at hk; exact hk

theorem attempt_full (w : W) (hf : w.t.fullResync = true) :
    w.attempt = if w.fullResync.2 then (w.fullResync.1, true) else w.fullResync.1.passes := by
  unfold W.attempt W.passes
  simp only [hf, if_true]

theorem attempt_incr (w : W) (hf : w.t.fullResync = false) : w.attempt = w.resyncIfaces.passes := by
  unfold W.attempt W.passes
  simp [hf]

theorem sortS_nil : sortS [] = [] := by simp [sortS]

theorem resyncIfaces_nil (w : W) (h : w.t.rescan = []) : w.resyncIfaces = w := by
  unfold W.resyncIfaces
  rw [h, sortS_nil]; rfl

/-- A failed full resync leaves the kernel alone and stays pending. -/
theorem fullResync_fail (w : W) (h : w.fullResync.2 = true) :
    w.fullResync.1.K = w.K ∧ w.fullResync.1.t.fullResync = w.t.fullResync ∧ w.fullResync.1.kif = w.kif := by
  unfold W.fullResync at h ⊢
  by_cases h1 : w.f.linkList = true
  · rw [if_pos h1]; exact ⟨rfl, rfl, rfl⟩
  · rw [if_neg h1] at h ⊢
    dsimp only at h ⊢
    by_cases h2 : w.f.routeList = true
    · rw [if_pos h2]; exact ⟨rfl, (refreshAll_frame w.t w.kif).2.2.2.2, rfl⟩
    · rw [if_neg h2] at h; simp at h

theorem fullResync_K (w : W) : w.fullResync.1.K = w.K ∧ w.fullResync.1.kif = w.kif := by
  unfold W.fullResync
  split
  · exact ⟨rfl, rfl⟩
  · dsimp only; split <;> exact ⟨rfl, rfl⟩

/-- **One attempt with a full resync.** -/
theorem attempt_converges (w : W) (hf : w.t.fullResync = true) (hn : w.K.keys.Nodup)
    (hok : w.attempt.2 = false) (hrs : w.attempt.1.t.rescan = []) :
    Converged w.attempt.1 ∧ ViewExact w.attempt.1 ∧ w.attempt.1.t.fullResync = false ∧ w.attempt.1.K.keys.Nodup := by
  rw [attempt_full w hf] at hok hrs ⊢
  cases hfr : w.fullResync.2 with
  | true => rw [hfr] at hok; simp at hok
  | false =>
    simp only [hfr, Bool.false_eq_true, if_false] at hok hrs ⊢
    have hv := fullResync_view w hn hfr
    have hp := passes_pres w.fullResync.1
    refine ⟨passes_converged _ hv hok hrs, hp.2.2.2.2.1 hv, ?_, hp.2.2.2.1 (by rw [(fullResync_K w).1]; exact hn)⟩
    rw [hp.2.2.1, fullResync_ok w hfr]; rfl

theorem apply_eq (w : W) :
    w.apply = if w.attempt.2 || !w.attempt.1.t.rescan.isEmpty
      then (w.attempt.1.attempt.1, w.attempt.1.attempt.2 || !w.attempt.1.attempt.1.t.rescan.isEmpty)
      else (w.attempt.1, w.attempt.2 || !w.attempt.1.t.rescan.isEmpty) := by
  unfold W.apply
  cases h : w.attempt with
  | mk w1 e1 =>
    dsimp only
    split
    · cases h2 : w1.attempt with
      | mk w2 e2 => rfl
    · rfl

theorem isEmpty_false_nil {l : List String} (h : (!l.isEmpty) = false) : l = [] := by
  cases l with
  | nil => rfl
  | cons a l => simp at h

/-- **Apply with a full resync pending** (partial: the first attempt must not leave an interface queued for a
per-interface rescan, i.e. no RouteReplace failed on an interface that is down in the kernel). -/
theorem apply_converges_full (w : W) (hf : w.t.fullResync = true) (hn : w.K.keys.Nodup)
    (hq : w.attempt.1.t.rescan = []) (hok : w.apply.2 = false) : Converged w.apply.1 := by
  rw [apply_eq] at hok ⊢
  cases he : w.attempt.2 with
  | false =>
    simp only [he, hq, List.isEmpty_nil, Bool.not_true, Bool.or_false, Bool.false_eq_true, if_false] at hok ⊢
    exact (attempt_converges w hf hn he hq).1
  | true =>
    simp only [he, Bool.true_or, if_true, Bool.or_eq_false_iff] at hok ⊢
    obtain ⟨hok2, hrs2⟩ := hok
    have hrs2' := isEmpty_false_nil hrs2
    -- why did the first attempt fail?
    rw [attempt_full w hf] at he hq hok2 hrs2' ⊢
    cases hfr : w.fullResync.2 with
    | true =>
      simp only [hfr, if_true] at he hq hok2 hrs2' ⊢
      obtain ⟨f1, f2, _⟩ := fullResync_fail w hfr
      exact (attempt_converges _ (by rw [f2]; exact hf) (by rw [f1]; exact hn) hok2 hrs2').1
    | false =>
      simp only [hfr, Bool.false_eq_true, if_false] at he hq hok2 hrs2' ⊢
      have hv := fullResync_view w hn hfr
      have hp := passes_pres w.fullResync.1
      have hf1 : w.fullResync.1.passes.1.t.fullResync = false := by
        rw [hp.2.2.1, fullResync_ok w hfr]; rfl
      rw [attempt_incr _ hf1, resyncIfaces_nil _ hq] at hok2 hrs2' ⊢
      exact passes_converged _ (hp.2.2.2.2.1 hv) hok2 hrs2'

end CalicoVerif.C17
