import CalicoVerif.Model.C18
/-! Helper lemmas for C18: Go-map lemmas, the tracker seen at one key (`P`),
locality of every operation, and the generic "fold of key-local steps" lemma. -/
namespace CalicoVerif.C18
variable {K V : Type} [DecidableEq K]

/-! ### Go maps -/

@[grind =] theorem get_del (m : GoMap K V) (k k' : K) :
    get (del m k) k' = if k = k' then none else get m k' := by
  unfold del
  induction m with
  | nil => simp [get]
  | cons p r ih =>
    obtain ⟨a, b⟩ := p
    by_cases hak : a = k
    · subst hak
      by_cases h : a = k' <;> simp_all [List.filter, get]
    · by_cases h : k = k' <;> simp_all [List.filter, get]

@[grind =] theorem get_set (m : GoMap K V) (k k' : K) (v : V) :
    get (set m k v) k' = if k = k' then some v else get m k' := by
  unfold set
  simp only [get, get_del]
  split <;> simp_all

@[simp] theorem get_nil (k : K) : get ([] : GoMap K V) k = none := rfl

theorem get_eq_none_iff (m : GoMap K V) (k : K) : get m k = none ↔ k ∉ keys m := by
  induction m with
  | nil => simp [get, keys]
  | cons p r ih =>
    obtain ⟨a, b⟩ := p
    by_cases h : a = k
    · simp [get, keys, h]
    · simp only [get, h, if_false, ih, keys, List.map_cons, List.mem_cons]
      constructor
      · intro h1 h2; rcases h2 with h2 | h2
        · exact h h2.symm
        · exact h1 h2
      · intro h1 h2; exact h1 (Or.inr h2)

/-- At most one entry per key. -/
def NodupKeys (m : GoMap K V) : Prop := (keys m).Nodup

theorem nodupKeys_nil : NodupKeys ([] : GoMap K V) := by simp [NodupKeys, keys]

theorem keys_del_sub (m : GoMap K V) (k x : K) : x ∈ keys (del m k) → x ∈ keys m ∧ x ≠ k := by
  unfold keys del
  simp only [List.mem_map, List.mem_filter]
  rintro ⟨p, ⟨hp, hne⟩, rfl⟩
  exact ⟨⟨p, hp, rfl⟩, by simpa using hne⟩

theorem nodupKeys_del (m : GoMap K V) (k : K) (h : NodupKeys m) : NodupKeys (del m k) := by
  unfold NodupKeys keys del at *
  induction m with
  | nil => simp
  | cons p r ih =>
    simp only [List.map_cons, List.nodup_cons] at h
    simp only [List.filter]
    split
    · simp only [List.map_cons, List.nodup_cons]
      refine ⟨?_, ih h.2⟩
      intro hm
      have := (keys_del_sub r k p.1 (by simpa [keys, del] using hm)).1
      exact h.1 (by simpa [keys] using this)
    · exact ih h.2

theorem nodupKeys_set (m : GoMap K V) (k : K) (v : V) (h : NodupKeys m) : NodupKeys (set m k v) := by
  unfold set
  have h2 := nodupKeys_del m k h
  unfold NodupKeys keys at *
  simp only [List.map_cons, List.nodup_cons]
  refine ⟨?_, h2⟩
  intro hm
  exact (keys_del_sub m k k (by simpa [keys] using hm)).2 rfl

theorem get_eq_some_iff (m : GoMap K V) (h : NodupKeys m) (k : K) (v : V) :
    get m k = some v ↔ (k, v) ∈ m := by
  induction m with
  | nil => simp [get]
  | cons p r ih =>
    obtain ⟨a, b⟩ := p
    have h' : a ∉ keys r ∧ NodupKeys r := by simpa [NodupKeys, keys] using h
    by_cases hak : a = k
    · subst hak
      simp only [get, if_true, List.mem_cons, Prod.mk.injEq, true_and]
      constructor
      · intro e; left; simpa using e.symm
      · rintro (e | e)
        · simp [e]
        · exfalso; exact h'.1 (by simpa [keys] using ⟨v, e⟩)
    · simp only [get, hak, if_false, ih h'.2, List.mem_cons, Prod.mk.injEq]
      constructor
      · intro e; exact Or.inr e
      · rintro (e | e)
        · exact absurd e.1.symm hak
        · exact e

/-- With one entry per key, the entries for key `k` are `[(k, v)]` or nothing. -/
theorem filter_key (m : GoMap K V) (h : NodupKeys m) (k : K) :
    m.filter (fun x => decide (x.1 = k)) = match get m k with
      | some v => [(k, v)]
      | none => [] := by
  induction m with
  | nil => simp [get]
  | cons p r ih =>
    obtain ⟨a, b⟩ := p
    have h' : a ∉ keys r ∧ NodupKeys r := by simpa [NodupKeys, keys] using h
    by_cases hak : a = k
    · subst hak
      have hn : get r a = none := (get_eq_none_iff r a).2 h'.1
      have := ih h'.2
      rw [hn] at this
      simp [List.filter, get, this]
    · simp [List.filter, get, hak, ih h'.2]

theorem perm_get (m m' : GoMap K V) (hp : m.Perm m') (h : NodupKeys m') (k : K) : get m k = get m' k := by
  have hm : NodupKeys m := by
    unfold NodupKeys keys at *
    exact (hp.map _).nodup_iff.2 h
  cases e : get m' k with
  | some v =>
    exact (get_eq_some_iff m hm k v).2 (hp.mem_iff.2 ((get_eq_some_iff m' h k v).1 e))
  | none =>
    cases e' : get m k with
    | none => rfl
    | some w =>
      have := (get_eq_some_iff m' h k w).2 (hp.mem_iff.1 ((get_eq_some_iff m hm k w).1 e'))
      rw [e] at this; cases this

/-! ### Folding key-local steps -/

/-- If every step only changes the projection at its own key, the projection at `k'`
after a fold is the fold of the per-key function over the items with key `k'`. -/
theorem fold_local {S α Q : Type} (step : S → α → S) (key : α → K) (pr : S → K → Q) (f : Q → α → Q)
    (hloc : ∀ s x k', pr (step s x) k' = if key x = k' then f (pr s k') x else pr s k')
    (xs : List α) (s : S) (k' : K) :
    pr (xs.foldl step s) k' = (xs.filter (fun x => decide (key x = k'))).foldl f (pr s k') := by
  induction xs generalizing s with
  | nil => rfl
  | cons x r ih =>
    simp only [List.foldl_cons, ih, hloc, List.filter]
    by_cases h : key x = k' <;> simp [h]

/-! ### The tracker at one key -/

/-- (inDataplaneAndDesired[k], inDataplaneNotDesired[k], desiredUpdates[k]). -/
structure P (V : Type) where
  a : Option V
  b : Option V
  c : Option V

def proj (t : Tracker K V) (k : K) : P V := ⟨get t.dd k, get t.dn k, get t.du k⟩

/-- Desired view at one key. -/
def P.des (p : P V) : Option V := match p.c with
  | some v => some v
  | none => p.a
/-- Dataplane view at one key. -/
def P.dp (p : P V) : Option V := match p.a with
  | some v => some v
  | none => p.b

theorem desiredGet_eq (t : Tracker K V) (k : K) : desiredGet t k = (proj t k).des := rfl
theorem dataplaneGet_eq (t : Tracker K V) (k : K) : dataplaneGet t k = (proj t k).dp := rfl

def dSetAt (eqv : V → V → Bool) (p : P V) (v : V) : P V :=
  match p.b with
  | some cur => ⟨some cur, none, if eqv cur v then none else some v⟩
  | none =>
    match p.a with
    | some cur => ⟨p.a, none, if eqv cur v then none else some v⟩
    | none => ⟨none, none, some v⟩

theorem proj_dSet (eqv : V → V → Bool) (t : Tracker K V) (k k' : K) (v : V) :
    proj (dSet eqv t k v) k' = if k = k' then dSetAt eqv (proj t k') v else proj t k' := by
  unfold dSet dSetAt proj
  cases h1 : get t.dn k <;> cases h2 : get t.dd k <;> by_cases hk : k = k' <;>
    simp [hk] <;> grind

def dDelAt (p : P V) : P V :=
  ⟨none, (match p.a with
    | some cur => some cur
    | none => p.b), none⟩

theorem proj_dDel (t : Tracker K V) (k k' : K) :
    proj (dDel t k) k' = if k = k' then dDelAt (proj t k') else proj t k' := by
  unfold dDel dDelAt proj
  cases h1 : get t.du k <;> cases h2 : get t.dd k <;> by_cases hk : k = k' <;>
    simp [hk, h2] <;> grind

def pSetAt (eqv : V → V → Bool) (p : P V) (v : V) : P V :=
  match p.des with
  | some dv => ⟨some v, p.b, if !eqv dv v then some dv else none⟩
  | none => ⟨p.a, some v, p.c⟩

theorem proj_pSet (eqv : V → V → Bool) (t : Tracker K V) (k k' : K) (v : V) :
    proj (pSet eqv t k v) k' = if k = k' then pSetAt eqv (proj t k') v else proj t k' := by
  unfold pSet pSetAt
  rw [desiredGet_eq]
  by_cases hk : k = k'
  · subst hk
    cases h1 : (proj t k).des <;> simp [proj] <;> grind
  · cases h1 : (proj t k).des <;> simp [proj, hk] <;> grind

def pDelAt (p : P V) : P V :=
  ⟨none, none, match p.des with
    | some dv => some dv
    | none => p.c⟩

theorem proj_pDel (t : Tracker K V) (k k' : K) :
    proj (pDel t k) k' = if k = k' then pDelAt (proj t k') else proj t k' := by
  unfold pDel pDelAt
  rw [desiredGet_eq]
  by_cases hk : k = k'
  · subst hk
    cases h1 : (proj t k).des <;> simp [proj] <;> grind
  · cases h1 : (proj t k).des <;> simp [proj, hk] <;> grind

def applyUpdAt (p : P V) (v : V) : P V := ⟨some v, p.b, none⟩

theorem proj_applyUpd (t : Tracker K V) (kv : K × V) (k' : K) :
    proj (applyUpd t kv) k' = if kv.1 = k' then applyUpdAt (proj t k') kv.2 else proj t k' := by
  unfold applyUpd applyUpdAt proj
  by_cases hk : kv.1 = k' <;> simp [hk] <;> grind

def applyDelAt (p : P V) : P V := ⟨p.a, none, p.c⟩

theorem proj_applyDel (t : Tracker K V) (k k' : K) :
    proj (applyDel t k) k' = if k = k' then applyDelAt (proj t k') else proj t k' := by
  unfold applyDel applyDelAt proj
  by_cases hk : k = k' <;> simp [hk] <;> grind


/-! ### Invariant and abstraction at one key -/

def Sym (eqv : V → V → Bool) : Prop := ∀ a b, eqv a b = eqv b a
def Refl (eqv : V → V → Bool) : Prop := ∀ a, eqv a a = true

/-- The partition invariant at one key: a key is in at most one of the two in-dataplane maps,
a key with a pending update is not pending deletion, and a pending update that sits on top
of an in-dataplane value differs from it. -/
def P.Inv (eqv : V → V → Bool) (p : P V) : Prop :=
  (p.a ≠ none → p.b = none) ∧ (p.c ≠ none → p.b = none) ∧
  (∀ v w, p.c = some v → p.a = some w → eqv v w = false)

/-- The specification state at one key: (desired[k], dataplane[k]). -/
abbrev S1 (V : Type) := Option V × Option V

def P.abs (p : P V) : S1 V := (p.des, p.dp)

/-- pending update ⇔ desired and (absent from the dataplane or different there). -/
def pendU (eqv : V → V → Bool) (s : S1 V) : Bool :=
  match s.1 with
  | some v => (match s.2 with
    | some w => !eqv v w
    | none => true)
  | none => false

/-- pending deletion ⇔ in the dataplane and not desired. -/
def pendX (s : S1 V) : Bool := s.2.isSome && s.1.isNone

theorem P.pendU_exact (eqv : V → V → Bool) (hr : Refl eqv) (p : P V) (h : p.Inv eqv) :
    p.c = if pendU eqv p.abs then p.des else none := by
  obtain ⟨a, b, c⟩ := p
  unfold P.Inv at h
  unfold pendU P.abs P.des P.dp
  have := hr
  unfold Refl at this
  cases a <;> cases b <;> cases c <;> simp_all

theorem P.pendX_exact (eqv : V → V → Bool) (p : P V) (h : p.Inv eqv) :
    p.b = if pendX p.abs then p.dp else none := by
  obtain ⟨a, b, c⟩ := p
  unfold P.Inv at h
  unfold pendX P.abs P.des P.dp
  cases a <;> cases b <;> cases c <;> simp_all

def sDSet (eqv : V → V → Bool) (s : S1 V) (v : V) : S1 V :=
  ((match s.2 with
    | some w => if eqv w v then some w else some v
    | none => some v), s.2)
def sDDel (s : S1 V) : S1 V := (none, s.2)
def sPSet (eqv : V → V → Bool) (s : S1 V) (v : V) : S1 V :=
  ((match s.1 with
    | some dv => if eqv dv v then some v else some dv
    | none => none), some v)
def sPDel (s : S1 V) : S1 V := (s.1, none)
def sRepl (eqv : V → V → Bool) (fail : Bool) (s : S1 V) (item : Option V) : S1 V :=
  ((match s.1, item with
    | some dv, some v => if eqv dv v then some v else some dv
    | d, _ => d),
   (match item with
    | some v => some v
    | none => if fail then s.2 else none))
def sUIter (eqv : V → V → Bool) (upd : Bool) (s : S1 V) : S1 V :=
  if upd && pendU eqv s then (s.1, s.1) else s
def sXIter (upd : Bool) (s : S1 V) : S1 V :=
  if upd && pendX s then (s.1, none) else s

theorem dSetAt_ok (eqv : V → V → Bool) (hs : Sym eqv) (p : P V) (v : V) (h : p.Inv eqv) :
    (dSetAt eqv p v).Inv eqv ∧ (dSetAt eqv p v).abs = sDSet eqv p.abs v := by
  obtain ⟨a, b, c⟩ := p
  unfold P.Inv at *
  have := hs
  unfold Sym at this
  unfold dSetAt sDSet P.abs P.des P.dp
  cases a <;> cases b <;> cases c <;> simp_all <;> grind

theorem dDelAt_ok (eqv : V → V → Bool) (p : P V) (h : p.Inv eqv) :
    (dDelAt p).Inv eqv ∧ (dDelAt p).abs = sDDel p.abs := by
  obtain ⟨a, b, c⟩ := p
  unfold P.Inv at *
  unfold dDelAt sDDel P.abs P.des P.dp
  cases a <;> cases b <;> cases c <;> simp_all

theorem pSetAt_ok (eqv : V → V → Bool) (p : P V) (v : V) (h : p.Inv eqv) :
    (pSetAt eqv p v).Inv eqv ∧ (pSetAt eqv p v).abs = sPSet eqv p.abs v := by
  obtain ⟨a, b, c⟩ := p
  unfold P.Inv at *
  unfold pSetAt sPSet P.abs P.des P.dp
  cases a <;> cases b <;> cases c <;> simp_all <;> grind

theorem pDelAt_ok (eqv : V → V → Bool) (p : P V) (h : p.Inv eqv) :
    (pDelAt p).Inv eqv ∧ (pDelAt p).abs = sPDel p.abs := by
  obtain ⟨a, b, c⟩ := p
  unfold P.Inv at *
  unfold pDelAt sPDel P.abs P.des P.dp
  cases a <;> cases b <;> cases c <;> simp_all

/-- `PendingUpdatesView.Iter` at one key: only a pending update (c = some v) is visited. -/
def uIterAt (upd : Bool) (p : P V) : P V :=
  match p.c with
  | some v => if upd then applyUpdAt p v else p
  | none => p

theorem uIterAt_ok (eqv : V → V → Bool) (hr : Refl eqv) (upd : Bool) (p : P V) (h : p.Inv eqv) :
    (uIterAt upd p).Inv eqv ∧ (uIterAt upd p).abs = sUIter eqv upd p.abs := by
  obtain ⟨a, b, c⟩ := p
  unfold P.Inv at *
  have := hr
  unfold Refl at this
  unfold uIterAt applyUpdAt sUIter pendU P.abs P.des P.dp
  cases a <;> cases b <;> cases c <;> cases upd <;> simp_all

def xIterAt (upd : Bool) (p : P V) : P V := if upd then applyDelAt p else p

theorem xIterAt_ok (eqv : V → V → Bool) (upd : Bool) (p : P V) (h : p.Inv eqv) :
    (xIterAt upd p).Inv eqv ∧ (xIterAt upd p).abs = sXIter upd p.abs := by
  obtain ⟨a, b, c⟩ := p
  unfold P.Inv at *
  unfold xIterAt applyDelAt sXIter pendX P.abs P.des P.dp
  cases a <;> cases b <;> cases c <;> cases upd <;> simp_all

/-- `ReplaceAllIter` at one key; `item` = what the iterator yields for this key. -/
def replAt (eqv : V → V → Bool) (fail : Bool) (p : P V) (item : Option V) : P V :=
  match item with
  | some v =>
    (match p.des with
     | some dv => ⟨some v, none, if eqv dv v then none else some dv⟩
     | none => ⟨none, some v, p.c⟩)
  | none =>
    if fail then p
    else ⟨none, none, match p.a with
      | some w => (match p.c with
        | some x => some x
        | none => some w)
      | none => p.c⟩

theorem replAt_ok (eqv : V → V → Bool) (fail : Bool) (p : P V) (item : Option V) (h : p.Inv eqv) :
    (replAt eqv fail p item).Inv eqv ∧ (replAt eqv fail p item).abs = sRepl eqv fail p.abs item := by
  obtain ⟨a, b, c⟩ := p
  unfold P.Inv at *
  unfold replAt sRepl P.abs P.des P.dp
  cases a <;> cases b <;> cases c <;> cases item <;> cases fail <;> simp_all <;> grind

/-! ### The iterating operations -/

theorem foldl_const_idem {α Q : Type} (g : Q → Q) (hg : ∀ q, g (g q) = g q) (xs : List α) (q : Q) :
    xs.foldl (fun q _ => g q) q = if xs = [] then q else g q := by
  induction xs generalizing q with
  | nil => rfl
  | cons x r ih =>
    simp only [List.foldl_cons, ih]
    by_cases h : r = [] <;> simp [h, hg]

theorem foldl_congr_mem {α Q : Type} (f f' : Q → α → Q) (xs : List α)
    (h : ∀ x ∈ xs, ∀ q, f q x = f' q x) (q : Q) : xs.foldl f q = xs.foldl f' q := by
  induction xs generalizing q with
  | nil => rfl
  | cons x r ih =>
    simp only [List.foldl_cons]
    rw [h x (by simp), ih (fun y hy => h y (by simp [hy]))]

theorem P.eta (p : P V) : (⟨p.a, p.b, p.c⟩ : P V) = p := rfl

theorem proj_uIter (t : Tracker K V) (ord : List (K × V)) (act : K → Act)
    (hp : ord.Perm t.du) (hn : NodupKeys t.du) (k' : K) :
    proj (uIter t ord act) k' = uIterAt (decide (act k' = .update)) (proj t k') := by
  unfold uIter
  rw [fold_local _ (fun kv : K × V => kv.1) proj
    (fun p kv => match act kv.1 with
      | .update => applyUpdAt p kv.2
      | .noop => p
      | .stop => p)]
  · have hno : NodupKeys ord := by
      unfold NodupKeys keys at *
      exact (hp.map _).nodup_iff.2 hn
    rw [filter_key ord hno k', perm_get ord t.du hp hn k']
    unfold uIterAt
    have : (proj t k').c = get t.du k' := rfl
    rw [this]
    cases get t.du k' with
    | none => rfl
    | some v => cases h : act k' <;> simp [h]
  · intro s x k''
    cases h : act x.1 <;> simp [proj_applyUpd] <;> split <;> simp_all

theorem proj_xIter (t : Tracker K V) (ord : List K) (act : K → Act)
    (hm : ∀ k, k ∈ ord ↔ k ∈ keys t.dn) (k' : K) :
    proj (xIter t ord act) k' = xIterAt (decide (act k' = .update)) (proj t k') := by
  unfold xIter
  rw [fold_local _ (fun k : K => k) proj
    (fun p k => match act k with
      | .update => applyDelAt p
      | .noop => p
      | .stop => p)]
  · rw [foldl_congr_mem _ (fun p _ => xIterAt (decide (act k' = .update)) p)]
    · rw [foldl_const_idem]
      · split
        · rename_i he
          have hk : k' ∉ ord := by
            intro hmem
            have : k' ∈ ord.filter (fun x => decide (x = k')) := by simp [hmem]
            rw [he] at this; cases this
          have hb : (proj t k').b = none := (get_eq_none_iff t.dn k').2 (fun h => hk ((hm k').2 h))
          unfold xIterAt applyDelAt
          split
          · rw [← hb]
          · rfl
        · rfl
      · intro q; unfold xIterAt applyDelAt; split <;> rfl
    · intro x hx q
      have : x = k' := by simpa using (List.mem_filter.1 hx).2
      subst this
      unfold xIterAt
      cases h : act x <;> simp
  · intro s x k''
    cases h : act x <;> simp [proj_applyDel] <;> split <;> simp_all

theorem dDelAt_idem (p : P V) : dDelAt (dDelAt p) = dDelAt p := by
  unfold dDelAt; rfl

theorem proj_fold_dDel (t : Tracker K V) (ks : List K) (k' : K) :
    proj (ks.foldl dDel t) k' = if k' ∈ ks then dDelAt (proj t k') else proj t k' := by
  rw [fold_local dDel (fun k : K => k) proj (fun p _ => dDelAt p) (fun s x k'' => proj_dDel s x k'')]
  rw [foldl_const_idem _ dDelAt_idem]
  by_cases h : k' ∈ ks
  · have : ks.filter (fun x => decide (x = k')) ≠ [] := by
      intro he
      have : k' ∈ ks.filter (fun x => decide (x = k')) := by simp [h]
      rw [he] at this; cases this
    simp [this, h]
  · have : ks.filter (fun x => decide (x = k')) = [] := by
      apply List.filter_eq_nil_iff.2
      intro x hx; simp; rintro rfl; exact h hx
    simp [this, h]

theorem proj_dDelAll (t : Tracker K V) (k' : K) :
    proj (dDelAll t) k' = dDelAt (proj t k') := by
  unfold dDelAll
  simp only [proj_fold_dDel]
  have hc : (proj t k').c = none ↔ k' ∉ keys t.du := get_eq_none_iff t.du k'
  by_cases h1 : k' ∈ keys t.du
  · simp only [h1, if_true]
    split <;> simp [dDelAt_idem]
  · simp only [h1, if_false]
    split
    · rfl
    · rename_i h2
      have hcn := hc.2 h1
      have ha : (proj t k').a = none := by
        cases ha : (proj t k').a with
        | none => rfl
        | some w =>
          exfalso; apply h2
          simp only [List.mem_filter]
          constructor
          · have : get ((keys t.du).foldl dDel t).dd k' = (proj ((keys t.du).foldl dDel t) k').a := rfl
            have h3 := proj_fold_dDel t (keys t.du) k'
            simp only [h1, if_false] at h3
            apply Classical.byContradiction
            intro hnm
            have := (get_eq_none_iff _ k').2 hnm
            rw [show get ((keys t.du).foldl dDel t).dd k' = (proj ((keys t.du).foldl dDel t) k').a from rfl, h3, ha] at this
            cases this
          · have h3 := proj_fold_dDel t (keys t.du) k'
            simp only [h1, if_false] at h3
            have : get ((keys t.du).foldl dDel t).du k' = (proj ((keys t.du).foldl dDel t) k').c := rfl
            rw [this, h3, hcn]; rfl
      unfold dDelAt
      rw [ha]
      have := P.eta (proj t k')
      rw [ha, hcn] at this
      exact this.symm

/-! ### ReplaceAllIter -/

structure Q (V : Type) where
  du : Option V
  oldD : Option V
  oldN : Option V
  newD : Option V
  newN : Option V

def projR (r : RState K V) (k : K) : Q V :=
  ⟨get r.du k, get r.oldD k, get r.oldN k, get r.newD k, get r.newN k⟩

def replVisitAt (eqv : V → V → Bool) (q : Q V) (v : V) : Q V :=
  match (match q.du with
    | some x => some x
    | none => q.oldD) with
  | some dv => if eqv dv v then ⟨none, none, none, some v, q.newN⟩ else ⟨some dv, none, none, some v, q.newN⟩
  | none => ⟨q.du, none, none, q.newD, some v⟩

theorem projR_visit (eqv : V → V → Bool) (r : RState K V) (kv : K × V) (k' : K) :
    projR (replVisit eqv r kv) k' = if kv.1 = k' then replVisitAt eqv (projR r k') kv.2 else projR r k' := by
  unfold replVisit replVisitAt projR
  by_cases hk : kv.1 = k'
  · subst hk
    cases h1 : get r.du kv.1 <;> cases h2 : get r.oldD kv.1 <;> simp <;> grind
  · cases h1 : get r.du kv.1 <;> cases h2 : get r.oldD kv.1 <;> simp [hk] <;> grind

theorem get_copyInto (dst src : GoMap K V) (h : NodupKeys src) (k : K) :
    get (copyInto dst src) k = match get src k with
      | some x => some x
      | none => get dst k := by
  unfold copyInto
  rw [fold_local (fun m (kv : K × V) => set m kv.1 kv.2) (fun kv => kv.1) get (fun _ kv => some kv.2)]
  · rw [filter_key src h k]
    cases get src k <;> rfl
  · intro s x k''
    simp [get_set]

theorem get_fold_replMissing (m du : GoMap K V) (k : K) :
    get (m.foldl replMissing du) k = match get m k with
      | some w => (match get du k with
        | some x => some x
        | none => some w)
      | none => get du k := by
  induction m generalizing du with
  | nil => rfl
  | cons p r ih =>
    obtain ⟨a, b⟩ := p
    simp only [List.foldl_cons, ih]
    have h1 : get (replMissing du (a, b)) k =
        if a = k then (match get du k with
          | some x => some x
          | none => some b) else get du k := by
      unfold replMissing
      by_cases hak : a = k
      · subst hak; cases h : get du a <;> simp [get_set]
      · cases h : get du a <;> simp [get_set, hak]
    rw [h1]
    by_cases hak : a = k
    · subst hak
      cases h2 : get du a <;> cases h3 : get r a <;> simp [get]
    · simp [get, hak]

def RWF (r : RState K V) : Prop := NodupKeys r.newD ∧ NodupKeys r.newN

theorem rwf_visit (eqv : V → V → Bool) (r : RState K V) (kv : K × V) (h : RWF r) : RWF (replVisit eqv r kv) := by
  unfold replVisit RWF at *
  obtain ⟨h1, h2⟩ := h
  have s1 := nodupKeys_set r.newD kv.1 kv.2 h1
  have s2 := nodupKeys_set r.newN kv.1 kv.2 h2
  dsimp only
  split <;> (try split) <;> exact ⟨by assumption, by assumption⟩

theorem rwf_fold (eqv : V → V → Bool) (items : List (K × V)) (r : RState K V) (h : RWF r) :
    RWF (items.foldl (replVisit eqv) r) := by
  induction items generalizing r with
  | nil => exact h
  | cons x xs ih => exact ih _ (rwf_visit eqv r x h)

theorem proj_repl (eqv : V → V → Bool) (t : Tracker K V) (items : List (K × V)) (fail : Bool)
    (hn : NodupKeys items) (k' : K) :
    proj (replaceAllIter eqv t items fail).1 k' = replAt eqv fail (proj t k') (get items k') := by
  have hq := fold_local (replVisit eqv) (fun kv : K × V => kv.1) projR (fun q kv => replVisitAt eqv q kv.2)
    (fun s x k'' => projR_visit eqv s x k'') items
    { du := t.du, oldD := t.dd, oldN := t.dn, newD := [], newN := [] } k'
  have hwf := rwf_fold eqv items { du := t.du, oldD := t.dd, oldN := t.dn, newD := [], newN := [] }
    ⟨nodupKeys_nil, nodupKeys_nil⟩
  rw [filter_key items hn k'] at hq
  unfold replaceAllIter
  generalize items.foldl (replVisit eqv) { du := t.du, oldD := t.dd, oldN := t.dn, newD := [], newN := [] } = r at hq hwf
  have e1 : get r.du k' = (projR r k').du := rfl
  have e2 : get r.oldD k' = (projR r k').oldD := rfl
  have e3 : get r.oldN k' = (projR r k').oldN := rfl
  have e4 : get r.newD k' = (projR r k').newD := rfl
  have e5 : get r.newN k' = (projR r k').newN := rfl
  cases fail
  · simp only [Bool.false_eq_true, if_false]
    unfold proj
    simp only [get_fold_replMissing, e1, e2, e4, e5, hq]
    unfold replAt replVisitAt projR P.des
    cases hi : get items k' <;> cases h1 : get t.du k' <;> cases h2 : get t.dd k' <;> simp <;> grind
  · simp only [if_true]
    unfold proj
    simp only [get_copyInto _ _ hwf.1, get_copyInto _ _ hwf.2, e1, e2, e3, e4, e5, hq]
    unfold replAt replVisitAt projR P.des
    cases hi : get items k' <;> cases h1 : get t.du k' <;> cases h2 : get t.dd k' <;> simp <;> grind

/-! ### IterBatched -/

theorem scan_spec {α : Type} (key : α → K) (F : K → Bool) (n : Nat) (buf : List α) :
    (scan key F n buf).1 ++ (scan key F n buf).2.filter (fun x => !F (key x)) = buf.filter (fun x => !F (key x)) ∧
    ((0 < n ∧ buf ≠ []) → (scan key F n buf).2.length < buf.length) ∧
    (scan key F n buf).2.length ≤ buf.length := by
  induction buf generalizing n with
  | nil => cases n <;> simp [scan]
  | cons x r ih =>
    cases n with
    | zero => simp [scan]
    | succ n =>
      simp only [scan]
      by_cases hF : F (key x) = true
      · simp [hF, List.filter]
      · have hF' : F (key x) = false := by simpa using hF
        have := ih n
        simp only [hF', Bool.false_eq_true, if_false, List.filter, Bool.not_false]
        refine ⟨by simpa using this.1, fun _ => ?_, ?_⟩
        · simp; omega
        · simp; omega

theorem batchCall_spec {α : Type} (key : α → K) (F : K → Bool) (c : Nat) (buf : List α) :
    (batchCall key F c buf).2 ++ (batchCall key F c buf).1.filter (fun x => !F (key x)) =
      buf.filter (fun x => !F (key x)) ∧
    (buf ≠ [] → (batchCall key F c buf).1.length < buf.length) := by
  unfold batchCall
  have := scan_spec key F (if c = 0 then buf.length else c) buf
  refine ⟨this.1, fun hne => this.2.1 ⟨?_, hne⟩⟩
  split
  · cases buf with
    | nil => exact absurd rfl hne
    | cons => simp
  · omega

theorem batchLoop_spec {α : Type} (key : α → K) (B : Nat) (F : K → Bool) (c : Nat)
    (rest buf done : List α) :
    (batchLoop key B F c rest buf done).2 ++ (batchLoop key B F c rest buf done).1.filter (fun x => !F (key x)) =
      done ++ buf.filter (fun x => !F (key x)) ++ rest.filter (fun x => !F (key x)) := by
  induction rest generalizing buf done with
  | nil => simp [batchLoop]
  | cons x r ih =>
    simp only [batchLoop]
    split
    · have := (batchCall_spec key F c (buf ++ [x])).1
      rw [ih]
      simp only [List.append_assoc]
      rw [← List.append_assoc (batchCall key F c (buf ++ [x])).2, this]
      simp [List.filter_append, List.filter]
      cases F (key x) <;> simp
    · rw [ih]
      simp [List.filter_append, List.filter]
      cases F (key x) <;> simp

theorem batchTail_spec {α : Type} (key : α → K) (F : K → Bool) (c : Nat) (fuel : Nat) (buf done : List α)
    (h : buf.length ≤ fuel) :
    batchTail key F c fuel buf done = done ++ buf.filter (fun x => !F (key x)) := by
  induction fuel generalizing buf done with
  | zero =>
    have : buf = [] := List.eq_nil_of_length_eq_zero (by omega)
    simp [batchTail, this]
  | succ n ih =>
    simp only [batchTail]
    by_cases he : buf = []
    · simp [he]
    · have hs := batchCall_spec key F c buf
      simp only [List.isEmpty_iff, he, if_false]
      rw [ih _ _ (by have := hs.2 he; omega), List.append_assoc, hs.1]

/-- `IterBatched` applies exactly the offered items whose key is not in `F`, in order. -/
theorem batchedApplied_eq {α : Type} (key : α → K) (B : Nat) (F : K → Bool) (c : Nat) (ord : List α) :
    batchedApplied key B F c ord = ord.filter (fun x => !F (key x)) := by
  unfold batchedApplied
  have h := batchLoop_spec key B F c ord [] []
  generalize batchLoop key B F c ord [] [] = pr at h
  obtain ⟨buf, done⟩ := pr
  simp only at h ⊢
  rw [batchTail_spec key F c _ _ _ (Nat.le_refl _), h]
  simp

theorem foldl_filter {α S : Type} (p : α → Bool) (f : S → α → S) (xs : List α) (s : S) :
    (xs.filter p).foldl f s = xs.foldl (fun s x => if p x then f s x else s) s := by
  induction xs generalizing s with
  | nil => rfl
  | cons x r ih =>
    simp only [List.filter, List.foldl_cons]
    cases p x <;> simp [ih]


theorem uBatched_eq_uIter (t : Tracker K V) (B : Nat) (F : K → Bool) (c : Nat) (ord : List (K × V)) :
    uBatched t B F c ord = uIter t ord (batchAct F) := by
  unfold uBatched uIter batchAct
  rw [batchedApplied_eq, foldl_filter]
  apply foldl_congr_mem
  intro x _ q
  cases F x.1 <;> simp

theorem xBatched_eq_xIter (t : Tracker K V) (B : Nat) (F : K → Bool) (c : Nat) (ord : List K) :
    xBatched t B F c ord = xIter t ord (batchAct F) := by
  unfold xBatched xIter batchAct
  rw [batchedApplied_eq, foldl_filter]
  apply foldl_congr_mem
  intro x _ q
  cases F x <;> simp

end CalicoVerif.C18
