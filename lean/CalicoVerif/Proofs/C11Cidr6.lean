import CalicoVerif.Proofs.C11GuardCidr
/-!
C11 — guard for the IPv6 CIDR fragment of `writeCIDRSMatch`: up to four 32-bit sections, each
masked and compared in memory byte order, with an early exit to the per-CIDR end label.
-/
namespace CalicoVerif.C11

/-- The three instructions that leave `mask & word` (memory order) in R2. -/
def sec3 (off : Nat) (M : BitVec 32) : List Ev :=
  [load32 R1 R9 (off : Int), movImm32 R2 (rev32bv M).toInt, and32 R2 R1]

/-- What the section test decides about the word at `off`. -/
def secHit (st : List Byte) (off : Nat) (M A : BitVec 32) : Bool :=
  rev32bv (BitVec.ofNat 32 (fieldN st off 4)) &&& M == A &&& M

theorem lrun_sec3 (env : Env) (st : List Byte) (off : Nat) (hoff : off + 4 ≤ 512)
    (hstab : ∀ j, off ≤ j → j < off + 4 → Stable j) (M A : BitVec 32) (rest : List Ev) (m : Mach) (hI : Inv st m) :
    ∃ m3 X, Inv st m3 ∧ m3.reg 2 = some X ∧
      (X.setWidth 32 == (sext32 (rev32bv (A &&& M)).toInt).setWidth 32) = secHit st off M A ∧
      lrun env (sec3 off M ++ rest) m = lrun env rest m3 := by
  have hlen := hI.stLen
  have rl : ∀ {mm : Mach}, Inv st mm → ∀ r, r < 11 → r < mm.regs.length := fun h r hr => by rw [h.regsLen]; exact hr
  have e1 := step_ldx_state (env := env) hI opLoadReg32 1 off 4 0 (bs := (st.drop off).take 4)
    (hop := Or.inr (Or.inr (Or.inl ⟨rfl, rfl⟩))) (hd := by omega) (hk := hoff)
    (hb := getBytes_full hlen off 4 hoff) (hstab := hstab)
  have hI1 := hI.setReg 1 (BitVec.ofNat 64 (fieldN st off 4)) (by omega) (by omega) (by omega)
  have hI2 := hI1.setReg 2 (((sext32 (rev32bv M).toInt).setWidth 32).setWidth 64)
    (by omega) (by omega) (by omega)
  have hr2 : ((m.setReg 1 (BitVec.ofNat 64 (fieldN st off 4))).setReg 2
      (((sext32 (rev32bv M).toInt).setWidth 32).setWidth 64)).reg 2 = some _ :=
    reg_setReg_eq (rl hI1 2 (by omega))
  have hr1 : ((m.setReg 1 (BitVec.ofNat 64 (fieldN st off 4))).setReg 2
      (((sext32 (rev32bv M).toInt).setWidth 32).setWidth 64)).reg 1 =
      some (BitVec.ofNat 64 (fieldN st off 4)) := by
    rw [reg_setReg_ne (by omega)]; exact reg_setReg_eq (rl hI 1 (by omega))
  have e3 := fun nxt => step_and32 env _ 2 1 0 0 nxt _ _ (by omega) hr2 hr1
  have hI3 := hI2.setReg 2 (((((sext32 (rev32bv M).toInt).setWidth 32).setWidth 64).setWidth 32 &&&
    (BitVec.ofNat 64 (fieldN st off 4)).setWidth 32).setWidth 64) (by omega) (by omega) (by omega)
  refine ⟨_, _, hI3, reg_setReg_eq (rl hI2 2 (by omega)), ?_, ?_⟩
  · rw [sext_toInt32, sext_toInt32]
    have h64 : ∀ y : BitVec 32, (y.setWidth 64).setWidth 32 = y := by
      intro y; apply BitVec.eq_of_toNat_eq; simp only [BitVec.toNat_setWidth]; have := y.isLt; omega
    rw [h64, h64]
    have hw : (BitVec.ofNat 64 (fieldN st off 4)).setWidth 32 = BitVec.ofNat 32 (fieldN st off 4) := by
      apply BitVec.eq_of_toNat_eq; simp only [BitVec.toNat_setWidth, BitVec.toNat_ofNat]; omega
    rw [hw, secHit, cidr_test_iff]
  · simp only [sec3, load32, movImm32, and32, mk, R1, R2, R9, List.cons_append, List.nil_append]
    refine (lrun_ins_next (e1 _)).trans ?_
    refine (lrun_ins_next (step_movImm32 env _ 2 0 _ _ (by omega))).trans ?_
    exact lrun_ins_next (e3 _)

theorem step_jne32 (env : Env) (m : Mach) (d : Nat) (imm : Int) (v : Word) (hv : m.reg d = some v) :
    step env ⟨opJumpNEImm32, d, 0, 0, imm⟩ none m =
      if v.setWidth 32 == (sext32 imm).setWidth 32 then .next m else .taken m := by
  rw [step_jcond32 (env := env) opJumpNEImm32 d 0 imm none v (Or.inr rfl) hv]
  simp only [cond, opJumpNEImm32, bne]
  cases h : (v.setWidth 32 == (sext32 imm).setWidth 32) <;> simp

/-- A non-final section: fall through on a hit, else continue at `E`. -/
theorem guard_secNE (env : Env) (st : List Byte) (off : Nat) (hoff : off + 4 ≤ 512)
    (hstab : ∀ j, off ≤ j → j < off + 4 → Stable j) (M A : BitVec 32) (E : Label) :
    Guard env st E (sec3 off M ++ [jumpNEImm32 R2 (rev32bv (A &&& M)).toInt E]) (secHit st off M A) := by
  intro rest m hI
  obtain ⟨m3, X, hI3, hr, hc, e⟩ := lrun_sec3 env st off hoff hstab M A
    ([jumpNEImm32 R2 (rev32bv (A &&& M)).toInt E] ++ rest) m hI
  refine ⟨m3, hI3, ?_⟩
  rw [List.append_assoc, e]
  have e4 := step_jne32 env m3 2 (rev32bv (A &&& M)).toInt X hr
  rw [hc] at e4
  simp only [jumpNEImm32, mkJ, R2, List.cons_append, List.nil_append]
  cases hb : secHit st off M A with
  | true => rw [hb] at e4; simpa using lrun_jmp_next (by simp [Insn.isJumpOp, opJumpNEImm32]) e4
  | false => rw [hb] at e4; simpa using lrun_jmp_taken (by simp [Insn.isJumpOp, opJumpNEImm32]) e4

/-- The final section when it is section 3 (no early exit): jump to `P` on a hit. -/
theorem decides_fin3 (env : Env) (st : List Byte) (off : Nat) (hoff : off + 4 ≤ 512)
    (hstab : ∀ j, off ≤ j → j < off + 4 → Stable j) (M A : BitVec 32) (P : Label) :
    Decides env st (sec3 off M ++ [jumpEqImm32 R2 (rev32bv (A &&& M)).toInt P])
      (if secHit st off M A then some P else none) := by
  intro rest m hI
  obtain ⟨m3, X, hI3, hr, hc, e⟩ := lrun_sec3 env st off hoff hstab M A
    ([jumpEqImm32 R2 (rev32bv (A &&& M)).toInt P] ++ rest) m hI
  refine ⟨m3, hI3, ?_⟩
  rw [List.append_assoc, e]
  have e4 := step_jeq32 env m3 2 (rev32bv (A &&& M)).toInt X hr
  rw [hc] at e4
  simp only [jumpEqImm32, mkJ, R2, List.cons_append, List.nil_append]
  cases hb : secHit st off M A with
  | true => rw [hb] at e4; simpa using lrun_jmp_taken (by simp [Insn.isJumpOp, opJumpEqImm32]) e4
  | false => rw [hb] at e4; simpa using lrun_jmp_next (by simp [Insn.isJumpOp, opJumpEqImm32]) e4

/-- The final section when it is an earlier one: the early exit, then the (now certain) jump to `P`. -/
theorem decides_finNE (env : Env) (st : List Byte) (off : Nat) (hoff : off + 4 ≤ 512)
    (hstab : ∀ j, off ≤ j → j < off + 4 → Stable j) (M A : BitVec 32) (P E : Label) :
    Decides env st (sec3 off M ++ [jumpNEImm32 R2 (rev32bv (A &&& M)).toInt E,
        jumpEqImm32 R2 (rev32bv (A &&& M)).toInt P])
      (if secHit st off M A then some P else some E) := by
  intro rest m hI
  obtain ⟨m3, X, hI3, hr, hc, e⟩ := lrun_sec3 env st off hoff hstab M A
    ([jumpNEImm32 R2 (rev32bv (A &&& M)).toInt E, jumpEqImm32 R2 (rev32bv (A &&& M)).toInt P] ++ rest) m hI
  refine ⟨m3, hI3, ?_⟩
  rw [List.append_assoc, e]
  have e4 := step_jne32 env m3 2 (rev32bv (A &&& M)).toInt X hr
  have e5 := step_jeq32 env m3 2 (rev32bv (A &&& M)).toInt X hr
  rw [hc] at e4 e5
  simp only [jumpNEImm32, jumpEqImm32, mkJ, R2, List.cons_append, List.nil_append]
  cases hb : secHit st off M A with
  | true =>
    rw [hb] at e4 e5
    rw [lrun_jmp_next (by simp [Insn.isJumpOp, opJumpNEImm32]) (by simpa using e4)]
    rw [lrun_jmp_taken (by simp [Insn.isJumpOp, opJumpEqImm32]) (by simpa using e5)]
    simp
  | false =>
    rw [hb] at e4
    rw [lrun_jmp_taken (by simp [Insn.isJumpOp, opJumpNEImm32]) (by simpa using e4)]
    simp only [Bool.false_eq_true, if_false]
    rw [goto_cons_jmp]


/-! ### The shape of one IPv6 CIDR test -/

def secM (n : Net) (s : Nat) : BitVec 32 := BitVec.ofNat 32 (mask128Word n.pfx s)
def secA (n : Net) (s : Nat) : BitVec 32 := BitVec.ofNat 32 (word128 n.addr s)
def secImm (n : Net) (s : Nat) : Int := (rev32bv (secA n s &&& secM n s)).toInt

theorem toInt32_rev32 (x : Nat) : toInt32 (rev32 x) = (rev32bv (BitVec.ofNat 32 x)).toInt := by
  unfold toInt32 rev32
  rw [BitVec.ofNat_toNat, BitVec.setWidth_eq]

theorem toInt32_secImm (n : Net) (s : Nat) :
    toInt32 (rev32 (word128 n.addr s &&& mask128Word n.pfx s)) = secImm n s := by
  rw [toInt32_rev32, BitVec.ofNat_and]
  rfl

theorem toInt32_secM (n : Net) (s : Nat) :
    toInt32 (rev32 (mask128Word n.pfx s)) = (rev32bv (secM n s)).toInt := toInt32_rev32 _

theorem Leg.off6 (leg : Leg) (s : Nat) : leg.ipOff + 4 * (s : Int) = ((leg.ipo + 4 * s : Nat) : Int) := by
  rw [Leg.ipOff_eq]; push_cast; rfl

/-- A non-final section. -/
def secNE (leg : Leg) (rid idx : Nat) (n : Net) (s : Nat) : List Ev :=
  sec3 (leg.ipo + 4 * s) (secM n s) ++ [jumpNEImm32 R2 (secImm n s) (.cidrEnd rid idx)]

/-- The last emitted section `k`, the jump to the match label and the end label. -/
def secFin (leg : Leg) (rid idx : Nat) (P : Label) (n : Net) (k : Nat) : List Ev :=
  sec3 (leg.ipo + 4 * k) (secM n k) ++
    ((if k = 3 then [] else [jumpNEImm32 R2 (secImm n k) (.cidrEnd rid idx)]) ++
      [jumpEqImm32 R2 (secImm n k) P, .label (.cidrEnd rid idx)])

theorem cidrV6_eq (leg : Leg) (rid idx : Nat) (P : Label) (n : Net) :
    cidrV6 leg rid idx P n =
      if mask128Word n.pfx 1 = 0 then secFin leg rid idx P n 0
      else secNE leg rid idx n 0 ++
        (if mask128Word n.pfx 2 = 0 then secFin leg rid idx P n 1
         else secNE leg rid idx n 1 ++
          (if mask128Word n.pfx 3 = 0 then secFin leg rid idx P n 2
           else secNE leg rid idx n 2 ++ secFin leg rid idx P n 3)) := by
  by_cases h1 : mask128Word n.pfx 1 = 0 <;> by_cases h2 : mask128Word n.pfx 2 = 0 <;>
    by_cases h3 : mask128Word n.pfx 3 = 0 <;>
    simp [cidrV6, cidrV6Sections, secFin, secNE, sec3, h1, h2, h3, toInt32_secImm, toInt32_secM, Leg.ipOff_eq]


/-! ### What one IPv6 CIDR test decides -/

/-- Section `s` of the leg's address is inside the CIDR. -/
def bsec (st : List Byte) (leg : Leg) (n : Net) (s : Nat) : Bool :=
  secHit st (leg.ipo + 4 * s) (secM n s) (secA n s)

theorem Leg.off6_le (leg : Leg) (s : Nat) (hs : s ≤ 3) : leg.ipo + 4 * s + 4 ≤ 512 := by
  cases leg <;> simp only [Leg.ipo] <;> omega

theorem Leg.off6_stable (leg : Leg) (s : Nat) (hs : s ≤ 3) :
    ∀ j, leg.ipo + 4 * s ≤ j → j < leg.ipo + 4 * s + 4 → Stable j := by
  cases leg <;> (intro j h1 h2; simp only [Leg.ipo] at h1 h2; unfold Stable; omega)

theorem guard_secNE6 (env : Env) (st : List Byte) (leg : Leg) (rid idx : Nat) (n : Net) (s : Nat) (hs : s ≤ 3) :
    Guard env st (.cidrEnd rid idx) (secNE leg rid idx n s) (bsec st leg n s) :=
  guard_secNE env st _ (leg.off6_le s hs) (leg.off6_stable s hs) (secM n s) (secA n s) _

/-- A block that ends with the definition of `E` and defines no other label. -/
def EndsWith (E : Label) (D : List Ev) : Prop := ∃ D', D = D' ++ [.label E] ∧ labelsOf D' = []

theorem EndsWith.goto {E : Label} {D : List Ev} (h : EndsWith E D) (env : Env) (rest : List Ev) (m : Mach) :
    goto env E (D ++ rest) m = lrun env rest m := by
  obtain ⟨D', rfl, hl⟩ := h
  rw [List.append_assoc, goto_append _ m (by rw [hl]; simp)]
  simp only [List.cons_append, List.nil_append]
  rw [goto_label_self]

theorem EndsWith.labels {E : Label} {D : List Ev} (h : EndsWith E D) : labelsOf D = [E] := by
  obtain ⟨D', rfl, hl⟩ := h
  rw [labelsOf_append, hl]; rfl

theorem EndsWith.cons {E : Label} {D M : List Ev} (h : EndsWith E D) (hM : labelsOf M = []) : EndsWith E (M ++ D) := by
  obtain ⟨D', rfl, hl⟩ := h
  exact ⟨M ++ D', by rw [List.append_assoc], by rw [labelsOf_append, hM, hl]; rfl⟩

/-- Guard with an early exit to the end label of the block that follows. -/
theorem Guard.then_decides {env : Env} {st : List Byte} {E : Label} {M D : List Ev} {b : Bool} {t : Option Label}
    (hg : Guard env st E M b) (hd : Decides env st D t) (he : EndsWith E D) :
    Decides env st (M ++ D) (if b then t else none) := by
  intro rest m hI
  obtain ⟨m1, hI1, e1⟩ := hg (D ++ rest) m hI
  rw [List.append_assoc, e1]
  cases b with
  | true =>
    obtain ⟨m2, hI2, e2⟩ := hd rest m1 hI1
    exact ⟨m2, hI2, by simpa using e2⟩
  | false =>
    exact ⟨m1, hI1, by simp [he.goto env rest m1]⟩

theorem Decides.cast {env : Env} {st : List Byte} {B : List Ev} {t t' : Option Label}
    (h : Decides env st B t) (e : t = t') : Decides env st B t' := e ▸ h

theorem labelsOf_sec3 (off : Nat) (M : BitVec 32) : labelsOf (sec3 off M) = [] := by
  simp [sec3, labelsOf, load32, movImm32, and32, mk]

theorem labelsOf_secNE (leg : Leg) (rid idx : Nat) (n : Net) (s : Nat) : labelsOf (secNE leg rid idx n s) = [] := by
  simp [secNE, labelsOf_append, labelsOf_sec3, labelsOf, jumpNEImm32, mkJ]

theorem endsWith_secFin (leg : Leg) (rid idx : Nat) (P : Label) (n : Net) (k : Nat) :
    EndsWith (.cidrEnd rid idx) (secFin leg rid idx P n k) := by
  refine ⟨sec3 (leg.ipo + 4 * k) (secM n k) ++
    ((if k = 3 then [] else [jumpNEImm32 R2 (secImm n k) (.cidrEnd rid idx)]) ++ [jumpEqImm32 R2 (secImm n k) P]), ?_, ?_⟩
  · simp [secFin]
  · by_cases hk : k = 3 <;> simp [hk, labelsOf_append, labelsOf_sec3, labelsOf, jumpNEImm32, jumpEqImm32, mkJ]

theorem decides_secFin (env : Env) (st : List Byte) (leg : Leg) (rid idx : Nat) (P : Label) (n : Net) (k : Nat)
    (hk : k ≤ 3) (hP : P ≠ .cidrEnd rid idx) :
    Decides env st (secFin leg rid idx P n k) (if bsec st leg n k then some P else none) := by
  by_cases h3 : k = 3
  · have d := (decides_fin3 env st _ (leg.off6_le k hk) (leg.off6_stable k hk) (secM n k) (secA n k) P).label
      (.cidrEnd rid idx)
    have e : secFin leg rid idx P n k = (sec3 (leg.ipo + 4 * k) (secM n k) ++
        [jumpEqImm32 R2 (rev32bv (secA n k &&& secM n k)).toInt P]) ++ [.label (.cidrEnd rid idx)] := by
      simp [secFin, h3, secImm]
    rw [e]
    refine Decides.cast d ?_
    unfold bsec
    cases secHit st (leg.ipo + 4 * k) (secM n k) (secA n k) <;> simp [hP]
  · have d := (decides_finNE env st _ (leg.off6_le k hk) (leg.off6_stable k hk) (secM n k) (secA n k) P
      (.cidrEnd rid idx)).label (.cidrEnd rid idx)
    have e : secFin leg rid idx P n k = (sec3 (leg.ipo + 4 * k) (secM n k) ++
        [jumpNEImm32 R2 (rev32bv (secA n k &&& secM n k)).toInt (.cidrEnd rid idx),
         jumpEqImm32 R2 (rev32bv (secA n k &&& secM n k)).toInt P]) ++ [.label (.cidrEnd rid idx)] := by
      simp [secFin, h3, secImm]
    rw [e]
    refine Decides.cast d ?_
    unfold bsec
    cases secHit st (leg.ipo + 4 * k) (secM n k) (secA n k) <;> simp [hP]

/-! ### Masks -/

theorem mask32_ne_zero (q : Nat) (h1 : 0 < q) (h2 : q < 32) : mask32 q ≠ 0 := by
  unfold mask32 mask32bv
  interval_cases q <;> decide

theorem mask128Word_zero (p s : Nat) : mask128Word p s = 0 ↔ p ≤ 32 * s := by
  unfold mask128Word
  by_cases h1 : p ≥ 32 * (s + 1)
  · simp only [h1, if_true]; constructor
    · intro h; cases h
    · intro h; omega
  · by_cases h2 : p ≤ 32 * s
    · simp [h1, h2]
    · simp only [h1, h2, if_false]
      constructor
      · intro h; exact absurd h (mask32_ne_zero _ (by omega) (by omega))
      · intro h; exact h.elim

theorem secHit_zero (st : List Byte) (off : Nat) (A : BitVec 32) : secHit st off 0 A = true := by
  simp [secHit]

theorem bsec_of_mask_zero (st : List Byte) (leg : Leg) (n : Net) (s : Nat) (h : mask128Word n.pfx s = 0) :
    bsec st leg n s = true := by
  unfold bsec secM
  rw [h]
  exact secHit_zero st _ _

theorem pkt_addr_word (st : List Byte) (leg : Leg) (w : Nat) (hw : w ≤ 3) :
    ((pktOfD st).addr leg).getD w 0 = BitVec.ofNat 32 (fieldN st (leg.ipo + 4 * w) 4) := by
  have : w = 0 ∨ w = 1 ∨ w = 2 ∨ w = 3 := by omega
  rcases this with rfl | rfl | rfl | rfl <;> cases leg <;> rfl

theorem netContains6_eq (st : List Byte) (leg : Leg) (n : Net) :
    netContains6 ((pktOfD st).addr leg) n =
      (bsec st leg n 0 && bsec st leg n 1 && bsec st leg n 2 && bsec st leg n 3) := by
  unfold netContains6
  rw [show List.range 4 = [0, 1, 2, 3] from rfl]
  simp only [List.all_cons, List.all_nil, Bool.and_true, pkt_addr_word st leg _ (by omega : (0:Nat) ≤ 3),
    pkt_addr_word st leg _ (by omega : (1:Nat) ≤ 3), pkt_addr_word st leg _ (by omega : (2:Nat) ≤ 3),
    pkt_addr_word st leg _ (by omega : (3:Nat) ≤ 3)]
  simp only [bsec, secHit, secM, secA, Bool.and_assoc]


/-- **One IPv6 CIDR test**: jump to `P` iff the leg's address is in the CIDR; defines only its end label. -/
theorem decides_cidrV6 (env : Env) (st : List Byte) (leg : Leg) (rid idx : Nat) (P : Label) (n : Net)
    (hP : P ≠ .cidrEnd rid idx) :
    Decides env st (cidrV6 leg rid idx P n)
      (if netContains6 ((pktOfD st).addr leg) n then some P else none) ∧
    EndsWith (.cidrEnd rid idx) (cidrV6 leg rid idx P n) := by
  rw [cidrV6_eq, netContains6_eq]
  have g := fun s hs => guard_secNE6 env st leg rid idx n s hs
  have f := fun k hk => decides_secFin env st leg rid idx P n k hk hP
  have ew := fun k => endsWith_secFin leg rid idx P n k
  have lz := fun s => labelsOf_secNE leg rid idx n s
  have bz := fun s h => bsec_of_mask_zero st leg n s h
  by_cases h1 : mask128Word n.pfx 1 = 0
  · have h2 : mask128Word n.pfx 2 = 0 := by rw [mask128Word_zero] at h1 ⊢; omega
    have h3 : mask128Word n.pfx 3 = 0 := by rw [mask128Word_zero] at h1 ⊢; omega
    simp only [h1, if_true]
    refine ⟨Decides.cast (f 0 (by omega)) ?_, ew 0⟩
    rw [bz 1 h1, bz 2 h2, bz 3 h3]; simp
  · by_cases h2 : mask128Word n.pfx 2 = 0
    · have h3 : mask128Word n.pfx 3 = 0 := by rw [mask128Word_zero] at h2 ⊢; omega
      simp only [h1, h2, if_true, if_false]
      refine ⟨Decides.cast (Guard.then_decides (g 0 (by omega)) (f 1 (by omega)) (ew 1)) ?_, (ew 1).cons (lz 0)⟩
      rw [bz 2 h2, bz 3 h3]
      cases bsec st leg n 0 <;> cases bsec st leg n 1 <;> simp
    · by_cases h3 : mask128Word n.pfx 3 = 0
      · simp only [h1, h2, h3, if_true, if_false]
        refine ⟨Decides.cast (Guard.then_decides (g 0 (by omega))
          (Guard.then_decides (g 1 (by omega)) (f 2 (by omega)) (ew 2)) ((ew 2).cons (lz 1))) ?_,
          ((ew 2).cons (lz 1)).cons (lz 0)⟩
        rw [bz 3 h3]
        cases bsec st leg n 0 <;> cases bsec st leg n 1 <;> cases bsec st leg n 2 <;> simp
      · simp only [h1, h2, h3, if_false]
        refine ⟨Decides.cast (Guard.then_decides (g 0 (by omega))
          (Guard.then_decides (g 1 (by omega)) (Guard.then_decides (g 2 (by omega)) (f 3 (by omega)) (ew 3))
            ((ew 3).cons (lz 2))) (((ew 3).cons (lz 2)).cons (lz 1))) ?_,
          (((ew 3).cons (lz 2)).cons (lz 1)).cons (lz 0)⟩
        cases bsec st leg n 0 <;> cases bsec st leg n 1 <;> cases bsec st leg n 2 <;> cases bsec st leg n 3 <;> simp

/-! ### The CIDR loop and `writeCIDRSMatch` for IPv6 -/

/-- The loop with the CIDR indices spelled out. -/
def cidrs6 (leg : Leg) (rid : Nat) (P : Label) : List Net → Nat → List Ev
  | [], _ => []
  | n :: ns, idx => cidrV6 leg rid idx P n ++ cidrs6 leg rid P ns (idx + 1)

theorem flat_cidrLoop_v6 (leg : Leg) (rid : Nat) (P : Label) :
    ∀ (nets : List Net) (idx : Nat), flat (cidrLoop true leg rid P nets idx) = cidrs6 leg rid P nets idx := by
  intro nets
  induction nets with
  | nil => intro _; rfl
  | cons n ns ih =>
    intro idx
    simp only [cidrLoop, flat, flat_append, flat_map_ev, if_true, cidrs6, ih]

theorem decides_cidrs6 (env : Env) (st : List Byte) (P : Label) (leg : Leg) (rid : Nat)
    (hP : ∀ idx, P ≠ .cidrEnd rid idx) :
    ∀ (nets : List Net) (idx : Nat),
      Decides env st (cidrs6 leg rid P nets idx)
        (if nets.any (netContains6 ((pktOfD st).addr leg)) then some P else none) ∧
      (∀ l ∈ labelsOf (cidrs6 leg rid P nets idx), ∃ i, l = .cidrEnd rid i) := by
  intro nets
  induction nets with
  | nil => intro _; exact ⟨Decides.nil env st, by intro l hl; simp [cidrs6, labelsOf] at hl⟩
  | cons n ns ih =>
    intro idx
    obtain ⟨d, hl⟩ := ih (idx + 1)
    obtain ⟨d1, e1⟩ := decides_cidrV6 env st leg rid idx P n (hP idx)
    simp only [cidrs6]
    refine ⟨?_, ?_⟩
    · have := Decides.seq d1 d (by
        intro l hl' hmem
        obtain ⟨i, e⟩ := hl l hmem
        split at hl'
        · cases hl'; exact hP i e
        · cases hl')
      cases hb : netContains6 ((pktOfD st).addr leg) n <;> simpa [List.any_cons, hb] using this
    · intro l hmem
      rw [labelsOf_append, e1.labels, List.mem_append] at hmem
      rcases hmem with h | h
      · exact ⟨idx, by simpa using h⟩
      · exact hl l h

/-- `writeCIDRSMatch` (IPv6). -/
theorem guard_cidrsMatch6 (env : Env) (st : List Byte) (rid part : Nat) (neg : Bool)
    (leg : Leg) (nets : List Net) :
    Guard env st (.ruleNoMatch rid) (flat (cidrsMatch true rid part neg leg nets).1)
      (if neg then !(nets.any (netContains6 ((pktOfD st).addr leg))) else nets.any (netContains6 ((pktOfD st).addr leg))) ∧
    (∀ l ∈ labelsOf (flat (cidrsMatch true rid part neg leg nets).1), l.isPart = true) := by
  cases neg with
  | true =>
    obtain ⟨d, hl⟩ := decides_cidrs6 env st (.ruleNoMatch rid) leg rid (by intro i; simp) nets 0
    simp only [cidrsMatch, if_true, flat_cidrLoop_v6]
    refine ⟨Guard.of_decides_neg d, ?_⟩
    intro l hm
    obtain ⟨i, e⟩ := hl l hm
    rw [e]; rfl
  | false =>
    obtain ⟨d, hl⟩ := decides_cidrs6 env st (.rulePart rid part) leg rid (by intro i; simp) nets 0
    simp only [cidrsMatch, Bool.false_eq_true, if_false, flat_append, flat_cidrLoop_v6, flat]
    refine ⟨Guard.of_decides_pos d (by simp), ?_⟩
    intro l hmem
    rw [labelsOf_append, List.mem_append] at hmem
    rcases hmem with h | h
    · obtain ⟨i, e⟩ := hl l h
      rw [e]; rfl
    · have : l = .rulePart rid part := by simpa [labelsOf, jump, mkJ] using h
      rw [this]; rfl

end CalicoVerif.C11
