import CalicoVerif.Model.Cas
open CalicoVerif.Cas
namespace CalicoVerif.C19

theorem length_setSlots (v : Slot) (os : List Nat) (s : List Slot) : (setSlots v os s).length = s.length := by
  induction os generalizing s with
  | nil => rfl
  | cons o os ih => simp [setSlots, List.foldl_cons] at *; rw [ih]; simp

theorem getElem?_setSlots (v : Slot) (os : List Nat) (s : List Slot) (i : Nat) :
    (setSlots v os s)[i]? = if i ∈ os ∧ i < s.length then some v else s[i]? := by
  induction os generalizing s with
  | nil => simp [setSlots]
  | cons o os ih =>
    have : setSlots v (o :: os) s = setSlots v os (s.set o v) := rfl
    rw [this, ih]
    simp only [List.length_set, List.mem_cons, List.getElem?_set]
    grind

/-- Well-formed block: `Unallocated` is duplicate free and is exactly the set of free ordinals. -/
def WF (b : Blk) : Prop := b.unalloc.Nodup ∧ ∀ o, o ∈ b.unalloc ↔ b.slots[o]? = some Slot.free

theorem ascending_lt : ∀ (a : Nat) (t : List Nat), ascending (a :: t) = true → (∀ x ∈ t, a < x) ∧ ascending t = true
  | a, [] => by simp [ascending]
  | a, b :: t => by
    intro h
    simp only [ascending, Bool.and_eq_true, decide_eq_true_eq] at h
    have ih := ascending_lt b t h.2
    refine ⟨?_, h.2⟩
    intro x hx
    rcases List.mem_cons.1 hx with rfl | hx
    · exact h.1
    · exact Nat.lt_trans h.1 (ih.1 x hx)

theorem ascending_nodup : ∀ (l : List Nat), ascending l = true → l.Nodup
  | [] => by simp
  | a :: t => by
    intro h
    have := ascending_lt a t h
    refine List.nodup_cons.2 ⟨?_, ascending_nodup t this.2⟩
    intro hm
    exact Nat.lt_irrefl _ (this.1 a hm)

theorem wf_gc {F : List Nat} {b b' : Blk} (hw : WF b) (h : gc F b = some b') : WF b' := by
  unfold gc at h
  split at h
  · rename_i hc
    simp only [Bool.and_eq_true, List.all_eq_true, beq_iff_eq] at hc
    injection h with h
    subst h
    obtain ⟨hn, hiff⟩ := hw
    have hF := ascending_nodup F hc.1
    constructor
    · refine List.nodup_append.2 ⟨hn, hF, ?_⟩
      intro x hx y hy hxy
      subst hxy
      have h1 := (hiff x).1 hx
      have h2 := hc.2 x hy
      rw [h1] at h2
      cases h2
    · intro o
      simp only [List.mem_append, getElem?_setSlots]
      constructor
      · rintro (ho | ho)
        · have := (hiff o).1 ho
          split <;> simp_all
        · have h2 := hc.2 o ho
          have : o < b.slots.length := by
            rcases Nat.lt_or_ge o b.slots.length with hl | hl
            · exact hl
            · rw [List.getElem?_eq_none hl] at h2; cases h2
          simp [ho, this]
      · intro h
        split at h
        · rename_i hh; exact Or.inr hh.1
        · exact Or.inl ((hiff o).2 h)
  · cases h



theorem takeFree_mem (rv : List Nat) (k : Nat) (u : List Nat) (o : Nat) :
    o ∈ u ↔ o ∈ (takeFree rv k u).1 ∨ o ∈ (takeFree rv k u).2 := by
  fun_induction takeFree rv k u with
  | case1 u => simp
  | case2 k => simp
  | case3 k x u hx r ih => simp only [List.mem_cons]; grind
  | case4 k x u hx r ih => simp only [List.mem_cons]; grind

theorem takeFree_nodup (rv : List Nat) (k : Nat) (u : List Nat) (hn : u.Nodup) :
    (takeFree rv k u).1.Nodup ∧ (takeFree rv k u).2.Nodup ∧ ∀ o, o ∈ (takeFree rv k u).1 → o ∉ (takeFree rv k u).2 := by
  fun_induction takeFree rv k u with
  | case1 u => simp [hn]
  | case2 k => simp
  | case3 k x u hx r ih =>
    have hn' := List.nodup_cons.1 hn
    have := ih hn'.2
    have hm := takeFree_mem rv (k+1) u
    simp only [List.nodup_cons, List.mem_cons]
    grind
  | case4 k x u hx r ih =>
    have hn' := List.nodup_cons.1 hn
    have := ih hn'.2
    have hm := takeFree_mem rv k u
    simp only [List.nodup_cons, List.mem_cons]
    grind

/-- `autoAssign` only ever takes ordinals that are free in the block it was given. -/
theorem autoAssign_picks_free {k h : Nat} {rv : List Nat} {b : Blk} (hw : WF b) {o : Nat}
    (ho : o ∈ (autoAssign k h rv b).2) : b.slots[o]? = some Slot.free := by
  simp only [autoAssign] at ho
  exact (hw.2 o).1 ((takeFree_mem rv k b.unalloc o).2 (Or.inl ho))

theorem wf_autoAssign {k h : Nat} {rv : List Nat} {b : Blk} (hw : WF b) : WF (autoAssign k h rv b).1 := by
  obtain ⟨hn, hiff⟩ := hw
  have hnd := takeFree_nodup rv k b.unalloc hn
  have hm := takeFree_mem rv k b.unalloc
  simp only [autoAssign]
  refine ⟨hnd.2.1, ?_⟩
  intro o
  simp only [getElem?_setSlots]
  constructor
  · intro ho
    have h1 : o ∉ (takeFree rv k b.unalloc).1 := fun hc => hnd.2.2 o hc ho
    simp [h1]
    exact (hiff o).1 ((hm o).2 (Or.inr ho))
  · intro h
    split at h
    · cases h
    · rename_i hh
      have hu := (hiff o).2 h
      rcases (hm o).1 hu with h1 | h1
      · exfalso; apply hh
        refine ⟨h1, ?_⟩
        rcases Nat.lt_or_ge o b.slots.length with hl | hl
        · exact hl
        · rw [List.getElem?_eq_none hl] at h; cases h
      · exact h1

theorem autoAssign_got_live {k h : Nat} {rv : List Nat} {b : Blk} (hw : WF b) {o : Nat}
    (ho : o ∈ (autoAssign k h rv b).2) : (autoAssign k h rv b).1.slots[o]? = some (Slot.live h) := by
  have hf := autoAssign_picks_free hw ho
  simp only [autoAssign] at ho ⊢
  simp only [getElem?_setSlots]
  have : o < b.slots.length := by
    rcases Nat.lt_or_ge o b.slots.length with hl | hl
    · exact hl
    · rw [List.getElem?_eq_none hl] at hf; cases hf
  simp [ho, this]

theorem wf_assignIP {h o : Nat} {b b' : Blk} (hw : WF b) (ha : assignIP h o b = some b') : WF b' := by
  unfold assignIP at ha
  split at ha
  · rename_i hc
    injection ha with ha; subst ha
    obtain ⟨hn, hiff⟩ := hw
    refine ⟨hn.erase o, ?_⟩
    intro x
    simp only [List.getElem?_set, hn.mem_erase_iff]
    have := hiff x
    have hc' : b.slots[o]? = some Slot.free := by simpa using hc
    grind
  · cases ha

theorem relAux_free (R : List Nat) (i : Nat) (ss : List Slot) (j : Nat) :
    (relAux R i ss)[j]? = some Slot.free ↔ ss[j]? = some Slot.free := by
  induction ss generalizing i j with
  | nil => simp [relAux]
  | cons s ss ih =>
    cases j with
    | zero =>
      simp only [relAux, List.getElem?_cons_zero]
      cases s <;> simp [Slot.isLive] <;> split <;> simp_all
    | succ j => simp only [relAux, List.getElem?_cons_succ]; exact ih (i+1) j

theorem relhAux_free (h : Nat) (ss : List Slot) (j : Nat) :
    (relhAux h ss)[j]? = some Slot.free ↔ ss[j]? = some Slot.free := by
  unfold relhAux
  simp only [List.getElem?_map]
  cases hj : ss[j]? with
  | none => simp
  | some x => cases x <;> simp <;> split <;> simp_all

theorem wf_newBlk (a n : Nat) : WF (newBlk a n) := by
  refine ⟨List.nodup_range, ?_⟩
  intro o
  simp only [newBlk, List.mem_range, List.getElem?_replicate]
  split <;> simp_all

theorem wf_applyBOp {op : BOp} {b : Blk} {r : BRes} (hw : WF b) (h : applyBOp op b = some r) : WF r.v := by
  cases op with
  | assign h' k rv =>
    simp only [applyBOp] at h
    split at h
    · injection h with h; subst h; exact wf_autoAssign hw
    · cases h
  | assignIP h' o =>
    simp only [applyBOp] at h
    split at h
    · rename_i v hv; injection h with h; subst h; exact wf_assignIP hw hv
    · cases h
  | release h' ords =>
    simp only [applyBOp] at h
    split at h
    · injection h with h; subst h
      exact ⟨hw.1, fun o => by simp only [relAux_free]; exact hw.2 o⟩
    · cases h
  | relh h' =>
    simp only [applyBOp] at h
    split at h
    · injection h with h; subst h
      exact ⟨hw.1, fun o => by simp only [relhAux_free]; exact hw.2 o⟩
    · cases h
  | clearAff => simp only [applyBOp] at h; injection h with h; subst h; exact hw
  | bump => simp only [applyBOp] at h; injection h with h; subst h; exact hw

theorem wf_rmw {g1 g2 : List Nat} {op : BOp} {b : Blk} {r : BRes} (hw : WF b) (h : rmw g1 op g2 b = some r) : WF r.v := by
  unfold rmw at h
  split at h
  · cases h
  · rename_i b1 h1
    split at h
    · cases h
    · rename_i r1 h2
      split at h
      · cases h
      · rename_i b2 h3
        injection h with h; subst h
        exact wf_gc (wf_applyBOp (wf_gc hw h1) h2) h3


def AllWF (s : St) : Prop := ∀ b r v, s.blk b = some (r, v) → WF v

theorem allWF_upd {s : St} {b : Nat} {x : Option (Nat × Blk)} (hw : AllWF s)
    (hx : ∀ r v, x = some (r, v) → WF v) : ∀ b' r v, upd s.blk b x b' = some (r, v) → WF v := by
  intro b' r v h
  unfold upd at h
  split at h
  · exact hx r v h
  · exact hw b' r v h

theorem allWF_applyWrite {s s' : St} {c : Call} (hw : AllWF s) (h : applyWrite s c = some s') : AllWF s' := by
  unfold applyWrite at h
  split at h
  · -- create
    injection h with h; subst h
    exact allWF_upd hw (fun r v hx => by injection hx with hx; injection hx with _ hx; subst hx; exact wf_newBlk _ _)
  · -- rmw
    split at h
    · cases h
    · rename_i rv v hb
      split at h
      · cases h
      · rename_i res hr
        split at h
        · cases h
        · injection h with h; subst h
          exact allWF_upd hw (fun r v' hx => by injection hx with hx; injection hx with _ hx; subst hx; exact wf_rmw (hw _ _ _ hb) hr)
  · -- delete
    split at h
    · cases h
    · split at h
      · split at h
        · split at h
          · injection h with h; subst h; exact allWF_upd hw (fun r v hx => by cases hx)
          · cases h
        · cases h
      · split at h
        · cases h
        · split at h
          · injection h with h; subst h; exact allWF_upd hw (fun r v hx => by cases hx)
          · cases h
  all_goals first
    | (cases h; done)
    | (injection h with h; subst h; exact hw)
    | (split at h <;> first
        | (cases h; done)
        | (injection h with h; subst h; exact hw)
        | (split at h <;> first
            | (cases h; done)
            | (injection h with h; subst h; exact hw))
        | (dsimp only at h; split at h <;> first
            | (cases h; done)
            | (injection h with h; subst h; exact hw)))

theorem allWF_init (r nb : Nat) : AllWF (St.init r nb) := by
  intro b r' v h; cases h

theorem allWF_step {s s' : St} {e : Ev} (hw : AllWF s) (h : step s e = some s') : AllWF s' := by
  cases e with
  | tick => simp only [step] at h; injection h with h; subst h; exact hw
  | «begin» t => simp only [step] at h; injection h with h; subst h; exact hw
  | endOp t a =>
    simp only [step] at h
    split at h
    · injection h with h; subst h; exact hw
    · cases h
  | call c =>
    simp only [step] at h
    split at h
    · split at h
      · split at h
        · exact allWF_applyWrite hw h
        · cases h
      · injection h with h; subst h; exact hw
    · injection h with h; subst h; exact hw

theorem allWF_run {s s' : St} {evs : List Ev} (hw : AllWF s) (h : run s evs = some s') : AllWF s' := by
  induction evs generalizing s with
  | nil => simp only [run] at h; injection h with h; subst h; exact hw
  | cons e es ih =>
    simp only [run] at h
    split at h
    · rename_i s1 h1; exact ih (allWF_step hw h1) h
    · cases h

/-- An allocating read-modify-write never takes an ordinal that is live in the value it read. -/
theorem rmw_got_unowned {g1 g2 : List Nat} {op : BOp} {v : Blk} {res : BRes} (hw : WF v)
    (h : rmw g1 op g2 v = some res) {o : Nat} (ho : o ∈ res.got) :
    v.slots[o]? = some Slot.free ∨ v.slots[o]? = some Slot.cool := by
  unfold rmw at h
  split at h
  · cases h
  · rename_i b1 h1
    split at h
    · cases h
    · rename_i r1 h2
      split at h
      · cases h
      · rename_i b2 h3
        injection h with h; subst h
        have hw1 := wf_gc hw h1
        -- the ordinal is free in the garbage-collected block
        have hfree : b1.slots[o]? = some Slot.free := by
          cases op with
          | assign h' k rv =>
            simp only [applyBOp] at h2
            split at h2
            · injection h2 with h2; subst h2; exact autoAssign_picks_free (k := k) (h := h') (rv := rv) hw1 ho
            · cases h2
          | assignIP h' o' =>
            simp only [applyBOp] at h2
            split at h2
            · rename_i v' hv; injection h2 with h2; subst h2
              simp only [List.mem_singleton] at ho; subst ho
              unfold assignIP at hv
              split at hv
              · rename_i hc; simpa using hc
              · cases hv
            · cases h2
          | release h' ords =>
            simp only [applyBOp] at h2
            split at h2
            · injection h2 with h2; subst h2; simp at ho
            · cases h2
          | relh h' =>
            simp only [applyBOp] at h2
            split at h2
            · injection h2 with h2; subst h2; simp at ho
            · cases h2
          | clearAff => simp only [applyBOp] at h2; injection h2 with h2; subst h2; simp at ho
          | bump => simp only [applyBOp] at h2; injection h2 with h2; subst h2; simp at ho
        unfold gc at h1
        split at h1
        · rename_i hc
          simp only [Bool.and_eq_true, List.all_eq_true, beq_iff_eq] at hc
          injection h1 with h1; subst h1
          simp only [getElem?_setSlots] at hfree
          split at hfree
          · rename_i hh; exact Or.inr (hc.2 o hh.1)
          · exact Or.inl hfree
        · cases h1

end CalicoVerif.C19
