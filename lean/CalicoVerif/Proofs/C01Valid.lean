import CalicoVerif.Proofs.C01DeclRun
/-! C01 helper: `validAll` splits into the IP-set add/remove half (proved for the graph) and the
member add/remove half (the member index's obligation). -/
namespace CalicoVerif.C01
open CalicoVerif C02

/-- the member add/remove half of `validAll` -/
def memberValidAll : DP → List Call → Prop
  | _, [] => True
  | u, c :: cs =>
    (match c with
     | .memberAdded _ _ => upValid u c
     | .memberRemoved _ _ => upValid u c
     | _ => True) ∧ memberValidAll (upApply u c) cs

theorem validAll_iff (u : DP) (cs : List Call) : validAll u cs ↔ setValidAll u cs ∧ memberValidAll u cs := by
  induction cs generalizing u with
  | nil => simp [validAll, setValidAll, memberValidAll]
  | cons c cs ih =>
    simp only [validAll, setValidAll, memberValidAll, ih]
    cases c <;> simp [upValid, and_assoc, and_left_comm]

end CalicoVerif.C01
