import CalicoVerif.Proofs.C01DeclRun
/-! C01 helper: `validAll` splits into the IP-set add/remove half (proved for the graph) and the
member add/remove half (the member index's obligation). -/
namespace CalicoVerif.C01
open CalicoVerif C02

/-- the member add/remove half of `validAll` -/
def memberValidAll : DP → List Call → Prop
  | _, [] => True
  | u, c :: cs =>
    (match c with
     | .memberAdded _ _ => upValid u c
     | .memberRemoved _ _ => upValid u c
     | _ => True) ∧ memberValidAll (upApply u c) cs

theorem validAll_of (u : DP) (cs : List Call) (h1 : setValidAll u cs) (h2 : memberValidAll u cs) : validAll u cs := by
  induction cs generalizing u with
  | nil => trivial
  | cons c cs ih =>
    refine ⟨?_, ih _ h1.2 h2.2⟩
    have a := h1.1
    have b := h2.1
    cases c <;> first | exact a | exact b | trivial

/-- the modelled nodes never declare VTEPs or routes -/
theorem others_untouched : ∀ (cs : List Call) (u : DP), setValidAll u cs →
    (upAll u cs).vtep = u.vtep ∧ (upAll u cs).route = u.route
  | [], u, _ => ⟨rfl, rfl⟩
  | c :: cs, u, h => by
    have ih := others_untouched cs (upApply u c) h.2
    have hc : (upApply u c).vtep = u.vtep ∧ (upApply u c).route = u.route := by
      have a := h.1
      cases c with
      | ipsetAdded id t => exact ⟨rfl, rfl⟩
      | ipsetRemoved id => exact ⟨rfl, rfl⟩
      | memberAdded id m => simp only [upApply]; split <;> exact ⟨rfl, rfl⟩
      | memberRemoved id m => simp only [upApply]; split <;> exact ⟨rfl, rfl⟩
      | policyActive k r => exact ⟨rfl, rfl⟩
      | policyInactive k => exact ⟨rfl, rfl⟩
      | profileActive k r => exact ⟨rfl, rfl⟩
      | profileInactive k => exact ⟨rfl, rfl⟩
      | endpointUpdate k v => cases v <;> exact ⟨rfl, rfl⟩
      | genUpdate c k t => exact ⟨rfl, rfl⟩
      | genRemove c k => exact ⟨rfl, rfl⟩
      | _ => exact absurd a (by simp [mainCall])
    simp only [upAll, List.foldl_cons] at ih ⊢
    exact ⟨ih.1.trans hc.1, ih.2.trans hc.2⟩

end CalicoVerif.C01
