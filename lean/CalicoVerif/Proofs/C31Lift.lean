import CalicoVerif.Proofs.C31
/-! C31 — lifting per-endpoint facts through the loops over updateable endpoints, broadcasts and
single-entry updates: which messages a step puts on which channel. -/
namespace CalicoVerif.C31

theorem viewOf_append (evs new : List Ev) (c : Nat) :
    viewOf (evs ++ new) c = applyMsgs (viewOf evs c) (msgsOf new c) := by
  simp [viewOf, msgsOf_append, applyMsgs_append]

theorem msgsOf_nil_of_notin {evs : List Ev} {c : Nat} (h : ∀ e ∈ evs, e.1 ≠ c) : msgsOf evs c = [] := by
  induction evs with
  | nil => rfl
  | cons e evs ih =>
    have h0 := h e (by simp)
    simp only [msgsOf, List.filterMap_cons, h0, if_false] at ih ⊢
    exact ih (fun e' he' => h e' (List.mem_cons_of_mem _ he'))

/-- `f` keeps the endpoint, the output channel and the join UID -/
def KeepsAll (f : EpInfo → Option (EpInfo × List Msg)) : Prop :=
  ∀ ei ei' ms, f ei = some (ei', ms) → ei'.output = ei.output ∧ ei'.ep = ei.ep ∧ ei'.joinUID = ei.joinUID

theorem KeepsAll.keeps {f : EpInfo → Option (EpInfo × List Msg)} (h : KeepsAll f) : Keeps f :=
  fun ei ei' ms hf => (h ei ei' ms hf).1

/-- what `eachUpdateable f` does, entry by entry and channel by channel -/
theorem each_lift {f : EpInfo → Option (EpInfo × List Msg)} (hf : KeepsAll f) {eps eps' : AMap EpInfo} {evs : List Ev}
    (hn : (chans eps).Nodup) (h : eachUpdateable f eps = some (eps', evs)) :
    ∀ kv' ∈ eps', ∃ ei, (kv'.1, ei) ∈ eps ∧ kv'.2.output = ei.output ∧ kv'.2.ep = ei.ep ∧ kv'.2.joinUID = ei.joinUID ∧
      (ei.output = none → kv'.2 = ei) ∧
      (∀ c, ei.output = some c → ∃ ms, f ei = some (kv'.2, ms) ∧ msgsOf evs c = ms) := by
  induction eps generalizing eps' evs with
  | nil => simp [eachUpdateable] at h; obtain ⟨rfl, rfl⟩ := h; simp
  | cons kv r ih =>
    obtain ⟨w, ei⟩ := kv
    simp only [eachUpdateable] at h
    cases ho : ei.output with
    | none =>
      simp only [ho] at h
      cases hr : eachUpdateable f r with
      | none => simp only [hr] at h; cases h
      | some res =>
        obtain ⟨r', evs'⟩ := res
        simp only [hr, Option.some.injEq, Prod.mk.injEq] at h
        obtain ⟨rfl, rfl⟩ := h
        have hnr : (chans r).Nodup := by simpa [chans, ho] using hn
        intro kv' hkv'
        rcases List.mem_cons.1 hkv' with rfl | hkv'
        · refine ⟨ei, by simp, rfl, rfl, rfl, fun _ => rfl, ?_⟩
          intro c hc; rw [ho] at hc; cases hc
        · obtain ⟨ei0, a, b⟩ := ih hnr hr kv' hkv'
          exact ⟨ei0, List.mem_cons_of_mem _ a, b⟩
    | some c =>
      simp only [ho] at h
      cases hfe : f ei with
      | none => simp only [hfe] at h; cases h
      | some res1 =>
        obtain ⟨ei', ms⟩ := res1
        cases hr : eachUpdateable f r with
        | none => simp only [hfe, hr] at h; cases h
        | some res =>
          obtain ⟨r', evs'⟩ := res
          simp only [hfe, hr, Option.some.injEq, Prod.mk.injEq] at h
          obtain ⟨rfl, rfl⟩ := h
          have hcn : c ∉ chans r ∧ (chans r).Nodup := by
            simpa [chans, ho] using hn
          obtain ⟨_, _, hev⟩ := each_chan hf.keeps hr
          have hk := hf ei ei' ms hfe
          intro kv' hkv'
          rcases List.mem_cons.1 hkv' with rfl | hkv'
          · refine ⟨ei, by simp, hk.1, hk.2.1, hk.2.2, ?_, fun c' hc' => ?_⟩
            · intro hno; rw [ho] at hno; cases hno
            rw [ho] at hc'; cases hc'
            refine ⟨ms, hfe, ?_⟩
            rw [msgsOf_append, msgsOf_tag, msgsOf_nil_of_notin, List.append_nil]
            intro e he hec
            exact hcn.1 (hec ▸ (hev e he).2)
          · obtain ⟨ei0, a, b1, b2, b3, b4, b5⟩ := ih hcn.2 hr kv' hkv'
            refine ⟨ei0, List.mem_cons_of_mem _ a, b1, b2, b3, b4, fun c' hc' => ?_⟩
            obtain ⟨ms', f1, f2⟩ := b5 c' hc'
            refine ⟨ms', f1, ?_⟩
            have hne : c ≠ c' := by
              intro e; subst e
              exact hcn.1 (mem_chans.2 ⟨(kv'.1, ei0), a, hc'⟩)
            rw [msgsOf_append, msgsOf_tag_ne hne, List.nil_append]; exact f2

/-- a broadcast puts exactly the one message on every live channel -/
theorem msgsOf_broadcast {eps : AMap EpInfo} (hn : (chans eps).Nodup) (m : Msg) {kv : Nat × EpInfo} {c : Nat}
    (hkv : kv ∈ eps) (ho : kv.2.output = some c) : msgsOf (broadcast m eps) c = [m] := by
  induction eps with
  | nil => simp at hkv
  | cons kv0 r ih =>
    cases ho0 : kv0.2.output with
    | none =>
      have hnr : (chans r).Nodup := by simpa [chans, ho0] using hn
      rcases List.mem_cons.1 hkv with rfl | hkv
      · rw [ho0] at ho; cases ho
      · simp only [broadcast, List.filterMap_cons, ho0, Option.map_none] at ih ⊢
        exact ih hnr hkv
    | some c0 =>
      have hcn : c0 ∉ chans r ∧ (chans r).Nodup := by simpa [chans, ho0] using hn
      simp only [broadcast, List.filterMap_cons, ho0, Option.map_some] at ih ⊢
      rcases List.mem_cons.1 hkv with rfl | hkv
      · rw [ho0] at ho; cases ho
        simp only [msgsOf, List.filterMap_cons, if_true]
        have : List.filterMap (fun e : Ev => if e.1 = c then e.2 else none)
            (List.filterMap (fun kv : Nat × EpInfo => Option.map (fun c => (c, some m)) kv.2.output) r) = [] := by
          apply msgsOf_nil_of_notin
          intro e he hec
          have := (broadcast_chan m r e he).2
          exact hcn.1 (hec ▸ this)
        simp [this]
      · have hne : c0 ≠ c := by
          intro e; subst e; exact hcn.1 (mem_chans.2 ⟨kv, hkv, ho⟩)
        simp only [msgsOf, List.filterMap_cons, hne, if_false]
        exact ih hcn.2 hkv

end CalicoVerif.C31
