import CalicoVerif.Proofs.C11Guard
import CalicoVerif.Proofs.C11Bits
/-!
C11 — the IP-set lookup fragment (`setUpIPSetKey` + `map_lookup_elem`, IPv4):
after it, R0 is non-zero iff the environment's membership relation holds for
(set id, the leg's address word, the leg's port, the protocol) — i.e. the key
the builder assembles on the stack is the right one, byte for byte.
-/
namespace CalicoVerif.C11

/-- The stack after `setUpIPSetKey` (IPv4) wrote the key at index `kk`. -/
def keyStack (s : Nat → Option Byte) (kk : Nat) (a p q lo hi : Nat) : Nat → Option Byte :=
  writeStack (writeStack (writeStack (writeStack (writeStack (writeStack (writeStack s (kk + 19) (toLE 0 1))
    kk (toLE 128 4)) (kk + 12) (toLE a 4)) (kk + 16) (toLE p 2)) (kk + 18) (toLE q 1)) (kk + 4) (toLE lo 4))
    (kk + 8) (toLE hi 4)

theorem readStack_keyStack (s : Nat → Option Byte) (kk a p q lo hi : Nat) (hk : kk = 476 ∨ kk = 444) :
    readStack (keyStack s kk a p q lo hi) kk 20 =
      some (toLE 128 4 ++ toLE lo 4 ++ toLE hi 4 ++ toLE a 4 ++ toLE p 2 ++ toLE q 1 ++ toLE 0 1) := by
  rcases hk with rfl | rfl <;> simp [readStack, keyStack, writeStack, toLE]

theorem leNat4 (v : Nat) :
    leNat [BitVec.ofNat 8 v, BitVec.ofNat 8 (v / 256), BitVec.ofNat 8 (v / 256 / 256), BitVec.ofNat 8 (v / 256 / 256 / 256)]
      = v % 4294967296 := by
  simp only [leNat, BitVec.toNat_ofNat]; omega

theorem leNat2 (v : Nat) : leNat [BitVec.ofNat 8 v, BitVec.ofNat 8 (v / 256)] = v % 65536 := by
  simp only [leNat, BitVec.toNat_ofNat]; omega

theorem leNat8 (lo hi : Nat) :
    leNat [BitVec.ofNat 8 lo, BitVec.ofNat 8 (lo / 256), BitVec.ofNat 8 (lo / 256 / 256), BitVec.ofNat 8 (lo / 256 / 256 / 256),
           BitVec.ofNat 8 hi, BitVec.ofNat 8 (hi / 256), BitVec.ofNat 8 (hi / 256 / 256), BitVec.ofNat 8 (hi / 256 / 256 / 256)]
      = lo % 4294967296 + 4294967296 * (hi % 4294967296) := by
  simp only [leNat, BitVec.toNat_ofNat]; omega

theorem ipsetLookup_key (env : Env) (m : Mach) (s : Nat → Option Byte) (kk a p q lo hi : Nat)
    (hv6 : env.c.v6 = false) (hst : m.stack = keyStack s kk a p q lo hi) (hk : kk = 476 ∨ kk = 444) :
    ipsetLookup env m kk = some (env.member
      (rev64bv (BitVec.ofNat 64 (lo % 4294967296 + 4294967296 * (hi % 4294967296)))).toNat
      [BitVec.ofNat 32 a] (BitVec.ofNat 16 p) (BitVec.ofNat 8 q)) := by
  unfold ipsetLookup
  simp only [hv6, hst, Bool.false_eq_true, if_false]
  rw [readStack_keyStack s kk a p q lo hi hk]
  simp [toLE, leNat4, leNat2, leNat8]
  refine ⟨by decide, ?_⟩
  have h1 : BitVec.ofNat 32 (a % 4294967296) = BitVec.ofNat 32 a := by apply BitVec.eq_of_toNat_eq; simp
  have h2 : BitVec.ofNat 16 (p % 65536) = BitVec.ofNat 16 p := by apply BitVec.eq_of_toNat_eq; simp
  rw [h1, h2]


theorem step_call_ipset (env : Env) (m : Mach) (kk : Nat) (b : Bool) (hv6 : env.c.v6 = false)
    (hfd : mapHandle env.c.ipSetMapFD ≠ mapHandle env.c.stateMapFD)
    (h1 : m.reg 1 = some (mapHandle env.c.ipSetMapFD))
    (h2 : m.reg 2 = some (stackW + BitVec.ofInt 64 ((kk : Int) - 512))) (hk : kk + 20 ≤ 512)
    (hl : ipsetLookup env m kk = some b) (nxt : Option Insn) :
    step env ⟨opCall, 0, 0, 0, helperMapLookupElem⟩ nxt m =
      .next ((m.clobber).setReg 0 (if b then BitVec.ofNat 64 ipsetValPtr else 0)) := by
  have hr := region_stack kk 20 hk
  simp [step, opCall, opLoadImm64, opJumpA, opExit, helperCall, helperMapLookupElem, h1, h2, hfd, hv6, hr, hl]

theorem reg_clobber (m : Mach) (r : Nat) (h : r = 0 ∨ 6 ≤ r) : (m.clobber).reg r = m.reg r := by
  unfold Mach.clobber Mach.reg
  simp only [List.getD_eq_getElem?_getD]
  rcases h with rfl | h
  · simp [List.getElem?_set]
  · rw [List.getElem?_set_ne (by omega), List.getElem?_set_ne (by omega), List.getElem?_set_ne (by omega),
      List.getElem?_set_ne (by omega), List.getElem?_set_ne (by omega)]

theorem Inv.clobber {st : List Byte} {m : Mach} (h : Inv st m) : Inv st m.clobber where
  r6 := by rw [reg_clobber m 6 (Or.inr (by omega))]; exact h.r6
  r9 := by rw [reg_clobber m 9 (Or.inr (by omega))]; exact h.r9
  r10 := by rw [reg_clobber m 10 (Or.inr (by omega))]; exact h.r10
  regsLen := by simp [Mach.clobber, h.regsLen]
  sim := h.sim
  stLen := h.stLen

theorem stack_setReg (m : Mach) (r : Nat) (v : Word) : (m.setReg r v).stack = m.stack := rfl

/-- The 14 instructions of `setUpIPSetKey`: the key is on the stack. -/
def keyEvs (lo hi : Int) (kk ipo pto : Nat) : List Ev :=
  [movImm64 R1 0, .ins ⟨opStoreReg8, 10, 1, ((kk + 19 : Nat) : Int) - 512, 0⟩,
   movImm64 R1 128, .ins ⟨opStoreReg32, 10, 1, ((kk : Nat) : Int) - 512, 0⟩,
   .ins ⟨opLoadReg32, 1, 9, (ipo : Int), 0⟩, .ins ⟨opStoreReg32, 10, 1, ((kk + 12 : Nat) : Int) - 512, 0⟩,
   .ins ⟨opLoadReg16, 1, 9, (pto : Int), 0⟩, .ins ⟨opStoreReg16, 10, 1, ((kk + 16 : Nat) : Int) - 512, 0⟩,
   .ins ⟨opLoadReg8, 1, 9, ((104 : Nat) : Int), 0⟩, .ins ⟨opStoreReg8, 10, 1, ((kk + 18 : Nat) : Int) - 512, 0⟩,
   movImm32 R1 lo, .ins ⟨opStoreReg32, 10, 1, ((kk + 4 : Nat) : Int) - 512, 0⟩,
   movImm32 R1 hi, .ins ⟨opStoreReg32, 10, 1, ((kk + 8 : Nat) : Int) - 512, 0⟩]

theorem lrun_keyEvs (env : Env) (st : List Byte) (lo hi : Int) (kk ipo pto : Nat) (rest : List Ev) (m : Mach)
    (hI : Inv st m) (hlen : st.length = 512)
    (hk : kk = 476 ∨ kk = 444) (hipo : ipo + 4 ≤ 512) (hpto : pto + 2 ≤ 512)
    (hsi : ∀ j, ipo ≤ j → j < ipo + 4 → Stable j) (hsp : ∀ j, pto ≤ j → j < pto + 2 → Stable j) :
    ∃ m', Inv st m' ∧
      m'.stack = keyStack m.stack kk (BitVec.ofNat 64 (fieldN st ipo 4)).toNat
        (BitVec.ofNat 64 (fieldN st pto 2)).toNat (BitVec.ofNat 64 (fieldN st 104 1)).toNat
        (((sext32 lo).setWidth 32).setWidth 64).toNat (((sext32 hi).setWidth 32).setWidth 64).toNat ∧
      lrun env (keyEvs lo hi kk ipo pto ++ rest) m = lrun env rest m' := by
  have hkk : kk + 20 ≤ 512 := by rcases hk with rfl | rfl <;> omega
  have rl : ∀ {mm : Mach}, Inv st mm → 1 < mm.regs.length := fun h => by rw [h.regsLen]; omega
  -- 1, 2
  have hI1 := hI.setReg 1 (sext32 0) (by omega) (by omega) (by omega)
  have e1 := step_movImm64 env m 1 0 0
  have e2 := step_stx_stack (env := env) hI1 opStoreReg8 1 (kk + 19) 1 0 (x := sext32 0)
    (hop := Or.inl ⟨rfl, rfl⟩) (hk := by omega) (hv := reg_setReg_eq (rl hI))
  have hI2 := hI1.setStack (writeStack (m.setReg 1 (sext32 0)).stack (kk + 19) (toLE (sext32 0).toNat 1))
  -- 3, 4
  have hI3 := hI2.setReg 1 (sext32 128) (by omega) (by omega) (by omega)
  have e4 := step_stx_stack (env := env) hI3 opStoreReg32 1 kk 4 0 (x := sext32 128)
    (hop := Or.inr (Or.inr (Or.inl ⟨rfl, rfl⟩))) (hk := by omega) (hv := reg_setReg_eq (rl hI2))
  have hI4 := hI3.setStack (writeStack (m.setReg 1 (sext32 0)).stack (kk + 19) (toLE (sext32 0).toNat 1) |>
    fun s => writeStack s kk (toLE (sext32 128).toNat 4))
  -- 5, 6
  have e5 := step_ldx_state (env := env) hI4 opLoadReg32 1 ipo 4 0 (bs := (st.drop ipo).take 4)
    (hop := Or.inr (Or.inr (Or.inl ⟨rfl, rfl⟩))) (hd := by omega) (hk := hipo) (hb := getBytes_full hlen ipo 4 hipo)
    (hstab := hsi)
  have hI5 := hI4.setReg 1 (BitVec.ofNat 64 (fieldN st ipo 4)) (by omega) (by omega) (by omega)
  have e6 := step_stx_stack (env := env) hI5 opStoreReg32 1 (kk + 12) 4 0 (x := BitVec.ofNat 64 (fieldN st ipo 4))
    (hop := Or.inr (Or.inr (Or.inl ⟨rfl, rfl⟩))) (hk := by omega) (hv := reg_setReg_eq (rl hI4))
  have hI6 := hI5.setStack (writeStack (writeStack (writeStack (m.setReg 1 (sext32 0)).stack (kk + 19)
    (toLE (sext32 0).toNat 1)) kk (toLE (sext32 128).toNat 4)) (kk + 12) (toLE (BitVec.ofNat 64 (fieldN st ipo 4)).toNat 4))
  -- 7, 8
  have e7 := step_ldx_state (env := env) hI6 opLoadReg16 1 pto 2 0 (bs := (st.drop pto).take 2)
    (hop := Or.inr (Or.inl ⟨rfl, rfl⟩)) (hd := by omega) (hk := hpto) (hb := getBytes_full hlen pto 2 hpto)
    (hstab := hsp)
  have hI7 := hI6.setReg 1 (BitVec.ofNat 64 (fieldN st pto 2)) (by omega) (by omega) (by omega)
  have e8 := step_stx_stack (env := env) hI7 opStoreReg16 1 (kk + 16) 2 0 (x := BitVec.ofNat 64 (fieldN st pto 2))
    (hop := Or.inr (Or.inl ⟨rfl, rfl⟩)) (hk := by omega) (hv := reg_setReg_eq (rl hI6))
  have hI8 := hI7.setStack (writeStack (writeStack (writeStack (writeStack (m.setReg 1 (sext32 0)).stack (kk + 19)
    (toLE (sext32 0).toNat 1)) kk (toLE (sext32 128).toNat 4)) (kk + 12) (toLE (BitVec.ofNat 64 (fieldN st ipo 4)).toNat 4))
    (kk + 16) (toLE (BitVec.ofNat 64 (fieldN st pto 2)).toNat 2))
  -- 9, 10
  have e9 := step_ldx_state (env := env) hI8 opLoadReg8 1 104 1 0 (bs := (st.drop 104).take 1)
    (hop := Or.inl ⟨rfl, rfl⟩) (hd := by omega) (hk := by omega) (hb := getBytes_full hlen 104 1 (by omega))
    (hstab := by intro j h1 h2; unfold Stable; omega)
  have hI9 := hI8.setReg 1 (BitVec.ofNat 64 (fieldN st 104 1)) (by omega) (by omega) (by omega)
  have e10 := step_stx_stack (env := env) hI9 opStoreReg8 1 (kk + 18) 1 0 (x := BitVec.ofNat 64 (fieldN st 104 1))
    (hop := Or.inl ⟨rfl, rfl⟩) (hk := by omega) (hv := reg_setReg_eq (rl hI8))
  have hI10 := hI9.setStack (writeStack (writeStack (writeStack (writeStack (writeStack (m.setReg 1 (sext32 0)).stack (kk + 19)
    (toLE (sext32 0).toNat 1)) kk (toLE (sext32 128).toNat 4)) (kk + 12) (toLE (BitVec.ofNat 64 (fieldN st ipo 4)).toNat 4))
    (kk + 16) (toLE (BitVec.ofNat 64 (fieldN st pto 2)).toNat 2)) (kk + 18) (toLE (BitVec.ofNat 64 (fieldN st 104 1)).toNat 1))
  -- 11, 12
  have hI11 := hI10.setReg 1 (((sext32 lo).setWidth 32).setWidth 64) (by omega) (by omega) (by omega)
  have e12 := step_stx_stack (env := env) hI11 opStoreReg32 1 (kk + 4) 4 0 (x := ((sext32 lo).setWidth 32).setWidth 64)
    (hop := Or.inr (Or.inr (Or.inl ⟨rfl, rfl⟩))) (hk := by omega) (hv := reg_setReg_eq (rl hI10))
  have hI12 := hI11.setStack (writeStack (writeStack (writeStack (writeStack (writeStack (writeStack (m.setReg 1 (sext32 0)).stack (kk + 19)
    (toLE (sext32 0).toNat 1)) kk (toLE (sext32 128).toNat 4)) (kk + 12) (toLE (BitVec.ofNat 64 (fieldN st ipo 4)).toNat 4))
    (kk + 16) (toLE (BitVec.ofNat 64 (fieldN st pto 2)).toNat 2)) (kk + 18) (toLE (BitVec.ofNat 64 (fieldN st 104 1)).toNat 1))
    (kk + 4) (toLE (((sext32 lo).setWidth 32).setWidth 64).toNat 4))
  -- 13, 14
  have hI13 := hI12.setReg 1 (((sext32 hi).setWidth 32).setWidth 64) (by omega) (by omega) (by omega)
  have e14 := step_stx_stack (env := env) hI13 opStoreReg32 1 (kk + 8) 4 0 (x := ((sext32 hi).setWidth 32).setWidth 64)
    (hop := Or.inr (Or.inr (Or.inl ⟨rfl, rfl⟩))) (hk := by omega) (hv := reg_setReg_eq (rl hI12))
  have hI14 := hI13.setStack (keyStack m.stack kk (BitVec.ofNat 64 (fieldN st ipo 4)).toNat
    (BitVec.ofNat 64 (fieldN st pto 2)).toNat (BitVec.ofNat 64 (fieldN st 104 1)).toNat
    (((sext32 lo).setWidth 32).setWidth 64).toNat (((sext32 hi).setWidth 32).setWidth 64).toNat)
  refine ⟨_, hI14, rfl, ?_⟩
  simp only [keyEvs, movImm64, movImm32, mk, R1, List.cons_append, List.nil_append]
  refine (lrun_ins_next (e1 _ (by omega))).trans ?_
  refine (lrun_ins_next (e2 _)).trans ?_
  refine (lrun_ins_next (step_movImm64 env _ 1 0 128 _ (by omega))).trans ?_
  refine (lrun_ins_next (e4 _)).trans ?_
  refine (lrun_ins_next (e5 _)).trans ?_
  refine (lrun_ins_next (e6 _)).trans ?_
  refine (lrun_ins_next (e7 _)).trans ?_
  refine (lrun_ins_next (e8 _)).trans ?_
  refine (lrun_ins_next (e9 _)).trans ?_
  refine (lrun_ins_next (e10 _)).trans ?_
  refine (lrun_ins_next (step_movImm32 env _ 1 0 lo _ (by omega))).trans ?_
  refine (lrun_ins_next (e12 _)).trans ?_
  refine (lrun_ins_next (step_movImm32 env _ 1 0 hi _ (by omega))).trans ?_
  refine (lrun_ins_next (e14 _)).trans ?_
  rfl

/-- `ipSetLookup` (IPv4) with every offset explicit: `kk` = stack index of the key,
`ipo`/`pto` = state offsets of the leg's address / port. -/
def lookupEvs (c : Cfg) (lo hi : Int) (kk ipo pto : Nat) : List Ev :=
  keyEvs lo hi kk ipo pto ++ loadMapFD R1 c.ipSetMapFD ++
  [mov64 R2 R10, .ins ⟨opAddImm64, 2, 0, 0, ((kk : Nat) : Int) - 512⟩, call helperMapLookupElem]


/-- Running the whole lookup: R0 ≠ 0 iff the key assembled on the stack is a member. -/
theorem lrun_lookupEvs (env : Env) (st : List Byte) (lo hi : Int) (kk ipo pto : Nat) (rest : List Ev) (m : Mach)
    (hI : Inv st m) (hlen : st.length = 512) (hv6 : env.c.v6 = false)
    (hfd : mapHandle env.c.ipSetMapFD ≠ mapHandle env.c.stateMapFD)
    (hk : kk = 476 ∨ kk = 444) (hipo : ipo + 4 ≤ 512) (hpto : pto + 2 ≤ 512)
    (hsi : ∀ j, ipo ≤ j → j < ipo + 4 → Stable j) (hsp : ∀ j, pto ≤ j → j < pto + 2 → Stable j) :
    ∃ m', Inv st m' ∧
      m'.reg 0 = some (if env.member
          (rev64bv (BitVec.ofNat 64 ((((sext32 lo).setWidth 32).setWidth 64).toNat % 4294967296 +
            4294967296 * ((((sext32 hi).setWidth 32).setWidth 64).toNat % 4294967296)))).toNat
          [BitVec.ofNat 32 (BitVec.ofNat 64 (fieldN st ipo 4)).toNat] (BitVec.ofNat 16 (BitVec.ofNat 64 (fieldN st pto 2)).toNat)
          (BitVec.ofNat 8 (BitVec.ofNat 64 (fieldN st 104 1)).toNat)
        then BitVec.ofNat 64 ipsetValPtr else 0) ∧
      lrun env (lookupEvs env.c lo hi kk ipo pto ++ rest) m = lrun env rest m' := by
  have hkk : kk + 20 ≤ 512 := by rcases hk with rfl | rfl <;> omega
  obtain ⟨m1, hI1, hs1, e1⟩ := lrun_keyEvs env st lo hi kk ipo pto
    (loadMapFD R1 env.c.ipSetMapFD ++ [mov64 R2 R10, .ins ⟨opAddImm64, 2, 0, 0, ((kk : Nat) : Int) - 512⟩,
      call helperMapLookupElem] ++ rest) m hI hlen hk hipo hpto hsi hsp
  have rl : ∀ {mm : Mach}, Inv st mm → ∀ r, r < 11 → r < mm.regs.length := fun h r hr => by rw [h.regsLen]; exact hr
  have hI2 := hI1.setReg 1 (mapHandle env.c.ipSetMapFD) (by omega) (by omega) (by omega)
  have hI3 := hI2.setReg 2 stackW (by omega) (by omega) (by omega)
  have hI4 := hI3.setReg 2 (stackW + sext32 (((kk : Nat) : Int) - 512)) (by omega) (by omega) (by omega)
  have h1 : ((((m1.setReg 1 (mapHandle env.c.ipSetMapFD)).setReg 2 stackW).setReg 2
      (stackW + sext32 (((kk : Nat) : Int) - 512))).reg 1) = some (mapHandle env.c.ipSetMapFD) := by
    rw [reg_setReg_ne (by omega), reg_setReg_ne (by omega)]
    exact reg_setReg_eq (rl hI1 1 (by omega))
  have h2 : ((((m1.setReg 1 (mapHandle env.c.ipSetMapFD)).setReg 2 stackW).setReg 2
      (stackW + sext32 (((kk : Nat) : Int) - 512))).reg 2) = some (stackW + BitVec.ofInt 64 (((kk : Nat) : Int) - 512)) :=
    reg_setReg_eq (rl hI3 2 (by omega))
  have hl := ipsetLookup_key env (((m1.setReg 1 (mapHandle env.c.ipSetMapFD)).setReg 2 stackW).setReg 2
      (stackW + sext32 (((kk : Nat) : Int) - 512))) m.stack kk _ _ _ _ _ hv6 hs1 hk
  generalize env.member _ _ _ _ = B at hl ⊢
  have ec := step_call_ipset env _ kk B hv6 hfd h1 h2 hkk hl
  have hrun : lrun env (lookupEvs env.c lo hi kk ipo pto ++ rest) m = lrun env rest
      (((((m1.setReg 1 (mapHandle env.c.ipSetMapFD)).setReg 2 stackW).setReg 2
        (stackW + sext32 (((kk : Nat) : Int) - 512))).clobber).setReg 0 (if B then BitVec.ofNat 64 ipsetValPtr else 0)) := by
    unfold lookupEvs
    simp only [List.append_assoc] at e1 ⊢
    rw [e1]
    refine (lrun_loadMapFD env m1 1 _ _ (by omega)).trans ?_
    simp only [mov64, call, mk, R2, R10, List.cons_append, List.nil_append]
    refine (lrun_ins_next (step_mov64 env _ 2 10 0 0 _ stackW (by omega) hI2.r10)).trans ?_
    refine (lrun_ins_next (step_addImm64 env _ 2 0 _ _ stackW (by omega) (reg_setReg_eq (rl hI2 2 (by omega))))).trans ?_
    exact lrun_ins_next (ec _)
  exact ⟨_, (hI4.clobber).setReg 0 _ (by omega) (by omega) (by omega),
    reg_setReg_eq (by simp [Mach.clobber, Mach.setReg, hI1.regsLen]), hrun⟩

/-! ### Connecting to the builder's `ipSetLookup` and to the reference membership -/

def Leg.kk : Leg → Nat
  | .source => 476
  | _ => 444

def Leg.ipo : Leg → Nat
  | .source => 8
  | .destPreNAT => 40
  | .dest => 56

def Leg.pto : Leg → Nat
  | .source => 96
  | .destPreNAT => 100
  | .dest => 102

theorem ipSetLookup_eq (c : Cfg) (id : Nat) (leg : Leg) (hv6 : c.v6 = false) :
    ipSetLookup c id leg =
      lookupEvs c (toInt32 (rev64 id)) (toInt32 (rev64 id / 4294967296)) leg.kk leg.ipo leg.pto := by
  unfold ipSetLookup lookupEvs keyEvs
  simp only [hv6, Bool.false_eq_true, if_false, Bool.not_false, if_true]
  cases leg <;> rfl

/-- The reference's membership test for a leg (the `mem` of `ruleMatch`). -/
def memRef (env : Env) (p : Pkt) (leg : Leg) (id : Nat) : Bool :=
  env.member id (keyAddr env.c.v6 (p.addr leg)) (p.port leg) p.proto

theorem lo32 (n : Nat) : (((sext32 (toInt32 n)).setWidth 32).setWidth 64).toNat = n % 4294967296 := by
  unfold sext32 toInt32
  simp only [BitVec.toNat_setWidth, BitVec.toNat_ofInt, BitVec.toInt_eq_toNat_cond, BitVec.toNat_ofNat]
  split <;> omega

theorem key_id (id : Nat) (hid : id < 2 ^ 64) :
    (rev64bv (BitVec.ofNat 64 ((((sext32 (toInt32 (rev64 id))).setWidth 32).setWidth 64).toNat % 4294967296 +
      4294967296 * ((((sext32 (toInt32 (rev64 id / 4294967296))).setWidth 32).setWidth 64).toNat % 4294967296)))).toNat = id := by
  rw [lo32, lo32]
  have hbe : rev64 id < 2 ^ 64 := by unfold rev64; exact (rev64bv (BitVec.ofNat 64 id)).isLt
  have : rev64 id % 4294967296 % 4294967296 + 4294967296 * (rev64 id / 4294967296 % 4294967296 % 4294967296) = rev64 id := by
    omega
  rw [this]
  unfold rev64
  rw [BitVec.ofNat_toNat, BitVec.setWidth_eq, rev64bv_rev64bv, BitVec.toNat_ofNat]
  omega

theorem ofNat_toNat64 (w : Nat) (f : Nat) (hw : w ≤ 64) : BitVec.ofNat w (BitVec.ofNat 64 f).toNat = BitVec.ofNat w f := by
  apply BitVec.eq_of_toNat_eq
  simp only [BitVec.toNat_ofNat]
  have : 2 ^ w ∣ 2 ^ 64 := Nat.pow_dvd_pow 2 hw
  exact Nat.mod_mod_of_dvd f this

/-- **IP-set lookup.**  After the fragment, R0 ≠ 0 iff the reference membership holds. -/
theorem lrun_ipSetLookup (env : Env) (st : List Byte) (id : Nat) (leg : Leg) (rest : List Ev) (m : Mach)
    (hI : Inv st m) (hlen : st.length = 512) (hv6 : env.c.v6 = false)
    (hfd : mapHandle env.c.ipSetMapFD ≠ mapHandle env.c.stateMapFD) (hid : id < 2 ^ 64) :
    ∃ m', Inv st m' ∧
      m'.reg 0 = some (if memRef env (pktOfD st) leg id then BitVec.ofNat 64 ipsetValPtr else 0) ∧
      lrun env (ipSetLookup env.c id leg ++ rest) m = lrun env rest m' := by
  rw [ipSetLookup_eq env.c id leg hv6]
  obtain ⟨m', hI', hr, he⟩ := lrun_lookupEvs env st (toInt32 (rev64 id)) (toInt32 (rev64 id / 4294967296))
    leg.kk leg.ipo leg.pto rest m hI hlen hv6 hfd (by cases leg <;> simp [Leg.kk])
    (by cases leg <;> simp [Leg.ipo]) (by cases leg <;> simp [Leg.pto])
    (by cases leg <;> (intro j h1 h2; simp only [Leg.ipo] at h1 h2; unfold Stable; omega))
    (by cases leg <;> (intro j h1 h2; simp only [Leg.pto] at h1 h2; unfold Stable; omega))
  refine ⟨m', hI', ?_, he⟩
  rw [hr, key_id id hid, ofNat_toNat64 32 _ (by omega), ofNat_toNat64 16 _ (by omega), ofNat_toNat64 8 _ (by omega)]
  have : memRef env (pktOfD st) leg id = env.member id [BitVec.ofNat 32 (fieldN st leg.ipo 4)]
      (BitVec.ofNat 16 (fieldN st leg.pto 2)) (BitVec.ofNat 8 (fieldN st 104 1)) := by
    unfold memRef keyAddr
    simp only [hv6, Bool.false_eq_true, if_false]
    cases leg <;> rfl
  rw [this]

end CalicoVerif.C11
