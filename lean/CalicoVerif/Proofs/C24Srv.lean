import CalicoVerif.Proofs.C24
/-!
C24 — sender side: whatever the batching decisions, the KV messages of one connection are exactly
the deltas of the crumbs passed, in order; every status message is sent at a crumb boundary.
-/
namespace CalicoVerif.C24

/-- All KVs of a message stream, in order. -/
def kvsConcat : List Msg → List SU
  | [] => []
  | .kvs l :: ms => l ++ kvsConcat ms
  | .status _ :: ms => kvsConcat ms

theorem kvsConcat_append (a b : List Msg) : kvsConcat (a ++ b) = kvsConcat a ++ kvsConcat b := by
  induction a with
  | nil => rfl
  | cons m ms ih => cases m <;> simp [kvsConcat, ih]

def crumbDeltas (chain : List Crumb) (i : Nat) : List SU := ((chain[i]?).map (·.deltas)).getD []

/-- The deltas of crumbs `a+1 … b`, in order. -/
def dB (chain : List Crumb) (a b : Nat) : List SU :=
  (List.range' (a + 1) (b - a)).flatMap (crumbDeltas chain)

theorem dB_self (chain : List Crumb) (a : Nat) : dB chain a a = [] := by simp [dB]

theorem dB_succ (chain : List Crumb) (a b : Nat) (h : a ≤ b) :
    dB chain a (b + 1) = dB chain a b ++ crumbDeltas chain (b + 1) := by
  unfold dB
  have e : b + 1 - a = (b - a) + 1 := by omega
  rw [e, List.range'_concat]
  simp only [List.flatMap_append, List.flatMap_cons, List.flatMap_nil, List.append_nil]
  have : a + 1 + 1 * (b - a) = b + 1 := by omega
  rw [this]

theorem dB_split (chain : List Crumb) (a b c : Nat) (h1 : a ≤ b) (h2 : b ≤ c) :
    dB chain a b ++ dB chain b c = dB chain a c := by
  unfold dB
  have e : c - a = (b - a) + (c - b) := by omega
  have e2 : b + 1 = a + 1 + 1 * (b - a) := by omega
  rw [e, ← List.flatMap_append]
  congr 1
  rw [e2]
  exact (List.range'_append (s := a + 1) (m := b - a) (n := c - b) (step := 1))

/-- The view of crumb `i` of the chain. -/
def viewAt (chain : List Crumb) (i : Nat) : View := ((chain[i]?).map (fun c => asMap c.kvs)).getD emptyView

theorem chainOK_link (chain : List Crumb) (h : ChainOK chain) (i : Nat) (x y : Crumb)
    (hx : chain[i]? = some x) (hy : chain[i + 1]? = some y) : Link x y := by
  induction chain generalizing i with
  | nil => simp at hx
  | cons a rest ih =>
    cases rest with
    | nil => simp at hy
    | cons b rest' =>
      cases i with
      | zero =>
        simp at hx hy
        subst hx; subst hy
        exact h.1
      | succ j =>
        simp only [List.getElem?_cons_succ] at hx hy
        exact ih h.2 j hx hy

/-- Telescoping the chain: crumb `b`'s view is crumb `a`'s view with the deltas in between applied. -/
theorem chain_telescope (chain : List Crumb) (h : ChainOK chain) (a b : Nat) (hab : a ≤ b)
    (hb : b < chain.length) : viewAt chain b = applyDs (viewAt chain a) (dB chain a b) := by
  induction b with
  | zero =>
    have : a = 0 := by omega
    subst this
    simp [dB_self, applyDs]
  | succ n ih =>
    by_cases e : a = n + 1
    · subst e; simp [dB_self, applyDs]
    · have han : a ≤ n := by omega
      have hn : n < chain.length := by omega
      rw [dB_succ chain a n han, applyDs_append, ← ih han hn]
      have hx : chain[n]? = some chain[n] := List.getElem?_eq_getElem hn
      have hy : chain[n + 1]? = some chain[n + 1] := List.getElem?_eq_getElem hb
      have hl := chainOK_link chain h n _ _ hx hy
      simp only [viewAt, hx, hy, Option.map_some, Option.getD_some, crumbDeltas]
      exact hl.1

/-! ### status bookkeeping over a message stream -/

/-- Walk a message stream accumulating its KVs; at every status message `P acc s` must hold. -/
def statusesOK (P : List SU → Nat → Prop) : List SU → List Msg → Prop
  | _, [] => True
  | acc, .kvs l :: ms => statusesOK P (acc ++ l) ms
  | acc, .status s :: ms => P acc s ∧ statusesOK P acc ms

theorem statusesOK_snoc_kvs (P : List SU → Nat → Prop) (acc : List SU) (ms : List Msg) (l : List SU) :
    statusesOK P acc (ms ++ [Msg.kvs l]) ↔ statusesOK P acc ms := by
  induction ms generalizing acc with
  | nil => simp [statusesOK]
  | cons m ms ih => cases m <;> simp [statusesOK, ih]

theorem statusesOK_snoc_status (P : List SU → Nat → Prop) (acc : List SU) (ms : List Msg) (s : Nat) :
    statusesOK P acc (ms ++ [Msg.status s]) ↔ statusesOK P acc ms ∧ P (acc ++ kvsConcat ms) s := by
  induction ms generalizing acc with
  | nil => simp [statusesOK, kvsConcat]
  | cons m ms ih =>
    cases m with
    | kvs l => simp [statusesOK, kvsConcat, ih, List.append_assoc]
    | status t => simp [statusesOK, kvsConcat, ih, and_assoc]

theorem statusesOK_mono {P Q : List SU → Nat → Prop} (h : ∀ acc s, P acc s → Q acc s) (acc : List SU)
    (ms : List Msg) (hp : statusesOK P acc ms) : statusesOK Q acc ms := by
  induction ms generalizing acc with
  | nil => trivial
  | cons m ms ih =>
    cases m with
    | kvs l => exact ih _ hp
    | status t => exact ⟨h _ _ hp.1, ih _ hp.2⟩

/-! ### the inner (batching) loop -/

def InnerOK (chain : List Crumb) (p0 : Nat) (acc0 : List SU) : Inner → Prop
  | .done pos' acc' _ => p0 ≤ pos' ∧ acc' = acc0 ++ dB chain p0 pos'
  | .blocked pos' acc' _ => p0 ≤ pos' ∧ acc' = acc0 ++ dB chain p0 pos'
  | .disconnected pos' => p0 ≤ pos'

theorem inner_spec (chain : List Crumb) (cfg : SrvCfg) (p0 : Nat) (acc0 : List SU) :
    ∀ (fuel pos : Nat) (acc : List SU) (lags : List Nat), p0 ≤ pos → acc = acc0 ++ dB chain p0 pos →
      InnerOK chain p0 acc0 (inner chain cfg fuel pos acc lags) := by
  intro fuel
  induction fuel with
  | zero => intro pos acc lags hp ha; simp only [inner, InnerOK]; exact ⟨hp, ha⟩
  | succ n ih =>
    intro pos acc lags hp ha
    unfold inner
    split
    · -- room in the message
      cases hc : chain[pos + 1]? with
      | none => simp only [InnerOK]; exact ⟨hp, ha⟩
      | some crumb =>
        simp only
        have hcd : crumbDeltas chain (pos + 1) = crumb.deltas := by simp [crumbDeltas, hc]
        have hnext : acc ++ crumb.deltas = acc0 ++ dB chain p0 (pos + 1) := by
          rw [dB_succ chain p0 pos hp, hcd, ha, List.append_assoc]
        split
        · -- fell behind after the grace period
          simp only [InnerOK]; omega
        · split
          · -- not behind, nothing batched yet: send this crumb's deltas as they are
            rename_i hcond
            have hemp : acc = [] := by
              simp only [Bool.and_eq_true, decide_eq_true_eq, List.isEmpty_iff] at hcond
              exact hcond.2
            simp only [InnerOK]
            refine ⟨by omega, ?_⟩
            rw [← hnext, hemp, List.nil_append]
          · split
            · simp only [InnerOK]; exact ⟨by omega, hnext⟩
            · exact ih (pos + 1) (acc ++ crumb.deltas) lags.tail (by omega) hnext
    · simp only [InnerOK]; exact ⟨hp, ha⟩

/-! ### the outer loop -/

/-- What the stream of one connection guarantees at a status message: everything sent so far is
exactly the deltas up to some crumb `p`, and `s` is that crumb's status. -/
def AtCrumb (chain : List Crumb) (start : Nat) (acc : List SU) (s : Nat) : Prop :=
  ∃ p, start ≤ p ∧ acc = dB chain start p ∧ (chain[p]?).map (·.status) = some s

structure OuterOK (chain : List Crumb) (start : Nat) (r : SendResult) : Prop where
  /-- the KVs sent are exactly the deltas of crumbs `start+1 … p` for some `p` not beyond the final position -/
  prefix_exact : ∃ p, start ≤ p ∧ p ≤ r.pos ∧ kvsConcat r.msgs = dB chain start p
  /-- unless disconnected, sent ++ held = all deltas up to the final position -/
  exact : r.disconnected = false → kvsConcat r.msgs ++ r.held = dB chain start r.pos
  statuses : statusesOK (AtCrumb chain start) [] r.msgs

theorem outer_spec (chain : List Crumb) (cfg : SrvCfg) (start : Nat) :
    ∀ (fuel pos lastSent : Nat) (lags : List Nat) (out : List Msg), start ≤ pos →
      kvsConcat out = dB chain start pos → statusesOK (AtCrumb chain start) [] out →
      OuterOK chain start (outer chain cfg fuel pos lastSent lags out) := by
  intro fuel
  induction fuel with
  | zero =>
    intro pos lastSent lags out hp hk hs
    simp only [outer]
    exact ⟨⟨pos, hp, Nat.le_refl _, hk⟩, fun _ => by simp [hk], hs⟩
  | succ n ih =>
    intro pos lastSent lags out hp hk hs
    unfold outer
    have hin := inner_spec chain cfg pos [] chain.length pos [] lags (Nat.le_refl _) (by simp [dB_self])
    split
    · -- blocked
      rename_i pos' acc' lags' heq
      rw [heq] at hin
      simp only [InnerOK, List.nil_append] at hin
      refine ⟨⟨pos, hp, hin.1, hk⟩, fun _ => ?_, hs⟩
      simp only
      rw [hk, hin.2, dB_split chain start pos pos' hp hin.1]
    · -- disconnected
      rename_i pos' heq
      rw [heq] at hin
      simp only [InnerOK] at hin
      exact ⟨⟨pos, hp, hin, hk⟩, fun h => by simp at h, hs⟩
    · -- done
      rename_i pos' acc' lags' heq
      rw [heq] at hin
      simp only [InnerOK, List.nil_append] at hin
      obtain ⟨hpp, hacc⟩ := hin
      have hsp : start ≤ pos' := Nat.le_trans hp hpp
      -- the stream after the (possibly empty) KV message
      have hk1 : kvsConcat (if acc'.length > 0 then out ++ [Msg.kvs acc'] else out) = dB chain start pos' := by
        split
        · rw [kvsConcat_append, hk]
          simp only [kvsConcat, List.append_nil]
          rw [hacc, dB_split chain start pos pos' hp hpp]
        · rename_i hz
          have : acc' = [] := by
            cases acc' with
            | nil => rfl
            | cons _ _ => simp at hz
          rw [hk, ← dB_split chain start pos pos' hp hpp, ← hacc, this, List.append_nil]
      have hs1 : statusesOK (AtCrumb chain start) [] (if acc'.length > 0 then out ++ [Msg.kvs acc'] else out) := by
        split
        · exact (statusesOK_snoc_kvs _ _ _ _).mpr hs
        · exact hs
      simp only
      split
      · rename_i hne
        apply ih pos' _ lags' _ hsp
        · rw [kvsConcat_append, hk1]; simp [kvsConcat]
        · refine (statusesOK_snoc_status _ _ _ _).mpr ⟨hs1, ?_⟩
          simp only [List.nil_append, hk1]
          refine ⟨pos', hsp, rfl, ?_⟩
          cases hc : chain[pos']? with
          | none => simp [hc] at hne
          | some c => simp [hc]
      · exact ih pos' lastSent lags' _ hsp hk1 hs1

theorem sendDeltas_spec (chain : List Crumb) (cfg : SrvCfg) (start : Nat) (lags : List Nat) :
    OuterOK chain start (sendDeltas chain cfg start lags) := by
  unfold sendDeltas
  simp only
  apply outer_spec chain cfg start _ start _ lags _ (Nat.le_refl _)
  · split <;> simp [kvsConcat, dB_self]
  · split
    · rename_i hne
      simp only [statusesOK, and_true]
      refine ⟨start, Nat.le_refl _, by simp [dB_self], ?_⟩
      cases hc : chain[start]? with
      | none => simp [hc] at hne
      | some c => simp [hc]
    · trivial

/-! ### snapshot messages -/

theorem chunks_concat (m : Nat) (fuel : Nat) (l : List SU) (h : l.length ≤ fuel) :
    (chunks m fuel l).flatten = l := by
  induction fuel generalizing l with
  | zero =>
    have : l = [] := List.length_eq_zero_iff.mp (by omega)
    simp [chunks, this]
  | succ n ih =>
    unfold chunks
    split
    · rename_i he
      have : l = [] := by simpa using he
      simp [this]
    · rename_i he
      have hpos : 0 < l.length := by
        cases l with
        | nil => simp at he
        | cons _ _ => simp
      simp only [List.flatten_cons]
      rw [ih]
      · exact List.take_append_drop _ _
      · rw [List.length_drop]
        have : 1 ≤ max m 1 := Nat.le_max_right _ _
        omega

theorem kvsConcat_map_kvs (ls : List (List SU)) : kvsConcat (ls.map Msg.kvs) = ls.flatten := by
  induction ls with
  | nil => rfl
  | cons l ls ih => simp [kvsConcat, ih]

theorem snapshot_concat (c : Crumb) (m : Nat) : kvsConcat (snapshotMsgs c m) = c.kvs := by
  unfold snapshotMsgs
  rw [kvsConcat_map_kvs, chunks_concat _ _ _ (Nat.le_refl _)]

/-- A client that applies a sorted snapshot to an empty map holds exactly the snapshot's view. -/
theorem applyDs_sorted (l : List SU) (hs : Sorted l) (m : View) (k : Nat) :
    applyDs m l k = match kvsGet l k with
      | some u => u.entry
      | none => m k := by
  induction l generalizing m with
  | nil => rfl
  | cons x xs ih =>
    have hs' := List.pairwise_cons.mp hs
    simp only [applyDs, List.foldl_cons] at ih ⊢
    rw [ih hs'.2]
    by_cases hx : x.key = k
    · have : kvsGet xs k = none := by
        apply kvsGet_none_of_not_mem
        intro y hy e
        have := hs'.1 y hy
        omega
      simp [kvsGet, hx, this, applyD]
    · simp only [kvsGet, hx, if_false]
      cases kvsGet xs k <;> simp [applyD, hx]

theorem applyDs_snapshot (l : List SU) (hs : Sorted l) : applyDs emptyView l = asMap l := by
  funext k
  rw [applyDs_sorted l hs]
  simp only [asMap]
  cases kvsGet l k <;> simp [emptyView]

/-! ### positions stay inside the chain -/

def InnerLt (n : Nat) : Inner → Prop
  | .done p _ _ => p < n
  | .blocked p _ _ => p < n
  | .disconnected p => p < n

theorem inner_pos_lt (chain : List Crumb) (cfg : SrvCfg) :
    ∀ (fuel pos : Nat) (acc : List SU) (lags : List Nat), pos < chain.length →
      InnerLt chain.length (inner chain cfg fuel pos acc lags) := by
  intro fuel
  induction fuel with
  | zero => intro pos acc lags hp; simp only [inner, InnerLt]; exact hp
  | succ n ih =>
    intro pos acc lags hp
    unfold inner
    split
    · cases hc : chain[pos + 1]? with
      | none => simp only [InnerLt]; exact hp
      | some crumb =>
        have hlt : pos + 1 < chain.length := by
          rcases Nat.lt_or_ge (pos + 1) chain.length with h | h
          · exact h
          · rw [List.getElem?_eq_none h] at hc; cases hc
        simp only
        split
        · simp only [InnerLt]; exact hlt
        · split
          · simp only [InnerLt]; exact hlt
          · split
            · simp only [InnerLt]; exact hlt
            · exact ih (pos + 1) _ _ hlt
    · simp only [InnerLt]; exact hp

theorem outer_pos_lt (chain : List Crumb) (cfg : SrvCfg) :
    ∀ (fuel pos lastSent : Nat) (lags : List Nat) (out : List Msg), pos < chain.length →
      (outer chain cfg fuel pos lastSent lags out).pos < chain.length := by
  intro fuel
  induction fuel with
  | zero => intro pos lastSent lags out hp; simp only [outer]; exact hp
  | succ n ih =>
    intro pos lastSent lags out hp
    unfold outer
    have hin := inner_pos_lt chain cfg chain.length pos [] lags hp
    split
    · rename_i heq; rw [heq] at hin; exact hin
    · rename_i heq; rw [heq] at hin; exact hin
    · rename_i heq; rw [heq] at hin
      simp only [InnerLt] at hin
      simp only
      split
      · exact ih _ _ _ _ hin
      · exact ih _ _ _ _ hin

theorem sendDeltas_pos_lt (chain : List Crumb) (cfg : SrvCfg) (start : Nat) (lags : List Nat)
    (h : start < chain.length) : (sendDeltas chain cfg start lags).pos < chain.length := by
  unfold sendDeltas
  exact outer_pos_lt chain cfg _ _ _ _ _ h

end CalicoVerif.C24
