import CalicoVerif.Model.C08
/-! Helper lemmas for C08. -/
namespace CalicoVerif.C08
open CalicoVerif.Netfilter CalicoVerif.Policy

/-- outcome of a matching rule, given the mark on entry and the rules that follow -/
def actionOutcome (cfg : Cfg) (env : Env) (call : String → Mark → Result) (pkt : Packet)
    (rest : List Netfilter.Rule) (mark : Mark) : RuleAction → Result
  | .allow => .returned (mark ||| cfg.markAccept)
  | .pass => .returned (mark ||| cfg.markPass)
  | .deny => .verdict (if cfg.reject then .reject else .drop) (mark ||| cfg.markDrop)
  | .log => runRules env call pkt rest mark

theorem bit_test_set (mark mk : Mark) : ((mark ||| mk) &&& mk == mk) = true := by
  have : (mark ||| mk) &&& mk = mk := by
    ext i; simp only [BitVec.getElem_and, BitVec.getElem_or]
    cases mark[i] <;> cases mk[i] <;> rfl
  simp [this]

theorem bit_test_clear (mark mk : Mark) (h0 : mark &&& mk = 0) (hne : mk ≠ 0) :
    (mark &&& mk == mk) = false := by
  rw [h0]; simpa using Ne.symm hne

def clausesMatch (env : Env) (pkt : Packet) (mark : Mark) (cs : List Clause) : Bool :=
  cs.all (Clause.matches env pkt mark)

/-- `CombineMatchAndActionsForProtoRule` does what the action says when `m` matches, and
nothing (falls through to `rest` with the mark untouched) when it does not. -/
theorem combine_exact (cfg : Cfg) (ctx : Ctx) (env : Env) (call : String → Mark → Result)
    (pkt : Packet) (action : String) (act : RuleAction) (m : List Clause) (rs rest : List Netfilter.Rule)
    (mark : Mark)
    (hact : parseAction action = some act)
    (hrs : combineMatchAndActions cfg ctx action m = some rs)
    (hA : cfg.markAccept ≠ 0) (hP : cfg.markPass ≠ 0) (hD : cfg.markDrop ≠ 0)
    (hmA : mark &&& cfg.markAccept = 0) (hmP : mark &&& cfg.markPass = 0) (hmD : mark &&& cfg.markDrop = 0) :
    runRules env call pkt (rs ++ rest) mark =
      if clausesMatch env pkt mark m then actionOutcome cfg env call pkt rest mark act
      else runRules env call pkt rest mark := by
  unfold combineMatchAndActions at hrs
  rw [hact] at hrs
  simp only at hrs
  cases act
  · -- allow
    simp only [hA, ne_eq, not_false_eq_true, if_true] at hrs
    have hrs := Option.some.inj hrs; subst hrs
    by_cases hm : clausesMatch env pkt mark m = true
    · simp only [clausesMatch] at hm
      by_cases hfl : (!ctx.untracked && cfg.flowLogs) = true
      · simp [runRules, Rule.matches, hm, hfl, resolveAction, applyMark, Clause.matches, bit_test_set,
          xorb, clausesMatch, actionOutcome]
      · simp [runRules, Rule.matches, hm, hfl, resolveAction, applyMark, Clause.matches, bit_test_set,
          xorb, clausesMatch, actionOutcome]
    · have hm' : m.all (Clause.matches env pkt mark) = false := by simpa [clausesMatch] using hm
      have hb := bit_test_clear mark cfg.markAccept hmA hA
      by_cases hfl : (!ctx.untracked && cfg.flowLogs) = true
      · simp [runRules, Rule.matches, hm', hfl, Clause.matches, hb, xorb, clausesMatch]
      · simp [runRules, Rule.matches, hm', hfl, Clause.matches, hb, xorb, clausesMatch]
  · -- deny
    simp only [hD, ne_eq, not_false_eq_true, if_true] at hrs
    have hrs := Option.some.inj hrs; subst hrs
    by_cases hm : clausesMatch env pkt mark m = true
    · simp only [clausesMatch] at hm
      by_cases hfl : (!ctx.untracked && cfg.flowLogs) = true <;> cases hr : cfg.reject <;>
        simp [runRules, Rule.matches, hm, hfl, resolveAction, applyMark, Clause.matches, bit_test_set,
          xorb, clausesMatch, actionOutcome, denyAction, hr]
    · have hm' : m.all (Clause.matches env pkt mark) = false := by simpa [clausesMatch] using hm
      have hb := bit_test_clear mark cfg.markDrop hmD hD
      by_cases hfl : (!ctx.untracked && cfg.flowLogs) = true
      · simp [runRules, Rule.matches, hm', hfl, Clause.matches, hb, xorb, clausesMatch]
      · simp [runRules, Rule.matches, hm', hfl, Clause.matches, hb, xorb, clausesMatch]
  · -- pass
    simp only [hP, ne_eq, not_false_eq_true, if_true] at hrs
    have hrs := Option.some.inj hrs; subst hrs
    by_cases hm : clausesMatch env pkt mark m = true
    · simp only [clausesMatch] at hm
      by_cases hfl : (!ctx.untracked && cfg.flowLogs) = true
      · simp [runRules, Rule.matches, hm, hfl, resolveAction, applyMark, Clause.matches, bit_test_set,
          xorb, clausesMatch, actionOutcome]
      · simp [runRules, Rule.matches, hm, hfl, resolveAction, applyMark, Clause.matches, bit_test_set,
          xorb, clausesMatch, actionOutcome]
    · have hm' : m.all (Clause.matches env pkt mark) = false := by simpa [clausesMatch] using hm
      have hb := bit_test_clear mark cfg.markPass hmP hP
      by_cases hfl : (!ctx.untracked && cfg.flowLogs) = true
      · simp [runRules, Rule.matches, hm', hfl, Clause.matches, hb, xorb, clausesMatch]
      · simp [runRules, Rule.matches, hm', hfl, Clause.matches, hb, xorb, clausesMatch]
  · -- log
    simp only [ne_eq, not_true_eq_false, if_false, if_true] at hrs
    have hrs := Option.some.inj hrs; subst hrs
    by_cases hm : clausesMatch env pkt mark m = true
    · simp only [clausesMatch] at hm
      by_cases hl : cfg.logRateLimit = "" <;> cases hlp : env.limitPass <;>
        simp [runRules, Rule.matches, hm, hl, hlp, resolveAction, applyMark, Clause.matches, clausesMatch,
          actionOutcome]
    · have hm' : m.all (Clause.matches env pkt mark) = false := by simpa [clausesMatch] using hm
      by_cases hl : cfg.logRateLimit = "" <;>
        simp [runRules, Rule.matches, hm', hl, Clause.matches, clausesMatch]

/-! ### `SplitPortList` keeps every port, in order -/

def splitStep (st : List (List PortRange) × List PortRange × Nat) (pr : PortRange) :
    List (List PortRange) × List PortRange × Nat :=
  let need := if pr.first = pr.last then 1 else 2
  if st.2.2 < need then (st.1 ++ [st.2.1], [pr], 15 - need)
  else (st.1, st.2.1 ++ [pr], st.2.2 - need)

theorem splitPortList_eq (ports : List PortRange) :
    splitPortList ports =
      (let r := ports.foldl splitStep ([], [], 15); if r.2.1.isEmpty then r.1 else r.1 ++ [r.2.1]) := by
  unfold splitPortList
  have : (fun (st : List (List PortRange) × List PortRange × Nat) (pr : PortRange) =>
      match st with
      | (splits, cur, avail) =>
        let need := if pr.first = pr.last then 1 else 2
        if avail < need then (splits ++ [cur], [pr], 15 - need)
        else (splits, cur ++ [pr], avail - need)) = splitStep := by
    funext st pr; obtain ⟨a, b, c⟩ := st; rfl
  simp only [this]

theorem foldl_splitStep_flatten (ports : List PortRange) (st : List (List PortRange) × List PortRange × Nat) :
    let r := ports.foldl splitStep st
    r.1.flatten ++ r.2.1 = st.1.flatten ++ st.2.1 ++ ports := by
  induction ports generalizing st with
  | nil => simp
  | cons p ps ih =>
    simp only [List.foldl_cons]
    have := ih (splitStep st p)
    simp only at this ⊢
    rw [this]
    have hs : (splitStep st p).1.flatten ++ (splitStep st p).2.1 = st.1.flatten ++ st.2.1 ++ [p] := by
      unfold splitStep
      simp only
      split <;> split <;> simp
    rw [hs]; simp

theorem splitPortList_flatten (ports : List PortRange) : (splitPortList ports).flatten = ports := by
  rw [splitPortList_eq]
  have := foldl_splitStep_flatten ports ([], [], 15)
  simp only [List.flatten_nil, List.nil_append] at this
  simp only
  split
  · rename_i h
    have h' : (ports.foldl splitStep ([], [], 15)).2.1 = [] := by simpa using h
    rw [h', List.append_nil] at this
    exact this
  · simpa using this

theorem inRanges_flatten (ls : List (List PortRange)) (p : Nat) :
    inRanges ls.flatten p = ls.any (fun l => inRanges l p) := by
  simp [inRanges, List.any_flatten]

/-! ### `filterNets` / `FilterRuleToIPVersion` preserve the meaning of the rule -/

/-- the kernel agrees that the catch-all CIDRs contain every address -/
def EnvCatchAll (env : Env) : Prop :=
  ∀ a, env.netContains "0.0.0.0/0" a = true ∧ env.netContains "::/0" a = true

theorem any_netHas_filter (env : Env) (v6 : Bool) (nets : List String) (a : Nat) :
    (nets.filter (fun c => cidrIsV6 c == v6)).any (fun c => netHas env v6 c a) =
      nets.any (fun c => netHas env v6 c a) := by
  induction nets with
  | nil => rfl
  | cons c cs ih =>
    simp only [List.filter_cons, List.any_cons]
    by_cases h : (cidrIsV6 c == v6) = true
    · simp [h, ih]
    · have h' : (cidrIsV6 c == v6) = false := by simpa using h
      simp [h', ih, netHas]

theorem familyOK_filter (v6 : Bool) (nets : List String) :
    familyOK v6 (nets.filter (fun c => cidrIsV6 c == v6)) = true := by
  unfold familyOK
  cases h : nets.filter (fun c => cidrIsV6 c == v6) with
  | nil => simp
  | cons c cs =>
    have : c ∈ nets.filter (fun c => cidrIsV6 c == v6) := by rw [h]; exact List.mem_cons_self
    have hc := (List.mem_filter.1 this).2
    simp [hc]

theorem familyOK_iff (v6 : Bool) (nets : List String) :
    familyOK v6 nets = (nets.isEmpty || !(nets.filter (fun c => cidrIsV6 c == v6)).isEmpty) := by
  unfold familyOK
  congr 1
  induction nets with
  | nil => rfl
  | cons c cs ih =>
    simp only [List.any_cons, List.filter_cons]
    by_cases h : (cidrIsV6 c == v6) = true
    · simp [h]
    · have h' : (cidrIsV6 c == v6) = false := by simpa using h
      simp [h', ih]

theorem filterNets_pos (env : Env) (v6 : Bool) (nets : List String) (a : Nat) :
    ((filterNets nets v6 false).2 = true → familyOK v6 nets = false) ∧
    ((filterNets nets v6 false).2 = false →
      familyOK v6 nets = true ∧ familyOK v6 (filterNets nets v6 false).1 = true ∧
      ((filterNets nets v6 false).1.isEmpty || (filterNets nets v6 false).1.any (fun c => netHas env v6 c a)) =
        (nets.isEmpty || nets.any (fun c => netHas env v6 c a))) := by
  unfold filterNets
  by_cases hn : nets.isEmpty = true
  · have : nets = [] := by simpa using hn
    subst this; simp [familyOK]
  · have hn' : nets.isEmpty = false := by simpa using hn
    simp only [hn', Bool.false_eq_true, if_false, Bool.false_and]
    rw [familyOK_iff, hn']
    constructor
    · intro h; simp [h]
    · intro h
      refine ⟨by simp [h], familyOK_filter v6 nets, ?_⟩
      rw [any_netHas_filter, h]

theorem filterNets_neg (env : Env) (henv : EnvCatchAll env) (v6 : Bool) (nets : List String) (a : Nat) :
    ((filterNets nets v6 true).2 = true →
      (familyOK v6 nets && !nets.any (fun c => netHas env v6 c a)) = false) ∧
    ((filterNets nets v6 true).2 = false →
      familyOK v6 nets = true ∧ familyOK v6 (filterNets nets v6 true).1 = true ∧
      (filterNets nets v6 true).1.any (fun c => netHas env v6 c a) = nets.any (fun c => netHas env v6 c a)) := by
  unfold filterNets
  by_cases hn : nets.isEmpty = true
  · have : nets = [] := by simpa using hn
    subst this; simp [familyOK]
  · have hn' : nets.isEmpty = false := by simpa using hn
    simp only [hn', Bool.false_eq_true, if_false, Bool.true_and]
    by_cases hc : (nets.filter (fun c => cidrIsV6 c == v6)).any (fun c => isCatchAll c v6) = true
    · simp only [hc, if_true, true_implies, Bool.true_eq_false, false_implies, and_true]
      obtain ⟨c, hcm, hca⟩ := List.any_eq_true.1 hc
      have hcn := List.mem_filter.1 hcm
      have hhas : netHas env v6 c a = true := by
        simp only [netHas, hcn.2, Bool.true_and]
        simp only [isCatchAll, Bool.or_eq_true, Bool.and_eq_true, Bool.not_eq_true', beq_iff_eq] at hca
        rcases hca with ⟨_, h⟩ | ⟨_, h⟩
        · rw [h]; exact (henv a).1
        · rw [h]; exact (henv a).2
      have : nets.any (fun c => netHas env v6 c a) = true := List.any_eq_true.2 ⟨c, hcn.1, hhas⟩
      simp [this]
    · have hc' : (nets.filter (fun c => cidrIsV6 c == v6)).any (fun c => isCatchAll c v6) = false := by
        simpa using hc
      simp only [hc', Bool.false_eq_true, if_false]
      rw [familyOK_iff, hn']
      constructor
      · intro h; simp [h]
      · intro h
        exact ⟨by simp [h], familyOK_filter v6 nets, any_netHas_filter env v6 nets a⟩

theorem filterRule_preserves (env : Env) (henv : EnvCatchAll env) (setName : String → String)
    (r : Policy.Rule) (pkt : Packet) :
    ruleMatches env setName r pkt =
      match filterRuleToIPVersion pkt.v6 r with
      | none => false
      | some rc => ruleMatches env setName rc pkt := by
  have p1 := filterNets_pos env pkt.v6 r.srcNet pkt.src
  have p2 := filterNets_neg env henv pkt.v6 r.notSrcNet pkt.src
  have p3 := filterNets_pos env pkt.v6 r.dstNet pkt.dst
  have p4 := filterNets_neg env henv pkt.v6 r.notDstNet pkt.dst
  unfold filterRuleToIPVersion
  by_cases hv : r.ipVersion ≠ 0 ∧ r.ipVersion ≠ (if pkt.v6 = true then 6 else 4)
  · rw [if_pos hv]
    simp only [ruleMatches]
    have : (r.ipVersion == 0 || r.ipVersion == if pkt.v6 = true then 6 else 4) = false := by
      simp [hv.1, hv.2]
    simp [this]
  · rw [if_neg hv]
    have hv' : (r.ipVersion == 0 || r.ipVersion == if pkt.v6 = true then 6 else 4) = true := by
      simp only [Bool.or_eq_true, beq_iff_eq]
      by_cases h0 : r.ipVersion = 0
      · exact Or.inl h0
      · right
        by_cases h1 : r.ipVersion = if pkt.v6 = true then 6 else 4
        · exact h1
        · exact absurd ⟨h0, h1⟩ hv
    rcases hf1 : filterNets r.srcNet pkt.v6 false with ⟨sn, a1⟩
    rcases hf2 : filterNets r.notSrcNet pkt.v6 true with ⟨nsn, a2⟩
    rcases hf3 : filterNets r.dstNet pkt.v6 false with ⟨dn, a3⟩
    rcases hf4 : filterNets r.notDstNet pkt.v6 true with ⟨ndn, a4⟩
    rw [hf1] at p1; rw [hf2] at p2; rw [hf3] at p3; rw [hf4] at p4
    simp only at p1 p2 p3 p4 ⊢
    cases a1
    · cases a2
      · cases a3
        · cases a4
          · -- nothing filtered out completely: the filtered rule means the same
            obtain ⟨f1, g1, e1⟩ := p1.2 rfl
            obtain ⟨f2, g2, e2⟩ := p2.2 rfl
            obtain ⟨f3, g3, e3⟩ := p3.2 rfl
            obtain ⟨f4, g4, e4⟩ := p4.2 rfl
            simp only [Bool.false_eq_true, if_false, ruleMatches, netsMatch, restMatch,
              f1, f2, f3, f4, g1, g2, g3, g4, e1, e2, e3, e4]
          · have := p4.1 rfl
            simp only [Bool.false_eq_true, if_false, if_true, ruleMatches, netsMatch]
            simp only [Bool.and_eq_false_iff] at this ⊢
            rcases this with h | h
            · simp [h]
            · simp [h]
        · have := p3.1 rfl
          simp only [Bool.false_eq_true, if_false, if_true, ruleMatches, netsMatch]
          simp [this]
      · have := p2.1 rfl
        simp only [Bool.false_eq_true, if_false, if_true, ruleMatches, netsMatch]
        simp only [Bool.and_eq_false_iff] at this
        rcases this with h | h
        · simp [h]
        · simp [h]
    · have := p1.1 rfl
      simp only [if_true, ruleMatches, netsMatch]
      simp [this]

end CalicoVerif.C08
