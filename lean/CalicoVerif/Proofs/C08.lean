import CalicoVerif.Model.C08
/-! Helper lemmas for C08. -/
namespace CalicoVerif.C08
open CalicoVerif.Netfilter CalicoVerif.Policy

/-- outcome of a matching rule, given the mark on entry and the rules that follow -/
def actionOutcome (cfg : Cfg) (env : Env) (call : String → Mark → Result) (pkt : Packet)
    (rest : List Netfilter.Rule) (mark : Mark) : RuleAction → Result
  | .allow => .returned (mark ||| cfg.markAccept)
  | .pass => .returned (mark ||| cfg.markPass)
  | .deny => .verdict (if cfg.reject then .reject else .drop) (mark ||| cfg.markDrop)
  | .log => runRules env call pkt rest mark

theorem bit_test_set (mark mk : Mark) : ((mark ||| mk) &&& mk == mk) = true := by
  have : (mark ||| mk) &&& mk = mk := by
    ext i; simp only [BitVec.getElem_and, BitVec.getElem_or]
    cases mark[i] <;> cases mk[i] <;> rfl
  simp [this]

theorem bit_test_clear (mark mk : Mark) (h0 : mark &&& mk = 0) (hne : mk ≠ 0) :
    (mark &&& mk == mk) = false := by
  rw [h0]; simpa using Ne.symm hne

def clausesMatch (env : Env) (pkt : Packet) (mark : Mark) (cs : List Clause) : Bool :=
  cs.all (Clause.matches env pkt mark)

/-- `CombineMatchAndActionsForProtoRule` does what the action says when `m` matches, and
nothing (falls through to `rest` with the mark untouched) when it does not. -/
theorem combine_exact (cfg : Cfg) (ctx : Ctx) (env : Env) (call : String → Mark → Result)
    (pkt : Packet) (action : String) (act : RuleAction) (m : List Clause) (rs rest : List Netfilter.Rule)
    (mark : Mark)
    (hact : parseAction action = some act)
    (hrs : combineMatchAndActions cfg ctx action m = some rs)
    (hA : cfg.markAccept ≠ 0) (hP : cfg.markPass ≠ 0) (hD : cfg.markDrop ≠ 0)
    (hmA : mark &&& cfg.markAccept = 0) (hmP : mark &&& cfg.markPass = 0) (hmD : mark &&& cfg.markDrop = 0) :
    runRules env call pkt (rs ++ rest) mark =
      if clausesMatch env pkt mark m then actionOutcome cfg env call pkt rest mark act
      else runRules env call pkt rest mark := by
  unfold combineMatchAndActions at hrs
  rw [hact] at hrs
  simp only at hrs
  cases act
  · -- allow
    simp only [hA, ne_eq, not_false_eq_true, if_true] at hrs
    have hrs := Option.some.inj hrs; subst hrs
    by_cases hm : clausesMatch env pkt mark m = true
    · simp only [clausesMatch] at hm
      by_cases hfl : (!ctx.untracked && cfg.flowLogs) = true
      · simp [runRules, Rule.matches, hm, hfl, resolveAction, applyMark, Clause.matches, bit_test_set,
          xorb, clausesMatch, actionOutcome]
      · simp [runRules, Rule.matches, hm, hfl, resolveAction, applyMark, Clause.matches, bit_test_set,
          xorb, clausesMatch, actionOutcome]
    · have hm' : m.all (Clause.matches env pkt mark) = false := by simpa [clausesMatch] using hm
      have hb := bit_test_clear mark cfg.markAccept hmA hA
      by_cases hfl : (!ctx.untracked && cfg.flowLogs) = true
      · simp [runRules, Rule.matches, hm', hfl, Clause.matches, hb, xorb, clausesMatch]
      · simp [runRules, Rule.matches, hm', hfl, Clause.matches, hb, xorb, clausesMatch]
  · -- deny
    simp only [hD, ne_eq, not_false_eq_true, if_true] at hrs
    have hrs := Option.some.inj hrs; subst hrs
    by_cases hm : clausesMatch env pkt mark m = true
    · simp only [clausesMatch] at hm
      by_cases hfl : (!ctx.untracked && cfg.flowLogs) = true <;> cases hr : cfg.reject <;>
        simp [runRules, Rule.matches, hm, hfl, resolveAction, applyMark, Clause.matches, bit_test_set,
          xorb, clausesMatch, actionOutcome, denyAction, hr]
    · have hm' : m.all (Clause.matches env pkt mark) = false := by simpa [clausesMatch] using hm
      have hb := bit_test_clear mark cfg.markDrop hmD hD
      by_cases hfl : (!ctx.untracked && cfg.flowLogs) = true
      · simp [runRules, Rule.matches, hm', hfl, Clause.matches, hb, xorb, clausesMatch]
      · simp [runRules, Rule.matches, hm', hfl, Clause.matches, hb, xorb, clausesMatch]
  · -- pass
    simp only [hP, ne_eq, not_false_eq_true, if_true] at hrs
    have hrs := Option.some.inj hrs; subst hrs
    by_cases hm : clausesMatch env pkt mark m = true
    · simp only [clausesMatch] at hm
      by_cases hfl : (!ctx.untracked && cfg.flowLogs) = true
      · simp [runRules, Rule.matches, hm, hfl, resolveAction, applyMark, Clause.matches, bit_test_set,
          xorb, clausesMatch, actionOutcome]
      · simp [runRules, Rule.matches, hm, hfl, resolveAction, applyMark, Clause.matches, bit_test_set,
          xorb, clausesMatch, actionOutcome]
    · have hm' : m.all (Clause.matches env pkt mark) = false := by simpa [clausesMatch] using hm
      have hb := bit_test_clear mark cfg.markPass hmP hP
      by_cases hfl : (!ctx.untracked && cfg.flowLogs) = true
      · simp [runRules, Rule.matches, hm', hfl, Clause.matches, hb, xorb, clausesMatch]
      · simp [runRules, Rule.matches, hm', hfl, Clause.matches, hb, xorb, clausesMatch]
  · -- log
    simp only [ne_eq, not_true_eq_false, if_false, if_true] at hrs
    have hrs := Option.some.inj hrs; subst hrs
    by_cases hm : clausesMatch env pkt mark m = true
    · simp only [clausesMatch] at hm
      by_cases hl : cfg.logRateLimit = "" <;> cases hlp : env.limitPass <;>
        simp [runRules, Rule.matches, hm, hl, hlp, resolveAction, applyMark, Clause.matches, clausesMatch,
          actionOutcome]
    · have hm' : m.all (Clause.matches env pkt mark) = false := by simpa [clausesMatch] using hm
      by_cases hl : cfg.logRateLimit = "" <;>
        simp [runRules, Rule.matches, hm', hl, Clause.matches, clausesMatch]

end CalicoVerif.C08
