import CalicoVerif.Model.C08
/-! Helper lemmas for C08. -/
namespace CalicoVerif.C08
open CalicoVerif.Netfilter CalicoVerif.Policy

/-- outcome of a matching rule, given the mark on entry and the rules that follow -/
def actionOutcome (cfg : Cfg) (env : Env) (call : String → Mark → Result) (pkt : Packet)
    (rest : List Netfilter.Rule) (mark : Mark) : RuleAction → Result
  | .allow => .returned (mark ||| cfg.markAccept)
  | .pass => .returned (mark ||| cfg.markPass)
  | .deny => .verdict (if cfg.reject then .reject else .drop) (mark ||| cfg.markDrop)
  | .log => runRules env call pkt rest mark

theorem bit_test_set (mark mk : Mark) : ((mark ||| mk) &&& mk == mk) = true := by
  have : (mark ||| mk) &&& mk = mk := by
    ext i; simp only [BitVec.getElem_and, BitVec.getElem_or]
    cases mark[i] <;> cases mk[i] <;> rfl
  simp [this]

theorem bit_test_clear (mark mk : Mark) (h0 : mark &&& mk = 0) (hne : mk ≠ 0) :
    (mark &&& mk == mk) = false := by
  rw [h0]; simpa using Ne.symm hne

def clausesMatch (env : Env) (pkt : Packet) (mark : Mark) (cs : List Clause) : Bool :=
  cs.all (Clause.matches env pkt mark)

/-- `CombineMatchAndActionsForProtoRule` does what the action says when `m` matches, and
nothing (falls through to `rest` with the mark untouched) when it does not. -/
theorem combine_exact (cfg : Cfg) (ctx : Ctx) (env : Env) (call : String → Mark → Result)
    (pkt : Packet) (action : String) (act : RuleAction) (m : List Clause) (rs rest : List Netfilter.Rule)
    (mark : Mark)
    (hact : parseAction action = some act)
    (hrs : combineMatchAndActions cfg ctx action m = some rs)
    (hA : cfg.markAccept ≠ 0) (hP : cfg.markPass ≠ 0) (hD : cfg.markDrop ≠ 0)
    (hmA : act = .allow → mark &&& cfg.markAccept = 0) (hmP : act = .pass → mark &&& cfg.markPass = 0)
    (hmD : act = .deny → mark &&& cfg.markDrop = 0) :
    runRules env call pkt (rs ++ rest) mark =
      if clausesMatch env pkt mark m then actionOutcome cfg env call pkt rest mark act
      else runRules env call pkt rest mark := by
  unfold combineMatchAndActions at hrs
  rw [hact] at hrs
  simp only at hrs
  cases act
  · -- allow
    simp only [hA, ne_eq, not_false_eq_true, if_true] at hrs
    have hrs := Option.some.inj hrs; subst hrs
    by_cases hm : clausesMatch env pkt mark m = true
    · simp only [clausesMatch] at hm
      by_cases hfl : (!ctx.untracked && cfg.flowLogs) = true
      · simp [runRules, Rule.matches, hm, hfl, resolveAction, applyMark, Clause.matches, bit_test_set,
          xorb, clausesMatch, actionOutcome]
      · simp [runRules, Rule.matches, hm, hfl, resolveAction, applyMark, Clause.matches, bit_test_set,
          xorb, clausesMatch, actionOutcome]
    · have hm' : m.all (Clause.matches env pkt mark) = false := by simpa [clausesMatch] using hm
      have hb := bit_test_clear mark cfg.markAccept (hmA rfl) hA
      by_cases hfl : (!ctx.untracked && cfg.flowLogs) = true
      · simp [runRules, Rule.matches, hm', hfl, Clause.matches, hb, xorb, clausesMatch]
      · simp [runRules, Rule.matches, hm', hfl, Clause.matches, hb, xorb, clausesMatch]
  · -- deny
    simp only [hD, ne_eq, not_false_eq_true, if_true] at hrs
    have hrs := Option.some.inj hrs; subst hrs
    by_cases hm : clausesMatch env pkt mark m = true
    · simp only [clausesMatch] at hm
      by_cases hfl : (!ctx.untracked && cfg.flowLogs) = true <;> cases hr : cfg.reject <;>
        simp [runRules, Rule.matches, hm, hfl, resolveAction, applyMark, Clause.matches, bit_test_set,
          xorb, clausesMatch, actionOutcome, denyAction, hr]
    · have hm' : m.all (Clause.matches env pkt mark) = false := by simpa [clausesMatch] using hm
      have hb := bit_test_clear mark cfg.markDrop (hmD rfl) hD
      by_cases hfl : (!ctx.untracked && cfg.flowLogs) = true
      · simp [runRules, Rule.matches, hm', hfl, Clause.matches, hb, xorb, clausesMatch]
      · simp [runRules, Rule.matches, hm', hfl, Clause.matches, hb, xorb, clausesMatch]
  · -- pass
    simp only [hP, ne_eq, not_false_eq_true, if_true] at hrs
    have hrs := Option.some.inj hrs; subst hrs
    by_cases hm : clausesMatch env pkt mark m = true
    · simp only [clausesMatch] at hm
      by_cases hfl : (!ctx.untracked && cfg.flowLogs) = true
      · simp [runRules, Rule.matches, hm, hfl, resolveAction, applyMark, Clause.matches, bit_test_set,
          xorb, clausesMatch, actionOutcome]
      · simp [runRules, Rule.matches, hm, hfl, resolveAction, applyMark, Clause.matches, bit_test_set,
          xorb, clausesMatch, actionOutcome]
    · have hm' : m.all (Clause.matches env pkt mark) = false := by simpa [clausesMatch] using hm
      have hb := bit_test_clear mark cfg.markPass (hmP rfl) hP
      by_cases hfl : (!ctx.untracked && cfg.flowLogs) = true
      · simp [runRules, Rule.matches, hm', hfl, Clause.matches, hb, xorb, clausesMatch]
      · simp [runRules, Rule.matches, hm', hfl, Clause.matches, hb, xorb, clausesMatch]
  · -- log
    simp only [ne_eq, not_true_eq_false, if_false, if_true] at hrs
    have hrs := Option.some.inj hrs; subst hrs
    by_cases hm : clausesMatch env pkt mark m = true
    · simp only [clausesMatch] at hm
      by_cases hl : cfg.logRateLimit = "" <;> cases hlp : env.limitPass <;>
        simp [runRules, Rule.matches, hm, hl, hlp, resolveAction, applyMark, Clause.matches, clausesMatch,
          actionOutcome]
    · have hm' : m.all (Clause.matches env pkt mark) = false := by simpa [clausesMatch] using hm
      by_cases hl : cfg.logRateLimit = "" <;>
        simp [runRules, Rule.matches, hm', hl, Clause.matches, clausesMatch]

/-! ### `SplitPortList` keeps every port, in order -/

def splitStep (st : List (List PortRange) × List PortRange × Nat) (pr : PortRange) :
    List (List PortRange) × List PortRange × Nat :=
  let need := if pr.first = pr.last then 1 else 2
  if st.2.2 < need then (st.1 ++ [st.2.1], [pr], 15 - need)
  else (st.1, st.2.1 ++ [pr], st.2.2 - need)

theorem splitPortList_eq (ports : List PortRange) :
    splitPortList ports =
      (let r := ports.foldl splitStep ([], [], 15); if r.2.1.isEmpty then r.1 else r.1 ++ [r.2.1]) := by
  unfold splitPortList
  have : (fun (st : List (List PortRange) × List PortRange × Nat) (pr : PortRange) =>
      match st with
      | (splits, cur, avail) =>
        let need := if pr.first = pr.last then 1 else 2
        if avail < need then (splits ++ [cur], [pr], 15 - need)
        else (splits, cur ++ [pr], avail - need)) = splitStep := by
    funext st pr; obtain ⟨a, b, c⟩ := st; rfl
  simp only [this]

theorem foldl_splitStep_flatten (ports : List PortRange) (st : List (List PortRange) × List PortRange × Nat) :
    let r := ports.foldl splitStep st
    r.1.flatten ++ r.2.1 = st.1.flatten ++ st.2.1 ++ ports := by
  induction ports generalizing st with
  | nil => simp
  | cons p ps ih =>
    simp only [List.foldl_cons]
    have := ih (splitStep st p)
    simp only at this ⊢
    rw [this]
    have hs : (splitStep st p).1.flatten ++ (splitStep st p).2.1 = st.1.flatten ++ st.2.1 ++ [p] := by
      unfold splitStep
      simp only
      split <;> split <;> simp
    rw [hs]; simp

theorem splitPortList_flatten (ports : List PortRange) : (splitPortList ports).flatten = ports := by
  rw [splitPortList_eq]
  have := foldl_splitStep_flatten ports ([], [], 15)
  simp only [List.flatten_nil, List.nil_append] at this
  simp only
  split
  · rename_i h
    have h' : (ports.foldl splitStep ([], [], 15)).2.1 = [] := by simpa using h
    rw [h', List.append_nil] at this
    exact this
  · simpa using this

theorem inRanges_flatten (ls : List (List PortRange)) (p : Nat) :
    inRanges ls.flatten p = ls.any (fun l => inRanges l p) := by
  simp [inRanges, List.any_flatten]

/-! ### `filterNets` / `FilterRuleToIPVersion` preserve the meaning of the rule -/

/-- the kernel agrees that the catch-all CIDRs contain every address -/
def EnvCatchAll (env : Env) : Prop :=
  ∀ a, env.netContains "0.0.0.0/0" a = true ∧ env.netContains "::/0" a = true

theorem any_netHas_filter (env : Env) (v6 : Bool) (nets : List String) (a : Nat) :
    (nets.filter (fun c => cidrIsV6 c == v6)).any (fun c => netHas env v6 c a) =
      nets.any (fun c => netHas env v6 c a) := by
  induction nets with
  | nil => rfl
  | cons c cs ih =>
    simp only [List.filter_cons, List.any_cons]
    by_cases h : (cidrIsV6 c == v6) = true
    · simp [h, ih]
    · have h' : (cidrIsV6 c == v6) = false := by simpa using h
      simp [h', ih, netHas]

theorem familyOK_filter (v6 : Bool) (nets : List String) :
    familyOK v6 (nets.filter (fun c => cidrIsV6 c == v6)) = true := by
  unfold familyOK
  cases h : nets.filter (fun c => cidrIsV6 c == v6) with
  | nil => simp
  | cons c cs =>
    have : c ∈ nets.filter (fun c => cidrIsV6 c == v6) := by rw [h]; exact List.mem_cons_self
    have hc := (List.mem_filter.1 this).2
    simp [hc]

theorem familyOK_iff (v6 : Bool) (nets : List String) :
    familyOK v6 nets = (nets.isEmpty || !(nets.filter (fun c => cidrIsV6 c == v6)).isEmpty) := by
  unfold familyOK
  congr 1
  induction nets with
  | nil => rfl
  | cons c cs ih =>
    simp only [List.any_cons, List.filter_cons]
    by_cases h : (cidrIsV6 c == v6) = true
    · simp [h]
    · have h' : (cidrIsV6 c == v6) = false := by simpa using h
      simp [h', ih]

theorem filterNets_pos (env : Env) (v6 : Bool) (nets : List String) (a : Nat) :
    ((filterNets nets v6 false).2 = true → familyOK v6 nets = false) ∧
    ((filterNets nets v6 false).2 = false →
      familyOK v6 nets = true ∧ familyOK v6 (filterNets nets v6 false).1 = true ∧
      ((filterNets nets v6 false).1.isEmpty || (filterNets nets v6 false).1.any (fun c => netHas env v6 c a)) =
        (nets.isEmpty || nets.any (fun c => netHas env v6 c a))) := by
  unfold filterNets
  by_cases hn : nets.isEmpty = true
  · have : nets = [] := by simpa using hn
    subst this; simp [familyOK]
  · have hn' : nets.isEmpty = false := by simpa using hn
    simp only [hn', Bool.false_eq_true, if_false, Bool.false_and]
    rw [familyOK_iff, hn']
    constructor
    · intro h; simp [h]
    · intro h
      refine ⟨by simp [h], familyOK_filter v6 nets, ?_⟩
      rw [any_netHas_filter, h]

theorem filterNets_neg (env : Env) (henv : EnvCatchAll env) (v6 : Bool) (nets : List String) (a : Nat) :
    ((filterNets nets v6 true).2 = true →
      (familyOK v6 nets && !nets.any (fun c => netHas env v6 c a)) = false) ∧
    ((filterNets nets v6 true).2 = false →
      familyOK v6 nets = true ∧ familyOK v6 (filterNets nets v6 true).1 = true ∧
      (filterNets nets v6 true).1.any (fun c => netHas env v6 c a) = nets.any (fun c => netHas env v6 c a)) := by
  unfold filterNets
  by_cases hn : nets.isEmpty = true
  · have : nets = [] := by simpa using hn
    subst this; simp [familyOK]
  · have hn' : nets.isEmpty = false := by simpa using hn
    simp only [hn', Bool.false_eq_true, if_false, Bool.true_and]
    by_cases hc : (nets.filter (fun c => cidrIsV6 c == v6)).any (fun c => isCatchAll c v6) = true
    · simp only [hc, if_true, true_implies, Bool.true_eq_false, false_implies, and_true]
      obtain ⟨c, hcm, hca⟩ := List.any_eq_true.1 hc
      have hcn := List.mem_filter.1 hcm
      have hhas : netHas env v6 c a = true := by
        simp only [netHas, hcn.2, Bool.true_and]
        simp only [isCatchAll, Bool.or_eq_true, Bool.and_eq_true, Bool.not_eq_true', beq_iff_eq] at hca
        rcases hca with ⟨_, h⟩ | ⟨_, h⟩
        · rw [h]; exact (henv a).1
        · rw [h]; exact (henv a).2
      have : nets.any (fun c => netHas env v6 c a) = true := List.any_eq_true.2 ⟨c, hcn.1, hhas⟩
      simp [this]
    · have hc' : (nets.filter (fun c => cidrIsV6 c == v6)).any (fun c => isCatchAll c v6) = false := by
        simpa using hc
      simp only [hc', Bool.false_eq_true, if_false]
      rw [familyOK_iff, hn']
      constructor
      · intro h; simp [h]
      · intro h
        exact ⟨by simp [h], familyOK_filter v6 nets, any_netHas_filter env v6 nets a⟩

theorem filterRule_preserves (env : Env) (henv : EnvCatchAll env) (setName : String → String)
    (r : Policy.Rule) (pkt : Packet) :
    ruleMatches env setName r pkt =
      match filterRuleToIPVersion pkt.v6 r with
      | none => false
      | some rc => ruleMatches env setName rc pkt := by
  have p1 := filterNets_pos env pkt.v6 r.srcNet pkt.src
  have p2 := filterNets_neg env henv pkt.v6 r.notSrcNet pkt.src
  have p3 := filterNets_pos env pkt.v6 r.dstNet pkt.dst
  have p4 := filterNets_neg env henv pkt.v6 r.notDstNet pkt.dst
  unfold filterRuleToIPVersion
  by_cases hv : r.ipVersion ≠ 0 ∧ r.ipVersion ≠ (if pkt.v6 = true then 6 else 4)
  · rw [if_pos hv]
    simp only [ruleMatches]
    have : (r.ipVersion == 0 || r.ipVersion == if pkt.v6 = true then 6 else 4) = false := by
      simp [hv.1, hv.2]
    simp [this]
  · rw [if_neg hv]
    have hv' : (r.ipVersion == 0 || r.ipVersion == if pkt.v6 = true then 6 else 4) = true := by
      simp only [Bool.or_eq_true, beq_iff_eq]
      by_cases h0 : r.ipVersion = 0
      · exact Or.inl h0
      · right
        by_cases h1 : r.ipVersion = if pkt.v6 = true then 6 else 4
        · exact h1
        · exact absurd ⟨h0, h1⟩ hv
    rcases hf1 : filterNets r.srcNet pkt.v6 false with ⟨sn, a1⟩
    rcases hf2 : filterNets r.notSrcNet pkt.v6 true with ⟨nsn, a2⟩
    rcases hf3 : filterNets r.dstNet pkt.v6 false with ⟨dn, a3⟩
    rcases hf4 : filterNets r.notDstNet pkt.v6 true with ⟨ndn, a4⟩
    rw [hf1] at p1; rw [hf2] at p2; rw [hf3] at p3; rw [hf4] at p4
    simp only at p1 p2 p3 p4 ⊢
    cases a1
    · cases a2
      · cases a3
        · cases a4
          · -- nothing filtered out completely: the filtered rule means the same
            obtain ⟨f1, g1, e1⟩ := p1.2 rfl
            obtain ⟨f2, g2, e2⟩ := p2.2 rfl
            obtain ⟨f3, g3, e3⟩ := p3.2 rfl
            obtain ⟨f4, g4, e4⟩ := p4.2 rfl
            simp only [Bool.false_eq_true, if_false, ruleMatches, netsMatch, posNetOK, negNetOK, restMatch,
              protoOK, otherMatch, f1, f2, f3, f4, g1, g2, g3, g4, e1, e2, e3, e4]
          · have := p4.1 rfl
            simp only [Bool.false_eq_true, if_false, if_true, ruleMatches, netsMatch, posNetOK, negNetOK]
            simp only [Bool.and_eq_false_iff] at this ⊢
            rcases this with h | h
            · simp [h]
            · simp [h]
        · have := p3.1 rfl
          simp only [Bool.false_eq_true, if_false, if_true, ruleMatches, netsMatch, posNetOK, negNetOK]
          simp [this]
      · have := p2.1 rfl
        simp only [Bool.false_eq_true, if_false, if_true, ruleMatches, netsMatch, posNetOK, negNetOK]
        simp only [Bool.and_eq_false_iff] at this
        rcases this with h | h
        · simp [h]
        · simp [h]
    · have := p1.1 rfl
      simp only [if_true, ruleMatches, netsMatch, posNetOK, negNetOK]
      simp [this]

/-! ### `CalculateRuleMatch`: the clause list is the reference match -/

theorem clausesMatch_append (env : Env) (pkt : Packet) (mark : Mark) (a b : List Clause) :
    clausesMatch env pkt mark (a ++ b) = (clausesMatch env pkt mark a && clausesMatch env pkt mark b) := by
  simp [clausesMatch, List.all_append]

theorem clausesMatch_map {α : Type} (env : Env) (pkt : Packet) (mark : Mark) (l : List α) (f : α → Clause) :
    clausesMatch env pkt mark (l.map f) = l.all (fun x => (f x).matches env pkt mark) := by
  simp [clausesMatch, List.all_map, Function.comp_def]

theorem seg_proto (env : Env) (pkt : Packet) (mark : Mark) (p : Option Proto) :
    clausesMatch env pkt mark (protoClause false p) =
      (match p with | none => true | some p => protoIs env (protoTrunc p) pkt.proto) := by
  cases p <;> simp [protoClause, clausesMatch, Clause.matches, xorb]

theorem seg_notproto (env : Env) (pkt : Packet) (mark : Mark) (p : Option Proto) :
    clausesMatch env pkt mark (protoClause true p) =
      (match p with | none => true | some p => !protoIs env (protoTrunc p) pkt.proto) := by
  cases p <;> simp [protoClause, clausesMatch, Clause.matches, xorb]

def addrOf (d : Dir) (pkt : Packet) : Nat := match d with | .src => pkt.src | .dst => pkt.dst
def portOf (d : Dir) (pkt : Packet) : Nat := match d with | .src => pkt.sport | .dst => pkt.dport

theorem net_matches (env : Env) (pkt : Packet) (mark : Mark) (d : Dir) (neg : Bool) (c : String) :
    (Clause.net d neg c).matches env pkt mark = xorb neg (env.netContains c (addrOf d pkt)) := by
  cases d <;> rfl

theorem seg_net_pos (env : Env) (pkt : Packet) (mark : Mark) (d : Dir) (l : List String)
    (hl : l.length ≤ 1) (hf : ∀ c ∈ l, cidrIsV6 c = pkt.v6) :
    clausesMatch env pkt mark (l.map (.net d false)) =
      (l.isEmpty || l.any (fun c => netHas env pkt.v6 c (addrOf d pkt))) := by
  rcases l with _ | ⟨c, _ | ⟨c', cs⟩⟩
  · rfl
  · have := hf c List.mem_cons_self
    simp [clausesMatch, net_matches, xorb, netHas, this]
  · simp at hl

theorem seg_net_neg (env : Env) (pkt : Packet) (mark : Mark) (d : Dir) (l : List String)
    (hf : ∀ c ∈ l, cidrIsV6 c = pkt.v6) :
    clausesMatch env pkt mark (l.map (.net d true)) =
      !l.any (fun c => netHas env pkt.v6 c (addrOf d pkt)) := by
  induction l with
  | nil => rfl
  | cons c cs ih =>
    have h1 := hf c List.mem_cons_self
    have h2 := ih (fun c hc => hf c (List.mem_cons_of_mem _ hc))
    simp only [clausesMatch, List.map_cons, List.all_cons, List.any_cons, Bool.not_or] at h2 ⊢
    rw [h2]
    simp [net_matches, xorb, netHas, h1]

theorem familyOK_of_same (v6 : Bool) (l : List String) (hf : ∀ c ∈ l, cidrIsV6 c = v6) : familyOK v6 l = true := by
  rcases l with _ | ⟨c, cs⟩
  · rfl
  · simp [familyOK, hf c List.mem_cons_self]

theorem seg_ipset (env : Env) (pkt : Packet) (mark : Mark) (d : Dir) (neg : Bool) (setName : String → String)
    (l : List String) :
    clausesMatch env pkt mark (l.map (fun id => .ipset d neg (setName id))) =
      l.all (fun id => xorb neg (env.inIPSet (setName id) (addrOf d pkt))) := by
  rw [clausesMatch_map]; congr 1; funext id; cases d <;> rfl

theorem seg_ipportset (env : Env) (pkt : Packet) (mark : Mark) (d : Dir) (neg : Bool) (setName : String → String)
    (l : List String) :
    clausesMatch env pkt mark (l.map (fun id => .ipportset d neg (setName id))) =
      l.all (fun id => xorb neg (env.inIPPortSet (setName id) (addrOf d pkt) pkt.proto (portOf d pkt))) := by
  rw [clausesMatch_map]; congr 1; funext id; cases d <;> rfl

theorem ports_matches (env : Env) (pkt : Packet) (mark : Mark) (d : Dir) (neg : Bool) (rs : List PortRange) :
    (Clause.ports d neg rs).matches env pkt mark = (isPortProto pkt.proto && xorb neg (inRanges rs (portOf d pkt))) := by
  cases d <;> rfl

/-- positive ports: one multiport clause (if any numeric port) + the named-port sets, in the case
where no block is needed -/
theorem seg_ports_pos (env : Env) (pkt : Packet) (mark : Mark) (d : Dir) (setName : String → String)
    (ps : List PortRange) (named : List String) (h1 : named.length ≤ 1) (h2 : ps = [] ∨ named = []) :
    clausesMatch env pkt mark ((if ps.isEmpty then [] else [.ports d false ps]) ++
        named.map (fun id => .ipportset d false (setName id))) =
      portsMatch env setName ps named pkt.proto (addrOf d pkt) (portOf d pkt) := by
  rw [clausesMatch_append, seg_ipportset]
  rcases h2 with h | h
  · subst h
    rcases named with _ | ⟨n, _ | ⟨n', ns⟩⟩
    · simp [clausesMatch, portsMatch]
    · simp [clausesMatch, portsMatch, xorb, inRanges]
    · simp at h1
  · subst h
    by_cases hp : ps.isEmpty = true
    · simp [hp, clausesMatch, portsMatch]
    · have hp' : ps.isEmpty = false := by simpa using hp
      simp [hp', clausesMatch, portsMatch, ports_matches, xorb]

theorem splitPortList_eq_nil (ps : List PortRange) : splitPortList ps = [] ↔ ps = [] := by
  constructor
  · intro h; have := splitPortList_flatten ps; rw [h] at this; simpa using this.symm
  · intro h; subst h; simp [splitPortList]

theorem seg_ports_neg (env : Env) (pkt : Packet) (mark : Mark) (d : Dir) (ps : List PortRange) :
    clausesMatch env pkt mark ((splitPortList ps).map (.ports d true)) =
      (ps.isEmpty || (isPortProto pkt.proto && !inRanges ps (portOf d pkt))) := by
  rw [clausesMatch_map]
  by_cases hp : ps = []
  · subst hp; simp [splitPortList]
  · have hne : splitPortList ps ≠ [] := fun h => hp ((splitPortList_eq_nil ps).1 h)
    have hpe : ps.isEmpty = false := by simpa using hp
    rw [hpe, Bool.false_or]
    conv => rhs; rw [← splitPortList_flatten ps, inRanges_flatten]
    generalize splitPortList ps = ss at hne
    simp only [ports_matches, xorb, if_true]
    induction ss with
    | nil => exact absurd rfl hne
    | cons s rest ih =>
      rcases rest with _ | ⟨s', rest'⟩
      · simp
      · have := ih (by simp)
        simp only [List.all_cons, List.any_cons, Bool.not_or] at this ⊢
        rw [this]
        cases isPortProto pkt.proto <;> simp

theorem seg_icmp (env : Env) (pkt : Packet) (mark : Mark) (i : IcmpMatch) :
    clausesMatch env pkt mark (icmpClause pkt.v6 false i) = icmpMatches pkt i := by
  cases i <;> cases hd : env.dp <;>
    simp [icmpClause, clausesMatch, Clause.matches, icmpMatches, isIcmpPkt, xorb, hd, Bool.and_assoc]

theorem seg_noticmp (env : Env) (pkt : Packet) (mark : Mark) (i : IcmpMatch)
    (h : env.dp = .ipt ∨ ∀ t c, i ≠ .typeCode t c) :
    clausesMatch env pkt mark (icmpClause pkt.v6 true i) = notIcmpMatches pkt i := by
  cases i with
  | none => simp [icmpClause, clausesMatch, notIcmpMatches]
  | type t => cases hd : env.dp <;>
      simp [icmpClause, clausesMatch, Clause.matches, notIcmpMatches, isIcmpPkt, xorb, hd]
  | typeCode t c =>
    rcases h with h | h
    · simp [icmpClause, clausesMatch, Clause.matches, notIcmpMatches, isIcmpPkt, xorb, h]
    · exact absurd rfl (h t c)

theorem seg_ports_if (env : Env) (pkt : Packet) (mark : Mark) (d : Dir) (ps : List PortRange) :
    clausesMatch env pkt mark (if ps.isEmpty then [] else [.ports d false ps]) =
      (ps.isEmpty || (isPortProto pkt.proto && inRanges ps (portOf d pkt))) := by
  by_cases hp : ps.isEmpty = true
  · simp [hp, clausesMatch]
  · have hp' : ps.isEmpty = false := by simpa using hp
    simp [hp', clausesMatch, ports_matches, xorb]

theorem ports_simple (env : Env) (setName : String → String) (ps : List PortRange) (named : List String)
    (proto addr port : Nat) (h1 : named.length ≤ 1) (h2 : ps = [] ∨ named = []) :
    portsMatch env setName ps named proto addr port =
      ((ps.isEmpty || (isPortProto proto && inRanges ps port)) &&
        named.all (fun id => env.inIPPortSet (setName id) addr proto port)) := by
  rcases h2 with h | h
  · subst h
    rcases named with _ | ⟨n, _ | ⟨n', ns⟩⟩
    · simp [portsMatch]
    · simp [portsMatch, inRanges]
    · simp at h1
  · subst h
    by_cases hp : ps.isEmpty = true
    · simp [hp, portsMatch]
    · have hp' : ps.isEmpty = false := by simpa using hp
      simp [hp', portsMatch]

/-- a rule that `CalculateRuleMatch` can render in ONE netfilter rule (what is left after the
match blocks took the overflowing lists), with all CIDRs of the packet's family -/
structure Simple (v6 : Bool) (r : Policy.Rule) : Prop where
  sn : r.srcNet.length ≤ 1
  nsn : r.notSrcNet.length ≤ 1
  dn : r.dstNet.length ≤ 1
  ndn : r.notDstNet.length ≤ 1
  snp : r.srcNamedPortIpSetIds.length ≤ 1
  dnp : r.dstNamedPortIpSetIds.length ≤ 1
  sps : r.srcPorts = [] ∨ r.srcNamedPortIpSetIds = []
  dps : r.dstPorts = [] ∨ r.dstNamedPortIpSetIds = []
  fsn : ∀ c ∈ r.srcNet, cidrIsV6 c = v6
  fnsn : ∀ c ∈ r.notSrcNet, cidrIsV6 c = v6
  fdn : ∀ c ∈ r.dstNet, cidrIsV6 c = v6
  fndn : ∀ c ∈ r.notDstNet, cidrIsV6 c = v6

theorem calc_exact (env : Env) (pkt : Packet) (mark : Mark) (setName : String → String) (r : Policy.Rule)
    (hs : Simple pkt.v6 r) (hi : env.dp = .ipt ∨ ∀ t c, r.notIcmp ≠ .typeCode t c) :
    ∃ m, calculateRuleMatch setName pkt.v6 r = some m ∧
      clausesMatch env pkt mark m = (netsMatch env r pkt && restMatch env setName r pkt) := by
  unfold calculateRuleMatch
  have hnp : ¬ (r.srcNet.length > 1 ∨ r.dstNet.length > 1 ∨ r.notSrcNet.length > 1 ∨ r.notDstNet.length > 1 ∨
     r.srcNamedPortIpSetIds.length > 1 ∨ r.dstNamedPortIpSetIds.length > 1) := by
    have := hs.sn; have := hs.dn; have := hs.nsn; have := hs.ndn; have := hs.snp; have := hs.dnp
    omega
  rw [if_neg hnp]
  refine ⟨_, rfl, ?_⟩
  simp only [clausesMatch_append, seg_proto, seg_notproto, seg_net_pos env pkt mark _ _ hs.sn hs.fsn,
    seg_net_pos env pkt mark _ _ hs.dn hs.fdn, seg_net_neg env pkt mark _ _ hs.fnsn,
    seg_net_neg env pkt mark _ _ hs.fndn, seg_ipset, seg_ipportset, seg_ports_if, seg_ports_neg,
    seg_icmp, seg_noticmp env pkt mark _ hi, addrOf, portOf, xorb, Bool.false_eq_true, if_false, if_true]
  simp only [netsMatch, posNetOK, negNetOK, restMatch, protoOK, otherMatch, familyOK_of_same _ _ hs.fsn, familyOK_of_same _ _ hs.fnsn,
    familyOK_of_same _ _ hs.fdn, familyOK_of_same _ _ hs.fndn, Bool.true_and,
    ports_simple env setName _ _ _ _ _ hs.snp hs.sps, ports_simple env setName _ _ _ _ _ hs.dnp hs.dps]
  ac_rfl

/-! ### mark-bit algebra of the match blocks -/

theorem and_zero_bit {x y : Mark} (h : x &&& y = 0) (i : Nat) (hi : i < 32) : (x[i] && y[i]) = false := by
  have := congrArg (fun v : Mark => v[i]) h
  simpa using this

/-- mark with the AllBlocks bit(s) `A` equal to `a` and the ThisBlock bit(s) `T` equal to `t` -/
def mk (A T base : Mark) (a t : Bool) : Mark :=
  base ||| (if a then A else 0) ||| (if t then T else 0)

theorem mk_setA (A T base : Mark) (a t : Bool) : mk A T base a t ||| A = mk A T base true t := by
  unfold mk; ext i hi
  cases a <;> cases t <;> simp <;> cases base[i] <;> cases A[i] <;> cases T[i] <;> simp

theorem mk_setT (A T base : Mark) (a t : Bool) : mk A T base a t ||| T = mk A T base a true := by
  unfold mk; ext i hi
  cases a <;> cases t <;> simp <;> cases base[i] <;> cases A[i] <;> cases T[i] <;> simp

theorem mk_clearA (A T base : Mark) (a t : Bool) (hAT : A &&& T = 0) (hb : base &&& A = 0) :
    mk A T base a t &&& ~~~ A = mk A T base false t := by
  unfold mk; ext i hi
  have h1 := and_zero_bit hAT i hi
  have h2 := and_zero_bit hb i hi
  cases a <;> cases t <;> simp <;> revert h1 h2 <;> cases base[i] <;> cases A[i] <;> cases T[i] <;> simp

theorem mk_and_A (A T base : Mark) (a t : Bool) (hAT : A &&& T = 0) (hb : base &&& A = 0) :
    mk A T base a t &&& A = if a then A else 0 := by
  unfold mk; ext i hi
  have h1 := and_zero_bit hAT i hi
  have h2 := and_zero_bit hb i hi
  cases a <;> cases t <;> simp <;> revert h1 h2 <;> cases base[i] <;> cases A[i] <;> cases T[i] <;> simp

theorem mk_and_T (A T base : Mark) (a t : Bool) (hAT : A &&& T = 0) (hb : base &&& T = 0) :
    mk A T base a t &&& T = if t then T else 0 := by
  unfold mk; ext i hi
  have h1 := and_zero_bit hAT i hi
  have h2 := and_zero_bit hb i hi
  cases a <;> cases t <;> simp <;> revert h1 h2 <;> cases base[i] <;> cases A[i] <;> cases T[i] <;> simp

theorem mk_testA (A T base : Mark) (a t : Bool) (hA : A ≠ 0) (hAT : A &&& T = 0) (hb : base &&& A = 0) :
    (mk A T base a t &&& A == A) = a := by
  rw [mk_and_A A T base a t hAT hb]
  cases a
  · simpa using Ne.symm hA
  · simp

theorem mk_testT_clear (A T base : Mark) (a t : Bool) (hT : T ≠ 0) (hAT : A &&& T = 0) (hb : base &&& T = 0) :
    (mk A T base a t &&& T == 0) = !t := by
  rw [mk_and_T A T base a t hAT hb]
  cases t
  · simp
  · simpa using hT

/-- other bits are untouched -/
theorem mk_and_other (A T base x : Mark) (a t : Bool) (hxA : x &&& A = 0) (hxT : x &&& T = 0) :
    mk A T base a t &&& x = base &&& x := by
  unfold mk; ext i hi
  have h1 := and_zero_bit hxA i hi
  have h2 := and_zero_bit hxT i hi
  cases a <;> cases t <;> simp <;> revert h1 h2 <;> cases base[i] <;> cases A[i] <;> cases T[i] <;> cases x[i] <;> simp

def baseOf (A T m : Mark) : Mark := m &&& ~~~ (A ||| T)

theorem baseOf_and_A (A T m : Mark) : baseOf A T m &&& A = 0 := by
  unfold baseOf; ext i hi; simp <;> cases m[i] <;> cases A[i] <;> cases T[i] <;> simp

theorem baseOf_and_T (A T m : Mark) : baseOf A T m &&& T = 0 := by
  unfold baseOf; ext i hi; simp <;> cases m[i] <;> cases A[i] <;> cases T[i] <;> simp

theorem baseOf_and_other (A T m x : Mark) (hxA : x &&& A = 0) (hxT : x &&& T = 0) :
    baseOf A T m &&& x = m &&& x := by
  unfold baseOf; ext i hi
  have h1 := and_zero_bit hxA i hi
  have h2 := and_zero_bit hxT i hi
  simp <;> revert h1 h2 <;> cases m[i] <;> cases A[i] <;> cases T[i] <;> cases x[i] <;> simp

theorem baseOf_mk (A T base : Mark) (a t : Bool) (hA : base &&& A = 0) (hT : base &&& T = 0) :
    baseOf A T (mk A T base a t) = base := by
  unfold baseOf mk; ext i hi
  have h1 := and_zero_bit hA i hi
  have h2 := and_zero_bit hT i hi
  cases a <;> cases t <;> simp <;> revert h1 h2 <;> cases base[i] <;> cases A[i] <;> cases T[i] <;> simp

/-- the initial "reset" rule, on either dataplane, for `v = 0` or `v = A` -/
theorem init_mark (dp : Dataplane) (A T m : Mark) (setA : Bool) :
    applyMark dp m (.setMaskedMark (if setA then A else 0) (A ||| T)) = mk A T (baseOf A T m) setA false := by
  unfold mk baseOf
  cases dp <;> cases setA <;> simp only [applyMark] <;> ext i hi <;> simp <;>
    cases m[i] <;> cases A[i] <;> cases T[i] <;> simp

/-! ### evaluating match blocks -/

def markFree : Clause → Bool
  | .mark _ _ _ => false
  | _ => true

theorem matches_markFree (env : Env) (pkt : Packet) (c : Clause) (h : markFree c = true) (m1 m2 : Mark) :
    c.matches env pkt m1 = c.matches env pkt m2 := by
  cases c with
  | mark => simp [markFree] at h
  | net d => cases d <;> rfl
  | ipset d => cases d <;> rfl
  | ipportset d => cases d <;> rfl
  | ports d => cases d <;> rfl
  | _ => rfl

theorem clausesMatch_markFree (env : Env) (pkt : Packet) (cs : List Clause) (h : cs.all markFree = true)
    (m1 m2 : Mark) : clausesMatch env pkt m1 cs = clausesMatch env pkt m2 cs := by
  induction cs with
  | nil => rfl
  | cons c cs ih =>
    simp only [List.all_cons, Bool.and_eq_true] at h
    simp only [clausesMatch, List.all_cons] at ih ⊢
    rw [matches_markFree env pkt c h.1 m1 m2, ih h.2]

def setter (x : Mark) (cs : List Clause) : Netfilter.Rule := { clauses := cs, action := .setMark x }
def clearer (x : Mark) (cs : List Clause) : Netfilter.Rule := { clauses := cs, action := .clearMark x }

theorem run_setters (env : Env) (call : String → Mark → Result) (pkt : Packet) (x : Mark)
    (l : List (List Clause)) (hl : ∀ cs ∈ l, cs.all markFree = true) (rest : List Netfilter.Rule) (m : Mark) :
    runRules env call pkt (l.map (setter x) ++ rest) m =
      runRules env call pkt rest (if l.any (clausesMatch env pkt 0) then m ||| x else m) := by
  induction l generalizing m with
  | nil => simp
  | cons cs l ih =>
    have hcs := hl cs List.mem_cons_self
    have hl' : ∀ cs ∈ l, cs.all markFree = true := fun c hc => hl c (List.mem_cons_of_mem _ hc)
    simp only [List.map_cons, List.cons_append, List.any_cons]
    rw [runRules]
    have hm : (setter x cs).matches env pkt m = clausesMatch env pkt 0 cs := by
      simp only [setter, Rule.matches]; exact clausesMatch_markFree env pkt cs hcs m 0
    rw [hm]
    by_cases h : clausesMatch env pkt 0 cs = true
    · simp only [h, if_true, setter, resolveAction, applyMark, Bool.true_or]
      rw [ih hl']
      have : (m ||| x) ||| x = m ||| x := by rw [BitVec.or_assoc, BitVec.or_self]
      split <;> simp [this]
    · have h' : clausesMatch env pkt 0 cs = false := by simpa using h
      simp only [h', Bool.false_eq_true, if_false, Bool.false_or]
      exact ih hl' m

theorem run_clearers (env : Env) (call : String → Mark → Result) (pkt : Packet) (x : Mark)
    (l : List (List Clause)) (hl : ∀ cs ∈ l, cs.all markFree = true) (rest : List Netfilter.Rule) (m : Mark) :
    runRules env call pkt (l.map (clearer x) ++ rest) m =
      runRules env call pkt rest (if l.any (clausesMatch env pkt 0) then m &&& ~~~ x else m) := by
  induction l generalizing m with
  | nil => simp
  | cons cs l ih =>
    have hcs := hl cs List.mem_cons_self
    have hl' : ∀ cs ∈ l, cs.all markFree = true := fun c hc => hl c (List.mem_cons_of_mem _ hc)
    simp only [List.map_cons, List.cons_append, List.any_cons]
    rw [runRules]
    have hm : (clearer x cs).matches env pkt m = clausesMatch env pkt 0 cs := by
      simp only [clearer, Rule.matches]; exact clausesMatch_markFree env pkt cs hcs m 0
    rw [hm]
    by_cases h : clausesMatch env pkt 0 cs = true
    · simp only [h, if_true, clearer, resolveAction, applyMark, Bool.true_or]
      rw [ih hl']
      have : (m &&& ~~~ x) &&& ~~~ x = m &&& ~~~ x := by rw [BitVec.and_assoc, BitVec.and_self]
      split <;> simp [this]
    · have h' : clausesMatch env pkt 0 cs = false := by simpa using h
      simp only [h', Bool.false_eq_true, if_false, Bool.false_or]
      exact ih hl' m

/-! ### the builder invariant -/

/-- `b.rules`, run from any mark, leave AllBlocksPass = `pred` (a packet-only predicate); `npos`
positive blocks have been appended; ThisBlockPass is still clear while `npos ≤ 1`. -/
structure BInv (env : Env) (call : String → Mark → Result) (pkt : Packet) (cfg : Cfg) (b : MBB)
    (npos : Nat) (pred : Bool) : Prop where
  idle : b.usingBlocks = false → b.rules = [] ∧ npos = 0 ∧ pred = true
  run : b.usingBlocks = true → ∀ rest m, ∃ t, (npos ≤ 1 → t = false) ∧
      runRules env call pkt (b.rules ++ rest) m =
        runRules env call pkt rest
          (mk cfg.markScratch0 cfg.markScratch1 (baseOf cfg.markScratch0 cfg.markScratch1 m) pred t)
  done : b.doneFirstPositive = decide (1 ≤ npos)

theorem BInv.empty (env : Env) (call : String → Mark → Result) (pkt : Packet) (cfg : Cfg) :
    BInv env call pkt cfg {} 0 true :=
  ⟨fun _ => ⟨rfl, rfl, rfl⟩, fun h => by simp at h, rfl⟩

def posAppend (cfg : Cfg) (b : MBB) (l : List (List Clause)) : MBB :=
  let b1 := b.maybeInit cfg 0
  ({ b1 with rules := b1.rules ++ l.map (setter (b1.markToSet cfg)) }).finishPositive cfg

def negAppend (cfg : Cfg) (b : MBB) (l : List (List Clause)) : MBB :=
  let b1 := b.maybeInit cfg cfg.markScratch0
  { b1 with rules := b1.rules ++ l.map (clearer cfg.markScratch0) }

theorem runRules_init (env : Env) (call : String → Mark → Result) (pkt : Packet) (cfg : Cfg) (setA : Bool)
    (rest : List Netfilter.Rule) (m : Mark) :
    runRules env call pkt
      (({ action := .setMaskedMark (if setA then cfg.markScratch0 else 0) (cfg.markScratch0 ||| cfg.markScratch1) } : Netfilter.Rule) :: rest) m =
      runRules env call pkt rest
        (mk cfg.markScratch0 cfg.markScratch1 (baseOf cfg.markScratch0 cfg.markScratch1 m) setA false) := by
  rw [runRules]
  simp only [Rule.matches, List.all_nil, if_true, resolveAction]
  rw [init_mark]

theorem pos_inv (env : Env) (call : String → Mark → Result) (pkt : Packet) (cfg : Cfg)
    (hT : cfg.markScratch1 ≠ 0) (hAT : cfg.markScratch0 &&& cfg.markScratch1 = 0)
    (b : MBB) (npos : Nat) (pred : Bool) (l : List (List Clause))
    (hl : ∀ cs ∈ l, cs.all markFree = true)
    (hfresh : npos = 0 → b.usingBlocks = false) (hn : npos ≤ 1)
    (inv : BInv env call pkt cfg b npos pred) :
    BInv env call pkt cfg (posAppend cfg b l) (npos + 1) (pred && l.any (clausesMatch env pkt 0)) := by
  rcases Nat.lt_or_ge npos 1 with h0 | h1
  · -- first positive block of a fresh builder
    have hz : npos = 0 := by omega
    subst hz
    have hu := hfresh rfl
    obtain ⟨hr, _, hp⟩ := inv.idle hu
    have hd : b.doneFirstPositive = false := by simpa using inv.done
    subst hp
    have hb : posAppend cfg b l =
        { usingBlocks := true, doneFirstPositive := true,
          rules := ({ action := .setMaskedMark 0 (cfg.markScratch0 ||| cfg.markScratch1) } : Netfilter.Rule) ::
            l.map (setter cfg.markScratch0) } := by
      simp [posAppend, MBB.maybeInit, MBB.markToSet, MBB.finishPositive, hu, hr, hd]
    rw [hb]
    refine ⟨fun h => by simp at h, ?_, by simp⟩
    intro _ rest m
    refine ⟨false, fun _ => rfl, ?_⟩
    simp only [List.cons_append]
    have := runRules_init env call pkt cfg false (l.map (setter cfg.markScratch0) ++ rest) m
    simp only [Bool.false_eq_true, if_false] at this
    rw [this, run_setters env call pkt _ l hl]
    simp only [Bool.true_and]
    split
    · rename_i h; rw [h, mk_setA]
    · rename_i h; have h' : l.any (clausesMatch env pkt 0) = false := by simpa using h
      rw [h']
  · -- second positive block
    have hone : npos = 1 := by omega
    subst hone
    have hd : b.doneFirstPositive = true := by simpa using inv.done
    have hu : b.usingBlocks = true := by
      cases h : b.usingBlocks
      · have := (inv.idle h).2.1; omega
      · rfl
    have hb : posAppend cfg b l =
        { b with rules := b.rules ++ l.map (setter cfg.markScratch1) ++
            [({ clauses := [.mark false 0 cfg.markScratch1], action := .clearMark cfg.markScratch0 } : Netfilter.Rule)] } := by
      simp [posAppend, MBB.maybeInit, MBB.markToSet, MBB.finishPositive, hu, hd]
    rw [hb]
    refine ⟨fun h => by simp [hu] at h, ?_, by simpa using hd⟩
    intro _ rest m
    obtain ⟨t, ht, hrun⟩ := inv.run hu
      (l.map (setter cfg.markScratch1) ++
        ({ clauses := [.mark false 0 cfg.markScratch1], action := .clearMark cfg.markScratch0 } : Netfilter.Rule) :: rest) m
    have ht := ht (by omega)
    subst ht
    refine ⟨l.any (clausesMatch env pkt 0), fun h => by omega, ?_⟩
    simp only [List.append_assoc, List.cons_append, List.nil_append] at hrun ⊢
    rw [hrun, run_setters env call pkt _ l hl]
    have hbT := baseOf_and_T cfg.markScratch0 cfg.markScratch1 m
    have hbA := baseOf_and_A cfg.markScratch0 cfg.markScratch1 m
    by_cases hany : l.any (clausesMatch env pkt 0) = true
    · simp only [hany, if_true, mk_setT, Bool.and_true]
      rw [runRules]
      have : (Rule.matches env pkt
          (mk cfg.markScratch0 cfg.markScratch1 (baseOf cfg.markScratch0 cfg.markScratch1 m) pred true)
          ({ clauses := [.mark false 0 cfg.markScratch1], action := .clearMark cfg.markScratch0 } : Netfilter.Rule)) = false := by
        simp only [Rule.matches, List.all_cons, List.all_nil, Clause.matches, xorb, Bool.false_eq_true, if_false,
          Bool.and_true]
        rw [mk_testT_clear _ _ _ _ _ hT hAT hbT]; rfl
      rw [if_neg (by rw [this]; exact Bool.false_ne_true)]
    · have hany' : l.any (clausesMatch env pkt 0) = false := by simpa using hany
      simp only [hany', Bool.false_eq_true, if_false, Bool.and_false]
      rw [runRules]
      have : (Rule.matches env pkt
          (mk cfg.markScratch0 cfg.markScratch1 (baseOf cfg.markScratch0 cfg.markScratch1 m) pred false)
          ({ clauses := [.mark false 0 cfg.markScratch1], action := .clearMark cfg.markScratch0 } : Netfilter.Rule)) = true := by
        simp only [Rule.matches, List.all_cons, List.all_nil, Clause.matches, xorb, Bool.false_eq_true, if_false,
          Bool.and_true]
        rw [mk_testT_clear _ _ _ _ _ hT hAT hbT]; rfl
      rw [if_pos this]
      simp only [resolveAction, applyMark]
      rw [mk_clearA _ _ _ _ _ hAT hbA]

theorem neg_inv (env : Env) (call : String → Mark → Result) (pkt : Packet) (cfg : Cfg)
    (hAT : cfg.markScratch0 &&& cfg.markScratch1 = 0)
    (b : MBB) (npos : Nat) (pred : Bool) (l : List (List Clause))
    (hl : ∀ cs ∈ l, cs.all markFree = true)
    (inv : BInv env call pkt cfg b npos pred) :
    BInv env call pkt cfg (negAppend cfg b l) npos (pred && !l.any (clausesMatch env pkt 0)) := by
  cases hu : b.usingBlocks
  · obtain ⟨hr, hz, hp⟩ := inv.idle hu
    subst hz; subst hp
    have hb : negAppend cfg b l =
        { usingBlocks := true, doneFirstPositive := b.doneFirstPositive,
          rules := ({ action := .setMaskedMark cfg.markScratch0 (cfg.markScratch0 ||| cfg.markScratch1) } : Netfilter.Rule) ::
            l.map (clearer cfg.markScratch0) } := by
      simp [negAppend, MBB.maybeInit, hu, hr]
    rw [hb]
    refine ⟨fun h => by simp at h, ?_, inv.done⟩
    intro _ rest m
    refine ⟨false, fun _ => rfl, ?_⟩
    simp only [List.cons_append]
    have := runRules_init env call pkt cfg true (l.map (clearer cfg.markScratch0) ++ rest) m
    simp only [if_true] at this
    rw [this, run_clearers env call pkt _ l hl]
    have hbA := baseOf_and_A cfg.markScratch0 cfg.markScratch1 m
    simp only [Bool.true_and]
    split
    · rename_i h; rw [h, mk_clearA _ _ _ _ _ hAT hbA]; rfl
    · rename_i h; have h' : l.any (clausesMatch env pkt 0) = false := by simpa using h
      rw [h']; rfl
  · have hb : negAppend cfg b l = { b with rules := b.rules ++ l.map (clearer cfg.markScratch0) } := by
      simp [negAppend, MBB.maybeInit, hu]
    rw [hb]
    refine ⟨fun h => by simp [hu] at h, ?_, inv.done⟩
    intro _ rest m
    obtain ⟨t, ht, hrun⟩ := inv.run hu (l.map (clearer cfg.markScratch0) ++ rest) m
    refine ⟨t, ht, ?_⟩
    simp only [List.append_assoc] at hrun ⊢
    rw [hrun, run_clearers env call pkt _ l hl]
    have hbA := baseOf_and_A cfg.markScratch0 cfg.markScratch1 m
    split
    · rename_i h; rw [h, mk_clearA _ _ _ _ _ hAT hbA]; simp
    · rename_i h; have h' : l.any (clausesMatch env pkt 0) = false := by simpa using h
      rw [h']; simp

/-! ### the blocks of `ProtoRuleToIptablesRules` -/

/-- all CIDRs of the rule are of family `v6` (true of every `FilterRuleToIPVersion` output) -/
structure Fam (v6 : Bool) (r : Policy.Rule) : Prop where
  sn : ∀ c ∈ r.srcNet, cidrIsV6 c = v6
  nsn : ∀ c ∈ r.notSrcNet, cidrIsV6 c = v6
  dn : ∀ c ∈ r.dstNet, cidrIsV6 c = v6
  ndn : ∀ c ∈ r.notDstNet, cidrIsV6 c = v6

theorem filterNets_fam (nets : List String) (v6 neg : Bool) :
    ∀ c ∈ (filterNets nets v6 neg).1, cidrIsV6 c = v6 := by
  intro c hc
  unfold filterNets at hc
  split at hc
  · simp at hc
  · dsimp only at hc
    split at hc
    · simp at hc
    · exact (by simpa using (List.mem_filter.1 hc).2)

theorem filter_fam {v6 : Bool} {r rc : Policy.Rule} (h : filterRuleToIPVersion v6 r = some rc) :
    Fam v6 rc ∧ rc.ipVersion = r.ipVersion ∧ ¬ (r.ipVersion ≠ 0 ∧ r.ipVersion ≠ (if v6 then 6 else 4)) := by
  unfold filterRuleToIPVersion at h
  by_cases hv : r.ipVersion ≠ 0 ∧ r.ipVersion ≠ (if v6 = true then 6 else 4)
  · rw [if_pos hv] at h; exact absurd h (by simp)
  · rw [if_neg hv] at h
    rcases hf1 : filterNets r.srcNet v6 false with ⟨sn, a1⟩
    rcases hf2 : filterNets r.notSrcNet v6 true with ⟨nsn, a2⟩
    rcases hf3 : filterNets r.dstNet v6 false with ⟨dn, a3⟩
    rcases hf4 : filterNets r.notDstNet v6 true with ⟨ndn, a4⟩
    simp only [hf1, hf2, hf3, hf4] at h
    cases a1 <;> cases a2 <;> cases a3 <;> cases a4 <;>
      simp only [Bool.false_eq_true, if_false, if_true] at h <;> cases h
    have e1 := filterNets_fam r.srcNet v6 false; rw [hf1] at e1
    have e2 := filterNets_fam r.notSrcNet v6 true; rw [hf2] at e2
    have e3 := filterNets_fam r.dstNet v6 false; rw [hf3] at e3
    have e4 := filterNets_fam r.notDstNet v6 true; rw [hf4] at e4
    exact ⟨⟨e1, e2, e3, e4⟩, rfl, hv⟩

theorem appendCIDRs_eq (cfg : Cfg) (b : MBB) (cidrs : List String) (d : Dir) :
    b.appendCIDRs cfg cidrs d = posAppend cfg b (cidrs.map fun c => [Clause.net d false c]) := by
  simp [MBB.appendCIDRs, posAppend, setter, List.map_map, Function.comp_def]

theorem appendNegCIDRs_eq (cfg : Cfg) (b : MBB) (cidrs : List String) (d : Dir) :
    b.appendNegCIDRs cfg cidrs d = negAppend cfg b (cidrs.map fun c => [Clause.net d false c]) := by
  simp [MBB.appendNegCIDRs, negAppend, clearer, List.map_map, Function.comp_def]

def portBlockClauses (setName : String → String) (proto : Option Proto) (splits : List (List PortRange))
    (named : List String) (d : Dir) : List (List Clause) :=
  splits.map (fun s => protoClause false proto ++ [Clause.ports d false s]) ++
    named.map (fun id => [Clause.ipportset d false (setName id)])

theorem appendPorts_eq (cfg : Cfg) (setName : String → String) (b : MBB) (proto : Option Proto)
    (splits : List (List PortRange)) (named : List String) (d : Dir) :
    b.appendPorts cfg setName proto splits named d =
      posAppend cfg b (portBlockClauses setName proto splits named d) := by
  simp [MBB.appendPorts, posAppend, portBlockClauses, setter, List.map_map, Function.comp_def]

theorem netBlock_markFree (d : Dir) (l : List String) :
    ∀ cs ∈ l.map (fun c => [Clause.net d false c]), cs.all markFree = true := by
  intro cs h; obtain ⟨c, _, rfl⟩ := List.mem_map.1 h; rfl

theorem portBlock_markFree (setName : String → String) (proto : Option Proto) (splits : List (List PortRange))
    (named : List String) (d : Dir) :
    ∀ cs ∈ portBlockClauses setName proto splits named d, cs.all markFree = true := by
  intro cs h
  rcases List.mem_append.1 h with h | h
  · obtain ⟨s, _, rfl⟩ := List.mem_map.1 h; cases proto <;> rfl
  · obtain ⟨s, _, rfl⟩ := List.mem_map.1 h; rfl

theorem any_net_block (env : Env) (pkt : Packet) (d : Dir) (l : List String)
    (hf : ∀ c ∈ l, cidrIsV6 c = pkt.v6) :
    (l.map (fun c => [Clause.net d false c])).any (clausesMatch env pkt 0) =
      l.any (fun c => netHas env pkt.v6 c (addrOf d pkt)) := by
  induction l with
  | nil => rfl
  | cons c cs ih =>
    have h1 := hf c List.mem_cons_self
    simp only [List.map_cons, List.any_cons, ih (fun c hc => hf c (List.mem_cons_of_mem _ hc))]
    simp [clausesMatch, net_matches, xorb, netHas, h1]

theorem any_port_block (env : Env) (pkt : Packet) (setName : String → String) (proto : Option Proto)
    (ps : List PortRange) (named : List String) (d : Dir) :
    (portBlockClauses setName proto (splitPortList ps) named d).any (clausesMatch env pkt 0) =
      (((match proto with | none => true | some p => protoIs env (protoTrunc p) pkt.proto) &&
          (isPortProto pkt.proto && inRanges ps (portOf d pkt))) ||
        named.any (fun id => env.inIPPortSet (setName id) (addrOf d pkt) pkt.proto (portOf d pkt))) := by
  unfold portBlockClauses
  rw [List.any_append]
  congr 1
  · conv => rhs; rw [← splitPortList_flatten ps, inRanges_flatten]
    generalize splitPortList ps = ss
    have key : ∀ s : List PortRange,
        clausesMatch env pkt 0 (protoClause false proto ++ [Clause.ports d false s]) =
          ((match proto with | none => true | some p => protoIs env (protoTrunc p) pkt.proto) &&
            (isPortProto pkt.proto && inRanges s (portOf d pkt))) := by
      intro s
      rw [clausesMatch_append, seg_proto]
      simp [clausesMatch, ports_matches, xorb] <;> rfl
    generalize (match proto with | none => true | some p => protoIs env (protoTrunc p) pkt.proto) = P at key ⊢
    induction ss with
    | nil => simp
    | cons s rest ih =>
      simp only [List.map_cons, List.any_cons, ih, key]
      cases P <;> cases isPortProto pkt.proto <;> simp
  · induction named with
    | nil => rfl
    | cons n ns ih =>
      simp only [List.map_cons, List.any_cons, ih]
      congr 1
      cases d <;> simp [clausesMatch, Clause.matches, xorb, addrOf, portOf]

/-! ### the six block steps preserve the joint meaning -/

/-- what builder + remaining rule jointly mean: `M` -/
structure StInv (env : Env) (call : String → Mark → Result) (pkt : Packet) (cfg : Cfg)
    (setName : String → String) (M : Bool) (s : MBB × Policy.Rule) (n : Nat) : Prop where
  ex : ∃ pred, BInv env call pkt cfg s.1 n pred ∧
        (pred && (netsMatch env s.2 pkt && restMatch env setName s.2 pkt)) = M
  fam : Fam pkt.v6 s.2

theorem posNetOK_nil (env : Env) (v6 : Bool) (a : Nat) : posNetOK env v6 [] a = true := by
  simp [posNetOK, familyOK]

theorem negNetOK_nil (env : Env) (v6 : Bool) (a : Nat) : negNetOK env v6 [] a = true := by
  simp [negNetOK, familyOK]

theorem posNetOK_block (env : Env) (v6 : Bool) (l : List String) (a : Nat) (hf : ∀ c ∈ l, cidrIsV6 c = v6)
    (hne : l.length > 1) : posNetOK env v6 l a = l.any (fun c => netHas env v6 c a) := by
  have : l.isEmpty = false := by
    cases l with
    | nil => simp at hne
    | cons => rfl
  simp [posNetOK, familyOK_of_same _ _ hf, this]

theorem negNetOK_block (env : Env) (v6 : Bool) (l : List String) (a : Nat) (hf : ∀ c ∈ l, cidrIsV6 c = v6) :
    negNetOK env v6 l a = !l.any (fun c => netHas env v6 c a) := by
  simp [negNetOK, familyOK_of_same _ _ hf]

section steps
variable (env : Env) (call : String → Mark → Result) (pkt : Packet) (cfg : Cfg) (setName : String → String)
variable (hT : cfg.markScratch1 ≠ 0) (hAT : cfg.markScratch0 &&& cfg.markScratch1 = 0)
include hT hAT

theorem step_srcNet (M : Bool) (s : MBB × Policy.Rule) (n : Nat)
    (inv : StInv env call pkt cfg setName M s n) (fresh : n = 0 → s.1.usingBlocks = false)
    (hle : s.2.srcNet.length > 1 → n ≤ 1) :
    StInv env call pkt cfg setName M (stepSrcNet cfg s) (n + if s.2.srcNet.length > 1 then 1 else 0) ∧
    ((n + if s.2.srcNet.length > 1 then 1 else 0) = 0 → (stepSrcNet cfg s).1.usingBlocks = false) := by
  unfold stepSrcNet
  by_cases hc : s.2.srcNet.length > 1
  · simp only [hc, if_true]
    obtain ⟨pred, hb, hm⟩ := inv.ex
    refine ⟨⟨⟨pred && (s.2.srcNet.map (fun c => [Clause.net .src false c])).any (clausesMatch env pkt 0), ?_, ?_⟩, ?_⟩,
      fun h => by omega⟩
    · rw [appendCIDRs_eq]
      exact pos_inv env call pkt cfg hT hAT s.1 n pred _ (netBlock_markFree _ _) fresh (hle hc) hb
    · rw [any_net_block env pkt .src _ inv.fam.sn, ← hm]
      simp only [netsMatch, posNetOK_nil, posNetOK_block env pkt.v6 _ _ inv.fam.sn hc, addrOf, Bool.true_and]
      have : restMatch env setName { s.2 with srcNet := [] } pkt = restMatch env setName s.2 pkt := rfl
      rw [this]
      ac_rfl
    · exact ⟨fun c hc => by simp at hc, inv.fam.nsn, inv.fam.dn, inv.fam.ndn⟩
  · simp only [hc, if_false, Nat.add_zero]
    exact ⟨inv, fresh⟩

theorem step_dstNet (M : Bool) (s : MBB × Policy.Rule) (n : Nat)
    (inv : StInv env call pkt cfg setName M s n) (fresh : n = 0 → s.1.usingBlocks = false)
    (hle : s.2.dstNet.length > 1 → n ≤ 1) :
    StInv env call pkt cfg setName M (stepDstNet cfg s) (n + if s.2.dstNet.length > 1 then 1 else 0) ∧
    ((n + if s.2.dstNet.length > 1 then 1 else 0) = 0 → (stepDstNet cfg s).1.usingBlocks = false) := by
  unfold stepDstNet
  by_cases hc : s.2.dstNet.length > 1
  · simp only [hc, if_true]
    obtain ⟨pred, hb, hm⟩ := inv.ex
    refine ⟨⟨⟨pred && (s.2.dstNet.map (fun c => [Clause.net .dst false c])).any (clausesMatch env pkt 0), ?_, ?_⟩, ?_⟩,
      fun h => by omega⟩
    · rw [appendCIDRs_eq]
      exact pos_inv env call pkt cfg hT hAT s.1 n pred _ (netBlock_markFree _ _) fresh (hle hc) hb
    · rw [any_net_block env pkt .dst _ inv.fam.dn, ← hm]
      simp only [netsMatch, posNetOK_nil, posNetOK_block env pkt.v6 _ _ inv.fam.dn hc, addrOf, Bool.true_and]
      have : restMatch env setName { s.2 with dstNet := [] } pkt = restMatch env setName s.2 pkt := rfl
      rw [this]
      ac_rfl
    · exact ⟨inv.fam.sn, inv.fam.nsn, fun c hc => by simp at hc, inv.fam.ndn⟩
  · simp only [hc, if_false, Nat.add_zero]
    exact ⟨inv, fresh⟩

omit hT in
theorem step_negSrcNet (M : Bool) (s : MBB × Policy.Rule) (n : Nat)
    (inv : StInv env call pkt cfg setName M s n) :
    StInv env call pkt cfg setName M (stepNegSrcNet cfg s) n := by
  unfold stepNegSrcNet
  by_cases hc : s.2.srcNet.length + s.2.notSrcNet.length > 1
  · simp only [hc, if_true]
    obtain ⟨pred, hb, hm⟩ := inv.ex
    refine ⟨⟨pred && !(s.2.notSrcNet.map (fun c => [Clause.net .src false c])).any (clausesMatch env pkt 0), ?_, ?_⟩, ?_⟩
    · rw [appendNegCIDRs_eq]
      exact neg_inv env call pkt cfg hAT s.1 n pred _ (netBlock_markFree _ _) hb
    · rw [any_net_block env pkt .src _ inv.fam.nsn, ← hm]
      simp only [netsMatch, negNetOK_nil, negNetOK_block env pkt.v6 _ _ inv.fam.nsn, addrOf, Bool.true_and]
      have : restMatch env setName { s.2 with notSrcNet := [] } pkt = restMatch env setName s.2 pkt := rfl
      rw [this]
      ac_rfl
    · exact ⟨inv.fam.sn, fun c hc => by simp at hc, inv.fam.dn, inv.fam.ndn⟩
  · simp only [hc, if_false]
    exact inv

omit hT in
theorem step_negDstNet (M : Bool) (s : MBB × Policy.Rule) (n : Nat)
    (inv : StInv env call pkt cfg setName M s n) :
    StInv env call pkt cfg setName M (stepNegDstNet cfg s) n := by
  unfold stepNegDstNet
  by_cases hc : s.2.dstNet.length + s.2.notDstNet.length > 1
  · simp only [hc, if_true]
    obtain ⟨pred, hb, hm⟩ := inv.ex
    refine ⟨⟨pred && !(s.2.notDstNet.map (fun c => [Clause.net .dst false c])).any (clausesMatch env pkt 0), ?_, ?_⟩, ?_⟩
    · rw [appendNegCIDRs_eq]
      exact neg_inv env call pkt cfg hAT s.1 n pred _ (netBlock_markFree _ _) hb
    · rw [any_net_block env pkt .dst _ inv.fam.ndn, ← hm]
      simp only [netsMatch, negNetOK_nil, negNetOK_block env pkt.v6 _ _ inv.fam.ndn, addrOf, Bool.true_and]
      have : restMatch env setName { s.2 with notDstNet := [] } pkt = restMatch env setName s.2 pkt := rfl
      rw [this]
      ac_rfl
    · exact ⟨inv.fam.sn, inv.fam.nsn, inv.fam.dn, fun c hc => by simp at hc⟩
  · simp only [hc, if_false]
    exact inv

omit hT hAT in
theorem portsMatch_block (ps : List PortRange) (named : List String) (proto addr port : Nat)
    (hc : (splitPortList ps).length + named.length > 1) :
    portsMatch env setName ps named proto addr port =
      ((isPortProto proto && inRanges ps port) ||
        named.any (fun id => env.inIPPortSet (setName id) addr proto port)) := by
  have : (ps.isEmpty && named.isEmpty) = false := by
    cases ps with
    | nil =>
      cases named with
      | nil => simp [splitPortList] at hc
      | cons => simp
    | cons => simp
  simp [portsMatch, this]

theorem step_srcPorts (M : Bool) (s : MBB × Policy.Rule) (n : Nat)
    (inv : StInv env call pkt cfg setName M s n) (fresh : n = 0 → s.1.usingBlocks = false)
    (hle : (splitPortList s.2.srcPorts).length + s.2.srcNamedPortIpSetIds.length > 1 → n ≤ 1) :
    StInv env call pkt cfg setName M (stepSrcPorts cfg setName s)
      (n + if (splitPortList s.2.srcPorts).length + s.2.srcNamedPortIpSetIds.length > 1 then 1 else 0) ∧
    ((n + if (splitPortList s.2.srcPorts).length + s.2.srcNamedPortIpSetIds.length > 1 then 1 else 0) = 0 →
      (stepSrcPorts cfg setName s).1.usingBlocks = false) := by
  unfold stepSrcPorts
  by_cases hc : (splitPortList s.2.srcPorts).length + s.2.srcNamedPortIpSetIds.length > 1
  · simp only [hc, if_true]
    obtain ⟨pred, hb, hm⟩ := inv.ex
    refine ⟨⟨⟨pred && (portBlockClauses setName s.2.protocol (splitPortList s.2.srcPorts)
        s.2.srcNamedPortIpSetIds .src).any (clausesMatch env pkt 0), ?_, ?_⟩, ?_⟩, fun h => by omega⟩
    · rw [appendPorts_eq]
      exact pos_inv env call pkt cfg hT hAT s.1 n pred _ (portBlock_markFree _ _ _ _ _) fresh (hle hc) hb
    · rw [any_port_block, ← hm]
      have hn : netsMatch env { s.2 with srcPorts := [], srcNamedPortIpSetIds := [] } pkt = netsMatch env s.2 pkt := rfl
      rw [hn]
      simp only [restMatch, protoOK, otherMatch, portsMatch_block env setName _ _ _ _ _ hc, addrOf, portOf]
      have : portsMatch env setName [] [] pkt.proto pkt.src pkt.sport = true := by simp [portsMatch]
      rw [this]
      generalize (isPortProto pkt.proto && inRanges s.2.srcPorts pkt.sport) = X
      generalize (s.2.srcNamedPortIpSetIds.any fun id => env.inIPPortSet (setName id) pkt.src pkt.proto pkt.sport) = Nm
      cases s.2.protocol with
      | none => cases X <;> cases Nm <;> simp
      | some p =>
        simp only
        generalize protoIs env (protoTrunc p) pkt.proto = P
        cases P <;> cases X <;> cases Nm <;> simp
    · exact ⟨inv.fam.sn, inv.fam.nsn, inv.fam.dn, inv.fam.ndn⟩
  · simp only [hc, if_false, Nat.add_zero]
    exact ⟨inv, fresh⟩

theorem step_dstPorts (M : Bool) (s : MBB × Policy.Rule) (n : Nat)
    (inv : StInv env call pkt cfg setName M s n) (fresh : n = 0 → s.1.usingBlocks = false)
    (hle : (splitPortList s.2.dstPorts).length + s.2.dstNamedPortIpSetIds.length > 1 → n ≤ 1) :
    StInv env call pkt cfg setName M (stepDstPorts cfg setName s)
      (n + if (splitPortList s.2.dstPorts).length + s.2.dstNamedPortIpSetIds.length > 1 then 1 else 0) ∧
    ((n + if (splitPortList s.2.dstPorts).length + s.2.dstNamedPortIpSetIds.length > 1 then 1 else 0) = 0 →
      (stepDstPorts cfg setName s).1.usingBlocks = false) := by
  unfold stepDstPorts
  by_cases hc : (splitPortList s.2.dstPorts).length + s.2.dstNamedPortIpSetIds.length > 1
  · simp only [hc, if_true]
    obtain ⟨pred, hb, hm⟩ := inv.ex
    refine ⟨⟨⟨pred && (portBlockClauses setName s.2.protocol (splitPortList s.2.dstPorts)
        s.2.dstNamedPortIpSetIds .dst).any (clausesMatch env pkt 0), ?_, ?_⟩, ?_⟩, fun h => by omega⟩
    · rw [appendPorts_eq]
      exact pos_inv env call pkt cfg hT hAT s.1 n pred _ (portBlock_markFree _ _ _ _ _) fresh (hle hc) hb
    · rw [any_port_block, ← hm]
      have hn : netsMatch env { s.2 with dstPorts := [], dstNamedPortIpSetIds := [] } pkt = netsMatch env s.2 pkt := rfl
      rw [hn]
      simp only [restMatch, protoOK, otherMatch, portsMatch_block env setName _ _ _ _ _ hc, addrOf, portOf]
      have : portsMatch env setName [] [] pkt.proto pkt.dst pkt.dport = true := by simp [portsMatch]
      rw [this]
      generalize (isPortProto pkt.proto && inRanges s.2.dstPorts pkt.dport) = X
      generalize (s.2.dstNamedPortIpSetIds.any fun id => env.inIPPortSet (setName id) pkt.dst pkt.proto pkt.dport) = Nm
      cases s.2.protocol with
      | none => cases X <;> cases Nm <;> simp
      | some p =>
        simp only
        generalize protoIs env (protoTrunc p) pkt.proto = P
        cases P <;> cases X <;> cases Nm <;> simp
    · exact ⟨inv.fam.sn, inv.fam.nsn, inv.fam.dn, inv.fam.ndn⟩
  · simp only [hc, if_false, Nat.add_zero]
    exact ⟨inv, fresh⟩

end steps
/-! ### the rule that is left after the blocks is renderable in one netfilter rule -/

@[simp] theorem stepSrcPorts_srcPorts (cfg : Cfg) (setName : String → String) (s : MBB × Policy.Rule) :
    (stepSrcPorts cfg setName s).2.srcPorts = if (splitPortList s.2.srcPorts).length + s.2.srcNamedPortIpSetIds.length > 1 then [] else s.2.srcPorts := by
  unfold stepSrcPorts; split <;> simp [*]

@[simp] theorem stepSrcPorts_srcNamedPortIpSetIds (cfg : Cfg) (setName : String → String) (s : MBB × Policy.Rule) :
    (stepSrcPorts cfg setName s).2.srcNamedPortIpSetIds = if (splitPortList s.2.srcPorts).length + s.2.srcNamedPortIpSetIds.length > 1 then [] else s.2.srcNamedPortIpSetIds := by
  unfold stepSrcPorts; split <;> simp [*]

@[simp] theorem stepSrcPorts_dstPorts (cfg : Cfg) (setName : String → String) (s : MBB × Policy.Rule) :
    (stepSrcPorts cfg setName s).2.dstPorts = s.2.dstPorts := by
  unfold stepSrcPorts; split <;> rfl

@[simp] theorem stepSrcPorts_dstNamedPortIpSetIds (cfg : Cfg) (setName : String → String) (s : MBB × Policy.Rule) :
    (stepSrcPorts cfg setName s).2.dstNamedPortIpSetIds = s.2.dstNamedPortIpSetIds := by
  unfold stepSrcPorts; split <;> rfl

@[simp] theorem stepSrcPorts_srcNet (cfg : Cfg) (setName : String → String) (s : MBB × Policy.Rule) :
    (stepSrcPorts cfg setName s).2.srcNet = s.2.srcNet := by
  unfold stepSrcPorts; split <;> rfl

@[simp] theorem stepSrcPorts_dstNet (cfg : Cfg) (setName : String → String) (s : MBB × Policy.Rule) :
    (stepSrcPorts cfg setName s).2.dstNet = s.2.dstNet := by
  unfold stepSrcPorts; split <;> rfl

@[simp] theorem stepSrcPorts_notSrcNet (cfg : Cfg) (setName : String → String) (s : MBB × Policy.Rule) :
    (stepSrcPorts cfg setName s).2.notSrcNet = s.2.notSrcNet := by
  unfold stepSrcPorts; split <;> rfl

@[simp] theorem stepSrcPorts_notDstNet (cfg : Cfg) (setName : String → String) (s : MBB × Policy.Rule) :
    (stepSrcPorts cfg setName s).2.notDstNet = s.2.notDstNet := by
  unfold stepSrcPorts; split <;> rfl

@[simp] theorem stepSrcPorts_action (cfg : Cfg) (setName : String → String) (s : MBB × Policy.Rule) :
    (stepSrcPorts cfg setName s).2.action = s.2.action := by
  unfold stepSrcPorts; split <;> rfl

@[simp] theorem stepDstPorts_srcPorts (cfg : Cfg) (setName : String → String) (s : MBB × Policy.Rule) :
    (stepDstPorts cfg setName s).2.srcPorts = s.2.srcPorts := by
  unfold stepDstPorts; split <;> rfl

@[simp] theorem stepDstPorts_srcNamedPortIpSetIds (cfg : Cfg) (setName : String → String) (s : MBB × Policy.Rule) :
    (stepDstPorts cfg setName s).2.srcNamedPortIpSetIds = s.2.srcNamedPortIpSetIds := by
  unfold stepDstPorts; split <;> rfl

@[simp] theorem stepDstPorts_dstPorts (cfg : Cfg) (setName : String → String) (s : MBB × Policy.Rule) :
    (stepDstPorts cfg setName s).2.dstPorts = if (splitPortList s.2.dstPorts).length + s.2.dstNamedPortIpSetIds.length > 1 then [] else s.2.dstPorts := by
  unfold stepDstPorts; split <;> simp [*]

@[simp] theorem stepDstPorts_dstNamedPortIpSetIds (cfg : Cfg) (setName : String → String) (s : MBB × Policy.Rule) :
    (stepDstPorts cfg setName s).2.dstNamedPortIpSetIds = if (splitPortList s.2.dstPorts).length + s.2.dstNamedPortIpSetIds.length > 1 then [] else s.2.dstNamedPortIpSetIds := by
  unfold stepDstPorts; split <;> simp [*]

@[simp] theorem stepDstPorts_srcNet (cfg : Cfg) (setName : String → String) (s : MBB × Policy.Rule) :
    (stepDstPorts cfg setName s).2.srcNet = s.2.srcNet := by
  unfold stepDstPorts; split <;> rfl

@[simp] theorem stepDstPorts_dstNet (cfg : Cfg) (setName : String → String) (s : MBB × Policy.Rule) :
    (stepDstPorts cfg setName s).2.dstNet = s.2.dstNet := by
  unfold stepDstPorts; split <;> rfl

@[simp] theorem stepDstPorts_notSrcNet (cfg : Cfg) (setName : String → String) (s : MBB × Policy.Rule) :
    (stepDstPorts cfg setName s).2.notSrcNet = s.2.notSrcNet := by
  unfold stepDstPorts; split <;> rfl

@[simp] theorem stepDstPorts_notDstNet (cfg : Cfg) (setName : String → String) (s : MBB × Policy.Rule) :
    (stepDstPorts cfg setName s).2.notDstNet = s.2.notDstNet := by
  unfold stepDstPorts; split <;> rfl

@[simp] theorem stepDstPorts_action (cfg : Cfg) (setName : String → String) (s : MBB × Policy.Rule) :
    (stepDstPorts cfg setName s).2.action = s.2.action := by
  unfold stepDstPorts; split <;> rfl

@[simp] theorem stepSrcNet_srcPorts (cfg : Cfg) (s : MBB × Policy.Rule) :
    (stepSrcNet cfg s).2.srcPorts = s.2.srcPorts := by
  unfold stepSrcNet; split <;> rfl

@[simp] theorem stepSrcNet_srcNamedPortIpSetIds (cfg : Cfg) (s : MBB × Policy.Rule) :
    (stepSrcNet cfg s).2.srcNamedPortIpSetIds = s.2.srcNamedPortIpSetIds := by
  unfold stepSrcNet; split <;> rfl

@[simp] theorem stepSrcNet_dstPorts (cfg : Cfg) (s : MBB × Policy.Rule) :
    (stepSrcNet cfg s).2.dstPorts = s.2.dstPorts := by
  unfold stepSrcNet; split <;> rfl

@[simp] theorem stepSrcNet_dstNamedPortIpSetIds (cfg : Cfg) (s : MBB × Policy.Rule) :
    (stepSrcNet cfg s).2.dstNamedPortIpSetIds = s.2.dstNamedPortIpSetIds := by
  unfold stepSrcNet; split <;> rfl

@[simp] theorem stepSrcNet_srcNet (cfg : Cfg) (s : MBB × Policy.Rule) :
    (stepSrcNet cfg s).2.srcNet = if s.2.srcNet.length > 1 then [] else s.2.srcNet := by
  unfold stepSrcNet; split <;> simp [*]

@[simp] theorem stepSrcNet_dstNet (cfg : Cfg) (s : MBB × Policy.Rule) :
    (stepSrcNet cfg s).2.dstNet = s.2.dstNet := by
  unfold stepSrcNet; split <;> rfl

@[simp] theorem stepSrcNet_notSrcNet (cfg : Cfg) (s : MBB × Policy.Rule) :
    (stepSrcNet cfg s).2.notSrcNet = s.2.notSrcNet := by
  unfold stepSrcNet; split <;> rfl

@[simp] theorem stepSrcNet_notDstNet (cfg : Cfg) (s : MBB × Policy.Rule) :
    (stepSrcNet cfg s).2.notDstNet = s.2.notDstNet := by
  unfold stepSrcNet; split <;> rfl

@[simp] theorem stepSrcNet_action (cfg : Cfg) (s : MBB × Policy.Rule) :
    (stepSrcNet cfg s).2.action = s.2.action := by
  unfold stepSrcNet; split <;> rfl

@[simp] theorem stepDstNet_srcPorts (cfg : Cfg) (s : MBB × Policy.Rule) :
    (stepDstNet cfg s).2.srcPorts = s.2.srcPorts := by
  unfold stepDstNet; split <;> rfl

@[simp] theorem stepDstNet_srcNamedPortIpSetIds (cfg : Cfg) (s : MBB × Policy.Rule) :
    (stepDstNet cfg s).2.srcNamedPortIpSetIds = s.2.srcNamedPortIpSetIds := by
  unfold stepDstNet; split <;> rfl

@[simp] theorem stepDstNet_dstPorts (cfg : Cfg) (s : MBB × Policy.Rule) :
    (stepDstNet cfg s).2.dstPorts = s.2.dstPorts := by
  unfold stepDstNet; split <;> rfl

@[simp] theorem stepDstNet_dstNamedPortIpSetIds (cfg : Cfg) (s : MBB × Policy.Rule) :
    (stepDstNet cfg s).2.dstNamedPortIpSetIds = s.2.dstNamedPortIpSetIds := by
  unfold stepDstNet; split <;> rfl

@[simp] theorem stepDstNet_srcNet (cfg : Cfg) (s : MBB × Policy.Rule) :
    (stepDstNet cfg s).2.srcNet = s.2.srcNet := by
  unfold stepDstNet; split <;> rfl

@[simp] theorem stepDstNet_dstNet (cfg : Cfg) (s : MBB × Policy.Rule) :
    (stepDstNet cfg s).2.dstNet = if s.2.dstNet.length > 1 then [] else s.2.dstNet := by
  unfold stepDstNet; split <;> simp [*]

@[simp] theorem stepDstNet_notSrcNet (cfg : Cfg) (s : MBB × Policy.Rule) :
    (stepDstNet cfg s).2.notSrcNet = s.2.notSrcNet := by
  unfold stepDstNet; split <;> rfl

@[simp] theorem stepDstNet_notDstNet (cfg : Cfg) (s : MBB × Policy.Rule) :
    (stepDstNet cfg s).2.notDstNet = s.2.notDstNet := by
  unfold stepDstNet; split <;> rfl

@[simp] theorem stepDstNet_action (cfg : Cfg) (s : MBB × Policy.Rule) :
    (stepDstNet cfg s).2.action = s.2.action := by
  unfold stepDstNet; split <;> rfl

@[simp] theorem stepNegSrcNet_srcPorts (cfg : Cfg) (s : MBB × Policy.Rule) :
    (stepNegSrcNet cfg s).2.srcPorts = s.2.srcPorts := by
  unfold stepNegSrcNet; split <;> rfl

@[simp] theorem stepNegSrcNet_srcNamedPortIpSetIds (cfg : Cfg) (s : MBB × Policy.Rule) :
    (stepNegSrcNet cfg s).2.srcNamedPortIpSetIds = s.2.srcNamedPortIpSetIds := by
  unfold stepNegSrcNet; split <;> rfl

@[simp] theorem stepNegSrcNet_dstPorts (cfg : Cfg) (s : MBB × Policy.Rule) :
    (stepNegSrcNet cfg s).2.dstPorts = s.2.dstPorts := by
  unfold stepNegSrcNet; split <;> rfl

@[simp] theorem stepNegSrcNet_dstNamedPortIpSetIds (cfg : Cfg) (s : MBB × Policy.Rule) :
    (stepNegSrcNet cfg s).2.dstNamedPortIpSetIds = s.2.dstNamedPortIpSetIds := by
  unfold stepNegSrcNet; split <;> rfl

@[simp] theorem stepNegSrcNet_srcNet (cfg : Cfg) (s : MBB × Policy.Rule) :
    (stepNegSrcNet cfg s).2.srcNet = s.2.srcNet := by
  unfold stepNegSrcNet; split <;> rfl

@[simp] theorem stepNegSrcNet_dstNet (cfg : Cfg) (s : MBB × Policy.Rule) :
    (stepNegSrcNet cfg s).2.dstNet = s.2.dstNet := by
  unfold stepNegSrcNet; split <;> rfl

@[simp] theorem stepNegSrcNet_notSrcNet (cfg : Cfg) (s : MBB × Policy.Rule) :
    (stepNegSrcNet cfg s).2.notSrcNet = if s.2.srcNet.length + s.2.notSrcNet.length > 1 then [] else s.2.notSrcNet := by
  unfold stepNegSrcNet; split <;> simp [*]

@[simp] theorem stepNegSrcNet_notDstNet (cfg : Cfg) (s : MBB × Policy.Rule) :
    (stepNegSrcNet cfg s).2.notDstNet = s.2.notDstNet := by
  unfold stepNegSrcNet; split <;> rfl

@[simp] theorem stepNegSrcNet_action (cfg : Cfg) (s : MBB × Policy.Rule) :
    (stepNegSrcNet cfg s).2.action = s.2.action := by
  unfold stepNegSrcNet; split <;> rfl

@[simp] theorem stepNegDstNet_srcPorts (cfg : Cfg) (s : MBB × Policy.Rule) :
    (stepNegDstNet cfg s).2.srcPorts = s.2.srcPorts := by
  unfold stepNegDstNet; split <;> rfl

@[simp] theorem stepNegDstNet_srcNamedPortIpSetIds (cfg : Cfg) (s : MBB × Policy.Rule) :
    (stepNegDstNet cfg s).2.srcNamedPortIpSetIds = s.2.srcNamedPortIpSetIds := by
  unfold stepNegDstNet; split <;> rfl

@[simp] theorem stepNegDstNet_dstPorts (cfg : Cfg) (s : MBB × Policy.Rule) :
    (stepNegDstNet cfg s).2.dstPorts = s.2.dstPorts := by
  unfold stepNegDstNet; split <;> rfl

@[simp] theorem stepNegDstNet_dstNamedPortIpSetIds (cfg : Cfg) (s : MBB × Policy.Rule) :
    (stepNegDstNet cfg s).2.dstNamedPortIpSetIds = s.2.dstNamedPortIpSetIds := by
  unfold stepNegDstNet; split <;> rfl

@[simp] theorem stepNegDstNet_srcNet (cfg : Cfg) (s : MBB × Policy.Rule) :
    (stepNegDstNet cfg s).2.srcNet = s.2.srcNet := by
  unfold stepNegDstNet; split <;> rfl

@[simp] theorem stepNegDstNet_dstNet (cfg : Cfg) (s : MBB × Policy.Rule) :
    (stepNegDstNet cfg s).2.dstNet = s.2.dstNet := by
  unfold stepNegDstNet; split <;> rfl

@[simp] theorem stepNegDstNet_notSrcNet (cfg : Cfg) (s : MBB × Policy.Rule) :
    (stepNegDstNet cfg s).2.notSrcNet = s.2.notSrcNet := by
  unfold stepNegDstNet; split <;> rfl

@[simp] theorem stepNegDstNet_notDstNet (cfg : Cfg) (s : MBB × Policy.Rule) :
    (stepNegDstNet cfg s).2.notDstNet = if s.2.dstNet.length + s.2.notDstNet.length > 1 then [] else s.2.notDstNet := by
  unfold stepNegDstNet; split <;> simp [*]

@[simp] theorem stepNegDstNet_action (cfg : Cfg) (s : MBB × Policy.Rule) :
    (stepNegDstNet cfg s).2.action = s.2.action := by
  unfold stepNegDstNet; split <;> rfl

theorem simple_final (cfg : Cfg) (setName : String → String) (v6 : Bool) (r : Policy.Rule) (hf : Fam v6 r) :
    Simple v6 (buildBlocks cfg setName r).2 := by
  obtain ⟨f1, f2, f3, f4⟩ := hf
  have e1 : (buildBlocks cfg setName r).2.srcNet = if r.srcNet.length > 1 then [] else r.srcNet := by
    simp [buildBlocks]
  have e2 : (buildBlocks cfg setName r).2.dstNet = if r.dstNet.length > 1 then [] else r.dstNet := by
    simp [buildBlocks]
  have e3 : (buildBlocks cfg setName r).2.notSrcNet =
      if (if r.srcNet.length > 1 then [] else r.srcNet).length + r.notSrcNet.length > 1 then [] else r.notSrcNet := by
    simp [buildBlocks]
  have e4 : (buildBlocks cfg setName r).2.notDstNet =
      if (if r.dstNet.length > 1 then [] else r.dstNet).length + r.notDstNet.length > 1 then [] else r.notDstNet := by
    simp [buildBlocks]
  have e5 : (buildBlocks cfg setName r).2.srcPorts =
      if (splitPortList r.srcPorts).length + r.srcNamedPortIpSetIds.length > 1 then [] else r.srcPorts := by
    simp [buildBlocks]
  have e6 : (buildBlocks cfg setName r).2.srcNamedPortIpSetIds =
      if (splitPortList r.srcPorts).length + r.srcNamedPortIpSetIds.length > 1 then [] else r.srcNamedPortIpSetIds := by
    simp [buildBlocks]
  have e7 : (buildBlocks cfg setName r).2.dstPorts =
      if (splitPortList r.dstPorts).length + r.dstNamedPortIpSetIds.length > 1 then [] else r.dstPorts := by
    simp [buildBlocks]
  have e8 : (buildBlocks cfg setName r).2.dstNamedPortIpSetIds =
      if (splitPortList r.dstPorts).length + r.dstNamedPortIpSetIds.length > 1 then [] else r.dstNamedPortIpSetIds := by
    simp [buildBlocks]
  have portsOK : ∀ (ps : List PortRange) (nm : List String),
      ¬ ((splitPortList ps).length + nm.length > 1) → nm.length ≤ 1 ∧ (ps = [] ∨ nm = []) := by
    intro ps nm h
    refine ⟨by omega, ?_⟩
    cases nm with
    | nil => exact Or.inr rfl
    | cons a as =>
      left
      apply (splitPortList_eq_nil ps).1
      cases hs : splitPortList ps with
      | nil => rfl
      | cons x xs => rw [hs] at h; simp at h; omega
  constructor
  · rw [e1]; split
    · simp
    · omega
  · rw [e3]
    by_cases h : (if r.srcNet.length > 1 then [] else r.srcNet).length + r.notSrcNet.length > 1
    · rw [if_pos h]; simp
    · rw [if_neg h]; omega
  · rw [e2]; split
    · simp
    · omega
  · rw [e4]
    by_cases h : (if r.dstNet.length > 1 then [] else r.dstNet).length + r.notDstNet.length > 1
    · rw [if_pos h]; simp
    · rw [if_neg h]; omega
  · rw [e6]; split
    · simp
    · rename_i h; exact (portsOK _ _ h).1
  · rw [e8]; split
    · simp
    · rename_i h; exact (portsOK _ _ h).1
  · rw [e5, e6]; split
    · exact Or.inl rfl
    · rename_i h; exact (portsOK _ _ h).2
  · rw [e7, e8]; split
    · exact Or.inl rfl
    · rename_i h; exact (portsOK _ _ h).2
  · rw [e1]; split
    · intro c hc; simp at hc
    · exact f1
  · rw [e3]
    by_cases h : (if r.srcNet.length > 1 then [] else r.srcNet).length + r.notSrcNet.length > 1
    · rw [if_pos h]; intro c hc; simp at hc
    · rw [if_neg h]; exact f2
  · rw [e2]; split
    · intro c hc; simp at hc
    · exact f3
  · rw [e4]
    by_cases h : (if r.dstNet.length > 1 then [] else r.dstNet).length + r.notDstNet.length > 1
    · rw [if_pos h]; intro c hc; simp at hc
    · rw [if_neg h]; exact f4

@[simp] theorem stepSrcPorts_notIcmp (cfg : Cfg) (setName : String → String) (s : MBB × Policy.Rule) :
    (stepSrcPorts cfg setName s).2.notIcmp = s.2.notIcmp := by
  unfold stepSrcPorts; split <;> rfl

@[simp] theorem stepDstPorts_notIcmp (cfg : Cfg) (setName : String → String) (s : MBB × Policy.Rule) :
    (stepDstPorts cfg setName s).2.notIcmp = s.2.notIcmp := by
  unfold stepDstPorts; split <;> rfl

@[simp] theorem stepSrcNet_notIcmp (cfg : Cfg) (s : MBB × Policy.Rule) :
    (stepSrcNet cfg s).2.notIcmp = s.2.notIcmp := by
  unfold stepSrcNet; split <;> rfl

@[simp] theorem stepDstNet_notIcmp (cfg : Cfg) (s : MBB × Policy.Rule) :
    (stepDstNet cfg s).2.notIcmp = s.2.notIcmp := by
  unfold stepDstNet; split <;> rfl

@[simp] theorem stepNegSrcNet_notIcmp (cfg : Cfg) (s : MBB × Policy.Rule) :
    (stepNegSrcNet cfg s).2.notIcmp = s.2.notIcmp := by
  unfold stepNegSrcNet; split <;> rfl

@[simp] theorem stepNegDstNet_notIcmp (cfg : Cfg) (s : MBB × Policy.Rule) :
    (stepNegDstNet cfg s).2.notIcmp = s.2.notIcmp := by
  unfold stepNegDstNet; split <;> rfl

/-! ### composition -/

/-- number of positive match blocks `ProtoRuleToIptablesRules` renders for an (IP-version filtered) rule -/
def numPositive (r : Policy.Rule) : Nat :=
  (if (splitPortList r.srcPorts).length + r.srcNamedPortIpSetIds.length > 1 then 1 else 0) +
  (if (splitPortList r.dstPorts).length + r.dstNamedPortIpSetIds.length > 1 then 1 else 0) +
  (if r.srcNet.length > 1 then 1 else 0) + (if r.dstNet.length > 1 then 1 else 0)

theorem build_inv (env : Env) (call : String → Mark → Result) (pkt : Packet) (cfg : Cfg)
    (setName : String → String) (hT : cfg.markScratch1 ≠ 0) (hAT : cfg.markScratch0 &&& cfg.markScratch1 = 0)
    (r : Policy.Rule) (fam : Fam pkt.v6 r) (hle : numPositive r ≤ 2) :
    StInv env call pkt cfg setName (netsMatch env r pkt && restMatch env setName r pkt)
      (buildBlocks cfg setName r) (numPositive r) := by
  have i0 : StInv env call pkt cfg setName (netsMatch env r pkt && restMatch env setName r pkt) ({}, r) 0 :=
    ⟨⟨true, BInv.empty env call pkt cfg, by simp⟩, fam⟩
  unfold numPositive at hle ⊢
  obtain ⟨i1, fr1⟩ := step_srcPorts env call pkt cfg setName hT hAT _ ({}, r) 0 i0 (fun _ => rfl) (fun _ => by omega)
  obtain ⟨i2, fr2⟩ := step_dstPorts env call pkt cfg setName hT hAT _ _ _ i1 fr1
    (fun _ => by simp only [stepSrcPorts_dstPorts, stepSrcPorts_dstNamedPortIpSetIds]; split <;> omega)
  obtain ⟨i3, fr3⟩ := step_srcNet env call pkt cfg setName hT hAT _ _ _ i2 fr2
    (fun h => by
      simp only [stepDstPorts_srcNet, stepSrcPorts_srcNet, stepSrcPorts_dstPorts,
        stepSrcPorts_dstNamedPortIpSetIds] at h ⊢
      simp only [h, if_true] at hle
      omega)
  obtain ⟨i4, _⟩ := step_dstNet env call pkt cfg setName hT hAT _ _ _ i3 fr3
    (fun h => by
      simp only [stepSrcNet_dstNet, stepDstPorts_dstNet, stepSrcPorts_dstNet, stepDstPorts_srcNet,
        stepSrcPorts_srcNet, stepSrcPorts_dstPorts, stepSrcPorts_dstNamedPortIpSetIds] at h ⊢
      simp only [h, if_true] at hle
      omega)
  have i5 := step_negSrcNet env call pkt cfg setName hAT _ _ _ i4
  have i6 := step_negDstNet env call pkt cfg setName hAT _ _ _ i5
  simp only [stepSrcNet_dstNet, stepDstPorts_dstNet, stepSrcPorts_dstNet, stepDstPorts_srcNet,
    stepSrcPorts_srcNet, stepSrcPorts_dstPorts, stepSrcPorts_dstNamedPortIpSetIds, Nat.zero_add] at i6
  exact i6

/-- the configured mark bits are non-zero and pairwise disjoint where it matters -/
structure MarksOK (cfg : Cfg) : Prop where
  tNe : cfg.markScratch1 ≠ 0
  aNe : cfg.markScratch0 ≠ 0
  at_ : cfg.markScratch0 &&& cfg.markScratch1 = 0
  accNe : cfg.markAccept ≠ 0
  passNe : cfg.markPass ≠ 0
  dropNe : cfg.markDrop ≠ 0
  accA : cfg.markAccept &&& cfg.markScratch0 = 0
  accT : cfg.markAccept &&& cfg.markScratch1 = 0
  passA : cfg.markPass &&& cfg.markScratch0 = 0
  passT : cfg.markPass &&& cfg.markScratch1 = 0
  dropA : cfg.markDrop &&& cfg.markScratch0 = 0
  dropT : cfg.markDrop &&& cfg.markScratch1 = 0

theorem filter_fields {v6 : Bool} {r rc : Policy.Rule} (h : filterRuleToIPVersion v6 r = some rc) :
    rc.action = r.action ∧ rc.notIcmp = r.notIcmp := by
  unfold filterRuleToIPVersion at h
  by_cases hv : r.ipVersion ≠ 0 ∧ r.ipVersion ≠ (if v6 = true then 6 else 4)
  · rw [if_pos hv] at h; exact absurd h (by simp)
  · rw [if_neg hv] at h
    rcases hf1 : filterNets r.srcNet v6 false with ⟨sn, a1⟩
    rcases hf2 : filterNets r.notSrcNet v6 true with ⟨nsn, a2⟩
    rcases hf3 : filterNets r.dstNet v6 false with ⟨dn, a3⟩
    rcases hf4 : filterNets r.notDstNet v6 true with ⟨ndn, a4⟩
    simp only [hf1, hf2, hf3, hf4] at h
    cases a1 <;> cases a2 <;> cases a3 <;> cases a4 <;>
      simp only [Bool.false_eq_true, if_false, if_true] at h <;> cases h
    exact ⟨rfl, rfl⟩

theorem combine_some (cfg : Cfg) (ctx : Ctx) (action : String) (act : RuleAction) (m : List Clause)
    (h : parseAction action = some act) : ∃ rs, combineMatchAndActions cfg ctx action m = some rs := by
  unfold combineMatchAndActions
  rw [h]
  cases act <;> simp only <;> split <;> exact ⟨_, rfl⟩

theorem buildBlocks_action (cfg : Cfg) (setName : String → String) (r : Policy.Rule) :
    (buildBlocks cfg setName r).2.action = r.action := by simp [buildBlocks]

theorem buildBlocks_notIcmp (cfg : Cfg) (setName : String → String) (r : Policy.Rule) :
    (buildBlocks cfg setName r).2.notIcmp = r.notIcmp := by simp [buildBlocks]

theorem render_exact_le2 (cfg : Cfg) (ctx : Ctx) (env : Env) (call : String → Mark → Result) (pkt : Packet)
    (setName : String → String) (r : Policy.Rule) (rest : List Netfilter.Rule) (mark : Mark) (act : RuleAction)
    (mo : MarksOK cfg) (henv : EnvCatchAll env)
    (hi : env.dp = .ipt ∨ ∀ t c, r.notIcmp ≠ .typeCode t c)
    (hpos : ∀ rc, filterRuleToIPVersion pkt.v6 r = some rc → numPositive rc ≤ 2)
    (hact : parseAction r.action = some act)
    (hmA : act = .allow → mark &&& cfg.markAccept = 0) (hmP : act = .pass → mark &&& cfg.markPass = 0)
    (hmD : act = .deny → mark &&& cfg.markDrop = 0) :
    ∃ rs mark', protoRuleToRules cfg ctx setName pkt.v6 r = some rs ∧
      baseOf cfg.markScratch0 cfg.markScratch1 mark' = baseOf cfg.markScratch0 cfg.markScratch1 mark ∧
      runRules env call pkt (rs ++ rest) mark =
        if ruleMatches env setName r pkt then actionOutcome cfg env call pkt rest mark' act
        else runRules env call pkt rest mark' := by
  rw [filterRule_preserves env henv setName r pkt]
  unfold protoRuleToRules
  cases hf : filterRuleToIPVersion pkt.v6 r with
  | none => exact ⟨[], mark, rfl, rfl, by simp⟩
  | some rc =>
    obtain ⟨fam, hipv, hnv⟩ := filter_fam hf
    obtain ⟨hra, hrn⟩ := filter_fields hf
    have inv := build_inv env call pkt cfg setName mo.tNe mo.at_ rc fam (hpos rc hf)
    have hs := simple_final cfg setName pkt.v6 rc fam
    have hi' : env.dp = .ipt ∨ ∀ t c, (buildBlocks cfg setName rc).2.notIcmp ≠ .typeCode t c := by
      rw [buildBlocks_notIcmp, hrn]; exact hi
    have hact' : parseAction (buildBlocks cfg setName rc).2.action = some act := by
      rw [buildBlocks_action, hra]; exact hact
    have hrm : ruleMatches env setName rc pkt = (netsMatch env rc pkt && restMatch env setName rc pkt) := by
      have : (rc.ipVersion == 0 || rc.ipVersion == if pkt.v6 = true then 6 else 4) = true := by
        rw [hipv]
        simp only [Bool.or_eq_true, beq_iff_eq]
        by_cases h0 : r.ipVersion = 0
        · exact Or.inl h0
        · right
          by_cases h1 : r.ipVersion = if pkt.v6 = true then 6 else 4
          · exact h1
          · exact absurd ⟨h0, h1⟩ hnv
      simp [ruleMatches, this, Bool.and_assoc]
    simp only [hrm]
    obtain ⟨pred, hb, hm⟩ := inv.ex
    cases hu : (buildBlocks cfg setName rc).1.usingBlocks
    · -- no match blocks at all
      obtain ⟨hrules, _, hp⟩ := hb.idle hu
      subst hp
      obtain ⟨m, hcalc, hcl⟩ := calc_exact env pkt mark setName _ hs hi'
      obtain ⟨rsc, hcomb⟩ := combine_some cfg ctx _ act m hact'
      refine ⟨rsc, mark, ?_, rfl, ?_⟩
      · simp [hcalc, hu, hcomb, hrules]
      · rw [combine_exact cfg ctx env call pkt _ act m rsc rest mark hact' hcomb mo.accNe mo.passNe mo.dropNe hmA hmP hmD,
          hcl, ← hm]
        simp
    · -- match blocks, then the final rule tests AllBlocksPass
      obtain ⟨m, hcalc, _⟩ := calc_exact env pkt mark setName _ hs hi'
      obtain ⟨rsc, hcomb⟩ := combine_some cfg ctx _ act
        (m ++ [.mark false cfg.markScratch0 cfg.markScratch0]) hact'
      obtain ⟨t, _, hrun⟩ := hb.run hu (rsc ++ rest) mark
      have hbA := baseOf_and_A cfg.markScratch0 cfg.markScratch1 mark
      have hbT := baseOf_and_T cfg.markScratch0 cfg.markScratch1 mark
      refine ⟨(buildBlocks cfg setName rc).1.rules ++ rsc,
        mk cfg.markScratch0 cfg.markScratch1 (baseOf cfg.markScratch0 cfg.markScratch1 mark) pred t, ?_,
        baseOf_mk _ _ _ _ _ hbA hbT, ?_⟩
      · simp [hcalc, hu, hcomb]
      · rw [List.append_assoc, hrun]
        have hv : ∀ x : Mark, x &&& cfg.markScratch0 = 0 → x &&& cfg.markScratch1 = 0 → mark &&& x = 0 →
            mk cfg.markScratch0 cfg.markScratch1 (baseOf cfg.markScratch0 cfg.markScratch1 mark) pred t &&& x = 0 := by
          intro x hxA hxT hx
          rw [mk_and_other _ _ _ _ _ _ hxA hxT, baseOf_and_other _ _ _ _ hxA hxT, hx]
        rw [combine_exact cfg ctx env call pkt _ act _ rsc rest _ hact' hcomb mo.accNe mo.passNe mo.dropNe
          (fun h => hv _ mo.accA mo.accT (hmA h)) (fun h => hv _ mo.passA mo.passT (hmP h))
          (fun h => hv _ mo.dropA mo.dropT (hmD h))]
        obtain ⟨m2, hcalc2, hcl2⟩ := calc_exact env pkt
          (mk cfg.markScratch0 cfg.markScratch1 (baseOf cfg.markScratch0 cfg.markScratch1 mark) pred t) setName _ hs hi'
        have : m2 = m := by rw [hcalc] at hcalc2; exact (Option.some.inj hcalc2).symm
        subst this
        have hcm : clausesMatch env pkt
            (mk cfg.markScratch0 cfg.markScratch1 (baseOf cfg.markScratch0 cfg.markScratch1 mark) pred t)
            (m2 ++ [.mark false cfg.markScratch0 cfg.markScratch0]) =
            (netsMatch env rc pkt && restMatch env setName rc pkt) := by
          rw [clausesMatch_append, hcl2, ← hm]
          simp only [clausesMatch, List.all_cons, List.all_nil, Clause.matches, xorb, Bool.false_eq_true, if_false,
            Bool.and_true]
          rw [mk_testA _ _ _ _ _ mo.aNe mo.at_ hbA]
          exact Bool.and_comm _ _
        rw [hcm]

end CalicoVerif.C08
