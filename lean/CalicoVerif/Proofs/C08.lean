import CalicoVerif.Model.C08
/-! Helper lemmas for C08. -/
namespace CalicoVerif.C08
open CalicoVerif.Netfilter CalicoVerif.Policy

/-- outcome of a matching rule, given the mark on entry and the rules that follow -/
def actionOutcome (cfg : Cfg) (env : Env) (call : String → Mark → Result) (pkt : Packet)
    (rest : List Netfilter.Rule) (mark : Mark) : RuleAction → Result
  | .allow => .returned (mark ||| cfg.markAccept)
  | .pass => .returned (mark ||| cfg.markPass)
  | .deny => .verdict (if cfg.reject then .reject else .drop) (mark ||| cfg.markDrop)
  | .log => runRules env call pkt rest mark

theorem bit_test_set (mark mk : Mark) : ((mark ||| mk) &&& mk == mk) = true := by
  have : (mark ||| mk) &&& mk = mk := by
    ext i; simp only [BitVec.getElem_and, BitVec.getElem_or]
    cases mark[i] <;> cases mk[i] <;> rfl
  simp [this]

theorem bit_test_clear (mark mk : Mark) (h0 : mark &&& mk = 0) (hne : mk ≠ 0) :
    (mark &&& mk == mk) = false := by
  rw [h0]; simpa using Ne.symm hne

def clausesMatch (env : Env) (pkt : Packet) (mark : Mark) (cs : List Clause) : Bool :=
  cs.all (Clause.matches env pkt mark)

/-- `CombineMatchAndActionsForProtoRule` does what the action says when `m` matches, and
nothing (falls through to `rest` with the mark untouched) when it does not. -/
theorem combine_exact (cfg : Cfg) (ctx : Ctx) (env : Env) (call : String → Mark → Result)
    (pkt : Packet) (action : String) (act : RuleAction) (m : List Clause) (rs rest : List Netfilter.Rule)
    (mark : Mark)
    (hact : parseAction action = some act)
    (hrs : combineMatchAndActions cfg ctx action m = some rs)
    (hA : cfg.markAccept ≠ 0) (hP : cfg.markPass ≠ 0) (hD : cfg.markDrop ≠ 0)
    (hmA : mark &&& cfg.markAccept = 0) (hmP : mark &&& cfg.markPass = 0) (hmD : mark &&& cfg.markDrop = 0) :
    runRules env call pkt (rs ++ rest) mark =
      if clausesMatch env pkt mark m then actionOutcome cfg env call pkt rest mark act
      else runRules env call pkt rest mark := by
  unfold combineMatchAndActions at hrs
  rw [hact] at hrs
  simp only at hrs
  cases act
  · -- allow
    simp only [hA, ne_eq, not_false_eq_true, if_true] at hrs
    have hrs := Option.some.inj hrs; subst hrs
    by_cases hm : clausesMatch env pkt mark m = true
    · simp only [clausesMatch] at hm
      by_cases hfl : (!ctx.untracked && cfg.flowLogs) = true
      · simp [runRules, Rule.matches, hm, hfl, resolveAction, applyMark, Clause.matches, bit_test_set,
          xorb, clausesMatch, actionOutcome]
      · simp [runRules, Rule.matches, hm, hfl, resolveAction, applyMark, Clause.matches, bit_test_set,
          xorb, clausesMatch, actionOutcome]
    · have hm' : m.all (Clause.matches env pkt mark) = false := by simpa [clausesMatch] using hm
      have hb := bit_test_clear mark cfg.markAccept hmA hA
      by_cases hfl : (!ctx.untracked && cfg.flowLogs) = true
      · simp [runRules, Rule.matches, hm', hfl, Clause.matches, hb, xorb, clausesMatch]
      · simp [runRules, Rule.matches, hm', hfl, Clause.matches, hb, xorb, clausesMatch]
  · -- deny
    simp only [hD, ne_eq, not_false_eq_true, if_true] at hrs
    have hrs := Option.some.inj hrs; subst hrs
    by_cases hm : clausesMatch env pkt mark m = true
    · simp only [clausesMatch] at hm
      by_cases hfl : (!ctx.untracked && cfg.flowLogs) = true <;> cases hr : cfg.reject <;>
        simp [runRules, Rule.matches, hm, hfl, resolveAction, applyMark, Clause.matches, bit_test_set,
          xorb, clausesMatch, actionOutcome, denyAction, hr]
    · have hm' : m.all (Clause.matches env pkt mark) = false := by simpa [clausesMatch] using hm
      have hb := bit_test_clear mark cfg.markDrop hmD hD
      by_cases hfl : (!ctx.untracked && cfg.flowLogs) = true
      · simp [runRules, Rule.matches, hm', hfl, Clause.matches, hb, xorb, clausesMatch]
      · simp [runRules, Rule.matches, hm', hfl, Clause.matches, hb, xorb, clausesMatch]
  · -- pass
    simp only [hP, ne_eq, not_false_eq_true, if_true] at hrs
    have hrs := Option.some.inj hrs; subst hrs
    by_cases hm : clausesMatch env pkt mark m = true
    · simp only [clausesMatch] at hm
      by_cases hfl : (!ctx.untracked && cfg.flowLogs) = true
      · simp [runRules, Rule.matches, hm, hfl, resolveAction, applyMark, Clause.matches, bit_test_set,
          xorb, clausesMatch, actionOutcome]
      · simp [runRules, Rule.matches, hm, hfl, resolveAction, applyMark, Clause.matches, bit_test_set,
          xorb, clausesMatch, actionOutcome]
    · have hm' : m.all (Clause.matches env pkt mark) = false := by simpa [clausesMatch] using hm
      have hb := bit_test_clear mark cfg.markPass hmP hP
      by_cases hfl : (!ctx.untracked && cfg.flowLogs) = true
      · simp [runRules, Rule.matches, hm', hfl, Clause.matches, hb, xorb, clausesMatch]
      · simp [runRules, Rule.matches, hm', hfl, Clause.matches, hb, xorb, clausesMatch]
  · -- log
    simp only [ne_eq, not_true_eq_false, if_false, if_true] at hrs
    have hrs := Option.some.inj hrs; subst hrs
    by_cases hm : clausesMatch env pkt mark m = true
    · simp only [clausesMatch] at hm
      by_cases hl : cfg.logRateLimit = "" <;> cases hlp : env.limitPass <;>
        simp [runRules, Rule.matches, hm, hl, hlp, resolveAction, applyMark, Clause.matches, clausesMatch,
          actionOutcome]
    · have hm' : m.all (Clause.matches env pkt mark) = false := by simpa [clausesMatch] using hm
      by_cases hl : cfg.logRateLimit = "" <;>
        simp [runRules, Rule.matches, hm', hl, Clause.matches, clausesMatch]

/-! ### `SplitPortList` keeps every port, in order -/

def splitStep (st : List (List PortRange) × List PortRange × Nat) (pr : PortRange) :
    List (List PortRange) × List PortRange × Nat :=
  let need := if pr.first = pr.last then 1 else 2
  if st.2.2 < need then (st.1 ++ [st.2.1], [pr], 15 - need)
  else (st.1, st.2.1 ++ [pr], st.2.2 - need)

theorem splitPortList_eq (ports : List PortRange) :
    splitPortList ports =
      (let r := ports.foldl splitStep ([], [], 15); if r.2.1.isEmpty then r.1 else r.1 ++ [r.2.1]) := by
  unfold splitPortList
  have : (fun (st : List (List PortRange) × List PortRange × Nat) (pr : PortRange) =>
      match st with
      | (splits, cur, avail) =>
        let need := if pr.first = pr.last then 1 else 2
        if avail < need then (splits ++ [cur], [pr], 15 - need)
        else (splits, cur ++ [pr], avail - need)) = splitStep := by
    funext st pr; obtain ⟨a, b, c⟩ := st; rfl
  simp only [this]

theorem foldl_splitStep_flatten (ports : List PortRange) (st : List (List PortRange) × List PortRange × Nat) :
    let r := ports.foldl splitStep st
    r.1.flatten ++ r.2.1 = st.1.flatten ++ st.2.1 ++ ports := by
  induction ports generalizing st with
  | nil => simp
  | cons p ps ih =>
    simp only [List.foldl_cons]
    have := ih (splitStep st p)
    simp only at this ⊢
    rw [this]
    have hs : (splitStep st p).1.flatten ++ (splitStep st p).2.1 = st.1.flatten ++ st.2.1 ++ [p] := by
      unfold splitStep
      simp only
      split <;> split <;> simp
    rw [hs]; simp

theorem splitPortList_flatten (ports : List PortRange) : (splitPortList ports).flatten = ports := by
  rw [splitPortList_eq]
  have := foldl_splitStep_flatten ports ([], [], 15)
  simp only [List.flatten_nil, List.nil_append] at this
  simp only
  split
  · rename_i h
    have h' : (ports.foldl splitStep ([], [], 15)).2.1 = [] := by simpa using h
    rw [h', List.append_nil] at this
    exact this
  · simpa using this

theorem inRanges_flatten (ls : List (List PortRange)) (p : Nat) :
    inRanges ls.flatten p = ls.any (fun l => inRanges l p) := by
  simp [inRanges, List.any_flatten]

/-! ### `filterNets` / `FilterRuleToIPVersion` preserve the meaning of the rule -/

/-- the kernel agrees that the catch-all CIDRs contain every address -/
def EnvCatchAll (env : Env) : Prop :=
  ∀ a, env.netContains "0.0.0.0/0" a = true ∧ env.netContains "::/0" a = true

theorem any_netHas_filter (env : Env) (v6 : Bool) (nets : List String) (a : Nat) :
    (nets.filter (fun c => cidrIsV6 c == v6)).any (fun c => netHas env v6 c a) =
      nets.any (fun c => netHas env v6 c a) := by
  induction nets with
  | nil => rfl
  | cons c cs ih =>
    simp only [List.filter_cons, List.any_cons]
    by_cases h : (cidrIsV6 c == v6) = true
    · simp [h, ih]
    · have h' : (cidrIsV6 c == v6) = false := by simpa using h
      simp [h', ih, netHas]

theorem familyOK_filter (v6 : Bool) (nets : List String) :
    familyOK v6 (nets.filter (fun c => cidrIsV6 c == v6)) = true := by
  unfold familyOK
  cases h : nets.filter (fun c => cidrIsV6 c == v6) with
  | nil => simp
  | cons c cs =>
    have : c ∈ nets.filter (fun c => cidrIsV6 c == v6) := by rw [h]; exact List.mem_cons_self
    have hc := (List.mem_filter.1 this).2
    simp [hc]

theorem familyOK_iff (v6 : Bool) (nets : List String) :
    familyOK v6 nets = (nets.isEmpty || !(nets.filter (fun c => cidrIsV6 c == v6)).isEmpty) := by
  unfold familyOK
  congr 1
  induction nets with
  | nil => rfl
  | cons c cs ih =>
    simp only [List.any_cons, List.filter_cons]
    by_cases h : (cidrIsV6 c == v6) = true
    · simp [h]
    · have h' : (cidrIsV6 c == v6) = false := by simpa using h
      simp [h', ih]

theorem filterNets_pos (env : Env) (v6 : Bool) (nets : List String) (a : Nat) :
    ((filterNets nets v6 false).2 = true → familyOK v6 nets = false) ∧
    ((filterNets nets v6 false).2 = false →
      familyOK v6 nets = true ∧ familyOK v6 (filterNets nets v6 false).1 = true ∧
      ((filterNets nets v6 false).1.isEmpty || (filterNets nets v6 false).1.any (fun c => netHas env v6 c a)) =
        (nets.isEmpty || nets.any (fun c => netHas env v6 c a))) := by
  unfold filterNets
  by_cases hn : nets.isEmpty = true
  · have : nets = [] := by simpa using hn
    subst this; simp [familyOK]
  · have hn' : nets.isEmpty = false := by simpa using hn
    simp only [hn', Bool.false_eq_true, if_false, Bool.false_and]
    rw [familyOK_iff, hn']
    constructor
    · intro h; simp [h]
    · intro h
      refine ⟨by simp [h], familyOK_filter v6 nets, ?_⟩
      rw [any_netHas_filter, h]

theorem filterNets_neg (env : Env) (henv : EnvCatchAll env) (v6 : Bool) (nets : List String) (a : Nat) :
    ((filterNets nets v6 true).2 = true →
      (familyOK v6 nets && !nets.any (fun c => netHas env v6 c a)) = false) ∧
    ((filterNets nets v6 true).2 = false →
      familyOK v6 nets = true ∧ familyOK v6 (filterNets nets v6 true).1 = true ∧
      (filterNets nets v6 true).1.any (fun c => netHas env v6 c a) = nets.any (fun c => netHas env v6 c a)) := by
  unfold filterNets
  by_cases hn : nets.isEmpty = true
  · have : nets = [] := by simpa using hn
    subst this; simp [familyOK]
  · have hn' : nets.isEmpty = false := by simpa using hn
    simp only [hn', Bool.false_eq_true, if_false, Bool.true_and]
    by_cases hc : (nets.filter (fun c => cidrIsV6 c == v6)).any (fun c => isCatchAll c v6) = true
    · simp only [hc, if_true, true_implies, Bool.true_eq_false, false_implies, and_true]
      obtain ⟨c, hcm, hca⟩ := List.any_eq_true.1 hc
      have hcn := List.mem_filter.1 hcm
      have hhas : netHas env v6 c a = true := by
        simp only [netHas, hcn.2, Bool.true_and]
        simp only [isCatchAll, Bool.or_eq_true, Bool.and_eq_true, Bool.not_eq_true', beq_iff_eq] at hca
        rcases hca with ⟨_, h⟩ | ⟨_, h⟩
        · rw [h]; exact (henv a).1
        · rw [h]; exact (henv a).2
      have : nets.any (fun c => netHas env v6 c a) = true := List.any_eq_true.2 ⟨c, hcn.1, hhas⟩
      simp [this]
    · have hc' : (nets.filter (fun c => cidrIsV6 c == v6)).any (fun c => isCatchAll c v6) = false := by
        simpa using hc
      simp only [hc', Bool.false_eq_true, if_false]
      rw [familyOK_iff, hn']
      constructor
      · intro h; simp [h]
      · intro h
        exact ⟨by simp [h], familyOK_filter v6 nets, any_netHas_filter env v6 nets a⟩

theorem filterRule_preserves (env : Env) (henv : EnvCatchAll env) (setName : String → String)
    (r : Policy.Rule) (pkt : Packet) :
    ruleMatches env setName r pkt =
      match filterRuleToIPVersion pkt.v6 r with
      | none => false
      | some rc => ruleMatches env setName rc pkt := by
  have p1 := filterNets_pos env pkt.v6 r.srcNet pkt.src
  have p2 := filterNets_neg env henv pkt.v6 r.notSrcNet pkt.src
  have p3 := filterNets_pos env pkt.v6 r.dstNet pkt.dst
  have p4 := filterNets_neg env henv pkt.v6 r.notDstNet pkt.dst
  unfold filterRuleToIPVersion
  by_cases hv : r.ipVersion ≠ 0 ∧ r.ipVersion ≠ (if pkt.v6 = true then 6 else 4)
  · rw [if_pos hv]
    simp only [ruleMatches]
    have : (r.ipVersion == 0 || r.ipVersion == if pkt.v6 = true then 6 else 4) = false := by
      simp [hv.1, hv.2]
    simp [this]
  · rw [if_neg hv]
    have hv' : (r.ipVersion == 0 || r.ipVersion == if pkt.v6 = true then 6 else 4) = true := by
      simp only [Bool.or_eq_true, beq_iff_eq]
      by_cases h0 : r.ipVersion = 0
      · exact Or.inl h0
      · right
        by_cases h1 : r.ipVersion = if pkt.v6 = true then 6 else 4
        · exact h1
        · exact absurd ⟨h0, h1⟩ hv
    rcases hf1 : filterNets r.srcNet pkt.v6 false with ⟨sn, a1⟩
    rcases hf2 : filterNets r.notSrcNet pkt.v6 true with ⟨nsn, a2⟩
    rcases hf3 : filterNets r.dstNet pkt.v6 false with ⟨dn, a3⟩
    rcases hf4 : filterNets r.notDstNet pkt.v6 true with ⟨ndn, a4⟩
    rw [hf1] at p1; rw [hf2] at p2; rw [hf3] at p3; rw [hf4] at p4
    simp only at p1 p2 p3 p4 ⊢
    cases a1
    · cases a2
      · cases a3
        · cases a4
          · -- nothing filtered out completely: the filtered rule means the same
            obtain ⟨f1, g1, e1⟩ := p1.2 rfl
            obtain ⟨f2, g2, e2⟩ := p2.2 rfl
            obtain ⟨f3, g3, e3⟩ := p3.2 rfl
            obtain ⟨f4, g4, e4⟩ := p4.2 rfl
            simp only [Bool.false_eq_true, if_false, ruleMatches, netsMatch, restMatch,
              f1, f2, f3, f4, g1, g2, g3, g4, e1, e2, e3, e4]
          · have := p4.1 rfl
            simp only [Bool.false_eq_true, if_false, if_true, ruleMatches, netsMatch]
            simp only [Bool.and_eq_false_iff] at this ⊢
            rcases this with h | h
            · simp [h]
            · simp [h]
        · have := p3.1 rfl
          simp only [Bool.false_eq_true, if_false, if_true, ruleMatches, netsMatch]
          simp [this]
      · have := p2.1 rfl
        simp only [Bool.false_eq_true, if_false, if_true, ruleMatches, netsMatch]
        simp only [Bool.and_eq_false_iff] at this
        rcases this with h | h
        · simp [h]
        · simp [h]
    · have := p1.1 rfl
      simp only [if_true, ruleMatches, netsMatch]
      simp [this]

/-! ### `CalculateRuleMatch`: the clause list is the reference match -/

theorem clausesMatch_append (env : Env) (pkt : Packet) (mark : Mark) (a b : List Clause) :
    clausesMatch env pkt mark (a ++ b) = (clausesMatch env pkt mark a && clausesMatch env pkt mark b) := by
  simp [clausesMatch, List.all_append]

theorem clausesMatch_map {α : Type} (env : Env) (pkt : Packet) (mark : Mark) (l : List α) (f : α → Clause) :
    clausesMatch env pkt mark (l.map f) = l.all (fun x => (f x).matches env pkt mark) := by
  simp [clausesMatch, List.all_map, Function.comp_def]

theorem seg_proto (env : Env) (pkt : Packet) (mark : Mark) (p : Option Proto) :
    clausesMatch env pkt mark (protoClause false p) =
      (match p with | none => true | some p => protoIs env (protoTrunc p) pkt.proto) := by
  cases p <;> simp [protoClause, clausesMatch, Clause.matches, xorb]

theorem seg_notproto (env : Env) (pkt : Packet) (mark : Mark) (p : Option Proto) :
    clausesMatch env pkt mark (protoClause true p) =
      (match p with | none => true | some p => !protoIs env (protoTrunc p) pkt.proto) := by
  cases p <;> simp [protoClause, clausesMatch, Clause.matches, xorb]

def addrOf (d : Dir) (pkt : Packet) : Nat := match d with | .src => pkt.src | .dst => pkt.dst
def portOf (d : Dir) (pkt : Packet) : Nat := match d with | .src => pkt.sport | .dst => pkt.dport

theorem net_matches (env : Env) (pkt : Packet) (mark : Mark) (d : Dir) (neg : Bool) (c : String) :
    (Clause.net d neg c).matches env pkt mark = xorb neg (env.netContains c (addrOf d pkt)) := by
  cases d <;> rfl

theorem seg_net_pos (env : Env) (pkt : Packet) (mark : Mark) (d : Dir) (l : List String)
    (hl : l.length ≤ 1) (hf : ∀ c ∈ l, cidrIsV6 c = pkt.v6) :
    clausesMatch env pkt mark (l.map (.net d false)) =
      (l.isEmpty || l.any (fun c => netHas env pkt.v6 c (addrOf d pkt))) := by
  rcases l with _ | ⟨c, _ | ⟨c', cs⟩⟩
  · rfl
  · have := hf c List.mem_cons_self
    simp [clausesMatch, net_matches, xorb, netHas, this]
  · simp at hl

theorem seg_net_neg (env : Env) (pkt : Packet) (mark : Mark) (d : Dir) (l : List String)
    (hf : ∀ c ∈ l, cidrIsV6 c = pkt.v6) :
    clausesMatch env pkt mark (l.map (.net d true)) =
      !l.any (fun c => netHas env pkt.v6 c (addrOf d pkt)) := by
  induction l with
  | nil => rfl
  | cons c cs ih =>
    have h1 := hf c List.mem_cons_self
    have h2 := ih (fun c hc => hf c (List.mem_cons_of_mem _ hc))
    simp only [clausesMatch, List.map_cons, List.all_cons, List.any_cons, Bool.not_or] at h2 ⊢
    rw [h2]
    simp [net_matches, xorb, netHas, h1]

theorem familyOK_of_same (v6 : Bool) (l : List String) (hf : ∀ c ∈ l, cidrIsV6 c = v6) : familyOK v6 l = true := by
  rcases l with _ | ⟨c, cs⟩
  · rfl
  · simp [familyOK, hf c List.mem_cons_self]

theorem seg_ipset (env : Env) (pkt : Packet) (mark : Mark) (d : Dir) (neg : Bool) (setName : String → String)
    (l : List String) :
    clausesMatch env pkt mark (l.map (fun id => .ipset d neg (setName id))) =
      l.all (fun id => xorb neg (env.inIPSet (setName id) (addrOf d pkt))) := by
  rw [clausesMatch_map]; congr 1; funext id; cases d <;> rfl

theorem seg_ipportset (env : Env) (pkt : Packet) (mark : Mark) (d : Dir) (neg : Bool) (setName : String → String)
    (l : List String) :
    clausesMatch env pkt mark (l.map (fun id => .ipportset d neg (setName id))) =
      l.all (fun id => xorb neg (env.inIPPortSet (setName id) (addrOf d pkt) pkt.proto (portOf d pkt))) := by
  rw [clausesMatch_map]; congr 1; funext id; cases d <;> rfl

theorem ports_matches (env : Env) (pkt : Packet) (mark : Mark) (d : Dir) (neg : Bool) (rs : List PortRange) :
    (Clause.ports d neg rs).matches env pkt mark = (isPortProto pkt.proto && xorb neg (inRanges rs (portOf d pkt))) := by
  cases d <;> rfl

/-- positive ports: one multiport clause (if any numeric port) + the named-port sets, in the case
where no block is needed -/
theorem seg_ports_pos (env : Env) (pkt : Packet) (mark : Mark) (d : Dir) (setName : String → String)
    (ps : List PortRange) (named : List String) (h1 : named.length ≤ 1) (h2 : ps = [] ∨ named = []) :
    clausesMatch env pkt mark ((if ps.isEmpty then [] else [.ports d false ps]) ++
        named.map (fun id => .ipportset d false (setName id))) =
      portsMatch env setName ps named pkt.proto (addrOf d pkt) (portOf d pkt) := by
  rw [clausesMatch_append, seg_ipportset]
  rcases h2 with h | h
  · subst h
    rcases named with _ | ⟨n, _ | ⟨n', ns⟩⟩
    · simp [clausesMatch, portsMatch]
    · simp [clausesMatch, portsMatch, xorb, inRanges]
    · simp at h1
  · subst h
    by_cases hp : ps.isEmpty = true
    · simp [hp, clausesMatch, portsMatch]
    · have hp' : ps.isEmpty = false := by simpa using hp
      simp [hp', clausesMatch, portsMatch, ports_matches, xorb]

theorem splitPortList_eq_nil (ps : List PortRange) : splitPortList ps = [] ↔ ps = [] := by
  constructor
  · intro h; have := splitPortList_flatten ps; rw [h] at this; simpa using this.symm
  · intro h; subst h; simp [splitPortList]

theorem seg_ports_neg (env : Env) (pkt : Packet) (mark : Mark) (d : Dir) (ps : List PortRange) :
    clausesMatch env pkt mark ((splitPortList ps).map (.ports d true)) =
      (ps.isEmpty || (isPortProto pkt.proto && !inRanges ps (portOf d pkt))) := by
  rw [clausesMatch_map]
  by_cases hp : ps = []
  · subst hp; simp [splitPortList]
  · have hne : splitPortList ps ≠ [] := fun h => hp ((splitPortList_eq_nil ps).1 h)
    have hpe : ps.isEmpty = false := by simpa using hp
    rw [hpe, Bool.false_or]
    conv => rhs; rw [← splitPortList_flatten ps, inRanges_flatten]
    generalize splitPortList ps = ss at hne
    simp only [ports_matches, xorb, if_true]
    induction ss with
    | nil => exact absurd rfl hne
    | cons s rest ih =>
      rcases rest with _ | ⟨s', rest'⟩
      · simp
      · have := ih (by simp)
        simp only [List.all_cons, List.any_cons, Bool.not_or] at this ⊢
        rw [this]
        cases isPortProto pkt.proto <;> simp

theorem seg_icmp (env : Env) (pkt : Packet) (mark : Mark) (i : IcmpMatch) :
    clausesMatch env pkt mark (icmpClause pkt.v6 false i) = icmpMatches pkt i := by
  cases i <;> cases hd : env.dp <;>
    simp [icmpClause, clausesMatch, Clause.matches, icmpMatches, isIcmpPkt, xorb, hd, Bool.and_assoc]

theorem seg_noticmp (env : Env) (pkt : Packet) (mark : Mark) (i : IcmpMatch)
    (h : env.dp = .ipt ∨ ∀ t c, i ≠ .typeCode t c) :
    clausesMatch env pkt mark (icmpClause pkt.v6 true i) = notIcmpMatches pkt i := by
  cases i with
  | none => simp [icmpClause, clausesMatch, notIcmpMatches]
  | type t => cases hd : env.dp <;>
      simp [icmpClause, clausesMatch, Clause.matches, notIcmpMatches, isIcmpPkt, xorb, hd]
  | typeCode t c =>
    rcases h with h | h
    · simp [icmpClause, clausesMatch, Clause.matches, notIcmpMatches, isIcmpPkt, xorb, h]
    · exact absurd rfl (h t c)

theorem seg_ports_if (env : Env) (pkt : Packet) (mark : Mark) (d : Dir) (ps : List PortRange) :
    clausesMatch env pkt mark (if ps.isEmpty then [] else [.ports d false ps]) =
      (ps.isEmpty || (isPortProto pkt.proto && inRanges ps (portOf d pkt))) := by
  by_cases hp : ps.isEmpty = true
  · simp [hp, clausesMatch]
  · have hp' : ps.isEmpty = false := by simpa using hp
    simp [hp', clausesMatch, ports_matches, xorb]

theorem ports_simple (env : Env) (setName : String → String) (ps : List PortRange) (named : List String)
    (proto addr port : Nat) (h1 : named.length ≤ 1) (h2 : ps = [] ∨ named = []) :
    portsMatch env setName ps named proto addr port =
      ((ps.isEmpty || (isPortProto proto && inRanges ps port)) &&
        named.all (fun id => env.inIPPortSet (setName id) addr proto port)) := by
  rcases h2 with h | h
  · subst h
    rcases named with _ | ⟨n, _ | ⟨n', ns⟩⟩
    · simp [portsMatch]
    · simp [portsMatch, inRanges]
    · simp at h1
  · subst h
    by_cases hp : ps.isEmpty = true
    · simp [hp, portsMatch]
    · have hp' : ps.isEmpty = false := by simpa using hp
      simp [hp', portsMatch]

/-- a rule that `CalculateRuleMatch` can render in ONE netfilter rule (what is left after the
match blocks took the overflowing lists), with all CIDRs of the packet's family -/
structure Simple (v6 : Bool) (r : Policy.Rule) : Prop where
  sn : r.srcNet.length ≤ 1
  nsn : r.notSrcNet.length ≤ 1
  dn : r.dstNet.length ≤ 1
  ndn : r.notDstNet.length ≤ 1
  snp : r.srcNamedPortIpSetIds.length ≤ 1
  dnp : r.dstNamedPortIpSetIds.length ≤ 1
  sps : r.srcPorts = [] ∨ r.srcNamedPortIpSetIds = []
  dps : r.dstPorts = [] ∨ r.dstNamedPortIpSetIds = []
  fsn : ∀ c ∈ r.srcNet, cidrIsV6 c = v6
  fnsn : ∀ c ∈ r.notSrcNet, cidrIsV6 c = v6
  fdn : ∀ c ∈ r.dstNet, cidrIsV6 c = v6
  fndn : ∀ c ∈ r.notDstNet, cidrIsV6 c = v6

theorem calc_exact (env : Env) (pkt : Packet) (mark : Mark) (setName : String → String) (r : Policy.Rule)
    (hs : Simple pkt.v6 r) (hi : env.dp = .ipt ∨ ∀ t c, r.notIcmp ≠ .typeCode t c) :
    ∃ m, calculateRuleMatch setName pkt.v6 r = some m ∧
      clausesMatch env pkt mark m = (netsMatch env r pkt && restMatch env setName r pkt) := by
  unfold calculateRuleMatch
  have hnp : ¬ (r.srcNet.length > 1 ∨ r.dstNet.length > 1 ∨ r.notSrcNet.length > 1 ∨ r.notDstNet.length > 1 ∨
     r.srcNamedPortIpSetIds.length > 1 ∨ r.dstNamedPortIpSetIds.length > 1) := by
    have := hs.sn; have := hs.dn; have := hs.nsn; have := hs.ndn; have := hs.snp; have := hs.dnp
    omega
  rw [if_neg hnp]
  refine ⟨_, rfl, ?_⟩
  simp only [clausesMatch_append, seg_proto, seg_notproto, seg_net_pos env pkt mark _ _ hs.sn hs.fsn,
    seg_net_pos env pkt mark _ _ hs.dn hs.fdn, seg_net_neg env pkt mark _ _ hs.fnsn,
    seg_net_neg env pkt mark _ _ hs.fndn, seg_ipset, seg_ipportset, seg_ports_if, seg_ports_neg,
    seg_icmp, seg_noticmp env pkt mark _ hi, addrOf, portOf, xorb, Bool.false_eq_true, if_false, if_true]
  simp only [netsMatch, restMatch, familyOK_of_same _ _ hs.fsn, familyOK_of_same _ _ hs.fnsn,
    familyOK_of_same _ _ hs.fdn, familyOK_of_same _ _ hs.fndn, Bool.true_and,
    ports_simple env setName _ _ _ _ _ hs.snp hs.sps, ports_simple env setName _ _ _ _ _ hs.dnp hs.dps]
  ac_rfl

/-! ### mark-bit algebra of the match blocks -/

theorem and_zero_bit {x y : Mark} (h : x &&& y = 0) (i : Nat) (hi : i < 32) : (x[i] && y[i]) = false := by
  have := congrArg (fun v : Mark => v[i]) h
  simpa using this

/-- mark with the AllBlocks bit(s) `A` equal to `a` and the ThisBlock bit(s) `T` equal to `t` -/
def mk (A T base : Mark) (a t : Bool) : Mark :=
  base ||| (if a then A else 0) ||| (if t then T else 0)

theorem mk_setA (A T base : Mark) (a t : Bool) : mk A T base a t ||| A = mk A T base true t := by
  unfold mk; ext i hi
  cases a <;> cases t <;> simp <;> cases base[i] <;> cases A[i] <;> cases T[i] <;> simp

theorem mk_setT (A T base : Mark) (a t : Bool) : mk A T base a t ||| T = mk A T base a true := by
  unfold mk; ext i hi
  cases a <;> cases t <;> simp <;> cases base[i] <;> cases A[i] <;> cases T[i] <;> simp

theorem mk_clearA (A T base : Mark) (a t : Bool) (hAT : A &&& T = 0) (hb : base &&& A = 0) :
    mk A T base a t &&& ~~~ A = mk A T base false t := by
  unfold mk; ext i hi
  have h1 := and_zero_bit hAT i hi
  have h2 := and_zero_bit hb i hi
  cases a <;> cases t <;> simp <;> revert h1 h2 <;> cases base[i] <;> cases A[i] <;> cases T[i] <;> simp

theorem mk_and_A (A T base : Mark) (a t : Bool) (hAT : A &&& T = 0) (hb : base &&& A = 0) :
    mk A T base a t &&& A = if a then A else 0 := by
  unfold mk; ext i hi
  have h1 := and_zero_bit hAT i hi
  have h2 := and_zero_bit hb i hi
  cases a <;> cases t <;> simp <;> revert h1 h2 <;> cases base[i] <;> cases A[i] <;> cases T[i] <;> simp

theorem mk_and_T (A T base : Mark) (a t : Bool) (hAT : A &&& T = 0) (hb : base &&& T = 0) :
    mk A T base a t &&& T = if t then T else 0 := by
  unfold mk; ext i hi
  have h1 := and_zero_bit hAT i hi
  have h2 := and_zero_bit hb i hi
  cases a <;> cases t <;> simp <;> revert h1 h2 <;> cases base[i] <;> cases A[i] <;> cases T[i] <;> simp

theorem mk_testA (A T base : Mark) (a t : Bool) (hA : A ≠ 0) (hAT : A &&& T = 0) (hb : base &&& A = 0) :
    (mk A T base a t &&& A == A) = a := by
  rw [mk_and_A A T base a t hAT hb]
  cases a
  · simpa using Ne.symm hA
  · simp

theorem mk_testT_clear (A T base : Mark) (a t : Bool) (hT : T ≠ 0) (hAT : A &&& T = 0) (hb : base &&& T = 0) :
    (mk A T base a t &&& T == 0) = !t := by
  rw [mk_and_T A T base a t hAT hb]
  cases t
  · simp
  · simpa using hT

/-- other bits are untouched -/
theorem mk_and_other (A T base x : Mark) (a t : Bool) (hxA : x &&& A = 0) (hxT : x &&& T = 0) :
    mk A T base a t &&& x = base &&& x := by
  unfold mk; ext i hi
  have h1 := and_zero_bit hxA i hi
  have h2 := and_zero_bit hxT i hi
  cases a <;> cases t <;> simp <;> revert h1 h2 <;> cases base[i] <;> cases A[i] <;> cases T[i] <;> cases x[i] <;> simp

def baseOf (A T m : Mark) : Mark := m &&& ~~~ (A ||| T)

theorem baseOf_and_A (A T m : Mark) : baseOf A T m &&& A = 0 := by
  unfold baseOf; ext i hi; simp <;> cases m[i] <;> cases A[i] <;> cases T[i] <;> simp

theorem baseOf_and_T (A T m : Mark) : baseOf A T m &&& T = 0 := by
  unfold baseOf; ext i hi; simp <;> cases m[i] <;> cases A[i] <;> cases T[i] <;> simp

theorem baseOf_and_other (A T m x : Mark) (hxA : x &&& A = 0) (hxT : x &&& T = 0) :
    baseOf A T m &&& x = m &&& x := by
  unfold baseOf; ext i hi
  have h1 := and_zero_bit hxA i hi
  have h2 := and_zero_bit hxT i hi
  simp <;> revert h1 h2 <;> cases m[i] <;> cases A[i] <;> cases T[i] <;> cases x[i] <;> simp

theorem baseOf_mk (A T base : Mark) (a t : Bool) (hA : base &&& A = 0) (hT : base &&& T = 0) :
    baseOf A T (mk A T base a t) = base := by
  unfold baseOf mk; ext i hi
  have h1 := and_zero_bit hA i hi
  have h2 := and_zero_bit hT i hi
  cases a <;> cases t <;> simp <;> revert h1 h2 <;> cases base[i] <;> cases A[i] <;> cases T[i] <;> simp

/-- the initial "reset" rule, on either dataplane, for `v = 0` or `v = A` -/
theorem init_mark (dp : Dataplane) (A T m : Mark) (setA : Bool) :
    applyMark dp m (.setMaskedMark (if setA then A else 0) (A ||| T)) = mk A T (baseOf A T m) setA false := by
  unfold mk baseOf
  cases dp <;> cases setA <;> simp only [applyMark] <;> ext i hi <;> simp <;>
    cases m[i] <;> cases A[i] <;> cases T[i] <;> simp

/-! ### evaluating match blocks -/

def markFree : Clause → Bool
  | .mark _ _ _ => false
  | _ => true

theorem matches_markFree (env : Env) (pkt : Packet) (c : Clause) (h : markFree c = true) (m1 m2 : Mark) :
    c.matches env pkt m1 = c.matches env pkt m2 := by
  cases c with
  | mark => simp [markFree] at h
  | net d => cases d <;> rfl
  | ipset d => cases d <;> rfl
  | ipportset d => cases d <;> rfl
  | ports d => cases d <;> rfl
  | _ => rfl

theorem clausesMatch_markFree (env : Env) (pkt : Packet) (cs : List Clause) (h : cs.all markFree = true)
    (m1 m2 : Mark) : clausesMatch env pkt m1 cs = clausesMatch env pkt m2 cs := by
  induction cs with
  | nil => rfl
  | cons c cs ih =>
    simp only [List.all_cons, Bool.and_eq_true] at h
    simp only [clausesMatch, List.all_cons] at ih ⊢
    rw [matches_markFree env pkt c h.1 m1 m2, ih h.2]

def setter (x : Mark) (cs : List Clause) : Netfilter.Rule := { clauses := cs, action := .setMark x }
def clearer (x : Mark) (cs : List Clause) : Netfilter.Rule := { clauses := cs, action := .clearMark x }

theorem run_setters (env : Env) (call : String → Mark → Result) (pkt : Packet) (x : Mark)
    (l : List (List Clause)) (hl : ∀ cs ∈ l, cs.all markFree = true) (rest : List Netfilter.Rule) (m : Mark) :
    runRules env call pkt (l.map (setter x) ++ rest) m =
      runRules env call pkt rest (if l.any (clausesMatch env pkt 0) then m ||| x else m) := by
  induction l generalizing m with
  | nil => simp
  | cons cs l ih =>
    have hcs := hl cs List.mem_cons_self
    have hl' : ∀ cs ∈ l, cs.all markFree = true := fun c hc => hl c (List.mem_cons_of_mem _ hc)
    simp only [List.map_cons, List.cons_append, List.any_cons]
    rw [runRules]
    have hm : (setter x cs).matches env pkt m = clausesMatch env pkt 0 cs := by
      simp only [setter, Rule.matches]; exact clausesMatch_markFree env pkt cs hcs m 0
    rw [hm]
    by_cases h : clausesMatch env pkt 0 cs = true
    · simp only [h, if_true, setter, resolveAction, applyMark, Bool.true_or]
      rw [ih hl']
      have : (m ||| x) ||| x = m ||| x := by rw [BitVec.or_assoc, BitVec.or_self]
      split <;> simp [this]
    · have h' : clausesMatch env pkt 0 cs = false := by simpa using h
      simp only [h', Bool.false_eq_true, if_false, Bool.false_or]
      exact ih hl' m

theorem run_clearers (env : Env) (call : String → Mark → Result) (pkt : Packet) (x : Mark)
    (l : List (List Clause)) (hl : ∀ cs ∈ l, cs.all markFree = true) (rest : List Netfilter.Rule) (m : Mark) :
    runRules env call pkt (l.map (clearer x) ++ rest) m =
      runRules env call pkt rest (if l.any (clausesMatch env pkt 0) then m &&& ~~~ x else m) := by
  induction l generalizing m with
  | nil => simp
  | cons cs l ih =>
    have hcs := hl cs List.mem_cons_self
    have hl' : ∀ cs ∈ l, cs.all markFree = true := fun c hc => hl c (List.mem_cons_of_mem _ hc)
    simp only [List.map_cons, List.cons_append, List.any_cons]
    rw [runRules]
    have hm : (clearer x cs).matches env pkt m = clausesMatch env pkt 0 cs := by
      simp only [clearer, Rule.matches]; exact clausesMatch_markFree env pkt cs hcs m 0
    rw [hm]
    by_cases h : clausesMatch env pkt 0 cs = true
    · simp only [h, if_true, clearer, resolveAction, applyMark, Bool.true_or]
      rw [ih hl']
      have : (m &&& ~~~ x) &&& ~~~ x = m &&& ~~~ x := by rw [BitVec.and_assoc, BitVec.and_self]
      split <;> simp [this]
    · have h' : clausesMatch env pkt 0 cs = false := by simpa using h
      simp only [h', Bool.false_eq_true, if_false, Bool.false_or]
      exact ih hl' m

/-! ### the builder invariant -/

/-- `b.rules`, run from any mark, leave AllBlocksPass = `pred` (a packet-only predicate); `npos`
positive blocks have been appended; ThisBlockPass is still clear while `npos ≤ 1`. -/
structure BInv (env : Env) (call : String → Mark → Result) (pkt : Packet) (cfg : Cfg) (b : MBB)
    (npos : Nat) (pred : Bool) : Prop where
  idle : b.usingBlocks = false → b.rules = [] ∧ npos = 0 ∧ pred = true
  run : b.usingBlocks = true → ∀ rest m, ∃ t, (npos ≤ 1 → t = false) ∧
      runRules env call pkt (b.rules ++ rest) m =
        runRules env call pkt rest
          (mk cfg.markScratch0 cfg.markScratch1 (baseOf cfg.markScratch0 cfg.markScratch1 m) pred t)
  done : b.doneFirstPositive = decide (1 ≤ npos)

theorem BInv.empty (env : Env) (call : String → Mark → Result) (pkt : Packet) (cfg : Cfg) :
    BInv env call pkt cfg {} 0 true :=
  ⟨fun _ => ⟨rfl, rfl, rfl⟩, fun h => by simp at h, rfl⟩

def posAppend (cfg : Cfg) (b : MBB) (l : List (List Clause)) : MBB :=
  let b1 := b.maybeInit cfg 0
  ({ b1 with rules := b1.rules ++ l.map (setter (b1.markToSet cfg)) }).finishPositive cfg

def negAppend (cfg : Cfg) (b : MBB) (l : List (List Clause)) : MBB :=
  let b1 := b.maybeInit cfg cfg.markScratch0
  { b1 with rules := b1.rules ++ l.map (clearer cfg.markScratch0) }

theorem runRules_init (env : Env) (call : String → Mark → Result) (pkt : Packet) (cfg : Cfg) (setA : Bool)
    (rest : List Netfilter.Rule) (m : Mark) :
    runRules env call pkt
      (({ action := .setMaskedMark (if setA then cfg.markScratch0 else 0) (cfg.markScratch0 ||| cfg.markScratch1) } : Netfilter.Rule) :: rest) m =
      runRules env call pkt rest
        (mk cfg.markScratch0 cfg.markScratch1 (baseOf cfg.markScratch0 cfg.markScratch1 m) setA false) := by
  rw [runRules]
  simp only [Rule.matches, List.all_nil, if_true, resolveAction]
  rw [init_mark]

theorem pos_inv (env : Env) (call : String → Mark → Result) (pkt : Packet) (cfg : Cfg)
    (hT : cfg.markScratch1 ≠ 0) (hAT : cfg.markScratch0 &&& cfg.markScratch1 = 0)
    (b : MBB) (npos : Nat) (pred : Bool) (l : List (List Clause))
    (hl : ∀ cs ∈ l, cs.all markFree = true)
    (hfresh : npos = 0 → b.usingBlocks = false) (hn : npos ≤ 1)
    (inv : BInv env call pkt cfg b npos pred) :
    BInv env call pkt cfg (posAppend cfg b l) (npos + 1) (pred && l.any (clausesMatch env pkt 0)) := by
  rcases Nat.lt_or_ge npos 1 with h0 | h1
  · -- first positive block of a fresh builder
    have hz : npos = 0 := by omega
    subst hz
    have hu := hfresh rfl
    obtain ⟨hr, _, hp⟩ := inv.idle hu
    have hd : b.doneFirstPositive = false := by simpa using inv.done
    subst hp
    have hb : posAppend cfg b l =
        { usingBlocks := true, doneFirstPositive := true,
          rules := ({ action := .setMaskedMark 0 (cfg.markScratch0 ||| cfg.markScratch1) } : Netfilter.Rule) ::
            l.map (setter cfg.markScratch0) } := by
      simp [posAppend, MBB.maybeInit, MBB.markToSet, MBB.finishPositive, hu, hr, hd]
    rw [hb]
    refine ⟨fun h => by simp at h, ?_, by simp⟩
    intro _ rest m
    refine ⟨false, fun _ => rfl, ?_⟩
    simp only [List.cons_append]
    have := runRules_init env call pkt cfg false (l.map (setter cfg.markScratch0) ++ rest) m
    simp only [Bool.false_eq_true, if_false] at this
    rw [this, run_setters env call pkt _ l hl]
    simp only [Bool.true_and]
    split
    · rename_i h; rw [h, mk_setA]
    · rename_i h; have h' : l.any (clausesMatch env pkt 0) = false := by simpa using h
      rw [h']
  · -- second positive block
    have hone : npos = 1 := by omega
    subst hone
    have hd : b.doneFirstPositive = true := by simpa using inv.done
    have hu : b.usingBlocks = true := by
      cases h : b.usingBlocks
      · have := (inv.idle h).2.1; omega
      · rfl
    have hb : posAppend cfg b l =
        { b with rules := b.rules ++ l.map (setter cfg.markScratch1) ++
            [({ clauses := [.mark false 0 cfg.markScratch1], action := .clearMark cfg.markScratch0 } : Netfilter.Rule)] } := by
      simp [posAppend, MBB.maybeInit, MBB.markToSet, MBB.finishPositive, hu, hd]
    rw [hb]
    refine ⟨fun h => by simp [hu] at h, ?_, by simpa using hd⟩
    intro _ rest m
    obtain ⟨t, ht, hrun⟩ := inv.run hu
      (l.map (setter cfg.markScratch1) ++
        ({ clauses := [.mark false 0 cfg.markScratch1], action := .clearMark cfg.markScratch0 } : Netfilter.Rule) :: rest) m
    have ht := ht (by omega)
    subst ht
    refine ⟨l.any (clausesMatch env pkt 0), fun h => by omega, ?_⟩
    simp only [List.append_assoc, List.cons_append, List.nil_append] at hrun ⊢
    rw [hrun, run_setters env call pkt _ l hl]
    have hbT := baseOf_and_T cfg.markScratch0 cfg.markScratch1 m
    have hbA := baseOf_and_A cfg.markScratch0 cfg.markScratch1 m
    by_cases hany : l.any (clausesMatch env pkt 0) = true
    · simp only [hany, if_true, mk_setT, Bool.and_true]
      rw [runRules]
      have : (Rule.matches env pkt
          (mk cfg.markScratch0 cfg.markScratch1 (baseOf cfg.markScratch0 cfg.markScratch1 m) pred true)
          ({ clauses := [.mark false 0 cfg.markScratch1], action := .clearMark cfg.markScratch0 } : Netfilter.Rule)) = false := by
        simp only [Rule.matches, List.all_cons, List.all_nil, Clause.matches, xorb, Bool.false_eq_true, if_false,
          Bool.and_true]
        rw [mk_testT_clear _ _ _ _ _ hT hAT hbT]; rfl
      rw [if_neg (by rw [this]; exact Bool.false_ne_true)]
    · have hany' : l.any (clausesMatch env pkt 0) = false := by simpa using hany
      simp only [hany', Bool.false_eq_true, if_false, Bool.and_false]
      rw [runRules]
      have : (Rule.matches env pkt
          (mk cfg.markScratch0 cfg.markScratch1 (baseOf cfg.markScratch0 cfg.markScratch1 m) pred false)
          ({ clauses := [.mark false 0 cfg.markScratch1], action := .clearMark cfg.markScratch0 } : Netfilter.Rule)) = true := by
        simp only [Rule.matches, List.all_cons, List.all_nil, Clause.matches, xorb, Bool.false_eq_true, if_false,
          Bool.and_true]
        rw [mk_testT_clear _ _ _ _ _ hT hAT hbT]; rfl
      rw [if_pos this]
      simp only [resolveAction, applyMark]
      rw [mk_clearA _ _ _ _ _ hAT hbA]

theorem neg_inv (env : Env) (call : String → Mark → Result) (pkt : Packet) (cfg : Cfg)
    (hAT : cfg.markScratch0 &&& cfg.markScratch1 = 0)
    (b : MBB) (npos : Nat) (pred : Bool) (l : List (List Clause))
    (hl : ∀ cs ∈ l, cs.all markFree = true)
    (inv : BInv env call pkt cfg b npos pred) :
    BInv env call pkt cfg (negAppend cfg b l) npos (pred && !l.any (clausesMatch env pkt 0)) := by
  cases hu : b.usingBlocks
  · obtain ⟨hr, hz, hp⟩ := inv.idle hu
    subst hz; subst hp
    have hb : negAppend cfg b l =
        { usingBlocks := true, doneFirstPositive := b.doneFirstPositive,
          rules := ({ action := .setMaskedMark cfg.markScratch0 (cfg.markScratch0 ||| cfg.markScratch1) } : Netfilter.Rule) ::
            l.map (clearer cfg.markScratch0) } := by
      simp [negAppend, MBB.maybeInit, hu, hr]
    rw [hb]
    refine ⟨fun h => by simp at h, ?_, inv.done⟩
    intro _ rest m
    refine ⟨false, fun _ => rfl, ?_⟩
    simp only [List.cons_append]
    have := runRules_init env call pkt cfg true (l.map (clearer cfg.markScratch0) ++ rest) m
    simp only [if_true] at this
    rw [this, run_clearers env call pkt _ l hl]
    have hbA := baseOf_and_A cfg.markScratch0 cfg.markScratch1 m
    simp only [Bool.true_and]
    split
    · rename_i h; rw [h, mk_clearA _ _ _ _ _ hAT hbA]; rfl
    · rename_i h; have h' : l.any (clausesMatch env pkt 0) = false := by simpa using h
      rw [h']; rfl
  · have hb : negAppend cfg b l = { b with rules := b.rules ++ l.map (clearer cfg.markScratch0) } := by
      simp [negAppend, MBB.maybeInit, hu]
    rw [hb]
    refine ⟨fun h => by simp [hu] at h, ?_, inv.done⟩
    intro _ rest m
    obtain ⟨t, ht, hrun⟩ := inv.run hu (l.map (clearer cfg.markScratch0) ++ rest) m
    refine ⟨t, ht, ?_⟩
    simp only [List.append_assoc] at hrun ⊢
    rw [hrun, run_clearers env call pkt _ l hl]
    have hbA := baseOf_and_A cfg.markScratch0 cfg.markScratch1 m
    split
    · rename_i h; rw [h, mk_clearA _ _ _ _ _ hAT hbA]; simp
    · rename_i h; have h' : l.any (clausesMatch env pkt 0) = false := by simpa using h
      rw [h']; simp

end CalicoVerif.C08
