import CalicoVerif.Proofs.C33Gen
import CalicoVerif.Proofs.C33Order
/-! C33: from slot indices to backend names; glue for the property theorems. -/
namespace CalicoVerif.C33

/-- For a prime size `permutation` cannot panic and what it returns is a bijection of the slots. -/
theorem permutation_ok_valid {m : Nat} (hm : IsPrime m) (e : Endian) (hs : Hashes) (s : List Nat) :
    permutation e hs m s ≠ .panic ∧ ∀ p, permutation e hs m s = .ok p → ValidPerm m p := by
  have h2 := hm.1
  unfold permutation offsetAndSkip
  cases hashFromString e hs.h1 [0] s with
  | none => simp
  | some o =>
    cases hashFromString e hs.h2 [10] s with
    | none => simp
    | some k =>
      have hnot : ¬ m < 2 := by omega
      simp only [hnot, if_false]
      refine ⟨by simp, ?_⟩
      intro p hp
      simp only [Res.ok.injEq] at hp
      subst hp
      have : k % (m - 1) < m - 1 := Nat.mod_lt _ (by omega)
      exact permOf_valid hm (by omega) (by omega)

/-- Count of a backend's name in the table = count of its index in the slot array. -/
theorem count_namesOfLut {sorted : List (List Nat)} (hnd : sorted.Nodup) {i : Nat} (hi : i < sorted.length) :
    ∀ (lut : List (Option Nat)), (∀ o ∈ lut, ∃ b, o = some b ∧ b < sorted.length) →
      (namesOfLut sorted lut).count sorted[i] = lut.count (some i) := by
  intro lut
  induction lut with
  | nil => intro _; simp [namesOfLut]
  | cons o t ih =>
    intro h
    obtain ⟨b, rfl, hb⟩ := h o List.mem_cons_self
    have iht := ih (fun o ho => h o (List.mem_cons_of_mem _ ho))
    unfold namesOfLut at iht ⊢
    simp only [List.map_cons, List.count_cons, iht]
    congr 1
    have hinj := List.getD_inj (fallback := ([] : List Nat)) hb hi hnd
    have hgi : sorted.getD i [] = sorted[i] := by
      simp [List.getD_eq_getElem?_getD, List.getElem?_eq_getElem hi]
    by_cases hbi : b = i
    · subst hbi; rw [hgi]; simp
    · have h1 : (sorted.getD b [] == sorted[i]) = false := by
        rw [beq_eq_false_iff_ne, ← hgi]; exact fun h => hbi (hinj.1 h)
      have h2 : (some b == some i) = false := by
        rw [beq_eq_false_iff_ne]; simpa using hbi
      rw [h1, h2]

theorem tableWith_eq (perm : List Nat → Res (List Nat)) (m : Nat) (arrivals : List (List Nat)) :
    tableWith perm m arrivals =
      ((addBackends perm [] arrivals).map sortNames).bind
        (fun sorted => (generate (permsOf perm sorted) m).map (namesOfLut sorted)) := by
  unfold tableWith
  cases addBackends perm [] arrivals <;> rfl

end CalicoVerif.C33
