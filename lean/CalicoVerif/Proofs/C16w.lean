import CalicoVerif.Proofs.C16v
set_option linter.unusedSimpArgs false
namespace CalicoVerif.C16

/-- Well-formedness of the desired state (an invariant of the API, see `DesOK` preservation below). -/
structure DesOK (c : Cfg) (F : Felix) : Prop where
  notTemp : ∀ n, F.desired.has n = true → c.isTemp n = false
  owned : ∀ n, F.desired.has n = true → c.owns n = true
  inAll : ∀ n, F.desired.has n = true → F.allMeta.has n = true
  tracked : ∀ n, F.allMeta.has n = true → F.members.has n = true
  needed : ∀ n, F.desired.has n = true → F.needed n = true
  allOwned : ∀ n, F.allMeta.has n = true → c.owns n = true
  allNotTemp : ∀ n, F.allMeta.has n = true → c.isTemp n = false

theorem listNames_desc (w : W) :
    (w.listNames).1.K = w.K ∧ (w.listNames).1.F = w.F ∧ (w.listNames).1.cfg = w.cfg ∧
    ((w.listNames).2 = none ∨ (w.listNames).2 = some (w.K.keys.filter w.cfg.owns)) := by
  unfold W.listNames
  split <;> (dsimp only; split <;> simp)

structure ResyncPost (w w' : W) : Prop where
  K : w'.K = w.K
  cfg : w'.cfg = w.cfg
  fixed : Fixed w.F w'.F
  winv : WInv w.cfg w'.F w'.K
  dirtyOK : DirtyOK w'.F
  cov : Cov w.cfg w'.F w'.K
  dpOwned : ∀ b, w'.F.dp.has b = true → w.cfg.owns b = true
  qOwned : (∀ x ∈ w'.F.qMust, w.cfg.owns x = true) ∧ (∀ x ∈ w'.F.qBg, w.cfg.owns x = true)
  desKeep : ∀ n des, w.F.allMeta.has n = true → Tracked w.F n des → Tracked w'.F n des

theorem mem_listed {w : W} {n : String} : n ∈ w.K.keys.filter w.cfg.owns ↔ w.K.has n = true ∧ w.cfg.owns n = true := by
  rw [List.mem_filter, Map.has_iff_mem_keys]

theorem tracked_of_has {F : Felix} {n : String} (h : F.members.has n = true) : ∃ t, Tracked F n t.des ∧ F.members.get n = some t := by
  obtain ⟨t, ht⟩ := Map.get_isSome_of_has h
  exact ⟨t, ⟨t, ht, rfl⟩, ht⟩

/-- **After a successful full resync** (start of day, restart, or after persistent failures): Felix's
view of every desired set is accurate, its dirtiness is fresh, and every owned set in the kernel
is in the view. -/
theorem fullResync_post (w : W) (hok : DesOK w.cfg w.F) (hfull : w.F.fullReq = true)
    (hres : (w.tryResync).2 = false) : ResyncPost w (w.tryResync).1 := by
  unfold W.tryResync at hres ⊢
  simp only [hfull, Bool.true_or, if_true] at hres ⊢
  unfold W.beginResync at hres ⊢
  simp only [if_true] at hres ⊢
  generalize hw0 : ({ w with F := { w.F with qMust := [], qBg := [], dp := [] } } : W) = w0 at hres ⊢
  obtain ⟨lK, lF, lc, lres⟩ := listNames_desc w0
  have hw0K : w0.K = w.K := by rw [← hw0]
  have hw0c : w0.cfg = w.cfg := by rw [← hw0]
  have hw0F : w0.F = { w.F with qMust := [], qBg := [], dp := [] } := by rw [← hw0]
  generalize w0.listNames = ln at hres lK lF lc lres ⊢
  obtain ⟨w1, lo⟩ := ln
  dsimp only at lK lF lc lres hres ⊢
  rcases lres with rfl | rfl
  · simp at hres
  · dsimp only at hres ⊢
    rw [hw0K, hw0c] at hres ⊢
    generalize hlisted : w.K.keys.filter w.cfg.owns = listed at hres ⊢
    have hlist : ∀ n, n ∈ listed ↔ w.K.has n = true ∧ w.cfg.owns n = true := by
      intro n; rw [← hlisted]; exact mem_listed
    -- the state after the listing
    have hF1 : w1.F = { w.F with qMust := [], qBg := [], dp := [] } := lF.trans hw0F
    have hK1 : w1.K = w.K := lK.trans hw0K
    have hc1 : w1.cfg = w.cfg := lc.trans hw0c
    generalize hF2 : w1.F.afterListing listed true = F2 at hres ⊢
    -- facts about F2
    have hFa := qAddAll_qonly true (sortS listed) w1.F
    have hFaq := qAddAll_must_mem (sortS listed) w1.F
    have hFab := qAddAll_bg_sub (sortS listed) w1.F
    generalize hFaDef : (sortS listed).foldl (fun F n => F.qAdd n true) w1.F = Fa at hFa hFaq hFab
    have hF2eq : F2 = { (Fa.sweep listed) with bgReq := false } := by
      rw [← hF2, ← hFaDef]; simp [Felix.afterListing]
    have fixA : Fixed w.F Fa := by
      refine ⟨hFa.1.trans (by rw [hF1]), hFa.2.1.trans (by rw [hF1]), hFa.2.2.2.2.2.1.trans (by rw [hF1]),
        hFa.2.2.2.2.2.2.1.trans (by rw [hF1])⟩
    have hFamem : Fa.members = w.F.members := hFa.2.2.2.1.trans (by rw [hF1])
    have hFadp : Fa.dp = [] := hFa.2.2.1.trans (by rw [hF1])
    generalize hcands : ((Fa.members.keys ++ Fa.dp.keys ++ Fa.desired.keys).eraseDups.filter
        (fun n => !(listed.contains n))) = cands at *
    have hsweep : Fa.sweep listed = cands.foldl Felix.onMissing Fa := by
      rw [← hcands]; rfl
    obtain ⟨sq1, sq2, sq3⟩ := sweep_fold_queues cands Fa
    have hF2dp : ∀ b, F2.dp.has b = false := by
      intro b
      cases hb : F2.dp.has b with
      | false => rfl
      | true =>
        rw [hF2eq] at hb
        have := sq3 b (by rw [hsweep] at hb; exact hb)
        rw [hFadp] at this; simp [Map.has, Map.get, List.lookup] at this
    have hF2qm : ∀ x, x ∈ F2.qMust ↔ x ∈ listed := by
      intro x
      rw [hF2eq]
      show x ∈ (Fa.sweep listed).qMust ↔ _
      rw [hsweep, sq1, hFaq, hF1]
      simp only [List.not_mem_nil, false_or, mem_sortS]
      constructor
      · exact fun h => h.1
      · intro hx
        refine ⟨hx, ?_⟩
        rw [← hcands]
        intro hc'
        have := (List.mem_filter.1 hc').2
        simp [hx] at this
    have hF2qb : ∀ x, x ∉ F2.qBg := by
      intro x hx
      rw [hF2eq] at hx
      have h1 : x ∈ (Fa.sweep listed).qBg := hx
      rw [hsweep] at h1
      have := hFab x (sq2 x h1)
      rw [hF1] at this; simp at this
    -- per desired name: tracked, and good if absent from the kernel
    have hpre : ∀ n des, w.F.allMeta.has n = true → Tracked w.F n des →
        Fixed w.F F2 ∧ Tracked F2 n des ∧
        (w.F.needed n = true → n ∉ listed → GoodNone F2 n des) := by
      intro n des ha htr
      have htrA : Tracked Fa n des := by
        obtain ⟨t, ht, hd⟩ := htr
        exact ⟨t, by rw [hFamem]; exact ht, hd⟩
      have hsf := fun hneed => sweep_fold (F0 := w.F) (n := n) (des := des) ha hneed cands Fa fixA htrA
      have hfix2 : Fixed w.F F2 := by
        rw [hF2eq]
        have : Fixed w.F (cands.foldl Felix.onMissing Fa) := by
          apply foldl_inv (fun G => Fixed w.F G) Felix.onMissing (fun G m h => Fixed.trans h (onMissing_fixed G m)) _ _ fixA
        rw [hsweep]
        exact ⟨this.1, this.2.1, this.2.2.1, this.2.2.2⟩
      have htr2 : Tracked F2 n des := by
        rw [hF2eq, hsweep]
        have : Tracked (cands.foldl Felix.onMissing Fa) n des := by
          apply foldl_inv (fun G => Fixed w.F G ∧ Tracked G n des) Felix.onMissing _ cands Fa ⟨fixA, htrA⟩ |>.2
          intro G m hG
          exact ⟨Fixed.trans hG.1 (onMissing_fixed G m), onMissing_tracked G n m des (by rw [hG.1.1]; exact ha) hG.2⟩
        exact this
      refine ⟨hfix2, htr2, ?_⟩
      intro hneed hnl
      obtain ⟨_, _, h3⟩ := hsf hneed
      have hin : n ∈ cands := by
        rw [← hcands]
        refine List.mem_filter.2 ⟨?_, by simp [hnl]⟩
        rw [List.mem_eraseDups]
        obtain ⟨t, ht, _⟩ := htrA
        exact List.mem_append_left _ (List.mem_append_left _ ((Map.has_iff_mem_keys _ _).1 (Map.has_of_get ht)))
      have := h3 (Or.inl hin)
      rw [hF2eq, hsweep]
      exact ⟨this.1, this.2.1, this.2.2⟩
    have hfix2 : Fixed w.F F2 := by
      rw [hF2eq, hsweep]
      have : Fixed w.F (cands.foldl Felix.onMissing Fa) :=
        foldl_inv (fun G => Fixed w.F G) Felix.onMissing (fun G m h => Fixed.trans h (onMissing_fixed G m)) _ _ fixA
      exact ⟨this.1, this.2.1, this.2.2.1, this.2.2.2⟩
    -- the drain
    generalize hacc0 : (({ w1 with F := { F2 with qMust := [] } } : W), false) = acc0 at hres ⊢
    have henv0 : DEnv w.K w.cfg w.F acc0.1 := by
      rw [← hacc0]; exact ⟨hK1, hc1, ⟨hfix2.1, hfix2.2.1, hfix2.2.2.1, hfix2.2.2.2⟩⟩
    have hacc0F : acc0.1.F = { F2 with qMust := [] } := by rw [← hacc0]
    have henvR := foldl_inv (fun (a : W × Bool) => DEnv w.K w.cfg w.F a.1) W.drainStep
      (fun a m h => drainStep_env a m h) (sortS F2.qMust) acc0 henv0
    have hfullR : (List.foldl W.drainStep acc0 (sortS F2.qMust)).1.F.fullReq = true := by
      rw [henvR.fixed.2.2.2]; exact hfull
    simp only [W.drain] at hres ⊢
    have e0 : (({ w1 with F := F2 } : W).F.qMust) = F2.qMust := rfl
    have e1 : (({ ({ w1 with F := F2 } : W) with F := { ({ w1 with F := F2 } : W).F with qMust := [] } } : W), false) = acc0 := by
      rw [← hacc0]
    rw [e0, e1] at hres ⊢
    simp only [hfullR, if_true] at hres ⊢
    have hacc := drain_fold_acc (sortS F2.qMust) acc0 henv0
    generalize hR : List.foldl W.drainStep acc0 (sortS F2.qMust) = R at hres henvR hacc hfullR ⊢
    -- conclusions
    have hgood : ∀ n, w.F.desired.has n = true → ∃ t, w.F.members.get n = some t ∧ Good w.K R.1.F n t.des := by
      intro n hn
      have ha := hok.inAll n hn
      obtain ⟨t, htr, ht⟩ := tracked_of_has (hok.tracked n ha)
      obtain ⟨_, htr2, hgn⟩ := hpre n t.des ha htr
      refine ⟨t, ht, ?_⟩
      have htr0 : Tracked acc0.1.F n t.des := by
        rw [hacc0F]; obtain ⟨t', ht', hd'⟩ := htr2; exact ⟨t', ht', hd'⟩
      have hfold := drain_fold_good (K := w.K) (c := w.cfg) (F0 := w.F) (n := n) (des := t.des)
        (hok.notTemp n hn) ha hn (hok.needed n hn) (sortS F2.qMust) acc0 henv0 htr0 (by rw [hR]; exact hres)
      rw [hR] at hfold
      apply hfold.2
      by_cases hk : w.K.has n = true
      · left; rw [mem_sortS, hF2qm, hlist]; exact ⟨hk, hok.owned n hn⟩
      · right
        have hnl : n ∉ listed := by rw [hlist]; exact fun h => hk h.1
        have hg := hgn (hok.needed n hn) hnl
        have hKn : w.K.get n = none := by
          simp only [Map.has] at hk
          cases hg' : w.K.get n with
          | none => rfl
          | some v => simp [hg'] at hk
        unfold Good
        rw [hKn]
        have hs : SN acc0.1.F n = SN F2 n := by rw [hacc0F]; rfl
        have hg2 := GoodNone_congr hs hg
        exact ⟨⟨hg2.1, hg2.2.1⟩, hg2.2.2⟩
    refine ⟨henvR.K, henvR.cfg, henvR.fixed, ?_, ?_, ?_, ?_, ?_, ?_⟩
    · -- WInv
      refine ⟨?_, ?_, ?_⟩
      · intro n hn; rw [henvR.fixed.2.1] at hn; exact hok.notTemp n hn
      · intro n hn
        rw [henvR.fixed.2.1] at hn
        obtain ⟨t, _, hg⟩ := hgood n hn
        obtain ⟨hm, _⟩ := hg
        cases hk : w.K.get n with
        | none => rw [hk] at hm; obtain ⟨_, t', ht', _⟩ := hm; exact Map.has_of_get ht'
        | some k => rw [hk] at hm; obtain ⟨_, t', ht', _⟩ := hm; exact Map.has_of_get ht'
      · intro n dm t hdm ht
        have hn : w.F.desired.has n = true := by rw [← henvR.fixed.2.1]; exact Map.has_of_get hdm
        obtain ⟨t0, _, hg⟩ := hgood n hn
        obtain ⟨hm, _⟩ := hg
        rw [henvR.K]
        cases hk : w.K.get n with
        | none =>
          rw [hk] at hm
          obtain ⟨hd0, t', ht', htdp, _⟩ := hm
          rw [ht] at ht'; simp only [Option.some.injEq] at ht'; subst ht'
          exact ⟨hd0, htdp⟩
        | some k =>
          rw [hk] at hm
          obtain ⟨hd0, t', ht', htdp, _⟩ := hm
          rw [ht] at ht'; simp only [Option.some.injEq] at ht'; subst ht'
          exact ⟨parseMeta k, hd0, fun h => ⟨parseMeta_matches h, htdp⟩⟩
    · -- DirtyOK
      intro n t hn hnd ht
      rw [henvR.fixed.2.1] at hn
      obtain ⟨t0, _, hg⟩ := hgood n hn
      exact hg.2 hnd t ht
    · -- Cov
      intro b hown hkb
      rw [henvR.K] at hkb
      apply hacc.dpCov b hkb
      right; rw [mem_sortS, hF2qm, hlist]; exact ⟨hkb, hown⟩
    · intro b hb
      rcases hacc.dpNew b hb with h | h
      · rw [hacc0F] at h
        have := hF2dp b
        have h' : F2.dp.has b = true := h
        rw [this] at h'; simp at h'
      · rw [mem_sortS, hF2qm, hlist] at h; exact h.2
    · refine ⟨?_, ?_⟩
      · intro x hx
        rcases hacc.qMust x hx with h | h
        · rw [hacc0F] at h; simp at h
        · rw [mem_sortS, hF2qm, hlist] at h; exact h.2
      · intro x hx
        have := hacc.qBg x hx
        rw [hacc0F] at this
        exact absurd this (hF2qb x)
    · intro n des ha htr
      obtain ⟨_, htr2, _⟩ := hpre n des ha htr
      have htr0 : Tracked acc0.1.F n des := by
        rw [hacc0F]; obtain ⟨t', ht', hd'⟩ := htr2; exact ⟨t', ht', hd'⟩
      have := foldl_inv (fun (a : W × Bool) => DEnv w.K w.cfg w.F a.1 ∧ Tracked a.1.F n des) W.drainStep
        (fun a m h => ⟨drainStep_env a m h.1, drainStep_tracked a m n des h.1 ha h.2⟩) (sortS F2.qMust) acc0 ⟨henv0, htr0⟩
      rw [hR] at this
      exact this.2

end CalicoVerif.C16
