import CalicoVerif.Model.C43
import CalicoVerif.Proofs.C43
/-!
C43 — the resolver's dirty-marking completeness invariant (helper lemmas).
-/
namespace CalicoVerif.C43

local macro "triv" : tactic => `(tactic| first | rfl | trivial)

/-! ### dirty set -/

theorem mem_sinsert {α} [DecidableEq α] (s : List α) (x y : α) : x ∈ sinsert s y ↔ x ∈ s ∨ x = y := by
  unfold sinsert
  by_cases h : s.contains y = true
  · simp only [h, if_true]
    constructor
    · exact Or.inl
    · rintro (h' | rfl)
      · exact h'
      · simpa using h
  · simp only [h]
    simp

theorem mem_markDirty (s : St) (c d : Cidr) : d ∈ (s.markDirty c).dirty ↔ d ∈ s.dirty ∨ d = c := by
  simp [St.markDirty, mem_sinsert]

/-- everything but `dirty` is untouched by a run of markDirty. -/
theorem foldl_markDirty {α} (g : α → Cidr) (xs : List α) (s : St) :
    let s' := xs.foldl (fun s x => s.markDirty (g x)) s
    s'.trie = s.trie ∧ s'.nodes = s.nodes ∧ s'.me = s.me ∧ s'.nodeRoutes = s.nodeRoutes ∧
    s'.blockRoutes = s.blockRoutes ∧ s'.pools = s.pools ∧ s'.weps = s.weps ∧
    (∀ d, d ∈ s'.dirty ↔ d ∈ s.dirty ∨ ∃ x ∈ xs, g x = d) := by
  induction xs generalizing s with
  | nil => simp
  | cons x xs ih =>
    simp only [List.foldl_cons]
    have := ih (s.markDirty (g x))
    simp only at this
    obtain ⟨h1, h2, h3, h4, h5, h6, h7, h8⟩ := this
    refine ⟨h1, h2, h3, h4, h5, h6, h7, ?_⟩
    intro d
    rw [h8 d, mem_markDirty]
    simp only [List.mem_cons, exists_eq_or_imp]
    constructor
    · rintro ((h | h) | h)
      · exact Or.inl h
      · exact Or.inr (Or.inl h.symm)
      · exact Or.inr (Or.inr h)
    · rintro (h | h | h)
      · exact Or.inl (Or.inl h)
      · exact Or.inl (Or.inr h.symm)
      · exact Or.inr h

/-! ### the trie as a view -/

theorem get_def (s : St) (k : Cidr) : s.get k = (aget s.trie k).getD {} := rfl

theorem isZero_strip (ri : RouteInfo) (h : ri.isZero = true) : strip ri = {} := by
  obtain ⟨pool, block, hosts, refs, ws⟩ := ri
  simp only [RouteInfo.isZero, RouteInfo.isValidRoute, Bool.and_eq_true, Bool.not_eq_true',
    Bool.or_eq_false_iff, Option.isSome_eq_false_iff, Option.isNone_iff_eq_none,
    Bool.not_eq_false', List.isEmpty_iff] at h
  obtain ⟨h1, ⟨⟨h2, h3⟩, h4⟩, h5⟩ := h
  subst h1 h2 h3 h4 h5
  rfl

theorem strip_strip (ri : RouteInfo) : strip (strip ri) = strip ri := rfl

/-- `updateCIDR` in terms of the view. -/
theorem updateCIDR_facts (s : St) (k : Cidr) (f : RouteInfo → RouteInfo) :
    let s' := (s.updateCIDR k f).1
    s'.me = s.me ∧ s'.nodes = s.nodes ∧ s'.nodeRoutes = s.nodeRoutes ∧ s'.blockRoutes = s.blockRoutes ∧
    s'.pools = s.pools ∧ s'.weps = s.weps ∧
    (∀ k', s'.view k' = if k = k' then strip (f (s.get k)) else s.view k') ∧
    (∀ d, d ∈ s'.dirty ↔ d ∈ s.dirty ∨ (d = k ∧ f (s.get k) ≠ s.get k)) ∧
    ((s.updateCIDR k f).2 = true ↔ f (s.get k) ≠ s.get k) ∧
    (∀ k', k' ≠ k → aget s'.trie k' = aget s.trie k') := by
  unfold St.updateCIDR
  simp only []
  by_cases h : f (s.get k) = s.get k
  · simp only [h, if_true]
    refine ⟨by triv, by triv, by triv, by triv, by triv, by triv, ?_, ?_, ?_, ?_⟩
    · intro k'
      by_cases hk : k = k'
      · subst hk; simp [St.view]
      · simp [hk]
    · intro d; simp
    · simp
    · intro k' _; triv
  · simp only [h, if_false]
    by_cases hz : (f (s.get k)).isZero = true
    · simp only [hz, if_true]
      refine ⟨by triv, by triv, by triv, by triv, by triv, by triv, ?_, ?_, ?_, ?_⟩
      · intro k'
        simp only [St.view, St.get, St.markDirty]
        rw [aget_adel]
        by_cases hk : k = k'
        · simp only [hk, if_true, Option.getD_none]
          rw [← hk]; exact (isZero_strip _ hz).symm ▸ rfl
        · simp [hk]
      · intro d; simp [mem_markDirty, h]
      · simp [h]
      · intro k' hk
        simp only [St.markDirty]
        rw [aget_adel]; simp [Ne.symm hk]
    · have hz' : (f (s.get k)).isZero = false := by simpa using hz
      simp only [hz', Bool.false_eq_true, if_false]
      refine ⟨by triv, by triv, by triv, by triv, by triv, by triv, ?_, ?_, ?_, ?_⟩
      · intro k'
        simp only [St.view, St.get, St.markDirty]
        rw [aget_aset]
        by_cases hk : k = k'
        · simp [hk]
        · simp [hk]
      · intro d; simp [mem_markDirty, h]
      · simp [h]
      · intro k' hk
        simp only [St.markDirty]
        rw [aget_aset]; simp [Ne.symm hk]


/-! ### ancestors -/

theorem ancKey_width (c : Cidr) (l : Nat) : (ancKey c l).width = c.width := rfl

theorem ancKey_v6 (c : Cidr) (l : Nat) : (ancKey c l).v6 = c.v6 := rfl

theorem topBits_ancKey (c : Cidr) (l : Nat) : topBits c.width (ancKey c l).addr l = topBits c.width c.addr l := by
  simp only [topBits, ancKey]
  exact Nat.mul_div_cancel _ (Nat.two_pow_pos _)

theorem ancKey_len (c : Cidr) (l : Nat) : (ancKey c l).len = l := rfl

theorem ancKey_contains (c : Cidr) (l : Nat) : (ancKey c l).containsAddr c.addr = true := by
  simp [Cidr.containsAddr, ancKey_len, ancKey_width, topBits_ancKey]

theorem ancKey_covers (c : Cidr) (l : Nat) (h : l < c.len) : (ancKey c l).covers c = true := by
  simp [Cidr.covers, ancKey_len, ancKey_v6, ancKey_contains, Nat.le_of_lt h]

theorem ancKey_ne (c : Cidr) (l : Nat) (h : l < c.len) : ancKey c l ≠ c := by
  intro e
  have := congrArg Cidr.len e
  rw [ancKey_len] at this
  omega

theorem aget_some_mem {κ α} [DecidableEq κ] (m : List (κ × α)) (k : κ) (v : α) (h : aget m k = some v) :
    (k, v) ∈ m := by
  induction m with
  | nil => simp [aget] at h
  | cons p m ih =>
    obtain ⟨k0, v0⟩ := p
    simp only [aget, List.lookup] at h
    by_cases hk : k = k0
    · subst hk; simp at h; subst h; exact List.mem_cons_self
    · have : (k == k0) = false := by simp [hk]
      simp only [this] at h
      exact List.mem_cons_of_mem _ (ih h)

theorem view_congr (s s' : St) (h : s'.trie = s.trie) (k : Cidr) : s'.view k = s.view k := by
  simp [St.view, St.get, h]

theorem view_ne_empty (s : St) (c : Cidr) (h : s.view c ≠ {}) : ∃ ri, aget s.trie c = some ri := by
  cases hg : aget s.trie c with
  | some ri => exact ⟨ri, rfl⟩
  | none => exact absurd (by simp [St.view, St.get, hg, strip]) h

/-! ### frame relation: `s'` comes from `s` by trie edits that mark what they affect -/

structure Step (s s' : St) : Prop where
  me : s'.me = s.me
  mono : ∀ d, d ∈ s.dirty → d ∈ s'.dirty
  same : ∀ c, c ∉ s'.dirty → s'.view c = s.view c
  anc : ∀ c, c ∉ s'.dirty → s'.view c ≠ {} → c.len ≤ c.width →
    ∀ l, l < c.len → s'.view (ancKey c l) = s.view (ancKey c l)

theorem Step.refl (s : St) : Step s s := ⟨rfl, fun _ h => h, fun _ _ => rfl, fun _ _ _ _ _ _ => rfl⟩

theorem Step.trans {s s1 s2 : St} (h1 : Step s s1) (h2 : Step s1 s2) : Step s s2 := by
  refine ⟨h2.me.trans h1.me, fun d h => h2.mono d (h1.mono d h), ?_, ?_⟩
  · intro c hc
    have hc1 : c ∉ s1.dirty := fun h => hc (h2.mono c h)
    rw [h2.same c hc, h1.same c hc1]
  · intro c hc hne hl l hlt
    have hc1 : c ∉ s1.dirty := fun h => hc (h2.mono c h)
    have hne1 : s1.view c ≠ {} := by rw [← h2.same c hc]; exact hne
    rw [h2.anc c hc hne hl l hlt, h1.anc c hc1 hne1 hl l hlt]

theorem Step.of_eq (s s' : St) (ht : s'.trie = s.trie) (hd : s'.dirty = s.dirty) (hm : s'.me = s.me) : Step s s' :=
  ⟨hm, fun d h => hd ▸ h, fun c _ => view_congr s s' ht c, fun c _ _ _ l _ => view_congr s s' ht _⟩

theorem Step.markFold {α} (g : α → Cidr) (xs : List α) (s : St) :
    Step s (xs.foldl (fun s x => s.markDirty (g x)) s) := by
  obtain ⟨h1, _, h3, _, _, _, _, h8⟩ := foldl_markDirty g xs s
  exact ⟨h3, fun d h => (h8 d).2 (Or.inl h), fun c _ => view_congr _ _ h1 c, fun c _ _ _ l _ => view_congr _ _ h1 _⟩

/-- the general shape of every trie edit: `updateCIDR` at `k`, followed by extra dirty marks that
cover every present CIDR below `k` whenever the entry really changed. -/
theorem Step.updateCIDR_cover (s : St) (k : Cidr) (f : RouteInfo → RouteInfo) (s2 : St)
    (htrie : s2.trie = ((s.updateCIDR k f).1).trie) (hme : s2.me = s.me)
    (hmono : ∀ d, d ∈ ((s.updateCIDR k f).1).dirty → d ∈ s2.dirty)
    (hcover : f (s.get k) ≠ s.get k → ∀ c l, l < c.len → c.len ≤ c.width → ancKey c l = k → s.view c ≠ {} → c ∈ s2.dirty) :
    Step s s2 := by
  obtain ⟨_, _, _, _, _, _, hv, hd, _, _⟩ := updateCIDR_facts s k f
  have hsame : ∀ c, c ∉ s2.dirty → s2.view c = s.view c := by
    intro c hc
    rw [view_congr _ _ htrie c, hv c]
    by_cases hk : k = c
    · subst hk
      simp only [if_true]
      by_cases hch : f (s.get k) = s.get k
      · rw [hch]; rfl
      · exact absurd (hmono k ((hd k).2 (Or.inr ⟨rfl, hch⟩))) hc
    · simp [hk]
  refine ⟨hme, fun d h => hmono d ((hd d).2 (Or.inl h)), hsame, ?_⟩
  intro c hc hne hl l hlt
  rw [view_congr _ _ htrie _, hv (ancKey c l)]
  by_cases hk : k = ancKey c l
  · simp only [hk, if_true]
    by_cases hch : f (s.get k) = s.get k
    · rw [← hk, hch]; rfl
    · have : s.view c ≠ {} := by rw [← hsame c hc]; exact hne
      exact absurd (hcover hch c l hlt hl hk.symm this) hc
  · simp [hk]

/-- an edit at a single-address key (/32, /128: hosts, workload and tunnel refs) affects nothing below it. -/
theorem Step.updateCIDR_host (s : St) (k : Cidr) (f : RouteInfo → RouteInfo) (hk : k.len = k.width) :
    Step s (s.updateCIDR k f).1 := by
  apply Step.updateCIDR_cover s k f _ rfl (updateCIDR_facts s k f).1 (fun d h => h)
  intro _ c l hlt hl he _
  have h1 := congrArg Cidr.len he
  have h2 := congrArg Cidr.width he
  rw [ancKey_len] at h1
  rw [ancKey_width] at h2
  omega

theorem Step.updatePool (s : St) (k : Cidr) (p : Pool) : Step s (s.updatePool k p) := by
  unfold St.updatePool
  generalize hf : (fun ri : RouteInfo => { ri with pool := some p }) = f
  obtain ⟨hme, _, _, _, _, _, _, hd, hch, hag⟩ := updateCIDR_facts s k f
  cases hc : (s.updateCIDR k f).2 with
  | false => simp only [hc]; exact Step.updateCIDR_cover s k f _ rfl hme (fun d h => h) (fun h => absurd (hch.2 h) (by simp [hc]))
  | true =>
    simp only [hc, if_true]
    unfold St.markChildrenDirty
    obtain ⟨h1, _, h3, _, _, _, _, h8⟩ := foldl_markDirty (fun e : Cidr × RouteInfo => e.1)
      (((s.updateCIDR k f).1).trie.filter (fun e => e.1.v6 == k.v6 && k.containsAddr e.1.addr)) (s.updateCIDR k f).1
    apply Step.updateCIDR_cover s k f _ h1 (h3.trans hme) (fun d h => (h8 d).2 (Or.inl h))
    intro _ c l hlt _ he hne
    obtain ⟨ri, hri⟩ := view_ne_empty s c hne
    have hck : c ≠ k := by rw [← he]; exact (ancKey_ne c l hlt).symm
    have hmem := aget_some_mem _ c ri ((hag c hck).trans hri)
    refine (h8 c).2 (Or.inr ⟨(c, ri), List.mem_filter.2 ⟨hmem, ?_⟩, rfl⟩)
    rw [← he]; simp [ancKey_v6, ancKey_contains c l]

theorem Step.removePool (s : St) (k : Cidr) : Step s (s.removePool k) := by
  unfold St.removePool
  generalize hf : (fun ri : RouteInfo => { ri with pool := none }) = f
  obtain ⟨hme, _, _, _, _, _, _, hd, hch, hag⟩ := updateCIDR_facts s k f
  cases hc : (s.updateCIDR k f).2 with
  | false => simp only [hc]; exact Step.updateCIDR_cover s k f _ rfl hme (fun d h => h) (fun h => absurd (hch.2 h) (by simp [hc]))
  | true =>
    simp only [hc, if_true]
    unfold St.markChildrenDirty
    obtain ⟨h1, _, h3, _, _, _, _, h8⟩ := foldl_markDirty (fun e : Cidr × RouteInfo => e.1)
      (((s.updateCIDR k f).1).trie.filter (fun e => e.1.v6 == k.v6 && k.containsAddr e.1.addr)) (s.updateCIDR k f).1
    apply Step.updateCIDR_cover s k f _ h1 (h3.trans hme) (fun d h => (h8 d).2 (Or.inl h))
    intro _ c l hlt _ he hne
    obtain ⟨ri, hri⟩ := view_ne_empty s c hne
    have hck : c ≠ k := by rw [← he]; exact (ancKey_ne c l hlt).symm
    have hmem := aget_some_mem _ c ri ((hag c hck).trans hri)
    refine (h8 c).2 (Or.inr ⟨(c, ri), List.mem_filter.2 ⟨hmem, ?_⟩, rfl⟩)
    rw [← he]; simp [ancKey_v6, ancKey_contains c l]

theorem mem_descendants (s : St) (k c : Cidr) (ri : RouteInfo) (hmem : (c, ri) ∈ s.trie)
    (hcov : k.covers c = true) (hne : c ≠ k) : c ∈ s.descendants k := by
  unfold St.descendants
  exact List.mem_map.2 ⟨(c, ri), List.mem_filter.2 ⟨hmem, by simp [hcov, hne]⟩, rfl⟩

theorem Step.updateBlockRoute (s : St) (k : Cidr) (n : Nat) : Step s (s.updateBlockRoute k n) := by
  unfold St.updateBlockRoute
  generalize hf : (fun ri : RouteInfo => { ri with block := some n }) = f
  obtain ⟨hme, _, _, _, _, _, _, hd, hch, hag⟩ := updateCIDR_facts s k f
  cases hc : (s.updateCIDR k f).2 with
  | false => simp only [hc]; exact Step.updateCIDR_cover s k f _ rfl hme (fun d h => h) (fun h => absurd (hch.2 h) (by simp [hc]))
  | true =>
    simp only [hc, if_true]
    obtain ⟨h1, _, h3, _, _, _, _, h8⟩ := foldl_markDirty (fun d : Cidr => d)
      (((s.updateCIDR k f).1).descendants k) (s.updateCIDR k f).1
    apply Step.updateCIDR_cover s k f _ h1 (h3.trans hme) (fun d h => (h8 d).2 (Or.inl h))
    intro _ c l hlt _ he hne
    obtain ⟨ri, hri⟩ := view_ne_empty s c hne
    have hck : c ≠ k := by rw [← he]; exact (ancKey_ne c l hlt).symm
    have hmem := aget_some_mem _ c ri ((hag c hck).trans hri)
    exact (h8 c).2 (Or.inr ⟨c, mem_descendants _ k c ri hmem (by rw [← he]; exact ancKey_covers c l hlt) hck, rfl⟩)

theorem Step.removeBlockRoute (s : St) (k : Cidr) : Step s (s.removeBlockRoute k) := by
  unfold St.removeBlockRoute
  generalize hf : (fun ri : RouteInfo => { ri with block := none }) = f
  obtain ⟨hme, _, _, _, _, _, _, hd, hch, hag⟩ := updateCIDR_facts s k f
  cases hc : (s.updateCIDR k f).2 with
  | false => simp only [hc]; exact Step.updateCIDR_cover s k f _ rfl hme (fun d h => h) (fun h => absurd (hch.2 h) (by simp [hc]))
  | true =>
    simp only [hc, if_true]
    obtain ⟨h1, _, h3, _, _, _, _, h8⟩ := foldl_markDirty (fun d : Cidr => d)
      (s.descendants k) (s.updateCIDR k f).1
    apply Step.updateCIDR_cover s k f _ h1 (h3.trans hme) (fun d h => (h8 d).2 (Or.inl h))
    intro _ c l hlt _ he hne
    obtain ⟨ri, hri⟩ := view_ne_empty s c hne
    have hck : c ≠ k := by rw [← he]; exact (ancKey_ne c l hlt).symm
    have hmem := aget_some_mem _ c ri hri
    exact (h8 c).2 (Or.inr ⟨c, mem_descendants _ k c ri hmem (by rw [← he]; exact ancKey_covers c l hlt) hck, rfl⟩)


/-! ### trie edits, summarised -/

/-- `P` edits the trie at `k` by `f` (on the view), marks what it affects, and leaves the node
table and the node-route index alone. -/
structure Edit (P : St → St) (k : Cidr) (f : RouteInfo → RouteInfo) : Prop where
  step : ∀ s, Step s (P s)
  view : ∀ s k', (P s).view k' = if k = k' then f (s.view k) else s.view k'
  nodes : ∀ s, (P s).nodes = s.nodes
  nr : ∀ s, (P s).nodeRoutes = s.nodeRoutes
  br : ∀ s, (P s).blockRoutes = s.blockRoutes
  pools : ∀ s, (P s).pools = s.pools

theorem view_after (s : St) (k : Cidr) (g f : RouteInfo → RouteInfo) (s2 : St)
    (htrie : s2.trie = ((s.updateCIDR k g).1).trie) (hcomm : ∀ ri, strip (g ri) = f (strip ri)) (k' : Cidr) :
    s2.view k' = if k = k' then f (s.view k) else s.view k' := by
  rw [view_congr _ _ htrie k', (updateCIDR_facts s k g).2.2.2.2.2.2.1 k']
  by_cases h : k = k'
  · simp only [h, if_true]; rw [hcomm]; rfl
  · simp [h]

theorem updatePool_rest (s : St) (k : Cidr) (p : Pool) :
    (s.updatePool k p).trie = ((s.updateCIDR k (fun ri => { ri with pool := some p })).1).trie ∧
    (s.updatePool k p).nodes = s.nodes ∧ (s.updatePool k p).nodeRoutes = s.nodeRoutes ∧
    (s.updatePool k p).blockRoutes = s.blockRoutes ∧ (s.updatePool k p).pools = s.pools := by
  unfold St.updatePool
  obtain ⟨_, h2, h3, h4, h5, _⟩ := updateCIDR_facts s k (fun ri => { ri with pool := some p })
  cases hc : (s.updateCIDR k (fun ri => { ri with pool := some p })).2 with
  | false => simp only [hc]; exact ⟨rfl, h2, h3, h4, h5⟩
  | true =>
    simp only [hc, if_true]
    unfold St.markChildrenDirty
    obtain ⟨g1, g2, _, g4, g5, g6, _, _⟩ := foldl_markDirty (fun e : Cidr × RouteInfo => e.1)
      (((s.updateCIDR k (fun ri => { ri with pool := some p })).1).trie.filter (fun e => e.1.v6 == k.v6 && k.containsAddr e.1.addr))
      (s.updateCIDR k (fun ri => { ri with pool := some p })).1
    exact ⟨g1, g2.trans h2, g4.trans h3, g5.trans h4, g6.trans h5⟩

theorem removePool_rest (s : St) (k : Cidr) :
    (s.removePool k).trie = ((s.updateCIDR k (fun ri => { ri with pool := none })).1).trie ∧
    (s.removePool k).nodes = s.nodes ∧ (s.removePool k).nodeRoutes = s.nodeRoutes ∧
    (s.removePool k).blockRoutes = s.blockRoutes ∧ (s.removePool k).pools = s.pools := by
  unfold St.removePool
  obtain ⟨_, h2, h3, h4, h5, _⟩ := updateCIDR_facts s k (fun ri => { ri with pool := none })
  cases hc : (s.updateCIDR k (fun ri => { ri with pool := none })).2 with
  | false => simp only [hc]; exact ⟨rfl, h2, h3, h4, h5⟩
  | true =>
    simp only [hc, if_true]
    unfold St.markChildrenDirty
    obtain ⟨g1, g2, _, g4, g5, g6, _, _⟩ := foldl_markDirty (fun e : Cidr × RouteInfo => e.1)
      (((s.updateCIDR k (fun ri => { ri with pool := none })).1).trie.filter (fun e => e.1.v6 == k.v6 && k.containsAddr e.1.addr))
      (s.updateCIDR k (fun ri => { ri with pool := none })).1
    exact ⟨g1, g2.trans h2, g4.trans h3, g5.trans h4, g6.trans h5⟩

theorem updateBlockRoute_rest (s : St) (k : Cidr) (n : Nat) :
    (s.updateBlockRoute k n).trie = ((s.updateCIDR k (fun ri => { ri with block := some n })).1).trie ∧
    (s.updateBlockRoute k n).nodes = s.nodes ∧ (s.updateBlockRoute k n).nodeRoutes = s.nodeRoutes ∧
    (s.updateBlockRoute k n).blockRoutes = s.blockRoutes ∧ (s.updateBlockRoute k n).pools = s.pools := by
  unfold St.updateBlockRoute
  obtain ⟨_, h2, h3, h4, h5, _⟩ := updateCIDR_facts s k (fun ri => { ri with block := some n })
  cases hc : (s.updateCIDR k (fun ri => { ri with block := some n })).2 with
  | false => simp only [hc]; exact ⟨rfl, h2, h3, h4, h5⟩
  | true =>
    simp only [hc, if_true]
    obtain ⟨g1, g2, _, g4, g5, g6, _, _⟩ := foldl_markDirty (fun d : Cidr => d)
      (((s.updateCIDR k (fun ri => { ri with block := some n })).1).descendants k)
      (s.updateCIDR k (fun ri => { ri with block := some n })).1
    exact ⟨g1, g2.trans h2, g4.trans h3, g5.trans h4, g6.trans h5⟩

theorem removeBlockRoute_rest (s : St) (k : Cidr) :
    (s.removeBlockRoute k).trie = ((s.updateCIDR k (fun ri => { ri with block := none })).1).trie ∧
    (s.removeBlockRoute k).nodes = s.nodes ∧ (s.removeBlockRoute k).nodeRoutes = s.nodeRoutes ∧
    (s.removeBlockRoute k).blockRoutes = s.blockRoutes ∧ (s.removeBlockRoute k).pools = s.pools := by
  unfold St.removeBlockRoute
  obtain ⟨_, h2, h3, h4, h5, _⟩ := updateCIDR_facts s k (fun ri => { ri with block := none })
  cases hc : (s.updateCIDR k (fun ri => { ri with block := none })).2 with
  | false => simp only [hc]; exact ⟨rfl, h2, h3, h4, h5⟩
  | true =>
    simp only [hc, if_true]
    obtain ⟨g1, g2, _, g4, g5, g6, _, _⟩ := foldl_markDirty (fun d : Cidr => d)
      (s.descendants k) (s.updateCIDR k (fun ri => { ri with block := none })).1
    exact ⟨g1, g2.trans h2, g4.trans h3, g5.trans h4, g6.trans h5⟩

theorem Edit.updatePool (k : Cidr) (p : Pool) :
    Edit (fun s => s.updatePool k p) k (fun v => { v with pool := some p }) := by
  refine ⟨fun s => Step.updatePool s k p, ?_, fun s => (updatePool_rest s k p).2.1,
    fun s => (updatePool_rest s k p).2.2.1, fun s => (updatePool_rest s k p).2.2.2.1, fun s => (updatePool_rest s k p).2.2.2.2⟩
  intro s k'
  exact view_after s k _ (fun v => { v with pool := some p }) _ (updatePool_rest s k p).1 (fun _ => rfl) k'

theorem Edit.removePool (k : Cidr) : Edit (fun s => s.removePool k) k (fun v => { v with pool := none }) := by
  refine ⟨fun s => Step.removePool s k, ?_, fun s => (removePool_rest s k).2.1,
    fun s => (removePool_rest s k).2.2.1, fun s => (removePool_rest s k).2.2.2.1, fun s => (removePool_rest s k).2.2.2.2⟩
  intro s k'
  exact view_after s k _ (fun v => { v with pool := none }) _ (removePool_rest s k).1 (fun _ => rfl) k'

theorem Edit.updateBlockRoute (k : Cidr) (n : Nat) :
    Edit (fun s => s.updateBlockRoute k n) k (fun v => { v with block := some n }) := by
  refine ⟨fun s => Step.updateBlockRoute s k n, ?_, fun s => (updateBlockRoute_rest s k n).2.1,
    fun s => (updateBlockRoute_rest s k n).2.2.1, fun s => (updateBlockRoute_rest s k n).2.2.2.1,
    fun s => (updateBlockRoute_rest s k n).2.2.2.2⟩
  intro s k'
  exact view_after s k _ (fun v => { v with block := some n }) _ (updateBlockRoute_rest s k n).1 (fun _ => rfl) k'

theorem Edit.removeBlockRoute (k : Cidr) :
    Edit (fun s => s.removeBlockRoute k) k (fun v => { v with block := none }) := by
  refine ⟨fun s => Step.removeBlockRoute s k, ?_, fun s => (removeBlockRoute_rest s k).2.1,
    fun s => (removeBlockRoute_rest s k).2.2.1, fun s => (removeBlockRoute_rest s k).2.2.2.1,
    fun s => (removeBlockRoute_rest s k).2.2.2.2⟩
  intro s k'
  exact view_after s k _ (fun v => { v with block := none }) _ (removeBlockRoute_rest s k).1 (fun _ => rfl) k'

/-- any `updateCIDR` at a single-address key whose function commutes with `strip`. -/
theorem Edit.host (k : Cidr) (hk : k.len = k.width) (g f : RouteInfo → RouteInfo) (hcomm : ∀ ri, strip (g ri) = f (strip ri)) :
    Edit (fun s => (s.updateCIDR k g).1) k f := by
  refine ⟨fun s => Step.updateCIDR_host s _ g hk, ?_, fun s => (updateCIDR_facts s _ g).2.1,
    fun s => (updateCIDR_facts s _ g).2.2.1, fun s => (updateCIDR_facts s _ g).2.2.2.1,
    fun s => (updateCIDR_facts s _ g).2.2.2.2.1⟩
  intro s k'
  exact view_after s _ g f _ rfl hcomm k'

theorem Step.foldl {α} (body : St → α → St) (h : ∀ s x, Step s (body s x)) (xs : List α) (s : St) :
    Step s (xs.foldl body s) := by
  induction xs generalizing s with
  | nil => exact Step.refl s
  | cons x xs ih => exact (h s x).trans (ih (body s x))


/-! ### auxiliary invariants -/

/-- `c` carries a block / borrowed-address route of node `n` and nothing else at its own CIDR. -/
def Tracked (s : St) (c : Cidr) (n : Nat) : Prop :=
  (s.view c).block = some n ∧ (s.view c).hosts = [] ∧ (s.view c).refs = []

structure Aux (s : St) : Prop where
  /-- hosts, workload refs and tunnel refs only live at single addresses (/32, /128) -/
  h32 : ∀ k, ((s.view k).hosts ≠ [] ∨ (s.view k).refs ≠ []) → k.len = k.width
  /-- no trie key is longer than its family's address width -/
  l32 : ∀ k, s.view k ≠ {} → k.len ≤ k.width
  /-- every block route is indexed under its node in `nodeRoutes` -/
  nr : ∀ c n, (s.view c).block = some n → ∃ j, aget s.nodeRoutes (n, c) = some (j + 1)

theorem Aux.congr (s s' : St) (ht : s'.trie = s.trie) (hn : s'.nodeRoutes = s.nodeRoutes) (h : Aux s) : Aux s' := by
  refine ⟨fun k => ?_, fun k => ?_, fun c n => ?_⟩
  · rw [view_congr _ _ ht]; exact h.h32 k
  · rw [view_congr _ _ ht]; exact h.l32 k
  · rw [view_congr _ _ ht, hn]; exact h.nr c n

/-- an edit that does not touch the block field keeps `Aux`. -/
theorem Aux.edit {P : St → St} {k : Cidr} {f : RouteInfo → RouteInfo} (hE : Edit P k f) (s : St) (ha : Aux s)
    (hh : k.len = k.width ∨ ∀ v, (f v).hosts = v.hosts ∧ (f v).refs = v.refs)
    (hl : f (s.view k) ≠ {} → k.len ≤ k.width) (hb : ∀ v, (f v).block = v.block) : Aux (P s) := by
  refine ⟨fun k' => ?_, fun k' => ?_, fun c n => ?_⟩
  · rw [hE.view s k']
    by_cases hk : k = k'
    · subst hk
      simp only [if_true]
      rcases hh with hh | hh
      · exact fun _ => hh
      · rw [(hh _).1, (hh _).2]; exact ha.h32 k
    · simp only [hk, if_false]; exact ha.h32 k'
  · rw [hE.view s k']
    by_cases hk : k = k'
    · subst hk; simp only [if_true]; exact hl
    · simp only [hk, if_false]; exact ha.l32 k'
  · rw [hE.view s c, hE.nr s]
    by_cases hk : k = c
    · subst hk; simp only [if_true]; rw [hb]; exact ha.nr k n
    · simp only [hk, if_false]; exact ha.nr c n

theorem aget_aset_beq {κ α} [BEq κ] [LawfulBEq κ] (m : List (κ × α)) (k k' : κ) (v : α) :
    aget (aset m k v) k' = if k == k' then some v else aget m k' := by
  induction m with
  | nil =>
    simp only [aset, aget, List.lookup]
    by_cases h : (k == k') = true
    · have : (k' == k) = true := by rw [beq_iff_eq] at h ⊢; exact h.symm
      simp [h, this]
    · have h' : (k == k') = false := by simpa using h
      have : (k' == k) = false := by
        cases hh : (k' == k) with
        | false => rfl
        | true => rw [beq_iff_eq] at hh; subst hh; simp at h'
      simp [h', this]
  | cons p m ih =>
    obtain ⟨k0, v0⟩ := p
    simp only [aset]
    by_cases h0 : (k0 == k) = true
    · have e0 : k0 = k := by simpa using h0
      subst e0
      simp only [beq_self_eq_true, if_true, aget, List.lookup]
      by_cases h : (k0 == k') = true
      · have : (k' == k0) = true := by rw [beq_iff_eq] at h ⊢; exact h.symm
        simp [h, this]
      · have h' : (k0 == k') = false := by simpa using h
        have : (k' == k0) = false := by
          cases hh : (k' == k0) with
          | false => rfl
          | true => rw [beq_iff_eq] at hh; subst hh; simp at h'
        simp [h', this]
    · have hb : (k0 == k) = false := by simpa using h0
      simp only [hb, Bool.false_eq_true, if_false, aget, List.lookup]
      by_cases h : (k' == k0) = true
      · have e : k' = k0 := by simpa using h
        subst e
        have : (k == k') = false := by
          cases hh : (k == k') with
          | false => rfl
          | true => rw [beq_iff_eq] at hh; subst hh; simp at hb
        simp [this]
      · have hb' : (k' == k0) = false := by simpa using h
        simp only [hb']
        exact ih

theorem aget_adel_beq {κ α} [BEq κ] [LawfulBEq κ] (m : List (κ × α)) (k k' : κ) :
    aget (adel m k) k' = if k == k' then none else aget m k' := by
  induction m with
  | nil => simp [adel, aget]
  | cons p m ih =>
    obtain ⟨k0, v0⟩ := p
    simp only [adel, List.filter]
    by_cases h0 : (k0 == k) = true
    · have e0 : k0 = k := by simpa using h0
      subst e0
      simp only [beq_self_eq_true, Bool.not_true]
      have := ih
      simp only [adel] at this
      rw [this]
      by_cases h : (k0 == k') = true
      · simp [h]
      · have h' : (k0 == k') = false := by simpa using h
        have hb' : (k' == k0) = false := by
          cases hh : (k' == k0) with
          | false => rfl
          | true => rw [beq_iff_eq] at hh; subst hh; simp at h'
        simp [h', aget, List.lookup, hb']
    · have hb : (k0 == k) = false := by simpa using h0
      simp only [hb, Bool.not_false, aget, List.lookup]
      by_cases h : (k' == k0) = true
      · have e : k' = k0 := by simpa using h
        subst e
        have : (k == k') = false := by
          cases hh : (k == k') with
          | false => rfl
          | true => rw [beq_iff_eq] at hh; subst hh; simp at hb
        simp [this]
      · have hb' : (k' == k0) = false := by simpa using h
        simp only [hb']
        have := ih
        simp only [adel, aget] at this
        exact this

theorem aget_nrAdd (m : List ((Nat × Cidr) × Nat)) (k k' : Nat × Cidr) :
    aget (nrAdd m k) k' = if k = k' then some ((aget m k).getD 0 + 1) else aget m k' := by
  unfold nrAdd; rw [aget_aset_beq]
  by_cases h : k = k' <;> simp [h]

theorem aget_nrRemove_ne (m : List ((Nat × Cidr) × Nat)) (k k' : Nat × Cidr) (h : k ≠ k') :
    aget (nrRemove m k) k' = aget m k' := by
  unfold nrRemove
  split
  · rw [aget_aset_beq]; simp [h]
  · rw [aget_adel_beq]; simp [h]

theorem empty_with_block_none (v : RouteInfo) (h : ({ v with block := none } : RouteInfo) ≠ {}) : v ≠ {} := by
  intro e; subst e; exact h rfl

/-- the "delete" step of `OnBlockUpdate`. -/
theorem Aux.delBody (s : St) (r : Nat × Cidr) (ha : Aux s) :
    Aux ({ s.removeBlockRoute r.2 with nodeRoutes := nrRemove (s.removeBlockRoute r.2).nodeRoutes r }) := by
  have hE := Edit.removeBlockRoute r.2
  have hv : ∀ k', ({ s.removeBlockRoute r.2 with nodeRoutes := nrRemove (s.removeBlockRoute r.2).nodeRoutes r } : St).view k'
      = if r.2 = k' then { s.view r.2 with block := none } else s.view k' := by
    intro k'; exact (view_congr (s.removeBlockRoute r.2) _ rfl k').trans (hE.view s k')
  refine ⟨fun k' => ?_, fun k' => ?_, fun c n => ?_⟩
  · rw [hv]
    by_cases hk : r.2 = k'
    · simp only [hk, if_true]; rw [← hk]; exact ha.h32 r.2
    · simp only [hk, if_false]; exact ha.h32 k'
  · rw [hv]
    by_cases hk : r.2 = k'
    · simp only [hk, if_true]; rw [← hk]
      exact fun h => ha.l32 r.2 (empty_with_block_none _ h)
    · simp only [hk, if_false]; exact ha.l32 k'
  · rw [hv]
    by_cases hk : r.2 = c
    · simp [hk]
    · simp only [hk, if_false]
      intro hb
      obtain ⟨j, hj⟩ := ha.nr c n hb
      refine ⟨j, ?_⟩
      show aget (nrRemove (s.removeBlockRoute r.2).nodeRoutes r) (n, c) = _
      rw [aget_nrRemove_ne _ _ _ (by intro e; exact hk (congrArg Prod.snd e)), hE.nr s]
      exact hj

/-- the "add" step of `OnBlockUpdate`. -/
theorem Aux.addBody (s : St) (r : Nat × Cidr) (ha : Aux s) (hl : r.2.len ≤ r.2.width) :
    Aux ({ s.updateBlockRoute r.2 r.1 with nodeRoutes := nrAdd (s.updateBlockRoute r.2 r.1).nodeRoutes r }) := by
  have hE := Edit.updateBlockRoute r.2 r.1
  have hv : ∀ k', ({ s.updateBlockRoute r.2 r.1 with nodeRoutes := nrAdd (s.updateBlockRoute r.2 r.1).nodeRoutes r } : St).view k'
      = if r.2 = k' then { s.view r.2 with block := some r.1 } else s.view k' := by
    intro k'; exact (view_congr (s.updateBlockRoute r.2 r.1) _ rfl k').trans (hE.view s k')
  refine ⟨fun k' => ?_, fun k' => ?_, fun c n => ?_⟩
  · rw [hv]
    by_cases hk : r.2 = k'
    · simp only [hk, if_true]; rw [← hk]; exact ha.h32 r.2
    · simp only [hk, if_false]; exact ha.h32 k'
  · rw [hv]
    by_cases hk : r.2 = k'
    · simp only [hk, if_true]; rw [← hk]; exact fun _ => hl
    · simp only [hk, if_false]; exact ha.l32 k'
  · rw [hv]
    show _ → ∃ j, aget (nrAdd (s.updateBlockRoute r.2 r.1).nodeRoutes r) (n, c) = _
    rw [aget_nrAdd]
    by_cases hk : r.2 = c
    · simp only [hk, if_true]
      intro hb
      have hn : r.1 = n := by simpa using hb
      have : r = (n, c) := by rw [← hn, ← hk]
      exact ⟨(aget (s.updateBlockRoute r.2 r.1).nodeRoutes r).getD 0, by simp [this]⟩
    · simp only [hk, if_false]
      intro hb
      obtain ⟨j, hj⟩ := ha.nr c n hb
      have : r ≠ (n, c) := by intro e; exact hk (congrArg Prod.snd e)
      refine ⟨j, ?_⟩
      simp only [this, if_false]
      rw [hE.nr s]; exact hj

end CalicoVerif.C43
