import CalicoVerif.Model.C04
/-! Helper lemmas for C04 (association lists, CIDR order, emission layer, refcount layer). -/
namespace CalicoVerif.C04

/-! ### association lists -/
section AL
variable {κ β : Type} [DecidableEq κ]

@[simp] theorem alGet_nil (k : κ) : alGet k ([] : List (κ × β)) = none := rfl

theorem alGet_cons (k k' : κ) (v : β) (l : List (κ × β)) :
    alGet k ((k', v) :: l) = if k' = k then some v else alGet k l := rfl

theorem alGet_alErase (k k' : κ) (l : List (κ × β)) :
    alGet k' (alErase k l) = if k' = k then none else alGet k' l := by
  induction l with
  | nil => simp [alErase]
  | cons p l ih =>
    obtain ⟨a, b⟩ := p
    unfold alErase at ih ⊢
    by_cases h : a = k
    · subst h
      simp only [List.filter_cons, ne_eq, not_true_eq_false, decide_false, Bool.false_eq_true, if_false, ih, alGet_cons]
      by_cases h' : k' = a <;> simp [h']
      intro h''; exact absurd h''.symm h'
    · simp only [List.filter_cons, ne_eq, h, not_false_eq_true, decide_true, if_true, alGet_cons, ih]
      by_cases h' : k' = k
      · subst h'; simp [h]
      · simp [h']

theorem alGet_alSet (k k' : κ) (v : β) (l : List (κ × β)) :
    alGet k' (alSet k v l) = if k' = k then some v else alGet k' l := by
  unfold alSet
  rw [alGet_cons, alGet_alErase]
  by_cases h : k' = k
  · subst h; simp
  · have : ¬ k = k' := fun e => h e.symm
    simp [h, this]

theorem alGet_alMod (k k' : κ) (f : β → β) (l : List (κ × β)) :
    alGet k' (alMod k f l) = if k' = k then (alGet k l).map f else alGet k' l := by
  induction l with
  | nil => simp [alMod]
  | cons p l ih =>
    obtain ⟨a, b⟩ := p
    unfold alMod at ih ⊢
    simp only [List.map_cons]
    by_cases h : a = k
    · subst h
      simp only [if_true, alGet_cons, ih]
      by_cases h' : k' = a
      · subst h'; simp
      · have : ¬ a = k' := fun e => h' e.symm
        simp [h', this]
    · simp only [h, if_false, alGet_cons, ih]
      by_cases h' : k' = k
      · subst h'; simp [h]
      · simp [h']

theorem alMod_keys (k : κ) (f : β → β) (l : List (κ × β)) :
    (alMod k f l).map (·.1) = l.map (·.1) := by
  unfold alMod
  rw [List.map_map]
  apply List.map_congr_left
  intro p _
  by_cases h : p.1 = k <;> simp [h]

theorem alGet_some_mem {k : κ} {v : β} {l : List (κ × β)} (h : alGet k l = some v) : (k, v) ∈ l := by
  induction l with
  | nil => simp at h
  | cons p l ih =>
    obtain ⟨a, b⟩ := p
    rw [alGet_cons] at h
    by_cases h' : a = k
    · subst h'; simp at h; subst h; simp
    · simp [h'] at h; exact List.mem_cons_of_mem _ (ih h)

theorem alGet_isSome_iff {k : κ} {l : List (κ × β)} : (alGet k l).isSome ↔ k ∈ l.map (·.1) := by
  induction l with
  | nil => simp
  | cons p l ih =>
    obtain ⟨a, b⟩ := p
    rw [alGet_cons]
    by_cases h' : a = k
    · subst h'; simp
    · have : ¬ k = a := fun e => h' e.symm
      simp [h', ih, this]

/-- With distinct keys, membership determines lookup. -/
theorem alGet_of_mem {k : κ} {v : β} {l : List (κ × β)} (nd : (l.map (·.1)).Nodup) (h : (k, v) ∈ l) :
    alGet k l = some v := by
  induction l with
  | nil => simp at h
  | cons p l ih =>
    obtain ⟨a, b⟩ := p
    simp only [List.map_cons, List.nodup_cons] at nd
    rw [alGet_cons]
    rcases List.mem_cons.1 h with h | h
    · cases h; simp
    · have : a ≠ k := by
        rintro rfl
        exact nd.1 (List.mem_map.2 ⟨_, h, rfl⟩)
      simp [this, ih nd.2 h]

end AL

/-! ### CIDR order -/

/-- Canonical (masked) CIDR, as built by `ip.CIDRFrom…`. -/
def Cidr.canon (c : Cidr) : Prop :=
  c.len ≤ width c.v6 ∧ c.addr % 2 ^ (width c.v6 - c.len) = 0

instance (c : Cidr) : Decidable c.canon := by unfold Cidr.canon; exact inferInstance

theorem shiftRight_mono_eq {x y i j : Nat} (h : x >>> i = y >>> i) (hij : i ≤ j) : x >>> j = y >>> j := by
  have : j = i + (j - i) := by omega
  rw [this, Nat.shiftRight_add, Nat.shiftRight_add, h]

theorem Cidr.sc_iff {a b : Cidr} :
    a.sc b = true ↔ a.v6 = b.v6 ∧ a.len < b.len ∧
      a.addr >>> (width a.v6 - a.len) = b.addr >>> (width a.v6 - a.len) := by
  unfold Cidr.sc Cidr.pfx
  constructor
  · intro h
    simp only [Bool.and_eq_true, beq_iff_eq, decide_eq_true_eq] at h
    obtain ⟨⟨h1, h2⟩, h3⟩ := h
    rw [← h1] at h3
    exact ⟨h1, h2, h3⟩
  · rintro ⟨h1, h2, h3⟩
    simp only [Bool.and_eq_true, beq_iff_eq, decide_eq_true_eq]
    refine ⟨⟨h1, h2⟩, ?_⟩
    rw [← h1]
    exact h3

theorem Cidr.sc_irrefl (a : Cidr) : a.sc a = false := by
  cases h : a.sc a
  · rfl
  · have := (Cidr.sc_iff.1 h).2.1; omega

theorem Cidr.sc_trans {a b c : Cidr} (h1 : a.sc b = true) (h2 : b.sc c = true) : a.sc c = true := by
  obtain ⟨v1, l1, p1⟩ := Cidr.sc_iff.1 h1
  obtain ⟨v2, l2, p2⟩ := Cidr.sc_iff.1 h2
  apply Cidr.sc_iff.2
  refine ⟨v1.trans v2, by omega, ?_⟩
  rw [p1]
  rw [← v1] at p2
  exact shiftRight_mono_eq p2 (by omega)

theorem Cidr.sc_ne {a b : Cidr} (h : a.sc b = true) : a ≠ b := by
  rintro rfl; rw [Cidr.sc_irrefl] at h; cases h

theorem canon_addr_eq {w l x y : Nat} (hx : x % 2 ^ (w - l) = 0) (hy : y % 2 ^ (w - l) = 0)
    (h : x >>> (w - l) = y >>> (w - l)) : x = y := by
  rw [Nat.shiftRight_eq_div_pow, Nat.shiftRight_eq_div_pow] at h
  have e1 := Nat.div_add_mod x (2 ^ (w - l))
  have e2 := Nat.div_add_mod y (2 ^ (w - l))
  rw [hx] at e1; rw [hy] at e2
  rw [← e1, ← e2, h]

/-- Two canonical CIDRs that both strictly contain a third are comparable. -/
theorem Cidr.sc_comparable {a b x : Cidr} (ca : a.canon) (cb : b.canon)
    (h1 : a.sc x = true) (h2 : b.sc x = true) : a.sc b = true ∨ a = b ∨ b.sc a = true := by
  obtain ⟨v1, l1, p1⟩ := Cidr.sc_iff.1 h1
  obtain ⟨v2, l2, p2⟩ := Cidr.sc_iff.1 h2
  have vab : a.v6 = b.v6 := v1.trans v2.symm
  rw [← vab] at p2
  rcases Nat.lt_trichotomy a.len b.len with h | h | h
  · left
    apply Cidr.sc_iff.2
    refine ⟨vab, h, ?_⟩
    rw [p1]
    exact (shiftRight_mono_eq p2 (by omega)).symm
  · right; left
    have : a.addr = b.addr := by
      apply canon_addr_eq (w := width a.v6) (l := a.len) ca.2
      · have := cb.2; rw [← vab, ← h] at this; exact this
      · rw [p1, h, p2]
    cases a; cases b; simp_all
  · right; right
    apply Cidr.sc_iff.2
    refine ⟨vab.symm, h, ?_⟩
    rw [← vab, p2]
    exact (shiftRight_mono_eq p1 (by omega)).symm

/-- Address `x` (of the CIDR's family) lies in `c`. -/
def Cidr.hasAddr (c : Cidr) (x : Nat) : Prop :=
  x >>> (width c.v6 - c.len) = c.addr >>> (width c.v6 - c.len)

theorem Cidr.hasAddr_of_sc {c d : Cidr} (h : c.sc d = true) {x : Nat} (hx : d.hasAddr x) : c.hasAddr x := by
  obtain ⟨v, l, p⟩ := Cidr.sc_iff.1 h
  unfold Cidr.hasAddr at hx ⊢
  rw [p]
  rw [← v] at hx
  exact shiftRight_mono_eq hx (by omega)

/-! ### the overlap suppressor on a stored set `t` -/

/-- `x` is stored and no stored CIDR strictly contains it: what the consumer should hold. -/
def vis (t : List Cidr) (x : Cidr) : Prop := x ∈ t ∧ ∀ d ∈ t, d.sc x = false

theorem covers_iff {t : List Cidr} {c : Cidr} : covers t c = true ↔ ∃ d ∈ t, d = c ∨ d.sc c = true := by
  simp [covers]

theorem mem_closestDesc {t : List Cidr} {c x : Cidr} :
    x ∈ closestDesc t c ↔ x ∈ t ∧ c.sc x = true ∧ ∀ e ∈ t, c.sc e = true → e.sc x = false := by
  simp only [closestDesc, List.mem_filter, Bool.and_eq_true, Bool.not_eq_true', List.any_eq_false,
    Bool.and_eq_true, not_and, Bool.not_eq_true]

theorem closestDesc_nodup {t : List Cidr} (nd : t.Nodup) (c : Cidr) : (closestDesc t c).Nodup :=
  nd.filter _

/-- `Add` of an absent CIDR that is covered: nothing changes for the consumer. -/
theorem supAdd_covered {t : List Cidr} {c : Cidr} (hc : c ∉ t) (hcov : covers t c = true) (x : Cidr) :
    vis (c :: t) x ↔ vis t x := by
  obtain ⟨d, hd, hdc⟩ := covers_iff.1 hcov
  have hdc' : d.sc c = true := by
    rcases hdc with rfl | h
    · exact absurd hd hc
    · exact h
  constructor
  · rintro ⟨h1, h2⟩
    rcases List.mem_cons.1 h1 with rfl | h1
    · have := h2 d (List.mem_cons_of_mem _ hd); rw [hdc'] at this; cases this
    · exact ⟨h1, fun e he => h2 e (List.mem_cons_of_mem _ he)⟩
  · rintro ⟨h1, h2⟩
    refine ⟨List.mem_cons_of_mem _ h1, ?_⟩
    intro e he
    rcases List.mem_cons.1 he with rfl | he
    · cases h : e.sc x
      · rfl
      · have := h2 d hd; rw [Cidr.sc_trans hdc' h] at this; cases this
    · exact h2 e he

/-- `Add` of an absent, uncovered CIDR: it becomes visible, exactly its closest
descendants (all visible before) stop being visible. -/
theorem supAdd_uncovered {t : List Cidr} {c : Cidr} (ct : ∀ d ∈ t, d.canon) (cc : c.canon)
    (hc : c ∉ t) (hcov : covers t c = false) :
    (∀ x ∈ closestDesc (c :: t) c, vis t x) ∧
    (∀ x, vis (c :: t) x ↔ (x = c ∨ vis t x) ∧ x ∉ closestDesc (c :: t) c) := by
  have hnc : ∀ d ∈ t, d.sc c = false := by
    intro d hd
    cases h : d.sc c
    · rfl
    · have : covers t c = true := covers_iff.2 ⟨d, hd, Or.inr h⟩
      rw [hcov] at this; cases this
  constructor
  · intro x hx
    obtain ⟨h1, h2, h3⟩ := mem_closestDesc.1 hx
    have hxt : x ∈ t := by
      rcases List.mem_cons.1 h1 with rfl | h
      · rw [Cidr.sc_irrefl] at h2; cases h2
      · exact h
    refine ⟨hxt, ?_⟩
    intro d hd
    cases h : d.sc x
    · rfl
    · rcases Cidr.sc_comparable (ct d hd) cc h h2 with h' | h' | h'
      · rw [hnc d hd] at h'; cases h'
      · subst h'; exact absurd hd hc
      · have := h3 d (List.mem_cons_of_mem _ hd) h'; rw [h] at this; cases this
  · intro x
    constructor
    · rintro ⟨h1, h2⟩
      constructor
      · rcases List.mem_cons.1 h1 with rfl | h1
        · exact Or.inl rfl
        · exact Or.inr ⟨h1, fun e he => h2 e (List.mem_cons_of_mem _ he)⟩
      · intro hx
        have := (mem_closestDesc.1 hx).2.1
        rw [h2 c (List.mem_cons_self ..)] at this; cases this
    · rintro ⟨h1, h2⟩
      rcases h1 with rfl | ⟨h1, h1'⟩
      · refine ⟨List.mem_cons_self .., ?_⟩
        intro e he
        rcases List.mem_cons.1 he with rfl | he
        · exact Cidr.sc_irrefl _
        · exact hnc e he
      · refine ⟨List.mem_cons_of_mem _ h1, ?_⟩
        intro e he
        rcases List.mem_cons.1 he with rfl | he
        · cases h : e.sc x
          · rfl
          · exfalso
            apply h2
            apply mem_closestDesc.2
            refine ⟨List.mem_cons_of_mem _ h1, h, ?_⟩
            intro f hf hef
            rcases List.mem_cons.1 hf with rfl | hf
            · rw [Cidr.sc_irrefl] at hef; cases hef
            · exact h1' f hf
        · exact h1' e he

theorem mem_filter_ne {t : List Cidr} {c x : Cidr} : x ∈ t.filter (fun d => d ≠ c) ↔ x ∈ t ∧ x ≠ c := by
  simp

/-- `Remove` of a stored CIDR that stays covered: nothing changes for the consumer. -/
theorem supRemove_covered {t : List Cidr} {c : Cidr}
    (hcov : covers (t.filter (fun d => d ≠ c)) c = true) (x : Cidr) :
    vis (t.filter (fun d => d ≠ c)) x ↔ vis t x ∧ x ≠ c := by
  obtain ⟨d, hd, hdc⟩ := covers_iff.1 hcov
  obtain ⟨hdt, hdne⟩ := mem_filter_ne.1 hd
  have hdc' : d.sc c = true := by
    rcases hdc with rfl | h
    · exact absurd rfl hdne
    · exact h
  constructor
  · rintro ⟨h1, h2⟩
    obtain ⟨h1t, h1ne⟩ := mem_filter_ne.1 h1
    refine ⟨⟨h1t, ?_⟩, h1ne⟩
    intro e he
    by_cases hec : e = c
    · subst hec
      cases h : e.sc x
      · rfl
      · have := h2 d hd; rw [Cidr.sc_trans hdc' h] at this; cases this
    · exact h2 e (mem_filter_ne.2 ⟨he, hec⟩)
  · rintro ⟨⟨h1, h2⟩, h3⟩
    exact ⟨mem_filter_ne.2 ⟨h1, h3⟩, fun e he => h2 e (mem_filter_ne.1 he).1⟩

theorem not_vis_of_covered {t : List Cidr} {c : Cidr}
    (hcov : covers (t.filter (fun d => d ≠ c)) c = true) : ¬ vis t c := by
  obtain ⟨d, hd, hdc⟩ := covers_iff.1 hcov
  obtain ⟨hdt, hdne⟩ := mem_filter_ne.1 hd
  rintro ⟨_, h2⟩
  rcases hdc with rfl | h
  · exact hdne rfl
  · rw [h2 d hdt] at h; cases h

/-- `Remove` of a stored, uncovered CIDR: it was visible, its closest descendants were not
and become visible. -/
theorem supRemove_uncovered {t : List Cidr} {c : Cidr} (ct : ∀ d ∈ t, d.canon) (hc : c ∈ t)
    (hcov : covers (t.filter (fun d => d ≠ c)) c = false) :
    vis t c ∧ (∀ x ∈ closestDesc t c, ¬ vis t x ∧ x ≠ c) ∧
    (∀ x, vis (t.filter (fun d => d ≠ c)) x ↔ (vis t x ∧ x ≠ c) ∨ x ∈ closestDesc t c) := by
  have hnc : ∀ d ∈ t, d.sc c = false := by
    intro d hd
    by_cases hdc : d = c
    · subst hdc; exact Cidr.sc_irrefl _
    · cases h : d.sc c
      · rfl
      · have : covers (t.filter (fun d => d ≠ c)) c = true :=
          covers_iff.2 ⟨d, mem_filter_ne.2 ⟨hd, hdc⟩, Or.inr h⟩
        rw [hcov] at this; cases this
  refine ⟨⟨hc, hnc⟩, ?_, ?_⟩
  · intro x hx
    obtain ⟨h1, h2, _⟩ := mem_closestDesc.1 hx
    constructor
    · rintro ⟨_, h⟩; rw [h c hc] at h2; cases h2
    · rintro rfl; rw [Cidr.sc_irrefl] at h2; cases h2
  · intro x
    constructor
    · rintro ⟨h1, h2⟩
      obtain ⟨h1t, h1ne⟩ := mem_filter_ne.1 h1
      cases hcx : c.sc x
      · left
        refine ⟨⟨h1t, ?_⟩, h1ne⟩
        intro e he
        by_cases hec : e = c
        · subst hec; exact hcx
        · exact h2 e (mem_filter_ne.2 ⟨he, hec⟩)
      · right
        apply mem_closestDesc.2
        refine ⟨h1t, hcx, ?_⟩
        intro e he hce
        exact h2 e (mem_filter_ne.2 ⟨he, (Cidr.sc_ne hce).symm⟩)
    · rintro (⟨⟨h1, h2⟩, h3⟩ | hx)
      · exact ⟨mem_filter_ne.2 ⟨h1, h3⟩, fun e he => h2 e (mem_filter_ne.1 he).1⟩
      · obtain ⟨h1, h2, h3⟩ := mem_closestDesc.1 hx
        refine ⟨mem_filter_ne.2 ⟨h1, (Cidr.sc_ne h2).symm⟩, ?_⟩
        intro e he
        obtain ⟨het, hene⟩ := mem_filter_ne.1 he
        cases h : e.sc x
        · rfl
        · rcases Cidr.sc_comparable (ct e het) (ct c hc) h h2 with h' | h' | h'
          · rw [hnc e het] at h'; cases h'
          · exact absurd h' hene
          · have := h3 e het h'; rw [h] at this; cases this

/-! ### strict replay of callbacks -/

theorem replayFrom_append (d : Down) (a b : List Event) :
    replayFrom d (a ++ b) = (replayFrom d a).bind (fun d' => replayFrom d' b) := by
  induction a generalizing d with
  | nil => simp [replayFrom]
  | cons e a ih =>
    simp only [List.cons_append, replayFrom]
    cases applyEvent d e with
    | none => simp
    | some d' => simp [ih]

theorem replay_append {out evs : List Event} {D D' : Down} (h : replay out = some D)
    (h' : replayFrom D evs = some D') : replay (out ++ evs) = some D' := by
  unfold replay at h ⊢
  rw [replayFrom_append, h]; simpa using h'

theorem replayFrom_removes (s : String) (xs : List Member) (D : Down) (nd : xs.Nodup)
    (h : ∀ x ∈ xs, (s, x) ∈ D) :
    ∃ D', replayFrom D (xs.map (Event.removed s)) = some D' ∧
      ∀ p, p ∈ D' ↔ p ∈ D ∧ ¬ ∃ x ∈ xs, p = (s, x) := by
  induction xs generalizing D with
  | nil => exact ⟨D, rfl, by simp⟩
  | cons x xs ih =>
    have hx : (s, x) ∈ D := h x (List.mem_cons_self ..)
    obtain ⟨hxn, nd'⟩ := List.nodup_cons.1 nd
    have h' : ∀ y ∈ xs, (s, y) ∈ D.filter (fun p => p ≠ (s, x)) := by
      intro y hy
      simp only [List.mem_filter, decide_eq_true_eq]
      refine ⟨h y (List.mem_cons_of_mem _ hy), ?_⟩
      intro e; cases e; exact hxn hy
    obtain ⟨D', hD', hmem⟩ := ih (D.filter (fun p => p ≠ (s, x))) nd' h'
    refine ⟨D', ?_, ?_⟩
    · simp only [List.map_cons, replayFrom, applyEvent, hx, if_true]
      exact hD'
    · intro p
      rw [hmem]
      simp only [List.mem_filter, decide_eq_true_eq, List.mem_cons, exists_eq_or_imp, not_or]
      constructor
      · rintro ⟨⟨h1, h2⟩, h3⟩; exact ⟨h1, h2, h3⟩
      · rintro ⟨h1, h2, h3⟩; exact ⟨⟨h1, h2⟩, h3⟩

theorem replayFrom_adds (s : String) (xs : List Member) (D : Down) (nd : xs.Nodup)
    (h : ∀ x ∈ xs, (s, x) ∉ D) :
    ∃ D', replayFrom D (xs.map (Event.added s)) = some D' ∧
      ∀ p, p ∈ D' ↔ p ∈ D ∨ ∃ x ∈ xs, p = (s, x) := by
  induction xs generalizing D with
  | nil => exact ⟨D, rfl, by simp⟩
  | cons x xs ih =>
    have hx : (s, x) ∉ D := h x (List.mem_cons_self ..)
    obtain ⟨hxn, nd'⟩ := List.nodup_cons.1 nd
    have h' : ∀ y ∈ xs, (s, y) ∉ (s, x) :: D := by
      intro y hy
      simp only [List.mem_cons, not_or]
      refine ⟨?_, h y (List.mem_cons_of_mem _ hy)⟩
      intro e; cases e; exact hxn hy
    obtain ⟨D', hD', hmem⟩ := ih ((s, x) :: D) nd' h'
    refine ⟨D', ?_, ?_⟩
    · simp only [List.map_cons, replayFrom, applyEvent, hx, if_false]
      exact hD'
    · intro p
      rw [hmem]
      simp only [List.mem_cons, exists_eq_or_imp]
      constructor
      · rintro ((h1 | h1) | h1)
        · exact Or.inr (Or.inl h1)
        · exact Or.inl h1
        · exact Or.inr (Or.inr h1)
      · rintro (h1 | h1 | h1)
        · exact Or.inl (Or.inr h1)
        · exact Or.inl (Or.inl h1)
        · exact Or.inr h1

/-! ### the emission layer -/
set_option linter.unusedSectionVars false
section Emission
variable {Sel : Type} [DecidableEq Sel]

theorem foldl_emit {α : Type} (f : α → Event) (xs : List α) (st : Idx Sel) :
    xs.foldl (fun st x => emit (f x) st) st = { st with out := st.out ++ xs.map f } := by
  induction xs generalizing st with
  | nil => simp
  | cons x xs ih =>
    rw [List.foldl_cons, ih]
    simp [emit, List.append_assoc]

/-- What the consumer should hold for set `s`: members with a positive refcount, minus (with
suppression) CIDRs strictly inside another refcounted CIDR. -/
def visible (st : Idx Sel) (s : String) (m : Member) : Prop :=
  0 < refCount st s m ∧
  (st.suppress = true → ∀ c, m = .cidr c → ∀ c', 0 < refCount st s (.cidr c') → c'.sc c = false)

/-- Invariant tying callbacks and suppressor tries to the refcount maps. -/
structure EInv (st : Idx Sel) : Prop where
  down : ∃ D, replay st.out = some D ∧ ∀ s m, (s, m) ∈ D ↔ visible st s m
  trie : st.suppress = true → ∀ s c, c ∈ trieOf st s ↔ 0 < refCount st s (.cidr c)
  trieNodup : ∀ s, (trieOf st s).Nodup
  canon : ∀ s c, 0 < refCount st s (.cidr c) → c.canon

theorem visible_cidr_vis {st : Idx Sel} {T : List Cidr} {s : String} (hs : st.suppress = true)
    (hT : ∀ c, c ∈ T ↔ 0 < refCount st s (.cidr c)) (x : Cidr) :
    visible st s (.cidr x) ↔ vis T x := by
  unfold visible vis
  rw [hT]
  constructor
  · rintro ⟨h1, h2⟩
    refine ⟨h1, fun d hd => h2 hs x rfl d ((hT d).1 hd)⟩
  · rintro ⟨h1, h2⟩
    refine ⟨h1, fun _ c hc c' hc' => ?_⟩
    cases hc
    exact h2 c' ((hT c').2 hc')

theorem visible_ipp (st : Idx Sel) (s : String) (v : Bool) (a po pr : Nat) :
    visible st s (.ipp v a po pr) ↔ 0 < refCount st s (.ipp v a po pr) := by
  unfold visible
  constructor
  · exact fun h => h.1
  · exact fun h => ⟨h, fun _ c hc => by cases hc⟩

theorem visible_noop {st : Idx Sel} (hs : st.suppress = false) (s : String) (m : Member) :
    visible st s m ↔ 0 < refCount st s m := by
  unfold visible
  simp [hs]

theorem visible_congr {st st' : Idx Sel} {s : String} (hsup : st'.suppress = st.suppress)
    (h : ∀ m, 0 < refCount st' s m ↔ 0 < refCount st s m) (m : Member) :
    visible st' s m ↔ visible st s m := by
  unfold visible
  rw [hsup, h]
  constructor
  · rintro ⟨h1, h2⟩; exact ⟨h1, fun hs c hc c' hc' => h2 hs c hc c' ((h _).2 hc')⟩
  · rintro ⟨h1, h2⟩; exact ⟨h1, fun hs c hc c' hc' => h2 hs c hc c' ((h _).1 hc')⟩

theorem onMemberAdded_noop {st : Idx Sel} (hs : st.suppress = false) (s : String) (m : Member) :
    onMemberAdded s m st = emit (.added s m) st := by
  cases m <;> simp [onMemberAdded, supAdd, hs]

theorem onMemberRemoved_noop {st : Idx Sel} (hs : st.suppress = false) (s : String) (m : Member) :
    onMemberRemoved s m st = emit (.removed s m) st := by
  cases m <;> simp [onMemberRemoved, supRemove, hs]

theorem onMemberAdded_sup {st : Idx Sel} (hs : st.suppress = true) (s : String) (c : Cidr) :
    onMemberAdded s (.cidr c) st =
      { st with
        tries := alSet s (setAdd c (trieOf st s)) st.tries
        out := st.out ++ (if covers (trieOf st s) c then []
          else .added s (.cidr c) ::
            (closestDesc (setAdd c (trieOf st s)) c).map (fun x => Event.removed s (.cidr x))) } := by
  simp only [onMemberAdded, supAdd, hs, if_true]
  by_cases hc : covers (trieOf st s) c = true
  · simp [hc]
  · simp only [hc, Bool.false_eq_true, if_false, if_true]
    rw [foldl_emit]
    simp [emit]

theorem onMemberRemoved_sup {st : Idx Sel} (hs : st.suppress = true) (s : String) (c : Cidr) :
    onMemberRemoved s (.cidr c) st =
      { st with
        tries := alSet s ((trieOf st s).filter (fun d => d ≠ c)) st.tries
        out := st.out ++ (if covers ((trieOf st s).filter (fun d => d ≠ c)) c then []
          else .removed s (.cidr c) ::
            (closestDesc (trieOf st s) c).map (fun x => Event.added s (.cidr x))) } := by
  simp only [onMemberRemoved, supRemove, hs, if_true]
  generalize (trieOf st s).filter (fun d => d ≠ c) = t'
  by_cases hc : covers t' c = true
  · simp [hc]
  · simp only [hc, Bool.false_eq_true, if_false, if_true]
    rw [foldl_emit]
    simp [emit]

theorem trieOf_alSet (st : Idx Sel) (s s' : String) (t : List Cidr) (o : List Event) :
    trieOf { st with tries := alSet s t st.tries, out := o } s' = if s' = s then t else trieOf st s' := by
  unfold trieOf
  simp only [alGet_alSet]
  by_cases h : s' = s <;> simp [h]

theorem einv_congr {st st' : Idx Sel} (hE : EInv st) (hsup : st'.suppress = st.suppress)
    (hout : st'.out = st.out) (htr : ∀ s, trieOf st' s = trieOf st s)
    (hpos : ∀ s m, 0 < refCount st' s m ↔ 0 < refCount st s m) : EInv st' := by
  obtain ⟨D, hD, hmem⟩ := hE.down
  refine ⟨⟨D, by rw [hout]; exact hD, fun s m => ?_⟩, ?_, ?_, ?_⟩
  · rw [hmem, visible_congr hsup (hpos s)]
  · intro hs s c
    rw [htr, hpos]
    exact hE.trie (hsup ▸ hs) s c
  · intro s; rw [htr]; exact hE.trieNodup s
  · intro s c h; exact hE.canon s c ((hpos _ _).1 h)

/-- a plain (unsuppressed) add of a member whose refcount was 0 -/
theorem einv_incr_plain {st st' : Idx Sel} {s : String} {m : Member} (hE : EInv st)
    (hm : ∀ c, m = .cidr c → c.canon) (hsup : st'.suppress = st.suppress)
    (hpos : ∀ s' m', 0 < refCount st' s' m' ↔ (0 < refCount st s' m' ∨ (s' = s ∧ m' = m)))
    (h0 : refCount st s m = 0)
    (hplain : st.suppress = true → ∀ c, m ≠ .cidr c)
    (hout : st'.out = st.out ++ [.added s m])
    (htr : ∀ s, trieOf st' s = trieOf st s) : EInv st' := by
  obtain ⟨D, hD, hmem⟩ := hE.down
  have hnv : (s, m) ∉ D := by
    rw [hmem]; intro h; have := h.1; omega
  have hposc : st.suppress = true → ∀ s' c, 0 < refCount st' s' (.cidr c) ↔ 0 < refCount st s' (.cidr c) := by
    intro hs s' c
    rw [hpos]
    constructor
    · rintro (h | ⟨_, h⟩)
      · exact h
      · exact absurd h.symm (hplain hs c)
    · exact Or.inl
  refine ⟨⟨(s, m) :: D, ?_, fun s' m' => ?_⟩, ?_, ?_, ?_⟩
  · rw [hout]
    apply replay_append hD
    simp [replayFrom, applyEvent, hnv]
  · simp only [List.mem_cons, Prod.mk.injEq, hmem]
    unfold visible
    rw [hpos, hsup]
    constructor
    · rintro (⟨rfl, rfl⟩ | ⟨h1, h2⟩)
      · refine ⟨Or.inr ⟨rfl, rfl⟩, fun hs c hc => ?_⟩
        exact absurd hc (hplain hs c)
      · refine ⟨Or.inl h1, fun hs c hc c' hc' => h2 hs c hc c' ((hposc hs _ _).1 hc')⟩
    · rintro ⟨h1 | h1, h2⟩
      · right
        exact ⟨h1, fun hs c hc c' hc' => h2 hs c hc c' ((hposc hs _ _).2 hc')⟩
      · left; exact h1
  · intro hs s' c
    have hs' : st.suppress = true := hsup ▸ hs
    rw [htr, hposc hs']
    exact hE.trie hs' s' c
  · intro s'; rw [htr]; exact hE.trieNodup s'
  · intro s' c h
    rcases (hpos _ _).1 h with h | ⟨_, h⟩
    · exact hE.canon s' c h
    · exact hm c h.symm

theorem trieOf_congr {st st' : Idx Sel} (h : st'.tries = st.tries) (s : String) :
    trieOf st' s = trieOf st s := by
  unfold trieOf; rw [h]

theorem einv_incr {st st' : Idx Sel} {s : String} {m : Member} (hE : EInv st)
    (hm : ∀ c, m = .cidr c → c.canon) (hsup : st'.suppress = st.suppress)
    (hpos : ∀ s' m', 0 < refCount st' s' m' ↔ (0 < refCount st s' m' ∨ (s' = s ∧ m' = m)))
    (hout : st'.out = (if refCount st s m = 0 then onMemberAdded s m st else st).out)
    (htr : st'.tries = (if refCount st s m = 0 then onMemberAdded s m st else st).tries) : EInv st' := by
  by_cases h0 : refCount st s m = 0
  · simp only [h0, if_true] at hout htr
    by_cases hs : st.suppress = true
    · cases m with
      | ipp v a po pr =>
        apply einv_incr_plain hE hm hsup hpos h0 (fun _ c h => by cases h)
        · rw [hout]; rfl
        · intro s'; exact trieOf_congr htr s'
      | cidr c =>
        rw [onMemberAdded_sup hs] at hout htr
        simp only at hout htr
        have hcan : c.canon := hm c rfl
        have hct : c ∉ trieOf st s := by
          rw [hE.trie hs]; omega
        have hset : setAdd c (trieOf st s) = c :: trieOf st s := by simp [setAdd, hct]
        rw [hset] at hout htr
        have htrie' : ∀ s', trieOf st' s' = if s' = s then c :: trieOf st s else trieOf st s' := by
          intro s'
          show (alGet s' st'.tries).getD [] = _
          rw [htr, alGet_alSet]
          by_cases h : s' = s
          · simp [h]
          · simp [h, trieOf]
        have hposc : ∀ s' x, 0 < refCount st' s' (.cidr x) ↔ (0 < refCount st s' (.cidr x) ∨ (s' = s ∧ x = c)) := by
          intro s' x; rw [hpos]; simp
        have hT' : ∀ x, x ∈ trieOf st' s ↔ 0 < refCount st' s (.cidr x) := by
          intro x
          rw [htrie', if_pos rfl, hposc, List.mem_cons, hE.trie hs]
          constructor
          · rintro (h | h); exact Or.inr ⟨rfl, h⟩; exact Or.inl h
          · rintro (h | ⟨_, h⟩); exact Or.inr h; exact Or.inl h
        have hs' : st'.suppress = true := hsup.trans hs
        have hct' : ∀ d ∈ trieOf st s, d.canon := fun d hd => hE.canon s d ((hE.trie hs s d).1 hd)
        obtain ⟨D, hD, hmem⟩ := hE.down
        have hDvis : ∀ x, (s, Member.cidr x) ∈ D ↔ vis (trieOf st s) x := by
          intro x; rw [hmem]; exact visible_cidr_vis hs (hE.trie hs s) x
        -- membership for sets other than `s` and for non-CIDR members is unaffected
        have hother : ∀ s' m', (s' ≠ s ∨ ∀ x, m' ≠ .cidr x) → (visible st' s' m' ↔ visible st s' m') := by
          intro s' m' hne
          unfold visible
          rw [hpos, hsup]
          have hcc : ∀ c', 0 < refCount st' s' (.cidr c') → s' ≠ s → 0 < refCount st s' (.cidr c') := by
            intro c' h hn
            rcases (hposc _ _).1 h with h | ⟨h, _⟩
            · exact h
            · exact absurd h hn
          constructor
          · rintro ⟨h1 | ⟨h1, h1'⟩, h2⟩
            · refine ⟨h1, fun hs c hc c' hc' => h2 hs c hc c' ((hposc _ _).2 (Or.inl hc'))⟩
            · rcases hne with hne | hne
              · exact absurd h1 hne
              · exact absurd h1' (hne c)
          · rintro ⟨h1, h2⟩
            refine ⟨Or.inl h1, fun hs c hc c' hc' => ?_⟩
            rcases hne with hne | hne
            · exact h2 hs c hc c' (hcc c' hc' hne)
            · exact absurd hc (hne c)
        have hrest : (∃ D', replay st'.out = some D' ∧ ∀ s' m', (s', m') ∈ D' ↔ visible st' s' m') := by
          by_cases hcov : covers (trieOf st s) c = true
          · refine ⟨D, ?_, fun s' m' => ?_⟩
            · rw [hout]; simp [hcov, hD]
            · by_cases hne : s' ≠ s ∨ ∀ x, m' ≠ .cidr x
              · rw [hother s' m' hne, hmem]
              · have : s' = s ∧ ∃ x, m' = .cidr x := by
                  constructor
                  · exact Classical.not_not.1 (fun h => hne (Or.inl h))
                  · exact Classical.not_forall_not.1 (fun h => hne (Or.inr h))
                obtain ⟨rfl, x, rfl⟩ := this
                rw [visible_cidr_vis hs' hT', htrie', if_pos rfl, hDvis]
                exact (supAdd_covered hct hcov x).symm
          · have hcov' : covers (trieOf st s) c = false := by simpa using hcov
            obtain ⟨hA, hB⟩ := supAdd_uncovered hct' hcan hct hcov'
            have hnv : (s, Member.cidr c) ∉ D := by
              rw [hmem]; intro h; have := h.1; omega
            have hxs : ((closestDesc (c :: trieOf st s) c).map Member.cidr).Nodup := by
              exact List.Pairwise.map Member.cidr (fun a b h he => h (by cases he; rfl))
                (closestDesc_nodup (List.nodup_cons.2 ⟨hct, hE.trieNodup s⟩) c)
            obtain ⟨D', hD', hmem'⟩ := replayFrom_removes s ((closestDesc (c :: trieOf st s) c).map Member.cidr)
              ((s, Member.cidr c) :: D) hxs (by
                intro x hx
                obtain ⟨y, hy, rfl⟩ := List.mem_map.1 hx
                exact List.mem_cons_of_mem _ ((hDvis y).2 (hA y hy)))
            refine ⟨D', ?_, fun s' m' => ?_⟩
            · rw [hout]
              apply replay_append hD
              simp only [hcov, Bool.false_eq_true, if_false, replayFrom, applyEvent, hnv]
              rw [← hD', List.map_map]
              rfl
            · rw [hmem']
              by_cases hne : s' ≠ s ∨ ∀ x, m' ≠ .cidr x
              · rw [hother s' m' hne, ← hmem]
                constructor
                · rintro ⟨h1, _⟩
                  rcases List.mem_cons.1 h1 with h1 | h1
                  · cases h1
                    rcases hne with hne | hne
                    · exact absurd rfl hne
                    · exact absurd rfl (hne c)
                  · exact h1
                · intro h1
                  refine ⟨List.mem_cons_of_mem _ h1, ?_⟩
                  rintro ⟨x, hx, he⟩
                  obtain ⟨y, _, rfl⟩ := List.mem_map.1 hx
                  cases he
                  rcases hne with hne | hne
                  · exact absurd rfl hne
                  · exact absurd rfl (hne y)
              · have : s' = s ∧ ∃ x, m' = .cidr x := by
                  constructor
                  · exact Classical.not_not.1 (fun h => hne (Or.inl h))
                  · exact Classical.not_forall_not.1 (fun h => hne (Or.inr h))
                obtain ⟨rfl, x, rfl⟩ := this
                rw [visible_cidr_vis hs' hT', htrie', if_pos rfl, hB x]
                constructor
                · rintro ⟨h1, h2⟩
                  refine ⟨?_, fun hx => h2 ⟨_, List.mem_map.2 ⟨x, hx, rfl⟩, rfl⟩⟩
                  rcases List.mem_cons.1 h1 with h1 | h1
                  · left; cases h1; rfl
                  · right; exact (hDvis x).1 h1
                · rintro ⟨h1, h2⟩
                  refine ⟨?_, ?_⟩
                  · rcases h1 with rfl | h1
                    · exact List.mem_cons_self ..
                    · exact List.mem_cons_of_mem _ ((hDvis x).2 h1)
                  · rintro ⟨y, hy, he⟩
                    obtain ⟨z, hz, rfl⟩ := List.mem_map.1 hy
                    cases he
                    exact h2 hz
        refine ⟨hrest, ?_, ?_, ?_⟩
        · intro _ s' x
          by_cases h : s' = s
          · subst h; exact hT' x
          · rw [htrie', if_neg h, hposc, hE.trie hs]
            constructor
            · exact Or.inl
            · rintro (h' | ⟨h', _⟩); exact h'; exact absurd h' h
        · intro s'
          rw [htrie']
          by_cases h : s' = s
          · rw [if_pos h]; exact List.nodup_cons.2 ⟨hct, hE.trieNodup s⟩
          · rw [if_neg h]; exact hE.trieNodup s'
        · intro s' x h
          rcases (hposc _ _).1 h with h | ⟨_, h⟩
          · exact hE.canon s' x h
          · subst h; exact hcan
    · have hs' : st.suppress = false := by simpa using hs
      rw [onMemberAdded_noop hs'] at hout htr
      apply einv_incr_plain hE hm hsup hpos h0 (fun h => by rw [hs'] at h; cases h)
      · rw [hout]; rfl
      · intro s'; exact trieOf_congr htr s'
  · simp only [h0, if_false] at hout htr
    apply einv_congr hE hsup hout (trieOf_congr htr)
    intro s' m'
    rw [hpos]
    constructor
    · rintro (h | ⟨rfl, rfl⟩)
      · exact h
      · omega
    · exact Or.inl

/-- a plain (unsuppressed) removal of a member whose refcount was positive -/
theorem einv_decr_plain {st st' : Idx Sel} {s : String} {m : Member} (hE : EInv st)
    (hsup : st'.suppress = st.suppress)
    (hpos : ∀ s' m', 0 < refCount st' s' m' ↔ (0 < refCount st s' m' ∧ ¬ (s' = s ∧ m' = m)))
    (h0 : 0 < refCount st s m)
    (hplain : st.suppress = true → ∀ c, m ≠ .cidr c)
    (hout : st'.out = st.out ++ [.removed s m])
    (htr : ∀ s, trieOf st' s = trieOf st s) : EInv st' := by
  obtain ⟨D, hD, hmem⟩ := hE.down
  have hv : (s, m) ∈ D := by
    rw [hmem]
    refine ⟨h0, fun hs c hc => absurd hc (hplain hs c)⟩
  have hposc : st.suppress = true → ∀ s' c, 0 < refCount st' s' (.cidr c) ↔ 0 < refCount st s' (.cidr c) := by
    intro hs s' c
    rw [hpos]
    constructor
    · exact fun h => h.1
    · exact fun h => ⟨h, fun h' => hplain hs c h'.2.symm⟩
  refine ⟨⟨D.filter (fun p => p ≠ (s, m)), ?_, fun s' m' => ?_⟩, ?_, ?_, ?_⟩
  · rw [hout]
    apply replay_append hD
    simp [replayFrom, applyEvent, hv]
  · simp only [List.mem_filter, decide_eq_true_eq, ne_eq, Prod.mk.injEq, hmem]
    unfold visible
    rw [hpos, hsup]
    constructor
    · rintro ⟨⟨h1, h2⟩, h3⟩
      exact ⟨⟨h1, h3⟩, fun hs c hc c' hc' => h2 hs c hc c' ((hposc hs _ _).1 hc')⟩
    · rintro ⟨⟨h1, h3⟩, h2⟩
      exact ⟨⟨h1, fun hs c hc c' hc' => h2 hs c hc c' ((hposc hs _ _).2 hc')⟩, h3⟩
  · intro hs s' c
    have hs' : st.suppress = true := hsup ▸ hs
    rw [htr, hposc hs']
    exact hE.trie hs' s' c
  · intro s'; rw [htr]; exact hE.trieNodup s'
  · intro s' c h
    exact hE.canon s' c ((hpos _ _).1 h).1

/-- `Z` = "this decrement takes the refcount to zero" (or a forced removal). -/
theorem einv_decr {st st' : Idx Sel} {s : String} {m : Member} (Z : Prop) [Decidable Z] (hE : EInv st)
    (hsup : st'.suppress = st.suppress) (h1 : 0 < refCount st s m)
    (hpos : ∀ s' m', 0 < refCount st' s' m' ↔ (0 < refCount st s' m' ∧ ¬ (s' = s ∧ m' = m ∧ Z)))
    (hout : st'.out = (if Z then onMemberRemoved s m st else st).out)
    (htr : st'.tries = (if Z then onMemberRemoved s m st else st).tries) : EInv st' := by
  by_cases hZ : Z
  · simp only [hZ, if_true] at hout htr
    have hpos' : ∀ s' m', 0 < refCount st' s' m' ↔ (0 < refCount st s' m' ∧ ¬ (s' = s ∧ m' = m)) := by
      intro s' m'; rw [hpos]; simp [hZ]
    by_cases hs : st.suppress = true
    · cases m with
      | ipp v a po pr =>
        apply einv_decr_plain hE hsup hpos' h1 (fun _ c h => by cases h)
        · rw [hout]; rfl
        · intro s'; exact trieOf_congr htr s'
      | cidr c =>
        rw [onMemberRemoved_sup hs] at hout htr
        simp only at hout htr
        have hct : c ∈ trieOf st s := (hE.trie hs s c).2 h1
        have htrie' : ∀ s', trieOf st' s' =
            if s' = s then (trieOf st s).filter (fun d => d ≠ c) else trieOf st s' := by
          intro s'
          show (alGet s' st'.tries).getD [] = _
          rw [htr, alGet_alSet]
          by_cases h : s' = s
          · simp [h]
          · simp [h, trieOf]
        have hposc : ∀ s' x, 0 < refCount st' s' (.cidr x) ↔
            (0 < refCount st s' (.cidr x) ∧ ¬ (s' = s ∧ x = c)) := by
          intro s' x; rw [hpos']; simp
        have hT' : ∀ x, x ∈ trieOf st' s ↔ 0 < refCount st' s (.cidr x) := by
          intro x
          rw [htrie', if_pos rfl, hposc, mem_filter_ne, hE.trie hs]
          simp
        have hs' : st'.suppress = true := hsup.trans hs
        have hct' : ∀ d ∈ trieOf st s, d.canon := fun d hd => hE.canon s d ((hE.trie hs s d).1 hd)
        obtain ⟨D, hD, hmem⟩ := hE.down
        have hDvis : ∀ x, (s, Member.cidr x) ∈ D ↔ vis (trieOf st s) x := by
          intro x; rw [hmem]; exact visible_cidr_vis hs (hE.trie hs s) x
        have hother : ∀ s' m', (s' ≠ s ∨ ∀ x, m' ≠ .cidr x) → (visible st' s' m' ↔ visible st s' m') := by
          intro s' m' hne
          unfold visible
          rw [hpos', hsup]
          constructor
          · rintro ⟨⟨h1, _⟩, h2⟩
            refine ⟨h1, fun hs c0 hc c' hc' => ?_⟩
            rcases hne with hne | hne
            · exact h2 hs c0 hc c' ((hposc _ _).2 ⟨hc', fun h => hne h.1⟩)
            · exact absurd hc (hne c0)
          · rintro ⟨h1, h2⟩
            refine ⟨⟨h1, ?_⟩, fun hs c0 hc c' hc' => h2 hs c0 hc c' ((hposc _ _).1 hc').1⟩
            rintro ⟨h3, h4⟩
            rcases hne with hne | hne
            · exact hne h3
            · exact hne c h4
        have hsplit : ∀ s' m', ¬ (s' ≠ s ∨ ∀ x, m' ≠ Member.cidr x) → s' = s ∧ ∃ x, m' = .cidr x := by
          intro s' m' hne
          constructor
          · exact Classical.not_not.1 (fun h => hne (Or.inl h))
          · exact Classical.not_forall_not.1 (fun h => hne (Or.inr h))
        have hrest : (∃ D', replay st'.out = some D' ∧ ∀ s' m', (s', m') ∈ D' ↔ visible st' s' m') := by
          by_cases hcov : covers ((trieOf st s).filter (fun d => d ≠ c)) c = true
          · refine ⟨D, ?_, fun s' m' => ?_⟩
            · rw [hout, if_pos hcov, List.append_nil]; exact hD
            · by_cases hne : s' ≠ s ∨ ∀ x, m' ≠ .cidr x
              · rw [hother s' m' hne, hmem]
              · obtain ⟨rfl, x, rfl⟩ := hsplit s' m' hne
                rw [visible_cidr_vis hs' hT', htrie', if_pos rfl, hDvis, supRemove_covered hcov x]
                constructor
                · intro h
                  refine ⟨h, ?_⟩
                  rintro rfl
                  exact not_vis_of_covered hcov h
                · exact fun h => h.1
          · have hcov' : covers ((trieOf st s).filter (fun d => d ≠ c)) c = false := by simpa using hcov
            obtain ⟨hA, hB, hC⟩ := supRemove_uncovered hct' hct hcov'
            have hv : (s, Member.cidr c) ∈ D := (hDvis c).2 hA
            have hxs : ((closestDesc (trieOf st s) c).map Member.cidr).Nodup :=
              List.Pairwise.map Member.cidr (fun a b h he => h (by cases he; rfl))
                (closestDesc_nodup (hE.trieNodup s) c)
            obtain ⟨D', hD', hmem'⟩ := replayFrom_adds s ((closestDesc (trieOf st s) c).map Member.cidr)
              (D.filter (fun p => p ≠ (s, Member.cidr c))) hxs (by
                intro x hx
                obtain ⟨y, hy, rfl⟩ := List.mem_map.1 hx
                intro h
                exact (hB y hy).1 ((hDvis y).1 (List.mem_filter.1 h).1))
            refine ⟨D', ?_, fun s' m' => ?_⟩
            · rw [hout, if_neg hcov]
              apply replay_append hD
              simp only [replayFrom, applyEvent, hv, if_true]
              rw [← hD', List.map_map]
              rfl
            · rw [hmem']
              by_cases hne : s' ≠ s ∨ ∀ x, m' ≠ .cidr x
              · rw [hother s' m' hne, ← hmem]
                constructor
                · rintro (h1 | ⟨x, hx, he⟩)
                  · exact (List.mem_filter.1 h1).1
                  · obtain ⟨y, _, rfl⟩ := List.mem_map.1 hx
                    cases he
                    rcases hne with hne | hne
                    · exact absurd rfl hne
                    · exact absurd rfl (hne y)
                · intro h1
                  left
                  refine List.mem_filter.2 ⟨h1, ?_⟩
                  simp only [decide_eq_true_eq]
                  intro he
                  cases he
                  rcases hne with hne | hne
                  · exact absurd rfl hne
                  · exact absurd rfl (hne c)
              · obtain ⟨rfl, x, rfl⟩ := hsplit s' m' hne
                rw [visible_cidr_vis hs' hT', htrie', if_pos rfl, hC x]
                constructor
                · rintro (h1 | ⟨y, hy, he⟩)
                  · left
                    obtain ⟨h1, h2⟩ := List.mem_filter.1 h1
                    refine ⟨(hDvis x).1 h1, ?_⟩
                    rintro rfl
                    simp at h2
                  · right
                    obtain ⟨z, hz, rfl⟩ := List.mem_map.1 hy
                    cases he
                    exact hz
                · rintro (⟨h1, h2⟩ | h1)
                  · left
                    refine List.mem_filter.2 ⟨(hDvis x).2 h1, ?_⟩
                    simp only [decide_eq_true_eq]
                    intro he; cases he; exact h2 rfl
                  · right
                    exact ⟨_, List.mem_map.2 ⟨x, h1, rfl⟩, rfl⟩
        refine ⟨hrest, ?_, ?_, ?_⟩
        · intro _ s' x
          by_cases h : s' = s
          · subst h; exact hT' x
          · rw [htrie', if_neg h, hposc, hE.trie hs]
            constructor
            · exact fun h' => ⟨h', fun h'' => h h''.1⟩
            · exact fun h' => h'.1
        · intro s'
          rw [htrie']
          by_cases h : s' = s
          · rw [if_pos h]; exact (hE.trieNodup s).filter _
          · rw [if_neg h]; exact hE.trieNodup s'
        · intro s' x h
          exact hE.canon s' x ((hposc _ _).1 h).1
    · have hs' : st.suppress = false := by simpa using hs
      rw [onMemberRemoved_noop hs'] at hout htr
      apply einv_decr_plain hE hsup hpos' h1 (fun h => by rw [hs'] at h; cases h)
      · rw [hout]; rfl
      · intro s'; exact trieOf_congr htr s'
  · simp only [hZ, if_false] at hout htr
    apply einv_congr hE hsup hout (trieOf_congr htr)
    intro s' m'
    rw [hpos]
    simp [hZ]

end Emission

/-! ### well-formedness carried along every operation -/
section Good
variable {Sel : Type} [DecidableEq Sel]

/-- a Go panic or a silent uint64 wrap has happened -/
def bad (st : Idx Sel) : Bool := st.panicked || st.underflow

def NetsCanon (st : Idx Sel) : Prop := ∀ p ∈ st.eps, ∀ c ∈ p.2.nets, c.canon
def SetsNodup (st : Idx Sel) : Prop := (st.ipsets.map (·.1)).Nodup
def RefWF (st : Idx Sel) : Prop :=
  ∀ p ∈ st.ipsets, (p.2.refc.map (·.1)).Nodup ∧ ∀ q ∈ p.2.refc, 0 < q.2

structure WF (st : Idx Sel) : Prop where
  e : EInv st
  nets : NetsCanon st
  sets : SetsNodup st
  refwf : RefWF st

/-- Either a flag is up, or all the bookkeeping invariants hold. -/
def Good (st : Idx Sel) : Prop := bad st = true ∨ WF st

theorem refOf_set (d : IpSetData Sel) (m m' : Member) (n : Nat) :
    refOf { d with refc := alSet m n d.refc } m' = if m' = m then n else refOf d m' := by
  unfold refOf; simp only [alGet_alSet]; by_cases h : m' = m <;> simp [h]

theorem refOf_erase (d : IpSetData Sel) (m m' : Member) :
    refOf { d with refc := alErase m d.refc } m' = if m' = m then 0 else refOf d m' := by
  unfold refOf; simp only [alGet_alErase]; by_cases h : m' = m <;> simp [h]

theorem refCount_eq {st : Idx Sel} {s : String} {d : IpSetData Sel} (h : alGet s st.ipsets = some d)
    (m : Member) : refCount st s m = refOf d m := by
  unfold refCount; rw [h]

theorem refCount_alMod {st st' : Idx Sel} {s : String} {d : IpSetData Sel} {f : IpSetData Sel → IpSetData Sel}
    (h : alGet s st.ipsets = some d) (h' : st'.ipsets = alMod s f st.ipsets) (s' : String) (m' : Member) :
    refCount st' s' m' = if s' = s then refOf (f d) m' else refCount st s' m' := by
  unfold refCount
  rw [h', alGet_alMod]
  by_cases hs : s' = s
  · subst hs; simp [h]
  · simp [hs]

theorem mem_alMod {κ β : Type} [DecidableEq κ] {k : κ} {f : β → β} {l : List (κ × β)} {p : κ × β}
    (h : p ∈ alMod k f l) : p ∈ l ∨ ∃ v, (k, v) ∈ l ∧ p = (k, f v) := by
  unfold alMod at h
  obtain ⟨q, hq, rfl⟩ := List.mem_map.1 h
  by_cases hk : q.1 = k
  · right; refine ⟨q.2, ?_, by simp [hk]⟩
    rw [← hk]; exact hq
  · left; simp [hk, hq]

theorem keys_alSet_nodup {κ β : Type} [DecidableEq κ] {k : κ} {v : β} {l : List (κ × β)}
    (h : (l.map (·.1)).Nodup) : ((alSet k v l).map (·.1)).Nodup := by
  unfold alSet alErase
  simp only [List.map_cons, List.nodup_cons]
  constructor
  · intro hk
    obtain ⟨q, hq, hqk⟩ := List.mem_map.1 hk
    have := (List.mem_filter.1 hq).2
    simp at this; exact this hqk
  · exact List.Pairwise.sublist ((List.filter_sublist).map _) h

theorem keys_alErase_nodup {κ β : Type} [DecidableEq κ] {k : κ} {l : List (κ × β)}
    (h : (l.map (·.1)).Nodup) : ((alErase k l).map (·.1)).Nodup :=
  List.Pairwise.sublist ((List.filter_sublist).map _) h

theorem onMemberAdded_frame (s : String) (m : Member) (st : Idx Sel) :
    (onMemberAdded s m st).eps = st.eps ∧ (onMemberAdded s m st).parents = st.parents ∧
    (onMemberAdded s m st).ipsets = st.ipsets ∧ (onMemberAdded s m st).suppress = st.suppress ∧
    (onMemberAdded s m st).panicked = st.panicked ∧ (onMemberAdded s m st).underflow = st.underflow := by
  by_cases hs : st.suppress = true
  · cases m with
    | cidr c => rw [onMemberAdded_sup hs]; simp
    | ipp v a po pr => simp [onMemberAdded, emit]
  · have hs' : st.suppress = false := by simpa using hs
    rw [onMemberAdded_noop hs']; simp [emit]

theorem onMemberRemoved_frame (s : String) (m : Member) (st : Idx Sel) :
    (onMemberRemoved s m st).eps = st.eps ∧ (onMemberRemoved s m st).parents = st.parents ∧
    (onMemberRemoved s m st).ipsets = st.ipsets ∧ (onMemberRemoved s m st).suppress = st.suppress ∧
    (onMemberRemoved s m st).panicked = st.panicked ∧ (onMemberRemoved s m st).underflow = st.underflow := by
  by_cases hs : st.suppress = true
  · cases m with
    | cidr c => rw [onMemberRemoved_sup hs]; simp
    | ipp v a po pr => simp [onMemberRemoved, emit]
  · have hs' : st.suppress = false := by simpa using hs
    rw [onMemberRemoved_noop hs']; simp [emit]

/-- what `incref`/`decref`/`forceRemove` leave alone -/
structure Frame (st st' : Idx Sel) : Prop where
  eps : st'.eps = st.eps
  parents : st'.parents = st.parents
  suppress : st'.suppress = st.suppress
  keys : st'.ipsets.map (·.1) = st.ipsets.map (·.1)
  badMono : bad st = true → bad st' = true

theorem Frame.refl (st : Idx Sel) : Frame st st := ⟨rfl, rfl, rfl, rfl, id⟩

theorem Frame.trans {a b c : Idx Sel} (h1 : Frame a b) (h2 : Frame b c) : Frame a c :=
  ⟨h2.eps.trans h1.eps, h2.parents.trans h1.parents, h2.suppress.trans h1.suppress,
   h2.keys.trans h1.keys, fun h => h2.badMono (h1.badMono h)⟩

theorem refwf_alMod {st st' : Idx Sel} {s : String} {f : IpSetData Sel → IpSetData Sel}
    (h : RefWF st) (h' : st'.ipsets = alMod s f st.ipsets)
    (hf : ∀ d, ((d.refc.map (·.1)).Nodup ∧ ∀ q ∈ d.refc, 0 < q.2) →
      (((f d).refc.map (·.1)).Nodup ∧ ∀ q ∈ (f d).refc, 0 < q.2)) : RefWF st' := by
  intro p hp
  rw [h'] at hp
  rcases mem_alMod hp with hp | ⟨v, hv, rfl⟩
  · exact h p hp
  · exact hf v (h _ hv)

theorem incref_frame (s : String) (m : Member) (st : Idx Sel) : Frame st (incref s m st) := by
  unfold incref
  cases h : alGet s st.ipsets with
  | none => exact ⟨rfl, rfl, rfl, rfl, fun hb => by simp [bad] at hb ⊢⟩
  | some d =>
    simp only
    obtain ⟨f1, f2, f3, f4, f5, f6⟩ := onMemberAdded_frame s m st
    by_cases h0 : refOf d m = 0
    · simp only [h0, if_true]
      refine ⟨f1, f2, f4, ?_, ?_⟩
      · simp only [alMod_keys, f3]
      · simp only [bad, f5, f6]; exact id
    · simp only [h0, if_false]
      exact ⟨rfl, rfl, rfl, by simp only [alMod_keys], id⟩

theorem incref_good {s : String} {m : Member} {st : Idx Sel} (hg : Good st)
    (hm : ∀ c, m = .cidr c → c.canon) : Good (incref s m st) := by
  rcases hg with hb | hw
  · exact Or.inl ((incref_frame s m st).badMono hb)
  · cases h : alGet s st.ipsets with
    | none => left; simp [incref, h, bad]
    | some d =>
      right
      have hfr := incref_frame s m st
      have hips : (incref s m st).ipsets =
          alMod s (fun d' => { d' with refc := alSet m (refOf d m + 1) d'.refc }) st.ipsets := by
        unfold incref; simp only [h]
        by_cases h0 : refOf d m = 0
        · simp only [h0, if_true, (onMemberAdded_frame s m st).2.2.1]
        · simp only [h0, if_false]
      have hrc : ∀ s' m', refCount (incref s m st) s' m' =
          if s' = s then (if m' = m then refOf d m + 1 else refOf d m') else refCount st s' m' := by
        intro s' m'
        rw [refCount_alMod h hips, refOf_set]
      refine ⟨?_, ?_, ?_, ?_⟩
      · apply einv_incr (s := s) (m := m) hw.e hm hfr.suppress
        · intro s' m'
          rw [hrc]
          by_cases hs : s' = s
          · subst hs
            by_cases hm' : m' = m
            · subst hm'; simp
            · simp [hm', refCount_eq h]
          · simp [hs]
        · rw [refCount_eq h]; unfold incref; simp only [h]
          try (by_cases h0 : refOf d m = 0 <;> simp [h0])
        · rw [refCount_eq h]; unfold incref; simp only [h]
          try (by_cases h0 : refOf d m = 0 <;> simp [h0])
      · intro p hp; rw [hfr.eps] at hp; exact hw.nets p hp
      · unfold SetsNodup; rw [hfr.keys]; exact hw.sets
      · apply refwf_alMod hw.refwf hips
        rintro d' ⟨h1, h2⟩
        refine ⟨keys_alSet_nodup h1, ?_⟩
        intro q hq
        rcases List.mem_cons.1 hq with rfl | hq
        · simp
        · exact h2 q (List.mem_filter.1 hq).1

theorem decref_frame (s : String) (m : Member) (st : Idx Sel) : Frame st (decref s m st) := by
  unfold decref
  cases h : alGet s st.ipsets with
  | none => exact ⟨rfl, rfl, rfl, rfl, fun hb => by simp [bad] at hb ⊢⟩
  | some d =>
    simp only
    obtain ⟨f1, f2, f3, f4, f5, f6⟩ := onMemberRemoved_frame s m st
    by_cases h0 : refOf d m = 0
    · simp only [h0, if_true]
      exact ⟨rfl, rfl, rfl, by simp only [alMod_keys], fun hb => by simp [bad] at hb ⊢⟩
    · simp only [h0, if_false]
      by_cases h1 : refOf d m - 1 = 0
      · simp only [h1, if_true]
        refine ⟨f1, f2, f4, ?_, ?_⟩
        · simp only [alMod_keys, f3]
        · simp only [bad, f5, f6]; exact id
      · simp only [h1, if_false]
        exact ⟨rfl, rfl, rfl, by simp only [alMod_keys], id⟩

theorem decref_good {s : String} {m : Member} {st : Idx Sel} (hg : Good st) : Good (decref s m st) := by
  rcases hg with hb | hw
  · exact Or.inl ((decref_frame s m st).badMono hb)
  · cases h : alGet s st.ipsets with
    | none => left; simp [decref, h, bad]
    | some d =>
      by_cases h0 : refOf d m = 0
      · left; simp [decref, h, h0, bad]
      · right
        have hfr := decref_frame s m st
        have hips : (decref s m st).ipsets =
            alMod s (fun d' => { d' with refc :=
              (if (refOf d m - 1 = 0) then alErase m d'.refc else alSet m (refOf d m - 1) d'.refc) }) st.ipsets := by
          unfold decref; simp only [h, h0, if_false]
          by_cases h1 : refOf d m - 1 = 0
          · simp only [h1, if_true, (onMemberRemoved_frame s m st).2.2.1]
          · simp only [h1, if_false]
        have hrc : ∀ s' m', refCount (decref s m st) s' m' =
            if s' = s then (if m' = m then refOf d m - 1 else refOf d m') else refCount st s' m' := by
          intro s' m'
          rw [refCount_alMod h hips]
          by_cases h1 : refOf d m - 1 = 0
          · simp only [h1, if_true, refOf_erase]
          · simp only [h1, if_false, refOf_set]
        refine ⟨?_, ?_, ?_, ?_⟩
        · apply einv_decr (s := s) (m := m) (refOf d m - 1 = 0) hw.e hfr.suppress
          · rw [refCount_eq h]; omega
          · intro s' m'
            rw [hrc]
            by_cases hs : s' = s
            · subst hs
              by_cases hm' : m' = m
              · subst hm'; simp [refCount_eq h]; omega
              · simp [hm', refCount_eq h]
            · simp [hs]
          · unfold decref; simp only [h, h0, if_false]
            by_cases h1 : refOf d m - 1 = 0 <;> simp [h1]
          · unfold decref; simp only [h, h0, if_false]
            by_cases h1 : refOf d m - 1 = 0 <;> simp [h1]
        · intro p hp; rw [hfr.eps] at hp; exact hw.nets p hp
        · unfold SetsNodup; rw [hfr.keys]; exact hw.sets
        · apply refwf_alMod hw.refwf hips
          rintro d' ⟨h1, h2⟩
          by_cases h1' : refOf d m - 1 = 0
          · simp only [h1', if_true]
            exact ⟨keys_alErase_nodup h1, fun q hq => h2 q (List.mem_filter.1 hq).1⟩
          · simp only [h1', if_false]
            refine ⟨keys_alSet_nodup h1, ?_⟩
            intro q hq
            rcases List.mem_cons.1 hq with rfl | hq
            · simp; omega
            · exact h2 q (List.mem_filter.1 hq).1

theorem refCount_congr {st st' : Idx Sel} (h : st'.ipsets = st.ipsets) (s : String) (m : Member) :
    refCount st' s m = refCount st s m := by
  unfold refCount; rw [h]

/-- changes outside ipsets / tries / out / suppress keep the emission invariant -/
theorem good_of_same_core {st st' : Idx Sel} (hg : Good st) (hi : st'.ipsets = st.ipsets)
    (ht : st'.tries = st.tries) (ho : st'.out = st.out) (hs : st'.suppress = st.suppress)
    (hb : bad st = true → bad st' = true) (hn : WF st → NetsCanon st') : Good st' := by
  rcases hg with hb' | hw
  · exact Or.inl (hb hb')
  · right
    refine ⟨einv_congr hw.e hs ho (trieOf_congr ht) (fun s m => by rw [refCount_congr hi]), hn hw, ?_, ?_⟩
    · unfold SetsNodup; rw [hi]; exact hw.sets
    · unfold RefWF; rw [hi]; exact hw.refwf

theorem good_eps {st : Idx Sel} (l : List (String × EpData)) (hg : Good st)
    (hl : WF st → ∀ p ∈ l, ∀ c ∈ p.2.nets, c.canon) : Good { st with eps := l } :=
  good_of_same_core hg rfl rfl rfl rfl id hl

theorem good_panicked (st : Idx Sel) : Good { st with panicked := true } := Or.inl (by simp [bad])

theorem increfAll_good {s : String} {ms : List Member} {st : Idx Sel} (hg : Good st)
    (hm : ∀ m ∈ ms, ∀ c, m = .cidr c → c.canon) : Good (increfAll s ms st) := by
  unfold increfAll
  induction ms generalizing st with
  | nil => exact hg
  | cons m ms ih =>
    rw [List.foldl_cons]
    exact ih (incref_good hg (hm m (List.mem_cons_self ..))) (fun m' h => hm m' (List.mem_cons_of_mem _ h))

theorem increfAll_frame (s : String) (ms : List Member) (st : Idx Sel) : Frame st (increfAll s ms st) := by
  unfold increfAll
  induction ms generalizing st with
  | nil => exact Frame.refl st
  | cons m ms ih => rw [List.foldl_cons]; exact (incref_frame s m st).trans (ih _)

theorem decrefAll_good {s : String} {ms : List Member} {st : Idx Sel} (hg : Good st) :
    Good (decrefAll s ms st) := by
  unfold decrefAll
  induction ms generalizing st with
  | nil => exact hg
  | cons m ms ih => rw [List.foldl_cons]; exact ih (decref_good hg)

theorem decrefAll_frame (s : String) (ms : List Member) (st : Idx Sel) : Frame st (decrefAll s ms st) := by
  unfold decrefAll
  induction ms generalizing st with
  | nil => exact Frame.refl st
  | cons m ms ih => rw [List.foldl_cons]; exact (decref_frame s m st).trans (ih _)

theorem decrefOld_good {old : List (String × List Member)} {st : Idx Sel} (hg : Good st) :
    Good (decrefOld old st) := by
  unfold decrefOld
  induction old generalizing st with
  | nil => exact hg
  | cons p old ih => rw [List.foldl_cons]; exact ih (decrefAll_good hg)

theorem decrefOld_frame (old : List (String × List Member)) (st : Idx Sel) : Frame st (decrefOld old st) := by
  unfold decrefOld
  induction old generalizing st with
  | nil => exact Frame.refl st
  | cons p old ih => rw [List.foldl_cons]; exact (decrefAll_frame _ _ st).trans (ih _)

theorem mkIPPortProto_canon (v : Bool) (a po pr : Nat) (c : Cidr) (h : mkIPPortProto v a po pr = .cidr c) :
    c.canon := by
  unfold mkIPPortProto at h
  split at h
  · cases h; simp [Cidr.canon, Nat.mod_one]
  · cases h

theorem contrib_canon {e : EpData} {d : IpSetData Sel} (he : ∀ c ∈ e.nets, c.canon) :
    ∀ m ∈ contrib e d, ∀ c, m = .cidr c → c.canon := by
  intro m hm c hc
  unfold contrib at hm
  split at hm
  · simp only [List.mem_flatMap, List.mem_map] at hm
    obtain ⟨pp, _, n, _, hmk⟩ := hm
    rw [← hmk] at hc
    exact mkIPPortProto_canon _ _ _ _ c hc
  · obtain ⟨n, hn, hmn⟩ := List.mem_map.1 hm
    rw [← hmn] at hc
    injection hc with h
    subst h
    exact he _ hn

variable (matchSel : Sel → Labels → Bool)

theorem scanOne_good {s : String} {p : Idx Sel × EpData} (hg : Good p.1) (he : ∀ c ∈ p.2.nets, c.canon) :
    Good (scanOne matchSel s p).1 ∧ (scanOne matchSel s p).2.nets = p.2.nets := by
  unfold scanOne
  cases alGet s p.1.ipsets with
  | none => exact ⟨hg, rfl⟩
  | some d =>
    simp only
    split
    · exact ⟨increfAll_good hg (contrib_canon (by exact he)), rfl⟩
    · exact ⟨hg, rfl⟩

theorem scanOne_frame (s : String) (p : Idx Sel × EpData) : Frame p.1 (scanOne matchSel s p).1 := by
  unfold scanOne
  cases alGet s p.1.ipsets with
  | none => exact Frame.refl _
  | some d =>
    simp only
    split
    · exact increfAll_frame _ _ _
    · exact Frame.refl _

theorem scanFold_good (ks : List String) (p : Idx Sel × EpData) (hg : Good p.1) (he : ∀ c ∈ p.2.nets, c.canon) :
    Good (ks.foldl (fun p s => scanOne matchSel s p) p).1 ∧
    (ks.foldl (fun p s => scanOne matchSel s p) p).2.nets = p.2.nets ∧
    Frame p.1 (ks.foldl (fun p s => scanOne matchSel s p) p).1 := by
  induction ks generalizing p with
  | nil => exact ⟨hg, rfl, Frame.refl _⟩
  | cons k ks ih =>
    rw [List.foldl_cons]
    obtain ⟨h1, h2⟩ := scanOne_good matchSel (s := k) hg he
    obtain ⟨i1, i2, i3⟩ := ih (scanOne matchSel k p) h1 (by rw [h2]; exact he)
    exact ⟨i1, i2.trans h2, (scanOne_frame matchSel k p).trans i3⟩

theorem scanEp_good {e : EpData} {old : List (String × List Member)} {st : Idx Sel} (hg : Good st)
    (he : ∀ c ∈ e.nets, c.canon) :
    Good (scanEp matchSel e old st).1 ∧ (scanEp matchSel e old st).2.nets = e.nets ∧
    Frame st (scanEp matchSel e old st).1 := by
  unfold scanEp
  obtain ⟨h1, h2, h3⟩ := scanFold_good matchSel (st.ipsets.map (·.1)) (st, { e with cached := [] }) hg he
  exact ⟨decrefOld_good h1, h2, h3.trans (decrefOld_frame _ _)⟩

theorem scanEp_frame (e : EpData) (old : List (String × List Member)) (st : Idx Sel) :
    Frame st (scanEp matchSel e old st).1 := by
  unfold scanEp
  have : ∀ (ks : List String) (p : Idx Sel × EpData),
      Frame p.1 (ks.foldl (fun p s => scanOne matchSel s p) p).1 := by
    intro ks
    induction ks with
    | nil => intro p; exact Frame.refl _
    | cons k ks ih => intro p; rw [List.foldl_cons]; exact (scanOne_frame matchSel k p).trans (ih _)
  exact (this _ (st, { e with cached := [] })).trans (decrefOld_frame _ _)

end Good

end CalicoVerif.C04
