import CalicoVerif.Model.C04
/-! Helper lemmas for C04 (association lists, CIDR order, emission layer, refcount layer). -/
namespace CalicoVerif.C04

/-! ### association lists -/
section AL
variable {κ β : Type} [DecidableEq κ]

@[simp] theorem alGet_nil (k : κ) : alGet k ([] : List (κ × β)) = none := rfl

theorem alGet_cons (k k' : κ) (v : β) (l : List (κ × β)) :
    alGet k ((k', v) :: l) = if k' = k then some v else alGet k l := rfl

theorem alGet_alErase (k k' : κ) (l : List (κ × β)) :
    alGet k' (alErase k l) = if k' = k then none else alGet k' l := by
  induction l with
  | nil => simp [alErase]
  | cons p l ih =>
    obtain ⟨a, b⟩ := p
    unfold alErase at ih ⊢
    by_cases h : a = k
    · subst h
      simp only [List.filter_cons, ne_eq, not_true_eq_false, decide_false, Bool.false_eq_true, if_false, ih, alGet_cons]
      by_cases h' : k' = a <;> simp [h']
      intro h''; exact absurd h''.symm h'
    · simp only [List.filter_cons, ne_eq, h, not_false_eq_true, decide_true, if_true, alGet_cons, ih]
      by_cases h' : k' = k
      · subst h'; simp [h]
      · simp [h']

theorem alGet_alSet (k k' : κ) (v : β) (l : List (κ × β)) :
    alGet k' (alSet k v l) = if k' = k then some v else alGet k' l := by
  unfold alSet
  rw [alGet_cons, alGet_alErase]
  by_cases h : k' = k
  · subst h; simp
  · have : ¬ k = k' := fun e => h e.symm
    simp [h, this]

theorem alGet_alMod (k k' : κ) (f : β → β) (l : List (κ × β)) :
    alGet k' (alMod k f l) = if k' = k then (alGet k l).map f else alGet k' l := by
  induction l with
  | nil => simp [alMod]
  | cons p l ih =>
    obtain ⟨a, b⟩ := p
    unfold alMod at ih ⊢
    simp only [List.map_cons]
    by_cases h : a = k
    · subst h
      simp only [if_true, alGet_cons, ih]
      by_cases h' : k' = a
      · subst h'; simp
      · have : ¬ a = k' := fun e => h' e.symm
        simp [h', this]
    · simp only [h, if_false, alGet_cons, ih]
      by_cases h' : k' = k
      · subst h'; simp [h]
      · simp [h']

theorem alMod_keys (k : κ) (f : β → β) (l : List (κ × β)) :
    (alMod k f l).map (·.1) = l.map (·.1) := by
  unfold alMod
  rw [List.map_map]
  apply List.map_congr_left
  intro p _
  by_cases h : p.1 = k <;> simp [h]

theorem alGet_some_mem {k : κ} {v : β} {l : List (κ × β)} (h : alGet k l = some v) : (k, v) ∈ l := by
  induction l with
  | nil => simp at h
  | cons p l ih =>
    obtain ⟨a, b⟩ := p
    rw [alGet_cons] at h
    by_cases h' : a = k
    · subst h'; simp at h; subst h; simp
    · simp [h'] at h; exact List.mem_cons_of_mem _ (ih h)

theorem alGet_isSome_iff {k : κ} {l : List (κ × β)} : (alGet k l).isSome ↔ k ∈ l.map (·.1) := by
  induction l with
  | nil => simp
  | cons p l ih =>
    obtain ⟨a, b⟩ := p
    rw [alGet_cons]
    by_cases h' : a = k
    · subst h'; simp
    · have : ¬ k = a := fun e => h' e.symm
      simp [h', ih, this]

/-- With distinct keys, membership determines lookup. -/
theorem alGet_of_mem {k : κ} {v : β} {l : List (κ × β)} (nd : (l.map (·.1)).Nodup) (h : (k, v) ∈ l) :
    alGet k l = some v := by
  induction l with
  | nil => simp at h
  | cons p l ih =>
    obtain ⟨a, b⟩ := p
    simp only [List.map_cons, List.nodup_cons] at nd
    rw [alGet_cons]
    rcases List.mem_cons.1 h with h | h
    · cases h; simp
    · have : a ≠ k := by
        rintro rfl
        exact nd.1 (List.mem_map.2 ⟨_, h, rfl⟩)
      simp [this, ih nd.2 h]

end AL

/-! ### CIDR order -/

/-- Canonical (masked) CIDR, as built by `ip.CIDRFrom…`. -/
def Cidr.canon (c : Cidr) : Prop :=
  c.len ≤ width c.v6 ∧ c.addr % 2 ^ (width c.v6 - c.len) = 0

instance (c : Cidr) : Decidable c.canon := by unfold Cidr.canon; exact inferInstance

theorem shiftRight_mono_eq {x y i j : Nat} (h : x >>> i = y >>> i) (hij : i ≤ j) : x >>> j = y >>> j := by
  have : j = i + (j - i) := by omega
  rw [this, Nat.shiftRight_add, Nat.shiftRight_add, h]

theorem Cidr.sc_iff {a b : Cidr} :
    a.sc b = true ↔ a.v6 = b.v6 ∧ a.len < b.len ∧
      a.addr >>> (width a.v6 - a.len) = b.addr >>> (width a.v6 - a.len) := by
  unfold Cidr.sc Cidr.pfx
  constructor
  · intro h
    simp only [Bool.and_eq_true, beq_iff_eq, decide_eq_true_eq] at h
    obtain ⟨⟨h1, h2⟩, h3⟩ := h
    rw [← h1] at h3
    exact ⟨h1, h2, h3⟩
  · rintro ⟨h1, h2, h3⟩
    simp only [Bool.and_eq_true, beq_iff_eq, decide_eq_true_eq]
    refine ⟨⟨h1, h2⟩, ?_⟩
    rw [← h1]
    exact h3

theorem Cidr.sc_irrefl (a : Cidr) : a.sc a = false := by
  cases h : a.sc a
  · rfl
  · have := (Cidr.sc_iff.1 h).2.1; omega

theorem Cidr.sc_trans {a b c : Cidr} (h1 : a.sc b = true) (h2 : b.sc c = true) : a.sc c = true := by
  obtain ⟨v1, l1, p1⟩ := Cidr.sc_iff.1 h1
  obtain ⟨v2, l2, p2⟩ := Cidr.sc_iff.1 h2
  apply Cidr.sc_iff.2
  refine ⟨v1.trans v2, by omega, ?_⟩
  rw [p1]
  rw [← v1] at p2
  exact shiftRight_mono_eq p2 (by omega)

theorem Cidr.sc_ne {a b : Cidr} (h : a.sc b = true) : a ≠ b := by
  rintro rfl; rw [Cidr.sc_irrefl] at h; cases h

theorem canon_addr_eq {w l x y : Nat} (hx : x % 2 ^ (w - l) = 0) (hy : y % 2 ^ (w - l) = 0)
    (h : x >>> (w - l) = y >>> (w - l)) : x = y := by
  rw [Nat.shiftRight_eq_div_pow, Nat.shiftRight_eq_div_pow] at h
  have e1 := Nat.div_add_mod x (2 ^ (w - l))
  have e2 := Nat.div_add_mod y (2 ^ (w - l))
  rw [hx] at e1; rw [hy] at e2
  rw [← e1, ← e2, h]

/-- Two canonical CIDRs that both strictly contain a third are comparable. -/
theorem Cidr.sc_comparable {a b x : Cidr} (ca : a.canon) (cb : b.canon)
    (h1 : a.sc x = true) (h2 : b.sc x = true) : a.sc b = true ∨ a = b ∨ b.sc a = true := by
  obtain ⟨v1, l1, p1⟩ := Cidr.sc_iff.1 h1
  obtain ⟨v2, l2, p2⟩ := Cidr.sc_iff.1 h2
  have vab : a.v6 = b.v6 := v1.trans v2.symm
  rw [← vab] at p2
  rcases Nat.lt_trichotomy a.len b.len with h | h | h
  · left
    apply Cidr.sc_iff.2
    refine ⟨vab, h, ?_⟩
    rw [p1]
    exact (shiftRight_mono_eq p2 (by omega)).symm
  · right; left
    have : a.addr = b.addr := by
      apply canon_addr_eq (w := width a.v6) (l := a.len) ca.2
      · have := cb.2; rw [← vab, ← h] at this; exact this
      · rw [p1, h, p2]
    cases a; cases b; simp_all
  · right; right
    apply Cidr.sc_iff.2
    refine ⟨vab.symm, h, ?_⟩
    rw [← vab, p2]
    exact (shiftRight_mono_eq p1 (by omega)).symm

/-- Address `x` (of the CIDR's family) lies in `c`. -/
def Cidr.hasAddr (c : Cidr) (x : Nat) : Prop :=
  x >>> (width c.v6 - c.len) = c.addr >>> (width c.v6 - c.len)

theorem Cidr.hasAddr_of_sc {c d : Cidr} (h : c.sc d = true) {x : Nat} (hx : d.hasAddr x) : c.hasAddr x := by
  obtain ⟨v, l, p⟩ := Cidr.sc_iff.1 h
  unfold Cidr.hasAddr at hx ⊢
  rw [p]
  rw [← v] at hx
  exact shiftRight_mono_eq hx (by omega)

/-! ### the overlap suppressor on a stored set `t` -/

/-- `x` is stored and no stored CIDR strictly contains it: what the consumer should hold. -/
def vis (t : List Cidr) (x : Cidr) : Prop := x ∈ t ∧ ∀ d ∈ t, d.sc x = false

theorem covers_iff {t : List Cidr} {c : Cidr} : covers t c = true ↔ ∃ d ∈ t, d = c ∨ d.sc c = true := by
  simp [covers]

theorem mem_closestDesc {t : List Cidr} {c x : Cidr} :
    x ∈ closestDesc t c ↔ x ∈ t ∧ c.sc x = true ∧ ∀ e ∈ t, c.sc e = true → e.sc x = false := by
  simp only [closestDesc, List.mem_filter, Bool.and_eq_true, Bool.not_eq_true', List.any_eq_false,
    Bool.and_eq_true, not_and, Bool.not_eq_true]

theorem closestDesc_nodup {t : List Cidr} (nd : t.Nodup) (c : Cidr) : (closestDesc t c).Nodup :=
  nd.filter _

/-- `Add` of an absent CIDR that is covered: nothing changes for the consumer. -/
theorem supAdd_covered {t : List Cidr} {c : Cidr} (hc : c ∉ t) (hcov : covers t c = true) (x : Cidr) :
    vis (c :: t) x ↔ vis t x := by
  obtain ⟨d, hd, hdc⟩ := covers_iff.1 hcov
  have hdc' : d.sc c = true := by
    rcases hdc with rfl | h
    · exact absurd hd hc
    · exact h
  constructor
  · rintro ⟨h1, h2⟩
    rcases List.mem_cons.1 h1 with rfl | h1
    · have := h2 d (List.mem_cons_of_mem _ hd); rw [hdc'] at this; cases this
    · exact ⟨h1, fun e he => h2 e (List.mem_cons_of_mem _ he)⟩
  · rintro ⟨h1, h2⟩
    refine ⟨List.mem_cons_of_mem _ h1, ?_⟩
    intro e he
    rcases List.mem_cons.1 he with rfl | he
    · cases h : e.sc x
      · rfl
      · have := h2 d hd; rw [Cidr.sc_trans hdc' h] at this; cases this
    · exact h2 e he

/-- `Add` of an absent, uncovered CIDR: it becomes visible, exactly its closest
descendants (all visible before) stop being visible. -/
theorem supAdd_uncovered {t : List Cidr} {c : Cidr} (ct : ∀ d ∈ t, d.canon) (cc : c.canon)
    (hc : c ∉ t) (hcov : covers t c = false) :
    (∀ x ∈ closestDesc (c :: t) c, vis t x) ∧
    (∀ x, vis (c :: t) x ↔ (x = c ∨ vis t x) ∧ x ∉ closestDesc (c :: t) c) := by
  have hnc : ∀ d ∈ t, d.sc c = false := by
    intro d hd
    cases h : d.sc c
    · rfl
    · have : covers t c = true := covers_iff.2 ⟨d, hd, Or.inr h⟩
      rw [hcov] at this; cases this
  constructor
  · intro x hx
    obtain ⟨h1, h2, h3⟩ := mem_closestDesc.1 hx
    have hxt : x ∈ t := by
      rcases List.mem_cons.1 h1 with rfl | h
      · rw [Cidr.sc_irrefl] at h2; cases h2
      · exact h
    refine ⟨hxt, ?_⟩
    intro d hd
    cases h : d.sc x
    · rfl
    · rcases Cidr.sc_comparable (ct d hd) cc h h2 with h' | h' | h'
      · rw [hnc d hd] at h'; cases h'
      · subst h'; exact absurd hd hc
      · have := h3 d (List.mem_cons_of_mem _ hd) h'; rw [h] at this; cases this
  · intro x
    constructor
    · rintro ⟨h1, h2⟩
      constructor
      · rcases List.mem_cons.1 h1 with rfl | h1
        · exact Or.inl rfl
        · exact Or.inr ⟨h1, fun e he => h2 e (List.mem_cons_of_mem _ he)⟩
      · intro hx
        have := (mem_closestDesc.1 hx).2.1
        rw [h2 c (List.mem_cons_self ..)] at this; cases this
    · rintro ⟨h1, h2⟩
      rcases h1 with rfl | ⟨h1, h1'⟩
      · refine ⟨List.mem_cons_self .., ?_⟩
        intro e he
        rcases List.mem_cons.1 he with rfl | he
        · exact Cidr.sc_irrefl _
        · exact hnc e he
      · refine ⟨List.mem_cons_of_mem _ h1, ?_⟩
        intro e he
        rcases List.mem_cons.1 he with rfl | he
        · cases h : e.sc x
          · rfl
          · exfalso
            apply h2
            apply mem_closestDesc.2
            refine ⟨List.mem_cons_of_mem _ h1, h, ?_⟩
            intro f hf hef
            rcases List.mem_cons.1 hf with rfl | hf
            · rw [Cidr.sc_irrefl] at hef; cases hef
            · exact h1' f hf
        · exact h1' e he

theorem mem_filter_ne {t : List Cidr} {c x : Cidr} : x ∈ t.filter (fun d => d ≠ c) ↔ x ∈ t ∧ x ≠ c := by
  simp

/-- `Remove` of a stored CIDR that stays covered: nothing changes for the consumer. -/
theorem supRemove_covered {t : List Cidr} {c : Cidr}
    (hcov : covers (t.filter (fun d => d ≠ c)) c = true) (x : Cidr) :
    vis (t.filter (fun d => d ≠ c)) x ↔ vis t x ∧ x ≠ c := by
  obtain ⟨d, hd, hdc⟩ := covers_iff.1 hcov
  obtain ⟨hdt, hdne⟩ := mem_filter_ne.1 hd
  have hdc' : d.sc c = true := by
    rcases hdc with rfl | h
    · exact absurd rfl hdne
    · exact h
  constructor
  · rintro ⟨h1, h2⟩
    obtain ⟨h1t, h1ne⟩ := mem_filter_ne.1 h1
    refine ⟨⟨h1t, ?_⟩, h1ne⟩
    intro e he
    by_cases hec : e = c
    · subst hec
      cases h : e.sc x
      · rfl
      · have := h2 d hd; rw [Cidr.sc_trans hdc' h] at this; cases this
    · exact h2 e (mem_filter_ne.2 ⟨he, hec⟩)
  · rintro ⟨⟨h1, h2⟩, h3⟩
    exact ⟨mem_filter_ne.2 ⟨h1, h3⟩, fun e he => h2 e (mem_filter_ne.1 he).1⟩

theorem not_vis_of_covered {t : List Cidr} {c : Cidr}
    (hcov : covers (t.filter (fun d => d ≠ c)) c = true) : ¬ vis t c := by
  obtain ⟨d, hd, hdc⟩ := covers_iff.1 hcov
  obtain ⟨hdt, hdne⟩ := mem_filter_ne.1 hd
  rintro ⟨_, h2⟩
  rcases hdc with rfl | h
  · exact hdne rfl
  · rw [h2 d hdt] at h; cases h

/-- `Remove` of a stored, uncovered CIDR: it was visible, its closest descendants were not
and become visible. -/
theorem supRemove_uncovered {t : List Cidr} {c : Cidr} (ct : ∀ d ∈ t, d.canon) (hc : c ∈ t)
    (hcov : covers (t.filter (fun d => d ≠ c)) c = false) :
    vis t c ∧ (∀ x ∈ closestDesc t c, ¬ vis t x ∧ x ≠ c) ∧
    (∀ x, vis (t.filter (fun d => d ≠ c)) x ↔ (vis t x ∧ x ≠ c) ∨ x ∈ closestDesc t c) := by
  have hnc : ∀ d ∈ t, d.sc c = false := by
    intro d hd
    by_cases hdc : d = c
    · subst hdc; exact Cidr.sc_irrefl _
    · cases h : d.sc c
      · rfl
      · have : covers (t.filter (fun d => d ≠ c)) c = true :=
          covers_iff.2 ⟨d, mem_filter_ne.2 ⟨hd, hdc⟩, Or.inr h⟩
        rw [hcov] at this; cases this
  refine ⟨⟨hc, hnc⟩, ?_, ?_⟩
  · intro x hx
    obtain ⟨h1, h2, _⟩ := mem_closestDesc.1 hx
    constructor
    · rintro ⟨_, h⟩; rw [h c hc] at h2; cases h2
    · rintro rfl; rw [Cidr.sc_irrefl] at h2; cases h2
  · intro x
    constructor
    · rintro ⟨h1, h2⟩
      obtain ⟨h1t, h1ne⟩ := mem_filter_ne.1 h1
      cases hcx : c.sc x
      · left
        refine ⟨⟨h1t, ?_⟩, h1ne⟩
        intro e he
        by_cases hec : e = c
        · subst hec; exact hcx
        · exact h2 e (mem_filter_ne.2 ⟨he, hec⟩)
      · right
        apply mem_closestDesc.2
        refine ⟨h1t, hcx, ?_⟩
        intro e he hce
        exact h2 e (mem_filter_ne.2 ⟨he, (Cidr.sc_ne hce).symm⟩)
    · rintro (⟨⟨h1, h2⟩, h3⟩ | hx)
      · exact ⟨mem_filter_ne.2 ⟨h1, h3⟩, fun e he => h2 e (mem_filter_ne.1 he).1⟩
      · obtain ⟨h1, h2, h3⟩ := mem_closestDesc.1 hx
        refine ⟨mem_filter_ne.2 ⟨h1, (Cidr.sc_ne h2).symm⟩, ?_⟩
        intro e he
        obtain ⟨het, hene⟩ := mem_filter_ne.1 he
        cases h : e.sc x
        · rfl
        · rcases Cidr.sc_comparable (ct e het) (ct c hc) h h2 with h' | h' | h'
          · rw [hnc e het] at h'; cases h'
          · exact absurd h' hene
          · have := h3 e het h'; rw [h] at this; cases this

/-! ### strict replay of callbacks -/

theorem replayFrom_append (d : Down) (a b : List Event) :
    replayFrom d (a ++ b) = (replayFrom d a).bind (fun d' => replayFrom d' b) := by
  induction a generalizing d with
  | nil => simp [replayFrom]
  | cons e a ih =>
    simp only [List.cons_append, replayFrom]
    cases applyEvent d e with
    | none => simp
    | some d' => simp [ih]

theorem replay_append {out evs : List Event} {D D' : Down} (h : replay out = some D)
    (h' : replayFrom D evs = some D') : replay (out ++ evs) = some D' := by
  unfold replay at h ⊢
  rw [replayFrom_append, h]; simpa using h'

theorem replayFrom_removes (s : String) (xs : List Member) (D : Down) (nd : xs.Nodup)
    (h : ∀ x ∈ xs, (s, x) ∈ D) :
    ∃ D', replayFrom D (xs.map (Event.removed s)) = some D' ∧
      ∀ p, p ∈ D' ↔ p ∈ D ∧ ¬ ∃ x ∈ xs, p = (s, x) := by
  induction xs generalizing D with
  | nil => exact ⟨D, rfl, by simp⟩
  | cons x xs ih =>
    have hx : (s, x) ∈ D := h x (List.mem_cons_self ..)
    obtain ⟨hxn, nd'⟩ := List.nodup_cons.1 nd
    have h' : ∀ y ∈ xs, (s, y) ∈ D.filter (fun p => p ≠ (s, x)) := by
      intro y hy
      simp only [List.mem_filter, decide_eq_true_eq]
      refine ⟨h y (List.mem_cons_of_mem _ hy), ?_⟩
      intro e; cases e; exact hxn hy
    obtain ⟨D', hD', hmem⟩ := ih (D.filter (fun p => p ≠ (s, x))) nd' h'
    refine ⟨D', ?_, ?_⟩
    · simp only [List.map_cons, replayFrom, applyEvent, hx, if_true]
      exact hD'
    · intro p
      rw [hmem]
      simp only [List.mem_filter, decide_eq_true_eq, List.mem_cons, exists_eq_or_imp, not_or]
      constructor
      · rintro ⟨⟨h1, h2⟩, h3⟩; exact ⟨h1, h2, h3⟩
      · rintro ⟨h1, h2, h3⟩; exact ⟨⟨h1, h2⟩, h3⟩

theorem replayFrom_adds (s : String) (xs : List Member) (D : Down) (nd : xs.Nodup)
    (h : ∀ x ∈ xs, (s, x) ∉ D) :
    ∃ D', replayFrom D (xs.map (Event.added s)) = some D' ∧
      ∀ p, p ∈ D' ↔ p ∈ D ∨ ∃ x ∈ xs, p = (s, x) := by
  induction xs generalizing D with
  | nil => exact ⟨D, rfl, by simp⟩
  | cons x xs ih =>
    have hx : (s, x) ∉ D := h x (List.mem_cons_self ..)
    obtain ⟨hxn, nd'⟩ := List.nodup_cons.1 nd
    have h' : ∀ y ∈ xs, (s, y) ∉ (s, x) :: D := by
      intro y hy
      simp only [List.mem_cons, not_or]
      refine ⟨?_, h y (List.mem_cons_of_mem _ hy)⟩
      intro e; cases e; exact hxn hy
    obtain ⟨D', hD', hmem⟩ := ih ((s, x) :: D) nd' h'
    refine ⟨D', ?_, ?_⟩
    · simp only [List.map_cons, replayFrom, applyEvent, hx, if_false]
      exact hD'
    · intro p
      rw [hmem]
      simp only [List.mem_cons, exists_eq_or_imp]
      constructor
      · rintro ((h1 | h1) | h1)
        · exact Or.inr (Or.inl h1)
        · exact Or.inl h1
        · exact Or.inr (Or.inr h1)
      · rintro (h1 | h1 | h1)
        · exact Or.inl (Or.inr h1)
        · exact Or.inl (Or.inl h1)
        · exact Or.inr h1

/-! ### the emission layer -/
set_option linter.unusedSectionVars false
section Emission
variable {Sel : Type} [DecidableEq Sel]

theorem foldl_emit {α : Type} (f : α → Event) (xs : List α) (st : Idx Sel) :
    xs.foldl (fun st x => emit (f x) st) st = { st with out := st.out ++ xs.map f } := by
  induction xs generalizing st with
  | nil => simp
  | cons x xs ih =>
    rw [List.foldl_cons, ih]
    simp [emit, List.append_assoc]

/-- What the consumer should hold for set `s`: members with a positive refcount, minus (with
suppression) CIDRs strictly inside another refcounted CIDR. -/
def visible (st : Idx Sel) (s : String) (m : Member) : Prop :=
  0 < refCount st s m ∧
  (st.suppress = true → ∀ c, m = .cidr c → ∀ c', 0 < refCount st s (.cidr c') → c'.sc c = false)

/-- Invariant tying callbacks and suppressor tries to the refcount maps. -/
structure EInv (st : Idx Sel) : Prop where
  down : ∃ D, replay st.out = some D ∧ ∀ s m, (s, m) ∈ D ↔ visible st s m
  trie : st.suppress = true → ∀ s c, c ∈ trieOf st s ↔ 0 < refCount st s (.cidr c)
  trieNodup : ∀ s, (trieOf st s).Nodup
  canon : ∀ s c, 0 < refCount st s (.cidr c) → c.canon

theorem visible_cidr_vis {st : Idx Sel} {T : List Cidr} {s : String} (hs : st.suppress = true)
    (hT : ∀ c, c ∈ T ↔ 0 < refCount st s (.cidr c)) (x : Cidr) :
    visible st s (.cidr x) ↔ vis T x := by
  unfold visible vis
  rw [hT]
  constructor
  · rintro ⟨h1, h2⟩
    refine ⟨h1, fun d hd => h2 hs x rfl d ((hT d).1 hd)⟩
  · rintro ⟨h1, h2⟩
    refine ⟨h1, fun _ c hc c' hc' => ?_⟩
    cases hc
    exact h2 c' ((hT c').2 hc')

theorem visible_ipp (st : Idx Sel) (s : String) (v : Bool) (a po pr : Nat) :
    visible st s (.ipp v a po pr) ↔ 0 < refCount st s (.ipp v a po pr) := by
  unfold visible
  constructor
  · exact fun h => h.1
  · exact fun h => ⟨h, fun _ c hc => by cases hc⟩

theorem visible_noop {st : Idx Sel} (hs : st.suppress = false) (s : String) (m : Member) :
    visible st s m ↔ 0 < refCount st s m := by
  unfold visible
  simp [hs]

theorem visible_congr {st st' : Idx Sel} {s : String} (hsup : st'.suppress = st.suppress)
    (h : ∀ m, 0 < refCount st' s m ↔ 0 < refCount st s m) (m : Member) :
    visible st' s m ↔ visible st s m := by
  unfold visible
  rw [hsup, h]
  constructor
  · rintro ⟨h1, h2⟩; exact ⟨h1, fun hs c hc c' hc' => h2 hs c hc c' ((h _).2 hc')⟩
  · rintro ⟨h1, h2⟩; exact ⟨h1, fun hs c hc c' hc' => h2 hs c hc c' ((h _).1 hc')⟩

theorem onMemberAdded_noop {st : Idx Sel} (hs : st.suppress = false) (s : String) (m : Member) :
    onMemberAdded s m st = emit (.added s m) st := by
  cases m <;> simp [onMemberAdded, supAdd, hs]

theorem onMemberRemoved_noop {st : Idx Sel} (hs : st.suppress = false) (s : String) (m : Member) :
    onMemberRemoved s m st = emit (.removed s m) st := by
  cases m <;> simp [onMemberRemoved, supRemove, hs]

theorem onMemberAdded_sup {st : Idx Sel} (hs : st.suppress = true) (s : String) (c : Cidr) :
    onMemberAdded s (.cidr c) st =
      { st with
        tries := alSet s (setAdd c (trieOf st s)) st.tries
        out := st.out ++ (if covers (trieOf st s) c then []
          else .added s (.cidr c) ::
            (closestDesc (setAdd c (trieOf st s)) c).map (fun x => Event.removed s (.cidr x))) } := by
  simp only [onMemberAdded, supAdd, hs, if_true]
  by_cases hc : covers (trieOf st s) c = true
  · simp [hc]
  · simp only [hc, Bool.false_eq_true, if_false, if_true]
    rw [foldl_emit]
    simp [emit]

theorem onMemberRemoved_sup {st : Idx Sel} (hs : st.suppress = true) (s : String) (c : Cidr) :
    onMemberRemoved s (.cidr c) st =
      { st with
        tries := alSet s ((trieOf st s).filter (fun d => d ≠ c)) st.tries
        out := st.out ++ (if covers ((trieOf st s).filter (fun d => d ≠ c)) c then []
          else .removed s (.cidr c) ::
            (closestDesc (trieOf st s) c).map (fun x => Event.added s (.cidr x))) } := by
  simp only [onMemberRemoved, supRemove, hs, if_true]
  generalize (trieOf st s).filter (fun d => d ≠ c) = t'
  by_cases hc : covers t' c = true
  · simp [hc]
  · simp only [hc, Bool.false_eq_true, if_false, if_true]
    rw [foldl_emit]
    simp [emit]

theorem trieOf_alSet (st : Idx Sel) (s s' : String) (t : List Cidr) (o : List Event) :
    trieOf { st with tries := alSet s t st.tries, out := o } s' = if s' = s then t else trieOf st s' := by
  unfold trieOf
  simp only [alGet_alSet]
  by_cases h : s' = s <;> simp [h]

end Emission

end CalicoVerif.C04
