import CalicoVerif.Proofs.C12BridgeFull
import CalicoVerif.Proofs.C12Nets
/-!
C12 — the reference bridge with literal IPv4 CIDR criteria added to the extended fragment:
`Model/Policy`'s CIDR clauses (`posNetOK` / `negNetOK` with the family reading) against the C11
reference (`filterRule` + `netContains`).
-/
namespace CalicoVerif.C12
open CalicoVerif.C11

/-- Names of IP sets and the API strings of CIDRs. -/
structure NamesN extends Names where
  cidr : Net → String
  cidrFam : ∀ n, Policy.cidrIsV6 (cidr n) = n.v6

/-- The rule without its CIDR criteria. -/
def clearNets (r : C11.Rule) : C11.Rule := { r with srcNet := [], notSrcNet := [], dstNet := [], notDstNet := [] }

/-- C11 rule → Model/Policy rule, CIDR lists included. -/
def trRuleFN (N : NamesN) (r : C11.Rule) : Policy.Rule :=
  { trRuleF N.toNames (clearNets r) with
    srcNet := r.srcNet.map N.cidr, notSrcNet := r.notSrcNet.map N.cidr,
    dstNet := r.dstNet.map N.cidr, notDstNet := r.notDstNet.map N.cidr }

/-- `EnvRel` plus: the kernel's CIDR containment agrees with the numeric one on the CIDRs `U` the policy
state mentions. -/
structure EnvRelN (N : NamesN) (U : List Net) (env9 : Netfilter.Env) (pkt9 : Netfilter.Packet) (env : Env) (p : Pkt) :
    Prop where
  base : EnvRel N.toNames env9 pkt9 env p
  netS : ∀ n ∈ U, n.v6 = false → env9.netContains (N.cidr n) pkt9.src = netContains false p.src n
  netD : ∀ n ∈ U, n.v6 = false → env9.netContains (N.cidr n) pkt9.dst = netContains false p.postDst n

/-- The extended fragment with IPv4 CIDR lists (taken from `U`). -/
structure RuleFullN (U : List Net) (r : C11.Rule) : Prop where
  rest : RuleFull (clearNets r)
  v4 : ∀ n ∈ r.srcNet ++ r.notSrcNet ++ r.dstNet ++ r.notDstNet, n.v6 = false
  sub : ∀ n ∈ r.srcNet ++ r.notSrcNet ++ r.dstNet ++ r.notDstNet, n ∈ U

theorem filterRule_v4nets (r : Rule) (hip : r.ipVersion = 0)
    (hv : ∀ n ∈ r.srcNet ++ r.notSrcNet ++ r.dstNet ++ r.notDstNet, n.v6 = false) :
    filterRule false r =
      if r.notSrcNet.any isZeroNet || r.notDstNet.any isZeroNet then none else some r := by
  simp only [List.mem_append] at hv
  have e1 := filterNets_v4 r.srcNet false (fun n hn => hv n (by simp [hn]))
  have e2 := filterNets_v4 r.notSrcNet true (fun n hn => hv n (by simp [hn]))
  have e3 := filterNets_v4 r.dstNet false (fun n hn => hv n (by simp [hn]))
  have e4 := filterNets_v4 r.notDstNet true (fun n hn => hv n (by simp [hn]))
  simp only [Bool.false_and, Bool.false_eq_true, if_false, Bool.true_and] at e1 e2 e3 e4
  unfold filterRule
  simp only [hip, bne_self_eq_false, Bool.false_and, Bool.false_eq_true, if_false, e1, e2, e3, e4]
  by_cases z1 : r.notSrcNet.any isZeroNet = true
  · simp [z1]
  · have z1' : r.notSrcNet.any isZeroNet = false := by simpa using z1
    by_cases z2 : r.notDstNet.any isZeroNet = true
    · simp [z1', z2]
    · have z2' : r.notDstNet.any isZeroNet = false := by simpa using z2
      simp [z1', z2']
      cases r
      simp only at hip
      subst hip
      rfl

theorem netContains_zero (a : List (BitVec 32)) (n : Net) (hv : n.v6 = false) (hz : isZeroNet n = true) :
    netContains false a n = true := by
  simp only [isZeroNet, Bool.and_eq_true, beq_iff_eq] at hz
  simp [netContains, netContains4, hz.1, hz.2, mask32bv]

theorem all_not_eq {α : Type} (l : List α) (f : α → Bool) : l.all (fun x => !f x) = !l.any f := by
  induction l with
  | nil => rfl
  | cons x xs ih => simp only [List.all_cons, List.any_cons, ih, Bool.not_or]

/-- positive CIDR list -/
theorem posNet_bridge (N : NamesN) (env9 : Netfilter.Env) (a9 : Nat) (a : List (BitVec 32)) (nets : List Net)
    (hv : ∀ n ∈ nets, n.v6 = false) (hn : ∀ n ∈ nets, env9.netContains (N.cidr n) a9 = netContains false a n) :
    Policy.posNetOK env9 false (nets.map N.cidr) a9 = (nets.isEmpty || nets.any (netContains false a)) := by
  unfold Policy.posNetOK Policy.familyOK Policy.netHas
  cases nets with
  | nil => rfl
  | cons x xs =>
    have hfam : ((x :: xs).map N.cidr).any (fun c => Policy.cidrIsV6 c == false) = true := by
      simp [N.cidrFam, hv x List.mem_cons_self]
    have hany : ((x :: xs).map N.cidr).any (fun c => Policy.cidrIsV6 c == false && env9.netContains c a9) =
        (x :: xs).any (netContains false a) := by
      rw [List.any_map]
      exact any_congr_mem _ _ _ (fun n hnm => by
        simp only [Function.comp, N.cidrFam, hv n hnm, beq_self_eq_true, Bool.true_and]; exact hn n hnm)
    simp only [List.map_cons, List.isEmpty_cons, Bool.false_or] at hfam hany ⊢
    rw [hfam, hany]; rfl

/-- negated CIDR list (no 0.0.0.0/0 among them is not required here) -/
theorem negNet_bridge (N : NamesN) (env9 : Netfilter.Env) (a9 : Nat) (a : List (BitVec 32)) (nets : List Net)
    (hv : ∀ n ∈ nets, n.v6 = false) (hn : ∀ n ∈ nets, env9.netContains (N.cidr n) a9 = netContains false a n) :
    Policy.negNetOK env9 false (nets.map N.cidr) a9 = nets.all (fun n => !netContains false a n) := by
  unfold Policy.negNetOK Policy.familyOK Policy.netHas
  have hall : nets.all (fun n => !netContains false a n) = !nets.any (netContains false a) := all_not_eq nets _
  rw [hall]
  cases nets with
  | nil => rfl
  | cons x xs =>
    have hfam : ((x :: xs).map N.cidr).any (fun c => Policy.cidrIsV6 c == false) = true := by
      simp [N.cidrFam, hv x List.mem_cons_self]
    have hany : ((x :: xs).map N.cidr).any (fun c => Policy.cidrIsV6 c == false && env9.netContains c a9) =
        (x :: xs).any (netContains false a) := by
      rw [List.any_map]
      exact any_congr_mem _ _ _ (fun n hnm => by
        simp only [Function.comp, N.cidrFam, hv n hnm, beq_self_eq_true, Bool.true_and]; exact hn n hnm)
    simp only [List.map_cons, List.isEmpty_cons, Bool.false_or] at hfam hany ⊢
    rw [hfam, hany]; rfl


/-- The CIDR clauses of the C11 reference match. -/
def netsPart (env : Env) (p : Pkt) (r : C11.Rule) : Bool :=
  (r.srcNet.isEmpty || r.srcNet.any (netContains env.c.v6 p.src)) &&
  r.notSrcNet.all (fun n => !netContains env.c.v6 p.src n) &&
  (r.dstNet.isEmpty || r.dstNet.any (netContains env.c.v6 p.postDst)) &&
  r.notDstNet.all (fun n => !netContains env.c.v6 p.postDst n)

theorem ruleMatch_split (env : Env) (p : Pkt) (r : C11.Rule) :
    C11.ruleMatch env p .dest r = (netsPart env p r && C11.ruleMatch env p .dest (clearNets r)) := by
  simp only [C11.ruleMatch, netsPart, clearNets, Pkt.addr, List.isEmpty_nil, Bool.true_or, List.all_nil, Bool.and_true]
  ac_rfl

theorem restMatch_clear (N : NamesN) (env9 : Netfilter.Env) (r : C11.Rule) (pkt9 : Netfilter.Packet) :
    Policy.restMatch env9 (C08.setNameFor false) (trRuleFN N r) pkt9 =
      Policy.restMatch env9 (C08.setNameFor false) (trRuleF N.toNames (clearNets r)) pkt9 := rfl

theorem ruleMatches_noNets (N : Names) (env9 : Netfilter.Env) (r0 : C11.Rule) (pkt9 : Netfilter.Packet)
    (h : r0.ipVersion = 0 ∧ r0.srcNet = [] ∧ r0.notSrcNet = [] ∧ r0.dstNet = [] ∧ r0.notDstNet = []) :
    Policy.ruleMatches env9 (C08.setNameFor false) (trRuleF N r0) pkt9 =
      Policy.restMatch env9 (C08.setNameFor false) (trRuleF N r0) pkt9 := by
  obtain ⟨h0, _, _, _, _⟩ := h
  simp [Policy.ruleMatches, Policy.netsMatch, Policy.posNetOK, Policy.negNetOK, Policy.familyOK, trRuleF, h0]

/-- **Same match decision under both references, IPv4 CIDR criteria included.** -/
theorem ruleMatches_fullN {N : NamesN} {U : List Net} {env9 : Netfilter.Env} {pkt9 : Netfilter.Packet} {env : Env}
    {p : Pkt} (he : EnvRelN N U env9 pkt9 env p) (r : C11.Rule) (hr : RuleFullN U r) :
    Policy.ruleMatches env9 (C08.setNameFor false) (trRuleFN N r) pkt9 =
      (match filterRule env.c.v6 r with
       | none => false
       | some fr => C11.ruleMatch env p .dest fr) := by
  have hv := hr.v4
  have hv' := hv
  simp only [List.mem_append] at hv'
  have hsub := hr.sub
  simp only [List.mem_append] at hsub
  have hip : r.ipVersion = 0 := hr.rest.noNet.1
  have hrest := ruleMatches_full he.base (clearNets r) hr.rest
  rw [ruleMatches_noNets N.toNames env9 (clearNets r) pkt9 hr.rest.noNet] at hrest
  -- the Model/Policy side: CIDR clauses and the rest
  have hL : Policy.ruleMatches env9 (C08.setNameFor false) (trRuleFN N r) pkt9 =
      (netsPart env p r && C11.ruleMatch env p .dest (clearNets r)) := by
    have e1 := posNet_bridge N env9 pkt9.src p.src r.srcNet (fun n hn => hv' n (by simp [hn]))
      (fun n hn => he.netS n (hsub n (by simp [hn])) (hv' n (by simp [hn])))
    have e2 := negNet_bridge N env9 pkt9.src p.src r.notSrcNet (fun n hn => hv' n (by simp [hn]))
      (fun n hn => he.netS n (hsub n (by simp [hn])) (hv' n (by simp [hn])))
    have e3 := posNet_bridge N env9 pkt9.dst p.postDst r.dstNet (fun n hn => hv' n (by simp [hn]))
      (fun n hn => he.netD n (hsub n (by simp [hn])) (hv' n (by simp [hn])))
    have e4 := negNet_bridge N env9 pkt9.dst p.postDst r.notDstNet (fun n hn => hv' n (by simp [hn]))
      (fun n hn => he.netD n (hsub n (by simp [hn])) (hv' n (by simp [hn])))
    have hiv : (trRuleFN N r).ipVersion = 0 := hip
    simp only [Policy.ruleMatches, hiv, beq_self_eq_true, Bool.true_or, Bool.true_and, restMatch_clear, hrest,
      Policy.netsMatch, he.base.pv4]
    have : (trRuleFN N r).srcNet = r.srcNet.map N.cidr ∧ (trRuleFN N r).notSrcNet = r.notSrcNet.map N.cidr ∧
        (trRuleFN N r).dstNet = r.dstNet.map N.cidr ∧ (trRuleFN N r).notDstNet = r.notDstNet.map N.cidr :=
      ⟨rfl, rfl, rfl, rfl⟩
    rw [this.1, this.2.1, this.2.2.1, this.2.2.2, e1, e2, e3, e4]
    simp only [netsPart, he.base.v4]
  rw [hL, he.base.v4, filterRule_v4nets r hip hv]
  by_cases z : (r.notSrcNet.any isZeroNet || r.notDstNet.any isZeroNet) = true
  · rw [if_pos z]
    simp only [Bool.or_eq_true, List.any_eq_true] at z
    have : netsPart env p r = false := by
      unfold netsPart
      rw [he.base.v4]
      rcases z with ⟨x, hx, hz⟩ | ⟨x, hx, hz⟩
      · have : r.notSrcNet.all (fun n => !netContains false p.src n) = false := by
          rw [Bool.eq_false_iff]; intro hall
          have := List.all_eq_true.1 hall x hx
          simp [netContains_zero p.src x (hv' x (by simp [hx])) hz] at this
        simp [this]
      · have : r.notDstNet.all (fun n => !netContains false p.postDst n) = false := by
          rw [Bool.eq_false_iff]; intro hall
          have := List.all_eq_true.1 hall x hx
          simp [netContains_zero p.postDst x (hv' x (by simp [hx])) hz] at this
        simp [this]
    rw [this]; rfl
  · rw [if_neg z]
    simp only
    rw [ruleMatch_split env p r]

/-- The rule bridge with IPv4 CIDR criteria. -/
theorem ruleBridge_fullN {N : NamesN} {U : List Net} {env9 : Netfilter.Env} {pkt9 : Netfilter.Packet} {env : Env}
    {p : Pkt} (he : EnvRelN N U env9 pkt9 env p) : RuleBridge env9 pkt9 env p (trRuleFN N) (RuleFullN U) :=
  ⟨fun r hr => ⟨hr.rest.act, rfl⟩, fun r hr => ruleMatches_fullN he r hr⟩

end CalicoVerif.C12
