import CalicoVerif.Proofs.C16y
set_option linter.unusedSimpArgs false
namespace CalicoVerif.C16

/-- What `ApplyDeletions` may change. -/
structure AD (w w' : W) : Prop where
  cfg : w'.cfg = w.cfg
  pres : Pres w.F w'.F
  desK : ∀ n, w.F.desired.has n = true → w'.K.get n = w.K.get n
  cov : Cov w.cfg w.F w.K → Cov w.cfg w'.F w'.K
  dpSub : ∀ b, w'.F.dp.has b = true → w.F.dp.has b = true
  qSub : (∀ x ∈ w'.F.qMust, x ∈ w.F.qMust) ∧ (∀ x ∈ w'.F.qBg, x ∈ w.F.qBg)
  kSub : ∀ b, w'.K.has b = true → w.K.has b = true

theorem AD.refl (w : W) : AD w w :=
  ⟨rfl, Pres.refl _, fun _ _ => rfl, fun h => h, fun _ h => h, ⟨fun _ h => h, fun _ h => h⟩, fun _ h => h⟩

theorem AD.trans {a b c : W} (h1 : AD a b) (h2 : AD b c) : AD a c := by
  refine ⟨h2.cfg.trans h1.cfg, Pres.trans h1.pres h2.pres, ?_, ?_, ?_, ?_, ?_⟩
  · intro n hn; exact (h2.desK n (by rw [h1.pres.1.2.1]; exact hn)).trans (h1.desK n hn)
  · intro hcov
    have := h2.cov (h1.cfg ▸ h1.cov hcov)
    rw [h1.cfg] at this; exact this
  · intro b hb; exact h1.dpSub b (h2.dpSub b hb)
  · exact ⟨fun x hx => h1.qSub.1 x (h2.qSub.1 x hx), fun x hx => h1.qSub.2 x (h2.qSub.2 x hx)⟩
  · intro b hb; exact h1.kSub b (h2.kSub b hb)

theorem afterDestroy_pres (F : Felix) (d : String) : Pres F (F.afterDestroy d) := by
  unfold Felix.afterDestroy
  dsimp only
  refine ⟨?_, ?_⟩
  · split <;> exact ⟨rfl, rfl, rfl, rfl⟩
  · intro n des ha htr
    obtain ⟨t, ht, hd⟩ := htr
    have hqa : (F.qRemove d).allMeta = F.allMeta := rfl
    have hqm : (F.qRemove d).members = F.members := rfl
    by_cases hnd : n = d
    · subst hnd
      simp only [hqa, ha, Bool.not_true, Bool.false_eq_true, if_false]
      refine ⟨{ t with dp := [] }, ?_, hd⟩
      simp [Map.get_set, Felix.tracker, hqm, ht]
    · split
      · exact ⟨t, by simp [hqm, Map.get_erase, hnd, ht], hd⟩
      · exact ⟨t, by simp [hqm, Map.get_set, hnd, ht], hd⟩

theorem applyDeletions_go_AD : ∀ (fuel : Nat) (cands : List String) (w : W),
    (∀ x ∈ cands, w.F.desired.has x = false ∧ w.F.dp.has x = true) → AD w (W.applyDeletions.go fuel cands w).1 := by
  intro fuel
  induction fuel with
  | zero => intro cands w _; unfold W.applyDeletions.go; exact AD.refl w
  | succ fuel ih =>
    intro cands w hc
    unfold W.applyDeletions.go
    cases cands with
    | nil => exact AD.refl w
    | cons c0 cs =>
      dsimp only
      have hp := popHintD_same w
      generalize popHintD w = r at hp
      obtain ⟨w1, h⟩ := r
      dsimp only at hp ⊢
      have k01 : AD w w1 := by
        refine ⟨hp.2.2, by rw [hp.1]; exact Pres.refl _, fun n _ => by rw [hp.2.1], ?_,
          fun b hb => by rw [hp.1] at hb; exact hb,
          ⟨fun x hx => by rw [hp.1] at hx; exact hx, fun x hx => by rw [hp.1] at hx; exact hx⟩,
          fun b hb => by rw [hp.2.1] at hb; exact hb⟩
        intro hcov; rw [hp.1, hp.2.1]; exact hcov
      split
      · exact AD.trans k01 ⟨rfl, Pres.refl _, fun _ _ => rfl, fun h => h, fun _ h => h, ⟨fun _ h => h, fun _ h => h⟩, fun _ h => h⟩
      · rename_i d hpick
        have hmem := pickHint_mem hpick
        obtain ⟨hdnd, hddp⟩ := hc d hmem
        cases hok : w1.destroyOk d with
        | true =>
          obtain ⟨hK, hF, hcfg, hres⟩ := destroy_ok w1 d hok
          generalize w1.destroy d = r2 at hK hF hcfg hres
          obtain ⟨w2, ok⟩ := r2
          dsimp only at hK hF hcfg hres ⊢
          subst hres
          simp only [if_true]
          refine AD.trans k01 ⟨hcfg, by rw [hF]; exact afterDestroy_pres _ d, ?_, ?_, ?_, ?_, ?_⟩
          · intro n hn
            have : n ≠ d := by rintro rfl; rw [hp.1, hdnd] at hn; exact absurd hn (by simp)
            rw [hK, Map.get_erase]; simp [this]
          · intro hcov b hown hb
            rw [hK, Map.has_erase, Bool.and_eq_true] at hb
            have h1 := hcov b hown hb.2
            have hbd : b ≠ d := by simpa using hb.1
            simp only [hF, Felix.afterDestroy, Map.has]
            split <;> simp only [Map.get_erase, hbd, if_false] <;> exact h1
          · intro b hb
            simp only [hF, Felix.afterDestroy] at hb
            split at hb <;> (simp only [Map.has_erase, Bool.and_eq_true] at hb; exact hb.2)
          · simp only [hF, Felix.afterDestroy]
            split <;> exact ⟨fun x hx => (mem_sErase_iff.1 hx).1, fun x hx => (mem_sErase_iff.1 hx).1⟩
          · intro b hb
            rw [hK, Map.has_erase, Bool.and_eq_true] at hb
            exact hb.2
        | false =>
          obtain ⟨hK, hF, hcfg, hres⟩ := destroy_TD_fail w1 d hok
          generalize w1.destroy d = r2 at hK hF hcfg hres
          obtain ⟨w2, ok⟩ := r2
          dsimp only at hK hF hcfg hres ⊢
          subst hres
          simp only [Bool.false_eq_true, if_false]
          have hddp1 : w1.F.dp.has d = true := by rw [hp.1]; exact hddp
          have k12 : AD w1 ({ w2 with F := w2.F.markDeleteFailed d } : W) := by
            refine ⟨hcfg, ?_, fun n _ => by show w2.K.get n = _; rw [hK], ?_, ?_, ?_, fun b hb => by rw [show ({ w2 with F := w2.F.markDeleteFailed d } : W).K = w1.K from hK] at hb; exact hb⟩
            · rw [hF]; exact Pres.of_members ⟨rfl, rfl, rfl, rfl⟩ rfl
            · intro hcov b hown hb
              have hb' : w1.K.has b = true := by rw [← hK]; exact hb
              have := hcov b hown hb'
              simp only [hF, Felix.markDeleteFailed, Map.has_set, Bool.or_eq_true]
              exact Or.inr this
            · intro b hb
              simp only [hF, Felix.markDeleteFailed, Map.has_set, Bool.or_eq_true, beq_iff_eq] at hb
              rcases hb with rfl | hb
              · exact hddp1
              · exact hb
            · simp only [hF, Felix.markDeleteFailed]
              exact ⟨fun _ h => h, fun _ h => h⟩
          refine AD.trans k01 (AD.trans k12 (ih _ _ ?_))
          intro x hx
          have hx' := hc x (mem_sErase hx)
          simp only [hF, Felix.markDeleteFailed, Map.has_set, Bool.or_eq_true, hp.1]
          exact ⟨hx'.1, Or.inr hx'.2⟩

theorem applyDeletions_AD (w : W) : AD w w.applyDeletions.1 := by
  unfold W.applyDeletions
  dsimp only
  have h := applyDeletions_go_AD
    (w.F.pendingDeletions.filter (fun n => !((w.F.dp.get n).getD Meta.zero).deleteFailed)).length
    (w.F.pendingDeletions.filter (fun n => !((w.F.dp.get n).getD Meta.zero).deleteFailed)) w
    (fun c hc => by
      have hm := (List.mem_filter.1 hc).1
      refine ⟨mem_pendingDeletions hm, ?_⟩
      unfold Felix.pendingDeletions at hm
      rw [List.mem_eraseDups] at hm
      exact (Map.has_iff_mem_keys _ _).2 (List.mem_filter.1 hm).1)
  generalize W.applyDeletions.go _ _ w = r at h
  obtain ⟨w1, nd⟩ := r
  dsimp only at h ⊢
  split
  · exact h
  · split <;> exact h

/-- With an accurate key set and nothing left to delete, every owned set in the kernel is desired. -/
theorem no_stale_owned {c : Cfg} {F : Felix} {K : Kernel} (hcov : Cov c F K)
    (hdrained : F.pendingDeletions = []) (b : String) (hown : c.owns b = true) (hk : K.has b = true) :
    F.desired.has b = true := by
  have hdp := hcov b hown hk
  cases hd : F.desired.has b with
  | true => rfl
  | false =>
    exfalso
    have : b ∈ F.pendingDeletions := by
      unfold Felix.pendingDeletions
      rw [List.mem_eraseDups]
      exact List.mem_filter.2 ⟨(Map.has_iff_mem_keys _ _).1 hdp, by simp [hd]⟩
    rw [hdrained] at this; simp at this

theorem AD.exact {w w' : W} (h : AD w w') {n : String} (hex : Exact w.F w.K n)
    (ha : w.F.allMeta.has n = true) : Exact w'.F w'.K n := by
  obtain ⟨dm, t, k, h1, h2, h3, h4, h5⟩ := hex
  obtain ⟨t', ht', hd'⟩ := h.pres.2 n t.des ha ⟨t, h2, rfl⟩
  refine ⟨dm, t', k, by rw [h.pres.1.2.1]; exact h1, ht', ?_, h4, by rw [hd']; exact h5⟩
  rw [h.desK n (Map.has_of_get h1)]; exact h3

end CalicoVerif.C16
