import CalicoVerif.Proofs.C01Lbl
/-! C01 helper: the SPECIFICATION's per-endpoint tier list satisfies C03's `IsSpec`.

`fresh` writes an endpoint's list as `filterTiers matched e sortedTiers`, where `sortedTiers` insertion-sorts
(with the PolicySorter's own comparators) one record per tier that exists or is named by an active policy.
Given policy keys with pairwise different tie-break strings (`KeyU`) and pairwise different policy keys in the
datastore, that list is sorted, complete and exact in the sense of `C03.IsSpec` — no graph involved. -/
namespace CalicoVerif.C01
open CalicoVerif C02

/-! ### insertion sort with a btree comparator -/

section sortWith
variable {α : Type} {less : α → α → Bool}

theorem foldl_btInsert_sorted (hs : C03.SWO less) : ∀ (l acc : List α), C03.Sorted less acc →
    C03.Sorted less (l.foldl (fun acc x => C03.btInsert less x acc) acc)
  | [], _, h => h
  | x :: t, acc, h => foldl_btInsert_sorted hs t _ (C03.sorted_btInsert hs x acc h)

theorem sortWith_sorted (hs : C03.SWO less) (l : List α) : C03.Sorted less (sortWith less l) :=
  foldl_btInsert_sorted hs l [] (by simp [C03.Sorted])

theorem mem_foldl_btInsert_of {y : α} : ∀ (l acc : List α),
    y ∈ l.foldl (fun acc x => C03.btInsert less x acc) acc → y ∈ acc ∨ y ∈ l
  | [], _, h => Or.inl h
  | x :: t, acc, h => by
    rcases mem_foldl_btInsert_of t _ h with h1 | h1
    · rcases C03.mem_btInsert x y acc h1 with h2 | h2
      · exact Or.inr (by simp [h2])
      · exact Or.inl h2
    · exact Or.inr (List.mem_cons_of_mem _ h1)

theorem mem_sortWith_of {y : α} {l : List α} (h : y ∈ sortWith less l) : y ∈ l := by
  rcases mem_foldl_btInsert_of l [] h with h | h
  · cases h
  · exact h

theorem mem_foldl_btInsert (hs : C03.SWO less) {y : α} : ∀ (l acc : List α), C03.Sorted less acc →
    (∀ a, a ∈ acc ∨ a ∈ l → ∀ b, b ∈ acc ∨ b ∈ l → a ≠ b → less a b = true ∨ less b a = true) →
    (y ∈ acc ∨ y ∈ l) → y ∈ l.foldl (fun acc x => C03.btInsert less x acc) acc
  | [], _, _, _, h => by
    rcases h with h | h
    · exact h
    · cases h
  | x :: t, acc, hsrt, hc, h => by
    simp only [List.foldl_cons]
    apply mem_foldl_btInsert hs t _ (C03.sorted_btInsert hs x acc hsrt)
    · intro a ha b hb hab
      apply hc a ?_ b ?_ hab
      · rcases ha with ha | ha
        · rcases C03.mem_btInsert x a acc ha with h2 | h2
          · exact Or.inr (by simp [h2])
          · exact Or.inl h2
        · exact Or.inr (List.mem_cons_of_mem _ ha)
      · rcases hb with hb | hb
        · rcases C03.mem_btInsert x b acc hb with h2 | h2
          · exact Or.inr (by simp [h2])
          · exact Or.inl h2
        · exact Or.inr (List.mem_cons_of_mem _ hb)
    · rcases h with h | h
      · by_cases hyx : y = x
        · subst hyx; exact Or.inl (C03.mem_btInsert_self y acc)
        · refine Or.inl ((C03.mem_btInsert_iff hs x y acc hsrt).mpr (Or.inr ⟨h, ?_⟩))
          rcases hc y (Or.inl h) x (Or.inr (List.mem_cons_self ..)) hyx with h3 | h3
          · exact Or.inr h3
          · exact Or.inl h3
      · rcases List.mem_cons.mp h with h | h
        · subst h; exact Or.inl (C03.mem_btInsert_self y acc)
        · exact Or.inr h

theorem mem_sortWith (hs : C03.SWO less) {l : List α}
    (hc : ∀ a ∈ l, ∀ b ∈ l, a ≠ b → less a b = true ∨ less b a = true) {y : α} (h : y ∈ l) :
    y ∈ sortWith less l :=
  mem_foldl_btInsert hs l [] (by simp [C03.Sorted])
    (fun a ha b hb hab => hc a (by rcases ha with x | x; cases x; exact x) b (by rcases hb with x | x; cases x; exact x) hab)
    (Or.inr h)

end sortWith

/-! ### `filterTiers` -/

/-- what `filterTiers` makes of one tier record -/
def ftImg (M : List (PolicyKey × EpKey)) (e : EpKey) (t : TierInfo) : TierInfo :=
  { name := t.name, order := t.order, defaultAction := t.defaultAction, valid := true,
    policies := t.policies.filter (fun kv => decide ((kv.key, e) ∈ M)) }

theorem mem_filterTiers (M : List (PolicyKey × EpKey)) (e : EpKey) : ∀ (ts : List TierInfo) (t' : TierInfo),
    t' ∈ C03.filterTiers M e ts ↔ ∃ t ∈ ts, (ftImg M e t).policies ≠ [] ∧ t' = ftImg M e t
  | [], t' => by simp [C03.filterTiers]
  | t :: ts, t' => by
    have ih := mem_filterTiers M e ts t'
    simp only [C03.filterTiers]
    cases hemp : (t.policies.filter (fun kv => decide ((kv.key, e) ∈ M))).isEmpty with
    | true =>
      simp only [if_true]
      rw [ih]
      have hnil : (ftImg M e t).policies = [] := by simpa [ftImg] using hemp
      constructor
      · rintro ⟨t0, h0, h1, h2⟩; exact ⟨t0, List.mem_cons_of_mem _ h0, h1, h2⟩
      · rintro ⟨t0, h0, h1, h2⟩
        rcases List.mem_cons.mp h0 with h | h
        · subst h; exact absurd hnil h1
        · exact ⟨t0, h, h1, h2⟩
    | false =>
      simp only [Bool.false_eq_true, if_false, List.mem_cons]
      rw [ih]
      have hne : (ftImg M e t).policies ≠ [] := by
        intro h
        have : (t.policies.filter (fun kv => decide ((kv.key, e) ∈ M))).isEmpty = true := by simpa [ftImg] using h
        rw [hemp] at this; cases this
      constructor
      · rintro (h | ⟨t0, h0, h1, h2⟩)
        · exact ⟨t, Or.inl rfl, hne, h⟩
        · exact ⟨t0, Or.inr h0, h1, h2⟩
      · rintro ⟨t0, h0, h1, h2⟩
        rcases h0 with h | h
        · subst h; exact Or.inl h2
        · exact Or.inr ⟨t0, h, h1, h2⟩

theorem pairwise_filterTiers (M : List (PolicyKey × EpKey)) (e : EpKey) (R : TierInfo → TierInfo → Prop)
    (hR : ∀ a b, R a b → R (ftImg M e a) (ftImg M e b)) : ∀ (ts : List TierInfo), ts.Pairwise R →
    (C03.filterTiers M e ts).Pairwise R
  | [], _ => by simp [C03.filterTiers]
  | t :: ts, h => by
    simp only [List.pairwise_cons] at h
    have ih := pairwise_filterTiers M e R hR ts h.2
    simp only [C03.filterTiers]
    split
    · exact ih
    · refine List.pairwise_cons.mpr ⟨?_, ih⟩
      intro b hb
      obtain ⟨t0, h0, _, rfl⟩ := (mem_filterTiers M e ts b).mp hb
      exact hR t t0 (h.1 t0 h0)

/-! ### association-list facts -/

theorem inj_of_nodup_map {α β : Type} (f : α → β) : ∀ {l : List α}, (l.map f).Nodup → ∀ a ∈ l, ∀ b ∈ l, f a = f b → a = b
  | [], _, _, h, _, _, _ => by cases h
  | x :: t, hn, a, ha, b, hb, hab => by
    simp only [List.map_cons, List.nodup_cons] at hn
    rcases List.mem_cons.mp ha with ha | ha
    · rcases List.mem_cons.mp hb with hb | hb
      · rw [ha, hb]
      · exfalso; apply hn.1; rw [← ha, hab]; exact List.mem_map.mpr ⟨b, hb, rfl⟩
    · rcases List.mem_cons.mp hb with hb | hb
      · exfalso; apply hn.1; rw [← hb, ← hab]; exact List.mem_map.mpr ⟨a, ha, rfl⟩
      · exact inj_of_nodup_map f hn.2 a ha b hb hab

theorem nodup_addAll {α : Type} [DecidableEq α] : ∀ (xs s : List α), s.Nodup → (C03.addAll xs s).Nodup
  | [], _, h => h
  | x :: t, s, h => by
    unfold C03.addAll
    simp only [List.foldl_cons]
    exact nodup_addAll t _ (nodup_sadd h)

theorem mem_addAll {α : Type} [DecidableEq α] (xs : List α) (k : α) : k ∈ C03.addAll xs [] ↔ k ∈ xs := by
  unfold C03.addAll
  rw [mem_foldl_sadd]
  simp


theorem swo_tierInfoLess : C03.SWO tierInfoLess :=
  ⟨fun _ => C03.swo_tierLess.irrefl _, fun _ _ _ => C03.swo_tierLess.trans _ _ _,
    fun _ _ _ => C03.swo_tierLess.negTrans _ _ _⟩

theorem nodup_keys_filterMap {κ β : Type} (c : Nat × (κ × β) → Bool) : ∀ (m : List (Nat × (κ × β))),
    (m.map (·.2.1)).Nodup → ((m.filterMap (fun p => if c p then some p.2 else none)).map (·.1)).Nodup ∧
    ∀ k ∈ (m.filterMap (fun p => if c p then some p.2 else none)).map (·.1), k ∈ m.map (·.2.1)
  | [], _ => by simp
  | p :: t, h => by
    simp only [List.map_cons, List.nodup_cons] at h
    obtain ⟨ih1, ih2⟩ := nodup_keys_filterMap c t h.2
    cases hc : c p with
    | false =>
      simp only [List.filterMap_cons, hc, Bool.false_eq_true, if_false]
      exact ⟨ih1, fun k hk => by simp only [List.map_cons]; exact List.mem_cons_of_mem _ (ih2 k hk)⟩
    | true =>
      simp only [List.filterMap_cons, hc, if_true, List.map_cons, List.nodup_cons]
      refine ⟨⟨fun hm => h.1 (ih2 _ hm), ih1⟩, ?_⟩
      intro k hk
      rcases List.mem_cons.mp hk with hk | hk
      · rw [hk]; exact List.mem_cons_self ..
      · exact List.mem_cons_of_mem _ (ih2 k hk)

/-- THE SPECIFICATION'S LIST SATISFIES `IsSpec`. -/
theorem fresh_isSpec (ds : DS) (K : PolicyKey → Prop) (hK : C03.KeyU K) (hKp : ∀ p ∈ ds.pols, K p.2.1)
    (hnd : (ds.pols.map (·.2.1)).Nodup) (e : EpKey) :
    C03.IsSpec ds.tiers ds.polMetas ds.matched e (C03.filterTiers ds.matched e ds.sortedTiers) := by
  -- the active policies' metadata
  have hmetas : ∀ kv : PolKV, kv ∈ ds.metas ↔ ∃ p ∈ ds.pols,
      kv = ⟨p.2.1, C03.extractPolicyMetadata p.2.2.pmeta⟩ ∧ ds.matched.any (fun m => m.1 = p.2.1) = true := by
    intro kv
    unfold DS.metas DS.activePols
    simp only [List.mem_map, List.mem_filterMap]
    constructor
    · rintro ⟨a, ⟨p, hp, hpa⟩, rfl⟩
      split at hpa
      · rename_i hany
        simp only [Option.some.injEq] at hpa
        subst hpa
        exact ⟨p, hp, rfl, hany⟩
      · cases hpa
    · rintro ⟨p, hp, rfl, hany⟩
      exact ⟨p.2, ⟨p, hp, by simp [hany]⟩, rfl⟩
  have hmetaKeys : (ds.metas.map PolKV.key).Nodup := by
    have := (nodup_keys_filterMap (fun p => ds.matched.any (fun m => m.1 = p.2.1)) ds.pols hnd).1
    unfold DS.metas DS.activePols
    rw [List.map_map]
    exact this
  have hmetaInj : ∀ a ∈ ds.metas, ∀ b ∈ ds.metas, a.key = b.key → a = b := inj_of_nodup_map PolKV.key hmetaKeys
  have hmetaK : ∀ a ∈ ds.metas, K a.key := by
    intro a ha
    obtain ⟨p, hp, rfl, _⟩ := (hmetas a).mp ha
    exact hKp p hp
  -- the policies of one tier record
  have hpolsOf : ∀ (n : String) (kv : PolKV), kv ∈ (ds.tierInfo n).policies ↔ kv ∈ ds.metas ∧ kv.val.tier = n := by
    intro n kv
    show kv ∈ sortWith C03.polKVLess (ds.metas.filter (fun kv => kv.val.tier = n)) ↔ _
    constructor
    · intro h
      have := mem_sortWith_of h
      simpa [List.mem_filter] using this
    · intro h
      apply mem_sortWith C03.swo_polKVLess
      · intro a ha b hb hab
        have ha' := (List.mem_filter.mp ha).1
        have hb' := (List.mem_filter.mp hb).1
        exact C03.pol_comparable hK (hmetaK a ha') (hmetaK b hb') (fun hk => hab (hmetaInj a ha' b hb' hk))
      · simpa [List.mem_filter] using h
  -- the records
  have hnamesNd : ds.tierNames.Nodup := nodup_addAll _ _ (by simp)
  have hST : ∀ t, t ∈ ds.sortedTiers ↔ ∃ n ∈ ds.tierNames, t = ds.tierInfo n := by
    intro t
    unfold DS.sortedTiers
    constructor
    · intro h
      obtain ⟨n, hn, rfl⟩ := List.mem_map.mp (mem_sortWith_of h)
      exact ⟨n, hn, rfl⟩
    · rintro ⟨n, hn, rfl⟩
      apply mem_sortWith swo_tierInfoLess
      · intro a ha b hb hab
        obtain ⟨na, _, rfl⟩ := List.mem_map.mp ha
        obtain ⟨nb, _, rfl⟩ := List.mem_map.mp hb
        have hne : na ≠ nb := fun e => hab (by rw [e])
        exact C03.tier_comparable (a := ⟨na, _, _⟩) (b := ⟨nb, _, _⟩) hne
      · exact List.mem_map.mpr ⟨n, hn, rfl⟩
  have hl : ∀ t, t ∈ C03.filterTiers ds.matched e ds.sortedTiers ↔
      ∃ n ∈ ds.tierNames, (ftImg ds.matched e (ds.tierInfo n)).policies ≠ [] ∧ t = ftImg ds.matched e (ds.tierInfo n) := by
    intro t
    rw [mem_filterTiers]
    constructor
    · rintro ⟨t0, h0, h1, h2⟩
      obtain ⟨n, hn, rfl⟩ := (hST t0).mp h0
      exact ⟨n, hn, h1, h2⟩
    · rintro ⟨n, hn, h1, h2⟩
      exact ⟨_, (hST _).mpr ⟨n, hn, rfl⟩, h1, h2⟩
  have hpolMeta : ∀ p m, mget ds.polMetas p = some m ↔
      ∃ q ∈ ds.pols, q.2.1 = p ∧ m = C03.extractPolicyMetadata q.2.2.pmeta := by
    intro p m
    have hkeys : (mkeys ds.polMetas).Nodup := by
      unfold DS.polMetas mkeys
      rw [List.map_map]
      exact hnd
    constructor
    · intro h
      have := mget_mem h
      unfold DS.polMetas at this
      obtain ⟨q, hq, hqe⟩ := List.mem_map.mp this
      simp only [Prod.mk.injEq] at hqe
      exact ⟨q, hq, hqe.1, hqe.2.symm⟩
    · rintro ⟨q, hq, rfl, rfl⟩
      apply mget_of_mem_nodup hkeys
      unfold DS.polMetas
      exact List.mem_map.mpr ⟨q, hq, rfl⟩
  refine ⟨?_, ?_, ?_, ?_, ?_, ?_, ?_⟩
  · -- tiers ascend
    have hs : ds.sortedTiers.Pairwise (fun a b => tierInfoLess a b = true) :=
      sortWith_sorted swo_tierInfoLess _
    have hs2 : ds.sortedTiers.Pairwise (fun a b =>
        C03.tierLess (C03.dkey ds.tiers a) (C03.dkey ds.tiers b) = true) := by
      refine (List.Pairwise.and_mem.mp hs).imp ?_
      rintro a b ⟨ha, hb, h⟩
      obtain ⟨na, _, rfl⟩ := (hST a).mp ha
      obtain ⟨nb, _, rfl⟩ := (hST b).mp hb
      exact h
    exact pairwise_filterTiers ds.matched e _ (fun a b h => h) _ hs2
  · intro t ht
    obtain ⟨n, _, hne, rfl⟩ := (hl t).mp ht
    exact hne
  · intro t ht
    obtain ⟨n, _, _, rfl⟩ := (hl t).mp ht
    show C03.Sorted C03.polKVLess ((sortWith C03.polKVLess (ds.metas.filter (fun kv => kv.val.tier = n))).filter _)
    exact List.Pairwise.filter _ (sortWith_sorted C03.swo_polKVLess _)
  · intro t ht
    obtain ⟨n, _, _, rfl⟩ := (hl t).mp ht
    have hname : (ftImg ds.matched e (ds.tierInfo n)).name = n := rfl
    rw [hname]
    cases h : mget ds.tiers n with
    | none => simp [ftImg, DS.tierInfo, h]
    | some oa =>
      obtain ⟨o, a⟩ := oa
      simp [ftImg, DS.tierInfo, h]
  · intro p m
    constructor
    · rintro ⟨t, ht, hn, hp⟩
      obtain ⟨n, _, _, rfl⟩ := (hl t).mp ht
      have hp' : (⟨p, m⟩ : PolKV) ∈ (ds.tierInfo n).policies.filter (fun kv => decide ((kv.key, e) ∈ ds.matched)) := hp
      obtain ⟨h1, h2⟩ := List.mem_filter.mp hp'
      simp only [decide_eq_true_eq] at h2
      obtain ⟨h3, _⟩ := (hpolsOf n _).mp h1
      obtain ⟨q, hq, hqe, _⟩ := (hmetas _).mp h3
      simp only [PolKV.mk.injEq] at hqe
      exact ⟨h2, (hpolMeta p m).mpr ⟨q, hq, hqe.1.symm, hqe.2⟩⟩
    · rintro ⟨hm, hpm⟩
      obtain ⟨q, hq, rfl, rfl⟩ := (hpolMeta p m).mp hpm
      have hany : ds.matched.any (fun x => x.1 = q.2.1) = true :=
        List.any_eq_true.mpr ⟨_, hm, by simp⟩
      have hmeta : (⟨q.2.1, C03.extractPolicyMetadata q.2.2.pmeta⟩ : PolKV) ∈ ds.metas :=
        (hmetas _).mpr ⟨q, hq, rfl, hany⟩
      have hname : (C03.extractPolicyMetadata q.2.2.pmeta).tier ∈ ds.tierNames := by
        unfold DS.tierNames
        rw [mem_addAll]
        exact List.mem_append.mpr (Or.inr (List.mem_map.mpr ⟨_, hmeta, rfl⟩))
      have hin : (⟨q.2.1, C03.extractPolicyMetadata q.2.2.pmeta⟩ : PolKV) ∈
          (ftImg ds.matched e (ds.tierInfo (C03.extractPolicyMetadata q.2.2.pmeta).tier)).policies := by
        show _ ∈ (ds.tierInfo _).policies.filter (fun kv => decide ((kv.key, e) ∈ ds.matched))
        exact List.mem_filter.mpr ⟨(hpolsOf _ _).mpr ⟨hmeta, rfl⟩, by simpa using hm⟩
      refine ⟨_, (hl _).mpr ⟨_, hname, ?_, rfl⟩, rfl, hin⟩
      intro hnil
      rw [hnil] at hin
      cases hin
  · intro t ht kv hkv
    obtain ⟨n, _, _, rfl⟩ := (hl t).mp ht
    have hkv' : kv ∈ (ds.tierInfo n).policies.filter (fun kv => decide ((kv.key, e) ∈ ds.matched)) := hkv
    exact ((hpolsOf n kv).mp (List.mem_filter.mp hkv').1).2
  · intro t ht
    obtain ⟨n, _, _, rfl⟩ := (hl t).mp ht
    rfl


/-! ### the side conditions hold for the datastore state of a well-formed history -/

theorem pols_from_hist : ∀ (h : List HStep) (ds : DS) (p : Nat × (PolicyKey × PolVal)),
    p ∈ (h.foldl (fun ds st => match st with
      | .upd u => ds.apply u
      | _ => ds) ds).pols → p ∈ ds.pols ∨ HStep.upd (.policy p.1 p.2.1 (some p.2.2)) ∈ h
  | [], _, _, hp => Or.inl hp
  | st :: t, ds, p, hp => by
    simp only [List.foldl_cons] at hp
    rcases pols_from_hist t _ p hp with h1 | h1
    · cases st with
      | upd u =>
        cases u with
        | policy nid key v =>
          simp only [DS.apply] at h1
          rcases mem_setOrDel h1 with h2 | ⟨h2, h3⟩
          · exact Or.inl h2
          · cases v with
            | none => cases h3
            | some pv =>
              simp only [Option.map_some, Option.some.injEq] at h3
              refine Or.inr (List.mem_cons.mpr (Or.inl ?_))
              rw [← h2, ← h3]
        | endpoint _ _ _ _ => exact Or.inl h1
        | netset _ _ => exact Or.inl h1
        | profLabels _ _ => exact Or.inl h1
        | profRules _ _ => exact Or.inl h1
        | tier _ _ => exact Or.inl h1
        | passthru _ _ _ => exact Or.inl h1
        | other => exact Or.inl h1
      | inSync => exact Or.inl h1
      | flush => exact Or.inl h1
    · exact Or.inr (List.mem_cons_of_mem _ h1)

theorem polKeys_nodup {N : Numbering} {ds : DS} (hc : ∀ p ∈ ds.pols, p.2.1 = N.pk p.1) (hn : (mkeys ds.pols).Nodup) :
    (ds.pols.map (·.2.1)).Nodup := by
  unfold mkeys at hn
  unfold List.Nodup at hn ⊢
  rw [List.pairwise_map] at hn ⊢
  refine (List.Pairwise.and_mem.mp hn).imp ?_
  rintro a b ⟨ha, hb, h⟩ he
  rw [hc a ha, hc b hb] at he
  exact h (N.pkInj _ _ he)

/-- `freshIsSpec` for the final datastore state of a consistently numbered history whose policy keys have
pairwise different tie-break strings -/
theorem fresh_isSpec_of_hist (h : List HStep) (N : Numbering) (hN : ∀ st ∈ h, N.stepOk st)
    (hK : C03.KeyU (histKeys h)) (e : EpKey) :
    C03.IsSpec (lastState h).tiers (lastState h).polMetas (lastState h).matched e
      (C03.filterTiers (lastState h).matched e (lastState h).sortedTiers) := by
  have ht := tabInv_run (fun _ => "") h (tabInv_new N true) hN
  have hd := dsNodup_lastState h {} ⟨by simp [mkeys], by simp [mkeys]⟩
  refine fresh_isSpec (lastState h) (histKeys h) hK ?_ (polKeys_nodup ht.polsConf hd.pols) e
  intro p hp
  rcases pols_from_hist h {} p hp with h1 | h1
  · cases h1
  · exact Or.inr ⟨p.1, some p.2.2, h1⟩

end CalicoVerif.C01
