import CalicoVerif.Proofs.C16w
set_option linter.unusedSimpArgs false
namespace CalicoVerif.C16

/-- What no step of `ApplyUpdates`/`ApplyDeletions` changes: the API-level state (all sets Felix was
told about, the desired ones, the filter, `fullResyncRequired`) and the desired members of every set
Felix was told about. -/
def Pres (F F' : Felix) : Prop :=
  Fixed F F' ∧ ∀ n des, F.allMeta.has n = true → Tracked F n des → Tracked F' n des

theorem Pres.refl (F : Felix) : Pres F F := ⟨Fixed.refl F, fun _ _ _ h => h⟩
theorem Pres.trans {a b c : Felix} (h1 : Pres a b) (h2 : Pres b c) : Pres a c :=
  ⟨Fixed.trans h1.1 h2.1, fun n des ha ht => h2.2 n des (by rw [h1.1.1]; exact ha) (h1.2 n des ha ht)⟩

theorem Pres.of_members {F F' : Felix} (hf : Fixed F F') (hm : F'.members = F.members) : Pres F F' :=
  ⟨hf, fun n des _ ht => by obtain ⟨t, h1, h2⟩ := ht; exact ⟨t, by rw [hm]; exact h1, h2⟩⟩

theorem DesOK.pres {c : Cfg} {F F' : Felix} (h : DesOK c F) (hp : Pres F F') : DesOK c F' := by
  obtain ⟨hf, ht⟩ := hp
  refine ⟨?_, ?_, ?_, ?_, ?_, ?_, ?_⟩
  · intro n hn; rw [hf.2.1] at hn; exact h.notTemp n hn
  · intro n hn; rw [hf.2.1] at hn; exact h.owned n hn
  · intro n hn; rw [hf.2.1] at hn; rw [hf.1]; exact h.inAll n hn
  · intro n hn
    rw [hf.1] at hn
    obtain ⟨t, htr, _⟩ := tracked_of_has (h.tracked n hn)
    obtain ⟨t', ht', _⟩ := ht n t.des hn htr
    exact Map.has_of_get ht'
  · intro n hn; rw [hf.2.1] at hn; rw [needed_congr hf.2.2.1]; exact h.needed n hn
  · intro n hn; rw [hf.1] at hn; exact h.allOwned n hn
  · intro n hn; rw [hf.1] at hn; exact h.allNotTemp n hn

theorem qAdd_pres (F : Felix) (m : String) (b : Bool) : Pres F (F.qAdd m b) := by
  obtain ⟨q1, q2, hq⟩ := qAdd_eq F m b
  rw [hq]; exact Pres.of_members ⟨rfl, rfl, rfl, rfl⟩ rfl

theorem qAddAll_pres (b : Bool) (L : List String) (F : Felix) : Pres F (L.foldl (fun F n => F.qAdd n b) F) :=
  foldl_inv (fun G => Pres F G) _ (fun G m h => Pres.trans h (qAdd_pres G m b)) L F (Pres.refl F)

theorem applyList_pres (c : Cfg) (F : Felix) (m : String) (lr : LR) : Pres F (F.applyList c m lr).1 :=
  ⟨applyList_fixed c F m lr, fun n des ha ht => applyList_tracked c F n m des lr ha ht⟩

theorem onMissing_pres (F : Felix) (m : String) : Pres F (F.onMissing m) :=
  applyList_pres ⟨[], "", ""⟩ F m LR.notFound

theorem sweep_pres (F : Felix) (listed : List String) : Pres F (F.sweep listed) := by
  unfold Felix.sweep
  exact foldl_inv (fun G => Pres F G) _ (fun G m h => Pres.trans h (onMissing_pres G m)) _ F (Pres.refl F)

theorem afterListing_pres (F : Felix) (listed : List String) (b : Bool) : Pres F (F.afterListing listed b) := by
  unfold Felix.afterListing
  split
  · exact Pres.trans (Pres.trans (qAddAll_pres true _ F) (sweep_pres _ listed)) (Pres.of_members ⟨rfl, rfl, rfl, rfl⟩ rfl)
  · exact Pres.trans (Pres.trans (sweep_pres F listed) (qAddAll_pres false _ _)) (Pres.of_members ⟨rfl, rfl, rfl, rfl⟩ rfl)

/-- World-level: same kernel?  no — kernel may change; only the configuration is fixed. -/
structure WPres (w w' : W) : Prop where
  cfg : w'.cfg = w.cfg
  pres : Pres w.F w'.F

theorem WPres.refl (w : W) : WPres w w := ⟨rfl, Pres.refl _⟩
theorem WPres.trans {a b c : W} (h1 : WPres a b) (h2 : WPres b c) : WPres a c :=
  ⟨h2.cfg.trans h1.cfg, Pres.trans h1.pres h2.pres⟩

theorem drainStep_wpres (acc : W × Bool) (m : String) : WPres acc.1 (W.drainStep acc m).1 := by
  obtain ⟨lr, _, _, hc, hF, _⟩ := drainStep_desc acc m
  refine ⟨hc, ?_⟩
  rcases hF with hF | hF
  · rw [hF]; exact applyList_pres _ _ _ _
  · rw [hF]; exact Pres.trans (applyList_pres _ _ _ _) (qAdd_pres _ _ _)

theorem drain_wpres (w : W) : WPres w w.drain.1 := by
  unfold W.drain
  dsimp only
  have h0 : WPres w { w with F := { w.F with qMust := [] } } := ⟨rfl, Pres.of_members ⟨rfl, rfl, rfl, rfl⟩ rfl⟩
  have h1 := foldl_inv (fun (a : W × Bool) => WPres w a.1) W.drainStep
    (fun a m h => WPres.trans h (drainStep_wpres a m)) (sortS w.F.qMust)
    (({ w with F := { w.F with qMust := [] } } : W), false) h0
  split
  · exact h1
  · refine foldl_inv (fun (a : W × Bool) => WPres w a.1) W.drainStep
      (fun a m h => WPres.trans h (drainStep_wpres a m)) _ _ ?_
    exact WPres.trans h1 ⟨rfl, Pres.of_members ⟨rfl, rfl, rfl, rfl⟩ rfl⟩

theorem beginResync_wpres (w : W) (b : Bool) : WPres w (w.beginResync b).1 := by
  unfold W.beginResync
  have h0 : WPres w (if b then { w with F := { w.F with qMust := [], qBg := [], dp := [] } } else w) := by
    split
    · exact ⟨rfl, Pres.of_members ⟨rfl, rfl, rfl, rfl⟩ rfl⟩
    · exact WPres.refl w
  generalize (if b then ({ w with F := { w.F with qMust := [], qBg := [], dp := [] } } : W) else w) = w0 at h0
  obtain ⟨_, lF, lc, _⟩ := listNames_desc w0
  dsimp only
  split
  · rename_i w1 heq
    rw [heq] at lF lc
    exact WPres.trans h0 ⟨lc, by rw [show w1.F = w0.F from lF]; exact Pres.refl _⟩
  · rename_i w1 listed heq
    rw [heq] at lF lc
    refine WPres.trans h0 ⟨lc, ?_⟩
    show Pres w0.F (w1.F.afterListing listed b)
    rw [show w1.F = w0.F from lF]
    exact afterListing_pres _ _ _

theorem tryResync_wpres (w : W) : WPres w w.tryResync.1 := by
  unfold W.tryResync
  split
  · have h1 := beginResync_wpres w w.F.fullReq
    split
    · rename_i w1 heq; rw [heq] at h1; exact h1
    · rename_i w1 heq; rw [heq] at h1; exact WPres.trans h1 (drain_wpres _)
  · exact drain_wpres w

theorem TD.wpres {w w' : W} (h : TD w w') : WPres w w' :=
  ⟨h.cfg, Pres.of_members ⟨h.allMeta, h.desired, h.filter, h.fullReq⟩ h.members⟩

theorem nextFreeTemp_pres (c : Cfg) (F : Felix) (fuel : Nat) : Pres F (Felix.nextFreeTemp c F fuel).1 := by
  obtain ⟨k', hk'⟩ := nextFreeTemp_eq c fuel F
  rw [hk']; exact Pres.of_members ⟨rfl, rfl, rfl, rfl⟩ rfl

theorem tracked_set {F : Felix} {n : String} {t t' : MT} {mem : Map MT} (ht : F.members.get n = some t)
    (hm : mem = F.members.set n t') (htd : t'.des = t.des) (m : String) (des : List String)
    (htr : Tracked F m des) : ∃ t1, mem.get m = some t1 ∧ t1.des = des := by
  obtain ⟨t0, ht0, hd0⟩ := htr
  subst hm
  by_cases hmn : m = n
  · subst hmn
    rw [ht] at ht0; simp only [Option.some.injEq] at ht0; subst ht0
    exact ⟨t', by simp [Map.get_set], htd.trans hd0⟩
  · exact ⟨t0, by simp [Map.get_set, hmn, ht0], hd0⟩

theorem tracked_set' {F : Felix} {n : String} {t : MT} (ht : F.members.get n = some t) (dp' : List String)
    (m : String) (des : List String) (htr : Tracked F m des) :
    ∃ t1, (F.members.set n { des := t.des, dp := dp' }).get m = some t1 ∧ t1.des = des :=
  tracked_set (t' := { des := t.des, dp := dp' }) ht rfl rfl m des htr

theorem writeUpdates_pres {c : Cfg} {ord : List String → List String} {F F' : Felix} {n : String}
    {ls : List Line} (h : F.writeUpdates c ord n = some (F', ls)) : Pres F F' := by
  unfold Felix.writeUpdates at h
  split at h
  · rename_i dm t hdm ht
    dsimp only at h
    split at h
    · simp only [Option.some.injEq, Prod.mk.injEq] at h
      rw [← h.1]
      obtain ⟨k', hk'⟩ := nextFreeTemp_eq c (F.dp.length + 1) F
      rw [hk']
      refine ⟨⟨rfl, rfl, rfl, rfl⟩, ?_⟩
      intro m des _ htr
      unfold Tracked; dsimp only
      exact tracked_set' ht _ m des htr
    · simp only [Option.some.injEq, Prod.mk.injEq] at h
      rw [← h.1]
      refine ⟨?_, ?_⟩
      · split <;> exact ⟨rfl, rfl, rfl, rfl⟩
      · intro m des _ htr
        unfold Tracked
        split
        · dsimp only; exact tracked_set' ht _ m des htr
        · dsimp only; exact tracked_set' ht _ m des htr
  · simp at h

theorem writeAll_pres {c : Cfg} {ord : List String → List String} : ∀ (ns : List String) (F F' : Felix)
    (ls : List Line), writeAll c ord F ns = some (F', ls) → Pres F F' := by
  intro ns
  induction ns with
  | nil => intro F F' ls h; simp only [writeAll, Option.some.injEq, Prod.mk.injEq] at h; rw [← h.1]; exact Pres.refl F
  | cons n ns ih =>
    intro F F' ls h
    simp only [writeAll] at h
    split at h
    · simp at h
    · rename_i F1 l1 h1
      split at h
      · simp at h
      · rename_i F2 l2 h2
        simp only [Option.some.injEq, Prod.mk.injEq] at h
        rw [← h.1]
        exact Pres.trans (writeUpdates_pres h1) (ih F1 F2 l2 h2)

theorem runRestore_wpres (w : W) (rp : RPlan) (order : List String) : WPres w (w.runRestore rp order).1 := by
  unfold W.runRestore
  split
  · exact ⟨rfl, Pres.refl _⟩
  · rename_i F1 lines hwa
    have hp := writeAll_pres _ _ _ _ hwa
    dsimp only
    split
    · exact ⟨rfl, Pres.trans hp (Pres.of_members ⟨rfl, rfl, rfl, rfl⟩ rfl)⟩
    · exact ⟨rfl, Pres.trans hp (qAddAll_pres true order F1)⟩

theorem tryUpdates_wpres (w : W) (dirty : List String) : WPres w (w.tryUpdates dirty).1 := by
  unfold W.tryUpdates
  split
  · exact WPres.refl w
  · dsimp only
    split
    · exact ⟨rfl, Pres.refl _⟩
    · have h1 := pickOrder_same { w with plan := { w.plan with restores := (popRPlan w.plan.restores).2 } } dirty
      refine WPres.trans ?_ (runRestore_wpres _ _ _)
      exact ⟨h1.2.2, by rw [h1.1]; exact Pres.refl _⟩

end CalicoVerif.C16
