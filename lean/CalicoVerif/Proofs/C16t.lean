import CalicoVerif.Proofs.C16s
set_option linter.unusedSimpArgs false
namespace CalicoVerif.C16

theorem drainStep_desc (acc : W × Bool) (m : String) :
    ∃ lr, LRSpec acc.1.K m lr ∧
      (W.drainStep acc m).1.K = acc.1.K ∧ (W.drainStep acc m).1.cfg = acc.1.cfg ∧
      ((W.drainStep acc m).1.F = (acc.1.F.applyList acc.1.cfg m lr).1 ∨
       (W.drainStep acc m).1.F = (acc.1.F.applyList acc.1.cfg m lr).1.qAdd m true) ∧
      ((W.drainStep acc m).2 = false → acc.2 = false ∧
        ((acc.1.F.applyList acc.1.cfg m lr).2 = false ∨ (acc.1.F.applyList acc.1.cfg m lr).1.desired.has m = false)) := by
  obtain ⟨hK, hF, hc, hspec⟩ := listSet_spec acc.1 m
  refine ⟨(acc.1.listSet m).2, hspec, ?_⟩
  unfold W.drainStep W.resyncIPSet
  dsimp only
  rw [hF, hc]
  split
  · rename_i hcond
    refine ⟨hK, rfl, Or.inr rfl, ?_⟩
    intro h; simp at h
  · rename_i hcond
    refine ⟨hK, rfl, Or.inl rfl, ?_⟩
    intro h
    refine ⟨h, ?_⟩
    simp only [Bool.and_eq_true, not_and, Bool.not_eq_true] at hcond
    cases hg : (acc.1.F.applyList acc.1.cfg m (acc.1.listSet m).2).2 with
    | false => exact Or.inl rfl
    | true => exact Or.inr (hcond hg)

structure DEnv (K : Kernel) (c : Cfg) (F0 : Felix) (w : W) : Prop where
  K : w.K = K
  cfg : w.cfg = c
  fixed : Fixed F0 w.F

theorem drainStep_env {K : Kernel} {c : Cfg} {F0 : Felix} (acc : W × Bool) (m : String)
    (h : DEnv K c F0 acc.1) : DEnv K c F0 (W.drainStep acc m).1 := by
  obtain ⟨lr, _, hK, hc, hF, _⟩ := drainStep_desc acc m
  refine ⟨hK.trans h.K, hc.trans h.cfg, ?_⟩
  rcases hF with hF | hF
  · rw [hF]; exact Fixed.trans h.fixed (applyList_fixed _ _ _ _)
  · rw [hF]; exact Fixed.trans h.fixed (Fixed.trans (applyList_fixed _ _ _ _) (qAdd_fixed _ _ _))

/-- Felix's view of the desired set `n` is the kernel's, and its dirtiness is fresh. -/
def Good (K : Kernel) (F : Felix) (n : String) (des : List String) : Prop :=
  (match K.get n with
   | none => F.dp.get n = none ∧ ∃ t, F.members.get n = some t ∧ t.dp = [] ∧ t.des = des
   | some k => F.dp.get n = some (parseMeta k) ∧ ∃ t, F.members.get n = some t ∧ setEq t.dp k.members ∧ t.des = des) ∧
  FreshDirty F n

theorem Good_congr {K : Kernel} {F F' : Felix} {n : String} {des : List String} (h : SN F' n = SN F n)
    (hg : Good K F n des) : Good K F' n des := by
  simp only [SN, Prod.mk.injEq, decide_eq_decide] at h
  obtain ⟨h1, h2, h3⟩ := h
  unfold Good FreshDirty at *
  rw [h1, h2, h3]
  exact hg

theorem step_SN_other (acc : W × Bool) {m n : String} (h : n ≠ m) :
    SN (W.drainStep acc m).1.F n = SN acc.1.F n := by
  obtain ⟨lr, _, _, _, hF, _⟩ := drainStep_desc acc m
  rcases hF with hF | hF
  · rw [hF]; exact applyList_SN _ _ h _
  · rw [hF, qAdd_SN]; exact applyList_SN _ _ h _

/-- The tracker of a set Felix was told about survives every resync step, with its desired members. -/
def Tracked (F : Felix) (n : String) (des : List String) : Prop := ∃ t, F.members.get n = some t ∧ t.des = des

theorem applyList_tracked (c : Cfg) (F : Felix) (n m : String) (des : List String) (lr : LR)
    (ha : F.allMeta.has n = true) (h : Tracked F n des) : Tracked (F.applyList c m lr).1 n des := by
  by_cases hnm : n = m
  · subst hnm
    obtain ⟨t, ht, hd⟩ := h
    cases lr with
    | notFound =>
      simp only [Felix.applyList, Felix.onMissing, ht, ha, Bool.not_true, Bool.false_eq_true, if_false]
      obtain ⟨d, hd', _⟩ := updateDirtiness_eq
        ({ F with dp := F.dp.erase n, members := F.members.set n { t with dp := [] } } : Felix) n
      refine ⟨{ t with dp := [] }, ?_, hd⟩
      show ((Felix.updateDirtiness _ n).qRemove n).members.get n = _
      rw [hd']; simp [Felix.qRemove, Map.get_set]
    | failNoOutput => exact ⟨t, ht, hd⟩
    | listed mt ms failed =>
      simp only [Felix.applyList]
      split
      · exact ⟨t, ht, hd⟩
      · obtain ⟨d, hd', _⟩ := updateDirtiness_eq
          ({ F with members := F.members.set n { F.tracker n with dp := ms.eraseDups } } : Felix) n
        have htr : F.tracker n = t := by simp [Felix.tracker, ht]
        refine ⟨{ t with dp := ms.eraseDups }, ?_, hd⟩
        show (Felix.updateDirtiness _ n).members.get n = _
        rw [hd', htr]; simp [Map.get_set]
  · have := applyList_SN c F hnm lr
    simp only [SN, Prod.mk.injEq] at this
    obtain ⟨t, ht, hd⟩ := h
    exact ⟨t, by rw [this.2.1]; exact ht, hd⟩

theorem drainStep_tracked {K : Kernel} {c : Cfg} {F0 : Felix} (acc : W × Bool) (m n : String) (des : List String)
    (henv : DEnv K c F0 acc.1) (ha : F0.allMeta.has n = true) (h : Tracked acc.1.F n des) :
    Tracked (W.drainStep acc m).1.F n des := by
  obtain ⟨lr, _, _, _, hF, _⟩ := drainStep_desc acc m
  have ha' : acc.1.F.allMeta.has n = true := by rw [henv.fixed.1]; exact ha
  have := applyList_tracked acc.1.cfg acc.1.F n m des lr ha' h
  rcases hF with hF | hF
  · rw [hF]; exact this
  · rw [hF]
    obtain ⟨t, ht, hd⟩ := this
    have hs := qAdd_SN (acc.1.F.applyList acc.1.cfg m lr).1 m true n
    simp only [SN, Prod.mk.injEq] at hs
    exact ⟨t, by rw [hs.2.1]; exact ht, hd⟩

/-- The drain, seen from one desired set `n`: if the whole pass reports no failure, then after it
Felix's view of `n` is the kernel's, provided `n` was processed (or was already good). -/
theorem drain_fold_good {K : Kernel} {c : Cfg} {F0 : Felix} {n : String} {des : List String}
    (hnt : c.isTemp n = false) (ha : F0.allMeta.has n = true) (hdes : F0.desired.has n = true)
    (hneed : F0.needed n = true) :
    ∀ (L : List String) (acc : W × Bool), DEnv K c F0 acc.1 → Tracked acc.1.F n des →
      (L.foldl W.drainStep acc).2 = false →
      acc.2 = false ∧ ((n ∈ L ∨ Good K acc.1.F n des) → Good K (L.foldl W.drainStep acc).1.F n des) := by
  intro L
  induction L with
  | nil => intro acc _ _ h; exact ⟨h, fun hh => by rcases hh with hh | hh; simp at hh; exact hh⟩
  | cons m L ih =>
    intro acc henv htr h
    simp only [List.foldl] at h ⊢
    have henv' := drainStep_env acc m henv
    have htr' := drainStep_tracked acc m n des henv ha htr
    obtain ⟨h1, h2⟩ := ih (W.drainStep acc m) henv' htr' h
    obtain ⟨lr, hspec, hK, hc, hF, hfl⟩ := drainStep_desc acc m
    obtain ⟨hacc, hno⟩ := hfl h1
    refine ⟨hacc, ?_⟩
    intro hh
    apply h2
    by_cases hnm : n = m
    · -- this step processes n itself
      right
      subst hnm
      have hdesn : (acc.1.F.applyList acc.1.cfg n lr).1.desired.has n = true := by
        rw [(applyList_fixed _ _ _ _).2.1, henv.fixed.2.1]; exact hdes
      have hok : (acc.1.F.applyList acc.1.cfg n lr).2 = false := by
        rcases hno with hno | hno
        · exact hno
        · rw [hdesn] at hno; simp at hno
      obtain ⟨t, ht, htd⟩ := htr
      have ha' : acc.1.F.allMeta.has n = true := by rw [henv.fixed.1]; exact ha
      have hneed' : acc.1.F.needed n = true := by rw [needed_congr henv.fixed.2.2.1]; exact hneed
      have hspec' : LRSpec K n lr := by rw [← henv.K]; exact hspec
      have hself := applyList_self acc.1.cfg K acc.1.F lr hspec' (by rw [henv.cfg]; exact hnt) ha' ht hneed' hok
      have hgood : Good K (acc.1.F.applyList acc.1.cfg n lr).1 n des := by
        obtain ⟨hm, hfresh⟩ := hself
        refine ⟨?_, hfresh⟩
        cases hk : K.get n with
        | none =>
          rw [hk] at hm
          obtain ⟨hd0, t', ht', htdp, htdes⟩ := hm
          exact ⟨hd0, t', ht', htdp, htdes.trans htd⟩
        | some k =>
          rw [hk] at hm
          obtain ⟨hd0, t', ht', htdp, htdes⟩ := hm
          exact ⟨hd0, t', ht', htdp, htdes.trans htd⟩
      rcases hF with hF | hF
      · rw [hF]; exact hgood
      · rw [hF]; exact Good_congr (qAdd_SN _ _ _ _) hgood
    · rcases hh with hh | hh
      · left
        rcases List.mem_cons.1 hh with rfl | hh
        · exact absurd rfl hnm
        · exact hh
      · right
        exact Good_congr (step_SN_other acc hnm) hh

end CalicoVerif.C16
