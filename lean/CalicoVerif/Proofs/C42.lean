import CalicoVerif.Model.C42
/-!
C42 — helper lemmas: association maps, the phase transition system of one `apply`,
its inductive invariant, and the consistency of the desired maps built by `buildDesired`.
-/
namespace CalicoVerif.C42

/-! ## AMap -/
namespace AMap
variable {K V : Type} [DecidableEq K]

theorem get_del_self (m : AMap K V) (k : K) : (del m k).get k = none := by
  induction m with
  | nil => rfl
  | cons p m ih =>
    obtain ⟨k', v⟩ := p
    by_cases h : k' = k
    · simp [del, List.filter, h]; simpa [del] using ih
    · simp [del, List.filter, h, get]; simpa [del] using ih

theorem get_del_ne (m : AMap K V) {k k' : K} (h : k' ≠ k) : (del m k).get k' = m.get k' := by
  induction m with
  | nil => rfl
  | cons p m ih =>
    obtain ⟨k'', v⟩ := p
    by_cases h2 : k'' = k
    · subst h2
      have : k'' ≠ k' := fun e => h e.symm
      simp [del, List.filter, get, this]; simpa [del] using ih
    · simp [del, List.filter, h2, get]
      by_cases h3 : k'' = k'
      · simp [h3]
      · simp [h3]; simpa [del] using ih

theorem get_set_self (m : AMap K V) (k : K) (v : V) : (set m k v).get k = some v := by
  simp [set, get]

theorem get_set_ne (m : AMap K V) {k k' : K} (v : V) (h : k' ≠ k) : (set m k v).get k' = m.get k' := by
  have : k ≠ k' := fun e => h e.symm
  simp [set, get, this, get_del_ne m h]

theorem get_set (m : AMap K V) (k k' : K) (v : V) :
    (set m k v).get k' = if k' = k then some v else m.get k' := by
  by_cases h : k' = k
  · subst h; simp [get_set_self]
  · simp [h, get_set_ne m v h]

theorem get_del (m : AMap K V) (k k' : K) :
    (del m k).get k' = if k' = k then none else m.get k' := by
  by_cases h : k' = k
  · subst h; simp [get_del_self]
  · simp [h, get_del_ne m h]

theorem mem_of_get {m : AMap K V} {k : K} {v : V} (h : m.get k = some v) : (k, v) ∈ m := by
  induction m with
  | nil => simp [get] at h
  | cons p m ih =>
    obtain ⟨k', v'⟩ := p
    by_cases e : k' = k
    · subst e; simp [get] at h; subst h; simp
    · simp [get, e] at h; exact List.mem_cons_of_mem _ (ih h)

theorem get_isSome_of_mem {m : AMap K V} {k : K} {v : V} (h : (k, v) ∈ m) : (m.get k).isSome := by
  induction m with
  | nil => simp at h
  | cons p m ih =>
    obtain ⟨k', v'⟩ := p
    by_cases e : k' = k
    · simp [get, e]
    · have : (k, v) ∈ m := by
        rcases List.mem_cons.1 h with h | h
        · exact absurd (by simpa using (congrArg Prod.fst h).symm) e
        · exact h
      simp [get, e, ih this]

theorem has_eq (m : AMap K V) (k : K) : m.has k = (m.get k).isSome := rfl

end AMap

/-! ## Consistency -/

/-- The state predicate of the property: every frontend's backend count refers only to backend
entries that exist (black-hole frontends have no backends by definition). -/
def Consistent (d : DP) : Prop :=
  ∀ k v, d.F.get k = some v → v.count ≠ blackHole → ∀ i, i < v.count → (d.B.get ⟨v.id, i⟩).isSome

theorem consistent_of_consistentB {d : DP} (h : consistentB d = true) : Consistent d := by
  intro k v hk hb i hi
  have hm := AMap.mem_of_get hk
  simp only [consistentB, List.all_eq_true] at h
  have := h _ hm
  simp only [Bool.or_eq_true, beq_iff_eq, List.all_eq_true, List.mem_range] at this
  rcases this with h1 | h1
  · exact absurd h1 hb
  · simpa [AMap.has_eq] using h1 i hi

theorem Consistent.setB {d : DP} (h : Consistent d) (k : BKey) (v : BVal) :
    Consistent { d with B := d.B.set k v } := by
  intro k' v' hk hb i hi
  have := h k' v' hk hb i hi
  simp only [AMap.get_set]
  split <;> simp_all

theorem Consistent.delF {d : DP} (h : Consistent d) (k : FKey) :
    Consistent { d with F := d.F.del k } := by
  intro k' v' hk hb i hi
  simp only [AMap.get_del] at hk
  split at hk
  · simp at hk
  · exact h k' v' hk hb i hi

theorem Consistent.setF {d : DP} (h : Consistent d) (k : FKey) (v : FVal)
    (hv : v.count ≠ blackHole → ∀ i, i < v.count → (d.B.get ⟨v.id, i⟩).isSome) :
    Consistent { d with F := d.F.set k v } := by
  intro k' v' hk hb i hi
  simp only [AMap.get_set] at hk
  split at hk
  · simp at hk; subst hk; exact hv hb i hi
  · exact h k' v' hk hb i hi

theorem consistent_empty : Consistent ⟨[], []⟩ := by
  intro k v hk; simp [AMap.get] at hk

/-! ## One `apply` as a transition system over single map writes

`n` is the desired state.  Inside a phase the writes may happen in any order, any number of
them may fail (a failed write is simply no step), and the process may stop (crash) anywhere. -/

inductive Phase where | p1 | p2 | p3 | p4
deriving DecidableEq, Repr

structure St where
  ph : Phase
  dp : DP

inductive Step (n : DP) : St → St → Prop
  /-- phase 1 `bpfSvcs.ApplyDeletionsOnly`: delete a frontend that is not desired. -/
  | delF (d : DP) (k : FKey) : n.F.get k = none → Step n ⟨.p1, d⟩ ⟨.p1, Write.run d (.delF k)⟩
  /-- phase 1 finished without error: no undesired frontend is left. -/
  | to2 (d : DP) : (∀ k, (d.F.get k).isSome → (n.F.get k).isSome) → Step n ⟨.p1, d⟩ ⟨.p2, d⟩
  /-- phase 2 `bpfEps.ApplyUpdatesOnly`: write a desired backend. -/
  | setB (d : DP) (k : BKey) (v : BVal) : n.B.get k = some v → Step n ⟨.p2, d⟩ ⟨.p2, Write.run d (.setB k v)⟩
  /-- phase 2 finished without error: every desired backend is in place. -/
  | to3 (d : DP) : (∀ k v, n.B.get k = some v → d.B.get k = some v) → Step n ⟨.p2, d⟩ ⟨.p3, d⟩
  /-- phase 3 `bpfSvcs.ApplyUpdatesOnly`: write a desired frontend. -/
  | setF (d : DP) (k : FKey) (v : FVal) : n.F.get k = some v → Step n ⟨.p3, d⟩ ⟨.p3, Write.run d (.setF k v)⟩
  /-- phase 3 finished without error: every desired frontend is in place. -/
  | to4 (d : DP) : (∀ k v, n.F.get k = some v → d.F.get k = some v) → Step n ⟨.p3, d⟩ ⟨.p4, d⟩
  /-- phase 4 `bpfEps.ApplyDeletionsOnly`: delete a backend that is not desired. -/
  | delB (d : DP) (k : BKey) : n.B.get k = none → Step n ⟨.p4, d⟩ ⟨.p4, Write.run d (.delB k)⟩

/-- states reachable from the maps `d0` at the start of the `apply` (phase 1). -/
inductive Reach (n d0 : DP) : St → Prop
  | init : Reach n d0 ⟨.p1, d0⟩
  | step {s s' : St} : Reach n d0 s → Step n s s' → Reach n d0 s'

def NoStaleF (n d : DP) : Prop := ∀ k, (d.F.get k).isSome → (n.F.get k).isSome
def HasB (n d : DP) : Prop := ∀ k v, n.B.get k = some v → d.B.get k = some v
def EqF (n d : DP) : Prop := ∀ k, d.F.get k = n.F.get k

/-- the inductive invariant, phase by phase. -/
def Inv (n : DP) (s : St) : Prop :=
  match s.ph with
  | .p1 => Consistent s.dp
  | .p2 => Consistent s.dp ∧ NoStaleF n s.dp
  | .p3 => Consistent s.dp ∧ NoStaleF n s.dp ∧ HasB n s.dp
  | .p4 => EqF n s.dp ∧ HasB n s.dp

theorem consistent_of_eqF_hasB {n d : DP} (hn : Consistent n) (hF : EqF n d) (hB : HasB n d) : Consistent d := by
  intro k v hk hb i hi
  rw [hF k] at hk
  have := hn k v hk hb i hi
  cases h : n.B.get ⟨v.id, i⟩ with
  | none => simp [h] at this
  | some bv => simp [hB _ _ h]

theorem Inv.consistent {n : DP} (hn : Consistent n) {s : St} (h : Inv n s) : Consistent s.dp := by
  obtain ⟨ph, d⟩ := s
  cases ph <;> simp only [Inv] at h
  · exact h
  · exact h.1
  · exact h.1
  · exact consistent_of_eqF_hasB hn h.1 h.2

theorem Inv.step {n : DP} (hn : Consistent n) {s s' : St} (h : Inv n s) (st : Step n s s') : Inv n s' := by
  cases st with
  | delF d k hk => exact Consistent.delF h k
  | to2 d hg => exact ⟨h, hg⟩
  | setB d k v hk =>
    refine ⟨Consistent.setB h.1 k v, ?_⟩
    intro k' hk'; exact h.2 k' hk'
  | to3 d hg => exact ⟨h.1, h.2, hg⟩
  | setF d k v hk =>
    obtain ⟨hc, hs, hb⟩ := h
    refine ⟨Consistent.setF hc k v ?_, ?_, ?_⟩
    · intro hbh i hi
      have := hn k v hk hbh i hi
      cases h' : n.B.get ⟨v.id, i⟩ with
      | none => simp [h'] at this
      | some bv => simp [hb _ _ h']
    · intro k' hk'
      simp only [Write.run, AMap.get_set] at hk'
      split at hk'
      · rename_i e; subst e; simp [hk]
      · exact hs k' hk'
    · intro k' v' hk'; exact hb k' v' hk'
  | to4 d hg =>
    obtain ⟨hc, hs, hb⟩ := h
    refine ⟨?_, hb⟩
    intro k
    cases h' : n.F.get k with
    | some v => exact hg k v h'
    | none =>
      cases h'' : d.F.get k with
      | none => rfl
      | some v => have := hs k (by simp [h'']); simp [h'] at this
  | delB d k hk =>
    obtain ⟨hf, hb⟩ := h
    refine ⟨hf, ?_⟩
    intro k' v' hk'
    have : k' ≠ k := by rintro rfl; simp [hk] at hk'
    simp only [Write.run, AMap.get_del_ne _ this]
    exact hb k' v' hk'

theorem Reach.inv {n d0 : DP} (hn : Consistent n) (h0 : Consistent d0) {s : St} (r : Reach n d0 s) : Inv n s := by
  induction r with
  | init => exact h0
  | step _ st ih => exact ih.step hn st

/-! ## The desired maps built by `buildDesired` are consistent -/

def BHas (B : AMap BKey BVal) (id cnt : Nat) : Prop := ∀ i, i < cnt → (B.get ⟨id, i⟩).isSome

theorem BHas.set {B : AMap BKey BVal} {id cnt : Nat} (h : BHas B id cnt) (k : BKey) (v : BVal) :
    BHas (B.set k v) id cnt := by
  intro i hi
  have := h i hi
  simp only [AMap.get_set]; split <;> simp_all

/-- builder invariant: the desired maps are consistent and every recorded `svcInfo` has its backends. -/
structure BldOK (b : Bld) : Prop where
  cons : Consistent b.des
  svc : ∀ sk info, b.newSvc.get sk = some info → BHas b.des.B info.id info.count

theorem writeBackends_mono (B : AMap BKey BVal) (id start : Nat) (l : List Ep) (k : BKey)
    (h : (B.get k).isSome) : ((writeBackends B id start l).get k).isSome := by
  induction l generalizing B start with
  | nil => exact h
  | cons e l ih =>
    simp only [writeBackends]
    apply ih
    simp only [AMap.get_set]; split <;> simp_all

theorem writeBackends_has (B : AMap BKey BVal) (id start : Nat) (l : List Ep) :
    ∀ i, start ≤ i → i < start + l.length → ((writeBackends B id start l).get ⟨id, i⟩).isSome := by
  induction l generalizing B start with
  | nil => intro i h1 h2; simp at h2; omega
  | cons e l ih =>
    intro i h1 h2
    simp only [writeBackends]
    by_cases hi : i = start
    · subst hi
      apply writeBackends_mono
      simp [AMap.get_set_self]
    · apply ih
      · omega
      · simp at h2; omega

theorem Consistent.writeBackends {d : DP} (h : Consistent d) (id start : Nat) (l : List Ep) :
    Consistent { d with B := writeBackends d.B id start l } := by
  intro k v hk hb i hi
  exact writeBackends_mono _ _ _ _ _ (h k v hk hb i hi)

theorem BldOK.writeSvc {b : Bld} (h : BldOK b) (svc : Svc) (id count loc flags : Nat)
    (hb : BHas b.des.B id count) : BldOK (writeSvc b svc id count loc flags) := by
  constructor
  · exact Consistent.setF h.cons _ _ (fun _ i hi => hb i hi)
  · exact h.svc

theorem foldl_setF_consistent (keys : List FKey) (val : FVal) (d : DP) (h : Consistent d)
    (hv : val.count ≠ blackHole → ∀ i, i < val.count → (d.B.get ⟨val.id, i⟩).isSome) :
    Consistent { d with F := keys.foldl (fun F k => F.set k val) d.F } := by
  induction keys generalizing d with
  | nil => exact h
  | cons k ks ih =>
    simp only [List.foldl_cons]
    exact ih { d with F := d.F.set k val } (Consistent.setF h k val hv) hv

theorem BldOK.writeLBSrc {b : Bld} (h : BldOK b) (svc : Svc) (id count loc flags : Nat)
    (hb : BHas b.des.B id count) : BldOK (writeLBSrc b svc id count loc flags) := by
  constructor
  · unfold C42.writeLBSrc
    simp only []
    have h1 := foldl_setF_consistent (srcKeys svc)
      { id, count, lcl := loc, aff := affOf svc, flags } b.des h.cons (fun _ i hi => hb i hi)
    split
    · exact h1
    · exact Consistent.setF (d := { b.des with F := _ }) h1 _ _ (fun hne => absurd rfl hne)
  · unfold C42.writeLBSrc
    simp only []
    split <;> exact h.svc

theorem BldOK.updateService {b : Bld} (h : BldOK b) (skey : SvcKey) (svc : Svc) (id : Nat) (eps : List Ep) :
    BldOK (updateService b skey svc id eps).1 ∧
    BHas (updateService b skey svc id eps).1.des.B id (updateService b skey svc id eps).2.1 ∧
    (updateService b skey svc id eps).1.newSvc = b.newSvc := by
  have hB : BHas (writeBackends b.des.B id 0 (readyOrdered eps)) id (readyOrdered eps).length := by
    intro i hi; exact writeBackends_has _ _ _ _ i (Nat.zero_le _) (by omega)
  have b1ok : BldOK { b with des := { b.des with B := writeBackends b.des.B id 0 (readyOrdered eps) } } :=
    ⟨Consistent.writeBackends h.cons _ _ _, fun sk info hs i hi => writeBackends_mono _ _ _ _ _ (h.svc sk info hs i hi)⟩
  have b2ok := BldOK.writeSvc b1ok svc id (readyOrdered eps).length (localReady eps)
    (if svc.intLocal then flgInternalLocal else 0) hB
  unfold C42.updateService
  cases skey.extra <;> exact ⟨⟨b2ok.cons, b2ok.svc⟩, hB, rfl⟩

theorem BldOK.applySvcWith {b : Bld} (h : BldOK b) (skey : SvcKey) (svc : Svc) (id : Nat) (eps : List Ep) :
    BldOK (applySvcWith b skey svc id eps) := by
  obtain ⟨ok, hb, hs⟩ := BldOK.updateService h skey svc id eps
  unfold C42.applySvcWith
  constructor
  · exact ok.cons
  · intro sk info hget
    simp only [AMap.get_set] at hget
    split at hget
    · simp at hget; subst hget; exact hb
    · exact ok.svc sk info hget

theorem BldOK.applySvc {b : Bld} (h : BldOK b) (prevSvc : AMap SvcKey SvcInfo) (hint : AMap SvcKey Nat)
    (skey : SvcKey) (svc : Svc) (eps : List Ep) : BldOK (applySvc prevSvc hint b skey svc eps) := by
  unfold C42.applySvc
  split
  · exact BldOK.applySvcWith h _ _ _ _
  · exact BldOK.applySvcWith (b := { b with nextId := b.nextId + 1, fresh := _ :: b.fresh }) ⟨h.cons, h.svc⟩ _ _ _ _

theorem writeSvc_B (b : Bld) (svc : Svc) (id count loc flags : Nat) :
    (writeSvc b svc id count loc flags).des.B = b.des.B := by
  unfold writeSvc; rfl

theorem writeLBSrc_B (b : Bld) (svc : Svc) (id count loc flags : Nat) :
    (writeLBSrc b svc id count loc flags).des.B = b.des.B := by
  unfold writeLBSrc
  dsimp only
  all_goals ((try split) <;> rfl)

theorem BldOK.applyDerived {b : Bld} (h : BldOK b) (sname : String) (t : DType) (sinfo : Svc) :
    BldOK (applyDerived b sname t sinfo) := by
  unfold C42.applyDerived
  cases hp : b.newSvc.get ⟨sname, .prim⟩ with
  | none => exact h
  | some p =>
    simp only
    generalize derivedFlags t sinfo = flags
    have hb : BHas b.des.B p.id p.count := h.svc _ _ hp
    split
    · have ok := BldOK.writeLBSrc h sinfo p.id p.count p.lcl flags hb
      constructor
      · exact ok.cons
      · intro sk info hget
        simp only [AMap.get_set] at hget
        split at hget
        · simp at hget; subst hget; simpa [writeLBSrc_B] using hb
        · exact ok.svc sk info hget
    · have ok := BldOK.writeSvc h sinfo p.id p.count p.lcl flags hb
      constructor
      · exact ok.cons
      · intro sk info hget
        simp only [AMap.get_set] at hget
        split at hget
        · simp at hget; subst hget; simpa [writeSvc_B] using hb
        · exact ok.svc sk info hget

theorem foldl_BldOK {α : Type} (f : Bld → α → Bld) (hf : ∀ b a, BldOK b → BldOK (f b a)) (l : List α) (b : Bld)
    (h : BldOK b) : BldOK (l.foldl f b) := by
  induction l generalizing b with
  | nil => exact h
  | cons a l ih => exact ih _ (hf b a h)

theorem BldOK.applyRest {b : Bld} (h1 : BldOK b) (s : Syncer) (hint : AMap SvcKey Nat)
    (sname : String) (svc : Svc) (eps : List Ep) : BldOK (applyRest s hint b sname svc eps) := by
  unfold C42.applyRest
  simp only []
  have h2 := foldl_BldOK (fun b ip => C42.applyDerived b sname .lb { svc with clusterIP := ip })
    (fun b a hb => BldOK.applyDerived hb _ _ _) svc.lbVIPs _ h1
  have h3 := foldl_BldOK (fun b ip => C42.applyDerived b sname .ext { svc with clusterIP := ip })
    (fun b a hb => BldOK.applyDerived hb _ _ _) svc.extIPs _ h2
  split
  · have h4 := foldl_BldOK (fun b ip => if (svc.intLocal && ip == podNPIP) = true then b
        else C42.applyDerived b sname .np { svc with clusterIP := ip, port := svc.nodePort })
      (fun b a hb => by split; exact hb; exact BldOK.applyDerived hb _ _ _) s.npIPs _ h3
    split
    · exact foldl_BldOK _ (fun b g hb => BldOK.applySvc hb _ _ _ _ _) _ _ h4
    · exact h4
  · exact h3

theorem BldOK.applyService {b : Bld} (h : BldOK b) (s : Syncer) (st : KState) (hint : AMap SvcKey Nat)
    (sname : String) (svc : Svc) : BldOK (applyService s st hint b sname svc) := by
  unfold C42.applyService
  exact BldOK.applyRest (BldOK.applySvc h _ _ _ _ _) _ _ _ _ _

theorem buildDesired_ok (s : Syncer) (st : KState) (hint : AMap SvcKey Nat) : BldOK (buildDesired s st hint) := by
  simp only [buildDesired]
  apply foldl_BldOK _ (fun b p hb => BldOK.applyService hb s st hint p.1 p.2)
  exact ⟨consistent_empty, fun sk info h => by simp [AMap.get] at h⟩

end CalicoVerif.C42

namespace CalicoVerif.C42

/-! ## The executable schedule is a run of the transition system -/

theorem runWrites_append (d : DP) (a b : List Write) : runWrites d (a ++ b) = runWrites (runWrites d a) b := by
  simp [runWrites, List.foldl_append]

def Allowed (n : DP) : Phase → Write → Prop
  | .p1, .delF k => n.F.get k = none
  | .p2, .setB k v => n.B.get k = some v
  | .p3, .setF k v => n.F.get k = some v
  | .p4, .delB k => n.B.get k = none
  | _, _ => False

theorem reach_run {n d0 : DP} {ph : Phase} (ws : List Write) :
    ∀ d, Reach n d0 ⟨ph, d⟩ → (∀ w ∈ ws, Allowed n ph w) → Reach n d0 ⟨ph, runWrites d ws⟩ := by
  induction ws with
  | nil => intro d r _; exact r
  | cons w ws ih =>
    intro d r hall
    have hw := hall w (List.mem_cons_self ..)
    have hrest : ∀ w' ∈ ws, Allowed n ph w' := fun w' h' => hall w' (List.mem_cons_of_mem _ h')
    show Reach n d0 ⟨ph, runWrites (Write.run d w) ws⟩
    apply ih _ _ hrest
    cases ph <;> cases w <;> simp only [Allowed] at hw
    · exact r.step (Step.delF d _ hw)
    · exact r.step (Step.setB d _ _ hw)
    · exact r.step (Step.setF d _ _ hw)
    · exact r.step (Step.delB d _ hw)

theorem prefix_allowed {n : DP} {ph : Phase} {ws l : List Write} (h : ws <+: l) (hl : ∀ w ∈ l, Allowed n ph w) :
    ∀ w ∈ ws, Allowed n ph w := fun w hw => hl w (h.subset hw)

/-! ### folds of deletions / updates over an association map -/

theorem foldl_del_get {K V : Type} [DecidableEq K] (L : List K) (m : AMap K V) (k : K) :
    (L.foldl AMap.del m).get k = if k ∈ L then none else m.get k := by
  induction L generalizing m with
  | nil => simp
  | cons a L ih =>
    simp only [List.foldl_cons, ih, AMap.get_del, List.mem_cons]
    by_cases h1 : k ∈ L <;> by_cases h2 : k = a <;> simp [h1, h2]

theorem foldl_set_get_not_mem {K V : Type} [DecidableEq K] (L : List (K × V))
    (m : AMap K V) (k : K) (hk : ¬ ∃ v, (k, v) ∈ L) :
    (L.foldl (fun m kv => m.set kv.1 kv.2) m).get k = m.get k := by
  induction L generalizing m with
  | nil => rfl
  | cons c L ih =>
    simp only [List.foldl_cons]
    have hc : k ≠ c.1 := fun e => hk ⟨c.2, by subst e; exact List.mem_cons_self ..⟩
    rw [ih _ (fun ⟨v', h'⟩ => hk ⟨v', List.mem_cons_of_mem _ h'⟩)]
    exact AMap.get_set_ne _ _ hc

theorem foldl_set_get_mem {K V : Type} [DecidableEq K] (n : AMap K V) (L : List (K × V))
    (hL : ∀ kv ∈ L, n.get kv.1 = some kv.2) (m : AMap K V) (k : K) (hk : ∃ v, (k, v) ∈ L) :
    (L.foldl (fun m kv => m.set kv.1 kv.2) m).get k = n.get k := by
  induction L generalizing m with
  | nil => obtain ⟨v, hv⟩ := hk; simp at hv
  | cons a L ih =>
    have hL' : ∀ kv ∈ L, n.get kv.1 = some kv.2 := fun kv h => hL kv (List.mem_cons_of_mem _ h)
    have ha := hL a (List.mem_cons_self ..)
    simp only [List.foldl_cons]
    by_cases h1 : ∃ v, (k, v) ∈ L
    · exact ih hL' _ h1
    · obtain ⟨v, hv⟩ := hk
      have hka : (k, v) = a := by
        rcases List.mem_cons.1 hv with h | h
        · exact h
        · exact absurd ⟨v, h⟩ h1
      rw [foldl_set_get_not_mem L _ k h1, ← hka, AMap.get_set_self]
      rw [← hka] at ha; exact ha.symm

theorem foldl_del_get_mem {K V : Type} [DecidableEq K] (L : List K) (m : AMap K V) (k : K) (hk : k ∈ L) :
    (L.foldl AMap.del m).get k = none := by
  rw [foldl_del_get]; simp [hk]

theorem foldl_del_get_not_mem {K V : Type} [DecidableEq K] (L : List K) (m : AMap K V) (k : K) (hk : k ∉ L) :
    (L.foldl AMap.del m).get k = m.get k := by
  rw [foldl_del_get]; simp [hk]

theorem mem_pendingDels {K V : Type} [DecidableEq K] {dp des : AMap K V} {k : K} :
    k ∈ pendingDels dp des ↔ (∃ v, (k, v) ∈ dp) ∧ des.get k = none := by
  simp only [pendingDels, List.mem_map, List.mem_filter, AMap.has_eq]
  constructor
  · rintro ⟨⟨k', v⟩, ⟨hm, hd⟩, rfl⟩
    refine ⟨⟨v, hm⟩, ?_⟩
    cases h : des.get k' <;> simp_all
  · rintro ⟨⟨v, hm⟩, hd⟩
    exact ⟨(k, v), ⟨hm, by simp [hd]⟩, rfl⟩

theorem mem_pendingUpds {K V : Type} [DecidableEq K] [DecidableEq V] {dp des : AMap K V} {k : K} {v : V} :
    (k, v) ∈ pendingUpds dp des ↔ des.get k = some v ∧ dp.get k ≠ some v := by
  simp only [pendingUpds, List.mem_filter, Bool.and_eq_true, beq_iff_eq, bne_iff_ne, ne_eq]
  constructor
  · rintro ⟨_, h1, h2⟩; exact ⟨h1, h2⟩
  · rintro ⟨h1, h2⟩; exact ⟨AMap.mem_of_get h1, h1, h2⟩

/-! ### the four phases -/

theorem run_dels_get {K V : Type} [DecidableEq K] (dp des : AMap K V) (k : K) :
    ((pendingDels dp des).foldl AMap.del dp).get k = if des.get k = none then none else dp.get k := by
  by_cases h : des.get k = none
  · simp only [h, if_true]
    by_cases hm : k ∈ pendingDels dp des
    · exact foldl_del_get_mem _ _ _ hm
    · rw [foldl_del_get_not_mem _ _ _ hm]
      cases hd : dp.get k with
      | none => rfl
      | some v => exact absurd (mem_pendingDels.2 ⟨⟨v, AMap.mem_of_get hd⟩, h⟩) hm
  · simp only [h, if_false]
    apply foldl_del_get_not_mem
    intro hm; exact h (mem_pendingDels.1 hm).2

theorem run_upds_get {K V : Type} [DecidableEq K] [DecidableEq V] (dp des : AMap K V) (k : K) :
    ((pendingUpds dp des).foldl (fun m kv => m.set kv.1 kv.2) dp).get k =
      if (des.get k).isSome then des.get k else dp.get k := by
  cases hn : des.get k with
  | none =>
    simp only [Option.isSome_none, Bool.false_eq_true, if_false]
    apply foldl_set_get_not_mem
    rintro ⟨v, hv⟩
    have := (mem_pendingUpds.1 hv).1
    simp [hn] at this
  | some v =>
    simp only [Option.isSome_some, if_true]
    by_cases hm : ∃ v', (k, v') ∈ pendingUpds dp des
    · rw [foldl_set_get_mem des _ (fun kv h => (mem_pendingUpds.1 h).1) _ _ hm, hn]
    · rw [foldl_set_get_not_mem _ _ _ hm]
      by_cases hd : dp.get k = some v
      · exact hd
      · exact absurd ⟨v, mem_pendingUpds.2 ⟨hn, hd⟩⟩ hm

theorem run_phase1 (d n : DP) :
    (runWrites d (phase1 d n)).B = d.B ∧
    ∀ k, (runWrites d (phase1 d n)).F.get k = if n.F.get k = none then none else d.F.get k := by
  have key : ∀ (L : List FKey) (d : DP), runWrites d (L.map .delF) = { d with F := L.foldl AMap.del d.F } := by
    intro L; induction L with
    | nil => intro d; rfl
    | cons a L ih => intro d; simp only [List.map_cons, runWrites, List.foldl_cons, Write.run]; exact ih _
  simp only [phase1, key]
  exact ⟨trivial, fun k => run_dels_get _ _ k⟩

theorem run_phase4 (d n : DP) :
    (runWrites d (phase4 d n)).F = d.F ∧
    ∀ k, (runWrites d (phase4 d n)).B.get k = if n.B.get k = none then none else d.B.get k := by
  have key : ∀ (L : List BKey) (d : DP), runWrites d (L.map .delB) = { d with B := L.foldl AMap.del d.B } := by
    intro L; induction L with
    | nil => intro d; rfl
    | cons a L ih => intro d; simp only [List.map_cons, runWrites, List.foldl_cons, Write.run]; exact ih _
  simp only [phase4, key]
  exact ⟨trivial, fun k => run_dels_get _ _ k⟩

theorem run_phase2 (d n : DP) :
    (runWrites d (phase2 d n)).F = d.F ∧
    ∀ k, (runWrites d (phase2 d n)).B.get k = if (n.B.get k).isSome then n.B.get k else d.B.get k := by
  have key : ∀ (L : List (BKey × BVal)) (d : DP),
      runWrites d (L.map (fun kv => .setB kv.1 kv.2)) = { d with B := L.foldl (fun m kv => m.set kv.1 kv.2) d.B } := by
    intro L; induction L with
    | nil => intro d; rfl
    | cons a L ih => intro d; simp only [List.map_cons, runWrites, List.foldl_cons, Write.run]; exact ih _
  simp only [phase2, key]
  exact ⟨trivial, fun k => run_upds_get _ _ k⟩

theorem run_phase3 (d n : DP) :
    (runWrites d (phase3 d n)).B = d.B ∧
    ∀ k, (runWrites d (phase3 d n)).F.get k = if (n.F.get k).isSome then n.F.get k else d.F.get k := by
  have key : ∀ (L : List (FKey × FVal)) (d : DP),
      runWrites d (L.map (fun kv => .setF kv.1 kv.2)) = { d with F := L.foldl (fun m kv => m.set kv.1 kv.2) d.F } := by
    intro L; induction L with
    | nil => intro d; rfl
    | cons a L ih => intro d; simp only [List.map_cons, runWrites, List.foldl_cons, Write.run]; exact ih _
  simp only [phase3, key]
  exact ⟨trivial, fun k => run_upds_get _ _ k⟩

theorem allowed_phase1 (d n : DP) : ∀ w ∈ phase1 d n, Allowed n .p1 w := by
  intro w hw
  simp only [phase1, List.mem_map] at hw
  obtain ⟨k, hk, rfl⟩ := hw
  exact (mem_pendingDels.1 hk).2

theorem allowed_phase2 (d n : DP) : ∀ w ∈ phase2 d n, Allowed n .p2 w := by
  intro w hw
  simp only [phase2, List.mem_map] at hw
  obtain ⟨kv, hk, rfl⟩ := hw
  exact (mem_pendingUpds.1 hk).1

theorem allowed_phase3 (d n : DP) : ∀ w ∈ phase3 d n, Allowed n .p3 w := by
  intro w hw
  simp only [phase3, List.mem_map] at hw
  obtain ⟨kv, hk, rfl⟩ := hw
  exact (mem_pendingUpds.1 hk).1

theorem allowed_phase4 (d n : DP) : ∀ w ∈ phase4 d n, Allowed n .p4 w := by
  intro w hw
  simp only [phase4, List.mem_map] at hw
  obtain ⟨k, hk, rfl⟩ := hw
  exact (mem_pendingDels.1 hk).2

def fullWrites (d n : DP) : List Write :=
  let d1 := runWrites d (phase1 d n)
  let d2 := runWrites d1 (phase2 d1 n)
  let d3 := runWrites d2 (phase3 d2 n)
  phase1 d n ++ (phase2 d1 n ++ (phase3 d2 n ++ phase4 d3 n))

theorem prefix_append_cases {α : Type} {ws a b : List α} (h : ws <+: a ++ b) :
    ws <+: a ∨ ∃ t, t <+: b ∧ ws = a ++ t := by
  obtain ⟨r, hr⟩ := h
  rcases List.append_eq_append_iff.1 hr with ⟨a', h1, h2⟩ | ⟨c', h1, h2⟩
  · exact Or.inl ⟨a', h1.symm⟩
  · exact Or.inr ⟨c', ⟨r, h2.symm⟩, h1⟩

theorem reach_from_p4 {n d d3 : DP} (r4 : Reach n d ⟨.p4, d3⟩) {t : List Write} (h : t <+: phase4 d3 n) :
    ∃ ph, Reach n d ⟨ph, runWrites d3 t⟩ :=
  ⟨.p4, reach_run _ _ r4 (prefix_allowed h (allowed_phase4 d3 n))⟩

theorem reach_from_p3 {n d d2 : DP} (r3 : Reach n d ⟨.p3, d2⟩) {t : List Write}
    (h : t <+: phase3 d2 n ++ phase4 (runWrites d2 (phase3 d2 n)) n) :
    ∃ ph, Reach n d ⟨ph, runWrites d2 t⟩ := by
  rcases prefix_append_cases h with h | ⟨t', ht, rfl⟩
  · exact ⟨.p3, reach_run _ _ r3 (prefix_allowed h (allowed_phase3 d2 n))⟩
  rw [runWrites_append]
  have r3' : Reach n d ⟨.p3, runWrites d2 (phase3 d2 n)⟩ := reach_run _ _ r3 (allowed_phase3 d2 n)
  refine reach_from_p4 (r3'.step (Step.to4 _ ?_)) ht
  intro k v hk
  rw [(run_phase3 d2 n).2 k]; simp [hk]

theorem reach_from_p2 {n d d1 : DP} (r2 : Reach n d ⟨.p2, d1⟩) {t : List Write}
    (h : t <+: phase2 d1 n ++ (phase3 (runWrites d1 (phase2 d1 n)) n ++
      phase4 (runWrites (runWrites d1 (phase2 d1 n)) (phase3 (runWrites d1 (phase2 d1 n)) n)) n)) :
    ∃ ph, Reach n d ⟨ph, runWrites d1 t⟩ := by
  rcases prefix_append_cases h with h | ⟨t', ht, rfl⟩
  · exact ⟨.p2, reach_run _ _ r2 (prefix_allowed h (allowed_phase2 d1 n))⟩
  rw [runWrites_append]
  have r2' : Reach n d ⟨.p2, runWrites d1 (phase2 d1 n)⟩ := reach_run _ _ r2 (allowed_phase2 d1 n)
  refine reach_from_p3 (r2'.step (Step.to3 _ ?_)) ht
  intro k v hk
  rw [(run_phase2 d1 n).2 k]; simp [hk]

/-- every prefix of the executable write sequence of a complete `apply` is a run of the
transition system (so the invariant applies to it). -/
theorem fullWrites_reach (d n : DP) {ws : List Write} (h : ws <+: fullWrites d n) :
    ∃ ph, Reach n d ⟨ph, runWrites d ws⟩ := by
  simp only [fullWrites] at h
  rcases prefix_append_cases h with h | ⟨t, ht, rfl⟩
  · exact ⟨.p1, reach_run _ _ Reach.init (prefix_allowed h (allowed_phase1 d n))⟩
  rw [runWrites_append]
  have r1 : Reach n d ⟨.p1, runWrites d (phase1 d n)⟩ := reach_run _ _ Reach.init (allowed_phase1 d n)
  refine reach_from_p2 (r1.step (Step.to2 _ ?_)) ht
  intro k hk
  rw [(run_phase1 d n).2 k] at hk
  cases hn : n.F.get k with
  | none => simp [hn] at hk
  | some v => rfl

/-- whatever phase is made to fail, the executed writes are a prefix of the complete sequence. -/
theorem schedule_prefix (d n : DP) (fp : Nat) : (schedule d n fp).1.flatten <+: fullWrites d n := by
  simp only [schedule, fullWrites]
  split
  · exact List.nil_prefix
  split
  · simp only [List.flatten_cons, List.flatten_nil, List.append_nil]
    exact List.prefix_append _ _
  split
  · simp only [List.flatten_cons, List.flatten_nil, List.append_nil]
    exact (List.prefix_append_right_inj _).2 (List.prefix_append _ _)
  split
  · simp only [List.flatten_cons, List.flatten_nil, List.append_nil]
    exact (List.prefix_append_right_inj _).2 ((List.prefix_append_right_inj _).2 (List.prefix_append _ _))
  · simp only [List.flatten_cons, List.flatten_nil, List.append_nil]
    exact List.prefix_refl _

/-- a complete, successful `apply` leaves exactly the desired maps. -/
theorem fullWrites_exact (d n : DP) :
    (∀ k, (runWrites d (fullWrites d n)).F.get k = n.F.get k) ∧
    (∀ k, (runWrites d (fullWrites d n)).B.get k = n.B.get k) := by
  simp only [fullWrites, runWrites_append]
  generalize hd1 : runWrites d (phase1 d n) = d1
  generalize hd2 : runWrites d1 (phase2 d1 n) = d2
  generalize hd3 : runWrites d2 (phase3 d2 n) = d3
  have p1 := run_phase1 d n; rw [hd1] at p1
  have p2 := run_phase2 d1 n; rw [hd2] at p2
  have p3 := run_phase3 d2 n; rw [hd3] at p3
  have p4 := run_phase4 d3 n
  constructor
  · intro k
    rw [p4.1, p3.2 k, p2.1, p1.2 k]
    cases hn : n.F.get k <;> simp
  · intro k
    rw [p4.2 k, p3.1, p2.2 k]
    cases hn : n.B.get k <;> simp

theorem writeBackends_get_lt (B : AMap BKey BVal) (id start : Nat) (l : List Ep) (k : BKey)
    (h : k.id ≠ id ∨ k.idx < start) : (writeBackends B id start l).get k = B.get k := by
  induction l generalizing B start with
  | nil => rfl
  | cons e l ih =>
    simp only [writeBackends]
    rw [ih _ _ (by rcases h with h | h; exact Or.inl h; exact Or.inr (by omega))]
    apply AMap.get_set_ne
    intro e'; subst e'; rcases h with h | h
    · exact h rfl
    · simp at h

theorem writeBackends_get (B : AMap BKey BVal) (id start : Nat) (l : List Ep) (i : Nat) (hi : i < l.length) :
    (writeBackends B id start l).get ⟨id, start + i⟩ = some ⟨l[i].ip, l[i].port⟩ := by
  induction l generalizing B start i with
  | nil => simp at hi
  | cons e l ih =>
    simp only [writeBackends]
    cases i with
    | zero =>
      rw [writeBackends_get_lt _ _ _ _ _ (Or.inr (by simp))]
      simp [AMap.get_set_self]
    | succ j =>
      have := ih (B.set ⟨id, start⟩ ⟨e.ip, e.port⟩) (start + 1) j (by simpa using hi)
      have e2 : start + (j + 1) = start + 1 + j := by omega
      rw [e2, this]; simp

/-! ## Ghost traces: what the builder's `Set` calls leave in the desired maps -/

/-- a predicate on builder states that every elementary builder operation preserves. -/
structure Pres (P : Bld → Prop) : Prop where
  writeSvc : ∀ b svc id c l f, P b → P (writeSvc b svc id c l f)
  writeLBSrc : ∀ b svc id c l f, P b → P (writeLBSrc b svc id c l f)
  backends : ∀ (b : Bld) skey id eps, P b →
    P { b with des := { b.des with B := writeBackends b.des.B id 0 (readyOrdered eps) }, calls := (skey, id, eps) :: b.calls }
  book : ∀ (b : Bld) newSvc newEps nextId fresh, P b → P { b with newSvc, newEps, nextId, fresh }

variable {P : Bld → Prop}

theorem Pres.updateService (hp : Pres P) {b : Bld} (h : P b) (skey : SvcKey) (svc : Svc) (id : Nat) (eps : List Ep) :
    P (updateService b skey svc id eps).1 := by
  unfold C42.updateService
  have h1 := hp.backends b skey id eps h
  have h2 := hp.writeSvc _ svc id (readyOrdered eps).length (localReady eps) (if svc.intLocal then flgInternalLocal else 0) h1
  cases skey.extra
  all_goals first
    | exact h2
    | exact hp.book _ _ _ _ _ h2

theorem Pres.applySvcWith (hp : Pres P) {b : Bld} (h : P b) (skey : SvcKey) (svc : Svc) (id : Nat) (eps : List Ep) :
    P (applySvcWith b skey svc id eps) := by
  unfold C42.applySvcWith
  exact hp.book _ _ _ _ _ (hp.updateService h skey svc id eps)

theorem Pres.applySvc (hp : Pres P) {b : Bld} (h : P b) (prevSvc : AMap SvcKey SvcInfo) (hint : AMap SvcKey Nat)
    (skey : SvcKey) (svc : Svc) (eps : List Ep) : P (applySvc prevSvc hint b skey svc eps) := by
  unfold C42.applySvc
  split
  · exact hp.applySvcWith h _ _ _ _
  · exact hp.applySvcWith (hp.book b b.newSvc b.newEps _ _ h) _ _ _ _

theorem Pres.applyDerived (hp : Pres P) {b : Bld} (h : P b) (sname : String) (t : DType) (sinfo : Svc) :
    P (applyDerived b sname t sinfo) := by
  unfold C42.applyDerived
  split
  · exact h
  · simp only []
    split
    · exact hp.book _ _ _ _ _ (hp.writeLBSrc _ _ _ _ _ _ h)
    · exact hp.book _ _ _ _ _ (hp.writeSvc _ _ _ _ _ _ h)

theorem foldl_pres {α : Type} (f : Bld → α → Bld) (hf : ∀ b a, P b → P (f b a)) (l : List α) (b : Bld)
    (h : P b) : P (l.foldl f b) := by
  induction l generalizing b with
  | nil => exact h
  | cons a l ih => exact ih _ (hf b a h)

theorem Pres.applyRest (hp : Pres P) {b : Bld} (h1 : P b) (s : Syncer) (hint : AMap SvcKey Nat)
    (sname : String) (svc : Svc) (eps : List Ep) : P (applyRest s hint b sname svc eps) := by
  unfold C42.applyRest
  simp only []
  have h2 := foldl_pres (P := P) (fun b ip => C42.applyDerived b sname .lb { svc with clusterIP := ip })
    (fun b a hb => hp.applyDerived hb _ _ _) svc.lbVIPs _ h1
  have h3 := foldl_pres (P := P) (fun b ip => C42.applyDerived b sname .ext { svc with clusterIP := ip })
    (fun b a hb => hp.applyDerived hb _ _ _) svc.extIPs _ h2
  split
  · have h4 := foldl_pres (P := P) (fun b ip => if (svc.intLocal && ip == podNPIP) = true then b
        else C42.applyDerived b sname .np { svc with clusterIP := ip, port := svc.nodePort })
      (fun b a hb => by split; exact hb; exact hp.applyDerived hb _ _ _) s.npIPs _ h3
    split
    · exact foldl_pres (P := P) _ (fun b g hb => hp.applySvc hb _ _ _ _ _) _ _ h4
    · exact h4
  · exact h3

theorem Pres.applyService (hp : Pres P) {b : Bld} (h : P b) (s : Syncer) (st : KState) (hint : AMap SvcKey Nat)
    (sname : String) (svc : Svc) : P (applyService s st hint b sname svc) := by
  unfold C42.applyService
  exact hp.applyRest (hp.applySvc h _ _ _ _ _) _ _ _ _ _

/-- frontend trace: if no key is `Set` twice, every `Set` is what the desired map holds. -/
def FOK (b : Bld) : Prop :=
  (b.fwrites.map (·.1)).Nodup → ∀ kv ∈ b.fwrites, b.des.F.get kv.1 = some kv.2

/-- backend trace: if no ID is used by two `updateService` calls, every call's block is exactly its
ready endpoints, local ones first. -/
def BOK (b : Bld) : Prop :=
  (b.calls.map (·.2.1)).Nodup → ∀ c ∈ b.calls, ∀ i (hi : i < (readyOrdered c.2.2).length),
    b.des.B.get ⟨c.2.1, i⟩ = some ⟨(readyOrdered c.2.2)[i].ip, (readyOrdered c.2.2)[i].port⟩

theorem FOK_put {F : AMap FKey FVal} {fw : List (FKey × FVal)} (k : FKey) (v : FVal)
    (h : (fw.map (·.1)).Nodup → ∀ kv ∈ fw, F.get kv.1 = some kv.2) :
    (((k, v) :: fw).map (·.1)).Nodup → ∀ kv ∈ (k, v) :: fw, (F.set k v).get kv.1 = some kv.2 := by
  intro hnd kv hm
  simp only [List.map_cons, List.nodup_cons] at hnd
  rcases List.mem_cons.1 hm with rfl | hm
  · exact AMap.get_set_self _ _ _
  · have : kv.1 ≠ k := fun e => hnd.1 (e ▸ List.mem_map_of_mem hm)
    rw [AMap.get_set_ne _ _ this]
    exact h hnd.2 kv hm

theorem FOK_puts {F : AMap FKey FVal} {fw : List (FKey × FVal)} (ks : List FKey) (v : FVal)
    (h : (fw.map (·.1)).Nodup → ∀ kv ∈ fw, F.get kv.1 = some kv.2) :
    (((ks.map (fun k => (k, v))).reverse ++ fw).map (·.1)).Nodup →
      ∀ kv ∈ (ks.map (fun k => (k, v))).reverse ++ fw, (ks.foldl (fun F k => F.set k v) F).get kv.1 = some kv.2 := by
  induction ks generalizing F fw with
  | nil => simpa using h
  | cons k ks ih =>
    simp only [List.map_cons, List.reverse_cons, List.append_assoc, List.singleton_append, List.foldl_cons]
    exact ih (FOK_put k v h)

theorem FOK_pres : Pres FOK := by
  constructor
  · intro b svc id c l f h
    unfold FOK C42.writeSvc
    exact FOK_put _ _ h
  · intro b svc id c l f h
    unfold FOK C42.writeLBSrc
    simp only []
    split
    · exact FOK_puts _ _ h
    · exact FOK_put _ _ (FOK_puts _ _ h)
  · intro b skey id eps h; exact h
  · intro b _ _ _ _ h; exact h

theorem BOK_pres : Pres BOK := by
  constructor
  · intro b svc id c l f h
    unfold BOK at *
    have e1 : (C42.writeSvc b svc id c l f).calls = b.calls := by unfold C42.writeSvc; rfl
    rw [e1, writeSvc_B]; exact h
  · intro b svc id c l f h
    unfold BOK at *
    have e1 : (C42.writeLBSrc b svc id c l f).calls = b.calls := by
      unfold C42.writeLBSrc; simp only []; split <;> rfl
    rw [e1, writeLBSrc_B]; exact h
  · intro b skey id eps h
    unfold BOK at *
    intro hnd c hm i hi
    simp only [List.map_cons, List.nodup_cons] at hnd
    rcases List.mem_cons.1 hm with rfl | hm
    · have := writeBackends_get b.des.B id 0 (readyOrdered eps) i hi
      simpa using this
    · have hne : c.2.1 ≠ id := fun e => hnd.1 (e ▸ List.mem_map_of_mem (f := fun x : SvcKey × Nat × List Ep => x.2.1) hm)
      show (writeBackends b.des.B id 0 (readyOrdered eps)).get ⟨c.2.1, i⟩ = _
      rw [writeBackends_get_lt _ _ _ _ _ (Or.inl hne)]
      exact h hnd.2 c hm i hi
  · intro b _ _ _ _ h; exact h

/-- membership in the traces is never lost. -/
theorem mem_pres (c : SvcKey × Nat × List Ep) (w : FKey × FVal) :
    Pres (fun b => c ∈ b.calls ∧ w ∈ b.fwrites) := by
  constructor
  · intro b svc id cc l f h
    exact ⟨h.1, List.mem_cons_of_mem _ h.2⟩
  · intro b svc id cc l f h
    unfold C42.writeLBSrc
    simp only []
    split
    · exact ⟨h.1, List.mem_append_right _ h.2⟩
    · exact ⟨h.1, List.mem_cons_of_mem _ (List.mem_append_right _ h.2)⟩
  · intro b skey id eps h; exact ⟨List.mem_cons_of_mem _ h.1, h.2⟩
  · intro b _ _ _ _ h; exact h

/-- what the primary `applySvc` of a service records. -/
theorem applySvc_records (prevSvc : AMap SvcKey SvcInfo) (hint : AMap SvcKey Nat) (b : Bld) (skey : SvcKey) (svc : Svc)
    (eps : List Ep) :
    ∃ id v, (skey, id, eps) ∈ (applySvc prevSvc hint b skey svc eps).calls ∧
      (zeroKey svc, v) ∈ (applySvc prevSvc hint b skey svc eps).fwrites ∧
      v.id = id ∧ v.count = (readyOrdered eps).length ∧ v.lcl = localReady eps ∧ v.aff = affOf svc := by
  have key : ∀ (b : Bld) id, ∃ v, (skey, id, eps) ∈ (applySvcWith b skey svc id eps).calls ∧
      (zeroKey svc, v) ∈ (applySvcWith b skey svc id eps).fwrites ∧
      v.id = id ∧ v.count = (readyOrdered eps).length ∧ v.lcl = localReady eps ∧ v.aff = affOf svc := by
    intro b id
    unfold C42.applySvcWith C42.updateService C42.writeSvc
    cases skey.extra <;> exact ⟨_, List.mem_cons_self .., List.mem_cons_self .., rfl, rfl, rfl, rfl⟩
  unfold C42.applySvc
  split
  · rename_i id _; obtain ⟨v, h⟩ := key b id; exact ⟨id, v, h⟩
  · obtain ⟨v, h⟩ := key _ ((hint.get skey).getD b.nextId); exact ⟨_, v, h⟩

/-! ## Derived frontends -/

/-- a frontend `Set` is never lost from the trace. -/
theorem memw_pres (w : FKey × FVal) : Pres (fun b => w ∈ b.fwrites) := by
  constructor
  · intro b svc id cc l f h; exact List.mem_cons_of_mem _ h
  · intro b svc id cc l f h
    unfold C42.writeLBSrc
    simp only []
    split
    · exact List.mem_append_right _ h
    · exact List.mem_cons_of_mem _ (List.mem_append_right _ h)
  · intro b skey id eps h; exact h
  · intro b _ _ _ _ h; exact h

/-- a derived frontend value "lists the same block" as the recorded primary `svcInfo`. -/
def Same (info : SvcInfo) (v : FVal) : Prop := v.id = info.id ∧ v.count = info.count ∧ v.lcl = info.lcl

/-- what one `applyDerived` does, given the primary's `svcInfo`. -/
theorem applyDerived_spec (b : Bld) (sname : String) (t : DType) (sinfo : Svc) (info : SvcInfo)
    (hq : b.newSvc.get ⟨sname, .prim⟩ = some info) :
    (applyDerived b sname t sinfo).newSvc.get ⟨sname, .prim⟩ = some info ∧
    (((t = .lb ∨ t = .ext) ∧ sinfo.srcRanges ≠ []) →
      ∀ k ∈ srcKeys sinfo, ∃ v, (k, v) ∈ (applyDerived b sname t sinfo).fwrites ∧ Same info v) ∧
    (¬ ((t = .lb ∨ t = .ext) ∧ sinfo.srcRanges ≠ []) →
      ∃ v, (zeroKey sinfo, v) ∈ (applyDerived b sname t sinfo).fwrites ∧ Same info v) := by
  unfold C42.applyDerived
  simp only [hq]
  have hkey : (⟨sname, .prim⟩ : SvcKey) ≠ ⟨sname, t.extra sinfo.clusterIP⟩ := by
    cases t <;> simp [DType.extra]
  split
  · rename_i hc
    have hc' : (t = .lb ∨ t = .ext) ∧ sinfo.srcRanges ≠ [] := by
      simp only [Bool.and_eq_true, Bool.or_eq_true, decide_eq_true_eq, Bool.not_eq_true',
        List.isEmpty_eq_false_iff, ne_eq] at hc
      exact hc
    refine ⟨?_, ?_, fun h => absurd hc' h⟩
    · rw [AMap.get_set_ne _ _ hkey]
      unfold C42.writeLBSrc; simp only []; split <;> exact hq
    · intro _ k hk
      refine ⟨⟨info.id, info.count, info.lcl, affOf sinfo, derivedFlags t sinfo⟩, ?_, rfl, rfl, rfl⟩
      unfold C42.writeLBSrc
      simp only []
      have hm : (k, (⟨info.id, info.count, info.lcl, affOf sinfo, derivedFlags t sinfo⟩ : FVal)) ∈
          ((srcKeys sinfo).map (fun k => (k, (⟨info.id, info.count, info.lcl, affOf sinfo, derivedFlags t sinfo⟩ : FVal)))).reverse ++ b.fwrites :=
        List.mem_append_left _ (List.mem_reverse.2 (List.mem_map.2 ⟨k, hk, rfl⟩))
      split
      · exact hm
      · exact List.mem_cons_of_mem _ hm
  · rename_i hc
    have hc' : ¬ ((t = .lb ∨ t = .ext) ∧ sinfo.srcRanges ≠ []) := by
      intro h; apply hc
      simp only [Bool.and_eq_true, Bool.or_eq_true, decide_eq_true_eq, Bool.not_eq_true',
        List.isEmpty_eq_false_iff, ne_eq]
      exact h
    refine ⟨?_, fun h => absurd h hc', fun _ => ?_⟩
    · rw [AMap.get_set_ne _ _ hkey]
      unfold C42.writeSvc; exact hq
    · unfold C42.writeSvc
      exact ⟨_, List.mem_cons_self .., rfl, rfl, rfl⟩

theorem foldl_mono_w {α : Type} (f : Bld → α → Bld) (hf : ∀ (w : FKey × FVal) b a, w ∈ b.fwrites → w ∈ (f b a).fwrites)
    (w : FKey × FVal) (l : List α) (b : Bld) (h : w ∈ b.fwrites) : w ∈ (l.foldl f b).fwrites := by
  induction l generalizing b with
  | nil => exact h
  | cons x rest ih => exact ih _ (hf w b x h)

/-- records made by a fold of derived steps: every element of the list gets its frontend `Set`. -/
theorem derived_fold_records {α : Type} (sname : String) (info : SvcInfo) (f : Bld → α → Bld) (keys : α → List FKey)
    (hf : ∀ (w : FKey × FVal) b a, w ∈ b.fwrites → w ∈ (f b a).fwrites)
    (hstep : ∀ b a, b.newSvc.get ⟨sname, .prim⟩ = some info →
      (f b a).newSvc.get ⟨sname, .prim⟩ = some info ∧ ∀ k ∈ keys a, ∃ v, (k, v) ∈ (f b a).fwrites ∧ Same info v)
    (l : List α) (b : Bld) (hq : b.newSvc.get ⟨sname, .prim⟩ = some info) :
    (l.foldl f b).newSvc.get ⟨sname, .prim⟩ = some info ∧
      ∀ a ∈ l, ∀ k ∈ keys a, ∃ v, (k, v) ∈ (l.foldl f b).fwrites ∧ Same info v := by
  induction l generalizing b with
  | nil => exact ⟨hq, fun _ h => by simp at h⟩
  | cons x rest ih =>
    simp only [List.foldl_cons]
    obtain ⟨hq1, hr1⟩ := hstep b x hq
    obtain ⟨hq2, hr2⟩ := ih _ hq1
    refine ⟨hq2, ?_⟩
    intro a ha k hk
    rcases List.mem_cons.1 ha with rfl | ha
    · obtain ⟨v1, hm1, hs1⟩ := hr1 k hk
      exact ⟨v1, foldl_mono_w f hf _ rest _ hm1, hs1⟩
    · exact hr2 a ha k hk

theorem derivedStep_keys (sname : String) (info : SvcInfo) (t : DType) (sinfo : Svc) (b : Bld)
    (hq : b.newSvc.get ⟨sname, .prim⟩ = some info) :
    (applyDerived b sname t sinfo).newSvc.get ⟨sname, .prim⟩ = some info ∧
    ∀ k ∈ (if (t = .lb ∨ t = .ext) ∧ sinfo.srcRanges ≠ [] then srcKeys sinfo else [zeroKey sinfo]),
      ∃ v, (k, v) ∈ (applyDerived b sname t sinfo).fwrites ∧ Same info v := by
  obtain ⟨h1, h2, h3⟩ := applyDerived_spec b sname t sinfo info hq
  refine ⟨h1, ?_⟩
  intro k hk
  split at hk
  · rename_i hc; exact h2 hc k hk
  · rename_i hc
    simp only [List.mem_singleton] at hk
    subst hk; exact h3 hc

def lbFold (sname : String) (svc : Svc) (b : Bld) : Bld :=
  svc.lbVIPs.foldl (fun b ip => C42.applyDerived b sname .lb { svc with clusterIP := ip }) b
def extFold (sname : String) (svc : Svc) (b : Bld) : Bld :=
  svc.extIPs.foldl (fun b ip => C42.applyDerived b sname .ext { svc with clusterIP := ip }) b
def npStep (sname : String) (svc : Svc) (b : Bld) (ip : Nat) : Bld :=
  if (svc.intLocal && ip == podNPIP) = true then b
  else C42.applyDerived b sname .np { svc with clusterIP := ip, port := svc.nodePort }
def npFold (s : Syncer) (sname : String) (svc : Svc) (b : Bld) : Bld := s.npIPs.foldl (npStep sname svc) b
def nprFold (s : Syncer) (hint : AMap SvcKey Nat) (sname : String) (svc : Svc) (eps : List Ep) (b : Bld) : Bld :=
  (expandNodePorts s.routes eps).foldl (fun b g =>
    C42.applySvc s.prevSvc hint b ⟨sname, .npRemote g.1⟩ { svc with clusterIP := g.1, port := svc.nodePort } g.2) b

theorem applyRest_eq (s : Syncer) (hint : AMap SvcKey Nat) (b : Bld) (sname : String) (svc : Svc) (eps : List Ep) :
    applyRest s hint b sname svc eps =
      if (svc.nodePort != 0) = true then
        (if svc.intLocal = true then nprFold s hint sname svc eps (npFold s sname svc (extFold sname svc (lbFold sname svc b)))
         else npFold s sname svc (extFold sname svc (lbFold sname svc b)))
      else extFold sname svc (lbFold sname svc b) := rfl

theorem npStep_mono (sname : String) (svc : Svc) (w : FKey × FVal) (b : Bld) (ip : Nat) (h : w ∈ b.fwrites) :
    w ∈ (npStep sname svc b ip).fwrites := by
  unfold npStep; split
  · exact h
  · exact (memw_pres w).applyDerived h _ _ _

theorem npFold_mono (s : Syncer) (sname : String) (svc : Svc) (w : FKey × FVal) (b : Bld) (h : w ∈ b.fwrites) :
    w ∈ (npFold s sname svc b).fwrites :=
  foldl_mono_w _ (fun w b a h => npStep_mono sname svc w b a h) w _ _ h

theorem nprFold_mono (s : Syncer) (hint : AMap SvcKey Nat) (sname : String) (svc : Svc) (eps : List Ep)
    (w : FKey × FVal) (b : Bld) (h : w ∈ b.fwrites) : w ∈ (nprFold s hint sname svc eps b).fwrites :=
  foldl_mono_w _ (fun w b g h => (memw_pres w).applySvc h _ _ _ _ _) w _ _ h

theorem extFold_mono (sname : String) (svc : Svc) (w : FKey × FVal) (b : Bld) (h : w ∈ b.fwrites) :
    w ∈ (extFold sname svc b).fwrites :=
  foldl_mono_w _ (fun w b a h => (memw_pres w).applyDerived h _ _ _) w _ _ h

/-- a record present after the external-IP fold survives the rest of `applyRest`. -/
theorem applyRest_mono_from_ext (s : Syncer) (hint : AMap SvcKey Nat) (b : Bld) (sname : String) (svc : Svc) (eps : List Ep)
    (w : FKey × FVal) (h : w ∈ (extFold sname svc (lbFold sname svc b)).fwrites) :
    w ∈ (applyRest s hint b sname svc eps).fwrites := by
  rw [applyRest_eq]
  split
  · split
    · exact nprFold_mono _ _ _ _ _ _ _ (npFold_mono _ _ _ _ _ h)
    · exact npFold_mono _ _ _ _ _ h
  · exact h

def ipKeys (svc : Svc) (ip : Nat) : List FKey :=
  if svc.srcRanges = [] then [zeroKey { svc with clusterIP := ip }] else srcKeys { svc with clusterIP := ip }

theorem derivedStep_ipKeys (sname : String) (info : SvcInfo) (t : DType) (ht : t = .lb ∨ t = .ext) (svc : Svc) (ip : Nat) (b : Bld)
    (hq : b.newSvc.get ⟨sname, .prim⟩ = some info) :
    (applyDerived b sname t { svc with clusterIP := ip }).newSvc.get ⟨sname, .prim⟩ = some info ∧
    ∀ k ∈ ipKeys svc ip, ∃ v, (k, v) ∈ (applyDerived b sname t { svc with clusterIP := ip }).fwrites ∧ Same info v := by
  obtain ⟨h1, h2⟩ := derivedStep_keys sname info t { svc with clusterIP := ip } b hq
  refine ⟨h1, fun k hk => h2 k ?_⟩
  unfold ipKeys at hk
  by_cases hs : svc.srcRanges = []
  · simp only [hs, if_true] at hk
    simp only [hs, ne_eq, not_true_eq_false, and_false, if_false]
    exact hk
  · simp only [hs, if_false] at hk
    simp only [ht, hs, ne_eq, not_false_eq_true, and_self, if_true]
    exact hk

/-- the frontend keys of a service that must list the same block as its cluster-IP frontend. -/
def derivedKeys (s : Syncer) (svc : Svc) : List FKey :=
  (svc.lbVIPs ++ svc.extIPs).flatMap (ipKeys svc) ++
  (if svc.nodePort != 0 then
    (s.npIPs.filter (fun ip => !(svc.intLocal && ip == podNPIP))).map
      (fun ip => zeroKey { svc with clusterIP := ip, port := svc.nodePort })
   else [])

/-- **every derived frontend of a service is `Set` with the ID, count and local count recorded for its
cluster-IP frontend.** -/
theorem applyRest_records (s : Syncer) (hint : AMap SvcKey Nat) (b : Bld) (sname : String) (svc : Svc) (eps : List Ep)
    (info : SvcInfo) (hq : b.newSvc.get ⟨sname, .prim⟩ = some info) :
    ∀ k ∈ derivedKeys s svc, ∃ v, (k, v) ∈ (applyRest s hint b sname svc eps).fwrites ∧ Same info v := by
  have hLB := derived_fold_records sname info (fun b ip => C42.applyDerived b sname .lb { svc with clusterIP := ip })
    (ipKeys svc) (fun w b a h => (memw_pres w).applyDerived h _ _ _)
    (fun b a hq => derivedStep_ipKeys sname info .lb (Or.inl rfl) svc a b hq) svc.lbVIPs b hq
  have hEXT := derived_fold_records sname info (fun b ip => C42.applyDerived b sname .ext { svc with clusterIP := ip })
    (ipKeys svc) (fun w b a h => (memw_pres w).applyDerived h _ _ _)
    (fun b a hq => derivedStep_ipKeys sname info .ext (Or.inr rfl) svc a b hq) svc.extIPs _ hLB.1
  have hNP := derived_fold_records sname info (npStep sname svc)
    (fun ip => if (svc.intLocal && ip == podNPIP) = true then [] else [zeroKey { svc with clusterIP := ip, port := svc.nodePort }])
    (fun w b a h => npStep_mono sname svc w b a h)
    (fun b a hq => by
      unfold npStep
      split
      · exact ⟨hq, fun k hk => by simp at hk⟩
      · obtain ⟨h1, h2⟩ := derivedStep_keys sname info .np { svc with clusterIP := a, port := svc.nodePort } b hq
        refine ⟨h1, fun k hk => h2 k ?_⟩
        simpa using hk) s.npIPs _ hEXT.1
  intro k hk
  unfold derivedKeys at hk
  rcases List.mem_append.1 hk with hk | hk
  · obtain ⟨ip, hip, hkk⟩ := List.mem_flatMap.1 hk
    rcases List.mem_append.1 hip with hip | hip
    · obtain ⟨v, hm, hs⟩ := hLB.2 ip hip k hkk
      exact ⟨v, applyRest_mono_from_ext _ _ _ _ _ _ _ (extFold_mono _ _ _ _ hm), hs⟩
    · obtain ⟨v, hm, hs⟩ := hEXT.2 ip hip k hkk
      exact ⟨v, applyRest_mono_from_ext _ _ _ _ _ _ _ hm, hs⟩
  · split at hk
    · rename_i hnz
      obtain ⟨ip, hip, rfl⟩ := List.mem_map.1 hk
      obtain ⟨hin, hcond⟩ := List.mem_filter.1 hip
      obtain ⟨v, hm, hs⟩ := hNP.2 ip hin (zeroKey { svc with clusterIP := ip, port := svc.nodePort }) (by
        simp only [Bool.not_eq_true'] at hcond
        simp [hcond])
      refine ⟨v, ?_, hs⟩
      rw [applyRest_eq, if_pos hnz]
      split
      · exact nprFold_mono _ _ _ _ _ _ _ hm
      · exact hm
    · simp at hk

/-- what the primary `applySvc` of a service records, including its `svcInfo`. -/
theorem applySvc_records3 (prevSvc : AMap SvcKey SvcInfo) (hint : AMap SvcKey Nat) (b : Bld) (skey : SvcKey) (svc : Svc)
    (eps : List Ep) :
    ∃ id v, (skey, id, eps) ∈ (applySvc prevSvc hint b skey svc eps).calls ∧
      (zeroKey svc, v) ∈ (applySvc prevSvc hint b skey svc eps).fwrites ∧
      v.id = id ∧ v.count = (readyOrdered eps).length ∧ v.lcl = localReady eps ∧ v.aff = affOf svc ∧
      (applySvc prevSvc hint b skey svc eps).newSvc.get skey =
        some ⟨id, (readyOrdered eps).length, localReady eps, svc⟩ := by
  have key : ∀ (b : Bld) id, ∃ v, (skey, id, eps) ∈ (applySvcWith b skey svc id eps).calls ∧
      (zeroKey svc, v) ∈ (applySvcWith b skey svc id eps).fwrites ∧
      v.id = id ∧ v.count = (readyOrdered eps).length ∧ v.lcl = localReady eps ∧ v.aff = affOf svc ∧
      (applySvcWith b skey svc id eps).newSvc.get skey = some ⟨id, (readyOrdered eps).length, localReady eps, svc⟩ := by
    intro b id
    unfold C42.applySvcWith C42.updateService C42.writeSvc
    cases skey.extra <;>
      exact ⟨_, List.mem_cons_self .., List.mem_cons_self .., rfl, rfl, rfl, rfl, AMap.get_set_self _ _ _⟩
  unfold C42.applySvc
  split
  · rename_i id _; obtain ⟨v, h⟩ := key b id; exact ⟨id, v, h⟩
  · obtain ⟨v, h⟩ := key _ ((hint.get skey).getD b.nextId); exact ⟨_, v, h⟩

/-! ## The NAT IDs used by one sync are pairwise distinct -/

theorem groupAdd_keys (g : List (Nat × List Ep)) (node : Nat) (ep : Ep) :
    (groupAdd g node ep).map (·.1) = if node ∈ g.map (·.1) then g.map (·.1) else g.map (·.1) ++ [node] := by
  induction g with
  | nil => simp [groupAdd]
  | cons x rest ih =>
    obtain ⟨n, l⟩ := x
    simp only [groupAdd]
    by_cases h : n = node
    · subst h; simp
    · simp only [h, if_false, List.map_cons, ih, List.mem_cons]
      have h' : ¬ node = n := fun e => h e.symm
      by_cases h2 : node ∈ rest.map (·.1)
      · simp [h2, h']
      · simp [h2, h']

theorem groupAdd_nodup (g : List (Nat × List Ep)) (node : Nat) (ep : Ep) (h : (g.map (·.1)).Nodup) :
    ((groupAdd g node ep).map (·.1)).Nodup := by
  rw [groupAdd_keys]
  split
  · exact h
  · rename_i hn
    rw [List.nodup_append]
    refine ⟨h, by simp, ?_⟩
    intro a ha b hb
    simp only [List.mem_singleton] at hb
    subst hb
    intro e; subst e; exact hn ha

theorem expandNodePorts_nodup (routes : AMap Nat Route) (eps : List Ep) :
    ((expandNodePorts routes eps).map (·.1)).Nodup := by
  unfold expandNodePorts
  have : ∀ (l : List Ep) (g : List (Nat × List Ep)), (g.map (·.1)).Nodup →
      ((l.foldl (fun g ep => match routes.get ep.ip with
        | none => g
        | some rt => if rt.workload && !rt.isLocal then groupAdd g rt.nextHop ep else g) g).map (·.1)).Nodup := by
    intro l
    induction l with
    | nil => intro g h; exact h
    | cons ep rest ih =>
      intro g h
      simp only [List.foldl_cons]
      apply ih
      split
      · exact h
      · split
        · exact groupAdd_nodup _ _ _ h
        · exact h
  exact this eps [] (by simp)

/-- the previous-sync bookkeeping the ID choice relies on: recorded IDs are below `nextSvcID`, and two
different keys that own a backend block (cluster-IP key, per-node NodePortRemote key) never share one. -/
def Owner (sk : SvcKey) : Prop := sk.extra = .prim ∨ ∃ n, sk.extra = .npRemote n

structure WFPrev (prev : AMap SvcKey SvcInfo) (n0 : Nat) : Prop where
  lt : ∀ sk info, Owner sk → prev.get sk = some info → info.id < n0
  inj : ∀ sk1 sk2 i1 i2, Owner sk1 → Owner sk2 → prev.get sk1 = some i1 → prev.get sk2 = some i2 →
    sk1 ≠ sk2 → i1.id ≠ i2.id

def FreshGood (n0 : Nat) (b : Bld) : Prop := b.fresh.Nodup ∧ ∀ i ∈ b.fresh, n0 ≤ i

def Classified (prev : AMap SvcKey SvcInfo) (b : Bld) (c : SvcKey × Nat × List Ep) : Prop :=
  (∃ info, prev.get c.1 = some info ∧ info.id = c.2.1) ∨ c.2.1 ∈ b.fresh

structure IdInv (prev : AMap SvcKey SvcInfo) (n0 : Nat) (b : Bld) : Prop where
  keys : (b.calls.map (·.1)).Nodup
  owner : ∀ c ∈ b.calls, Owner c.1
  cls : ∀ c ∈ b.calls, Classified prev b c
  ids : FreshGood n0 b → (b.calls.map (·.2.1)).Nodup

theorem applySvcWith_calls (b : Bld) (skey : SvcKey) (svc : Svc) (id : Nat) (eps : List Ep) :
    (applySvcWith b skey svc id eps).calls = (skey, id, eps) :: b.calls ∧
    (applySvcWith b skey svc id eps).fresh = b.fresh := by
  unfold applySvcWith updateService writeSvc
  cases skey.extra <;> exact ⟨rfl, rfl⟩

theorem applyDerived_calls (b : Bld) (sname : String) (t : DType) (sinfo : Svc) :
    (applyDerived b sname t sinfo).calls = b.calls ∧ (applyDerived b sname t sinfo).fresh = b.fresh := by
  unfold applyDerived
  split
  · exact ⟨rfl, rfl⟩
  · simp only []
    split
    · unfold writeLBSrc; simp only []; split <;> exact ⟨rfl, rfl⟩
    · unfold writeSvc; exact ⟨rfl, rfl⟩

theorem keepId_some {prev : AMap SvcKey SvcInfo} {skey : SvcKey} {svc : Svc} {id : Nat}
    (h : keepId prev skey svc = some id) : ∃ info, prev.get skey = some info ∧ info.id = id := by
  unfold keepId at h
  split at h
  · rename_i old ho
    split at h
    · simp at h; exact ⟨old, ho, h⟩
    · cases h
  · cases h

/-- one `applySvc` for an owner key not used before in this sync keeps the invariant. -/
theorem IdInv.applySvc {prev : AMap SvcKey SvcInfo} {n0 : Nat} (wf : WFPrev prev n0) {b : Bld}
    (inv : IdInv prev n0 b) (hint : AMap SvcKey Nat) (skey : SvcKey) (svc : Svc) (eps : List Ep)
    (ho : Owner skey) (hnew : skey ∉ b.calls.map (·.1)) :
    IdInv prev n0 (applySvc prev hint b skey svc eps) := by
  unfold C42.applySvc
  split
  · -- the previous ID is kept
    rename_i id hk
    obtain ⟨info, hi, hid⟩ := keepId_some hk
    obtain ⟨hc, hf⟩ := applySvcWith_calls b skey svc id eps
    have hcls : ∀ c ∈ b.calls, Classified prev (applySvcWith b skey svc id eps) c := by
      intro c hc'
      rcases inv.cls c hc' with h | h
      · exact Or.inl h
      · exact Or.inr (by rw [hf]; exact h)
    refine ⟨by rw [hc]; exact List.nodup_cons.2 ⟨hnew, inv.keys⟩, ?_, ?_, ?_⟩
    · intro c hm; rw [hc] at hm
      rcases List.mem_cons.1 hm with rfl | hm
      · exact ho
      · exact inv.owner c hm
    · intro c hm; rw [hc] at hm
      rcases List.mem_cons.1 hm with rfl | hm
      · exact Or.inl ⟨info, hi, hid⟩
      · exact hcls c hm
    · intro hg
      have hg' : FreshGood n0 b := by unfold FreshGood at *; rw [hf] at hg; exact hg
      rw [hc]
      simp only [List.map_cons, List.nodup_cons]
      refine ⟨?_, inv.ids hg'⟩
      intro hmem
      obtain ⟨c, hcm, hce⟩ := List.mem_map.1 hmem
      rcases inv.cls c hcm with ⟨info', hi', hid'⟩ | hfr
      · have hne : c.1 ≠ skey := fun e => hnew (e ▸ List.mem_map_of_mem hcm)
        exact wf.inj c.1 skey info' info (inv.owner c hcm) ho hi' hi hne (by rw [hid', hid]; exact hce)
      · have := hg'.2 _ hfr
        have := wf.lt skey info ho hi
        omega
  · -- a fresh ID
    obtain ⟨hc, hf⟩ := applySvcWith_calls
      { b with nextId := b.nextId + 1, fresh := (hint.get skey).getD b.nextId :: b.fresh } skey svc
      ((hint.get skey).getD b.nextId) eps
    simp only at hc hf
    refine ⟨by rw [hc]; exact List.nodup_cons.2 ⟨hnew, inv.keys⟩, ?_, ?_, ?_⟩
    · intro c hm; rw [hc] at hm
      rcases List.mem_cons.1 hm with rfl | hm
      · exact ho
      · exact inv.owner c hm
    · intro c hm; rw [hc] at hm
      rcases List.mem_cons.1 hm with rfl | hm
      · exact Or.inr (by rw [hf]; exact List.mem_cons_self ..)
      · rcases inv.cls c hm with h | h
        · exact Or.inl h
        · exact Or.inr (by rw [hf]; exact List.mem_cons_of_mem _ h)
    · intro hg
      unfold FreshGood at hg
      rw [hf] at hg
      have hnd := hg.1
      simp only [List.nodup_cons] at hnd
      have hg' : FreshGood n0 b := ⟨hnd.2, fun i hi => hg.2 i (List.mem_cons_of_mem _ hi)⟩
      rw [hc]
      simp only [List.map_cons, List.nodup_cons]
      refine ⟨?_, inv.ids hg'⟩
      intro hmem
      obtain ⟨c, hcm, hce⟩ := List.mem_map.1 hmem
      rcases inv.cls c hcm with ⟨info', hi', hid'⟩ | hfr
      · have h1 := wf.lt c.1 info' (inv.owner c hcm) hi'
        have h2 := hg.2 _ (List.mem_cons_self ..)
        omega
      · rw [hce] at hfr
        exact hnd.1 hfr

theorem applySvc_calls (prev : AMap SvcKey SvcInfo) (hint : AMap SvcKey Nat) (b : Bld) (skey : SvcKey) (svc : Svc) (eps : List Ep) :
    ∃ id, (applySvc prev hint b skey svc eps).calls = (skey, id, eps) :: b.calls := by
  unfold C42.applySvc
  split
  · exact ⟨_, (applySvcWith_calls _ _ _ _ _).1⟩
  · exact ⟨_, (applySvcWith_calls _ _ _ _ _).1⟩

theorem IdInv.of_eq {prev : AMap SvcKey SvcInfo} {n0 : Nat} {b b' : Bld} (hc : b'.calls = b.calls) (hf : b'.fresh = b.fresh)
    (inv : IdInv prev n0 b) : IdInv prev n0 b' := by
  refine ⟨by rw [hc]; exact inv.keys, by rw [hc]; exact inv.owner, ?_, ?_⟩
  · intro c hm; rw [hc] at hm
    rcases inv.cls c hm with h | h
    · exact Or.inl h
    · exact Or.inr (by rw [hf]; exact h)
  · intro hg; rw [hc]; exact inv.ids (by unfold FreshGood at *; rw [hf] at hg; exact hg)

theorem foldl_calls_eq {α : Type} (f : Bld → α → Bld) (hf : ∀ b a, (f b a).calls = b.calls ∧ (f b a).fresh = b.fresh)
    (l : List α) (b : Bld) : (l.foldl f b).calls = b.calls ∧ (l.foldl f b).fresh = b.fresh := by
  induction l generalizing b with
  | nil => exact ⟨rfl, rfl⟩
  | cons x rest ih =>
    simp only [List.foldl_cons]
    obtain ⟨h1, h2⟩ := ih (f b x)
    obtain ⟨h3, h4⟩ := hf b x
    exact ⟨h1.trans h3, h2.trans h4⟩

theorem npStep_calls (sname : String) (svc : Svc) (b : Bld) (ip : Nat) :
    (npStep sname svc b ip).calls = b.calls ∧ (npStep sname svc b ip).fresh = b.fresh := by
  unfold npStep; split
  · exact ⟨rfl, rfl⟩
  · exact applyDerived_calls _ _ _ _

/-- the derived folds of a service do not call `updateService`. -/
theorem derivedFolds_calls (s : Syncer) (sname : String) (svc : Svc) (b : Bld) :
    (npFold s sname svc (extFold sname svc (lbFold sname svc b))).calls = b.calls ∧
    (npFold s sname svc (extFold sname svc (lbFold sname svc b))).fresh = b.fresh ∧
    (extFold sname svc (lbFold sname svc b)).calls = b.calls ∧
    (extFold sname svc (lbFold sname svc b)).fresh = b.fresh := by
  have h1 := foldl_calls_eq (fun b ip => C42.applyDerived b sname .lb { svc with clusterIP := ip })
    (fun b a => applyDerived_calls _ _ _ _) svc.lbVIPs b
  have h2 := foldl_calls_eq (fun b ip => C42.applyDerived b sname .ext { svc with clusterIP := ip })
    (fun b a => applyDerived_calls _ _ _ _) svc.extIPs (lbFold sname svc b)
  have h3 := foldl_calls_eq (npStep sname svc) (fun b a => npStep_calls sname svc b a) s.npIPs
    (extFold sname svc (lbFold sname svc b))
  exact ⟨h3.1.trans (h2.1.trans h1.1), h3.2.trans (h2.2.trans h1.2), h2.1.trans h1.1, h2.2.trans h1.2⟩

/-- the per-node NodePortRemote expansion: every node once, so every key is new. -/
theorem nprFold_inv {prev : AMap SvcKey SvcInfo} {n0 : Nat} (wf : WFPrev prev n0) (hint : AMap SvcKey Nat)
    (sname : String) (svc : Svc) (names : List String) (hsn : sname ∈ names)
    (l : List (Nat × List Ep)) (hnd : (l.map (·.1)).Nodup) (b : Bld)
    (inv : IdInv prev n0 b) (hn : ∀ c ∈ b.calls, c.1.sname ∈ names)
    (hfree : ∀ c ∈ b.calls, c.1.sname = sname → ∀ n, c.1.extra = .npRemote n → n ∉ l.map (·.1)) :
    IdInv prev n0 (l.foldl (fun b g =>
      C42.applySvc prev hint b ⟨sname, .npRemote g.1⟩ { svc with clusterIP := g.1, port := svc.nodePort } g.2) b) ∧
    ∀ c ∈ (l.foldl (fun b g =>
      C42.applySvc prev hint b ⟨sname, .npRemote g.1⟩ { svc with clusterIP := g.1, port := svc.nodePort } g.2) b).calls,
      c.1.sname ∈ names := by
  induction l generalizing b with
  | nil => exact ⟨inv, hn⟩
  | cons g rest ih =>
    simp only [List.foldl_cons]
    simp only [List.map_cons, List.nodup_cons] at hnd
    have hnew : (⟨sname, .npRemote g.1⟩ : SvcKey) ∉ b.calls.map (·.1) := by
      intro hm
      obtain ⟨c, hc, he⟩ := List.mem_map.1 hm
      exact hfree c hc (by rw [he]) g.1 (by rw [he]) (by simp)
    have inv1 := IdInv.applySvc wf inv hint ⟨sname, .npRemote g.1⟩ { svc with clusterIP := g.1, port := svc.nodePort } g.2
      (Or.inr ⟨g.1, rfl⟩) hnew
    obtain ⟨id, hcalls⟩ := applySvc_calls prev hint b ⟨sname, .npRemote g.1⟩ { svc with clusterIP := g.1, port := svc.nodePort } g.2
    refine ih hnd.2 _ inv1 ?_ ?_
    · intro c hc; rw [hcalls] at hc
      rcases List.mem_cons.1 hc with rfl | hc
      · exact hsn
      · exact hn c hc
    · intro c hc hs n he; rw [hcalls] at hc
      rcases List.mem_cons.1 hc with rfl | hc
      · simp only at he; cases he; exact hnd.1
      · intro hmem; exact hfree c hc hs n he (List.mem_cons_of_mem _ hmem)

/-- one service of the loop. -/
theorem IdInv.applyService {prev : AMap SvcKey SvcInfo} {n0 : Nat} (s : Syncer) (hs : s.prevSvc = prev)
    (wf : WFPrev prev n0) (st : KState) (hint : AMap SvcKey Nat) {b : Bld} (inv : IdInv prev n0 b)
    (names : List String) (hn : ∀ c ∈ b.calls, c.1.sname ∈ names) (sname : String) (svc : Svc) (hfresh : sname ∉ names) :
    IdInv prev n0 (applyService s st hint b sname svc) ∧
    ∀ c ∈ (applyService s st hint b sname svc).calls, c.1.sname ∈ sname :: names := by
  subst hs
  unfold C42.applyService
  generalize epsFor s st sname svc = eps
  have hnew : (⟨sname, .prim⟩ : SvcKey) ∉ b.calls.map (·.1) := by
    intro hm
    obtain ⟨c, hc, he⟩ := List.mem_map.1 hm
    exact hfresh (by have := hn c hc; rw [he] at this; exact this)
  have inv1 := IdInv.applySvc wf inv hint ⟨sname, .prim⟩ svc eps (Or.inl rfl) hnew
  obtain ⟨id, hcalls⟩ := applySvc_calls s.prevSvc hint b ⟨sname, .prim⟩ svc eps
  generalize C42.applySvc s.prevSvc hint b ⟨sname, .prim⟩ svc eps = b1 at inv1 hcalls
  have hn1 : ∀ c ∈ b1.calls, c.1.sname ∈ sname :: names := by
    intro c hc; rw [hcalls] at hc
    rcases List.mem_cons.1 hc with rfl | hc
    · exact List.mem_cons_self ..
    · exact List.mem_cons_of_mem _ (hn c hc)
  obtain ⟨d1, d2, d3, d4⟩ := derivedFolds_calls s sname svc b1
  rw [applyRest_eq]
  split
  · split
    · -- NodePortRemote expansion
      have inv2 : IdInv s.prevSvc n0 (npFold s sname svc (extFold sname svc (lbFold sname svc b1))) := inv1.of_eq d1 d2
      have hcalls2 : (npFold s sname svc (extFold sname svc (lbFold sname svc b1))).calls = (⟨sname, .prim⟩, id, eps) :: b.calls := by
        rw [d1, hcalls]
      exact nprFold_inv wf hint sname svc (sname :: names) (List.mem_cons_self ..)
        (expandNodePorts s.routes eps) (expandNodePorts_nodup _ _) _ inv2
        (by rw [d1]; exact hn1)
        (by
          intro c hc hsn n he
          rw [hcalls2] at hc
          rcases List.mem_cons.1 hc with rfl | hc
          · simp at he
          · exact absurd (hsn ▸ hn c hc) hfresh)
    · exact ⟨inv1.of_eq d1 d2, by rw [d1]; exact hn1⟩
  · exact ⟨inv1.of_eq d3 d4, by rw [d3]; exact hn1⟩

theorem buildDesired_idInv (s : Syncer) (wf : WFPrev s.prevSvc s.nextId) (st : KState) (hint : AMap SvcKey Nat)
    (hnames : (st.svcs.map (·.1)).Nodup) : IdInv s.prevSvc s.nextId (buildDesired s st hint) := by
  have key : ∀ (l : List (String × Svc)) (names : List String) (b : Bld), (l.map (·.1)).Nodup →
      (∀ p ∈ l, p.1 ∉ names) → IdInv s.prevSvc s.nextId b → (∀ c ∈ b.calls, c.1.sname ∈ names) →
      IdInv s.prevSvc s.nextId (l.foldl (fun b p => applyService s st hint b p.1 p.2) b) := by
    intro l
    induction l with
    | nil => intro _ _ _ _ inv _; exact inv
    | cons p rest ih =>
      intro names b hnd hdis inv hn
      simp only [List.foldl_cons]
      simp only [List.map_cons, List.nodup_cons] at hnd
      obtain ⟨i1, n1⟩ := IdInv.applyService s rfl wf st hint inv names hn p.1 p.2 (hdis p (List.mem_cons_self ..))
      refine ih (p.1 :: names) _ hnd.2 ?_ i1 n1
      intro q hq
      simp only [List.mem_cons, not_or]
      exact ⟨fun e => hnd.1 (List.mem_map.2 ⟨q, hq, e⟩), hdis q (List.mem_cons_of_mem _ hq)⟩
  have inv := key st.svcs [] _ hnames (fun _ _ => by simp)
    (⟨by simp, fun _ h => by simp at h, fun _ h => by simp at h, fun _ => by simp⟩ :
      IdInv s.prevSvc s.nextId { des := ⟨[], []⟩, newSvc := [], newEps := [], nextId := s.nextId, fresh := [], calls := [], fwrites := [] })
    (fun _ h => by simp at h)
  exact inv

/-! ### The bookkeeping stays well formed from sync to sync -/

/-- builder facts needed to hand the bookkeeping to the next sync. -/
structure NextInv (n0 : Nat) (b : Bld) : Prop where
  nid : b.nextId = n0 + b.fresh.length
  own : ∀ sk info, Owner sk → b.newSvc.get sk = some info → ∃ eps, (sk, info.id, eps) ∈ b.calls

theorem NextInv.applySvcWith {n0 : Nat} {b : Bld} (inv : NextInv n0 b) (skey : SvcKey) (svc : Svc) (id : Nat) (eps : List Ep) :
    NextInv n0 (C42.applySvcWith b skey svc id eps) := by
  obtain ⟨hc, hf⟩ := applySvcWith_calls b skey svc id eps
  have hnid : (C42.applySvcWith b skey svc id eps).nextId = b.nextId := by
    unfold C42.applySvcWith updateService writeSvc; cases skey.extra <;> rfl
  have hns : (C42.applySvcWith b skey svc id eps).newSvc = b.newSvc.set skey ⟨id, (readyOrdered eps).length, localReady eps, svc⟩ := by
    unfold C42.applySvcWith updateService writeSvc
    cases skey.extra <;> rfl
  refine ⟨by rw [hnid, hf]; exact inv.nid, ?_⟩
  intro sk info ho hg
  rw [hns, AMap.get_set] at hg
  rw [hc]
  split at hg
  · rename_i e; cases hg; subst e; exact ⟨eps, List.mem_cons_self ..⟩
  · obtain ⟨eps', h⟩ := inv.own sk info ho hg
    exact ⟨eps', List.mem_cons_of_mem _ h⟩

theorem NextInv.applySvc {n0 : Nat} {b : Bld} (inv : NextInv n0 b) (prev : AMap SvcKey SvcInfo) (hint : AMap SvcKey Nat)
    (skey : SvcKey) (svc : Svc) (eps : List Ep) : NextInv n0 (C42.applySvc prev hint b skey svc eps) := by
  unfold C42.applySvc
  split
  · exact inv.applySvcWith _ _ _ _
  · have inv' : NextInv n0 { b with nextId := b.nextId + 1, fresh := (hint.get skey).getD b.nextId :: b.fresh } :=
      ⟨by simp only [List.length_cons]; have := inv.nid; omega, inv.own⟩
    exact inv'.applySvcWith _ _ _ _

theorem NextInv.applyDerived {n0 : Nat} {b : Bld} (inv : NextInv n0 b) (sname : String) (t : DType) (sinfo : Svc) :
    NextInv n0 (C42.applyDerived b sname t sinfo) := by
  obtain ⟨hc, hf⟩ := applyDerived_calls b sname t sinfo
  have hnid : (C42.applyDerived b sname t sinfo).nextId = b.nextId := by
    unfold C42.applyDerived
    split
    · rfl
    · simp only []; split
      · unfold writeLBSrc; simp only []; split <;> rfl
      · unfold writeSvc; rfl
  refine ⟨by rw [hnid, hf]; exact inv.nid, ?_⟩
  intro sk info ho hg
  rw [hc]
  unfold C42.applyDerived at hg
  split at hg
  · exact inv.own sk info ho hg
  · rename_i p hp
    simp only [] at hg
    have hne : sk ≠ ⟨sname, t.extra sinfo.clusterIP⟩ := by
      intro e; subst e
      rcases ho with h | ⟨n, h⟩ <;> cases t <;> simp [DType.extra] at h
    split at hg
    · rw [AMap.get_set_ne _ _ hne] at hg
      have : (writeLBSrc b sinfo p.id p.count p.lcl (derivedFlags t sinfo)).newSvc = b.newSvc := by
        unfold writeLBSrc; simp only []; split <;> rfl
      rw [this] at hg; exact inv.own sk info ho hg
    · rw [AMap.get_set_ne _ _ hne] at hg
      have : (writeSvc b sinfo p.id p.count p.lcl (derivedFlags t sinfo)).newSvc = b.newSvc := by
        unfold writeSvc; rfl
      rw [this] at hg; exact inv.own sk info ho hg

theorem foldl_next {α : Type} {n0 : Nat} (f : Bld → α → Bld) (hf : ∀ b a, NextInv n0 b → NextInv n0 (f b a)) (l : List α) (b : Bld)
    (h : NextInv n0 b) : NextInv n0 (l.foldl f b) := by
  induction l generalizing b with
  | nil => exact h
  | cons a l ih => exact ih _ (hf b a h)

theorem NextInv.buildDesired (s : Syncer) (st : KState) (hint : AMap SvcKey Nat) :
    NextInv s.nextId (C42.buildDesired s st hint) := by
  unfold C42.buildDesired
  apply foldl_next
  · intro b p hb
    unfold applyService
    rw [applyRest_eq]
    have h1 := NextInv.applySvc hb s.prevSvc hint ⟨p.1, .prim⟩ p.2 (epsFor s st p.1 p.2)
    have h2 : NextInv s.nextId (extFold p.1 p.2 (lbFold p.1 p.2 _)) :=
      foldl_next _ (fun b a hb => hb.applyDerived _ _ _) _ _ (foldl_next _ (fun b a hb => hb.applyDerived _ _ _) _ _ h1)
    have h3 : NextInv s.nextId (npFold s p.1 p.2 (extFold p.1 p.2 (lbFold p.1 p.2 _))) :=
      foldl_next _ (fun b a hb => by unfold npStep; split; exact hb; exact hb.applyDerived _ _ _) _ _ h2
    split
    · split
      · exact foldl_next _ (fun b g hb => hb.applySvc _ _ _ _ _) _ _ h3
      · exact h3
    · exact h2
  · exact ⟨by simp, fun _ _ _ h => by simp [AMap.get] at h⟩

theorem freshGood_of_freshOk {n0 : Nat} {b : Bld} (h : freshOk n0 b.fresh = true) :
    b.fresh.Nodup ∧ ∀ i ∈ b.fresh, n0 ≤ i ∧ i < n0 + b.fresh.length := by
  unfold freshOk at h
  simp only [Bool.and_eq_true, List.all_eq_true, decide_eq_true_eq] at h
  exact ⟨h.2, fun i hi => h.1 i hi⟩

theorem nodup_map_inj {α β : Type} {f : α → β} {l : List α} (h : (l.map f).Nodup) {a b : α}
    (ha : a ∈ l) (hb : b ∈ l) (e : f a = f b) : a = b := by
  induction l with
  | nil => simp at ha
  | cons x rest ih =>
    simp only [List.map_cons, List.nodup_cons] at h
    rcases List.mem_cons.1 ha with ha1 | ha1
    · rcases List.mem_cons.1 hb with hb1 | hb1
      · rw [ha1, hb1]
      · exact absurd (by rw [← ha1, e]; exact List.mem_map_of_mem hb1) h.1
    · rcases List.mem_cons.1 hb with hb1 | hb1
      · exact absurd (by rw [← hb1, ← e]; exact List.mem_map_of_mem ha1) h.1
      · exact ih h.2 ha1 hb1

/-! ## Start-up: the adopted bookkeeping is well formed -/

theorem foldl_max_ge (fes : List (SvcKey × FVal)) (n : Nat) :
    n ≤ fes.foldl (fun n fe => if fe.2.id ≥ n then fe.2.id + 1 else n) n ∧
    ∀ fe ∈ fes, fe.2.id < fes.foldl (fun n fe => if fe.2.id ≥ n then fe.2.id + 1 else n) n := by
  induction fes generalizing n with
  | nil => exact ⟨Nat.le_refl _, fun _ h => by simp at h⟩
  | cons x rest ih =>
    simp only [List.foldl_cons]
    by_cases hx : x.2.id ≥ n
    · simp only [hx, if_true]
      obtain ⟨h1, h2⟩ := ih (x.2.id + 1)
      refine ⟨by omega, ?_⟩
      intro fe hfe
      rcases List.mem_cons.1 hfe with rfl | hfe
      · omega
      · exact h2 fe hfe
    · simp only [hx, if_false]
      obtain ⟨h1, h2⟩ := ih n
      refine ⟨h1, ?_⟩
      intro fe hfe
      rcases List.mem_cons.1 hfe with rfl | hfe
      · omega
      · exact h2 fe hfe

/-- an entry of the adopted `prevSvcMap` comes from a kept frontend (or was there before). -/
theorem adopt_get (svcs : List (String × Svc)) (kept : List (SvcKey × FVal)) (m0 : AMap SvcKey SvcInfo)
    (sk : SvcKey) (info : SvcInfo)
    (h : (kept.foldl (fun m fe =>
      match svcs.find? (fun p => p.1 == fe.1.sname) with
      | none => m
      | some p => m.set fe.1 { id := fe.2.id, count := fe.2.count, lcl := fe.2.lcl, svc := p.2 }) m0).get sk = some info) :
    m0.get sk = some info ∨ ∃ fe ∈ kept, fe.1 = sk ∧ info.id = fe.2.id := by
  induction kept generalizing m0 with
  | nil => exact Or.inl h
  | cons x rest ih =>
    simp only [List.foldl_cons] at h
    rcases ih _ h with h1 | ⟨fe, hfe, h2⟩
    · split at h1
      · exact Or.inl h1
      · rw [AMap.get_set] at h1
        split at h1
        · rename_i e; cases h1
          exact Or.inr ⟨x, List.mem_cons_self .., e.symm, rfl⟩
        · exact Or.inl h1
    · exact Or.inr ⟨fe, List.mem_cons_of_mem _ hfe, h2⟩

theorem matchBpfSvc_extra {np : List Nat} {key : FKey} {sname : String} {svc : Svc} {sk : SvcKey}
    (h : matchBpfSvc np key sname svc = some sk) (n : Nat) : sk.extra ≠ .npRemote n := by
  unfold matchBpfSvc at h
  simp only [] at h
  intro he
  repeat' split at h
  all_goals first
    | (cases h; cases he)
    | (simp only [Option.map_eq_some_iff] at h; obtain ⟨a, _, rfl⟩ := h; cases he)
    | (cases h)

theorem matched_extra {np : List Nat} {svcs : List (String × Svc)} {F : AMap FKey FVal} {fe : SvcKey × FVal}
    (h : fe ∈ matchedFrontends np svcs F) (n : Nat) : fe.1.extra ≠ .npRemote n := by
  unfold matchedFrontends at h
  obtain ⟨kv, _, hkv⟩ := List.mem_filterMap.1 h
  split at hkv
  · cases hkv
  · rename_i sname svc _
    simp only [Option.map_eq_some_iff] at hkv
    obtain ⟨sk, hsk, rfl⟩ := hkv
    exact matchBpfSvc_extra hsk n

/-! ## The desired maps contain nothing but the current services' entries -/

/-- "frontend key `k` belongs to service `svc`": its protocol, and either its port with the cluster IP, an
external IP or a LoadBalancer VIP, or its node port (on any address: local node-port addresses and the
per-node NodePortRemote frontends).  Source-range keys belong to the service whose address they carry. -/
def KeyOf (svc : Svc) (k : FKey) : Prop :=
  k.proto = svc.proto ∧
  ((k.port = svc.port ∧ (k.ip = svc.clusterIP ∨ k.ip ∈ svc.extIPs ∨ k.ip ∈ svc.lbVIPs)) ∨
   (svc.nodePort ≠ 0 ∧ k.port = svc.nodePort))

theorem foldl_set_isSome {ks : List FKey} {v : FVal} {F : AMap FKey FVal} {k : FKey}
    (h : ((ks.foldl (fun F k => F.set k v) F).get k).isSome) : (F.get k).isSome ∨ k ∈ ks := by
  induction ks generalizing F with
  | nil => exact Or.inl h
  | cons x rest ih =>
    simp only [List.foldl_cons] at h
    rcases ih h with h1 | h1
    · rw [AMap.get_set] at h1
      split at h1
      · rename_i e; exact Or.inr (e ▸ List.mem_cons_self ..)
      · exact Or.inl h1
    · exact Or.inr (List.mem_cons_of_mem _ h1)

/-- every desired frontend key was `Set` during this sync. -/
def FK (b : Bld) : Prop := ∀ k, (b.des.F.get k).isSome → ∃ w ∈ b.fwrites, w.1 = k

theorem FK_pres : Pres FK := by
  constructor
  · intro b svc id c l f h k hk
    unfold C42.writeSvc at hk ⊢
    simp only [AMap.get_set] at hk
    split at hk
    · rename_i e; exact ⟨_, List.mem_cons_self .., e.symm⟩
    · obtain ⟨w, hw, he⟩ := h k hk
      exact ⟨w, List.mem_cons_of_mem _ hw, he⟩
  · intro b svc id c l f h k hk
    unfold C42.writeLBSrc at hk ⊢
    simp only [] at hk ⊢
    have base : ∀ k, ((List.foldl (fun F k => F.set k ⟨id, c, l, affOf svc, f⟩) b.des.F (srcKeys svc)).get k).isSome →
        ∃ w ∈ ((srcKeys svc).map (fun k => (k, (⟨id, c, l, affOf svc, f⟩ : FVal)))).reverse ++ b.fwrites, w.1 = k := by
      intro k hk
      rcases foldl_set_isSome hk with h1 | h1
      · obtain ⟨w, hw, he⟩ := h k h1
        exact ⟨w, List.mem_append_right _ hw, he⟩
      · exact ⟨(k, _), List.mem_append_left _ (List.mem_reverse.2 (List.mem_map.2 ⟨k, h1, rfl⟩)), rfl⟩
    split at hk
    · rename_i hc; simp only [hc, if_true]; exact base k hk
    · rename_i hc
      simp only [hc, if_false, Bool.false_eq_true]
      simp only [AMap.get_set] at hk
      split at hk
      · rename_i e; exact ⟨_, List.mem_cons_self .., e.symm⟩
      · obtain ⟨w, hw, he⟩ := base k hk
        exact ⟨w, List.mem_cons_of_mem _ hw, he⟩
  · intro b skey id eps h; exact h
  · intro b _ _ _ _ h; exact h

def Owned (svcs : List (String × Svc)) (k : FKey) : Prop := ∃ p ∈ svcs, KeyOf p.2 k

/-- every key carrying `sinfo`'s address, port and protocol belongs to a current service. -/
def OV (svcs : List (String × Svc)) (sinfo : Svc) : Prop :=
  ∀ k : FKey, k.ip = sinfo.clusterIP → k.port = sinfo.port → k.proto = sinfo.proto → Owned svcs k

/-- every frontend `Set` of this sync is for a key of a current service. -/
def QO (svcs : List (String × Svc)) (b : Bld) : Prop := ∀ w ∈ b.fwrites, Owned svcs w.1

theorem QO.writeSvc {svcs : List (String × Svc)} {b : Bld} (h : QO svcs b) (sinfo : Svc) (ov : OV svcs sinfo) (id c l f : Nat) :
    QO svcs (C42.writeSvc b sinfo id c l f) := by
  intro w hw
  unfold C42.writeSvc at hw
  rcases List.mem_cons.1 hw with rfl | hw
  · exact ov _ rfl rfl rfl
  · exact h w hw

theorem QO.writeLBSrc {svcs : List (String × Svc)} {b : Bld} (h : QO svcs b) (sinfo : Svc) (ov : OV svcs sinfo) (id c l f : Nat) :
    QO svcs (C42.writeLBSrc b sinfo id c l f) := by
  have hsrc : ∀ w ∈ ((srcKeys sinfo).map (fun k => (k, (⟨id, c, l, affOf sinfo, f⟩ : FVal)))).reverse ++ b.fwrites, Owned svcs w.1 := by
    intro w hw
    rcases List.mem_append.1 hw with hw | hw
    · obtain ⟨k, hk, rfl⟩ := List.mem_map.1 (List.mem_reverse.1 hw)
      unfold srcKeys at hk
      obtain ⟨r, _, rfl⟩ := List.mem_map.1 hk
      exact ov _ rfl rfl rfl
    · exact h w hw
  intro w hw
  unfold C42.writeLBSrc at hw
  simp only [] at hw
  split at hw
  · exact hsrc w hw
  · rcases List.mem_cons.1 hw with rfl | hw
    · exact ov _ rfl rfl rfl
    · exact hsrc w hw

theorem QO.applySvc {svcs : List (String × Svc)} {b : Bld} (h : QO svcs b) (prev : AMap SvcKey SvcInfo) (hint : AMap SvcKey Nat)
    (skey : SvcKey) (sinfo : Svc) (ov : OV svcs sinfo) (eps : List Ep) : QO svcs (C42.applySvc prev hint b skey sinfo eps) := by
  have key : ∀ (b : Bld) id, QO svcs b → QO svcs (C42.applySvcWith b skey sinfo id eps) := by
    intro b id hb
    have h1 : QO svcs { b with des := { b.des with B := writeBackends b.des.B id 0 (readyOrdered eps) }, calls := (skey, id, eps) :: b.calls } := hb
    have h2 := QO.writeSvc h1 sinfo ov id (readyOrdered eps).length (localReady eps) (if sinfo.intLocal then flgInternalLocal else 0)
    unfold C42.applySvcWith C42.updateService
    cases skey.extra <;> exact h2
  unfold C42.applySvc
  split
  · exact key _ _ h
  · exact key _ _ h

theorem QO.applyDerived {svcs : List (String × Svc)} {b : Bld} (h : QO svcs b) (sname : String) (t : DType) (sinfo : Svc)
    (ov : OV svcs sinfo) : QO svcs (C42.applyDerived b sname t sinfo) := by
  unfold C42.applyDerived
  split
  · exact h
  · simp only []
    split
    · exact QO.writeLBSrc h sinfo ov _ _ _ _
    · exact QO.writeSvc h sinfo ov _ _ _ _

theorem foldl_QO {α : Type} {svcs : List (String × Svc)} (f : Bld → α → Bld) (l : List α)
    (hf : ∀ b a, a ∈ l → QO svcs b → QO svcs (f b a)) (b : Bld) (h : QO svcs b) : QO svcs (l.foldl f b) := by
  induction l generalizing b with
  | nil => exact h
  | cons a l ih =>
    exact ih (fun b x hx hb => hf b x (List.mem_cons_of_mem _ hx) hb) _ (hf b a (List.mem_cons_self ..) h)

theorem QO.lbFold {svcs : List (String × Svc)} {b : Bld} (h1 : QO svcs b) (sname : String) (svc : Svc)
    (hm : (sname, svc) ∈ svcs) : QO svcs (lbFold sname svc b) := by
  unfold C42.lbFold
  exact foldl_QO (fun b ip => C42.applyDerived b sname .lb { svc with clusterIP := ip }) svc.lbVIPs
    (fun b ip hip hb => QO.applyDerived hb sname .lb { svc with clusterIP := ip }
      (fun k a1 a2 a3 => ⟨(sname, svc), hm, a3, Or.inl ⟨a2, Or.inr (Or.inr (by rw [a1]; exact hip))⟩⟩)) _ h1

theorem QO.extFold {svcs : List (String × Svc)} {b : Bld} (h1 : QO svcs b) (sname : String) (svc : Svc)
    (hm : (sname, svc) ∈ svcs) : QO svcs (extFold sname svc b) := by
  unfold C42.extFold
  exact foldl_QO (fun b ip => C42.applyDerived b sname .ext { svc with clusterIP := ip }) svc.extIPs
    (fun b ip hip hb => QO.applyDerived hb sname .ext { svc with clusterIP := ip }
      (fun k a1 a2 a3 => ⟨(sname, svc), hm, a3, Or.inl ⟨a2, Or.inr (Or.inl (by rw [a1]; exact hip))⟩⟩)) _ h1

theorem ovNP {svcs : List (String × Svc)} (sname : String) (svc : Svc) (hm : (sname, svc) ∈ svcs) (hnz : svc.nodePort ≠ 0)
    (ip : Nat) : OV svcs { svc with clusterIP := ip, port := svc.nodePort } :=
  fun _ _ a2 a3 => ⟨(sname, svc), hm, a3, Or.inr ⟨hnz, a2⟩⟩

theorem QO.npFold {svcs : List (String × Svc)} {b : Bld} (h1 : QO svcs b) (s : Syncer) (sname : String) (svc : Svc)
    (hm : (sname, svc) ∈ svcs) (hnz : svc.nodePort ≠ 0) : QO svcs (npFold s sname svc b) := by
  unfold C42.npFold
  refine foldl_QO (npStep sname svc) s.npIPs (fun b ip _ hb => ?_) _ h1
  unfold npStep
  split
  · exact hb
  · exact QO.applyDerived hb sname .np { svc with clusterIP := ip, port := svc.nodePort } (ovNP sname svc hm hnz ip)

theorem QO.nprFold {svcs : List (String × Svc)} {b : Bld} (h1 : QO svcs b) (s : Syncer) (hint : AMap SvcKey Nat)
    (sname : String) (svc : Svc) (eps : List Ep) (hm : (sname, svc) ∈ svcs) (hnz : svc.nodePort ≠ 0) :
    QO svcs (nprFold s hint sname svc eps b) := by
  unfold C42.nprFold
  refine foldl_QO _ (expandNodePorts s.routes eps) (fun b g _ hb => ?_) _ h1
  exact QO.applySvc hb s.prevSvc hint ⟨sname, .npRemote g.1⟩ { svc with clusterIP := g.1, port := svc.nodePort }
    (ovNP sname svc hm hnz g.1) g.2

theorem QO.applyRest {svcs : List (String × Svc)} {b : Bld} (h1 : QO svcs b) (s : Syncer) (hint : AMap SvcKey Nat)
    (sname : String) (svc : Svc) (eps : List Ep) (hm : (sname, svc) ∈ svcs) :
    QO svcs (C42.applyRest s hint b sname svc eps) := by
  have h3 := QO.extFold (QO.lbFold h1 sname svc hm) sname svc hm
  rw [applyRest_eq]
  by_cases hnz : (svc.nodePort != 0) = true
  · have hnz' : svc.nodePort ≠ 0 := by simpa using hnz
    have h4 := QO.npFold h3 s sname svc hm hnz'
    by_cases hil : svc.intLocal = true
    · simp only [hnz, hil, if_true]; exact QO.nprFold h4 s hint sname svc eps hm hnz'
    · simp only [hnz, hil, if_true, if_false, Bool.false_eq_true]; exact h4
  · simp only [hnz, if_false, Bool.false_eq_true]; exact h3

theorem QO.applyService {svcs : List (String × Svc)} {b : Bld} (h : QO svcs b) (s : Syncer) (st : KState) (hint : AMap SvcKey Nat)
    (sname : String) (svc : Svc) (hm : (sname, svc) ∈ svcs) : QO svcs (C42.applyService s st hint b sname svc) := by
  have ovP : OV svcs svc := fun k h1 h2 h3 => ⟨(sname, svc), hm, h3, Or.inl ⟨h2, Or.inl h1⟩⟩
  unfold C42.applyService
  exact QO.applyRest (QO.applySvc h s.prevSvc hint ⟨sname, .prim⟩ svc ovP _) s hint sname svc _ hm

theorem QO.buildDesired (s : Syncer) (st : KState) (hint : AMap SvcKey Nat) : QO st.svcs (C42.buildDesired s st hint) := by
  unfold C42.buildDesired
  exact foldl_QO _ st.svcs (fun b p hp hb => QO.applyService hb s st hint p.1 p.2 hp) _ (fun _ h => by simp at h)

/-! ### … and no stale backend -/

theorem writeBackends_isSome_inv (B : AMap BKey BVal) (id start : Nat) (l : List Ep) (k : BKey)
    (h : ((writeBackends B id start l).get k).isSome) :
    (B.get k).isSome ∨ (k.id = id ∧ start ≤ k.idx ∧ k.idx < start + l.length) := by
  induction l generalizing B start with
  | nil => exact Or.inl h
  | cons e rest ih =>
    simp only [writeBackends] at h
    rcases ih _ _ h with h1 | ⟨h1, h2, h3⟩
    · rw [AMap.get_set] at h1
      split at h1
      · rename_i e'; subst e'; exact Or.inr ⟨rfl, Nat.le_refl _, by simp⟩
      · exact Or.inl h1
    · exact Or.inr ⟨h1, by omega, by simp only [List.length_cons]; omega⟩

/-- every desired backend entry lies in the block of an `updateService` call of this sync. -/
def BK (b : Bld) : Prop :=
  ∀ k, (b.des.B.get k).isSome → ∃ c ∈ b.calls, c.2.1 = k.id ∧ k.idx < (readyOrdered c.2.2).length

theorem BK_pres : Pres BK := by
  constructor
  · intro b svc id c l f h k hk
    rw [writeSvc_B] at hk
    have e1 : (C42.writeSvc b svc id c l f).calls = b.calls := by unfold C42.writeSvc; rfl
    rw [e1]; exact h k hk
  · intro b svc id c l f h k hk
    rw [writeLBSrc_B] at hk
    have e1 : (C42.writeLBSrc b svc id c l f).calls = b.calls := by
      unfold C42.writeLBSrc; simp only []; split <;> rfl
    rw [e1]; exact h k hk
  · intro b skey id eps h k hk
    rcases writeBackends_isSome_inv _ _ _ _ _ hk with h1 | ⟨h1, _, h3⟩
    · obtain ⟨c, hc, hh⟩ := h k h1
      exact ⟨c, List.mem_cons_of_mem _ hc, hh⟩
    · exact ⟨(skey, id, eps), List.mem_cons_self .., h1.symm, by simpa using h3⟩
  · intro b _ _ _ _ h; exact h

/-- like `Pres`, with `updateService` as one step (for invariants that relate its two halves). -/
structure Pres2 (P : Bld → Prop) : Prop where
  writeSvc : ∀ b svc id c l f, P b → P (writeSvc b svc id c l f)
  writeLBSrc : ∀ b svc id c l f, P b → P (writeLBSrc b svc id c l f)
  updsvc : ∀ b skey svc id eps, P b → P (updateService b skey svc id eps).1
  book : ∀ (b : Bld) newSvc newEps nextId fresh, P b → P { b with newSvc, newEps, nextId, fresh }

theorem Pres2.buildDesired {P : Bld → Prop} (hp : Pres2 P) (s : Syncer) (st : KState) (hint : AMap SvcKey Nat)
    (h0 : P { des := ⟨[], []⟩, newSvc := [], newEps := [], nextId := s.nextId, fresh := [], calls := [], fwrites := [] }) :
    P (C42.buildDesired s st hint) := by
  have hSvc : ∀ b prev skey svc eps, P b → P (C42.applySvc prev hint b skey svc eps) := by
    intro b prev skey svc eps hb
    unfold C42.applySvc C42.applySvcWith
    split
    · exact hp.book _ _ _ _ _ (hp.updsvc _ _ _ _ _ hb)
    · exact hp.book _ _ _ _ _ (hp.updsvc _ _ _ _ _ (hp.book b b.newSvc b.newEps _ _ hb))
  have hDer : ∀ b sname t sinfo, P b → P (C42.applyDerived b sname t sinfo) := by
    intro b sname t sinfo hb
    unfold C42.applyDerived
    split
    · exact hb
    · simp only []
      split
      · exact hp.book _ _ _ _ _ (hp.writeLBSrc _ _ _ _ _ _ hb)
      · exact hp.book _ _ _ _ _ (hp.writeSvc _ _ _ _ _ _ hb)
  have hRest : ∀ b sname svc eps, P b → P (C42.applyRest s hint b sname svc eps) := by
    intro b sname svc eps hb
    rw [applyRest_eq]
    have h3 : P (extFold sname svc (lbFold sname svc b)) := by
      unfold extFold lbFold
      exact foldl_pres (P := P) _ (fun b a hb => hDer _ _ _ _ hb) _ _ (foldl_pres (P := P) _ (fun b a hb => hDer _ _ _ _ hb) _ _ hb)
    have h4 : P (npFold s sname svc (extFold sname svc (lbFold sname svc b))) := by
      unfold npFold
      exact foldl_pres (P := P) _ (fun b a hb => by unfold npStep; split; exact hb; exact hDer _ _ _ _ hb) _ _ h3
    by_cases hnz : (svc.nodePort != 0) = true
    · by_cases hil : svc.intLocal = true
      · simp only [hnz, hil, if_true]
        unfold nprFold
        exact foldl_pres (P := P) _ (fun b g hb => hSvc _ _ _ _ _ hb) _ _ h4
      · simp only [hnz, hil, if_true, if_false, Bool.false_eq_true]; exact h4
    · simp only [hnz, if_false, Bool.false_eq_true]; exact h3
  unfold C42.buildDesired
  refine foldl_pres (P := P) _ (fun b p hb => ?_) _ _ h0
  unfold C42.applyService
  exact hRest _ _ _ _ (hSvc _ _ _ _ _ hb)

/-- every `updateService` call of this sync is followed by a frontend `Set` with its ID and count. -/
def CF (b : Bld) : Prop :=
  ∀ c ∈ b.calls, ∃ w ∈ b.fwrites, w.2.id = c.2.1 ∧ w.2.count = (readyOrdered c.2.2).length

theorem CF_pres2 : Pres2 CF := by
  constructor
  · intro b svc id c l f h cc hc
    have e1 : (C42.writeSvc b svc id c l f).calls = b.calls := by unfold C42.writeSvc; rfl
    rw [e1] at hc
    obtain ⟨w, hw, hh⟩ := h cc hc
    exact ⟨w, (memw_pres w).writeSvc _ _ _ _ _ _ hw, hh⟩
  · intro b svc id c l f h cc hc
    have e1 : (C42.writeLBSrc b svc id c l f).calls = b.calls := by
      unfold C42.writeLBSrc; simp only []; split <;> rfl
    rw [e1] at hc
    obtain ⟨w, hw, hh⟩ := h cc hc
    exact ⟨w, (memw_pres w).writeLBSrc _ _ _ _ _ _ hw, hh⟩
  · intro b skey svc id eps h cc hc
    have hcalls : (C42.updateService b skey svc id eps).1.calls = (skey, id, eps) :: b.calls := by
      unfold C42.updateService C42.writeSvc; cases skey.extra <;> rfl
    have hfw : ∃ v : FVal, (C42.updateService b skey svc id eps).1.fwrites = (zeroKey svc, v) :: b.fwrites ∧ v.id = id ∧
        v.count = (readyOrdered eps).length := by
      unfold C42.updateService C42.writeSvc; cases skey.extra <;> exact ⟨_, rfl, rfl, rfl⟩
    obtain ⟨v, hf, hv1, hv2⟩ := hfw
    rw [hcalls] at hc
    rw [hf]
    rcases List.mem_cons.1 hc with rfl | hc
    · exact ⟨(zeroKey svc, v), List.mem_cons_self .., hv1, hv2⟩
    · obtain ⟨w, hw, hh⟩ := h cc hc
      exact ⟨w, List.mem_cons_of_mem _ hw, hh⟩
  · intro b _ _ _ _ h; exact h

end CalicoVerif.C42
