import CalicoVerif.Model.C12
/-!
C12 — helper lemmas: on rules whose only criteria are protocol / not-protocol, the
app-policy checker's match function agrees with the reference `ruleMatch`; hence the
checker's rule / policy / tier / profile loops compute the reference decision.
-/
namespace CalicoVerif.C12
open CalicoVerif.C11

/-- A rule whose only criteria are protocol / not-protocol (and no IP-version restriction). -/
def ProtoOnly (r : Rule) : Prop :=
  r = { action := r.action, matchID := r.matchID, protocol := r.protocol, notProtocol := r.notProtocol }

theorem filterRule_protoOnly (v6 : Bool) (r : Rule) (h : ProtoOnly r) : filterRule v6 r = some r := by
  unfold ProtoOnly at h
  rw [h]
  simp [filterRule, filterNets]

theorem stringToProto_ref (s : String) :
    stringToProto s = (match protoNumberRef (.name s) with | some k => some (Int.ofNat k) | none => none) := by
  unfold stringToProto protoNumberRef
  simp only
  generalize asciiLower s = l
  by_cases h1 : l = "icmp" <;> by_cases h2 : l = "icmpv6" <;> by_cases h3 : l = "tcp" <;> by_cases h4 : l = "udp" <;>
    by_cases h5 : l = "udplite" <;> by_cases h6 : l = "sctp" <;> simp_all

theorem checkProto_none (n : Int) (dflt : Bool) : checkProto none n dflt = dflt := rfl

/-- `checkStringInRuleProtocol` against the reference `protoIs`, for a packet protocol `n ∈ 1..255`. -/
theorem checkProto_some (p : Pkt) (n : Nat) (hn : 1 ≤ n) (hp : p.proto.toNat = n) (pr : Proto) (dflt : Bool) :
    checkProto (some pr) (n : Int) dflt = protoIs p pr := by
  have hn255 : n ≤ 255 := by have := p.proto.isLt; omega
  cases pr with
  | num k =>
    simp only [checkProto, protoIs, protoNumberRef, hp]
    by_cases e : k = (n : Int)
    · subst e
      have hk : (0 : Int) ≤ (n : Int) ∧ (n : Int) ≤ 255 := by omega
      simp [hk]
    · have h1 : (k == (n : Int)) = false := by simpa using e
      rw [h1]
      by_cases hk : 0 ≤ k ∧ k ≤ 255
      · simp only [hk, and_self, if_true]
        have : ¬ (n = k.toNat) := by omega
        simp [this]
      · simp [hk]
  | name s =>
    simp only [checkProto, protoIs, hp]
    by_cases hs : s = ""
    · subst hs
      have : protoNumberRef (.name "") = none := by decide
      rw [this]
      have h0 : ((0 : Int) == (n : Int)) = false := by
        have : ¬ ((0 : Int) = (n : Int)) := by omega
        simpa using this
      simp [h0]
    · have hs' : (s == "") = false := by simpa using hs
      simp only [hs', Bool.false_eq_true, if_false, stringToProto_ref]
      cases protoNumberRef (.name s) with
      | none => rfl
      | some k =>
        simp only [Int.ofNat_eq_natCast]
        by_cases e : k = n
        · subst e; simp
        · have h1 : (((k : Nat) : Int) == (n : Int)) = false := by
            have : ¬ (((k : Nat) : Int) = (n : Int)) := by omega
            simpa using this
          have h2 : (n == k) = false := by
            have : ¬ (n = k) := fun h => e h.symm
            simpa using this
          rw [h1, h2]

/-- The checker's match = the reference match, on protocol-only rules. -/
theorem match_protoOnly (env : Env) (p : Pkt) (n : Nat) (hn : 1 ≤ n) (hp : p.proto.toNat = n) (r : Rule)
    (h : ProtoOnly r) : ruleMatch env p .dest r = matchL4Protocol r (n : Int) := by
  have hn255 : n ≤ 255 := by have := p.proto.isLt; omega
  unfold ProtoOnly at h
  rw [h]
  unfold matchL4Protocol
  have hr : ¬ ((n : Int) > 255 ∨ (n : Int) < 1) := by omega
  simp only [hr, if_false, ruleMatch, icmpIs]
  cases r.protocol <;> cases r.notProtocol <;>
    simp [checkProto_some p n hn hp, checkProto_none]

/-- Protocol-only rules with an API action. -/
def RulesL4 (rs : List Rule) : Prop := ∀ r ∈ rs, ProtoOnly r ∧ actOf r.action ≠ .invalid

def decToCAct : Dec → CAct
  | .allow => .allow | .deny => .deny | .pass => .pass | .noMatch => .noMatch

/-- `checkRules` computes the reference `evalRules` decision. -/
theorem checkRules_ref (env : Env) (p : Pkt) (n : Nat) (hn : 1 ≤ n) (hp : p.proto.toNat = n) :
    ∀ rs : List Rule, RulesL4 rs → checkRules (n : Int) rs = some (decToCAct (evalRules env p .dest rs)) := by
  intro rs
  induction rs with
  | nil => intro _; rfl
  | cons r rs ih =>
    intro h
    have ih' := ih (fun r' hr' => h r' (List.mem_cons_of_mem _ hr'))
    obtain ⟨hpo, ha⟩ := h r (List.mem_cons_self)
    have hm := match_protoOnly env p n hn hp r hpo
    simp only [checkRules, evalRules, filterRule_protoOnly env.c.v6 r hpo, hm]
    by_cases hx : matchL4Protocol r (n : Int) = true
    · simp only [hx, if_true]
      unfold actOf at ha ⊢
      unfold actionFromString
      simp only at ha ⊢
      generalize asciiLower r.action = s at *
      by_cases h1 : s = "allow" <;> by_cases h2 : s = "deny" <;> by_cases h3 : s = "log" <;>
        by_cases h4 : s = "pass" <;> by_cases h5 : s = "next-tier" <;> simp_all [decToCAct]
    · simp only [hx, Bool.false_eq_true, if_false]; exact ih'

def PoliciesL4 (ps : List Policy) : Prop := ∀ pol ∈ ps, RulesL4 pol.rules

def decToTierRes : Dec → TierRes
  | .allow => .allow | .deny => .deny | .pass => .passed | .noMatch => .noMatch

theorem checkPolicies_ref (env : Env) (p : Pkt) (n : Nat) (hn : 1 ≤ n) (hp : p.proto.toNat = n) :
    ∀ ps : List Policy, PoliciesL4 ps → checkPolicies (n : Int) ps = decToTierRes (evalPolicies env p .dest ps) := by
  intro ps
  induction ps with
  | nil => intro _; rfl
  | cons pol ps ih =>
    intro h
    have ih' := ih (fun q hq => h q (List.mem_cons_of_mem _ hq))
    have h1 := checkRules_ref env p n hn hp pol.rules (h pol (List.mem_cons_self))
    simp only [checkPolicies, evalPolicies, h1]
    cases evalRules env p .dest pol.rules <;> simp [decToCAct, decToTierRes, ih']

theorem checkProfiles_ref (env : Env) (p : Pkt) (n : Nat) (hn : 1 ≤ n) (hp : p.proto.toNat = n) :
    ∀ ps : List Policy, PoliciesL4 ps → checkProfiles (n : Int) ps = some (evalProfiles true env p ps == .allow) := by
  intro ps
  induction ps with
  | nil => intro _; rfl
  | cons pr ps ih =>
    intro h
    have ih' := ih (fun q hq => h q (List.mem_cons_of_mem _ hq))
    have h1 := checkRules_ref env p n hn hp pr.rules (h pr (List.mem_cons_self))
    simp only [checkProfiles, evalProfiles, h1]
    cases evalRules env p .dest pr.rules <;> simp [decToCAct, ih']

/-- Tiers as the endpoint carries them: every tier has at least one policy in this direction. -/
def TiersL4 (ts : List Tier) : Prop := ∀ t ∈ ts, t.policies ≠ [] ∧ PoliciesL4 t.policies

/-- `checkTiers` computes the reference workload verdict. -/
theorem checkTiers_ref (env : Env) (p : Pkt) (n : Nat) (hn : 1 ≤ n) (hp : p.proto.toNat = n) (profiles : List Policy)
    (hpr : PoliciesL4 profiles) :
    ∀ ts : List Tier, TiersL4 ts →
      checkTiers (n : Int) profiles ts = some ((match evalTiers env p .dest ts with
        | .allow => Verdict.allow
        | .deny => .deny
        | _ => (match evalProfiles true env p profiles with | .allow => .allow | _ => .deny)) == .allow) := by
  intro ts
  induction ts with
  | nil =>
    intro _
    simp only [checkTiers, evalTiers, checkProfiles_ref env p n hn hp profiles hpr]
    cases evalProfiles true env p profiles <;> rfl
  | cons t ts ih =>
    intro h
    have ih' := ih (fun q hq => h q (List.mem_cons_of_mem _ hq))
    obtain ⟨hne, hpol⟩ := h t (List.mem_cons_self)
    have he : t.policies.isEmpty = false := by
      cases hq : t.policies with
      | nil => exact absurd hq hne
      | cons _ _ => rfl
    have h1 := checkPolicies_ref env p n hn hp t.policies hpol
    simp only [checkTiers, evalTiers, he, Bool.false_eq_true, if_false, h1]
    cases evalPolicies env p .dest t.policies <;> simp only [decToTierRes]
    · rfl
    · rfl
    · exact ih'
    · cases t.endAction <;> first | exact ih' | rfl

end CalicoVerif.C12
