import CalicoVerif.Model.C24
/-!
C24 — cache side: the B-tree model behaves like a finite map, and every breadcrumb's
snapshot is the previous snapshot with the crumb's deltas applied.
-/
namespace CalicoVerif.C24

/-- What a client stores for a key: (value, revision). -/
abbrev V := Nat × Nat
abbrev View := Nat → Option V

def SU.entry (u : SU) : Option V := u.val.map (fun v => (v, u.rev))

/-- A client applying one update (`Value == nil` deletes). -/
def applyD (m : View) (u : SU) : View := fun k => if u.key = k then u.entry else m k

def applyDs (m : View) (ds : List SU) : View := ds.foldl applyD m

/-- The key/value view a snapshot list stands for. -/
def asMap (kvs : List SU) : View := fun k => (kvsGet kvs k).bind SU.entry

def emptyView : View := fun _ => none

/-- B-tree order: strictly ascending keys. -/
def Sorted (l : List SU) : Prop := l.Pairwise (fun a b => a.key < b.key)

theorem applyDs_append (m : View) (a b : List SU) : applyDs m (a ++ b) = applyDs (applyDs m a) b := by
  simp [applyDs, List.foldl_append]

/-! ### B-tree lemmas -/

theorem kvsGet_insert (l : List SU) (u : SU) (k : Nat) :
    kvsGet (kvsInsert l u) k = if u.key = k then some u else kvsGet l k := by
  induction l with
  | nil => simp [kvsInsert, kvsGet]
  | cons x xs ih =>
    unfold kvsInsert
    by_cases h1 : u.key < x.key
    · simp only [h1, if_true]
      by_cases hk : u.key = k
      · simp [kvsGet, hk]
      · simp [kvsGet, hk]
    · simp only [h1, if_false]
      by_cases h2 : u.key = x.key
      · simp only [kvsGet, h2, if_true]
        by_cases hk : x.key = k <;> simp [hk]
      · simp only [h2, if_false]
        by_cases hk : x.key = k
        · have : ¬ u.key = k := by rw [← hk]; exact h2
          simp [kvsGet, hk, this]
        · simp only [kvsGet, hk, if_false]
          exact ih

theorem kvsGet_delete_ne (l : List SU) (k k' : Nat) (h : k' ≠ k) :
    kvsGet (kvsDelete l k) k' = kvsGet l k' := by
  induction l with
  | nil => rfl
  | cons x xs ih =>
    unfold kvsDelete
    by_cases hx : x.key = k
    · have : ¬ x.key = k' := by rw [hx]; exact fun e => h e.symm
      simp [hx, kvsGet]
      intro e; exact absurd e.symm h
    · simp only [hx, if_false, kvsGet]
      rw [ih]

theorem kvsGet_none_of_not_mem (l : List SU) (k : Nat) (h : ∀ y ∈ l, y.key ≠ k) : kvsGet l k = none := by
  induction l with
  | nil => rfl
  | cons x xs ih =>
    have hx : x.key ≠ k := h x (List.mem_cons_self ..)
    simp only [kvsGet, hx, if_false]
    exact ih (fun y hy => h y (List.mem_cons_of_mem _ hy))

theorem kvsGet_delete_self (l : List SU) (k : Nat) (hs : Sorted l) : kvsGet (kvsDelete l k) k = none := by
  induction l with
  | nil => rfl
  | cons x xs ih =>
    have hs' := List.pairwise_cons.mp hs
    unfold kvsDelete
    by_cases hx : x.key = k
    · simp only [hx, if_true]
      apply kvsGet_none_of_not_mem
      intro y hy e
      have := hs'.1 y hy
      omega
    · simp only [hx, if_false, kvsGet]
      exact ih hs'.2

theorem kvsDelete_sublist (l : List SU) (k : Nat) : (kvsDelete l k).Sublist l := by
  induction l with
  | nil => exact List.Sublist.refl _
  | cons x xs ih =>
    unfold kvsDelete
    by_cases hx : x.key = k
    · simp only [hx, if_true]; exact List.sublist_cons_self _ _
    · simp only [hx, if_false]; exact List.Sublist.cons_cons _ ih

theorem sorted_delete (l : List SU) (k : Nat) (hs : Sorted l) : Sorted (kvsDelete l k) :=
  List.Pairwise.sublist (kvsDelete_sublist l k) hs

theorem mem_kvsInsert (l : List SU) (u y : SU) (h : y ∈ kvsInsert l u) : y = u ∨ y ∈ l := by
  induction l with
  | nil => simp [kvsInsert] at h; exact Or.inl h
  | cons x xs ih =>
    unfold kvsInsert at h
    by_cases h1 : u.key < x.key
    · simp only [h1, if_true, List.mem_cons] at h
      rcases h with h | h | h
      · exact Or.inl h
      · exact Or.inr (by rw [h]; exact List.mem_cons_self ..)
      · exact Or.inr (List.mem_cons_of_mem _ h)
    · simp only [h1, if_false] at h
      by_cases h2 : u.key = x.key
      · simp only [h2, if_true, List.mem_cons] at h
        rcases h with h | h
        · exact Or.inl h
        · exact Or.inr (List.mem_cons_of_mem _ h)
      · simp only [h2, if_false, List.mem_cons] at h
        rcases h with h | h
        · exact Or.inr (by rw [h]; exact List.mem_cons_self ..)
        · rcases ih h with h | h
          · exact Or.inl h
          · exact Or.inr (List.mem_cons_of_mem _ h)

theorem sorted_insert (l : List SU) (u : SU) (hs : Sorted l) : Sorted (kvsInsert l u) := by
  induction l with
  | nil => simp [kvsInsert, Sorted]
  | cons x xs ih =>
    have hs' := List.pairwise_cons.mp hs
    unfold kvsInsert
    by_cases h1 : u.key < x.key
    · simp only [h1, if_true]
      refine List.pairwise_cons.mpr ⟨?_, hs⟩
      intro y hy
      rcases List.mem_cons.mp hy with e | hy
      · rw [e]; exact h1
      · have := hs'.1 y hy; omega
    · simp only [h1, if_false]
      by_cases h2 : u.key = x.key
      · simp only [h2, if_true]
        refine List.pairwise_cons.mpr ⟨?_, hs'.2⟩
        intro y hy
        have := hs'.1 y hy; omega
      · simp only [h2, if_false]
        refine List.pairwise_cons.mpr ⟨?_, ih hs'.2⟩
        intro y hy
        rcases mem_kvsInsert xs u y hy with e | hy
        · rw [e]; omega
        · exact hs'.1 y hy

/-! ### one update of `publishBreadcrumb` -/

theorem asMap_insert (l : List SU) (u u' : SU) (hk' : u'.key = u.key) (he : u'.entry = u.entry) :
    asMap (kvsInsert l u') = applyD (asMap l) u := by
  funext k
  simp only [asMap, kvsGet_insert, applyD, hk']
  by_cases hk : u.key = k
  · simp [hk, he]
  · simp [hk]

theorem asMap_delete (l : List SU) (u : SU) (hs : Sorted l) (hv : u.val = none) :
    asMap (kvsDelete l u.key) = applyD (asMap l) u := by
  funext k
  simp only [asMap, applyD]
  by_cases hk : u.key = k
  · subst hk
    simp [kvsGet_delete_self l u.key hs, SU.entry, hv]
  · have : k ≠ u.key := fun e => hk e.symm
    simp [hk, kvsGet_delete_ne l u.key k this]

/-- One loop iteration: the tree stays sorted, deltas only grow, and the tree's view moves by exactly
the deltas that were appended (nothing for a skipped no-op). -/
theorem applyOne_spec (st : List SU × List SU) (u : SU) (hs : Sorted st.1) :
    Sorted (applyOne st u).1 ∧
    ∃ d, (applyOne st u).2 = st.2 ++ d ∧ asMap (applyOne st u).1 = applyDs (asMap st.1) d := by
  unfold applyOne
  cases hv : u.val with
  | none =>
    simp only
    exact ⟨sorted_delete _ _ hs, [u], rfl, by simp [applyDs, asMap_delete st.1 u hs hv]⟩
  | some v =>
    simp only
    cases hg : kvsGet st.1 u.key with
    | none =>
      simp only
      exact ⟨sorted_insert _ _ hs, [u], rfl, by
        simp only [applyDs, List.foldl_cons, List.foldl_nil]
        exact asMap_insert st.1 u { key := u.key, val := some v, rev := u.rev, ut := utNew } rfl (by simp [SU.entry, hv])⟩
    | some old =>
      simp only
      by_cases hn : wouldBeNoOp u old = true
      · simp only [hn, if_true]
        exact ⟨hs, [], by simp, by simp [applyDs]⟩
      · simp only [hn]
        exact ⟨sorted_insert _ _ hs, [u], rfl, by
        simp only [applyDs, List.foldl_cons, List.foldl_nil]
        exact asMap_insert st.1 u { key := u.key, val := some v, rev := u.rev, ut := utNew } rfl (by simp [SU.entry, hv])⟩

theorem foldl_applyOne_spec (us : List SU) (st : List SU × List SU) (hs : Sorted st.1) :
    Sorted (us.foldl applyOne st).1 ∧
    ∃ d, (us.foldl applyOne st).2 = st.2 ++ d ∧ asMap (us.foldl applyOne st).1 = applyDs (asMap st.1) d := by
  induction us generalizing st with
  | nil => exact ⟨hs, [], by simp, by simp [applyDs]⟩
  | cons u us ih =>
    simp only [List.foldl_cons]
    obtain ⟨h1, d1, e1, m1⟩ := applyOne_spec st u hs
    obtain ⟨h2, d2, e2, m2⟩ := ih (applyOne st u) h1
    refine ⟨h2, d1 ++ d2, ?_, ?_⟩
    · rw [e2, e1, List.append_assoc]
    · rw [m2, m1, applyDs_append]

/-! ### the breadcrumb chain -/

/-- `b` directly follows `a`: its snapshot is `a`'s snapshot with `b`'s deltas applied. -/
def Link (a b : Crumb) : Prop :=
  asMap b.kvs = applyDs (asMap a.kvs) b.deltas ∧ b.seq = a.seq + 1

def ChainOK : List Crumb → Prop
  | [] => True
  | [_] => True
  | a :: b :: rest => Link a b ∧ ChainOK (b :: rest)

theorem chainOK_snoc (l : List Crumb) (a b : Crumb) (h : ChainOK (l ++ [a])) (hl : Link a b) :
    ChainOK ((l ++ [a]) ++ [b]) := by
  induction l with
  | nil => exact ⟨hl, trivial⟩
  | cons x xs ih =>
    cases xs with
    | nil =>
      simp only [List.cons_append, List.nil_append] at h ⊢
      exact ⟨h.1, hl, trivial⟩
    | cons y ys =>
      simp only [List.cons_append] at h ih ⊢
      exact ⟨h.1, ih h.2⟩

/-- Cache invariant. -/
structure CacheInv (c : Cache) : Prop where
  sorted : Sorted c.kvs
  cur_view : asMap c.kvs = asMap c.cur.kvs
  chain : ChainOK c.chain
  crumbs_sorted : ∀ x ∈ c.chain, Sorted x.kvs

theorem CacheInv.new (b : Nat) : CacheInv (Cache.new b) :=
  ⟨by simp [Cache.new, Sorted], rfl, by simp [Cache.new, Cache.chain, ChainOK],
   by intro x hx; simp [Cache.new, Cache.chain] at hx; subst hx; simp [Sorted]⟩

theorem CacheInv.publishBreadcrumb {c : Cache} (h : CacheInv c) (ts : Nat) :
    CacheInv (publishBreadcrumb c ts) := by
  unfold C24.publishBreadcrumb
  simp only
  generalize hu : (if c.pendingUpdates.length > c.maxBatch then c.pendingUpdates.take c.maxBatch
    else c.pendingUpdates) = updates
  obtain ⟨h1, d, e, m⟩ := foldl_applyOne_spec updates (c.kvs, []) h.sorted
  simp only [List.nil_append] at e
  split
  · refine ⟨h1, rfl, ?_, ?_⟩
    · simp only [Cache.chain]
      apply chainOK_snoc c.older c.cur _ h.chain
      refine ⟨?_, rfl⟩
      simp only
      rw [m, e, h.cur_view]
    · intro x hx
      simp only [Cache.chain, List.mem_append, List.mem_singleton] at hx
      rcases hx with hx | hx
      · exact h.crumbs_sorted x (by simp only [Cache.chain, List.mem_append, List.mem_singleton]; exact hx)
      · subst hx; exact h1
  · rename_i hc
    have hd : (updates.foldl applyOne (c.kvs, [])).2 = [] := by
      simp only [Bool.or_eq_true, Bool.not_eq_true', not_or] at hc
      have := hc.2
      simpa using this
    refine ⟨h1, ?_, h.chain, h.crumbs_sorted⟩
    simp only
    rw [m, ← e, hd]
    simpa [applyDs] using h.cur_view

theorem CacheInv.publishRest {c : Cache} (h : CacheInv c) (ts fuel : Nat) :
    CacheInv (publishRest c ts fuel) := by
  induction fuel generalizing c ts with
  | zero => exact h
  | succ n ih =>
    unfold C24.publishRest
    split
    · exact h
    · exact ih (h.publishBreadcrumb ts) _

theorem CacheInv.publishBreadcrumbs {c : Cache} (h : CacheInv c) (ts : Nat) :
    CacheInv (publishBreadcrumbs c ts) := by
  unfold C24.publishBreadcrumbs
  exact (h.publishBreadcrumb ts).publishRest _ _

theorem storePending_inv {c : Cache} (h : CacheInv c) (o : In) : CacheInv (storePending c o).1 := by
  cases o <;> exact ⟨h.sorted, h.cur_view, h.chain, h.crumbs_sorted⟩

theorem batchLoop_inv {c : Cache} (h : CacheInv c) (n : Nat) (q : List In) : CacheInv (batchLoop c n q).1 := by
  induction q generalizing c n with
  | nil => exact h
  | cons o q ih =>
    unfold batchLoop
    split
    · exact ih (storePending_inv h o) _
    · exact h

theorem CacheInv.fillBatch {c : Cache} (h : CacheInv c) : CacheInv (fillBatch c) := by
  unfold C24.fillBatch
  split
  · exact h
  · have := batchLoop_inv (storePending_inv h ‹In›) (storePending c ‹In›).2 ‹List In›
    exact ⟨this.sorted, this.cur_view, this.chain, this.crumbs_sorted⟩

theorem CacheInv.loopOnce {c : Cache} (h : CacheInv c) (ts : Nat) : CacheInv (loopOnce c ts) :=
  h.fillBatch.publishBreadcrumbs ts

theorem CacheInv.push {c : Cache} (h : CacheInv c) (o : In) : CacheInv (push c o) := by
  unfold C24.push
  split
  · exact h
  · exact ⟨h.sorted, h.cur_view, h.chain, h.crumbs_sorted⟩

end CalicoVerif.C24
