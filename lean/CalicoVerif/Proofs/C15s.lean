import CalicoVerif.Proofs.C15ra
set_option linter.unusedSimpArgs false
namespace CalicoVerif.C15

def oursP (P : List String) (c : String) : Bool := P.any (fun p => hasPrefix c p)
theorem ours_eq (t : T) (c : String) : t.ours c = oursP t.prefixes c := rfl

/-- The invariant together with the (constant) name space and the name-space discipline: only Felix's chains are
ever dirty, and rules only jump to Felix's chains. -/
def PInv (P : List String) (t : T) : Prop := TInv t ∧ t.prefixes = P ∧ DInv (fun x => oursP P x = true) t

theorem DInv.load' {P : List String} {t : T} (hp : t.prefixes = P) (h : DInv (fun x => oursP P x = true) t) (K : Kernel) :
    DInv (fun x => oursP P x = true) (t.load K) := by
  subst hp
  exact DInv.load (t := t) h K

theorem load_prefixes (t : T) (K : Kernel) : (t.load K).prefixes = t.prefixes := by
  obtain ⟨t2, hrel, hload, _⟩ := load_desc t K
  rw [hload]; exact hrel.prefixes

theorem setInserts_prefixes (t : T) (c : String) (rules : List DRule) : (t.setInserts c rules).prefixes = t.prefixes := by
  unfold T.setInserts
  dsimp only
  exact ((maybeDecref_grow _ c _).prefixes).trans ((maybeIncref_grow _ c rules).prefixes)

theorem setAppends_prefixes (t : T) (c : String) (rules : List DRule) : (t.setAppends c rules).prefixes = t.prefixes := by
  unfold T.setAppends
  dsimp only
  exact ((maybeDecref_grow _ c _).prefixes).trans ((maybeIncref_grow _ c rules).prefixes)

theorem PInv.load {P : List String} {t : T} (h : PInv P t) (K : Kernel) : PInv P (t.load K) :=
  ⟨h.1.load K, (load_prefixes t K).trans h.2.1, DInv.load' h.2.1 h.2.2 K⟩
theorem PInv.invalidate {P : List String} {t : T} (h : PInv P t) : PInv P t.invalidate := ⟨h.1.invalidate, h.2.1, h.2.2.invalidate⟩
theorem PInv.commit {P : List String} {t : T} (h : PInv P t) {lines newH newFull}
    (hp : t.plan = some (lines, newH, newFull)) : PInv P (t.commit newH newFull) := ⟨h.1.commit hp, h.2.1, h.2.2.commit newH newFull⟩

theorem applyPre_t (w : W) : w.applyPre.t = w.t := by
  unfold W.applyPre
  split
  · rfl
  · dsimp only
    split
    · split <;> rfl
    · rfl

theorem applyUpdates_t (w : W) :
    w.applyUpdates.1.t = w.t ∨ w.applyUpdates.1.t = w.t.invalidate ∨
    ∃ lines newH newFull, w.t.plan = some (lines, newH, newFull) ∧ w.applyUpdates.1.t = w.t.commit newH newFull := by
  unfold W.applyUpdates
  cases hp : w.t.plan with
  | none => left; rfl
  | some v =>
    obtain ⟨lines, newH, newFull⟩ := v
    dsimp only
    by_cases he : lines.isEmpty = true
    · rw [if_pos he]; right; right; exact ⟨lines, newH, newFull, rfl, rfl⟩
    · rw [if_neg he]
      split
      · right; left
        show w.applyPre.t.invalidate = _
        rw [applyPre_t]
      · right; right
        refine ⟨lines, newH, newFull, rfl, ?_⟩
        show w.applyPre.t.commit newH newFull = _
        rw [applyPre_t]

theorem applyUpdates_pinv {P : List String} (w : W) (h : PInv P w.t) : PInv P w.applyUpdates.1.t := by
  rcases applyUpdates_t w with e | e | ⟨lines, newH, newFull, hp, e⟩
  · rw [e]; exact h
  · rw [e]; exact h.invalidate
  · rw [e]; exact h.commit hp

theorem ensureLoaded_pinv {P : List String} (w : W) (h : PInv P w.t) : PInv P w.ensureLoaded.1.t := by
  unfold W.ensureLoaded
  obtain ⟨h1, h2, _⟩ := save_frame 4 w
  split
  · dsimp only
    split
    · show PInv P ((W.save 4 w).1.t.load (W.save 4 w).1.K)
      rw [h1]; exact h.load _
    · show PInv P (W.save 4 w).1.t
      rw [h1]; exact h
  · exact h

theorem applyLoop_pinv {P : List String} : ∀ (fuel : Nat) (w : W), PInv P w.t → PInv P (W.applyLoop fuel w).1.t := by
  intro fuel
  induction fuel with
  | zero => intro w h; exact h
  | succ fuel ih =>
    intro w h
    unfold W.applyLoop
    dsimp only
    have hl := ensureLoaded_pinv w h
    have hu := applyUpdates_pinv w.ensureLoaded.1 hl
    split
    · exact hl
    · split
      · split
        · exact hu
        · exact ih _ hu
      · exact hu

theorem apply_pinv {P : List String} (w : W) (h : PInv P w.t) : PInv P w.apply.1.t := by
  unfold W.apply
  have := applyLoop_pinv 11 w h
  cases hr : W.applyLoop 11 w with
  | mk w' ok =>
    rw [hr] at this
    dsimp only
    split
    · exact this
    · exact this

/-- Well-formed calls (the conventions of Felix's callers): chains that are created, updated or removed carry one of
Felix's prefixes; hook rules are only put into chains outside Felix's name space (the kernel's chains); and every
rule only jumps to one of Felix's chains. -/
def Op.wf (P : List String) : Op → Prop
  | .chain c ch => oursP P c = true ∧ ∀ x ∈ refsOf ch.rules, oursP P x = true
  | .rmchain c => oursP P c = true
  | .ins c rs => oursP P c = false ∧ ∀ x ∈ refsOf rs, oursP P x = true
  | .app c rs => oursP P c = false ∧ ∀ x ∈ refsOf rs, oursP P x = true
  | _ => True

theorem stepOp_pinv {P : List String} (hk : ∀ c ∈ kernelChains, oursP P c = false) (w : W) (o : Op) (hwf : o.wf P)
    (h : PInv P w.t) : PInv P (w.stepOp o).1.t := by
  cases o with
  | restart m =>
    refine ⟨TInv.new _ m ?_, h.2.1, DInv.new _ _ m⟩
    intro c hc
    show oursP w.t.prefixes c = false
    rw [h.2.1]; exact hk c hc
  | kchain n rs => exact h
  | kdelchain n => exact h
  | chain n ch =>
    exact ⟨h.1.updateChain n ch, (updateChain_grow w.t n ch).prefixes.trans h.2.1, h.2.2.updateChain n ch hwf.1 hwf.2⟩
  | rmchain n => exact ⟨h.1.removeChain n, (removeChain_grow w.t n).prefixes.trans h.2.1, h.2.2.removeChain n hwf⟩
  | ins c rs =>
    exact ⟨h.1.setInserts c rs (by rw [ours_eq, h.2.1]; exact hwf.1), (setInserts_prefixes w.t c rs).trans h.2.1,
      h.2.2.setInserts c rs hwf.2⟩
  | app c rs =>
    exact ⟨h.1.setAppends c rs (by rw [ours_eq, h.2.1]; exact hwf.1), (setAppends_prefixes w.t c rs).trans h.2.1,
      h.2.2.setAppends c rs hwf.2⟩
  | invalidate => exact h.invalidate
  | apply sf rf pre => exact apply_pinv { w with saveFails := sf, restoreFails := rf, pre := pre, trace := [] } h

/-- The invariant holds along every history of well-formed calls, restarts, foreign edits of the table and
Applies with any failures. -/
theorem run_pinv {P : List String} (hk : ∀ c ∈ kernelChains, oursP P c = false) :
    ∀ (ops : List Op) (w : W), (∀ o ∈ ops, o.wf P) → PInv P w.t → PInv P (w.run ops).t := by
  unfold W.run
  intro ops
  induction ops with
  | nil => intro w _ h; exact h
  | cons o ops ih =>
    intro w hwf h
    simp only [List.foldl]
    apply ih _ (fun o' ho' => hwf o' (List.mem_cons_of_mem _ ho'))
    split
    · exact h
    · exact stepOp_pinv hk w o (hwf o List.mem_cons_self) h

end CalicoVerif.C15
