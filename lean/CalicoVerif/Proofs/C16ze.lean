import CalicoVerif.Proofs.C16zd
set_option linter.unusedSimpArgs false
namespace CalicoVerif.C16

theorem applyUpdates_converges (w : W) (hc : CfgOK w.cfg) (hok : DesOK w.cfg w.F) (hfull : w.F.fullReq = true)
    (hs : w.applyUpdates.2 = true) : ConvPost w w.applyUpdates.1 := by
  unfold W.applyUpdates at hs ⊢
  have h := applyLoop_converges 10 0 false w hc hok hfull
  generalize W.applyLoop 10 0 false w = r at h hs ⊢
  obtain ⟨w1, ok⟩ := r
  dsimp only at h hs ⊢
  cases ok with
  | true => simp only [if_true]; exact h rfl
  | false => simp at hs

/-- Any number of `ApplyDeletions` calls, each with its own failure plan and hints. -/
def W.delRounds (w : W) : List (Plan × List String) → W
  | [] => w
  | (plan, hd) :: rest => (({ w with plan := plan, hintR := [], hintD := hd, trace := [] } : W).applyDeletions.1).delRounds rest

theorem delRounds_AD : ∀ (rs : List (Plan × List String)) (w : W), AD w (w.delRounds rs) := by
  intro rs
  induction rs with
  | nil => intro w; exact AD.refl w
  | cons r rs ih =>
    intro w
    obtain ⟨plan, hd⟩ := r
    simp only [W.delRounds]
    have h1 : AD w ({ w with plan := plan, hintR := [], hintD := hd, trace := [] } : W) :=
      ⟨rfl, Pres.refl _, fun _ _ => rfl, fun h => h, fun _ h => h, ⟨fun _ h => h, fun _ h => h⟩, fun _ h => h⟩
    exact AD.trans h1 (AD.trans (applyDeletions_AD _) (ih _))

/-- Operations that edit the kernel set `x` out of band. -/
def Op.edits (x : String) : Op → Bool
  | .kset n _ => n == x
  | .kdel n => n == x
  | .kdrop n _ => n == x
  | _ => false

theorem stepOp_foreign (w : W) (op : Op) (hc : CfgOK w.cfg) (h : Inv w.cfg w.F) (x : String)
    (hx : w.cfg.owns x = false) (he : op.edits x = false) : (w.stepOp op).1.K.get x = w.K.get x := by
  cases op with
  | add id t ms a b mem => rfl
  | rm id => simp only [W.stepOp, orDead]; split <;> rfl
  | addm id mem => simp only [W.stepOp, orDead]; split <;> rfl
  | delm id mem => simp only [W.stepOp, orDead]; split <;> rfl
  | filter f => rfl
  | qresync => rfl
  | restart => rfl
  | apply plan hr hd =>
    exact (applyUpdates_FU ({ w with plan := plan, hintR := hr, hintD := hd, trace := [] } : W) hc h.1.owned).2.2 x hx
  | applydel plan hd =>
    refine (applyDeletions_FU ({ w with plan := plan, hintR := [], hintD := hd, trace := [] } : W) ?_).2.2 x hx
    intro n hn
    exact h.2.dp n ((Map.has_iff_mem_keys _ _).2 hn)
  | kset n k =>
    simp only [Op.edits, beq_eq_false_iff_ne, ne_eq] at he
    simp only [W.stepOp, Map.get_set]
    simp [Ne.symm he]
  | kdel n =>
    simp only [Op.edits, beq_eq_false_iff_ne, ne_eq] at he
    simp only [W.stepOp, Map.get_erase]
    simp [Ne.symm he]
  | kdrop n k =>
    simp only [Op.edits, beq_eq_false_iff_ne, ne_eq] at he
    simp only [W.stepOp]
    split
    · split
      · rfl
      · simp only [Map.get_set]; simp [Ne.symm he]
    · rfl

theorem run_foreign : ∀ (ops : List Op) (w : W), CfgOK w.cfg → CfgMain w.cfg → Inv w.cfg w.F →
    ∀ x, w.cfg.owns x = false → (∀ op ∈ ops, op.edits x = false) → (w.run ops).K.get x = w.K.get x := by
  intro ops
  induction ops with
  | nil => intro w _ _ _ x _ _; rfl
  | cons op ops ih =>
    intro w hc hm h x hx he
    obtain ⟨h1, h2⟩ := stepOp_inv w op hc hm h
    simp only [W.run]
    rw [ih (w.stepOp op).1 (h1 ▸ hc) (h1 ▸ hm) (h1 ▸ h2) x (h1 ▸ hx) (fun o ho => he o (List.mem_cons_of_mem _ ho))]
    exact stepOp_foreign w op hc h x hx (he op List.mem_cons_self)

end CalicoVerif.C16
