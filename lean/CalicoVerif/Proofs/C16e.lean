import CalicoVerif.Proofs.C16d
namespace CalicoVerif.C16

theorem nextFreeTemp_desired (c : Cfg) : ∀ (fuel : Nat) (F : Felix),
    (Felix.nextFreeTemp c F fuel).1.desired = F.desired := by
  intro fuel
  induction fuel with
  | zero => intro F; rfl
  | succ fuel ih =>
    intro F
    unfold Felix.nextFreeTemp
    dsimp only
    split
    · rw [ih]
    · rfl

theorem writeUpdates_desired {c : Cfg} {ord : List String → List String} {F F' : Felix} {n : String}
    {ls : List Line} (h : F.writeUpdates c ord n = some (F', ls)) : F'.desired = F.desired := by
  unfold Felix.writeUpdates at h
  split at h
  · rename_i dm t hdm ht
    dsimp only at h
    split at h
    · simp only [Option.some.injEq, Prod.mk.injEq] at h
      rw [← h.1]
      exact nextFreeTemp_desired c (F.dp.length + 1) F
    · simp only [Option.some.injEq, Prod.mk.injEq] at h
      rw [← h.1]
      split <;> rfl
  · simp at h

theorem writeAll_desired {c : Cfg} {ord : List String → List String} : ∀ (ns : List String) (F F' : Felix)
    (ls : List Line), writeAll c ord F ns = some (F', ls) → F'.desired = F.desired := by
  intro ns
  induction ns with
  | nil => intro F F' ls h; simp only [writeAll, Option.some.injEq, Prod.mk.injEq] at h; rw [← h.1]
  | cons n ns ih =>
    intro F F' ls h
    simp only [writeAll] at h
    split at h
    · simp at h
    · rename_i F1 l1 h1
      split at h
      · simp at h
      · rename_i F2 l2 h2
        simp only [Option.some.injEq, Prod.mk.injEq] at h
        rw [← h.1, ih F1 F2 l2 h2, writeUpdates_desired h1]

end CalicoVerif.C16
