import CalicoVerif.Model.C03
import CalicoVerif.Proofs.C02
/-! C03 helper lemmas: the btree model (sorted list under a strict weak order) and the two comparators. -/
namespace CalicoVerif.C03
open CalicoVerif.C02

/-- What `google/btree` needs from its comparator. -/
structure SWO {α : Type} (less : α → α → Bool) : Prop where
  irrefl : ∀ a, less a a = false
  trans : ∀ a b c, less a b = true → less b c = true → less a c = true
  /-- incomparability is transitive ("negative transitivity") -/
  negTrans : ∀ a b c, less a b = false → less b c = false → less a c = false

/-- strictly ascending under `less` -/
def Sorted {α : Type} (less : α → α → Bool) (l : List α) : Prop := l.Pairwise (fun a b => less a b = true)

section bt
variable {α : Type} {less : α → α → Bool}

theorem mem_btInsert (x y : α) (l : List α) : y ∈ btInsert less x l → y = x ∨ y ∈ l := by
  induction l with
  | nil => simp [btInsert]
  | cons h t ih =>
    simp only [btInsert]
    rcases Bool.eq_false_or_eq_true (less x h) with h1 | h1
    · simp only [h1, if_true, List.mem_cons]; intro hy; rcases hy with a | a | a <;> simp [a]
    · rcases Bool.eq_false_or_eq_true (less h x) with h2 | h2
      · simp only [h1, h2, Bool.false_eq_true, if_true, if_false, List.mem_cons]
        rintro (a | a)
        · exact Or.inr (Or.inl a)
        · rcases ih a with b | b
          · exact Or.inl b
          · exact Or.inr (Or.inr b)
      · simp only [h1, h2, Bool.false_eq_true, if_false, List.mem_cons]
        rintro (a | a)
        · exact Or.inl a
        · exact Or.inr (Or.inr a)

theorem mem_btInsert_self (x : α) (l : List α) : x ∈ btInsert less x l := by
  induction l with
  | nil => simp [btInsert]
  | cons h t ih =>
    simp only [btInsert]
    rcases Bool.eq_false_or_eq_true (less x h) with h1 | h1
    · simp [h1]
    · rcases Bool.eq_false_or_eq_true (less h x) with h2 | h2
      · simp [h1, h2, ih]
      · simp [h1, h2]

theorem sorted_btInsert (hs : SWO less) (x : α) (l : List α) (hl : Sorted less l) : Sorted less (btInsert less x l) := by
  induction l with
  | nil => simp [btInsert, Sorted]
  | cons h t ih =>
    simp only [Sorted, List.pairwise_cons] at hl
    simp only [btInsert]
    rcases Bool.eq_false_or_eq_true (less x h) with h1 | h1
    · simp only [h1, if_true, Sorted, List.pairwise_cons, List.mem_cons]
      refine ⟨?_, hl.1, hl.2⟩
      rintro a (rfl | a1)
      · exact h1
      · exact hs.trans _ _ _ h1 (hl.1 a a1)
    · rcases Bool.eq_false_or_eq_true (less h x) with h2 | h2
      · simp only [h1, h2, Bool.false_eq_true, if_true, if_false, Sorted, List.pairwise_cons]
        refine ⟨?_, ih hl.2⟩
        intro a ha
        rcases mem_btInsert x a t ha with rfl | a1
        · exact h2
        · exact hl.1 a a1
      · simp only [h1, h2, Bool.false_eq_true, if_false, Sorted, List.pairwise_cons]
        refine ⟨?_, hl.2⟩
        intro a ha
        -- x is incomparable with h and h < a, hence x < a
        have h1' : less x h = false := h1
        have h2' : less h x = false := h2
        cases hxa : less x a with
        | true => rfl
        | false =>
          have := hs.negTrans h x a h2' hxa
          rw [hl.1 a ha] at this; cases this

theorem mem_btDelete (x y : α) (l : List α) : y ∈ btDelete less x l → y ∈ l := by
  induction l with
  | nil => simp [btDelete]
  | cons h t ih =>
    simp only [btDelete]
    rcases Bool.eq_false_or_eq_true (less x h) with h1 | h1
    · simp [h1]
    · rcases Bool.eq_false_or_eq_true (less h x) with h2 | h2
      · simp only [h1, h2, Bool.false_eq_true, if_true, if_false, List.mem_cons]
        rintro (a | a)
        · exact Or.inl a
        · exact Or.inr (ih a)
      · simp only [h1, h2, Bool.false_eq_true, if_false, List.mem_cons]
        intro a; exact Or.inr a

theorem sorted_btDelete (x : α) (l : List α) (hl : Sorted less l) : Sorted less (btDelete less x l) := by
  induction l with
  | nil => simp [btDelete, Sorted]
  | cons h t ih =>
    simp only [Sorted, List.pairwise_cons] at hl
    simp only [btDelete]
    rcases Bool.eq_false_or_eq_true (less x h) with h1 | h1
    · simp only [h1, if_true, Sorted, List.pairwise_cons]; exact hl
    · rcases Bool.eq_false_or_eq_true (less h x) with h2 | h2
      · simp only [h1, h2, Bool.false_eq_true, if_true, if_false, Sorted, List.pairwise_cons]
        exact ⟨fun a ha => hl.1 a (mem_btDelete x a t ha), ih hl.2⟩
      · simp only [h1, h2, Bool.false_eq_true, if_false]; exact hl.2

/-- In a sorted list `Delete x` removes exactly the elements equivalent to `x` … -/
theorem mem_btDelete_iff (hs : SWO less) (x y : α) (l : List α) (hl : Sorted less l) :
    y ∈ btDelete less x l ↔ y ∈ l ∧ (less x y = true ∨ less y x = true) := by
  induction l with
  | nil => simp [btDelete]
  | cons h t ih =>
    simp only [Sorted, List.pairwise_cons] at hl
    simp only [btDelete]
    rcases Bool.eq_false_or_eq_true (less x h) with h1 | h1
    · simp only [h1, if_true, List.mem_cons]
      constructor
      · rintro (rfl | a)
        · exact ⟨Or.inl rfl, Or.inl h1⟩
        · exact ⟨Or.inr a, Or.inl (hs.trans _ _ _ h1 (hl.1 y a))⟩
      · rintro ⟨a, _⟩; exact a
    · rcases Bool.eq_false_or_eq_true (less h x) with h2 | h2
      · simp only [h1, h2, Bool.false_eq_true, if_true, if_false, List.mem_cons, ih hl.2]
        constructor
        · rintro (rfl | ⟨a, b⟩)
          · exact ⟨Or.inl rfl, Or.inr h2⟩
          · exact ⟨Or.inr a, b⟩
        · rintro ⟨rfl | a, b⟩
          · exact Or.inl rfl
          · exact Or.inr ⟨a, b⟩
      · simp only [h1, h2, Bool.false_eq_true, if_false, List.mem_cons]
        have h1' : less x h = false := h1
        have h2' : less h x = false := h2
        constructor
        · intro a
          refine ⟨Or.inr a, Or.inl ?_⟩
          cases hxy : less x y with
          | true => rfl
          | false =>
            have := hs.negTrans h x y h2' hxy
            rw [hl.1 y a] at this; cases this
        · rintro ⟨rfl | a, b⟩
          · rcases b with b | b
            · rw [h1'] at b; cases b
            · rw [h2'] at b; cases b
          · exact a

/-- … and `ReplaceOrInsert x` keeps exactly the elements not equivalent to `x`, plus `x`. -/
theorem mem_btInsert_iff (hs : SWO less) (x y : α) (l : List α) (hl : Sorted less l) :
    y ∈ btInsert less x l ↔ y = x ∨ (y ∈ l ∧ (less x y = true ∨ less y x = true)) := by
  induction l with
  | nil => simp [btInsert]
  | cons h t ih =>
    simp only [Sorted, List.pairwise_cons] at hl
    simp only [btInsert]
    rcases Bool.eq_false_or_eq_true (less x h) with h1 | h1
    · simp only [h1, if_true, List.mem_cons]
      constructor
      · rintro (a | rfl | a)
        · exact Or.inl a
        · exact Or.inr ⟨Or.inl rfl, Or.inl h1⟩
        · exact Or.inr ⟨Or.inr a, Or.inl (hs.trans _ _ _ h1 (hl.1 y a))⟩
      · rintro (a | ⟨a, _⟩)
        · exact Or.inl a
        · exact Or.inr a
    · rcases Bool.eq_false_or_eq_true (less h x) with h2 | h2
      · simp only [h1, h2, Bool.false_eq_true, if_true, if_false, List.mem_cons, ih hl.2]
        constructor
        · rintro (rfl | a | ⟨a, b⟩)
          · exact Or.inr ⟨Or.inl rfl, Or.inr h2⟩
          · exact Or.inl a
          · exact Or.inr ⟨Or.inr a, b⟩
        · rintro (a | ⟨rfl | a, b⟩)
          · exact Or.inr (Or.inl a)
          · exact Or.inl rfl
          · exact Or.inr (Or.inr ⟨a, b⟩)
      · simp only [h1, h2, Bool.false_eq_true, if_false, List.mem_cons]
        have h1' : less x h = false := h1
        have h2' : less h x = false := h2
        constructor
        · rintro (a | a)
          · exact Or.inl a
          · refine Or.inr ⟨Or.inr a, Or.inl ?_⟩
            cases hxy : less x y with
            | true => rfl
            | false =>
              have := hs.negTrans h x y h2' hxy
              rw [hl.1 y a] at this; cases this
        · rintro (a | ⟨rfl | a, b⟩)
          · exact Or.inl a
          · rcases b with b | b
            · rw [h1'] at b; cases b
            · rw [h2'] at b; cases b
          · exact Or.inr a

end bt
/-! ### the comparators are strict weak orders -/

theorem str_lt_trichotomy (a b : String) : a < b ∨ a = b ∨ b < a := by
  by_cases h1 : a < b
  · exact Or.inl h1
  · by_cases h2 : b < a
    · exact Or.inr (Or.inr h2)
    · exact Or.inr (Or.inl (String.le_antisymm (String.not_lt.1 h2) (String.not_lt.1 h1)))

def rlt (p q : Nat × Int) : Prop := p.1 < q.1 ∨ (p.1 = q.1 ∧ p.2 < q.2)

/-- lexicographic "(rank, name)" comparison is a strict weak order; both comparators are instances -/
theorem swo_lex {α : Type} (rank : α → Nat × Int) (name : α → String) (less : α → α → Bool)
    (h : ∀ a b, less a b = true ↔ (rlt (rank a) (rank b) ∨ (rank a = rank b ∧ name a < name b))) : SWO less := by
  have lt_irr : ∀ p : Nat × Int, ¬ rlt p p := fun p hp => by
    rcases hp with x | x <;> omega
  have lt_tr : ∀ p q r : Nat × Int, rlt p q → rlt q r → rlt p r := by
    intro p q r h1 h2
    unfold rlt at *
    rcases h1 with x | x <;> rcases h2 with y | y
    · left; omega
    · left; omega
    · left; omega
    · right; constructor <;> omega
  have lt_tri : ∀ p q : Nat × Int, rlt p q ∨ p = q ∨ rlt q p := by
    intro p q
    by_cases h1 : p.1 < q.1
    · exact Or.inl (Or.inl h1)
    · by_cases h2 : q.1 < p.1
      · exact Or.inr (Or.inr (Or.inl h2))
      · have e1 : p.1 = q.1 := by omega
        by_cases h3 : p.2 < q.2
        · exact Or.inl (Or.inr ⟨e1, h3⟩)
        · by_cases h4 : q.2 < p.2
          · exact Or.inr (Or.inr (Or.inr ⟨e1.symm, h4⟩))
          · have e2 : p.2 = q.2 := by omega
            exact Or.inr (Or.inl (Prod.ext e1 e2))
  refine ⟨?_, ?_, ?_⟩
  · intro a
    cases hx : less a a with
    | false => rfl
    | true =>
      rcases (h a a).1 hx with x | x
      · exact absurd x (lt_irr _)
      · exact absurd x.2 (String.lt_irrefl _)
  · intro a b c h1 h2
    rw [h] at *
    rcases h1 with x | ⟨x1, x2⟩ <;> rcases h2 with y | ⟨y1, y2⟩
    · exact Or.inl (lt_tr _ _ _ x y)
    · exact Or.inl (y1 ▸ x)
    · exact Or.inl (x1 ▸ y)
    · exact Or.inr ⟨x1.trans y1, String.lt_trans x2 y2⟩
  · intro a b c h1 h2
    cases hx : less a c with
    | false => rfl
    | true =>
      exfalso
      have n1 : ¬ (rlt (rank a) (rank b) ∨ (rank a = rank b ∧ name a < name b)) := fun x => by
        rw [(h a b).2 x] at h1; cases h1
      have n2 : ¬ (rlt (rank b) (rank c) ∨ (rank b = rank c ∧ name b < name c)) := fun x => by
        rw [(h b c).2 x] at h2; cases h2
      simp only [not_or, not_and] at n1 n2
      rcases (h a c).1 hx with x | ⟨x1, x2⟩
      · rcases lt_tri (rank a) (rank b) with y | y | y
        · exact n1.1 y
        · rw [y] at x; exact n2.1 x
        · rcases lt_tri (rank b) (rank c) with z | z | z
          · exact n2.1 z
          · rw [← z] at x; exact lt_irr _ (lt_tr _ _ _ x y)
          · exact lt_irr _ (lt_tr _ _ _ (lt_tr _ _ _ x z) y)
      · rcases lt_tri (rank a) (rank b) with y | y | y
        · exact n1.1 y
        · have nb : ¬ name a < name b := n1.2 y
          have nc : ¬ name b < name c := n2.2 (y ▸ x1)
          rcases str_lt_trichotomy (name a) (name b) with z | z | z
          · exact nb z
          · rw [z] at x2; exact nc x2
          · rcases str_lt_trichotomy (name b) (name c) with w | w | w
            · exact nc w
            · rw [← w] at x2; exact String.lt_irrefl _ (String.lt_trans x2 z)
            · exact String.lt_irrefl _ (String.lt_trans (String.lt_trans x2 w) z)
        · rw [x1] at y; exact n2.1 y

def tierRank (k : TierKey) : Nat × Int :=
  ((if k.valid then 0 else 2) + (if k.order.isSome then 0 else 1), k.order.getD 0)

theorem swo_tierLess : SWO tierLess := by
  apply swo_lex tierRank (·.name)
  intro a b
  obtain ⟨an, av, ao⟩ := a
  obtain ⟨bn, bv, bo⟩ := b
  cases av <;> cases bv <;> cases ao <;> cases bo <;>
    simp [tierLess, tierRank, rlt, Prod.ext_iff] <;> (try omega)
  all_goals
    rename_i x y
    by_cases hxy : x = y
    · subst hxy; simp
    · simp [hxy]

def polRank (p : PolKV) : Nat × Int := (if p.val.order.isSome then 0 else 1, p.val.order.getD 0)

theorem swo_polKVLess : SWO polKVLess := by
  apply swo_lex polRank (fun p => tieStr p.key)
  intro a b
  obtain ⟨ak, am⟩ := a
  obtain ⟨bk, bm⟩ := b
  cases hao : am.order <;> cases hbo : bm.order <;>
    simp [polKVLess, orderLt, polRank, rlt, hao, hbo, Prod.ext_iff]
  rename_i x y
  by_cases hxy : x = y
  · subst hxy; simp
  · simp [hxy]

end CalicoVerif.C03
