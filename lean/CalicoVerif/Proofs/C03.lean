import CalicoVerif.Model.C03
import CalicoVerif.Proofs.C02
/-! C03 helper lemmas: the btree model (sorted list under a strict weak order) and the two comparators. -/
namespace CalicoVerif.C03
open CalicoVerif.C02

/-- What `google/btree` needs from its comparator. -/
structure SWO {α : Type} (less : α → α → Bool) : Prop where
  irrefl : ∀ a, less a a = false
  trans : ∀ a b c, less a b = true → less b c = true → less a c = true
  /-- incomparability is transitive ("negative transitivity") -/
  negTrans : ∀ a b c, less a b = false → less b c = false → less a c = false

/-- strictly ascending under `less` -/
def Sorted {α : Type} (less : α → α → Bool) (l : List α) : Prop := l.Pairwise (fun a b => less a b = true)

section bt
variable {α : Type} {less : α → α → Bool}

theorem mem_btInsert (x y : α) (l : List α) : y ∈ btInsert less x l → y = x ∨ y ∈ l := by
  induction l with
  | nil => simp [btInsert]
  | cons h t ih =>
    simp only [btInsert]
    rcases Bool.eq_false_or_eq_true (less x h) with h1 | h1
    · simp only [h1, if_true, List.mem_cons]; intro hy; rcases hy with a | a | a <;> simp [a]
    · rcases Bool.eq_false_or_eq_true (less h x) with h2 | h2
      · simp only [h1, h2, Bool.false_eq_true, if_true, if_false, List.mem_cons]
        rintro (a | a)
        · exact Or.inr (Or.inl a)
        · rcases ih a with b | b
          · exact Or.inl b
          · exact Or.inr (Or.inr b)
      · simp only [h1, h2, Bool.false_eq_true, if_false, List.mem_cons]
        rintro (a | a)
        · exact Or.inl a
        · exact Or.inr (Or.inr a)

theorem mem_btInsert_self (x : α) (l : List α) : x ∈ btInsert less x l := by
  induction l with
  | nil => simp [btInsert]
  | cons h t ih =>
    simp only [btInsert]
    rcases Bool.eq_false_or_eq_true (less x h) with h1 | h1
    · simp [h1]
    · rcases Bool.eq_false_or_eq_true (less h x) with h2 | h2
      · simp [h1, h2, ih]
      · simp [h1, h2]

theorem sorted_btInsert (hs : SWO less) (x : α) (l : List α) (hl : Sorted less l) : Sorted less (btInsert less x l) := by
  induction l with
  | nil => simp [btInsert, Sorted]
  | cons h t ih =>
    simp only [Sorted, List.pairwise_cons] at hl
    simp only [btInsert]
    rcases Bool.eq_false_or_eq_true (less x h) with h1 | h1
    · simp only [h1, if_true, Sorted, List.pairwise_cons, List.mem_cons]
      refine ⟨?_, hl.1, hl.2⟩
      rintro a (rfl | a1)
      · exact h1
      · exact hs.trans _ _ _ h1 (hl.1 a a1)
    · rcases Bool.eq_false_or_eq_true (less h x) with h2 | h2
      · simp only [h1, h2, Bool.false_eq_true, if_true, if_false, Sorted, List.pairwise_cons]
        refine ⟨?_, ih hl.2⟩
        intro a ha
        rcases mem_btInsert x a t ha with rfl | a1
        · exact h2
        · exact hl.1 a a1
      · simp only [h1, h2, Bool.false_eq_true, if_false, Sorted, List.pairwise_cons]
        refine ⟨?_, hl.2⟩
        intro a ha
        -- x is incomparable with h and h < a, hence x < a
        have h1' : less x h = false := h1
        have h2' : less h x = false := h2
        cases hxa : less x a with
        | true => rfl
        | false =>
          have := hs.negTrans h x a h2' hxa
          rw [hl.1 a ha] at this; cases this

theorem mem_btDelete (x y : α) (l : List α) : y ∈ btDelete less x l → y ∈ l := by
  induction l with
  | nil => simp [btDelete]
  | cons h t ih =>
    simp only [btDelete]
    rcases Bool.eq_false_or_eq_true (less x h) with h1 | h1
    · simp [h1]
    · rcases Bool.eq_false_or_eq_true (less h x) with h2 | h2
      · simp only [h1, h2, Bool.false_eq_true, if_true, if_false, List.mem_cons]
        rintro (a | a)
        · exact Or.inl a
        · exact Or.inr (ih a)
      · simp only [h1, h2, Bool.false_eq_true, if_false, List.mem_cons]
        intro a; exact Or.inr a

theorem sorted_btDelete (x : α) (l : List α) (hl : Sorted less l) : Sorted less (btDelete less x l) := by
  induction l with
  | nil => simp [btDelete, Sorted]
  | cons h t ih =>
    simp only [Sorted, List.pairwise_cons] at hl
    simp only [btDelete]
    rcases Bool.eq_false_or_eq_true (less x h) with h1 | h1
    · simp only [h1, if_true, Sorted, List.pairwise_cons]; exact hl
    · rcases Bool.eq_false_or_eq_true (less h x) with h2 | h2
      · simp only [h1, h2, Bool.false_eq_true, if_true, if_false, Sorted, List.pairwise_cons]
        exact ⟨fun a ha => hl.1 a (mem_btDelete x a t ha), ih hl.2⟩
      · simp only [h1, h2, Bool.false_eq_true, if_false]; exact hl.2

/-- In a sorted list `Delete x` removes exactly the elements equivalent to `x` … -/
theorem mem_btDelete_iff (hs : SWO less) (x y : α) (l : List α) (hl : Sorted less l) :
    y ∈ btDelete less x l ↔ y ∈ l ∧ (less x y = true ∨ less y x = true) := by
  induction l with
  | nil => simp [btDelete]
  | cons h t ih =>
    simp only [Sorted, List.pairwise_cons] at hl
    simp only [btDelete]
    rcases Bool.eq_false_or_eq_true (less x h) with h1 | h1
    · simp only [h1, if_true, List.mem_cons]
      constructor
      · rintro (rfl | a)
        · exact ⟨Or.inl rfl, Or.inl h1⟩
        · exact ⟨Or.inr a, Or.inl (hs.trans _ _ _ h1 (hl.1 y a))⟩
      · rintro ⟨a, _⟩; exact a
    · rcases Bool.eq_false_or_eq_true (less h x) with h2 | h2
      · simp only [h1, h2, Bool.false_eq_true, if_true, if_false, List.mem_cons, ih hl.2]
        constructor
        · rintro (rfl | ⟨a, b⟩)
          · exact ⟨Or.inl rfl, Or.inr h2⟩
          · exact ⟨Or.inr a, b⟩
        · rintro ⟨rfl | a, b⟩
          · exact Or.inl rfl
          · exact Or.inr ⟨a, b⟩
      · simp only [h1, h2, Bool.false_eq_true, if_false, List.mem_cons]
        have h1' : less x h = false := h1
        have h2' : less h x = false := h2
        constructor
        · intro a
          refine ⟨Or.inr a, Or.inl ?_⟩
          cases hxy : less x y with
          | true => rfl
          | false =>
            have := hs.negTrans h x y h2' hxy
            rw [hl.1 y a] at this; cases this
        · rintro ⟨rfl | a, b⟩
          · rcases b with b | b
            · rw [h1'] at b; cases b
            · rw [h2'] at b; cases b
          · exact a

/-- … and `ReplaceOrInsert x` keeps exactly the elements not equivalent to `x`, plus `x`. -/
theorem mem_btInsert_iff (hs : SWO less) (x y : α) (l : List α) (hl : Sorted less l) :
    y ∈ btInsert less x l ↔ y = x ∨ (y ∈ l ∧ (less x y = true ∨ less y x = true)) := by
  induction l with
  | nil => simp [btInsert]
  | cons h t ih =>
    simp only [Sorted, List.pairwise_cons] at hl
    simp only [btInsert]
    rcases Bool.eq_false_or_eq_true (less x h) with h1 | h1
    · simp only [h1, if_true, List.mem_cons]
      constructor
      · rintro (a | rfl | a)
        · exact Or.inl a
        · exact Or.inr ⟨Or.inl rfl, Or.inl h1⟩
        · exact Or.inr ⟨Or.inr a, Or.inl (hs.trans _ _ _ h1 (hl.1 y a))⟩
      · rintro (a | ⟨a, _⟩)
        · exact Or.inl a
        · exact Or.inr a
    · rcases Bool.eq_false_or_eq_true (less h x) with h2 | h2
      · simp only [h1, h2, Bool.false_eq_true, if_true, if_false, List.mem_cons, ih hl.2]
        constructor
        · rintro (rfl | a | ⟨a, b⟩)
          · exact Or.inr ⟨Or.inl rfl, Or.inr h2⟩
          · exact Or.inl a
          · exact Or.inr ⟨Or.inr a, b⟩
        · rintro (a | ⟨rfl | a, b⟩)
          · exact Or.inr (Or.inl a)
          · exact Or.inl rfl
          · exact Or.inr (Or.inr ⟨a, b⟩)
      · simp only [h1, h2, Bool.false_eq_true, if_false, List.mem_cons]
        have h1' : less x h = false := h1
        have h2' : less h x = false := h2
        constructor
        · rintro (a | a)
          · exact Or.inl a
          · refine Or.inr ⟨Or.inr a, Or.inl ?_⟩
            cases hxy : less x y with
            | true => rfl
            | false =>
              have := hs.negTrans h x y h2' hxy
              rw [hl.1 y a] at this; cases this
        · rintro (a | ⟨rfl | a, b⟩)
          · exact Or.inl a
          · rcases b with b | b
            · rw [h1'] at b; cases b
            · rw [h2'] at b; cases b
          · exact Or.inr a

end bt
end CalicoVerif.C03
