import CalicoVerif.Proofs.C02Main
/-! C02: reference closure after every single message of a flush (IP set → policy/profile → endpoint). -/
namespace CalicoVerif.C02

/-- Messages that touch the IP set / policy / profile / endpoint part of the dataplane state. -/
def isMain : Msg → Bool
  | .ipsetUpdate .. | .ipsetDelta .. | .ipsetRemove .. | .policyUpdate .. | .policyRemove .. | .profileUpdate ..
  | .profileRemove .. | .wepUpdate .. | .hepUpdate .. | .wepRemove .. | .hepRemove .. => true
  | _ => false

theorem nonMain_apply {m : Msg} (h : isMain m = false) (d : DP) :
    (d.apply m).ipsets = d.ipsets ∧ (d.apply m).pol = d.pol ∧ (d.apply m).prof = d.prof ∧ (d.apply m).ep = d.ep := by
  cases m <;> simp [isMain] at h <;> exact ⟨rfl, rfl, rfl, rfl⟩

theorem closedMain_congr {d d' : DP} (h1 : d'.ipsets = d.ipsets) (h2 : d'.pol = d.pol) (h3 : d'.prof = d.prof)
    (h4 : d'.ep = d.ep) (h : d.closedMain) : d'.closedMain := by
  unfold DP.closedMain at *
  rw [h1, h2, h3, h4]; exact h

theorem closed_nonMain {ms : List Msg} (h : ∀ m ∈ ms, isMain m = false) {d : DP} (hd : d.closedMain) :
    AfterEach DP.closedMain d ms ∧ (d.applyAll ms).closedMain :=
  AfterEach_of_inv (J := DP.closedMain) (fun _ x => x)
    (fun m hm d hd => by
      obtain ⟨a, b, c, e⟩ := nonMain_apply (h m hm) d
      exact closedMain_congr a b c e hd) hd

theorem mem_flushUpd {κ β : Type} [DecidableEq κ] {c : Cat κ β} {f : κ → β → List Msg} {m : Msg} (h : m ∈ (c.flushUpd f).2) :
    ∃ k v, (k, v) ∈ c.upd ∧ m ∈ f k v := by
  simp only [Cat.flushUpd, List.mem_flatMap] at h
  obtain ⟨⟨k, v⟩, h1, h2⟩ := h
  exact ⟨k, v, h1, h2⟩

theorem mem_flushDel {κ β : Type} [DecidableEq κ] {c : Cat κ β} {f : κ → Msg} {m : Msg} (h : m ∈ (c.flushDel f).2) :
    ∃ k, k ∈ c.del ∧ m = f k := by
  simp only [Cat.flushDel, List.mem_map] at h
  obtain ⟨k, h1, h2⟩ := h
  exact ⟨k, h1, h2.symm⟩

theorem mget_of_mem {κ β : Type} [DecidableEq κ] {m : List (κ × β)} (hn : (mkeys m).Nodup) {k : κ} {v : β} (h : (k, v) ∈ m) :
    mget m k = some v := by
  induction m with
  | nil => cases h
  | cons p t ih =>
    obtain ⟨k₀, v₀⟩ := p
    simp only [mkeys, List.map_cons, List.nodup_cons] at hn
    simp only [List.mem_cons, Prod.mk.injEq] at h
    rw [mget_cons]
    rcases h with ⟨rfl, rfl⟩ | h
    · simp
    · have : k₀ ≠ k := by
        intro e; subst e
        exact hn.1 (List.mem_map.2 ⟨(k₀, v), h, rfl⟩)
      simp only [this, if_false]
      exact ih hn.2 h

/-- the closure clauses, one at a time -/
theorem closedMain_iff (d : DP) : d.closedMain ↔
    (∀ k r, d.pol k = some r → ∀ x ∈ r.refs, (d.ipsets x).isSome) ∧
    (∀ k r, d.prof k = some r → ∀ x ∈ r.refs, (d.ipsets x).isSome) ∧
    (∀ k e, d.ep k = some e → (∀ p ∈ e.polRefs, (d.pol p).isSome) ∧ (∀ p ∈ e.data.profiles, (d.prof p).isSome)) := Iff.rfl

theorem AfterEach_last {P : DP → Prop} {d : DP} {ms : List Msg} (h : AfterEach P d ms) : P (d.applyAll ms) := by
  induction ms generalizing d with
  | nil => exact h
  | cons m t ih => exact ih h.2

/-- IP set updates / deltas never remove an IP set, so closure survives them. -/
theorem closed_ipsetsAB {s : State} {d : DP} (hd : d.closedMain) :
    AfterEach DP.closedMain d (flushIPSetsAB s).2 := by
  refine (AfterEach_of_inv (J := DP.closedMain) (fun _ x => x) ?_ hd).1
  intro m hm d hd
  have hm' : (∃ id t ms, m = .ipsetUpdate id t ms) ∨ (∃ id a r, m = .ipsetDelta id a r) := by
    simp only [flushIPSetsAB, flushAddedIPSets, flushIPSetDeltas, List.mem_append, List.mem_map] at hm
    rcases hm with ⟨p, _, rfl⟩ | ⟨id, _, rfl⟩
    · exact Or.inl ⟨_, _, _, rfl⟩
    · exact Or.inr ⟨_, _, _, rfl⟩
  have key : ∀ d' : DP, d'.pol = d.pol → d'.prof = d.prof → d'.ep = d.ep →
      (∀ x, (d.ipsets x).isSome → (d'.ipsets x).isSome) → d'.closedMain := by
    intro d' h2 h3 h4 h1
    obtain ⟨c1, c2, c3⟩ := hd
    refine ⟨?_, ?_, ?_⟩
    · intro k r hk x hx; rw [h2] at hk; exact h1 x (c1 k r hk x hx)
    · intro k r hk x hx; rw [h3] at hk; exact h1 x (c2 k r hk x hx)
    · intro k e hk; rw [h4] at hk; rw [h2, h3]; exact c3 k e hk
  rcases hm' with ⟨id, t, ms, rfl⟩ | ⟨id, a, r, rfl⟩
  · refine key _ rfl rfl rfl ?_
    intro x hx
    show ((fupd d.ipsets id _) x).isSome
    by_cases hxi : x = id <;> simp [fupd, hxi, hx]
  · simp only [DP.apply]
    cases hf : d.ipsets id with
    | none => exact hd
    | some f =>
      refine key _ rfl rfl rfl ?_
      intro x hx
      show ((fupd d.ipsets id _) x).isSome
      by_cases hxi : x = id <;> simp [fupd, hxi, hx]

/-- Policy updates: every referenced IP set is declared upstream, hence (pending adds having been
flushed) present downstream. -/
theorem closed_policyUpdates {s : State} {u d : DP} (hi : Inv s u d) (hu : u.closedMain) (hd : d.closedMain)
    (ha : s.addedSets = []) : AfterEach DP.closedMain d (flushPolicyUpdates s).2 := by
  have hdecl : ∀ x, (u.ipsets x).isSome → (d.ipsets x).isSome := by
    intro x hx
    have := (hi.ips.decl x).1 hx
    simp only [ha, mget_nil, Option.isSome_none, Bool.false_eq_true, false_or] at this
    exact (hi.ips.sent x).1 this.1
  refine (AfterEach_of_inv (J := fun d' => d'.closedMain ∧ d'.ipsets = d.ipsets) (fun _ x => x.1) ?_ ⟨hd, rfl⟩).1
  intro m hm d' hd'
  obtain ⟨k, r, hkr, hm⟩ := mem_flushUpd hm
  simp only [polUpdMsg, List.mem_singleton] at hm
  subst hm
  have hur : u.pol k = some r := by
    rw [hi.pol.view k, mget_of_mem hi.pol.updNodup hkr]
  obtain ⟨⟨c1, c2, c3⟩, hips⟩ := hd'
  refine ⟨⟨?_, c2, ?_⟩, hips⟩
  · intro k' r' hk' x hx
    show (d'.ipsets x).isSome
    simp only [DP.apply, fupd] at hk'
    by_cases hkk : k' = k
    · simp only [hkk, if_true, Option.some.injEq] at hk'
      subst hk'
      rw [hips]; exact hdecl x (hu.1 k r hur x hx)
    · simp only [hkk, if_false] at hk'; exact c1 k' r' hk' x hx
  · intro k' e hk'
    have := c3 k' e hk'
    refine ⟨fun p hp => ?_, this.2⟩
    show ((fupd d'.pol k (some r)) p).isSome
    by_cases hpk : p = k <;> simp [fupd, hpk, this.1 p hp]

theorem closed_profileUpdates {s : State} {u d : DP} (hi : Inv s u d) (hu : u.closedMain) (hd : d.closedMain)
    (ha : s.addedSets = []) : AfterEach DP.closedMain d (flushProfileUpdates s).2 := by
  have hdecl : ∀ x, (u.ipsets x).isSome → (d.ipsets x).isSome := by
    intro x hx
    have := (hi.ips.decl x).1 hx
    simp only [ha, mget_nil, Option.isSome_none, Bool.false_eq_true, false_or] at this
    exact (hi.ips.sent x).1 this.1
  refine (AfterEach_of_inv (J := fun d' => d'.closedMain ∧ d'.ipsets = d.ipsets) (fun _ x => x.1) ?_ ⟨hd, rfl⟩).1
  intro m hm d' hd'
  obtain ⟨k, r, hkr, hm⟩ := mem_flushUpd hm
  simp only [profUpdMsg, List.mem_singleton] at hm
  subst hm
  have hur : u.prof k = some r := by
    rw [hi.prof.view k, mget_of_mem hi.prof.updNodup hkr]
  obtain ⟨⟨c1, c2, c3⟩, hips⟩ := hd'
  refine ⟨⟨c1, ?_, ?_⟩, hips⟩
  · intro k' r' hk' x hx
    show (d'.ipsets x).isSome
    simp only [DP.apply, fupd] at hk'
    by_cases hkk : k' = k
    · simp only [hkk, if_true, Option.some.injEq] at hk'
      subst hk'
      rw [hips]; exact hdecl x (hu.2.1 k r hur x hx)
    · simp only [hkk, if_false] at hk'; exact c2 k' r' hk' x hx
  · intro k' e hk'
    have := c3 k' e hk'
    refine ⟨this.1, fun p hp => ?_⟩
    show ((fupd d'.prof k (some r)) p).isSome
    by_cases hpk : p = k <;> simp [fupd, hpk, this.2 p hp]

/-- Endpoint updates: every referenced policy/profile is declared upstream, hence (their updates having
been flushed, their deletes not yet) present downstream. -/
theorem closed_endpointUpdates {s : State} {u d : DP} (hi : Inv s u d) (hu : u.closedMain) (hd : d.closedMain)
    (hp : s.pol.upd = []) (hq : s.prof.upd = []) : AfterEach DP.closedMain d (flushEndpointTierUpdates s).2 := by
  have hpol : ∀ p, (u.pol p).isSome → (d.pol p).isSome := by
    intro p hx
    rw [hi.pol.view p, hp] at hx
    simp only [mget_nil] at hx
    by_cases hdel : p ∈ s.pol.del <;> simp_all
  have hprof : ∀ p, (u.prof p).isSome → (d.prof p).isSome := by
    intro p hx
    rw [hi.prof.view p, hq] at hx
    simp only [mget_nil] at hx
    by_cases hdel : p ∈ s.prof.del <;> simp_all
  refine (AfterEach_of_inv (J := fun d' => d'.closedMain ∧ d'.pol = d.pol ∧ d'.prof = d.prof) (fun _ x => x.1) ?_ ⟨hd, rfl, rfl⟩).1
  intro m hm d' hd'
  obtain ⟨k, v, hkv, hm⟩ := mem_flushUpd hm
  have hue : u.ep k = some (epDown k v) := by
    rw [hi.ep.view k, mget_of_mem hi.ep.updNodup hkv]
  have happ : d'.apply m = { d' with ep := fupd d'.ep k (some (epDown k v)) } := by
    have := epLens.upd_apply d' k v
    cases k <;> (simp only [epUpdMsg, List.mem_singleton] at hm; subst hm; exact this)
  rw [happ]
  obtain ⟨⟨c1, c2, c3⟩, e1, e2⟩ := hd'
  refine ⟨⟨c1, c2, ?_⟩, e1, e2⟩
  intro k' e hk'
  simp only [fupd] at hk'
  by_cases hkk : k' = k
  · simp only [hkk, if_true, Option.some.injEq] at hk'
    subst hk'
    have := hu.2.2 k _ hue
    refine ⟨fun p hp => ?_, fun p hp => ?_⟩
    · show (d'.pol p).isSome
      rw [e1]; exact hpol p (this.1 p hp)
    · show (d'.prof p).isSome
      rw [e2]; exact hprof p (this.2 p hp)
  · simp only [hkk, if_false] at hk'; exact c3 k' e hk'

/-- Endpoint removals never break closure. -/
theorem closed_endpointDeletes {s : State} {d : DP} (hd : d.closedMain) :
    AfterEach DP.closedMain d (flushEndpointTierDeletes s).2 := by
  refine (AfterEach_of_inv (J := DP.closedMain) (fun _ x => x) ?_ hd).1
  intro m hm d' hd'
  obtain ⟨k, _, hm⟩ := mem_flushDel hm
  have happ : d'.apply m = { d' with ep := fupd d'.ep k none } := by
    subst hm; exact epLens.del_apply d' k
  rw [happ]
  obtain ⟨c1, c2, c3⟩ := hd'
  refine ⟨c1, c2, ?_⟩
  intro k' e hk'
  simp only [fupd] at hk'
  by_cases hkk : k' = k
  · simp [hkk] at hk'
  · simp only [hkk, if_false] at hk'; exact c3 k' e hk'

/-- Profile removals: the endpoints downstream are exactly the declared ones, which only reference
declared profiles. -/
theorem closed_profileDeletes {s : State} {u d : DP} (hi : Inv s u d) (hu : u.closedMain) (hd : d.closedMain)
    (he1 : s.ep.upd = []) (he2 : s.ep.del = []) : AfterEach DP.closedMain d (flushProfileDeletes s).2 := by
  have hep : u.ep = d.ep := hi.ep.synced he1 he2
  refine (AfterEach_of_inv (J := fun d' => d'.closedMain ∧ d'.ep = d.ep) (fun _ x => x.1) ?_ ⟨hd, rfl⟩).1
  intro m hm d' hd'
  obtain ⟨k, hk, hm⟩ := mem_flushDel hm
  subst hm
  have huk : u.prof k = none := by
    rw [hi.prof.view k, hi.prof.disj k hk]; simp [hk]
  obtain ⟨⟨c1, c2, c3⟩, e1⟩ := hd'
  refine ⟨⟨c1, ?_, ?_⟩, e1⟩
  · intro k' r hk' x hx
    simp only [DP.apply, fupd] at hk'
    by_cases hkk : k' = k
    · simp [hkk] at hk'
    · simp only [hkk, if_false] at hk'; exact c2 k' r hk' x hx
  · intro k' e hk'
    have hk'' : d'.ep k' = some e := hk'
    have := c3 k' e hk''
    refine ⟨this.1, fun p hp => ?_⟩
    show ((fupd d'.prof k none) p).isSome
    have hne : p ≠ k := by
      intro e'; subst e'
      rw [e1, ← hep] at hk''
      have := (hu.2.2 k' e hk'').2 p hp
      rw [huk] at this; simp at this
    simp only [fupd, hne, if_false]
    exact this.2 p hp

theorem closed_policyDeletes {s : State} {u d : DP} (hi : Inv s u d) (hu : u.closedMain) (hd : d.closedMain)
    (he1 : s.ep.upd = []) (he2 : s.ep.del = []) : AfterEach DP.closedMain d (flushPolicyDeletes s).2 := by
  have hep : u.ep = d.ep := hi.ep.synced he1 he2
  refine (AfterEach_of_inv (J := fun d' => d'.closedMain ∧ d'.ep = d.ep) (fun _ x => x.1) ?_ ⟨hd, rfl⟩).1
  intro m hm d' hd'
  obtain ⟨k, hk, hm⟩ := mem_flushDel hm
  subst hm
  have huk : u.pol k = none := by
    rw [hi.pol.view k, hi.pol.disj k hk]; simp [hk]
  obtain ⟨⟨c1, c2, c3⟩, e1⟩ := hd'
  refine ⟨⟨?_, c2, ?_⟩, e1⟩
  · intro k' r hk' x hx
    simp only [DP.apply, fupd] at hk'
    by_cases hkk : k' = k
    · simp [hkk] at hk'
    · simp only [hkk, if_false] at hk'; exact c1 k' r hk' x hx
  · intro k' e hk'
    have hk'' : d'.ep k' = some e := hk'
    have := c3 k' e hk''
    refine ⟨fun p hp => ?_, this.2⟩
    show ((fupd d'.pol k none) p).isSome
    have hne : p ≠ k := by
      intro e'; subst e'
      rw [e1, ← hep] at hk''
      have := (hu.2.2 k' e hk'').1 p hp
      rw [huk] at this; simp at this
    simp only [fupd, hne, if_false]
    exact this.1 p hp

/-- IP set removals: the policies and profiles downstream are exactly the declared ones, which only
reference declared IP sets. -/
theorem closed_removedIPSets {s : State} {u d : DP} (hi : Inv s u d) (hu : u.closedMain) (hd : d.closedMain)
    (hp1 : s.pol.upd = []) (hp2 : s.pol.del = []) (hq1 : s.prof.upd = []) (hq2 : s.prof.del = []) :
    AfterEach DP.closedMain d (flushRemovedIPSets s).2 := by
  have hpol : u.pol = d.pol := hi.pol.synced hp1 hp2
  have hprof : u.prof = d.prof := hi.prof.synced hq1 hq2
  refine (AfterEach_of_inv (J := fun d' => d'.closedMain ∧ d'.pol = d.pol ∧ d'.prof = d.prof) (fun _ x => x.1) ?_ ⟨hd, rfl, rfl⟩).1
  intro m hm d' hd'
  simp only [flushRemovedIPSets, List.mem_map] at hm
  obtain ⟨id, hid, hm⟩ := hm
  subst hm
  have hui : u.ipsets id = none := by
    have := (not_congr (hi.ips.decl id)).2 (by
      simp only [hi.ips.remNotAdded id hid, Option.isSome_none, Bool.false_eq_true, false_or, not_and, Decidable.not_not]
      exact fun _ => hid)
    cases hx : u.ipsets id with
    | none => rfl
    | some _ => simp [hx] at this
  obtain ⟨⟨c1, c2, c3⟩, e1, e2⟩ := hd'
  refine ⟨⟨?_, ?_, c3⟩, e1, e2⟩
  · intro k r hk x hx
    have hk' : d'.pol k = some r := hk
    show ((fupd d'.ipsets id none) x).isSome
    have hne : x ≠ id := by
      intro e'; subst e'
      rw [e1, ← hpol] at hk'
      have := hu.1 k r hk' x hx
      rw [hui] at this; simp at this
    simp only [fupd, hne, if_false]
    exact c1 k r hk' x hx
  · intro k r hk x hx
    have hk' : d'.prof k = some r := hk
    show ((fupd d'.ipsets id none) x).isSome
    have hne : x ≠ id := by
      intro e'; subst e'
      rw [e2, ← hprof] at hk'
      have := hu.2.1 k r hk' x hx
      rw [hui] at this; simp at this
    simp only [fupd, hne, if_false]
    exact c2 k r hk' x hx

/-! ### the phases after the mainline emit only messages that do not touch IP sets, policies, profiles, endpoints -/

def NonMainPhase (p : Phase) : Prop := ∀ s, ∀ m ∈ (p s).2, isMain m = false

theorem nm_runPhases {ps : List Phase} (h : ∀ p ∈ ps, NonMainPhase p) : NonMainPhase (runPhases ps) := by
  induction ps with
  | nil => intro s m hm; simp [runPhases] at hm
  | cons p t ih =>
    intro s m hm
    rw [runPhases_cons] at hm
    simp only [List.mem_append] at hm
    rcases hm with hm | hm
    · exact h p (by simp) s m hm
    · exact ih (fun q hq => h q (by simp [hq])) _ m hm

theorem nm_ready : NonMainPhase flushReadyFlag := by
  intro s m hm
  unfold flushReadyFlag at hm
  by_cases h : s.notReady <;> simp [h] at hm
  subst hm; rfl

theorem nm_encap : NonMainPhase flushEncap := by
  intro s m hm
  unfold flushEncap at hm
  cases h : s.encap <;> simp [h] at hm
  subst hm; rfl

theorem nm_bgp : NonMainPhase flushBGP := by
  intro s m hm
  unfold flushBGP at hm
  cases h : s.bgp <;> simp [h] at hm
  subst hm; rfl

theorem nm_gen (g : GenCat) : NonMainPhase (flushGen g) := by
  intro s m hm
  simp only [flushGen, List.mem_append] at hm
  rcases hm with hm | hm
  · obtain ⟨k, _, rfl⟩ := mem_flushDel hm; rfl
  · obtain ⟨k, v, _, hm⟩ := mem_flushUpd hm
    simp only [List.mem_singleton] at hm; subst hm; rfl

theorem nm_routeRemoves : NonMainPhase flushRouteRemoves := by
  intro s m hm
  obtain ⟨k, _, rfl⟩ := mem_flushDel (c := s.route) (f := Msg.routeRemove) hm; rfl
theorem nm_vtepRemoves : NonMainPhase flushVTEPRemoves := by
  intro s m hm
  obtain ⟨k, _, rfl⟩ := mem_flushDel (c := s.vtep) (f := Msg.vtepRemove) hm; rfl
theorem nm_vtepAdds : NonMainPhase flushVTEPAdds := by
  intro s m hm
  obtain ⟨k, v, _, hm⟩ := mem_flushUpd (c := s.vtep) (f := fun k v => [Msg.vtepUpdate k v]) hm
  simp only [List.mem_singleton] at hm; subst hm; rfl
theorem nm_routeAdds : NonMainPhase flushRouteAdds := by
  intro s m hm
  obtain ⟨k, v, _, hm⟩ := mem_flushUpd (c := s.route) (f := fun k v => [Msg.routeUpdate k v]) hm
  simp only [List.mem_singleton] at hm; subst hm; rfl

theorem foldl_pred {α : Type} (P : Msg → Prop)
    (f : List String × List String × List Msg → α → List String × List String × List Msg)
    (hf : ∀ acc x, (∀ m ∈ acc.2.2, P m) → ∀ m ∈ (f acc x).2.2, P m)
    (l : List α) (acc : List String × List String × List Msg) (h : ∀ m ∈ acc.2.2, P m) :
    ∀ m ∈ (l.foldl f acc).2.2, P m := by
  induction l generalizing acc with
  | nil => exact h
  | cons x t ih => exact ih _ (hf acc x h)

theorem all_snoc {P : Msg → Prop} {ms : List Msg} {m : Msg} (h : ∀ x ∈ ms, P x) (hm : P m) : ∀ x ∈ ms ++ [m], P x := by
  intro x hx
  simp only [List.mem_append, List.mem_singleton] at hx
  rcases hx with hx | hx
  · exact h x hx
  · subst hx; exact hm

theorem nm_wgDeletes : NonMainPhase flushWgDeletes := by
  intro s
  simp only [flushWgDeletes]
  apply foldl_pred (fun m => isMain m = false)
  · intro acc k hacc
    obtain ⟨s4, s6, ms⟩ := acc
    simp only at hacc ⊢
    by_cases h4 : k ∈ s4 <;> by_cases h6 : k ∈ s6 <;> simp only [h4, h6, if_true, if_false]
    · exact all_snoc (all_snoc hacc rfl) rfl
    · exact all_snoc hacc rfl
    · exact all_snoc hacc rfl
    · exact hacc
  · simp

theorem nm_wgUpdates : NonMainPhase flushWgUpdates := by
  intro s
  simp only [flushWgUpdates]
  apply foldl_pred (fun m => isMain m = false)
  · intro acc p hacc
    obtain ⟨s4, s6, ms⟩ := acc
    obtain ⟨n, wg⟩ := p
    simp only at hacc ⊢
    by_cases h4 : wg.pub4 = "" <;> by_cases h6 : wg.pub6 = "" <;> by_cases m4 : n ∈ s4 <;> by_cases m6 : n ∈ s6 <;>
      simp only [h4, h6, m4, m6, ne_eq, not_true_eq_false, not_false_eq_true, if_true, if_false] <;>
      first
      | exact hacc
      | exact all_snoc hacc rfl
      | exact all_snoc (all_snoc hacc rfl) rfl
  · simp

def restPhases : List Phase :=
  [flushGen .sa, flushGen .ns, flushRouteRemoves, flushVTEPAdds, flushRouteAdds, flushVTEPRemoves,
   flushWgDeletes, flushWgUpdates, flushGen .host, flushGen .pool, flushEncap, flushBGP, flushGen .svc]

theorem nm_rest : NonMainPhase (runPhases restPhases) := by
  apply nm_runPhases
  intro p hp
  simp only [restPhases, List.mem_cons, List.not_mem_nil, or_false] at hp
  rcases hp with rfl | rfl | rfl | rfl | rfl | rfl | rfl | rfl | rfl | rfl | rfl | rfl | rfl
  · exact nm_gen _
  · exact nm_gen _
  · exact nm_routeRemoves
  · exact nm_vtepAdds
  · exact nm_routeAdds
  · exact nm_vtepRemoves
  · exact nm_wgDeletes
  · exact nm_wgUpdates
  · exact nm_gen _
  · exact nm_gen _
  · exact nm_encap
  · exact nm_bgp
  · exact nm_gen _

theorem flush_eq (s : State) : s.flush = runPhases (flushReadyFlag :: flushIPSetsAB ::
    flushPolicyUpdates :: flushProfileUpdates :: flushEndpointTierUpdates ::
    flushEndpointTierDeletes :: flushProfileDeletes :: flushPolicyDeletes :: flushRemovedIPSets :: restPhases) s := by
  show runPhases flushPhases s = _
  unfold flushPhases
  rw [runPhases_cons, runPhases_AB]
  rfl

/-- Reference closure (IP set → policy/profile → endpoint) holds after EVERY SINGLE message of a
flush, provided the upstream-declared state is closed at the time of the flush. -/
theorem flush_closed {s : State} {u d : DP} (hi : Inv s u d) (hu : u.closedMain) (hd : d.closedMain) :
    AfterEach DP.closedMain d s.flush.2 := by
  rw [flush_eq]
  -- ready flag
  have k0 := closed_nonMain (nm_ready s) hd
  have i0 := (ok_readyFlag s u d hi).2
  rw [runPhases_cons, AfterEach_append]; refine ⟨k0.1, ?_⟩
  generalize hs0 : (flushReadyFlag s).1 = s0 at i0 ⊢
  generalize hd0 : d.applyAll (flushReadyFlag s).2 = d0 at i0 k0 ⊢
  -- IP set adds + deltas
  have k1 := closed_ipsetsAB (s := s0) k0.2
  have i1 := (ok_ipsetsAB s0 u d0 i0).2
  rw [runPhases_cons, AfterEach_append]; refine ⟨k1, ?_⟩
  have a1 : (flushIPSetsAB s0).1.addedSets = [] := rfl
  have c1 := AfterEach_last k1
  generalize hs1 : (flushIPSetsAB s0).1 = s1 at i1 a1 ⊢
  generalize hd1 : d0.applyAll (flushIPSetsAB s0).2 = d1 at i1 c1 ⊢
  -- policy updates
  have k2 := closed_policyUpdates i1 hu c1 a1
  have i2 := (ok_policyUpdates s1 u d1 i1).2
  rw [runPhases_cons, AfterEach_append]; refine ⟨k2, ?_⟩
  have a2 : (flushPolicyUpdates s1).1.addedSets = [] := a1
  have p2 : (flushPolicyUpdates s1).1.pol.upd = [] := rfl
  have c2 := AfterEach_last k2
  generalize hs2 : (flushPolicyUpdates s1).1 = s2 at i2 a2 p2 ⊢
  generalize hd2 : d1.applyAll (flushPolicyUpdates s1).2 = d2 at i2 c2 ⊢
  -- profile updates
  have k3 := closed_profileUpdates i2 hu c2 a2
  have i3 := (ok_profileUpdates s2 u d2 i2).2
  rw [runPhases_cons, AfterEach_append]; refine ⟨k3, ?_⟩
  have p3 : (flushProfileUpdates s2).1.pol.upd = [] := p2
  have q3 : (flushProfileUpdates s2).1.prof.upd = [] := rfl
  have c3 := AfterEach_last k3
  generalize hs3 : (flushProfileUpdates s2).1 = s3 at i3 p3 q3 ⊢
  generalize hd3 : d2.applyAll (flushProfileUpdates s2).2 = d3 at i3 c3 ⊢
  -- endpoint updates
  have k4 := closed_endpointUpdates i3 hu c3 p3 q3
  have i4 := (ok_endpointUpdates s3 u d3 i3).2
  rw [runPhases_cons, AfterEach_append]; refine ⟨k4, ?_⟩
  have p4 : (flushEndpointTierUpdates s3).1.pol.upd = [] := p3
  have q4 : (flushEndpointTierUpdates s3).1.prof.upd = [] := q3
  have e4 : (flushEndpointTierUpdates s3).1.ep.upd = [] := rfl
  have c4 := AfterEach_last k4
  generalize hs4 : (flushEndpointTierUpdates s3).1 = s4 at i4 p4 q4 e4 ⊢
  generalize hd4 : d3.applyAll (flushEndpointTierUpdates s3).2 = d4 at i4 c4 ⊢
  -- endpoint deletes
  have k5 := closed_endpointDeletes (s := s4) c4
  have i5 := (ok_endpointDeletes s4 u d4 i4).2
  rw [runPhases_cons, AfterEach_append]; refine ⟨k5, ?_⟩
  have p5 : (flushEndpointTierDeletes s4).1.pol.upd = [] := p4
  have q5 : (flushEndpointTierDeletes s4).1.prof.upd = [] := q4
  have e5 : (flushEndpointTierDeletes s4).1.ep.upd = [] := e4
  have f5 : (flushEndpointTierDeletes s4).1.ep.del = [] := rfl
  have c5 := AfterEach_last k5
  generalize hs5 : (flushEndpointTierDeletes s4).1 = s5 at i5 p5 q5 e5 f5 ⊢
  generalize hd5 : d4.applyAll (flushEndpointTierDeletes s4).2 = d5 at i5 c5 ⊢
  -- profile deletes
  have k6 := closed_profileDeletes i5 hu c5 e5 f5
  have i6 := (ok_profileDeletes s5 u d5 i5).2
  rw [runPhases_cons, AfterEach_append]; refine ⟨k6, ?_⟩
  have p6 : (flushProfileDeletes s5).1.pol.upd = [] := p5
  have q6 : (flushProfileDeletes s5).1.prof.upd = [] := q5
  have r6 : (flushProfileDeletes s5).1.prof.del = [] := rfl
  have e6 : (flushProfileDeletes s5).1.ep.upd = [] := e5
  have f6 : (flushProfileDeletes s5).1.ep.del = [] := f5
  have c6 := AfterEach_last k6
  generalize hs6 : (flushProfileDeletes s5).1 = s6 at i6 p6 q6 r6 e6 f6 ⊢
  generalize hd6 : d5.applyAll (flushProfileDeletes s5).2 = d6 at i6 c6 ⊢
  -- policy deletes
  have k7 := closed_policyDeletes i6 hu c6 e6 f6
  have i7 := (ok_policyDeletes s6 u d6 i6).2
  rw [runPhases_cons, AfterEach_append]; refine ⟨k7, ?_⟩
  have p7 : (flushPolicyDeletes s6).1.pol.upd = [] := p6
  have o7 : (flushPolicyDeletes s6).1.pol.del = [] := rfl
  have q7 : (flushPolicyDeletes s6).1.prof.upd = [] := q6
  have r7 : (flushPolicyDeletes s6).1.prof.del = [] := r6
  have c7 := AfterEach_last k7
  generalize hs7 : (flushPolicyDeletes s6).1 = s7 at i7 p7 o7 q7 r7 ⊢
  generalize hd7 : d6.applyAll (flushPolicyDeletes s6).2 = d7 at i7 c7 ⊢
  -- IP set removes
  have k8 := closed_removedIPSets i7 hu c7 p7 o7 q7 r7
  rw [runPhases_cons, AfterEach_append]; refine ⟨k8, ?_⟩
  have c8 := AfterEach_last k8
  -- the rest never touches these objects
  exact (closed_nonMain (nm_rest _) c8).1

end CalicoVerif.C02
