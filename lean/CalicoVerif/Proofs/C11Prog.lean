import CalicoVerif.Proofs.C11RuleGuard
import CalicoVerif.Proofs.C11Tiers
/-!
C11 — the policy part of the program (`hostPart` ++ `workloadPart` of the
builder model) decides the reference verdict: it continues at `allow`, `deny`
or `xdp_pass` of the footer.
-/
namespace CalicoVerif.C11

theorem Decides.cons_label {env : Env} {st : List Byte} {B : List Ev} {t : Option Label} (l : Label)
    (h : Decides env st B t) : Decides env st (.label l :: B) t := by
  intro rest m hI
  obtain ⟨m', hI', e⟩ := h rest m hI
  exact ⟨m', hI', by rw [List.cons_append, lrun_label, e]⟩

theorem Decides.jump (env : Env) (st : List Byte) (l : Label) : Decides env st [jump l] (some l) := by
  intro rest m hI
  exact ⟨m, hI, by simp only [List.cons_append, List.nil_append]; rw [lrun_jump]⟩

theorem Decides.congr {env : Env} {st : List Byte} {B : List Ev} {t t' : Option Label}
    (h : Decides env st B t) (e : t = t') : Decides env st B t' := e ▸ h

/-- Conditional jump forward to a label `l` placed between two blocks. -/
theorem Decides.branch {env : Env} {st : List Byte} {B1 X Y : List Ev} {c : Bool} {l : Label} {tX tY : Option Label}
    (h1 : Decides env st B1 (if c then some l else none)) (hX : Decides env st X tX) (hY : Decides env st Y tY)
    (hlX : l ∉ labelsOf X) (hXY : ∀ l', tX = some l' → l' ≠ l ∧ l' ∉ labelsOf Y) :
    Decides env st (B1 ++ X ++ [.label l] ++ Y) (if c then tY else (tX.or tY)) := by
  intro rest m hI
  obtain ⟨m1, hI1, e1⟩ := h1 (X ++ [.label l] ++ Y ++ rest) m hI
  have hassoc : B1 ++ X ++ [.label l] ++ Y ++ rest = B1 ++ (X ++ [.label l] ++ Y ++ rest) := by
    simp only [List.append_assoc]
  rw [hassoc, e1]
  cases c with
  | true =>
    simp only [if_true]
    obtain ⟨m2, hI2, e2⟩ := hY rest m1 hI1
    refine ⟨m2, hI2, ?_⟩
    rw [List.append_assoc, List.append_assoc, goto_append _ m1 hlX]
    simp only [List.cons_append, List.nil_append]
    rw [goto_label_self, e2]
  | false =>
    simp only [Bool.false_eq_true, if_false]
    obtain ⟨m2, hI2, e2⟩ := hX ([.label l] ++ Y ++ rest) m1 hI1
    have hassoc2 : X ++ [.label l] ++ Y ++ rest = X ++ ([.label l] ++ Y ++ rest) := by simp only [List.append_assoc]
    rw [hassoc2, e2]
    cases tX with
    | some l' =>
      obtain ⟨hne, hnY⟩ := hXY l' rfl
      refine ⟨m2, hI2, ?_⟩
      simp only [Option.some_or, List.cons_append, List.nil_append]
      rw [goto_cons_label_ne env _ m2 (fun e => hne e.symm), goto_append rest m2 hnY]
    | none =>
      obtain ⟨m3, hI3, e3⟩ := hY rest m2 hI2
      refine ⟨m3, hI3, ?_⟩
      simp only [Option.none_or, List.cons_append, List.nil_append]
      rw [lrun_label, e3]

/-- `writeJumpIfToOrFromHost`. -/
theorem decides_tofh (env : Env) (st : List Byte) (hlen : st.length = 512) (l : Label) :
    Decides env st (jumpIfToOrFromHost l) (if toOrFromHost (pktOfD st) then some l else none) := by
  intro rest m hI
  have e1 := fun nxt => step_ldx_state_raw (env := env) hI.r9 hI.sim.len opLoadReg64 1 368 8 0 nxt
    (Or.inr (Or.inr (Or.inr ⟨rfl, rfl⟩))) (by omega) (by omega)
  have hI1 := hI.setReg 1 (BitVec.ofNat 64 (fieldN m.st 368 8)) (by omega) (by omega) (by omega)
  have hI2 := hI1.setReg 1 (BitVec.ofNat 64 (fieldN m.st 368 8) &&& sext32 12) (by omega) (by omega) (by omega)
  have rl : ∀ {mm : Mach}, Inv st mm → 1 < mm.regs.length := fun h => by rw [h.regsLen]; omega
  have e2 := fun nxt => step_andImm64 env (m.setReg 1 (BitVec.ofNat 64 (fieldN m.st 368 8))) 1 0 12 nxt _ (by omega)
    (reg_setReg_eq (rl hI))
  have e3 := step_jcond64 (env := env) (m := (m.setReg 1 (BitVec.ofNat 64 (fieldN m.st 368 8))).setReg 1
    (BitVec.ofNat 64 (fieldN m.st 368 8) &&& sext32 12)) opJumpNEImm64 1 0 0 none _ (Or.inr (Or.inl rfl))
    (reg_setReg_eq (rl hI1))
  refine ⟨_, hI2, ?_⟩
  simp only [jumpIfToOrFromHost, load64, andImm64, jumpNEImm64, mk, mkJ, R1, R9, stateOffFlags, stateEventHdrSize,
    flagHostBits, List.cons_append, List.nil_append]
  refine (lrun_ins_next (e1 _)).trans ?_
  refine (lrun_ins_next (e2 _)).trans ?_
  have hc : cond (opJumpNEImm64 / 16) (BitVec.ofNat 64 (fieldN m.st 368 8) &&& sext32 12) (sext32 0) =
      some (toOrFromHost (pktOfD st)) := by
    have h12 : sext32 12 = 12#64 := by decide
    rw [h12, hI.sim.flags]
    simp only [cond, opJumpNEImm64, toOrFromHost, pktOfD, sext32]
    rfl
  rw [hc] at e3
  cases hb : toOrFromHost (pktOfD st) with
  | true => rw [hb] at e3; simpa using lrun_jmp_taken (by decide) e3
  | false => rw [hb] at e3; simpa using lrun_jmp_next (by decide) e3

/-! ### Hypotheses on the configuration -/

/-- Every policy / profile rule has an allow/deny/pass/next-tier/log action and is API-valid. -/
def TiersGood (ts : List Tier) : Prop :=
  ∀ t ∈ ts, ∀ pol ∈ t.policies, ∀ rule ∈ pol.rules, rule.tierAction = true ∧ RuleOK rule

def ProfsGood (ps : List Policy) : Prop :=
  ∀ pol ∈ ps, ∀ rule ∈ pol.rules, rule.tierAction = true ∧ RuleOK rule

structure ProgOK (env : Env) (st : List Byte) (r : Rules) : Prop where
  ctx : SetCtx env st
  gT : TiersGood r.tiers
  gHP : TiersGood r.hostPreDnatTiers
  gHF : TiersGood r.hostForwardTiers
  gHN : TiersGood r.hostNormalTiers
  gP : ProfsGood r.profiles
  gHPR : ProfsGood r.hostProfiles

theorem TiersGood.plain {env : Env} {st : List Byte} (hc : SetCtx env st) {ts : List Tier} (h : TiersGood ts) :
    TiersPlain env st (pktOfD st) ts :=
  fun t ht pol hp rule hr => ⟨(h t ht pol hp rule hr).1, ruleGuarded_v4 env st hc rule (h t ht pol hp rule hr).2⟩

theorem ProfsGood.plain {env : Env} {st : List Byte} (hc : SetCtx env st) {ps : List Policy} (h : ProfsGood ps) :
    ProfilesPlain env st (pktOfD st) ps :=
  fun pol hp rule hr => ⟨(h pol hp rule hr).1, ruleGuarded_v4 env st hc rule (h pol hp rule hr).2⟩

def vlabel : Verdict → Label
  | .allow => .allow
  | .deny => .deny
  | .xdpPass => .xdpPass

/-! ### Workload part -/

theorem decides_workload (env : Env) (st : List Byte) (r : Rules) (hok : ProgOK env st r) (rid tid : Nat) :
    Decides env st (flat (workloadPart env.c r rid tid)) (some (vlabel (workloadVerdict env r (pktOfD st)))) ∧
    (∀ l ∈ labelsOf (flat (workloadPart env.c r rid tid)), l.isBody = true) := by
  unfold workloadPart workloadVerdict
  by_cases hh : r.forHostInterface = true
  · simp only [hh, if_true, flat]
    exact ⟨Decides.jump env st .allow, by intro l hl; simp [labelsOf, jump, mkJ] at hl⟩
  · have hh' : r.forHostInterface = false := by simpa using hh
    simp only [hh', Bool.false_eq_true, if_false]
    obtain ⟨dT, lT⟩ := tiers_block env st (pktOfD st) .dest .allow r.tiers rid tid (Or.inl rfl) (hok.gT.plain hok.ctx)
    obtain ⟨dP, lP⟩ := profiles_block env st (pktOfD st) .allow r.profiles r.noProfileMatchID
      (writeTiers env.c .dest .allow r.tiers rid tid).2.1 (Or.inl rfl) (hok.gP.plain hok.ctx)
    have hshape : flat (match writeTiers env.c Leg.dest Label.allow r.tiers rid tid with
        | (e, rid', _) =>
          match writeProfiles env.c Label.allow r.profiles r.noProfileMatchID rid' with
          | (p, _) => e ++ p) =
        flat (writeTiers env.c .dest .allow r.tiers rid tid).1 ++
        flat (writeProfiles env.c .allow r.profiles r.noProfileMatchID (writeTiers env.c .dest .allow r.tiers rid tid).2.1).1 := by
      rw [← flat_append]
    rw [hshape]
    refine ⟨?_, ?_⟩
    · have := Decides.seq dT dP (by
        intro l hl hm
        have hb := lP l hm
        cases hd : evalTiers env (pktOfD st) .dest r.tiers <;> simp [hd, tiersDec] at hl <;> subst hl <;> simp [Label.isBody, Label.isRule, Label.isTierEnd] at hb)
      refine this.congr ?_
      cases evalTiers env (pktOfD st) .dest r.tiers <;> simp [tiersDec, vlabel] <;>
        (cases evalProfiles true env (pktOfD st) r.profiles <;> simp [profDec, vlabel])
    · intro l hm
      rw [labelsOf_append, List.mem_append] at hm
      rcases hm with h | h
      · exact lT l h
      · exact lP l h

/-! ### Host part -/

theorem not_mem_of_body {X : List Ev} {l : Label} (h : ∀ l' ∈ labelsOf X, l'.isBody = true) (hl : l.isBody = false) :
    l ∉ labelsOf X := by
  intro hm; rw [h l hm] at hl; cases hl

/-- What the host-policy part decides: `none` = allowed by host policy (go on with
workload policy), else the footer label to continue at. -/
def hostTarget (env : Env) (r : Rules) (p : Pkt) : Option Label :=
  if r.forXDP then
    if r.suppressNormalHostPolicy then none
    else
      match evalTiers env p .destPreNAT r.hostNormalTiers with
      | .allow => none
      | .deny => some .deny
      | _ => some .xdpPass
  else
    match evalTiers env p .destPreNAT r.hostPreDnatTiers with
    | .allow => none
    | .deny => some .deny
    | _ =>
      if toOrFromHost p then
        if r.suppressNormalHostPolicy then none
        else
          match evalTiers env p .dest r.hostNormalTiers with
          | .allow => none
          | .deny => some .deny
          | _ =>
            match evalProfiles true env p r.hostProfiles with
            | .allow => none
            | _ => some .deny
      else
        match evalTiers env p .dest r.hostForwardTiers with
        | .deny => some .deny
        | _ => none

abbrev AHP : Label := .allowedByHostPolicy
abbrev TOFH : Label := .toOrFromHost

theorem hostPart_xdp_sup (c : Cfg) (r : Rules) (h1 : r.forXDP = true) (h2 : r.suppressNormalHostPolicy = true) :
    flat (hostPart c r).1 = [.label AHP] := by
  unfold hostPart; simp [h1, h2, flat]

theorem hostPart_xdp (c : Cfg) (r : Rules) (h1 : r.forXDP = true) (h2 : r.suppressNormalHostPolicy = false) :
    flat (hostPart c r).1 =
      (.label TOFH :: (flat (writeTiers c .destPreNAT AHP r.hostNormalTiers 0 0).1 ++ [jump .xdpPass])) ++ [.label AHP] := by
  unfold hostPart
  simp only [h1, h2, if_true, Bool.not_false]
  cases writeTiers c .destPreNAT AHP r.hostNormalTiers 0 0 with
  | mk e rt => cases rt with
    | mk a b => simp [flat, flat_append]

theorem hostPart_sup (c : Cfg) (r : Rules) (h1 : r.forXDP = false) (h2 : r.suppressNormalHostPolicy = true) :
    flat (hostPart c r).1 =
      (flat (writeTiers c .destPreNAT AHP r.hostPreDnatTiers 0 0).1 ++
        (jumpIfToOrFromHost AHP ++
          (flat (writeTiers c .dest AHP r.hostForwardTiers (writeTiers c .destPreNAT AHP r.hostPreDnatTiers 0 0).2.1
            (writeTiers c .destPreNAT AHP r.hostPreDnatTiers 0 0).2.2).1 ++ [jump AHP]))) ++ [.label AHP] := by
  unfold hostPart
  simp only [h1, h2, Bool.false_eq_true, if_false, if_true, Bool.not_true]
  cases writeTiers c .destPreNAT AHP r.hostPreDnatTiers 0 0 with
  | mk e1 rt1 => cases rt1 with
    | mk a1 b1 =>
      simp only
      cases writeTiers c .dest AHP r.hostForwardTiers a1 b1 with
      | mk e3 rt3 => cases rt3 with
        | mk a3 b3 => simp [flat, flat_append, flat_map_ev]

theorem hostPart_nosup (c : Cfg) (r : Rules) (h1 : r.forXDP = false) (h2 : r.suppressNormalHostPolicy = false) :
    ∃ rid3 tid3 rid5,
    flat (hostPart c r).1 =
      (flat (writeTiers c .destPreNAT AHP r.hostPreDnatTiers 0 0).1 ++
        (jumpIfToOrFromHost TOFH ++
          (flat (writeTiers c .dest AHP r.hostForwardTiers (writeTiers c .destPreNAT AHP r.hostPreDnatTiers 0 0).2.1
            (writeTiers c .destPreNAT AHP r.hostPreDnatTiers 0 0).2.2).1 ++ [jump AHP]) ++ [.label TOFH] ++
          (flat (writeTiers c .dest AHP r.hostNormalTiers rid3 tid3).1 ++
            flat (writeProfiles c AHP r.hostProfiles r.noProfileMatchID rid5).1))) ++ [.label AHP] := by
  unfold hostPart
  simp only [h1, h2, Bool.false_eq_true, if_false, if_true, Bool.not_false]
  cases writeTiers c .destPreNAT AHP r.hostPreDnatTiers 0 0 with
  | mk e1 rt1 => cases rt1 with
    | mk a1 b1 =>
      simp only
      cases h3 : writeTiers c .dest AHP r.hostForwardTiers a1 b1 with
      | mk e3 rt3 => cases rt3 with
        | mk a3 b3 =>
          simp only
          cases h5 : writeTiers c .dest AHP r.hostNormalTiers a3 b3 with
          | mk e5 rt5 => cases rt5 with
            | mk a5 b5 =>
              simp only
              cases h6 : writeProfiles c AHP r.hostProfiles r.noProfileMatchID a5 with
              | mk e6 a6 =>
                refine ⟨a3, b3, a5, ?_⟩
                simp [flat, flat_append, flat_map_ev, h5, h6]

theorem tiersDec_mem {al : Label} {d : Dec} {l : Label} (h : tiersDec al d = some l) : l = al ∨ l = .deny := by
  cases d <;> simp [tiersDec] at h <;> simp [h]

theorem profDec_mem {al : Label} {d : Dec} {l : Label} (h : profDec al d = some l) : l = al ∨ l = .deny := by
  cases d <;> simp [profDec] at h <;> simp [h]

/-- Labels of the host part: policy-block labels plus the two section labels. -/
def Label.isHost (l : Label) : Bool := l.isBody || l == TOFH || l == AHP

theorem decides_host (env : Env) (st : List Byte) (r : Rules) (hok : ProgOK env st r) :
    Decides env st (flat (hostPart env.c r).1) (hostTarget env r (pktOfD st)) ∧
    (∀ l ∈ labelsOf (flat (hostPart env.c r).1), l.isHost = true) := by
  have hAHP : isAllowLabel AHP := Or.inr rfl
  by_cases hx : r.forXDP = true
  · by_cases hs : r.suppressNormalHostPolicy = true
    · rw [hostPart_xdp_sup env.c r hx hs]
      refine ⟨?_, by intro l hl; simp [labelsOf] at hl; subst hl; rfl⟩
      have := (Decides.nil env st).label AHP
      simpa [hostTarget, hx, hs] using this
    · have hs' : r.suppressNormalHostPolicy = false := by simpa using hs
      rw [hostPart_xdp env.c r hx hs']
      obtain ⟨d, hl⟩ := tiers_block env st (pktOfD st) .destPreNAT AHP r.hostNormalTiers 0 0 hAHP
        (hok.gHN.plain hok.ctx)
      have d2 := Decides.seq d (Decides.jump env st .xdpPass) (by intro l _ hm; simp [labelsOf, jump, mkJ] at hm)
      have d3 := (d2.cons_label TOFH).label AHP
      refine ⟨d3.congr ?_, ?_⟩
      · simp only [hostTarget, hx, hs', if_true, Bool.false_eq_true, if_false]
        cases evalTiers env (pktOfD st) .destPreNAT r.hostNormalTiers <;> simp [tiersDec]
      · intro l hm
        simp only [List.cons_append, labelsOf, labelsOf_append, List.mem_cons, List.mem_append] at hm
        rcases hm with h | (h | h) | h
        · subst h; rfl
        · simp [Label.isHost, hl l h]
        · simp [labelsOf, jump, mkJ] at h
        · simp [labelsOf] at h; subst h; rfl
  · have hx' : r.forXDP = false := by simpa using hx
    obtain ⟨d1, l1⟩ := tiers_block env st (pktOfD st) .destPreNAT AHP r.hostPreDnatTiers 0 0 hAHP
      (hok.gHP.plain hok.ctx)
    obtain ⟨d3, l3⟩ := tiers_block env st (pktOfD st) .dest AHP r.hostForwardTiers
      (writeTiers env.c .destPreNAT AHP r.hostPreDnatTiers 0 0).2.1
      (writeTiers env.c .destPreNAT AHP r.hostPreDnatTiers 0 0).2.2 hAHP (hok.gHF.plain hok.ctx)
    have dX := Decides.seq d3 (Decides.jump env st AHP) (by intro l _ hm; simp [labelsOf, jump, mkJ] at hm)
    have lX : ∀ l ∈ labelsOf (flat (writeTiers env.c .dest AHP r.hostForwardTiers
        (writeTiers env.c .destPreNAT AHP r.hostPreDnatTiers 0 0).2.1
        (writeTiers env.c .destPreNAT AHP r.hostPreDnatTiers 0 0).2.2).1 ++ [jump AHP]), l.isBody = true := by
      intro l hm
      rw [labelsOf_append, List.mem_append] at hm
      rcases hm with h | h
      · exact l3 l h
      · simp [labelsOf, jump, mkJ] at h
    by_cases hs : r.suppressNormalHostPolicy = true
    · rw [hostPart_sup env.c r hx' hs]
      have d2 := decides_tofh env st hok.ctx.len AHP
      have dA1 := Decides.seq d2 dX (by
        intro l hl; split at hl
        · cases hl; exact not_mem_of_body lX rfl
        · cases hl)
      have lA1 : ∀ l ∈ labelsOf (jumpIfToOrFromHost AHP ++ (flat (writeTiers env.c .dest AHP r.hostForwardTiers
          (writeTiers env.c .destPreNAT AHP r.hostPreDnatTiers 0 0).2.1
          (writeTiers env.c .destPreNAT AHP r.hostPreDnatTiers 0 0).2.2).1 ++ [jump AHP])), l.isBody = true := by
        intro l hm
        rw [labelsOf_append, List.mem_append] at hm
        rcases hm with h | h
        · simp [jumpIfToOrFromHost, labelsOf, load64, andImm64, jumpNEImm64, mk, mkJ] at h
        · exact lX l h
      have dA := Decides.seq d1 dA1 (by
        intro l hl
        rcases tiersDec_mem hl with rfl | rfl <;> exact not_mem_of_body lA1 rfl)
      refine ⟨(dA.label AHP).congr ?_, ?_⟩
      · simp only [hostTarget, hx', hs, Bool.false_eq_true, if_false, if_true]
        cases evalTiers env (pktOfD st) .destPreNAT r.hostPreDnatTiers <;>
          cases toOrFromHost (pktOfD st) <;>
          cases evalTiers env (pktOfD st) .dest r.hostForwardTiers <;> simp [tiersDec]
      · intro l hm
        rw [labelsOf_append, labelsOf_append, List.mem_append, List.mem_append] at hm
        rcases hm with (h | h) | h
        · simp [Label.isHost, l1 l h]
        · simp [Label.isHost, lA1 l h]
        · simp [labelsOf] at h; subst h; rfl
    · have hs' : r.suppressNormalHostPolicy = false := by simpa using hs
      obtain ⟨rid3, tid3, rid5, hshape⟩ := hostPart_nosup env.c r hx' hs'
      rw [hshape]
      obtain ⟨d5, l5⟩ := tiers_block env st (pktOfD st) .dest AHP r.hostNormalTiers rid3 tid3 hAHP
        (hok.gHN.plain hok.ctx)
      obtain ⟨d6, l6⟩ := profiles_block env st (pktOfD st) AHP r.hostProfiles r.noProfileMatchID rid5 hAHP
        (hok.gHPR.plain hok.ctx)
      have dY := Decides.seq d5 d6 (by
        intro l hl
        rcases tiersDec_mem hl with rfl | rfl <;> exact not_mem_of_body l6 rfl)
      have lY : ∀ l ∈ labelsOf (flat (writeTiers env.c .dest AHP r.hostNormalTiers rid3 tid3).1 ++
          flat (writeProfiles env.c AHP r.hostProfiles r.noProfileMatchID rid5).1), l.isBody = true := by
        intro l hm
        rw [labelsOf_append, List.mem_append] at hm
        rcases hm with h | h
        · exact l5 l h
        · exact l6 l h
      have d2 := decides_tofh env st hok.ctx.len TOFH
      have dA1 := Decides.branch d2 dX dY (not_mem_of_body lX rfl) (by
        intro l' hl'
        have : l' = AHP ∨ l' = .deny := by
          cases hd : evalTiers env (pktOfD st) .dest r.hostForwardTiers <;> simp [hd, tiersDec] at hl' <;> simp [hl']
        rcases this with rfl | rfl
        · exact ⟨by simp, not_mem_of_body lY rfl⟩
        · exact ⟨by simp, not_mem_of_body lY rfl⟩)
      have lA1 : ∀ l ∈ labelsOf (jumpIfToOrFromHost TOFH ++ (flat (writeTiers env.c .dest AHP r.hostForwardTiers
          (writeTiers env.c .destPreNAT AHP r.hostPreDnatTiers 0 0).2.1
          (writeTiers env.c .destPreNAT AHP r.hostPreDnatTiers 0 0).2.2).1 ++ [jump AHP]) ++ [.label TOFH] ++
          (flat (writeTiers env.c .dest AHP r.hostNormalTiers rid3 tid3).1 ++
            flat (writeProfiles env.c AHP r.hostProfiles r.noProfileMatchID rid5).1)),
          l.isBody = true ∨ l = TOFH := by
        intro l hm
        simp only [labelsOf_append, List.mem_append] at hm
        rcases hm with ((h | h) | h) | h
        · simp [jumpIfToOrFromHost, labelsOf, load64, andImm64, jumpNEImm64, mk, mkJ] at h
        · exact Or.inl (lX l (by rw [labelsOf_append, List.mem_append]; exact h))
        · simp [labelsOf] at h; exact Or.inr h
        · exact Or.inl (lY l (by rw [labelsOf_append, List.mem_append]; exact h))
      have dA := Decides.seq d1 dA1 (by
        intro l hl hm
        rcases tiersDec_mem hl with rfl | rfl <;> rcases lA1 _ hm with h | h <;> simp [Label.isBody, Label.isRule, Label.isTierEnd] at h)
      refine ⟨(dA.label AHP).congr ?_, ?_⟩
      · simp only [hostTarget, hx', hs', Bool.false_eq_true, if_false]
        cases evalTiers env (pktOfD st) .destPreNAT r.hostPreDnatTiers <;>
          cases toOrFromHost (pktOfD st) <;>
          cases evalTiers env (pktOfD st) .dest r.hostForwardTiers <;>
          cases evalTiers env (pktOfD st) .dest r.hostNormalTiers <;>
          cases evalProfiles true env (pktOfD st) r.hostProfiles <;> simp [tiersDec, profDec]
      · intro l hm
        rw [labelsOf_append, labelsOf_append, List.mem_append, List.mem_append] at hm
        rcases hm with (h | h) | h
        · simp [Label.isHost, l1 l h]
        · rcases lA1 l h with h' | h'
          · simp [Label.isHost, h']
          · subst h'; rfl
        · simp [labelsOf] at h; subst h; rfl

end CalicoVerif.C11
