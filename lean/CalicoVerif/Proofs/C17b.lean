import CalicoVerif.Proofs.C17a
namespace CalicoVerif.C17

/-- The candidates `recalculateDesiredKernelRoute` considers for a destination: targets for that
CIDR whose interface is known and up, with the interface index. -/
def RT.cands (t : RT) (cidr : String) : List (Want × Nat) :=
  t.wants.filterMap (fun w =>
    if w.cidr == cidr then
      match t.ifaces.get w.iface with
      | some i => if i.up then some (w, i.idx) else none
      | none => none
    else none)

theorem best_eq (t : RT) (cidr : String) : t.best cidr = (t.cands cidr).foldl pick none := rfl

/-- **class_priority_wins**: the route chosen for a destination is one of the live candidates and no
live candidate has a lower route class, or the same class and a higher interface index. -/
theorem best_spec (t : RT) (cidr : String) (r : Want × Nat) (h : t.best cidr = some r) :
    r ∈ t.cands cidr ∧ ∀ x ∈ t.cands cidr, better x r = false := by
  rw [best_eq] at h
  have := foldl_pick_spec (t.cands cidr) none (fun _ _ => trivial) r h
  refine ⟨?_, this.2.1⟩
  rcases this.1 with h0 | h0
  · simp at h0
  · exact h0

/-- ... and a destination with at least one live candidate always gets a route. -/
theorem best_isSome (t : RT) (cidr : String) (x : Want × Nat) (hx : x ∈ t.cands cidr) :
    (t.best cidr).isSome = true := by
  rw [best_eq]
  have key : ∀ (l : List (Want × Nat)) (acc : Option (Want × Nat)), (acc.isSome = true ∨ l ≠ []) →
      (l.foldl pick acc).isSome = true := by
    intro l
    induction l with
    | nil => intro acc h; rcases h with h | h; exact h; exact absurd rfl h
    | cons c cs ih =>
      intro acc _
      simp only [List.foldl]
      apply ih
      left
      cases acc with
      | none => rfl
      | some b => simp only [pick]; split <;> rfl
  exact key _ _ (Or.inr (List.ne_nil_of_mem hx))

/-! ### unowned_routes_unchanged -/

def SameWants (a b : RT) : Prop := a.wants = b.wants ∧ a.ifaces = b.ifaces ∧ a.defProto = b.defProto

theorem desired_congr {a b : RT} (h : SameWants a b) (c : String) : a.desired c = b.desired c := by
  unfold RT.desired RT.best
  rw [h.1, h.2.1, h.2.2]

theorem deleteStep_inv (c : String) (w0 : W) :
    ∀ (dels : List String) (acc : W × Bool), (∀ k ∈ dels, k ≠ c) →
      acc.1.K.get c = w0.K.get c ∧ SameWants acc.1.t w0.t →
      let r := dels.foldl (fun (acc : W × Bool) k =>
        let (w, err) := acc
        if w.f.del then ({ w with f := { w.f with del := false } }, true)
        else ({ w with K := w.K.erase k, t := { w.t with dp := w.t.dp.erase k } }, err)) acc
      r.1.K.get c = w0.K.get c ∧ SameWants r.1.t w0.t := by
  intro dels
  induction dels with
  | nil => intro acc _ h; exact h
  | cons k ks ih =>
    intro acc hne h
    simp only [List.foldl]
    apply ih _ (fun k' hk' => hne k' (List.mem_cons_of_mem _ hk'))
    obtain ⟨w, err⟩ := acc
    dsimp only at h ⊢
    split
    · exact h
    · refine ⟨?_, h.2⟩
      dsimp only
      rw [Map.get_erase]
      have : c ≠ k := fun e => hne k List.mem_cons_self e.symm
      simp [this, h.1]

/-- The deletion pass only removes routes that are in Felix's dataplane view. -/
theorem deletePass_other (w : W) (c : String) (hc : c ∉ w.t.dp.keys) :
    w.deletePass.1.K.get c = w.K.get c ∧ SameWants w.deletePass.1.t w.t := by
  unfold W.deletePass
  apply deleteStep_inv c w _ (w, false)
  · intro k hk
    have := List.mem_mergeSort.1 hk
    rw [List.mem_eraseDups] at this
    have hk' := (List.mem_filter.1 this).1
    rintro rfl; exact hc hk'
  · exact ⟨rfl, rfl, rfl, rfl⟩

theorem updateStep_inv (c : String) (w0 : W) (hd : w0.t.desired c = none) :
    ∀ (ups : List String) (acc : W × Bool),
      acc.1.K.get c = w0.K.get c ∧ SameWants acc.1.t w0.t →
      let r := ups.foldl (fun (acc : W × Bool) k =>
        let (w, err) := acc
        match w.t.desired k with
        | none => (w, err)
        | some r =>
          if w.f.replace then ({ w with f := { w.f with replace := false } }, true)
          else ({ w with K := w.K.set k r, t := { w.t with dp := w.t.dp.set k r } }, err)) acc
      r.1.K.get c = w0.K.get c ∧ SameWants r.1.t w0.t := by
  intro ups
  induction ups with
  | nil => intro acc h; exact h
  | cons k ks ih =>
    intro acc h
    simp only [List.foldl]
    apply ih
    obtain ⟨w, err⟩ := acc
    dsimp only at h ⊢
    split
    · exact h
    · rename_i r hr
      split
      · exact h
      · refine ⟨?_, h.2⟩
        dsimp only
        rw [Map.get_set]
        have : c ≠ k := by
          rintro rfl
          rw [desired_congr h.2 c, hd] at hr; simp at hr
        simp [this, h.1]

/-- The update pass only writes routes for destinations Felix wants. -/
theorem updatePass_other (w : W) (c : String) (hd : w.t.desired c = none) :
    w.updatePass.1.K.get c = w.K.get c ∧ SameWants w.updatePass.1.t w.t := by
  unfold W.updatePass
  exact updateStep_inv c w hd _ (w, false) ⟨rfl, rfl, rfl, rfl⟩

end CalicoVerif.C17
